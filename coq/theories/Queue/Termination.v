(* next(queue) terminates and never trips an assert — for EVERY queue state,
   reachable or not.  The measure mu (Model.v) strictly decreases at every
   iteration of the loops of _populate_staging and of the `while True` of
   __next__, so the fuel fuel_of q = mu q + 2 is never exhausted. *)
From Coq Require Import ZArith List Bool Lia Permutation Arith.
From CSS Require Import Queue.Model Queue.Lists.
Import ListNotations.
Open Scope nat_scope.

Ltac dif :=
  repeat match goal with
         | |- context [if ?b then _ else _] => destruct b eqn:?
         end.

Section Term.
Variable inferral_strategies : list Z.
Variable initial_strategies : list Z.
Variable expansion_strats : list (list Z).

Notation iter_helper_working := (iter_helper_working inferral_strategies initial_strategies).
Notation populate_working := (populate_working inferral_strategies initial_strategies).
Notation iter_helper_curr := (iter_helper_curr expansion_strats).
Notation populate_curr := (populate_curr expansion_strats).
Notation populate_staging := (populate_staging inferral_strategies initial_strategies expansion_strats).
Notation next_fuel := (next_fuel inferral_strategies initial_strategies expansion_strats).
Notation next := (next inferral_strategies initial_strategies expansion_strats).

Lemma ihw_fields q l w :
  working q = l :: w ->
  let q' := iter_helper_working q in
  working q' = w /\ curr_level q' = curr_level q /\
  length (next_level q') <= S (length (next_level q)) /\
  queue_sizes q' = queue_sizes q /\ ignore q' = ignore q.
Proof.
  intros H. unfold Model.iter_helper_working. rewrite H.
  unfold set_not_inferrable, set_not_initial, stage, can_do_inferral, can_do_initial.
  cbn. dif; cbn; csplit; auto using length_ctr_incr.
Qed.

Lemma ihw_mu q : working q <> [] -> mu (iter_helper_working q) < mu q.
Proof.
  intros H. destruct (working q) as [|l w] eqn:E; [congruence|].
  destruct (ihw_fields q l w E) as (W & C & N & _).
  unfold mu. rewrite W, C, E. simpl length. nia.
Qed.

Lemma pw_post n q :
  length (working q) <= n ->
  staging (populate_working n q) <> [] \/ working (populate_working n q) = [].
Proof.
  revert q. induction n as [|n IH]; intros q H; simpl.
  - right. destruct (working q); [reflexivity|simpl in H; lia].
  - destruct (staging q) as [|p s] eqn:St; simpl.
    + destruct (working q) as [|l w] eqn:W; simpl; [right; exact W|].
      apply IH. destruct (ihw_fields q l w W) as (W' & _). rewrite W'. simpl in H. lia.
    + left. rewrite St. discriminate.
Qed.

Lemma pw_mu n q : mu (populate_working n q) <= mu q.
Proof.
  revert q. induction n as [|n IH]; intros q; simpl; [lia|].
  destruct (staging q); simpl; [|lia].
  destruct (working q) eqn:W; simpl; [lia|].
  pose proof (IH (iter_helper_working q)).
  assert (working q <> []) as Hn by congruence.
  pose proof (ihw_mu q Hn). lia.
Qed.

Lemma pw_mu_strict n q :
  staging q = [] -> staging (populate_working n q) <> [] -> mu (populate_working n q) < mu q.
Proof.
  destruct n as [|n]; simpl; intros St H; [congruence|].
  rewrite St in *. simpl in *.
  destruct (working q) eqn:W; simpl in *; [congruence|].
  assert (working q <> []) as Hn by congruence.
  pose proof (ihw_mu q Hn). pose proof (pw_mu n (iter_helper_working q)). lia.
Qed.

Lemma pw_staging_kept n q : staging q <> [] -> populate_working n q = q.
Proof.
  destruct n; simpl; [reflexivity|]. destruct (staging q); [congruence|reflexivity].
Qed.

(* _iter_helper_curr *)
Lemma ihc_spec q :
  match iter_helper_curr q with
  | POk q2 => any_curr (curr_level q) = true /\ mu q2 < mu q /\ working q2 = working q
  | PAssert q2 => any_curr (curr_level q) = false
  | _ => False
  end.
Proof.
  unfold Model.iter_helper_curr.
  destruct (pop_first 0 (curr_level q)) as [[[idx l] cl]|] eqn:E.
  - assert (any_curr (curr_level q) = true) as A.
    { destruct (any_curr (curr_level q)) eqn:A; [reflexivity|].
      apply pop_first_none with (i := 0) in A. congruence. }
    destruct (pop_first_spec _ _ _ _ _ E) as (L & R & C & _).
    destruct (Nat.eqb idx (length expansion_strats)); csplit; auto.
    + unfold mu, set_stop_yielding, set_curr_level. cbn [working next_level curr_level].
      pose proof (length_ctr_pop (next_level q) l). rewrite L.
      generalize dependent (length (ctr_pop (next_level q) l)). intros. nia.
    + unfold mu, stage, set_curr_level, set_staging. cbn [working next_level curr_level].
      rewrite length_append_at, cw_append_at, L. nia.
  - apply pop_first_none in E. exact E.
Qed.

(* _change_level *)
Lemma change_level_spec q :
  staging q = [] -> working q = [] -> any_curr (curr_level q) = false ->
  match change_level q with
  | POk q1 => any_curr (curr_level q1) = true /\ mu q1 < mu q /\ working q1 = [] /\ staging q1 = []
  | PStop q1 => q1 = q
  | _ => False
  end.
Proof.
  intros St W A. unfold change_level. rewrite St, W, A. cbn [nonempty orb].
  set (ls := map fst (sort_desc (next_level q))).
  assert (length ls = length (next_level q)) as Len.
  { unfold ls. rewrite map_length. apply Permutation_length. apply sort_desc_perm. }
  destruct (curr_level q) as [|d r] eqn:C.
  - cbn. destruct q; cbn in *. subst. reflexivity.
  - cbn [set_curr_level extend_first curr_level].
    cbn in A. destruct d; cbn in A; [|discriminate].
    cbn [app].
    destruct ls as [|x ls'] eqn:Els.
    + cbn. rewrite A. cbn. destruct q; cbn in *. subst. reflexivity.
    + cbn [any_curr existsb nonempty orb negb]. cbn [working staging]. csplit; auto.
      unfold mu. cbn. rewrite C. cbn. rewrite W. cbn in Len. cbn. nia.
Qed.

Lemma change_level_assert q q' :
  change_level q = PAssert q' ->
  ~ (staging q = [] /\ working q = [] /\ any_curr (curr_level q) = false).
Proof.
  intros H (St & W & A). pose proof (change_level_spec q St W A) as X. rewrite H in X. exact X.
Qed.

(* the state in which next(queue) raises StopIteration *)
Definition dry (q : queue) : Prop :=
  staging q = [] /\ working q = [] /\ any_curr (curr_level q) = false /\
  change_level q = PStop q.

(* second loop of _populate_staging *)
Lemma populate_curr_spec n q :
  working q = [] -> mu q < n ->
  match populate_curr n q with
  | POk q' => staging q' <> [] /\ mu q' <= mu q /\ (staging q = [] -> mu q' < mu q)
  | PStop q' => dry q' /\ mu q' <= mu q
  | _ => False
  end.
Proof.
  revert q. induction n as [|n IH]; intros q W M; [lia|].
  cbn [Model.populate_curr].
  destruct (nonempty (staging q)) eqn:NE.
  { csplit; [destruct (staging q); [discriminate|congruence] | lia
            | intros E; rewrite E in NE; discriminate]. }
  assert (staging q = []) as St by (destruct (staging q); [reflexivity|discriminate]).
  assert (forall q1, any_curr (curr_level q1) = true -> working q1 = [] -> mu q1 <= mu q ->
     match match iter_helper_curr q1 with POk q2 => populate_curr n q2 | r => r end with
     | POk q' => staging q' <> [] /\ mu q' <= mu q /\ (staging q = [] -> mu q' < mu q)
     | PStop q' => dry q' /\ mu q' <= mu q
     | _ => False
     end) as Step.
  { intros q1 A1 W1 M1. pose proof (ihc_spec q1) as X.
    destruct (iter_helper_curr q1) as [q2|q2|q2|q2]; try tauto; [|congruence].
    destruct X as (_ & M2 & W2).
    specialize (IH q2). rewrite W2 in IH. specialize (IH W1).
    assert (mu q2 < n) as M2' by lia. specialize (IH M2').
    destruct (populate_curr n q2) as [q'|q'|q'|q']; try tauto.
    - destruct IH as (S' & M' & _). csplit; auto; lia.
    - destruct IH as (D & M'). split; [exact D|lia]. }
  destruct (any_curr (curr_level q)) eqn:A; cbn [negb].
  - apply Step; auto.
  - pose proof (change_level_spec q St W A) as X.
    destruct (change_level q) as [q1|q1|q1|q1] eqn:CL; try tauto.
    + destruct X as (A1 & M1 & W1 & S1). apply Step; auto. lia.
    + subst q1. split; [|lia]. unfold dry. auto.
Qed.

Lemma populate_curr_staged n q : staging q <> [] -> populate_curr (S n) q = POk q.
Proof. intros H. cbn. destruct (staging q); [congruence|reflexivity]. Qed.

Lemma mu_set_staging q x : mu (set_staging q x) = mu q.
Proof. reflexivity. Qed.

(* _populate_staging *)
Lemma populate_staging_spec n q :
  staging q = [] -> mu q < n ->
  match populate_staging n q with
  | POk q' => staging q' <> [] /\ mu q' < mu q
  | PStop q' => dry q' /\ mu q' <= mu q
  | _ => False
  end.
Proof.
  intros St M. unfold Model.populate_staging.
  set (q1 := populate_working (length (working q)) q).
  pose proof (pw_mu (length (working q)) q) as M1. fold q1 in M1.
  destruct (pw_post (length (working q)) q (le_n _)) as [S1|W1]; fold q1 in S1 || fold q1 in W1.
  - destruct n as [|n]; [lia|]. rewrite populate_curr_staged by exact S1.
    split; [exact S1|]. apply pw_mu_strict; assumption.
  - destruct (staging q1) eqn:S1.
    + pose proof (populate_curr_spec n q1 W1 ltac:(lia)) as X.
      destruct (populate_curr n q1) as [q'|q'|q'|q']; try tauto.
      * destruct X as (S' & _ & M'). split; [exact S'|]. specialize (M' S1). lia.
      * destruct X as (D & M'). split; [exact D|lia].
    + destruct n as [|n]; [lia|]. rewrite populate_curr_staged by congruence.
      split; [congruence|]. apply pw_mu_strict; [assumption|fold q1; congruence].
Qed.

Lemma drain_none st ign r : drain_staging st ign = (None, r) -> r = [].
Proof.
  induction st as [|p t IH]; simpl; [congruence|].
  destruct (mem (p_label p) ign); [exact IH|congruence].
Qed.

(* __next__ : never out of fuel, never an AssertionError *)
Lemma next_fuel_total n q :
  mu q + 2 <= n ->
  match next_fuel n q with
  | (RPacket _, _) => True
  | (RStop, q') => dry q'
  | _ => False
  end.
Proof.
  revert q. induction n as [|n IH]; intros q M; [lia|].
  cbn [Model.next_fuel].
  destruct (drain_staging (staging q) (ignore q)) as [[wp|] r] eqn:D; [exact I|].
  apply drain_none in D. subst r.
  pose proof (populate_staging_spec n (set_staging q []) eq_refl) as X.
  rewrite mu_set_staging in X. specialize (X ltac:(lia)).
  destruct (populate_staging n (set_staging q [])) as [q'|q'|q'|q']; try tauto.
  destruct X as (_ & M'). apply IH. lia.
Qed.

Lemma next_total q :
  match next q with
  | (RPacket _, _) => True
  | (RStop, q') => dry q'
  | _ => False
  end.
Proof. apply next_fuel_total. unfold fuel_of. lia. Qed.

(* once dry, next(queue) raises StopIteration again and leaves the queue as it is *)
Lemma next_dry q : dry q -> next q = (RStop, q).
Proof.
  intros (St & W & A & C). unfold Model.next, fuel_of.
  replace (mu q + 2) with (Datatypes.S (Datatypes.S (mu q))) by lia.
  cbn [Model.next_fuel]. rewrite St. cbn [drain_staging].
  unfold Model.populate_staging. cbn [working set_staging]. rewrite W. cbn [length Model.populate_working].
  cbn [Model.populate_curr staging set_staging nonempty curr_level]. rewrite A. cbn [negb].
  assert (set_staging q [] = q) as E by (destruct q; cbn in *; subst; reflexivity).
  rewrite E, C. reflexivity.
Qed.

(* more fuel never changes an answer that did not run out of fuel *)
Definition is_pfuel (r : pres) : bool := match r with PFuel _ => true | _ => false end.

Lemma populate_curr_mono n m q :
  n <= m -> is_pfuel (populate_curr n q) = false -> populate_curr m q = populate_curr n q.
Proof.
  revert m q. induction n as [|n IH]; intros m q L H; [discriminate|].
  destruct m as [|m]; [lia|]. cbn [Model.populate_curr] in *.
  destruct (nonempty (staging q)); [reflexivity|].
  destruct (if negb (any_curr (curr_level q)) then change_level q else POk q); try reflexivity.
  destruct (iter_helper_curr q0); try reflexivity.
  apply IH; [lia|exact H].
Qed.

Lemma next_fuel_mono n m q :
  n <= m -> fst (next_fuel n q) <> RFuel -> next_fuel m q = next_fuel n q.
Proof.
  revert m q. induction n as [|n IH]; intros m q L H; [cbn in H; congruence|].
  destruct m as [|m]; [lia|]. cbn [Model.next_fuel] in *.
  destruct (drain_staging (staging q) (ignore q)) as [[wp|] r]; [reflexivity|].
  unfold Model.populate_staging in *.
  set (q1 := populate_working (length (working (set_staging q r))) (set_staging q r)) in *.
  assert (is_pfuel (populate_curr n q1) = false) as NF.
  { destruct (populate_curr n q1); try reflexivity. cbn in H. congruence. }
  rewrite (populate_curr_mono n m q1 ltac:(lia) NF).
  destruct (populate_curr n q1); try reflexivity.
  apply IH; [lia|exact H].
Qed.

Lemma next_fuel_enough n q : fuel_of q <= n -> next_fuel n q = next q.
Proof.
  intros L. apply next_fuel_mono; [exact L|].
  pose proof (next_total q) as X. unfold Model.next in X.
  destruct (next_fuel (fuel_of q) q) as [[p| | |] q']; cbn; try congruence; tauto.
Qed.

End Term.
