(* sx interface of the work-queue model.
   input : L [ inferral ids; initial ids; L [expansion set ids ...]; L [op ...] ]
           op = L [code; label]  code 0 add | 1 set_not_inferrable | 2 set_verified
                                      | 3 set_stop_yielding | 4 next(queue)
                                      | 5 g = queue.do_level() | 6 next(g)
   output: L [ events; queue_sizes; L [len working; L [len of each current deque]; len next_level] ]
           event = L [0] None | L [1; label; strategy ids; inferral] | L [2] StopIteration
                 | L [3] generator finished | L [4] NoMoreClassesToExpandError
                 | L [5] AssertionError | L [6] out of fuel *)
From Coq Require Import ZArith List Bool.
From CSS Require Import Base.Sx Queue.Model.
Import ListNotations.
Open Scope Z_scope.

Definition dec_op (s : sx) : op :=
  let a := sx_Zs s in
  let l := nth 1%nat a 0 in
  match nth 0%nat a 0 with
  | 0 => OAdd l
  | 1 => ONotInf l
  | 2 => OVerified l
  | 3 => OStop l
  | 4 => ONext
  | 5 => ODoLevel
  | _ => OLevelNext
  end.

Definition enc_event (e : event) : sx :=
  match e with
  | ENone => L [I 0]
  | EPacket p => L [I 1; I (p_label p); of_Zs (p_strats p); of_bool (p_inf p)]
  | EStopIteration => L [I 2]
  | EGenStop => L [I 3]
  | ENoMore => L [I 4]
  | EAssert => L [I 5]
  | EFuel => L [I 6]
  end.

Definition run_c16 (inp : sx) : sx :=
  let inf := sx_Zs (sx_nth inp 0) in
  let ini := sx_Zs (sx_nth inp 1) in
  let exps := map sx_Zs (sx_list (sx_nth inp 2)) in
  let ops := map dec_op (sx_list (sx_nth inp 3)) in
  let '(s, evs) := exec inf ini exps (init_state exps) ops in
  let q := sq s in
  L [ L (map enc_event evs);
      of_Zs (queue_sizes q);
      L [ of_nat (length (working q));
          of_nats (map (@length Z) (curr_level q));
          of_nat (length (next_level q)) ] ].
