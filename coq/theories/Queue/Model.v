(* Executable model of comb_spec_searcher/class_queue.py (CSSQueue.__init__,
   DefaultQueue, WorkPacket), transcribed method by method, plus the
   generator DefaultQueue.do_level.  Python behaviour is modelled as it is:
   - deques are lists (popleft = head, append/extend at the end);
   - next_level is a collections.Counter = insertion-ordered dict label -> count
     (update keeps the position of a known key, pop removes the key, a key
     added again goes to the end);
   - sorted(items, key=-count) is a STABLE sort;
   - sets (_inferral_expanded, _initial_expanded, ignore) are observed through
     membership only;
   - the two helpers _iter_helper_working/_iter_helper_curr are generators that
     are consumed completely by staging.extend(...), i.e. their bodies run
     sequentially and every yielded packet is appended to staging;
   - `assert`s are modelled (outcome RAssert) and proved unreachable;
   - the `while True` of __next__ and the second loop of _populate_staging run
     on explicit fuel (outcome RFuel); Proofs.v shows that the fuel computed by
     `fuel_of` (a measure of the queue) is always enough, so `next` is total.
   Strategies are integers (identifiers of the dummy strategies of the pack);
   the pack (inferral, initial, expansion sets) is a Section variable. *)
From Coq Require Import ZArith List Bool.
Import ListNotations.
Open Scope Z_scope.

(* WorkPacket(label, strategies, inferral) *)
Record packet := mkp { p_label : Z; p_strats : list Z; p_inf : bool }.

(* ---- sets observed through membership ---- *)
Definition mem (l : Z) (s : list Z) : bool := existsb (Z.eqb l) s.
Definition set_add (s : list Z) (l : Z) : list Z := l :: s.
Definition set_discard (s : list Z) (l : Z) : list Z :=
  filter (fun x => negb (Z.eqb x l)) s.

(* ---- collections.Counter ---- *)
(* Counter.update((label,)) *)
Fixpoint ctr_incr (c : list (Z * Z)) (l : Z) : list (Z * Z) :=
  match c with
  | [] => [(l, 1)]
  | (k, n) :: t => if Z.eqb k l then (k, n + 1) :: t else (k, n) :: ctr_incr t l
  end.
(* Counter.pop(label, None) *)
Definition ctr_pop (c : list (Z * Z)) (l : Z) : list (Z * Z) :=
  filter (fun kn => negb (Z.eqb (fst kn) l)) c.
(* sorted(counter.items(), key=lambda x: -x[1])  (stable) *)
Fixpoint ins_desc (x : Z * Z) (s : list (Z * Z)) : list (Z * Z) :=
  match s with
  | [] => [x]
  | y :: r => if Z.ltb (snd x) (snd y) then y :: ins_desc x r else x :: y :: r
  end.
Fixpoint sort_desc (c : list (Z * Z)) : list (Z * Z) :=
  match c with
  | [] => []
  | x :: t => ins_desc x (sort_desc t)
  end.

(* ---- the tuple of deques curr_level ---- *)
Definition nonempty {A} (l : list A) : bool := match l with [] => false | _ => true end.
(* any(self.curr_level) *)
Definition any_curr (cl : list (list Z)) : bool := existsb nonempty cl.
(* next((idx, queue.popleft()) for idx, queue in enumerate(self.curr_level) if queue) *)
Fixpoint pop_first (idx : nat) (cl : list (list Z)) : option (nat * Z * list (list Z)) :=
  match cl with
  | [] => None
  | [] :: rest =>
      match pop_first (S idx) rest with
      | Some (i, l, rest') => Some (i, l, [] :: rest')
      | None => None
      end
  | (l :: d) :: rest => Some (idx, l, d :: rest)
  end.
(* self.curr_level[i].append(label)   (i in range by construction) *)
Fixpoint append_at (i : nat) (l : Z) (cl : list (list Z)) : list (list Z) :=
  match cl, i with
  | [], _ => []
  | d :: rest, O => (d ++ [l]) :: rest
  | d :: rest, S i' => d :: append_at i' l rest
  end.
(* self.curr_level[0].extend(labels) *)
Definition extend_first (ls : list Z) (cl : list (list Z)) : list (list Z) :=
  match cl with
  | [] => []
  | d :: rest => (d ++ ls) :: rest
  end.

Section Queue.
Variable inferral_strategies : list Z.        (* tuple(pack.inferral_strats) *)
Variable initial_strategies : list Z.         (* tuple(pack.initial_strats) *)
Variable expansion_strats : list (list Z).    (* tuple(tuple(x) for x in pack.expansion_strats) *)

Record queue := mkq {
  working : list Z;                (* deque *)
  next_level : list (Z * Z);       (* Counter *)
  curr_level : list (list Z);      (* tuple of len(expansion_strats)+1 deques *)
  inferral_expanded : list Z;      (* set *)
  initial_expanded : list Z;       (* set *)
  ignore : list Z;                 (* set *)
  queue_sizes : list Z;            (* list *)
  staging : list packet            (* deque *)
}.

(* DefaultQueue.__init__ *)
Definition init : queue :=
  mkq [] [] (map (fun _ => []) expansion_strats ++ [[]]) [] [] [] [] [].

Definition set_working q x := mkq x (next_level q) (curr_level q) (inferral_expanded q) (initial_expanded q) (ignore q) (queue_sizes q) (staging q).
Definition set_next_level q x := mkq (working q) x (curr_level q) (inferral_expanded q) (initial_expanded q) (ignore q) (queue_sizes q) (staging q).
Definition set_curr_level q x := mkq (working q) (next_level q) x (inferral_expanded q) (initial_expanded q) (ignore q) (queue_sizes q) (staging q).
Definition set_inferral_expanded q x := mkq (working q) (next_level q) (curr_level q) x (initial_expanded q) (ignore q) (queue_sizes q) (staging q).
Definition set_initial_expanded q x := mkq (working q) (next_level q) (curr_level q) (inferral_expanded q) x (ignore q) (queue_sizes q) (staging q).
Definition set_staging q x := mkq (working q) (next_level q) (curr_level q) (inferral_expanded q) (initial_expanded q) (ignore q) (queue_sizes q) x.

(* levels_completed *)
Definition levels_completed (q : queue) : nat := length (queue_sizes q).

(* can_do_inferral / can_do_initial *)
Definition can_do_inferral (q : queue) (l : Z) : bool :=
  nonempty inferral_strategies && negb (mem l (inferral_expanded q)).
Definition can_do_initial (q : queue) (l : Z) : bool :=
  nonempty initial_strategies && negb (mem l (initial_expanded q)).

(* add *)
Definition add (q : queue) (l : Z) : queue :=
  if can_do_inferral q l || can_do_initial q l then set_working q (working q ++ [l])
  else if negb (mem l (ignore q)) then set_next_level q (ctr_incr (next_level q) l)
  else q.

(* set_not_inferrable / set_not_initial *)
Definition set_not_inferrable (q : queue) (l : Z) : queue :=
  if negb (mem l (ignore q)) then set_inferral_expanded q (set_add (inferral_expanded q) l) else q.
Definition set_not_initial (q : queue) (l : Z) : queue :=
  if negb (mem l (ignore q)) then set_initial_expanded q (set_add (initial_expanded q) l) else q.

(* set_stop_yielding *)
Definition set_stop_yielding (q : queue) (l : Z) : queue :=
  mkq (working q) (ctr_pop (next_level q) l) (curr_level q)
      (set_discard (inferral_expanded q) l) (set_discard (initial_expanded q) l)
      (set_add (ignore q) l) (queue_sizes q) (staging q).
(* set_verified *)
Definition set_verified := set_stop_yielding.

Definition stage (q : queue) (ps : list packet) : queue := set_staging q (staging q ++ ps).

Definition inf_packet (l : Z) : packet := mkp l inferral_strategies true.
Definition single_packets (l : Z) (strats : list Z) : list packet :=
  map (fun s => mkp l [s] false) strats.

(* staging.extend(self._iter_helper_working()) ; working is non-empty at the
   only call site (loop condition) *)
Definition iter_helper_working (q : queue) : queue :=
  match working q with
  | [] => q
  | label :: w =>
      let q := set_working q w in
      let q := if can_do_inferral q label
               then set_not_inferrable (stage q [inf_packet label]) label else q in
      let q := if can_do_initial q label
               then set_not_initial (stage q (single_packets label initial_strategies)) label else q in
      set_next_level q (ctr_incr (next_level q) label)
  end.

(* first loop of _populate_staging: every iteration pops one label, so
   len(working) iterations are enough *)
Fixpoint populate_working (n : nat) (q : queue) : queue :=
  match n with
  | O => q
  | S n' =>
      if negb (nonempty (staging q)) && nonempty (working q)
      then populate_working n' (iter_helper_working q) else q
  end.

Inductive pres := POk (q : queue) | PStop (q : queue) | PAssert (q : queue) | PFuel (q : queue).

(* _change_level *)
Definition change_level (q : queue) : pres :=
  if nonempty (staging q) || nonempty (working q) || any_curr (curr_level q) then PAssert q
  else
    let q1 := set_curr_level q (extend_first (map fst (sort_desc (next_level q))) (curr_level q)) in
    if negb (any_curr (curr_level q1)) then PStop q1
    else
      POk (mkq (working q1) [] (curr_level q1) (inferral_expanded q1) (initial_expanded q1)
               (ignore q1) (queue_sizes q1 ++ [Z.of_nat (length (hd [] (curr_level q1)))]) (staging q1)).

(* staging.extend(self._iter_helper_curr()) *)
Definition iter_helper_curr (q : queue) : pres :=
  match pop_first 0 (curr_level q) with
  | None => PAssert q
  | Some (idx, label, cl) =>
      let q := set_curr_level q cl in
      if Nat.eqb idx (length expansion_strats) then POk (set_stop_yielding q label)
      else
        let q := stage q (single_packets label (nth idx expansion_strats [])) in
        POk (set_curr_level q (append_at (S idx) label (curr_level q)))
  end.

(* second loop of _populate_staging *)
Fixpoint populate_curr (n : nat) (q : queue) : pres :=
  match n with
  | O => PFuel q
  | S n' =>
      if nonempty (staging q) then POk q
      else
        match (if negb (any_curr (curr_level q)) then change_level q else POk q) with
        | POk q1 =>
            match iter_helper_curr q1 with
            | POk q2 => populate_curr n' q2
            | r => r
            end
        | r => r
        end
  end.

(* _populate_staging *)
Definition populate_staging (n : nat) (q : queue) : pres :=
  populate_curr n (populate_working (length (working q)) q).

(* inner loop of __next__ *)
Fixpoint drain_staging (st : list packet) (ign : list Z) : option packet * list packet :=
  match st with
  | [] => (None, [])
  | wp :: r => if mem (p_label wp) ign then drain_staging r ign else (Some wp, r)
  end.

Inductive result := RPacket (p : packet) | RStop | RAssert | RFuel.

(* __next__ *)
Fixpoint next_fuel (n : nat) (q : queue) : result * queue :=
  match n with
  | O => (RFuel, q)
  | S n' =>
      match drain_staging (staging q) (ignore q) with
      | (Some wp, r) => (RPacket wp, set_staging q r)
      | (None, r) =>
          match populate_staging n' (set_staging q r) with
          | POk q2 => next_fuel n' q2
          | PStop q2 => (RStop, q2)
          | PAssert q2 => (RAssert, q2)
          | PFuel q2 => (RFuel, q2)
          end
      end
  end.

(* the measure: a label weighs more the further it is from leaving the queue *)
Fixpoint cw (cl : list (list Z)) : nat :=
  match cl with
  | [] => 0
  | d :: r => length cl * length d + cw r
  end.
Definition mu (q : queue) : nat :=
  (length (curr_level q) + 2) * length (working q)
  + (length (curr_level q) + 1) * length (next_level q)
  + cw (curr_level q).
Definition fuel_of (q : queue) : nat := mu q + 2.

Definition next (q : queue) : result * queue := next_fuel (fuel_of q) q.

(* ---- do_level: a generator; its body starts at the first next(gen) ---- *)
Inductive gen := GFresh | GRunning (c : nat) | GDone.
Inductive event :=
| ENone                     (* a method returning None *)
| EPacket (p : packet)
| EStopIteration            (* next(queue) raised StopIteration *)
| EGenStop                  (* next(gen) raised StopIteration: the level is complete *)
| ENoMore                   (* NoMoreClassesToExpandError *)
| EAssert
| EFuel.

Definition gen_loop (c : nat) (q : queue) : event * gen * queue :=
  if Nat.eqb c (levels_completed q) then
    match next q with
    | (RPacket p, q') => (EPacket p, GRunning c, q')
    | (RStop, q') =>
        if Nat.eqb c (levels_completed q') then (ENoMore, GDone, q') else (EGenStop, GDone, q')
    | (RAssert, q') => (EAssert, GDone, q')
    | (RFuel, q') => (EFuel, GDone, q')
    end
  else (EGenStop, GDone, q).

Definition gen_next (g : gen) (q : queue) : event * gen * queue :=
  match g with
  | GFresh => gen_loop (levels_completed q) q
  | GRunning c => gen_loop c q
  | GDone => (EGenStop, GDone, q)
  end.

(* ---- histories ---- *)
Inductive op :=
| OAdd (l : Z) | ONotInf (l : Z) | OVerified (l : Z) | OStop (l : Z)
| ONext        (* next(queue) *)
| ODoLevel     (* g = queue.do_level() *)
| OLevelNext.  (* next(g) *)

Record state := mks { sq : queue; sg : gen }.
Definition init_state : state := mks init GFresh.

Definition step (s : state) (o : op) : state * event :=
  match o with
  | OAdd l => (mks (add (sq s) l) (sg s), ENone)
  | ONotInf l => (mks (set_not_inferrable (sq s) l) (sg s), ENone)
  | OVerified l => (mks (set_verified (sq s) l) (sg s), ENone)
  | OStop l => (mks (set_stop_yielding (sq s) l) (sg s), ENone)
  | ONext =>
      match next (sq s) with
      | (RPacket p, q') => (mks q' (sg s), EPacket p)
      | (RStop, q') => (mks q' (sg s), EStopIteration)
      | (RAssert, q') => (mks q' (sg s), EAssert)
      | (RFuel, q') => (mks q' (sg s), EFuel)
      end
  | ODoLevel => (mks (sq s) GFresh, ENone)
  | OLevelNext =>
      let '(e, g', q') := gen_next (sg s) (sq s) in (mks q' g', e)
  end.

Fixpoint exec (s : state) (ops : list op) : state * list event :=
  match ops with
  | [] => (s, [])
  | o :: t =>
      let '(s1, e) := step s o in
      let '(s2, es) := exec s1 t in (s2, e :: es)
  end.

End Queue.
