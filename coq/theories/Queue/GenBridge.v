(* The pure parts of the work-queue model are the expressions of the SOURCE.
   Gen/QueueCanDoInferral.v, Gen/QueueCanDoInitial.v and
   Gen/QueueChangeLevelOrder.v are re-translated from
   comb_spec_searcher/class_queue.py on every run:
     DefaultQueue.can_do_inferral / can_do_initial   (whole methods)
     DefaultQueue._change_level                      (the argument of
         self.curr_level[0].extend(...): the labels of next_level sorted by
         decreasing count with a STABLE sort)
   This file proves that Queue/Model.v computes exactly those.  A source edit
   that changes when a label is (re)expanded or the order in which a new level
   is scheduled changes the generated definitions and breaks these lemmas,
   hence the obligations of Props/C16.v. *)
From Coq Require Import ZArith List Bool Lia.
From CSS Require Import Gen.Prelude Queue.Model.
From CSS Require Import Gen.QueueCanDoInferral Gen.QueueCanDoInitial Gen.QueueChangeLevelOrder.
Import ListNotations.
Open Scope Z_scope.

Lemma can_do_inferral_is_source : forall infs q l,
  Model.can_do_inferral infs q l = QueueCanDoInferral.can_do_inferral infs (inferral_expanded q) l.
Proof. reflexivity. Qed.

Lemma can_do_initial_is_source : forall inis q l,
  Model.can_do_initial inis q l = QueueCanDoInitial.can_do_initial inis (initial_expanded q) l.
Proof. reflexivity. Qed.

(* sorted(items, key=lambda x: -x[1]) is the model's insertion sort by decreasing count *)
Lemma ins_desc_is_insert_by : forall x s,
  ins_desc x s = py_insert_by (fun y : Z * Z => - snd y) x s.
Proof.
  intros x s. induction s as [|y r IH]; cbn [ins_desc py_insert_by]; [reflexivity|].
  rewrite IH. replace (- snd y <? - snd x) with (snd x <? snd y); [reflexivity|].
  destruct (Z.ltb_spec (snd x) (snd y)), (Z.ltb_spec (- snd y) (- snd x)); try reflexivity; lia.
Qed.

Lemma sort_desc_is_sorted_by : forall c,
  sort_desc c = py_sorted_by (fun y : Z * Z => - snd y) c.
Proof.
  induction c as [|x t IH]; cbn [sort_desc py_sorted_by]; [reflexivity|].
  now rewrite IH, ins_desc_is_insert_by.
Qed.

(* the labels _change_level appends to curr_level[0], in order *)
Lemma change_level_order_is_source : forall c,
  map fst (sort_desc c) = change_level_order c.
Proof.
  intros c. unfold change_level_order. rewrite sort_desc_is_sorted_by.
  apply map_ext. intros [l n]. reflexivity.
Qed.

(* hence the model's _change_level schedules exactly that order *)
Lemma change_level_is_source : forall q q',
  change_level q = POk q' ->
  curr_level q' = extend_first (change_level_order (next_level q)) (curr_level q).
Proof.
  intros q q'. unfold change_level.
  destruct (nonempty (staging q) || nonempty (working q) || any_curr (curr_level q)); [discriminate|].
  rewrite change_level_order_is_source.
  destruct (negb _); [discriminate|]. intros H. inversion H. reflexivity.
Qed.
