(* The scheduling invariant of the queue and its preservation by every
   primitive of the model.  Ghost data: H = packets handed out so far (in
   order), NI = labels the user marked not-inferrable, A = labels added,
   U = labels the user told the queue to stop. *)
From Coq Require Import ZArith List Bool Lia Permutation Arith.
From CSS Require Import Queue.Model Queue.Lists Queue.Termination.
Import ListNotations.
Open Scope nat_scope.

Lemma mem_ext x a b : (In x a <-> In x b) -> mem x a = mem x b.
Proof.
  intros H. destruct (mem x b) eqn:E.
  - apply mem_In. apply H. apply mem_In. exact E.
  - apply mem_false. rewrite H. apply mem_false. exact E.
Qed.

Lemma mem_cons_other x l s : x <> l -> mem x (l :: s) = mem x s.
Proof. intros H. apply mem_ext. simpl. intuition congruence. Qed.

Lemma mem_discard_other x l s : x <> l -> mem x (set_discard s l) = mem x s.
Proof. intros H. apply mem_ext. rewrite In_set_discard. tauto. Qed.

Lemma mem_incr_other x l c : x <> l -> mem x (keys (ctr_incr c l)) = mem x (keys c).
Proof. intros H. apply mem_ext. rewrite In_keys_ctr_incr. intuition congruence. Qed.

Lemma mem_pop_other x l c : x <> l -> mem x (keys (ctr_pop c l)) = mem x (keys c).
Proof. intros H. apply mem_ext. rewrite In_keys_ctr_pop. tauto. Qed.

Lemma mem_perm x a b : Permutation a b -> mem x a = mem x b.
Proof. intros P. apply mem_ext. split; apply Permutation_in; [exact P|symmetry; exact P]. Qed.

Lemma firstn_S_nth {A} (l : list A) n d :
  n < length l -> firstn (S n) l = firstn n l ++ [nth n l d].
Proof.
  revert n. induction l as [|x t IH]; intros [|n] H; simpl in *; try lia; [reflexivity|].
  f_equal. apply IH. lia.
Qed.

Section Inv.
Variable inferral_strategies : list Z.
Variable initial_strategies : list Z.
Variable expansion_strats : list (list Z).

Notation inf_packet := (inf_packet inferral_strategies).
Notation can_do_inferral := (can_do_inferral inferral_strategies).
Notation can_do_initial := (can_do_initial initial_strategies).
Notation add := (add inferral_strategies initial_strategies).
Notation iter_helper_working := (iter_helper_working inferral_strategies initial_strategies).
Notation populate_working := (populate_working inferral_strategies initial_strategies).
Notation iter_helper_curr := (iter_helper_curr expansion_strats).
Notation populate_curr := (populate_curr expansion_strats).
Notation populate_staging := (populate_staging inferral_strategies initial_strategies expansion_strats).
Notation next_fuel := (next_fuel inferral_strategies initial_strategies expansion_strats).
Notation next := (next inferral_strategies initial_strategies expansion_strats).

(* the work of a label, in the order the property prescribes *)
Definition ini_packets (l : Z) : list packet := single_packets l initial_strategies.
Definition exp_packets (l : Z) (sets : list (list Z)) : list packet :=
  flat_map (single_packets l) sets.
Definition noinf_work (l : Z) : list packet := ini_packets l ++ exp_packets l expansion_strats.
Definition all_work (l : Z) : list packet :=
  (if nonempty inferral_strategies then [inf_packet l] else []) ++ noinf_work l.

Lemma exp_packets_app l a b : exp_packets l (a ++ b) = exp_packets l a ++ exp_packets l b.
Proof. apply flat_map_app. Qed.

(* ---- what the invariant looks at, for one label ---- *)
Record view := mkv {
  v_ign : bool;      (* in ignore *)
  v_inf : bool;      (* in _inferral_expanded *)
  v_ini : bool;      (* in _initial_expanded *)
  v_queued : bool;   (* in next_level or in some deque of curr_level *)
  v_done : nat;      (* number of expansion sets already applied in this level *)
  v_pk : list packet (* its packets handed out or staged, in order *)
}.

Definition view_of (x : Z) (q : queue) (H : list packet) : view :=
  mkv (mem x (ignore q)) (mem x (inferral_expanded q)) (mem x (initial_expanded q))
      (mem x (keys (next_level q)) || mem x (concat (curr_level q)))
      (done_sets x (curr_level q))
      (fl x (H ++ staging q)).

Ltac vsimp :=
  cbn [view_of v_ign v_inf v_ini v_queued v_done v_pk ignore inferral_expanded
       initial_expanded next_level curr_level staging working queue_sizes
       set_next_level set_working set_curr_level set_staging set_inferral_expanded
       set_initial_expanded set_stop_yielding stage] in *; unfold set_add in *.

Definition LOK (x : Z) (NI : list Z) (v : view) : Prop :=
  v_ign v = false ->
  (v_ini v = true -> inferral_strategies = [] \/ v_inf v = true) /\
  (v_queued v = true ->
     (inferral_strategies = [] \/ v_inf v = true) /\ (initial_strategies = [] \/ v_ini v = true)) /\
  (v_queued v = false -> v_done v = 0) /\
  exists I,
    v_pk v = I ++ (if v_ini v then ini_packets x else []) ++
             exp_packets x (firstn (v_done v) expansion_strats) /\
    ((I = [inf_packet x] /\ v_inf v = true /\ inferral_strategies <> []) \/
     (I = [] /\ (v_inf v = true -> In x NI))).

Definition Shape (q : queue) : Prop :=
  length (curr_level q) = S (length expansion_strats) /\
  NoDup (concat (curr_level q)) /\
  NoDup (keys (next_level q)).

Definition Hist (H : list packet) : Prop :=
  forall x, prefix (fl x H) (all_work x) \/ prefix (fl x H) (noinf_work x).

Definition AllOK (q : queue) (H : list packet) (NI : list Z) : Prop :=
  Shape q /\ forall x, LOK x NI (view_of x q H).

(* coverage: an added label is somewhere in the queue or ignored; a label the
   queue itself retired (not the user) has received all its work *)
Definition Cov (q : queue) (A : list Z) : Prop :=
  forall x, In x A ->
    In x (working q) \/ In x (keys (next_level q)) \/ In x (concat (curr_level q)) \/ In x (ignore q).
Definition Done (q : queue) (H : list packet) (NI U : list Z) : Prop :=
  forall x, In x (ignore q) -> ~ In x U ->
    fl x H = all_work x \/ (In x NI /\ fl x H = noinf_work x).

Lemma LOK_NI_mono x NI NI' v : incl NI NI' -> LOK x NI v -> LOK x NI' v.
Proof.
  intros Hi L Hg. destruct (L Hg) as (F1 & F2 & F3 & I & E & C).
  csplit; auto. exists I. split; [exact E|].
  destruct C as [C|(C1 & C2)]; [left; exact C|right; split; [exact C1|]].
  intros Hv. apply Hi. apply C2. exact Hv.
Qed.

Lemma AllOK_NI_mono q H NI NI' : incl NI NI' -> AllOK q H NI -> AllOK q H NI'.
Proof.
  intros Hi (S & L). split; [exact S|]. intros x. eapply LOK_NI_mono; eauto.
Qed.

Lemma Done_NI_mono q H NI NI' U : incl NI NI' -> Done q H NI U -> Done q H NI' U.
Proof.
  intros Hi D x Hx Hu. destruct (D x Hx Hu) as [E|(E1 & E2)]; [left; exact E|right].
  split; [apply Hi; exact E1|exact E2].
Qed.

Lemma LOK_ignored x NI v : v_ign v = true -> LOK x NI v.
Proof. intros H G. congruence. Qed.

(* what a non-ignored label has received or has staged is a prefix of its work *)
Lemma LOK_prefix x NI v :
  v_ign v = false -> LOK x NI v ->
  prefix (v_pk v) (all_work x) \/ prefix (v_pk v) (noinf_work x).
Proof.
  intros G L. destruct (L G) as (F1 & F2 & F3 & I & E & C).
  assert (prefix ((if v_ini v then ini_packets x else []) ++
                  exp_packets x (firstn (v_done v) expansion_strats)) (noinf_work x)) as P.
  { unfold noinf_work. destruct (v_done v) as [|j] eqn:Dn.
    - simpl. rewrite app_nil_r. destruct (v_ini v); [apply prefix_app|exists (ini_packets x ++ exp_packets x expansion_strats); reflexivity].
    - assert (v_queued v = true) as Q.
      { destruct (v_queued v); [reflexivity|]. specialize (F3 eq_refl). lia. }
      destruct (F2 Q) as (_ & Fi).
      assert ((if v_ini v then ini_packets x else []) = ini_packets x) as ->.
      { destruct (v_ini v); [reflexivity|]. destruct Fi as [Fi|Fi]; [|discriminate].
        unfold ini_packets. rewrite Fi. reflexivity. }
      apply prefix_app_l.
      rewrite <- (firstn_skipn (Datatypes.S j) expansion_strats) at 2.
      rewrite exp_packets_app. apply prefix_app. }
  rewrite E. destruct C as [(-> & _ & Ne)|(-> & _)].
  - left. unfold all_work. destruct inferral_strategies; [congruence|]. cbn [nonempty].
    apply prefix_app_l. exact P.
  - right. exact P.
Qed.

(* ---- frame: a view that did not change ---- *)
Lemma AllOK_frame q q' H H' NI :
  Shape q' ->
  (forall x, view_of x q' H' = view_of x q H \/ LOK x NI (view_of x q' H')) ->
  AllOK q H NI -> AllOK q' H' NI.
Proof.
  intros S F (_ & L). split; [exact S|]. intros x.
  destruct (F x) as [E|E]; [rewrite E; apply L|exact E].
Qed.

(* ---------------- add ---------------- *)
Lemma flags_of_cannot q l :
  can_do_inferral q l = false -> can_do_initial q l = false ->
  (inferral_strategies = [] \/ mem l (inferral_expanded q) = true) /\
  (initial_strategies = [] \/ mem l (initial_expanded q) = true).
Proof.
  unfold Model.can_do_inferral, Model.can_do_initial. intros A B. split.
  - destruct inferral_strategies; [left; reflexivity|right]. cbn in A.
    destruct (mem l (inferral_expanded q)); [reflexivity|discriminate].
  - destruct initial_strategies; [left; reflexivity|right]. cbn in B.
    destruct (mem l (initial_expanded q)); [reflexivity|discriminate].
Qed.

(* self.next_level.update((label,)) once both flags are set *)
Lemma AllOK_incr q H NI l :
  (mem l (ignore q) = false ->
   (inferral_strategies = [] \/ mem l (inferral_expanded q) = true) /\
   (initial_strategies = [] \/ mem l (initial_expanded q) = true)) ->
  AllOK q H NI -> AllOK (set_next_level q (ctr_incr (next_level q) l)) H NI.
Proof.
  intros Fl OK. pose proof OK as (S & L).
  eapply AllOK_frame; [| |exact OK].
  - destruct S as (S1 & S2 & S3). unfold Shape. cbn. csplit; auto using NoDup_keys_ctr_incr.
  - intros x. destruct (Z.eq_dec x l) as [->|Ne].
    + right. intros G. vsimp. destruct (L l G) as (F1 & F2 & F3 & P). vsimp.
      assert (mem l (keys (ctr_incr (next_level q) l)) = true) as M.
      { apply mem_In. apply In_keys_ctr_incr. left. reflexivity. }
      rewrite M. cbn [orb]. csplit; auto. discriminate.
    + left. unfold view_of. vsimp. rewrite mem_incr_other by exact Ne. reflexivity.
Qed.

Lemma add_AllOK q H NI l : AllOK q H NI -> AllOK (add q l) H NI.
Proof.
  intros OK. unfold Model.add.
  destruct (can_do_inferral q l) eqn:A; cbn [orb].
  { eapply AllOK_frame; [| |exact OK]; [exact (proj1 OK)|intros x; left; reflexivity]. }
  destruct (can_do_initial q l) eqn:B; cbn [orb].
  { eapply AllOK_frame; [| |exact OK]; [exact (proj1 OK)|intros x; left; reflexivity]. }
  destruct (mem l (ignore q)) eqn:G; cbn [negb]; [exact OK|].
  apply AllOK_incr; [|exact OK]. intros _. apply flags_of_cannot; assumption.
Qed.

Lemma add_Cov q A l : Cov q A -> Cov (add q l) (l :: A).
Proof.
  intros C x Hx. unfold Model.add.
  assert (x = l \/ (x <> l /\ In x A)) as [->|(Ne & Hx')].
  { destruct (Z.eq_dec x l); [left; assumption|right]. destruct Hx; [congruence|tauto]. }
  - destruct (can_do_inferral q l || can_do_initial q l).
    + left. cbn. apply in_or_app. right. left. reflexivity.
    + destruct (mem l (ignore q)) eqn:G; cbn [negb].
      * right. right. right. apply mem_In. exact G.
      * right. left. cbn. apply In_keys_ctr_incr. left. reflexivity.
  - specialize (C x Hx').
    destruct (can_do_inferral q l || can_do_initial q l).
    + cbn. rewrite in_app_iff. tauto.
    + destruct (negb (mem l (ignore q))); [|exact C]. cbn. rewrite In_keys_ctr_incr. tauto.
Qed.

Lemma add_ignore q l : ignore (add q l) = ignore q.
Proof.
  unfold Model.add. destruct (can_do_inferral q l || can_do_initial q l); [reflexivity|].
  destruct (negb (mem l (ignore q))); reflexivity.
Qed.

(* ---------------- set_not_inferrable (called by the user) ---------------- *)
Lemma notinf_AllOK q H NI l : AllOK q H NI -> AllOK (set_not_inferrable q l) H (l :: NI).
Proof.
  intros OK. apply (AllOK_NI_mono q H NI (l :: NI)) in OK; [|intros y Hy; right; exact Hy].
  unfold set_not_inferrable. destruct (mem l (ignore q)) eqn:G; cbn [negb]; [exact OK|].
  pose proof OK as (S & L).
  eapply AllOK_frame; [| |exact OK]; [exact S|].
  intros x. destruct (Z.eq_dec x l) as [->|Ne].
  - right. intros _. destruct (L l G) as (F1 & F2 & F3 & I & E & C). vsimp.
    assert (mem l (l :: inferral_expanded q) = true) as M by (apply mem_In; left; reflexivity).
    rewrite M. csplit; auto.
    + intros Q. split; [right; reflexivity|]. apply F2. exact Q.
    + exists I. split; [exact E|]. destruct C as [(C1 & _ & C3)|(C1 & _)].
      * left. auto.
      * right. split; [exact C1|]. intros _. left. reflexivity.
  - left. unfold view_of. vsimp. rewrite mem_cons_other by exact Ne. reflexivity.
Qed.

(* ---------------- set_stop_yielding ---------------- *)
Lemma stop_view_other q H l x :
  x <> l -> view_of x (set_stop_yielding q l) H = view_of x q H.
Proof.
  intros Ne. unfold view_of. vsimp.
  rewrite mem_cons_other, !mem_discard_other, mem_pop_other by exact Ne. reflexivity.
Qed.

Lemma stop_Shape q l : Shape q -> Shape (set_stop_yielding q l).
Proof.
  intros (S1 & S2 & S3). unfold Shape. cbn. csplit; auto using NoDup_keys_ctr_pop.
Qed.

Lemma stop_AllOK q H NI l : AllOK q H NI -> AllOK (set_stop_yielding q l) H NI.
Proof.
  intros OK. eapply AllOK_frame; [| |exact OK]; [apply stop_Shape; exact (proj1 OK)|].
  intros x. destruct (Z.eq_dec x l) as [->|Ne].
  - right. apply LOK_ignored. vsimp. apply mem_In. left. reflexivity.
  - left. apply stop_view_other. exact Ne.
Qed.

Lemma stop_Cov q A l : Cov q A -> Cov (set_stop_yielding q l) A.
Proof.
  intros C x Hx. specialize (C x Hx). cbn. rewrite In_keys_ctr_pop.
  destruct (Z.eq_dec x l) as [->|Ne]; [right; right; right; left; reflexivity|].
  unfold set_add. simpl. tauto.
Qed.

Lemma stop_Done_user q H NI U l : Done q H NI U -> Done (set_stop_yielding q l) H NI (l :: U).
Proof.
  intros D x Hx Hu. cbn in Hx. apply D.
  - destruct Hx as [->|Hx]; [exfalso; apply Hu; left; reflexivity|exact Hx].
  - intros G. apply Hu. right. exact G.
Qed.

(* ---------------- _iter_helper_working, in three stages ---------------- *)
Definition stA (q : queue) (l : Z) : queue :=
  if can_do_inferral q l then set_not_inferrable (stage q [inf_packet l]) l else q.
Definition stB (q : queue) (l : Z) : queue :=
  if can_do_initial q l
  then set_not_initial (stage q (single_packets l initial_strategies)) l else q.
Definition stC (q : queue) (l : Z) : queue :=
  set_next_level q (ctr_incr (next_level q) l).

Lemma ihw_stages q l w :
  working q = l :: w ->
  iter_helper_working q = stC (stB (stA (set_working q w) l) l) l.
Proof. intros W. unfold Model.iter_helper_working. rewrite W. reflexivity. Qed.

Lemma stA_fields q l :
  working (stA q l) = working q /\ next_level (stA q l) = next_level q /\
  curr_level (stA q l) = curr_level q /\ ignore (stA q l) = ignore q /\
  initial_expanded (stA q l) = initial_expanded q /\ queue_sizes (stA q l) = queue_sizes q.
Proof. unfold stA, set_not_inferrable. dif; cbn; auto 10. Qed.

Lemma stB_fields q l :
  working (stB q l) = working q /\ next_level (stB q l) = next_level q /\
  curr_level (stB q l) = curr_level q /\ ignore (stB q l) = ignore q /\
  inferral_expanded (stB q l) = inferral_expanded q /\ queue_sizes (stB q l) = queue_sizes q.
Proof. unfold stB, set_not_initial. dif; cbn; auto 10. Qed.

Lemma fl_inf_other x l : x <> l -> fl x [inf_packet l] = [].
Proof.
  intros Ne. cbn. unfold lab_is. cbn.
  destruct (Z.eqb l x) eqn:E; [apply Z.eqb_eq in E; congruence|reflexivity].
Qed.

Lemma fl_inf_same l : fl l [inf_packet l] = [inf_packet l].
Proof. cbn. unfold lab_is. cbn. rewrite Z.eqb_refl. reflexivity. Qed.

Lemma fl_staged x H st ps : fl x (H ++ st ++ ps) = fl x (H ++ st) ++ fl x ps.
Proof. rewrite app_assoc. apply fl_app. Qed.

Lemma can_inf_true q l :
  can_do_inferral q l = true -> inferral_strategies <> [] /\ mem l (inferral_expanded q) = false.
Proof.
  unfold Model.can_do_inferral. intros H. apply andb_true_iff in H. destruct H as (A & B).
  split; [destruct inferral_strategies; [discriminate|congruence]|].
  destruct (mem l (inferral_expanded q)); [discriminate|reflexivity].
Qed.

Lemma can_ini_true q l :
  can_do_initial q l = true -> initial_strategies <> [] /\ mem l (initial_expanded q) = false.
Proof.
  unfold Model.can_do_initial. intros H. apply andb_true_iff in H. destruct H as (A & B).
  split; [destruct initial_strategies; [discriminate|congruence]|].
  destruct (mem l (initial_expanded q)); [discriminate|reflexivity].
Qed.

Lemma stA_OK q H NI l :
  AllOK q H NI ->
  AllOK (stA q l) H NI /\
  (mem l (ignore (stA q l)) = false ->
   inferral_strategies = [] \/ mem l (inferral_expanded (stA q l)) = true).
Proof.
  intros OK. pose proof OK as (S & L). unfold stA.
  destruct (can_do_inferral q l) eqn:CD.
  2:{ split; [exact OK|]. intros _. unfold Model.can_do_inferral in CD.
      destruct inferral_strategies; [left; reflexivity|right]. cbn in CD.
      destruct (mem l (inferral_expanded q)); [reflexivity|discriminate]. }
  destruct (can_inf_true q l CD) as (Ne & Mi).
  unfold set_not_inferrable. vsimp.
  destruct (mem l (ignore q)) eqn:G; cbn [negb].
  - split; [|vsimp; congruence].
    eapply AllOK_frame; [| |exact OK]; [exact S|].
    intros x. destruct (Z.eq_dec x l) as [->|Nx].
    + right. apply LOK_ignored. vsimp. exact G.
    + left. unfold view_of. vsimp. rewrite fl_staged, fl_inf_other, app_nil_r by exact Nx. reflexivity.
  - split.
    2:{ intros _. right. vsimp. apply mem_In. left. reflexivity. }
    eapply AllOK_frame; [| |exact OK]; [exact S|].
    intros x. destruct (Z.eq_dec x l) as [->|Nx].
    + right. intros _. destruct (L l G) as (F1 & F2 & F3 & I & E & C). vsimp.
      assert (mem l (l :: inferral_expanded q) = true) as M by (apply mem_In; left; reflexivity).
      rewrite M. rewrite Mi in *.
      assert (mem l (initial_expanded q) = false) as Vi.
      { destruct (mem l (initial_expanded q)); [|reflexivity].
        destruct (F1 eq_refl) as [X|X]; [congruence|discriminate]. }
      assert (mem l (keys (next_level q)) || mem l (concat (curr_level q)) = false) as Vq.
      { destruct (mem l (keys (next_level q)) || mem l (concat (curr_level q))); [|reflexivity].
        destruct (F2 eq_refl) as ([X|X] & _); [congruence|discriminate]. }
      rewrite Vi, Vq in *. rewrite (F3 eq_refl) in *.
      destruct C as [(_ & X & _)|(-> & _)]; [discriminate|].
      cbn in E. csplit; auto; try discriminate.
      exists [inf_packet l]. split; [|left; auto].
      rewrite fl_staged, E, fl_inf_same. reflexivity.
    + left. unfold view_of. vsimp.
      rewrite fl_staged, fl_inf_other, app_nil_r, mem_cons_other by exact Nx. reflexivity.
Qed.

Lemma stB_OK q H NI l :
  AllOK q H NI ->
  (mem l (ignore q) = false -> inferral_strategies = [] \/ mem l (inferral_expanded q) = true) ->
  AllOK (stB q l) H NI /\
  (mem l (ignore (stB q l)) = false ->
   initial_strategies = [] \/ mem l (initial_expanded (stB q l)) = true).
Proof.
  intros OK Finf. pose proof OK as (S & L). unfold stB.
  destruct (can_do_initial q l) eqn:CD.
  2:{ split; [exact OK|]. intros _. unfold Model.can_do_initial in CD.
      destruct initial_strategies; [left; reflexivity|right]. cbn in CD.
      destruct (mem l (initial_expanded q)); [reflexivity|discriminate]. }
  destruct (can_ini_true q l CD) as (Ne & Mi).
  unfold set_not_initial. vsimp.
  destruct (mem l (ignore q)) eqn:G; cbn [negb].
  - split; [|vsimp; congruence].
    eapply AllOK_frame; [| |exact OK]; [exact S|].
    intros x. destruct (Z.eq_dec x l) as [->|Nx].
    + right. apply LOK_ignored. vsimp. exact G.
    + left. unfold view_of. vsimp. rewrite fl_staged, fl_single_other, app_nil_r by congruence. reflexivity.
  - split.
    2:{ intros _. right. vsimp. apply mem_In. left. reflexivity. }
    eapply AllOK_frame; [| |exact OK]; [exact S|].
    intros x. destruct (Z.eq_dec x l) as [->|Nx].
    + right. intros _. destruct (L l G) as (F1 & F2 & F3 & I & E & C). vsimp.
      assert (mem l (l :: initial_expanded q) = true) as M by (apply mem_In; left; reflexivity).
      rewrite M. rewrite Mi in *.
      assert (mem l (keys (next_level q)) || mem l (concat (curr_level q)) = false) as Vq.
      { destruct (mem l (keys (next_level q)) || mem l (concat (curr_level q))); [|reflexivity].
        destruct (F2 eq_refl) as (_ & [X|X]); [congruence|discriminate]. }
      rewrite Vq in *. rewrite (F3 eq_refl) in *.
      cbn in E. rewrite app_nil_r in E. csplit; auto; try discriminate.
      exists I. split; [|exact C].
      rewrite fl_staged, E, fl_single_same. cbn. rewrite app_nil_r. reflexivity.
    + left. unfold view_of. vsimp.
      rewrite fl_staged, fl_single_other, app_nil_r, mem_cons_other by congruence. reflexivity.
Qed.

Lemma ihw_AllOK q H NI :
  working q <> [] -> AllOK q H NI -> AllOK (iter_helper_working q) H NI.
Proof.
  intros W OK. destruct (working q) as [|l w] eqn:E; [congruence|].
  rewrite (ihw_stages q l w E).
  assert (AllOK (set_working q w) H NI) as OK0.
  { eapply AllOK_frame; [| |exact OK]; [exact (proj1 OK)|intros x; left; reflexivity]. }
  destruct (stA_OK _ H NI l OK0) as (OK1 & Fi1).
  destruct (stB_OK _ H NI l OK1 Fi1) as (OK2 & Fn2).
  unfold stC. apply AllOK_incr; [|exact OK2].
  intros G. split; [|apply Fn2; exact G].
  destruct (stB_fields (stA (set_working q w) l) l) as (_ & _ & _ & Ig & Ie & _).
  rewrite Ie. apply Fi1. rewrite <- Ig. exact G.
Qed.

Lemma ihw_more q l w :
  working q = l :: w ->
  next_level (iter_helper_working q) = ctr_incr (next_level q) l.
Proof.
  intros W. rewrite (ihw_stages q l w W). unfold stC. cbn [next_level set_next_level].
  destruct (stB_fields (stA (set_working q w) l) l) as (_ & -> & _).
  destruct (stA_fields (set_working q w) l) as (_ & -> & _). reflexivity.
Qed.

Lemma ihw_Cov q A : working q <> [] -> Cov q A -> Cov (iter_helper_working q) A.
Proof.
  intros W C x Hx. destruct (working q) as [|l w] eqn:E; [congruence|].
  destruct (ihw_fields inferral_strategies initial_strategies q l w E) as (W' & C' & _ & _ & I').
  rewrite W', C', I', (ihw_more q l w E). rewrite In_keys_ctr_incr.
  specialize (C x Hx). rewrite E in C. simpl in C. intuition.
Qed.

Lemma ihw_Done q H NI U : working q <> [] -> Done q H NI U -> Done (iter_helper_working q) H NI U.
Proof.
  intros W D x Hx. destruct (working q) as [|l w] eqn:E; [congruence|].
  destruct (ihw_fields inferral_strategies initial_strategies q l w E) as (_ & _ & _ & _ & I').
  rewrite I' in Hx. apply D. exact Hx.
Qed.

(* ---------------- _change_level ---------------- *)
Lemma change_level_ok q q1 :
  change_level q = POk q1 ->
  staging q = [] /\ working q = [] /\ concat (curr_level q) = [] /\
  keys (sort_desc (next_level q)) <> [] /\
  q1 = mkq [] [] (extend_first (keys (sort_desc (next_level q))) (curr_level q))
           (inferral_expanded q) (initial_expanded q) (ignore q)
           (queue_sizes q ++ [Z.of_nat (length (hd [] (extend_first (keys (sort_desc (next_level q))) (curr_level q))))])
           [].
Proof.
  unfold change_level.
  destruct (staging q) eqn:St; cbn [nonempty orb]; [|discriminate].
  destruct (working q) eqn:W; cbn [nonempty orb]; [|discriminate].
  destruct (any_curr (curr_level q)) eqn:A; [discriminate|].
  cbn [set_curr_level curr_level working inferral_expanded initial_expanded ignore queue_sizes staging].
  destruct (any_curr (extend_first (keys (sort_desc (next_level q))) (curr_level q))) eqn:A2;
    cbn [negb]; [|discriminate].
  intros X. inversion X; subst; clear X. rewrite St, W.
  apply any_curr_false in A. csplit; auto.
  intros Zn. rewrite Zn in A2. destruct (curr_level q) as [|d r]; cbn in A2; [discriminate|].
  rewrite app_nil_r in A2. cbn in A. apply app_eq_nil in A. destruct A as [-> A].
  apply any_curr_false in A. unfold any_curr in A. cbn in A2. congruence.
Qed.

Lemma done_sets_extend_first x ls cl :
  concat cl = [] -> done_sets x (extend_first ls cl) = 0.
Proof.
  intros Zn. destruct cl as [|d r]; [reflexivity|]. cbn in Zn.
  apply app_eq_nil in Zn. destruct Zn as [-> Zn]. cbn [extend_first app].
  unfold done_sets. destruct (mem x (concat (ls :: r))) eqn:M; [|reflexivity].
  cbn [concat] in M. rewrite Zn, app_nil_r in M. cbn [epos]. rewrite M. reflexivity.
Qed.

Lemma change_level_AllOK q q1 H NI :
  change_level q = POk q1 -> AllOK q H NI -> AllOK q1 H NI.
Proof.
  intros CL OK. destruct (change_level_ok q q1 CL) as (St & W & Zn & Nn & ->).
  pose proof OK as ((S1 & S2 & S3) & L).
  assert (curr_level q <> []) as Cn by (intros X; rewrite X in S1; discriminate).
  set (ls := keys (sort_desc (next_level q))) in *.
  eapply AllOK_frame; [| |exact OK].
  - unfold Shape. cbn [curr_level next_level]. rewrite length_extend_first.
    rewrite concat_extend_first by assumption. csplit; [exact S1| |constructor].
    apply (Permutation_NoDup (l := keys (next_level q))); [symmetry; apply sorted_keys_perm|exact S3].
  - intros x. left. unfold view_of. vsimp.
    rewrite concat_extend_first, Zn, St, done_sets_extend_first by assumption.
    rewrite (done_sets_notin x (curr_level q)) by (rewrite Zn; tauto).
    unfold ls. rewrite (mem_perm x _ _ (sorted_keys_perm (next_level q))).
    cbn. rewrite orb_false_r. reflexivity.
Qed.

Lemma change_level_Cov q q1 A :
  Shape q -> change_level q = POk q1 -> Cov q A -> Cov q1 A.
Proof.
  intros (S1 & _) CL C x Hx. destruct (change_level_ok q q1 CL) as (St & W & Zn & Nn & ->).
  assert (curr_level q <> []) as Cn by (intros X; rewrite X in S1; discriminate).
  cbn [working next_level curr_level ignore]. rewrite concat_extend_first by assumption.
  specialize (C x Hx). rewrite W, Zn in C. simpl in C.
  destruct C as [C|[C|[C|C]]]; try tauto.
  right. right. left. apply (Permutation_in x (Permutation_sym (sorted_keys_perm (next_level q)))). exact C.
Qed.

Lemma change_level_Done q q1 H NI U :
  change_level q = POk q1 -> Done q H NI U -> Done q1 H NI U.
Proof.
  intros CL D x Hx. destruct (change_level_ok q q1 CL) as (_ & _ & _ & _ & ->).
  cbn in Hx. apply D. exact Hx.
Qed.

(* ---------------- _iter_helper_curr ---------------- *)
Lemma exp_packets_snoc l sets n :
  n < length sets ->
  exp_packets l (firstn (Datatypes.S n) sets) =
  exp_packets l (firstn n sets) ++ single_packets l (nth n sets []).
Proof.
  intros Hn. rewrite (firstn_S_nth sets n []) by exact Hn.
  rewrite exp_packets_app. cbn. rewrite app_nil_r. reflexivity.
Qed.

Lemma LOK_complete x NI v :
  v_ign v = false -> LOK x NI v -> v_queued v = true -> v_done v = length expansion_strats ->
  v_pk v = all_work x \/ (In x NI /\ v_pk v = noinf_work x).
Proof.
  intros G L Q Dn. destruct (L G) as (_ & F2 & _ & I & E & C).
  destruct (F2 Q) as (Finf & Fini).
  assert ((if v_ini v then ini_packets x else []) = ini_packets x) as Ei.
  { destruct (v_ini v); [reflexivity|]. destruct Fini as [Fi|Fi]; [|discriminate].
    unfold ini_packets. rewrite Fi. reflexivity. }
  rewrite Ei, Dn, firstn_all in E. fold (noinf_work x) in E.
  destruct C as [(-> & _ & Ne)|(-> & Cn)].
  - left. rewrite E. unfold all_work. destruct inferral_strategies; [congruence|reflexivity].
  - destruct Finf as [Fe|Fv].
    + left. rewrite E. unfold all_work. rewrite Fe. reflexivity.
    + right. split; [apply Cn; exact Fv|exact E].
Qed.

Section IHC.
Variables (q : queue) (idx : nat) (l : Z) (cl' : list (list Z)).
Hypothesis HS : Shape q.
Hypothesis HP : pop_first 0 (curr_level q) = Some (idx, l, cl').

Lemma ihc_facts :
  length cl' = length (curr_level q) /\ idx < Datatypes.S (length expansion_strats) /\
  ~ In l (concat cl') /\ NoDup (concat cl') /\ In l (concat (curr_level q)) /\
  epos l (curr_level q) = idx /\
  (forall x, x <> l -> mem x (concat cl') = mem x (concat (curr_level q))) /\
  (forall x, x <> l -> done_sets x cl' = done_sets x (curr_level q)).
Proof.
  destruct HS as (S1 & S2 & S3).
  destruct (pop_first_spec _ _ _ _ _ HP) as (L & R & _ & P & Ep & O).
  pose proof (Permutation_NoDup P S2) as N. inversion N; subst.
  assert (forall x, x <> l -> mem x (concat cl') = mem x (concat (curr_level q))) as M.
  { intros x Nx. apply mem_ext. split; intros Hi.
    - apply (Permutation_in x (Permutation_sym P)). right. exact Hi.
    - apply (Permutation_in x P) in Hi. destruct Hi; [congruence|assumption]. }
  csplit; auto.
  - lia.
  - apply (Permutation_in l (Permutation_sym P)). left. reflexivity.
  - rewrite Ep by exact S2. lia.
  - intros x Nx. unfold done_sets. rewrite M, O by exact Nx. reflexivity.
Qed.

(* the label leaves the last deque: the queue retires it *)
Lemma ihc_last_AllOK H NI :
  AllOK q H NI -> AllOK (set_stop_yielding (set_curr_level q cl') l) H NI.
Proof.
  intros OK. destruct ihc_facts as (L & R & Nl & Nd & Il & Ep & M & Dn).
  destruct HS as (S1 & S2 & S3).
  eapply AllOK_frame; [| |exact OK].
  - apply stop_Shape. unfold Shape. cbn [curr_level next_level set_curr_level]. rewrite L. auto.
  - intros x. destruct (Z.eq_dec x l) as [->|Nx].
    + right. apply LOK_ignored. vsimp. apply mem_In. left. reflexivity.
    + left. rewrite stop_view_other by exact Nx. unfold view_of. vsimp.
      rewrite M, Dn by exact Nx. reflexivity.
Qed.

Lemma ihc_last_Cov A :
  Cov q A -> Cov (set_stop_yielding (set_curr_level q cl') l) A.
Proof.
  intros C x Hx. specialize (C x Hx).
  destruct ihc_facts as (_ & _ & _ & _ & _ & _ & M & _).
  cbn [working next_level curr_level ignore set_curr_level set_stop_yielding].
  destruct (Z.eq_dec x l) as [->|Nx]; [right; right; right; left; reflexivity|].
  rewrite In_keys_ctr_pop. unfold set_add.
  destruct C as [C|[C|[C|C]]]; auto.
  - right. right. left. apply mem_In. rewrite M by exact Nx. apply mem_In. exact C.
  - right. right. right. right. exact C.
Qed.

Lemma ihc_last_Done H NI U :
  idx = length expansion_strats ->
  staging q = [] -> AllOK q H NI -> Done q H NI U ->
  Done (set_stop_yielding (set_curr_level q cl') l) H NI U.
Proof.
  intros Ei St (_ & L) D x Hx Hu. cbn in Hx.
  destruct (In_dec_Z x (ignore q)) as [Hi|Hi]; [apply D; assumption|].
  destruct Hx as [<-|Hx]; [|tauto].
  destruct ihc_facts as (_ & _ & _ & _ & Il & Ep & _).
  assert (mem l (ignore q) = false) as G by (apply mem_false; exact Hi).
  pose proof (LOK_complete l NI (view_of l q H) G (L l)) as X. vsimp.
  rewrite St, app_nil_r in X. apply X.
  - apply mem_In in Il. rewrite Il. apply orb_true_r.
  - rewrite done_sets_in by exact Il. rewrite Ep. exact Ei.
Qed.

(* the label moves on to the next deque and its next expansion set is staged *)
Definition ihc_mid : queue :=
  let q1 := stage (set_curr_level q cl') (single_packets l (nth idx expansion_strats [])) in
  set_curr_level q1 (append_at (Datatypes.S idx) l (curr_level q1)).

Lemma ihc_mid_facts :
  idx <> length expansion_strats ->
  idx < length expansion_strats /\
  Permutation (concat (append_at (Datatypes.S idx) l cl')) (concat (curr_level q)) /\
  (forall x, mem x (concat (append_at (Datatypes.S idx) l cl')) = mem x (concat (curr_level q))) /\
  done_sets l (append_at (Datatypes.S idx) l cl') = Datatypes.S idx /\
  (forall x, x <> l -> done_sets x (append_at (Datatypes.S idx) l cl') = done_sets x (curr_level q)).
Proof.
  intros Ne. destruct ihc_facts as (L & R & Nl & Nd & Il & Ep & M & Dn).
  destruct HS as (S1 & S2 & S3).
  destruct (pop_first_spec _ _ _ _ _ HP) as (_ & _ & _ & P & _ & O).
  assert (idx < length expansion_strats) as Lt by lia.
  assert (Datatypes.S idx < length cl') as Lt' by (rewrite L, S1; lia).
  assert (Permutation (concat (append_at (Datatypes.S idx) l cl')) (concat (curr_level q))) as P'.
  { rewrite concat_append_at by exact Lt'. symmetry. exact P. }
  assert (forall x, mem x (concat (append_at (Datatypes.S idx) l cl')) = mem x (concat (curr_level q))) as M'.
  { intros x. apply mem_perm. exact P'. }
  csplit; auto.
  - unfold done_sets. rewrite M'. apply mem_In in Il. rewrite Il.
    apply epos_append_at_same; assumption.
  - intros x Nx. unfold done_sets. rewrite M', epos_append_at_other, O by exact Nx.
    reflexivity.
Qed.

Lemma ihc_mid_AllOK H NI :
  idx <> length expansion_strats -> AllOK q H NI -> AllOK ihc_mid H NI.
Proof.
  intros Ne OK. destruct (ihc_mid_facts Ne) as (Lt & P & M & Dl & Do).
  destruct ihc_facts as (L & R & Nl & Nd & Il & Ep & _ & _).
  pose proof OK as ((S1 & S2 & S3) & LL). unfold ihc_mid.
  eapply AllOK_frame; [| |exact OK].
  - unfold Shape. vsimp. rewrite length_append_at, L. csplit; auto.
    apply (Permutation_NoDup (Permutation_sym P)). exact S2.
  - intros x. destruct (Z.eq_dec x l) as [->|Nx].
    + right. intros G. vsimp. destruct (LL l G) as (F1 & F2 & F3 & I & E & C). vsimp.
      rewrite M, Dl. apply mem_In in Il. rewrite Il in *. rewrite orb_true_r in *.
      csplit; auto; try discriminate.
      exists I. split; [|exact C].
      rewrite fl_staged, E, fl_single_same.
      rewrite done_sets_in in * by (apply mem_In; exact Il). rewrite Ep.
      rewrite exp_packets_snoc by exact Lt. rewrite <- !app_assoc. reflexivity.
    + left. unfold view_of. vsimp.
      rewrite M, Do, fl_staged, fl_single_other, app_nil_r by congruence. reflexivity.
Qed.

Lemma ihc_mid_Cov A : idx <> length expansion_strats -> Cov q A -> Cov ihc_mid A.
Proof.
  intros Ne C x Hx. specialize (C x Hx).
  destruct (ihc_mid_facts Ne) as (_ & _ & M & _). unfold ihc_mid. vsimp.
  destruct C as [C|[C|[C|C]]]; auto.
  right. right. left. apply mem_In. rewrite M. apply mem_In. exact C.
Qed.

Lemma ihc_mid_Done H NI U : Done q H NI U -> Done ihc_mid H NI U.
Proof. intros D x Hx. apply D. exact Hx. Qed.

End IHC.

Definition Inv (q : queue) (H : list packet) (NI A U : list Z) : Prop :=
  AllOK q H NI /\ Hist H /\ Cov q A /\ Done q H NI U.

Lemma ihc_Inv q q2 H NI A U :
  staging q = [] -> iter_helper_curr q = POk q2 -> Inv q H NI A U ->
  Inv q2 H NI A U /\ incl (ignore q) (ignore q2) /\ working q2 = working q.
Proof.
  intros St E (OK & Hi & C & D). unfold Model.iter_helper_curr in E.
  destruct (pop_first 0 (curr_level q)) as [[[idx l] cl']|] eqn:P; [|discriminate].
  pose proof (proj1 OK) as S.
  destruct (Nat.eqb idx (length expansion_strats)) eqn:Ei; inversion E; subst; clear E.
  - apply Nat.eqb_eq in Ei. csplit.
    + unfold Inv. csplit; auto.
      * eapply ihc_last_AllOK; eauto.
      * eapply ihc_last_Cov; eauto.
      * eapply ihc_last_Done; eauto.
    + intros x Hx. cbn. right. exact Hx.
    + reflexivity.
  - apply Nat.eqb_neq in Ei. csplit.
    + unfold Inv. csplit; auto.
      * apply (ihc_mid_AllOK q idx l cl' S P H NI Ei OK).
      * apply (ihc_mid_Cov q idx l cl' S P A Ei C).
    + intros x Hx. exact Hx.
    + reflexivity.
Qed.

Lemma ihw_Inv q H NI A U :
  working q <> [] -> Inv q H NI A U -> Inv (iter_helper_working q) H NI A U.
Proof.
  intros W (OK & Hi & C & D). unfold Inv. csplit; auto.
  - apply ihw_AllOK; assumption.
  - apply ihw_Cov; assumption.
  - apply ihw_Done; assumption.
Qed.

Lemma ihw_ignore q : ignore (iter_helper_working q) = ignore q.
Proof.
  destruct (working q) as [|l w] eqn:E.
  - unfold Model.iter_helper_working. rewrite E. reflexivity.
  - apply (ihw_fields inferral_strategies initial_strategies q l w E).
Qed.

Lemma pw_Inv n q H NI A U :
  Inv q H NI A U ->
  Inv (populate_working n q) H NI A U /\ ignore (populate_working n q) = ignore q.
Proof.
  revert q. induction n as [|n IH]; intros q I; cbn [Model.populate_working]; [auto|].
  destruct (negb (nonempty (staging q)) && nonempty (working q)) eqn:B; [|auto].
  apply andb_true_iff in B. destruct B as (_ & B).
  assert (working q <> []) as W by (destruct (working q); [discriminate|congruence]).
  destruct (IH (iter_helper_working q) (ihw_Inv q H NI A U W I)) as (I' & G').
  split; [exact I'|]. rewrite G'. apply ihw_ignore.
Qed.

Lemma change_level_Inv q q1 H NI A U :
  change_level q = POk q1 -> Inv q H NI A U ->
  Inv q1 H NI A U /\ ignore q1 = ignore q /\ staging q1 = [] /\ working q1 = [].
Proof.
  intros CL (OK & Hi & C & D). csplit.
  - unfold Inv. csplit; auto.
    + eapply change_level_AllOK; eauto.
    + eapply change_level_Cov; eauto. exact (proj1 OK).
    + eapply change_level_Done; eauto.
  - destruct (change_level_ok q q1 CL) as (_ & _ & _ & _ & ->). reflexivity.
  - destruct (change_level_ok q q1 CL) as (_ & _ & _ & _ & ->). reflexivity.
  - destruct (change_level_ok q q1 CL) as (_ & _ & _ & _ & ->). reflexivity.
Qed.

Lemma change_level_stop q q1 : change_level q = PStop q1 -> q1 = q /\ keys (next_level q) = [] \/ curr_level q = [].
Proof.
  unfold change_level.
  destruct (nonempty (staging q) || nonempty (working q) || any_curr (curr_level q)) eqn:B; [discriminate|].
  apply orb_false_iff in B. destruct B as (_ & A).
  cbn [set_curr_level curr_level].
  destruct (curr_level q) as [|d r] eqn:C; [right; reflexivity|left].
  cbn [extend_first] in H.
  destruct (any_curr ((d ++ keys (sort_desc (next_level q))) :: r)) eqn:A2; cbn [negb] in H; [discriminate|].
  inversion H; subst; clear H.
  apply any_curr_false in A2. cbn in A2. apply app_eq_nil in A2. destruct A2 as (A2 & _).
  apply app_eq_nil in A2. destruct A2 as (-> & A2).
  assert (keys (next_level q) = []) as K.
  { pose proof (Permutation_length (sorted_keys_perm (next_level q))) as Len.
    rewrite A2 in Len. destruct (keys (next_level q)); [reflexivity|discriminate]. }
  split; [|exact K].
  rewrite A2. destruct q; cbn in *. subst. reflexivity.
Qed.

(* second loop of _populate_staging *)
Lemma pc_Inv n q H NI A U :
  Inv q H NI A U ->
  match populate_curr n q with
  | POk q' | PStop q' => Inv q' H NI A U /\ incl (ignore q) (ignore q')
  | _ => True
  end.
Proof.
  revert q. induction n as [|n IH]; intros q I; cbn [Model.populate_curr]; [exact Logic.I|].
  destruct (nonempty (staging q)) eqn:NE; [split; [exact I|apply incl_refl]|].
  assert (staging q = []) as St by (destruct (staging q); [reflexivity|discriminate]).
  assert (forall q1, Inv q1 H NI A U -> incl (ignore q) (ignore q1) -> staging q1 = [] ->
     match match iter_helper_curr q1 with POk q2 => populate_curr n q2 | r => r end with
     | POk q' | PStop q' => Inv q' H NI A U /\ incl (ignore q) (ignore q')
     | _ => True
     end) as Step.
  { intros q1 I1 G1 S1. pose proof (ihc_spec expansion_strats q1) as X.
    destruct (iter_helper_curr q1) as [q2|q2|q2|q2] eqn:E; try tauto.
    destruct (ihc_Inv q1 q2 H NI A U S1 E I1) as (I2 & G2 & _).
    specialize (IH q2 I2).
    destruct (populate_curr n q2) as [q'|q'|q'|q']; auto.
    - destruct IH as (I' & G'). split; [exact I'|]. eapply incl_tran; [exact G1|]. eapply incl_tran; eauto.
    - destruct IH as (I' & G'). split; [exact I'|]. eapply incl_tran; [exact G1|]. eapply incl_tran; eauto. }
  destruct (any_curr (curr_level q)); cbn [negb].
  - apply Step; auto. apply incl_refl.
  - destruct (change_level q) as [q1|q1|q1|q1] eqn:CL; auto.
    + destruct (change_level_Inv q q1 H NI A U CL I) as (I1 & G1 & S1 & _).
      apply Step; auto. rewrite G1. apply incl_refl.
    + pose proof (change_level_spec q) as X. rewrite CL in X.
      unfold change_level in CL.
      destruct (nonempty (staging q) || nonempty (working q) || any_curr (curr_level q)) eqn:B; [discriminate|].
      apply orb_false_iff in B. destruct B as (B & B3). apply orb_false_iff in B. destruct B as (B1 & B2).
      assert (working q = []) as W by (destruct (working q); [reflexivity|discriminate]).
      specialize (X St W B3). subst q1. split; [exact I|apply incl_refl].
Qed.

(* inner loop of __next__ *)
Lemma drain_spec st ign :
  match drain_staging st ign with
  | (Some wp, r) =>
      exists dropped, st = dropped ++ wp :: r /\
        (forall p, In p dropped -> In (p_label p) ign) /\ ~ In (p_label wp) ign
  | (None, r) => r = [] /\ forall p, In p st -> In (p_label p) ign
  end.
Proof.
  induction st as [|p t IH]; cbn [drain_staging]; [split; [reflexivity|intros ? []]|].
  destruct (mem (p_label p) ign) eqn:M.
  - destruct (drain_staging t ign) as [[wp|] r].
    + destruct IH as (d & E & Hd & Hw). exists (p :: d). csplit; auto.
      * rewrite E. reflexivity.
      * intros p' [<-|Hp]; [apply mem_In; exact M|apply Hd; exact Hp].
    + destruct IH as (E & Ht). split; [exact E|].
      intros p' [<-|Hp]; [apply mem_In; exact M|apply Ht; exact Hp].
  - exists []. csplit; auto; [intros ? []|apply mem_false; exact M].
Qed.

Lemma fl_dropped x d : (forall p, In p d -> p_label p <> x) -> fl x d = [].
Proof.
  induction d as [|p t IH]; intros Hd; [reflexivity|]. cbn.
  unfold lab_is at 1. destruct (Z.eqb (p_label p) x) eqn:E.
  - apply Z.eqb_eq in E. exfalso. apply (Hd p); [left; reflexivity|exact E].
  - apply IH. intros p' Hp. apply Hd. right. exact Hp.
Qed.

Lemma fl_snoc_other x H wp : p_label wp <> x -> fl x (H ++ [wp]) = fl x H.
Proof.
  intros Ne. rewrite fl_app. cbn. unfold lab_is.
  replace (Z.eqb (p_label wp) x) with false by (symmetry; apply Z.eqb_neq; exact Ne).
  apply app_nil_r.
Qed.

Lemma drain_some_Inv q H NI A U wp r :
  drain_staging (staging q) (ignore q) = (Some wp, r) -> Inv q H NI A U ->
  Inv (set_staging q r) (H ++ [wp]) NI A U /\ ~ In (p_label wp) (ignore q).
Proof.
  intros Dr (OK & Hi & C & D). pose proof (drain_spec (staging q) (ignore q)) as X.
  rewrite Dr in X. destruct X as (d & E & Hd & Hw). split; [|exact Hw].
  assert (forall x, ~ In x (ignore q) -> fl x ((H ++ [wp]) ++ r) = fl x (H ++ staging q)) as Fx.
  { intros x Hx. rewrite E. change (wp :: r) with ([wp] ++ r).
    rewrite !fl_app. rewrite (fl_dropped x d).
    - rewrite <- app_assoc. reflexivity.
    - intros p Hp Ep. apply Hx. rewrite <- Ep. apply Hd. exact Hp. }
  assert (AllOK (set_staging q r) (H ++ [wp]) NI) as OK'.
  { eapply AllOK_frame; [| |exact OK]; [exact (proj1 OK)|].
    intros x. destruct (mem x (ignore q)) eqn:G.
    - right. apply LOK_ignored. exact G.
    - left. unfold view_of. vsimp. rewrite Fx by (apply mem_false; exact G). reflexivity. }
  unfold Inv. csplit; auto.
  - intros x. destruct (Z.eq_dec x (p_label wp)) as [->|Nx].
    + assert (mem (p_label wp) (ignore q) = false) as G by (apply mem_false; exact Hw).
      pose proof (LOK_prefix (p_label wp) NI (view_of (p_label wp) (set_staging q r) (H ++ [wp])) G (proj2 OK' (p_label wp))) as X.
      cbn [v_pk view_of set_staging staging] in X. rewrite fl_app in X.
      destruct X as [X|X]; [left|right]; (eapply prefix_trans; [apply prefix_app|exact X]).
    + rewrite fl_snoc_other by congruence. apply Hi.
  - intros x Hx Hu. cbn in Hx. rewrite fl_snoc_other by congruence. apply D; assumption.
Qed.

Lemma drain_none_Inv q H NI A U r :
  drain_staging (staging q) (ignore q) = (None, r) -> Inv q H NI A U ->
  r = [] /\ Inv (set_staging q []) H NI A U.
Proof.
  intros Dr (OK & Hi & C & D). pose proof (drain_spec (staging q) (ignore q)) as X.
  rewrite Dr in X. destruct X as (-> & Hs). split; [reflexivity|].
  unfold Inv. csplit; auto.
  eapply AllOK_frame; [| |exact OK]; [exact (proj1 OK)|].
  intros x. destruct (mem x (ignore q)) eqn:G.
  - right. apply LOK_ignored. exact G.
  - left. unfold view_of. vsimp. rewrite !fl_app. rewrite (fl_dropped x (staging q)); [reflexivity|].
    intros p Hp Ep. apply mem_false in G. apply G. rewrite <- Ep. apply Hs. exact Hp.
Qed.

Definition handed_of (r : result) : list packet :=
  match r with RPacket p => [p] | _ => [] end.

(* __next__ *)
Lemma next_fuel_Inv n q H NI A U :
  Inv q H NI A U ->
  match next_fuel n q with
  | (RPacket p, q') =>
      Inv q' (H ++ [p]) NI A U /\ incl (ignore q) (ignore q') /\ ~ In (p_label p) (ignore q')
  | (RStop, q') => Inv q' H NI A U /\ incl (ignore q) (ignore q')
  | _ => True
  end.
Proof.
  revert q. induction n as [|n IH]; intros q I; cbn [Model.next_fuel]; [exact Logic.I|].
  destruct (drain_staging (staging q) (ignore q)) as [[wp|] r] eqn:Dr.
  - destruct (drain_some_Inv q H NI A U wp r Dr I) as (I' & Hw). csplit; auto. apply incl_refl.
  - destruct (drain_none_Inv q H NI A U r Dr I) as (-> & I0).
    unfold Model.populate_staging.
    destruct (pw_Inv (length (working (set_staging q []))) (set_staging q []) H NI A U I0) as (I1 & G1).
    set (q1 := populate_working (length (working (set_staging q []))) (set_staging q [])) in *.
    pose proof (pc_Inv n q1 H NI A U I1) as X.
    destruct (populate_curr n q1) as [q2|q2|q2|q2]; auto.
    + destruct X as (I2 & G2). specialize (IH q2 I2).
      assert (incl (ignore q) (ignore q2)) as G by (rewrite G1 in G2; exact G2).
      destruct (next_fuel n q2) as [[p| | |] q']; auto.
      * destruct IH as (I' & G' & Hp). csplit; auto. eapply incl_tran; eauto.
      * destruct IH as (I' & G'). csplit; auto. eapply incl_tran; eauto.
    + destruct X as (I2 & G2). split; [exact I2|]. rewrite G1 in G2. exact G2.
Qed.

End Inv.
