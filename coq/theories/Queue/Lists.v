(* List-level facts about the data structures of the queue model: sets,
   Counter, the stable sort, the tuple of deques, the measure. *)
From Coq Require Import ZArith List Bool Lia Permutation Arith.
From CSS Require Import Queue.Model.
Import ListNotations.
Open Scope nat_scope.

Ltac csplit := repeat match goal with |- _ /\ _ => split end.

(* ---------------- sets ---------------- *)
Lemma mem_In l s : mem l s = true <-> In l s.
Proof.
  unfold mem. rewrite existsb_exists. split.
  - intros (x & Hx & E). apply Z.eqb_eq in E. subst. exact Hx.
  - intros H. exists l. split; [exact H|apply Z.eqb_refl].
Qed.

Lemma mem_false l s : mem l s = false <-> ~ In l s.
Proof.
  rewrite <- mem_In. destruct (mem l s); split; intros; congruence.
Qed.

Lemma In_set_discard x s l : In x (set_discard s l) <-> In x s /\ x <> l.
Proof.
  unfold set_discard. rewrite filter_In. rewrite negb_true_iff, Z.eqb_neq. tauto.
Qed.

Lemma In_dec_Z (l : Z) s : In l s \/ ~ In l s.
Proof. destruct (mem l s) eqn:E; [left; apply mem_In; auto|right; apply mem_false; auto]. Qed.

(* ---------------- Counter ---------------- *)
Notation keys c := (map fst c).

Lemma keys_ctr_incr_in c l : In l (keys c) -> keys (ctr_incr c l) = keys c.
Proof.
  induction c as [|[k n] t IH]; simpl; intros H; [tauto|].
  destruct (Z.eqb k l) eqn:E; simpl; [reflexivity|].
  f_equal. apply IH. destruct H as [H|H]; [apply Z.eqb_neq in E; congruence|exact H].
Qed.

Lemma keys_ctr_incr_notin c l : ~ In l (keys c) -> keys (ctr_incr c l) = keys c ++ [l].
Proof.
  induction c as [|[k n] t IH]; simpl; intros H; [reflexivity|].
  destruct (Z.eqb k l) eqn:E; simpl.
  - apply Z.eqb_eq in E. tauto.
  - f_equal. apply IH. tauto.
Qed.

Lemma In_keys_ctr_incr c l x : In x (keys (ctr_incr c l)) <-> x = l \/ In x (keys c).
Proof.
  destruct (In_dec_Z l (keys c)) as [H|H].
  - rewrite keys_ctr_incr_in by exact H. split; [tauto|]. intros [->|G]; auto.
  - rewrite keys_ctr_incr_notin by exact H. rewrite in_app_iff. simpl. split; intros; intuition.
Qed.

Lemma NoDup_keys_ctr_incr c l : NoDup (keys c) -> NoDup (keys (ctr_incr c l)).
Proof.
  intros N. destruct (In_dec_Z l (keys c)) as [H|H].
  - rewrite keys_ctr_incr_in by exact H. exact N.
  - rewrite keys_ctr_incr_notin by exact H.
    apply (Permutation_NoDup (Permutation_cons_append (keys c) l)).
    constructor; assumption.
Qed.

Lemma length_ctr_incr c l : length (ctr_incr c l) <= S (length c).
Proof.
  induction c as [|[k n] t IH]; simpl; [lia|].
  destruct (Z.eqb k l); simpl; lia.
Qed.

Lemma keys_ctr_pop c l : keys (ctr_pop c l) = set_discard (keys c) l.
Proof.
  induction c as [|[k n] t IH]; simpl; [reflexivity|].
  destruct (Z.eqb k l); simpl; [exact IH|f_equal; exact IH].
Qed.

Lemma In_keys_ctr_pop c l x : In x (keys (ctr_pop c l)) <-> In x (keys c) /\ x <> l.
Proof. rewrite keys_ctr_pop. apply In_set_discard. Qed.

Lemma NoDup_keys_ctr_pop c l : NoDup (keys c) -> NoDup (keys (ctr_pop c l)).
Proof. rewrite keys_ctr_pop. apply NoDup_filter. Qed.

Lemma length_ctr_pop c l : length (ctr_pop c l) <= length c.
Proof.
  unfold ctr_pop. induction c as [|x t IH]; simpl; [lia|].
  destruct (negb (Z.eqb (fst x) l)); simpl; lia.
Qed.

(* ---------------- stable sort ---------------- *)
Lemma ins_desc_perm x s : Permutation (ins_desc x s) (x :: s).
Proof.
  induction s as [|y r IH]; simpl; [reflexivity|].
  destruct (Z.ltb (snd x) (snd y)); [|reflexivity].
  rewrite IH. apply perm_swap.
Qed.

Lemma sort_desc_perm c : Permutation (sort_desc c) c.
Proof.
  induction c as [|x t IH]; simpl; [reflexivity|].
  rewrite ins_desc_perm. constructor. exact IH.
Qed.

Lemma sorted_keys_perm c : Permutation (keys (sort_desc c)) (keys c).
Proof. apply Permutation_map. apply sort_desc_perm. Qed.

(* ---------------- the tuple of deques ---------------- *)
Lemma any_curr_false cl : any_curr cl = false <-> concat cl = [].
Proof.
  induction cl as [|d r IH]; simpl; [tauto|].
  destruct d; simpl; [exact IH|]. split; discriminate.
Qed.

Lemma any_curr_true cl : any_curr cl = true <-> concat cl <> [].
Proof.
  destruct (any_curr cl) eqn:E.
  - split; [|tauto]. intros _ H. apply any_curr_false in H. congruence.
  - apply any_curr_false in E. split; [discriminate|tauto].
Qed.

(* position of a label: index of the first deque that contains it *)
Fixpoint epos (l : Z) (cl : list (list Z)) : nat :=
  match cl with
  | [] => 0
  | d :: r => if mem l d then 0 else S (epos l r)
  end.
(* number of expansion sets already applied to l in the current level *)
Definition done_sets (l : Z) (cl : list (list Z)) : nat :=
  if mem l (concat cl) then epos l cl else 0.

Lemma pop_first_spec i cl idx l cl' :
  pop_first i cl = Some (idx, l, cl') ->
  length cl' = length cl /\ i <= idx < i + length cl /\
  cw cl' + (length cl + i - idx) = cw cl /\
  Permutation (concat cl) (l :: concat cl') /\
  (NoDup (concat cl) -> epos l cl = idx - i) /\
  (forall x, x <> l -> epos x cl' = epos x cl).
Proof.
  revert i idx l cl'. induction cl as [|d r IH]; intros i idx l cl' H; [discriminate|].
  destruct d as [|x d].
  - cbn [pop_first] in H.
    destruct (pop_first (S i) r) as [[[i' l'] r']|] eqn:E; [|discriminate].
    inversion H; subst; clear H.
    destruct (IH _ _ _ _ E) as (L & R & C & P & Ep & O).
    cbn [length concat app cw epos mem existsb]. csplit.
    + lia.
    + lia.
    + lia.
    + lia.
    + exact P.
    + intros N. rewrite Ep by exact N. lia.
    + intros y Hy. rewrite O by exact Hy. reflexivity.
  - cbn [pop_first] in H. inversion H; subst; clear H.
    cbn [length concat app cw epos]. csplit.
    + reflexivity.
    + lia.
    + lia.
    + lia.
    + reflexivity.
    + intros _. unfold mem. cbn [existsb]. rewrite Z.eqb_refl. cbn. lia.
    + intros y Hy. unfold mem. cbn [existsb].
      destruct (Z.eqb y l) eqn:E; [apply Z.eqb_eq in E; congruence|]. reflexivity.
Qed.

Lemma pop_first_none i cl : pop_first i cl = None <-> any_curr cl = false.
Proof.
  revert i. induction cl as [|d r IH]; simpl; intros i; [tauto|].
  destruct d; simpl.
  - rewrite <- (IH (S i)). destruct (pop_first (S i) r) as [[[? ?] ?]|]; split; congruence.
  - split; discriminate.
Qed.

Lemma length_append_at j l cl : length (append_at j l cl) = length cl.
Proof.
  revert j. induction cl as [|d r IH]; intros [|j]; simpl; auto.
Qed.

Lemma cw_append_at j l cl :
  cw (append_at j l cl) = cw cl + (length cl - j).
Proof.
  revert j. induction cl as [|d r IH]; intros [|j]; simpl; auto.
  - rewrite app_length. simpl. lia.
  - rewrite length_append_at, IH. lia.
Qed.

Lemma concat_append_at j l cl :
  j < length cl -> Permutation (concat (append_at j l cl)) (l :: concat cl).
Proof.
  revert j. induction cl as [|d r IH]; intros [|j] H; simpl in *; try lia.
  - rewrite <- app_assoc. simpl. symmetry. apply Permutation_middle.
  - rewrite IH by lia. symmetry. apply Permutation_middle.
Qed.

Lemma epos_append_at_same j l cl :
  j < length cl -> ~ In l (concat cl) -> epos l (append_at j l cl) = j.
Proof.
  revert j. induction cl as [|d r IH]; intros [|j] H N; simpl in *; try lia.
  - replace (mem l (d ++ [l])) with true; [reflexivity|].
    symmetry. apply mem_In. apply in_or_app. right. left. reflexivity.
  - rewrite in_app_iff in N.
    replace (mem l d) with false by (symmetry; apply mem_false; tauto).
    rewrite IH; [reflexivity|lia|tauto].
Qed.

Lemma epos_append_at_other j l cl x :
  x <> l -> epos x (append_at j l cl) = epos x cl.
Proof.
  intros Hx. revert j. induction cl as [|d r IH]; intros [|j]; simpl; auto.
  - replace (mem x (d ++ [l])) with (mem x d); [reflexivity|].
    destruct (mem x d) eqn:E.
    + symmetry. apply mem_In. apply in_or_app. left. apply mem_In. exact E.
    + symmetry. apply mem_false. rewrite in_app_iff. simpl. apply mem_false in E. intuition.
  - rewrite IH. reflexivity.
Qed.

Lemma length_extend_first ls cl : length (extend_first ls cl) = length cl.
Proof. destruct cl; reflexivity. Qed.

Lemma concat_extend_first ls cl :
  cl <> [] -> concat cl = [] -> concat (extend_first ls cl) = ls.
Proof.
  destruct cl as [|d r]; [congruence|]. simpl. intros _ H.
  apply app_eq_nil in H. destruct H as [-> ->]. simpl. apply app_nil_r.
Qed.

Lemma cw_extend_first ls cl :
  cl <> [] -> cw (extend_first ls cl) = cw cl + length cl * length ls.
Proof.
  destruct cl as [|d r]; [congruence|]. intros _. simpl. rewrite app_length. lia.
Qed.

Lemma epos_in_first l d r : In l d -> epos l (d :: r) = 0.
Proof. intros H. simpl. apply mem_In in H. rewrite H. reflexivity. Qed.

Lemma done_sets_notin l cl : ~ In l (concat cl) -> done_sets l cl = 0.
Proof. intros H. unfold done_sets. apply mem_false in H. rewrite H. reflexivity. Qed.

Lemma done_sets_in l cl : In l (concat cl) -> done_sets l cl = epos l cl.
Proof. intros H. unfold done_sets. apply mem_In in H. rewrite H. reflexivity. Qed.

(* ---------------- packets of one label ---------------- *)
Definition lab_is (l : Z) (p : packet) : bool := Z.eqb (p_label p) l.
Definition fl (l : Z) (ps : list packet) : list packet := filter (lab_is l) ps.

Lemma fl_app l a b : fl l (a ++ b) = fl l a ++ fl l b.
Proof. apply filter_app. Qed.

Lemma fl_single_same l s : fl l (single_packets l s) = single_packets l s.
Proof.
  unfold single_packets. induction s as [|x t IH]; simpl; [reflexivity|].
  unfold lab_is at 1. simpl. rewrite Z.eqb_refl. f_equal. exact IH.
Qed.

Lemma fl_single_other l l' s : l' <> l -> fl l (single_packets l' s) = [].
Proof.
  intros H. unfold single_packets. induction s as [|x t IH]; simpl; [reflexivity|].
  unfold lab_is at 1. simpl. apply Z.eqb_neq in H. rewrite H. exact IH.
Qed.

Lemma fl_all_same l ps : (forall p, In p ps -> p_label p = l) -> fl l ps = ps.
Proof.
  induction ps as [|p t IH]; simpl; intros H; [reflexivity|].
  unfold lab_is at 1. rewrite (H p) by (left; reflexivity). rewrite Z.eqb_refl.
  f_equal. apply IH. intros; apply H; right; assumption.
Qed.

(* ---------------- prefixes ---------------- *)
Definition prefix {A} (a b : list A) : Prop := exists r, b = a ++ r.

Lemma prefix_refl {A} (a : list A) : prefix a a.
Proof. exists []. symmetry. apply app_nil_r. Qed.

Lemma prefix_trans {A} (a b c : list A) : prefix a b -> prefix b c -> prefix a c.
Proof. intros (r & ->) (s & ->). exists (r ++ s). symmetry. apply app_assoc. Qed.

Lemma prefix_app {A} (a b : list A) : prefix a (a ++ b).
Proof. exists b. reflexivity. Qed.

Lemma prefix_app_l {A} (x a b : list A) : prefix a b -> prefix (x ++ a) (x ++ b).
Proof. intros (r & ->). exists r. apply app_assoc. Qed.

Lemma prefix_NoDup {A} (a b : list A) : prefix a b -> NoDup b -> NoDup a.
Proof.
  intros (r & ->). induction a as [|x a IH]; simpl; intros N; [constructor|].
  inversion N; subst. constructor.
  - intros H. apply H1. apply in_or_app. left. exact H.
  - apply IH. assumption.
Qed.

Lemma NoDup_by_label ps : (forall l, NoDup (fl l ps)) -> NoDup ps.
Proof.
  induction ps as [|p t IH]; intros H; [constructor|].
  constructor.
  - pose proof (H (p_label p)) as N. simpl in N. unfold lab_is at 1 in N.
    rewrite Z.eqb_refl in N. inversion N; subst. intros Hin. apply H2.
    apply filter_In. split; [exact Hin|]. unfold lab_is. apply Z.eqb_refl.
  - apply IH. intros l. pose proof (H l) as N. simpl in N.
    destruct (lab_is l p); [inversion N; assumption|exact N].
Qed.
