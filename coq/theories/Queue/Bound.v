(* Only labels that were added ever travel through the queue; hence the number
   of packets of a whole history is bounded by (number of distinct labels
   added) * (packets of one label), and a drain (next, next, ... with no add in
   between) reaches StopIteration within that bound: the property title's
   "terminates" for a RUN, not only for one call of next. *)
From Coq Require Import ZArith List Bool Lia Permutation Arith.
From CSS Require Import Queue.Model Queue.Lists Queue.Termination Queue.Invariant Queue.Trace.
Import ListNotations.
Open Scope nat_scope.

(* ---------------- list facts ---------------- *)
Lemma In_concat_extend_first x ls cl :
  In x (concat (extend_first ls cl)) -> In x ls \/ In x (concat cl).
Proof.
  destruct cl as [|d r]; cbn; [tauto|]. rewrite !in_app_iff. tauto.
Qed.

Lemma In_concat_append_at x j l cl :
  In x (concat (append_at j l cl)) -> x = l \/ In x (concat cl).
Proof.
  revert j. induction cl as [|d r IH]; intros [|j]; cbn; try tauto.
  - rewrite !in_app_iff. cbn. intuition.
  - rewrite !in_app_iff. intros [H|H]; [tauto|]. destruct (IH j H); tauto.
Qed.

Lemma pop_first_In i cl idx l cl' :
  pop_first i cl = Some (idx, l, cl') ->
  In l (concat cl) /\ forall x, In x (concat cl') -> In x (concat cl).
Proof.
  intros H. destruct (pop_first_spec _ _ _ _ _ H) as (_ & _ & _ & P & _). split.
  - apply (Permutation_in l (Permutation_sym P)). left. reflexivity.
  - intros x Hx. apply (Permutation_in x (Permutation_sym P)). right. exact Hx.
Qed.

Lemma In_single_label p l s : In p (single_packets l s) -> p_label p = l.
Proof.
  unfold single_packets. intros H. apply in_map_iff in H. destruct H as (y & <- & _). reflexivity.
Qed.

Lemma drain_sub st ign :
  match drain_staging st ign with
  | (Some wp, r) => In wp st /\ incl r st
  | (None, r) => r = []
  end.
Proof.
  induction st as [|p t IH]; cbn [drain_staging]; [reflexivity|].
  destruct (mem (p_label p) ign).
  - destruct (drain_staging t ign) as [[wp|] r]; [|exact IH].
    destruct IH as (A & B). split; [right; exact A|intros x Hx; right; apply B; exact Hx].
  - split; [left; reflexivity|intros x Hx; right; exact Hx].
Qed.

Lemma length_filter_split {A} (f : A -> bool) (l : list A) :
  length l = length (filter f l) + length (filter (fun x => negb (f x)) l).
Proof.
  induction l as [|x t IH]; cbn; [reflexivity|]. destruct (f x); cbn; lia.
Qed.

Lemma length_filter_filter {A} (f g : A -> bool) (l : list A) :
  length (filter f (filter g l)) <= length (filter f l).
Proof.
  induction l as [|x t IH]; cbn; [lia|].
  destruct (g x); cbn; destruct (f x); cbn; lia.
Qed.

(* counting by label: if every packet carries a label of L and no label has
   more than k packets, there are at most |L| * k packets *)
Lemma length_by_label k (L : list Z) : forall ps : list packet,
  (forall p, In p ps -> In (p_label p) L) ->
  (forall l, length (fl l ps) <= k) ->
  length ps <= length L * k.
Proof.
  induction L as [|l L IH]; intros ps Hin Hk.
  - destruct ps as [|p t]; [cbn; lia|]. destruct (Hin p (or_introl eq_refl)).
  - rewrite (length_filter_split (lab_is l) ps).
    specialize (Hk l) as Hl. unfold fl in Hl.
    set (ps' := filter (fun x => negb (lab_is l x)) ps).
    assert (length ps' <= length L * k) as H'.
    { apply IH.
      - intros p Hp. apply filter_In in Hp. destruct Hp as (Hp & Np).
        destruct (Hin p Hp) as [E|E]; [|exact E].
        unfold lab_is in Np. rewrite <- E, Z.eqb_refl in Np. discriminate.
      - intros l'. eapply Nat.le_trans; [apply length_filter_filter|apply Hk]. }
    cbn [length]. lia.
Qed.

Lemma prefix_length {A} (a b : list A) : prefix a b -> length a <= length b.
Proof. intros (r & ->). rewrite app_length. lia. Qed.

Lemma added_app a b : added (a ++ b) = added a ++ added b.
Proof. apply flat_map_app. Qed.

Lemma handed_app a b : handed (a ++ b) = handed a ++ handed b.
Proof. apply flat_map_app. Qed.

Lemma added_repeat_next k : added (repeat ONext k) = [].
Proof. induction k as [|k IH]; [reflexivity|exact IH]. Qed.

Section Bound.
Variable inferral_strategies : list Z.
Variable initial_strategies : list Z.
Variable expansion_strats : list (list Z).

Notation can_do_inferral := (can_do_inferral inferral_strategies).
Notation can_do_initial := (can_do_initial initial_strategies).
Notation add := (add inferral_strategies initial_strategies).
Notation iter_helper_working := (iter_helper_working inferral_strategies initial_strategies).
Notation populate_working := (populate_working inferral_strategies initial_strategies).
Notation iter_helper_curr := (iter_helper_curr expansion_strats).
Notation populate_curr := (populate_curr expansion_strats).
Notation populate_staging := (populate_staging inferral_strategies initial_strategies expansion_strats).
Notation next_fuel := (next_fuel inferral_strategies initial_strategies expansion_strats).
Notation next := (next inferral_strategies initial_strategies expansion_strats).
Notation gen_loop := (gen_loop inferral_strategies initial_strategies expansion_strats).
Notation gen_next := (gen_next inferral_strategies initial_strategies expansion_strats).
Notation step := (step inferral_strategies initial_strategies expansion_strats).
Notation exec := (exec inferral_strategies initial_strategies expansion_strats).
Notation all_work := (all_work inferral_strategies initial_strategies expansion_strats).
Notation noinf_work := (noinf_work initial_strategies expansion_strats).
Notation inf_packet := (inf_packet inferral_strategies).
Notation run ops := (exec (init_state expansion_strats) ops).

(* every label anywhere in the queue is one of A *)
Definition Sub (q : queue) (A : list Z) : Prop :=
  incl (working q) A /\ incl (keys (next_level q)) A /\ incl (concat (curr_level q)) A /\
  (forall p, In p (staging q) -> In (p_label p) A).

Lemma Sub_mono q A A' : incl A A' -> Sub q A -> Sub q A'.
Proof.
  intros Hi (S1 & S2 & S3 & S4). unfold Sub. csplit.
  - eapply incl_tran; eauto.
  - eapply incl_tran; eauto.
  - eapply incl_tran; eauto.
  - intros p Hp. apply Hi. apply S4. exact Hp.
Qed.

Lemma init_Sub : Sub (init expansion_strats) [].
Proof.
  unfold Sub. cbn [Model.init working next_level curr_level staging map].
  rewrite concat_init_curr. csplit; try (intros x []).
Qed.

Lemma add_Sub q A l : Sub q A -> Sub (add q l) (l :: A).
Proof.
  intros S. apply (Sub_mono q A (l :: A)) in S; [|intros x Hx; right; exact Hx].
  destruct S as (S1 & S2 & S3 & S4). unfold Model.add.
  destruct (can_do_inferral q l || can_do_initial q l).
  - unfold Sub. cbn. csplit; auto.
    intros x Hx. apply in_app_or in Hx. destruct Hx as [Hx|[<-|[]]]; [apply S1; exact Hx|left; reflexivity].
  - destruct (negb (mem l (ignore q))); [|unfold Sub; auto].
    unfold Sub. cbn. csplit; auto.
    intros x Hx. apply In_keys_ctr_incr in Hx. destruct Hx as [->|Hx]; [left; reflexivity|apply S2; exact Hx].
Qed.

Lemma notinf_Sub q A l : Sub q A -> Sub (set_not_inferrable q l) A.
Proof. unfold set_not_inferrable. destruct (negb (mem l (ignore q))); intros S; exact S. Qed.

Lemma notini_Sub q A l : Sub q A -> Sub (set_not_initial q l) A.
Proof. unfold set_not_initial. destruct (negb (mem l (ignore q))); intros S; exact S. Qed.

Lemma stop_Sub q A l : Sub q A -> Sub (set_stop_yielding q l) A.
Proof.
  intros (S1 & S2 & S3 & S4). unfold Sub. cbn. csplit; auto.
  intros x Hx. apply In_keys_ctr_pop in Hx. apply S2. tauto.
Qed.

Lemma stage_Sub q A ps :
  (forall p, In p ps -> In (p_label p) A) -> Sub q A -> Sub (stage q ps) A.
Proof.
  intros Hp (S1 & S2 & S3 & S4). unfold Sub. cbn. csplit; auto.
  intros p Hin. apply in_app_or in Hin. destruct Hin; auto.
Qed.

Lemma ihw_Sub q A : Sub q A -> Sub (iter_helper_working q) A.
Proof.
  intros S. unfold Model.iter_helper_working. destruct (working q) as [|l w] eqn:W; [exact S|].
  assert (In l A) as Hl by (apply (proj1 S); rewrite W; left; reflexivity).
  assert (Sub (set_working q w) A) as S0.
  { destruct S as (S1 & S2 & S3 & S4). unfold Sub. cbn. csplit; auto.
    intros x Hx. apply S1. rewrite W. right. exact Hx. }
  set (q0 := set_working q w) in *.
  assert (Sub (if can_do_inferral q0 l
               then set_not_inferrable (stage q0 [inf_packet l]) l else q0) A) as SA.
  { destruct (can_do_inferral q0 l); [|exact S0]. apply notinf_Sub. apply stage_Sub; [|exact S0].
    intros p [<-|[]]. exact Hl. }
  set (qa := if can_do_inferral q0 l then _ else q0) in *.
  assert (Sub (if can_do_initial qa l
               then set_not_initial (stage qa (single_packets l initial_strategies)) l else qa) A) as SB.
  { destruct (can_do_initial qa l); [|exact SA]. apply notini_Sub. apply stage_Sub; [|exact SA].
    intros p Hp. rewrite (In_single_label p l _ Hp). exact Hl. }
  set (qb := if can_do_initial qa l then _ else qa) in *.
  destruct SB as (S1 & S2 & S3 & S4). unfold Sub. cbn. csplit; auto.
  intros x Hx. apply In_keys_ctr_incr in Hx. destruct Hx as [->|Hx]; [exact Hl|apply S2; exact Hx].
Qed.

Lemma pw_Sub n q A : Sub q A -> Sub (populate_working n q) A.
Proof.
  revert q. induction n as [|n IH]; intros q S; cbn [Model.populate_working]; [exact S|].
  destruct (negb (nonempty (staging q)) && nonempty (working q)); [|exact S].
  apply IH. apply ihw_Sub. exact S.
Qed.

Lemma change_level_Sub q q1 A : change_level q = POk q1 -> Sub q A -> Sub q1 A.
Proof.
  intros CL (S1 & S2 & S3 & S4). destruct (change_level_ok q q1 CL) as (St & W & Zn & _ & ->).
  unfold Sub. cbn. csplit; try (intros x []).
  - intros x Hx. apply In_concat_extend_first in Hx. destruct Hx as [Hx|Hx]; [|apply S3; exact Hx].
    apply S2. apply (Permutation_in x (sorted_keys_perm (next_level q))). exact Hx.
Qed.

Lemma ihc_Sub q q2 A : iter_helper_curr q = POk q2 -> Sub q A -> Sub q2 A.
Proof.
  intros E (S1 & S2 & S3 & S4). unfold Model.iter_helper_curr in E.
  destruct (pop_first 0 (curr_level q)) as [[[idx l] cl']|] eqn:P; [|discriminate].
  destruct (pop_first_In _ _ _ _ _ P) as (Il & Icl).
  assert (Sub (set_curr_level q cl') A) as S0.
  { unfold Sub. cbn. csplit; auto. intros x Hx. apply S3. apply Icl. exact Hx. }
  destruct (Nat.eqb idx (length expansion_strats)); inversion E; subst; clear E.
  - apply stop_Sub. exact S0.
  - assert (Sub (stage (set_curr_level q cl') (single_packets l (nth idx expansion_strats []))) A) as S'.
    { apply stage_Sub; [|exact S0]. intros p Hp. rewrite (In_single_label p l _ Hp). apply S3. exact Il. }
    destruct S' as (T1 & T2 & T3 & T4). unfold Sub. cbn -[append_at]. csplit; auto.
    intros x Hx. apply (In_concat_append_at x (Datatypes.S idx) l cl') in Hx. destruct Hx as [->|Hx]; [apply S3; exact Il|].
    apply S3. apply Icl. exact Hx.
Qed.

Lemma pc_Sub n q A :
  Sub q A ->
  match populate_curr n q with
  | POk q' | PStop q' => Sub q' A
  | _ => True
  end.
Proof.
  revert q. induction n as [|n IH]; intros q S; cbn [Model.populate_curr]; [exact I|].
  destruct (nonempty (staging q)); [exact S|].
  assert (forall q1, Sub q1 A ->
     match match iter_helper_curr q1 with POk q2 => populate_curr n q2 | r => r end with
     | POk q' | PStop q' => Sub q' A
     | _ => True
     end) as Step.
  { intros q1 S1. pose proof (ihc_spec expansion_strats q1) as X.
    destruct (iter_helper_curr q1) as [q2|q2|q2|q2] eqn:E; try tauto.
    apply IH. eapply ihc_Sub; eauto. }
  destruct (any_curr (curr_level q)) eqn:Ac; cbn [negb]; [apply Step; exact S|].
  destruct (change_level q) as [q1|q1|q1|q1] eqn:CL; auto.
  - apply Step. eapply change_level_Sub; eauto.
  - pose proof CL as CL'. unfold change_level in CL'.
    destruct (nonempty (staging q) || nonempty (working q) || any_curr (curr_level q)) eqn:B; [discriminate|].
    apply orb_false_iff in B. destruct B as (B & _). apply orb_false_iff in B. destruct B as (B1 & B2).
    assert (staging q = []) as St by (destruct (staging q); [reflexivity|discriminate]).
    assert (working q = []) as W by (destruct (working q); [reflexivity|discriminate]).
    pose proof (change_level_spec q St W Ac) as X. rewrite CL in X. subst q1. exact S.
Qed.

Lemma next_fuel_Sub n q A :
  Sub q A ->
  match next_fuel n q with
  | (RPacket p, q') => Sub q' A /\ In (p_label p) A
  | (RStop, q') => Sub q' A
  | _ => True
  end.
Proof.
  revert q. induction n as [|n IH]; intros q S; cbn [Model.next_fuel]; [exact I|].
  pose proof (drain_sub (staging q) (ignore q)) as D.
  destruct (drain_staging (staging q) (ignore q)) as [[wp|] r].
  - destruct D as (Hw & Hr). destruct S as (S1 & S2 & S3 & S4). split; [|apply S4; exact Hw].
    unfold Sub. cbn. csplit; auto.
  - subst r.
    assert (Sub (set_staging q []) A) as S0.
    { destruct S as (S1 & S2 & S3 & S4). unfold Sub. cbn. csplit; auto. intros p []. }
    unfold Model.populate_staging.
    pose proof (pw_Sub (length (working (set_staging q []))) _ A S0) as S1.
    set (q1 := populate_working _ _) in *.
    pose proof (pc_Sub n q1 A S1) as X.
    destruct (populate_curr n q1) as [q2|q2|q2|q2]; auto.
    apply IH. exact X.
Qed.

Lemma next_Sub q A :
  Sub q A ->
  match next q with
  | (RPacket p, q') => Sub q' A /\ In (p_label p) A
  | (_, q') => Sub q' A
  end.
Proof.
  intros S. pose proof (next_fuel_Sub (fuel_of q) q A S) as X.
  pose proof (next_total inferral_strategies initial_strategies expansion_strats q) as T.
  unfold Model.next in *.
  destruct (next_fuel (fuel_of q) q) as [[p| | |] q']; tauto.
Qed.

Lemma gen_next_Sub g q A :
  Sub q A ->
  let '(e, g', q') := gen_next g q in
  Sub q' A /\ forall p, In p (ev_packets e) -> In (p_label p) A.
Proof.
  intros S.
  assert (forall c, let '(e, g', q') := gen_loop c q in
     Sub q' A /\ forall p, In p (ev_packets e) -> In (p_label p) A) as L.
  { intros c. unfold Model.gen_loop. destruct (Nat.eqb c (levels_completed q)).
    - pose proof (next_Sub q A S) as X.
      destruct (next q) as [[p| | |] q'].
      + destruct X as (X1 & X2). split; [exact X1|]. intros p' [<-|[]]. exact X2.
      + destruct (Nat.eqb c (levels_completed q')); split; auto; intros p' [].
      + split; auto; intros p' [].
      + split; auto; intros p' [].
    - split; auto; intros p' []. }
  destruct g as [|c|]; cbn [Model.gen_next]; [apply L|apply L|].
  split; auto; intros p' [].
Qed.

Lemma step_Sub s o A :
  Sub (sq s) A ->
  let '(s', e) := step s o in
  Sub (sq s') (op_added o ++ A) /\ forall p, In p (ev_packets e) -> In (p_label p) (op_added o ++ A).
Proof.
  intros S. destruct o as [l|l|l|l| | |]; cbn [Model.step op_added app sq ev_packets].
  - split; [apply add_Sub; exact S|intros p []].
  - split; [apply notinf_Sub; exact S|intros p []].
  - split; [apply stop_Sub; exact S|intros p []].
  - split; [apply stop_Sub; exact S|intros p []].
  - pose proof (next_Sub (sq s) A S) as X.
    destruct (next (sq s)) as [[p| | |] q']; cbn [sq ev_packets].
    + destruct X as (X1 & X2). split; [exact X1|]. intros p' [<-|[]]. exact X2.
    + split; [exact X|intros p []].
    + split; [exact X|intros p []].
    + split; [exact X|intros p []].
  - split; [exact S|intros p []].
  - pose proof (gen_next_Sub (sg s) (sq s) A S) as X.
    destruct (gen_next (sg s) (sq s)) as [[e g'] q']. cbn [sq]. exact X.
Qed.

Lemma exec_Sub ops : forall s s' evs A,
  Sub (sq s) A -> exec s ops = (s', evs) ->
  Sub (sq s') (added ops ++ A) /\ forall p, In p (handed evs) -> In (p_label p) (added ops ++ A).
Proof.
  induction ops as [|o t IH]; intros s s' evs A S E.
  - cbn in E. inversion E; subst. split; [exact S|intros p []].
  - rewrite exec_cons in E. pose proof (step_Sub s o A S) as X.
    destruct (step s o) as [s1 e]. destruct X as (S1 & P1).
    destruct (exec s1 t) as [s2 es] eqn:E2. inversion E; subst; clear E.
    destruct (IH s1 s' es _ S1 E2) as (S2 & P2).
    assert (incl (added t ++ op_added o ++ A) (added (o :: t) ++ A)) as Hi.
    { cbn [added flat_map]. fold (added t). intros x. rewrite !in_app_iff. tauto. }
    split; [eapply Sub_mono; eauto|].
    intros p Hp. cbn [handed flat_map] in Hp. fold (handed es) in Hp.
    apply in_app_or in Hp. destruct Hp as [Hp|Hp].
    + apply Hi. apply in_or_app. right. apply P1. exact Hp.
    + apply Hi. apply P2. exact Hp.
Qed.

(* 1. every packet handed out in a history carries a label that was added *)
Lemma only_added ops s evs p :
  run ops = (s, evs) -> In p (handed evs) -> In (p_label p) (added ops).
Proof.
  intros E Hp.
  destruct (exec_Sub ops (init_state expansion_strats) s evs [] init_Sub E) as (_ & P).
  specialize (P p Hp). rewrite app_nil_r in P. exact P.
Qed.

(* ... and so does every label still in the queue *)
Lemma run_Sub ops s evs : run ops = (s, evs) -> Sub (sq s) (added ops).
Proof.
  intros E.
  destruct (exec_Sub ops (init_state expansion_strats) s evs [] init_Sub E) as (S & _).
  rewrite app_nil_r in S. exact S.
Qed.

(* 2. the bound on the packets of a history *)
Lemma length_noinf_le_all l : length (noinf_work l) <= length (all_work l).
Proof. unfold Invariant.all_work. rewrite app_length. lia. Qed.

Lemma length_all_work l l' : length (all_work l) = length (all_work l').
Proof.
  unfold Invariant.all_work, Invariant.noinf_work, ini_packets. rewrite !exp_packets_concat.
  unfold single_packets. rewrite !app_length, !map_length.
  destruct (nonempty inferral_strategies); reflexivity.
Qed.

Definition packet_bound (ops : list op) : nat :=
  length (nodup Z.eq_dec (added ops)) * length (all_work 0%Z).

Lemma handed_bound ops s evs :
  run ops = (s, evs) -> length (handed evs) <= packet_bound ops.
Proof.
  intros E. unfold packet_bound. apply length_by_label.
  - intros p Hp. apply nodup_In. eapply only_added; eauto.
  - intros l. rewrite (length_all_work 0%Z l).
    destruct (order_trace _ _ _ ops s evs l E) as [P|P]; apply prefix_length in P.
    + exact P.
    + pose proof (length_noinf_le_all l). lia.
Qed.

(* 3. a drain terminates *)
Lemma run_snoc_next ops s evs :
  run ops = (s, evs) ->
  exists s' e, run (ops ++ [ONext]) = (s', evs ++ [e]) /\
    ((exists p q', e = EPacket p /\ next (sq s) = (RPacket p, q')) \/
     (exists q', e = EStopIteration /\ next (sq s) = (RStop, q') /\ s' = mks q' (sg s))).
Proof.
  intros E. rewrite exec_app, E. cbn [Model.exec Model.step].
  pose proof (next_total inferral_strategies initial_strategies expansion_strats (sq s)) as T.
  destruct (next (sq s)) as [[p| | |] q'] eqn:N; try tauto.
  - eexists; eexists; split; [reflexivity|]. left. eauto.
  - eexists; eexists; split; [reflexivity|]. right. eauto.
Qed.

Lemma repeat_snoc {A} (a : A) k : repeat a (Datatypes.S k) = repeat a k ++ [a].
Proof. induction k as [|k IH]; [reflexivity|]. cbn [repeat app] in *. rewrite <- IH. reflexivity. Qed.

Lemma last_snoc {A} (l : list A) x d : last (l ++ [x]) d = x.
Proof.
  induction l as [|y t IH]; [reflexivity|]. cbn [app]. destruct (t ++ [x]) eqn:E.
  - destruct t; discriminate.
  - cbn [last] in *. exact IH.
Qed.

Definition drain (ops : list op) (k : nat) : list op := ops ++ repeat ONext k.

Lemma drain_S ops k : drain ops (Datatypes.S k) = drain ops k ++ [ONext].
Proof. unfold drain. rewrite repeat_snoc. apply app_assoc. Qed.

Lemma added_drain ops k : added (drain ops k) = added ops.
Proof. unfold drain. rewrite added_app, added_repeat_next. apply app_nil_r. Qed.

(* the first k calls of next after `ops` either contain a StopIteration or
   hand out k packets *)
Lemma drain_progress ops k :
  (exists n, n < k /\ last (snd (run (drain ops (Datatypes.S n)))) ENone = EStopIteration) \/
  length (handed (snd (run (drain ops k)))) = length (handed (snd (run ops))) + k.
Proof.
  induction k as [|k IH].
  - right. unfold drain. cbn [repeat]. rewrite app_nil_r. lia.
  - destruct IH as [(n & Hn & L)|Hk]; [left; exists n; split; [lia|exact L]|].
    destruct (run (drain ops k)) as [s evs] eqn:E.
    destruct (run_snoc_next _ s evs E) as (s' & e & E' & [(p & q' & -> & _)|(q' & -> & _)]).
    + right. rewrite drain_S, E'. cbn [snd] in *. rewrite handed_app, app_length. cbn. lia.
    + left. exists k. split; [lia|]. rewrite drain_S, E'. cbn [snd]. apply last_snoc.
Qed.

Lemma drain_terminates ops s evs :
  run ops = (s, evs) ->
  exists n, n + length (handed evs) <= packet_bound ops /\
    last (snd (run (drain ops (Datatypes.S n)))) ENone = EStopIteration.
Proof.
  intros E.
  pose proof (handed_bound ops s evs E) as B0.
  set (k := Datatypes.S (packet_bound ops - length (handed evs))).
  destruct (drain_progress ops k) as [(n & Hn & L)|Hk].
  - exists n. split; [unfold k in Hn; lia|exact L].
  - exfalso. destruct (run (drain ops k)) as [s' evs'] eqn:E'.
    pose proof (handed_bound _ s' evs' E') as B. unfold packet_bound in B.
    rewrite added_drain in B. fold (packet_bound ops) in B.
    rewrite E in Hk. cbn [snd] in Hk. unfold k in Hk. lia.
Qed.

Lemma drain_terminates_run ops :
  exists n, n + length (handed (snd (run ops))) <= packet_bound ops /\
    last (snd (run (drain ops (Datatypes.S n)))) ENone = EStopIteration.
Proof. destruct (run ops) as [s evs] eqn:E. exact (drain_terminates ops s evs E). Qed.

(* and once it has answered StopIteration it goes on answering it *)
Lemma drain_stays ops n :
  last (snd (run (drain ops (Datatypes.S n)))) ENone = EStopIteration ->
  forall m, n <= m -> last (snd (run (drain ops (Datatypes.S m)))) ENone = EStopIteration.
Proof.
  intros L.
  assert (forall m, n <= m ->
     exists q', next (sq (fst (run (drain ops m)))) = (RStop, q')) as St.
  { intros m Hm. induction Hm as [|m Hm IH].
    - destruct (run (drain ops n)) as [s evs] eqn:E.
      destruct (run_snoc_next _ s evs E) as (s' & e & E' & [(p & q' & -> & _)|(q' & -> & N & _)]).
      + rewrite drain_S, E' in L. cbn [snd] in L. rewrite last_snoc in L. discriminate.
      + exists q'. exact N.
    - destruct IH as (q' & N).
      destruct (run (drain ops m)) as [s evs] eqn:E. cbn [fst] in N.
      destruct (run_snoc_next _ s evs E) as (s' & e & E' & [(p & q'' & _ & N')|(q'' & _ & N' & ->)]).
      + rewrite N in N'. discriminate.
      + rewrite drain_S, E'. cbn [fst sq]. exists q''.
        apply (stop_again inferral_strategies initial_strategies expansion_strats (sq s)). exact N'. }
  intros m Hm. destruct (St m Hm) as (q' & N).
  destruct (run (drain ops m)) as [s evs] eqn:E. cbn [fst] in N.
  destruct (run_snoc_next _ s evs E) as (s' & e & E' & [(p & q'' & _ & N')|(q'' & -> & _)]).
  - rewrite N in N'. discriminate.
  - rewrite drain_S, E'. cbn [snd]. apply last_snoc.
Qed.

(* liveness: every added, never-stopped label EVENTUALLY has all its work -
   the drain that terminates (above) ends in a state where the work of every
   such label is complete *)
Lemma stopped_drain ops k : stopped (drain ops k) = stopped ops.
Proof.
  unfold drain, stopped. rewrite flat_map_app.
  replace (flat_map op_stopped (repeat ONext k)) with (@nil Z); [apply app_nil_r|].
  induction k as [|k IH]; [reflexivity|exact IH].
Qed.

Lemma notinf_drain ops k : notinf (drain ops k) = notinf ops.
Proof.
  unfold drain, notinf. rewrite flat_map_app.
  replace (flat_map op_notinf (repeat ONext k)) with (@nil Z); [apply app_nil_r|].
  induction k as [|k IH]; [reflexivity|exact IH].
Qed.

Lemma eventually_complete ops :
  exists n, n + length (handed (snd (run ops))) <= packet_bound ops /\
    last (snd (run (drain ops (Datatypes.S n)))) ENone = EStopIteration /\
    forall l, In l (added ops) -> ~ In l (stopped ops) ->
      fl l (handed (snd (run (drain ops n)))) = all_work l \/
      (In l (notinf ops) /\ fl l (handed (snd (run (drain ops n)))) = noinf_work l).
Proof.
  destruct (drain_terminates_run ops) as (n & Hn & L). exists n. csplit; auto.
  intros l Ha Hs.
  destruct (run (drain ops n)) as [s evs] eqn:E. cbn [snd].
  destruct (run_snoc_next _ s evs E) as (s' & e & E' & [(p & q' & -> & _)|(q' & -> & N & _)]).
  - rewrite drain_S, E' in L. cbn [snd] in L. rewrite last_snoc in L. discriminate.
  - pose proof (complete_when_drained inferral_strategies initial_strategies expansion_strats
                  (drain ops n) s evs q' E N l) as X.
    rewrite added_drain, stopped_drain, notinf_drain in X. exact (X Ha Hs).
Qed.

Lemma length_all_work_eq l :
  length (all_work l) =
  (if nonempty inferral_strategies then 1 else 0) + length initial_strategies +
  length (concat expansion_strats).
Proof.
  unfold Invariant.all_work, Invariant.noinf_work, ini_packets. rewrite exp_packets_concat.
  unfold single_packets. rewrite !app_length, !map_length.
  destruct (nonempty inferral_strategies); cbn [length]; lia.
Qed.

(* ---- the same for a do_level pass: resuming the generator again and again
   reaches the end of the pass (EGenStop) or NoMoreClassesToExpandError ---- *)
Definition is_packet (e : event) : bool := match e with EPacket _ => true | _ => false end.

Lemma run_snoc o X s evs :
  run X = (s, evs) -> run (X ++ [o]) = (fst (step s o), evs ++ [snd (step s o)]).
Proof.
  intros E. rewrite exec_app, E. cbn [Model.exec]. destruct (step s o) as [s' e]. reflexivity.
Qed.

Lemma added_repeat o k : op_added o = [] -> added (repeat o k) = [].
Proof. intros H. induction k as [|k IH]; [reflexivity|]. cbn [repeat added flat_map]. rewrite H. exact IH. Qed.

Lemma repeat_progress o ops k :
  (exists n, n < k /\ is_packet (last (snd (run (ops ++ repeat o (Datatypes.S n)))) ENone) = false) \/
  length (handed (snd (run (ops ++ repeat o k)))) = length (handed (snd (run ops))) + k.
Proof.
  induction k as [|k IH].
  - right. cbn [repeat]. rewrite app_nil_r. lia.
  - destruct IH as [(n & Hn & L)|Hk]; [left; exists n; split; [lia|exact L]|].
    destruct (run (ops ++ repeat o k)) as [s evs] eqn:E.
    pose proof (run_snoc o _ s evs E) as E'. rewrite <- app_assoc, <- repeat_snoc in E'.
    destruct (is_packet (snd (step s o))) eqn:P.
    + right. rewrite E'. cbn [snd] in *. rewrite handed_app, app_length, Hk.
      destruct (snd (step s o)); try discriminate. cbn. lia.
    + left. exists k. split; [lia|]. rewrite E'. cbn [snd]. rewrite last_snoc. exact P.
Qed.

Lemma repeat_terminates o ops :
  op_added o = [] ->
  exists n, n + length (handed (snd (run ops))) <= packet_bound ops /\
    is_packet (last (snd (run (ops ++ repeat o (Datatypes.S n)))) ENone) = false.
Proof.
  intros Ho. destruct (run ops) as [s evs] eqn:E. cbn [snd].
  pose proof (handed_bound ops s evs E) as B0.
  set (k := Datatypes.S (packet_bound ops - length (handed evs))).
  destruct (repeat_progress o ops k) as [(n & Hn & L)|Hk].
  - exists n. split; [unfold k in Hn; lia|exact L].
  - exfalso. destruct (run (ops ++ repeat o k)) as [s' evs'] eqn:E'.
    pose proof (handed_bound _ s' evs' E') as B. unfold packet_bound in B.
    rewrite added_app, (added_repeat o k Ho), app_nil_r in B. fold (packet_bound ops) in B.
    rewrite E in Hk. cbn [snd] in Hk. unfold k in Hk. lia.
Qed.

Lemma gen_next_event g q :
  match fst (fst (gen_next g q)) with
  | EPacket _ | EGenStop | ENoMore | EAssert | EFuel => True
  | _ => False
  end.
Proof.
  assert (forall c, match fst (fst (gen_loop c q)) with
                    | EPacket _ | EGenStop | ENoMore | EAssert | EFuel => True
                    | _ => False end) as L.
  { intros c. unfold Model.gen_loop. destruct (Nat.eqb c (levels_completed q)); [|exact I].
    destruct (next q) as [[p| | |] q']; try exact I.
    destruct (Nat.eqb c (levels_completed q')); exact I. }
  destruct g as [|c|]; cbn [Model.gen_next]; [apply L|apply L|exact I].
Qed.

Lemma level_pass_terminates ops :
  exists n, n + length (handed (snd (run ops))) <= packet_bound ops /\
    let e := last (snd (run (ops ++ repeat OLevelNext (Datatypes.S n)))) ENone in
    e = EGenStop \/ e = ENoMore.
Proof.
  destruct (repeat_terminates OLevelNext ops eq_refl) as (n & Hn & L).
  exists n. split; [exact Hn|]. cbv zeta.
  rewrite repeat_snoc, app_assoc in L |- *.
  destruct (run (ops ++ repeat OLevelNext n)) as [s evs] eqn:E.
  pose proof (run_snoc OLevelNext _ s evs E) as E'.
  destruct (run ((ops ++ repeat OLevelNext n) ++ [OLevelNext])) as [s2 evs2] eqn:E2.
  destruct (run_total _ _ _ _ s2 evs2 E2) as (_ & F).
  inversion E'; subst. cbn [snd] in *. rewrite last_snoc in *.
  apply Forall_app in F. destruct F as (_ & F). inversion F as [|? ? (Na & Nf) _]; subst.
  cbn [Model.step] in *. pose proof (gen_next_event (sg s) (sq s)) as G.
  destruct (gen_next (sg s) (sq s)) as [[e g'] q']. cbn [fst snd] in *.
  destruct e; cbn in L; try discriminate; try tauto; congruence.
Qed.

End Bound.
