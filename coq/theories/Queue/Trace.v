(* Histories: the invariant along exec, and the lemmas behind Props/C16.v. *)
From Coq Require Import ZArith List Bool Lia Permutation Arith.
From CSS Require Import Queue.Model Queue.Lists Queue.Termination Queue.Invariant.
Import ListNotations.
Open Scope nat_scope.

Definition ev_packets (e : event) : list packet :=
  match e with EPacket p => [p] | _ => [] end.
(* the packets handed out in a history, in order *)
Definition handed (evs : list event) : list packet := flat_map ev_packets evs.
Definition op_added (o : op) : list Z := match o with OAdd l => [l] | _ => [] end.
Definition op_stopped (o : op) : list Z :=
  match o with OVerified l => [l] | OStop l => [l] | _ => [] end.
Definition op_notinf (o : op) : list Z := match o with ONotInf l => [l] | _ => [] end.
Definition added (ops : list op) : list Z := flat_map op_added ops.
Definition stopped (ops : list op) : list Z := flat_map op_stopped ops.
Definition notinf (ops : list op) : list Z := flat_map op_notinf ops.

Section Trace.
Variable inferral_strategies : list Z.
Variable initial_strategies : list Z.
Variable expansion_strats : list (list Z).

Notation next_fuel := (next_fuel inferral_strategies initial_strategies expansion_strats).
Notation next := (next inferral_strategies initial_strategies expansion_strats).
Notation gen_loop := (gen_loop inferral_strategies initial_strategies expansion_strats).
Notation gen_next := (gen_next inferral_strategies initial_strategies expansion_strats).
Notation step := (step inferral_strategies initial_strategies expansion_strats).
Notation exec := (exec inferral_strategies initial_strategies expansion_strats).
Notation init := (init expansion_strats).
Notation Inv := (Inv inferral_strategies initial_strategies expansion_strats).
Notation all_work := (all_work inferral_strategies initial_strategies expansion_strats).
Notation noinf_work := (noinf_work initial_strategies expansion_strats).
Notation add := (add inferral_strategies initial_strategies).

(* ---------------- the level counter only grows ---------------- *)
Lemma ihc_levels q q2 :
  iter_helper_curr expansion_strats q = POk q2 -> queue_sizes q2 = queue_sizes q.
Proof.
  unfold iter_helper_curr. destruct (pop_first 0 (curr_level q)) as [[[idx l] cl]|]; [|discriminate].
  destruct (Nat.eqb idx (length expansion_strats)); intros E; inversion E; reflexivity.
Qed.

Lemma pw_levels n q :
  queue_sizes (populate_working inferral_strategies initial_strategies n q) = queue_sizes q.
Proof.
  revert q. induction n as [|n IH]; intros q; cbn [populate_working]; [reflexivity|].
  destruct (negb (nonempty (staging q)) && nonempty (working q)) eqn:B; [|reflexivity].
  rewrite IH. apply andb_true_iff in B. destruct B as (_ & B).
  destruct (working q) as [|l w] eqn:W; [discriminate|].
  apply (ihw_fields inferral_strategies initial_strategies q l w W).
Qed.

Lemma pc_levels n q :
  match populate_curr expansion_strats n q with
  | POk q' | PStop q' => levels_completed q <= levels_completed q'
  | _ => True
  end.
Proof.
  revert q. induction n as [|n IH]; intros q; cbn [populate_curr]; [exact I|].
  destruct (nonempty (staging q)); [apply le_n|].
  assert (forall q1, levels_completed q <= levels_completed q1 ->
     match match iter_helper_curr expansion_strats q1 with
           | POk q2 => populate_curr expansion_strats n q2 | r => r end with
     | POk q' | PStop q' => levels_completed q <= levels_completed q'
     | _ => True
     end) as Step.
  { intros q1 L1. pose proof (ihc_spec expansion_strats q1) as X.
    destruct (iter_helper_curr expansion_strats q1) as [q2|q2|q2|q2] eqn:E; try tauto.
    pose proof (ihc_levels q1 q2 E) as L2. specialize (IH q2).
    unfold levels_completed in *. rewrite L2 in IH.
    destruct (populate_curr expansion_strats n q2); auto; lia. }
  destruct (any_curr (curr_level q)); cbn [negb]; [apply Step; apply le_n|].
  destruct (change_level q) as [q1|q1|q1|q1] eqn:CL; auto.
  - apply Step. destruct (change_level_ok q q1 CL) as (_ & _ & _ & _ & ->).
    unfold levels_completed. cbn. rewrite app_length. lia.
  - unfold change_level in CL.
    destruct (nonempty (staging q) || nonempty (working q) || any_curr (curr_level q)); [discriminate|].
    destruct (negb _) in CL; inversion CL. apply le_n.
Qed.

Lemma next_fuel_levels n q :
  match next_fuel n q with
  | (RPacket _, q') | (RStop, q') => levels_completed q <= levels_completed q'
  | _ => True
  end.
Proof.
  revert q. induction n as [|n IH]; intros q; cbn [Model.next_fuel]; [exact I|].
  destruct (drain_staging (staging q) (ignore q)) as [[wp|] r]; [apply le_n|].
  unfold populate_staging.
  set (q1 := populate_working _ _ _ (set_staging q r)).
  assert (levels_completed q1 = levels_completed q) as L1.
  { unfold q1, levels_completed. rewrite pw_levels. reflexivity. }
  pose proof (pc_levels n q1) as X.
  destruct (populate_curr expansion_strats n q1) as [q2|q2|q2|q2] eqn:E; auto.
  - specialize (IH q2). destruct (next_fuel n q2) as [[p| | |] q']; auto; lia.
  - lia.
Qed.

(* ---------------- ghost bookkeeping ---------------- *)
Lemma Inv_weaken q H NI NI' A A' U U' :
  Inv q H NI A U -> incl NI NI' -> incl A' A -> incl U U' -> Inv q H NI' A' U'.
Proof.
  intros (OK & Hi & C & D) I1 I2 I3. unfold Invariant.Inv. csplit.
  - eapply AllOK_NI_mono; eauto.
  - exact Hi.
  - intros x Hx. apply C. apply I2. exact Hx.
  - eapply Done_NI_mono; [exact I1|]. intros x Hx Hu. apply D; [exact Hx|].
    intros G. apply Hu. apply I3. exact G.
Qed.

Lemma concat_init_curr (e : list (list Z)) : concat (map (fun _ => @nil Z) e ++ [[]]) = [].
Proof. induction e as [|x t IH]; cbn; [reflexivity|exact IH]. Qed.

Lemma init_Inv : Inv init [] [] [] [].
Proof.
  unfold Invariant.Inv, AllOK, Shape, Hist, Cov, Done. cbn [Model.init curr_level next_level ignore working].
  rewrite concat_init_curr, app_length, map_length. cbn [length keys map]. csplit.
  - lia.
  - constructor.
  - constructor.
  - intros x _. cbn [view_of v_ini v_inf v_queued v_done v_pk Model.init ignore inferral_expanded initial_expanded next_level curr_level staging].
    rewrite concat_init_curr. cbn. csplit; try discriminate.
    + intros _. apply done_sets_notin. rewrite concat_init_curr. tauto.
    + exists []. split; [|right; split; [reflexivity|discriminate]].
      rewrite done_sets_notin by (rewrite concat_init_curr; tauto). reflexivity.
  - intros x. left. exists (all_work x). reflexivity.
  - intros x [].
  - intros x [].
Qed.

Definition ok_result (r : result) : Prop :=
  match r with RPacket _ | RStop => True | _ => False end.

Lemma next_Inv q H NI A U :
  Inv q H NI A U ->
  match next q with
  | (RPacket p, q') =>
      Inv q' (H ++ [p]) NI A U /\ incl (ignore q) (ignore q') /\ ~ In (p_label p) (ignore q') /\
      levels_completed q <= levels_completed q'
  | (RStop, q') =>
      Inv q' H NI A U /\ incl (ignore q) (ignore q') /\ dry q' /\
      levels_completed q <= levels_completed q'
  | _ => False
  end.
Proof.
  intros I. unfold Model.next.
  pose proof (next_fuel_Inv _ _ _ (fuel_of q) q H NI A U I) as X.
  pose proof (next_total inferral_strategies initial_strategies expansion_strats q) as Y.
  pose proof (next_fuel_levels (fuel_of q) q) as Z.
  unfold Model.next in Y.
  destruct (next_fuel (fuel_of q) q) as [[p| | |] q']; try tauto.
Qed.

Lemma set_not_inferrable_ignore q l : ignore (set_not_inferrable q l) = ignore q.
Proof. unfold set_not_inferrable. destruct (negb (mem l (ignore q))); reflexivity. Qed.

Lemma user_notinf_Inv q H NI A U l :
  Inv q H NI A U -> Inv (set_not_inferrable q l) H (l :: NI) A U.
Proof.
  intros (OK & Hi & C & D). unfold Invariant.Inv. csplit.
  - apply notinf_AllOK. exact OK.
  - exact Hi.
  - intros x Hx. specialize (C x Hx). unfold set_not_inferrable.
    destruct (negb (mem l (ignore q))); exact C.
  - intros x Hx Hu. rewrite set_not_inferrable_ignore in Hx.
    destruct (D x Hx Hu) as [E|(E1 & E2)]; [left; exact E|right; split; [right; exact E1|exact E2]].
Qed.

Lemma user_stop_Inv q H NI A U l :
  Inv q H NI A U -> Inv (set_stop_yielding q l) H NI A (l :: U).
Proof.
  intros (OK & Hi & C & D). unfold Invariant.Inv. csplit.
  - apply stop_AllOK. exact OK.
  - exact Hi.
  - apply stop_Cov. exact C.
  - apply stop_Done_user. exact D.
Qed.

Lemma user_add_Inv q H NI A U l :
  Inv q H NI A U -> Inv (add q l) H NI (l :: A) U.
Proof.
  intros (OK & Hi & C & D). unfold Invariant.Inv. csplit.
  - apply add_AllOK. exact OK.
  - exact Hi.
  - apply add_Cov. exact C.
  - intros x Hx. rewrite add_ignore in Hx. apply D. exact Hx.
Qed.

Definition ok_event (e : event) : Prop :=
  match e with EAssert | EFuel => False | _ => True end.

Lemma gen_next_Inv g q H NI A U :
  Inv q H NI A U ->
  let '(e, g', q') := gen_next g q in
  Inv q' (H ++ ev_packets e) NI A U /\ incl (ignore q) (ignore q') /\ ok_event e /\
  (forall p, e = EPacket p -> ~ In (p_label p) (ignore q')) /\
  levels_completed q <= levels_completed q'.
Proof.
  intros I.
  assert (forall c, let '(e, g', q') := gen_loop c q in
     Inv q' (H ++ ev_packets e) NI A U /\ incl (ignore q) (ignore q') /\ ok_event e /\
     (forall p, e = EPacket p -> ~ In (p_label p) (ignore q')) /\
     levels_completed q <= levels_completed q') as L.
  { intros c. unfold Model.gen_loop.
    destruct (Nat.eqb c (levels_completed q)).
    - pose proof (next_Inv q H NI A U I) as X.
      destruct (next q) as [[p| | |] q']; try tauto.
      + destruct X as (I' & G & Hp & Lv). cbn [ev_packets]. csplit; auto. exact Logic.I.
        intros p' E. inversion E; subst. exact Hp.
      + destruct X as (I' & G & _ & Lv).
        destruct (Nat.eqb c (levels_completed q')); cbn [ev_packets]; rewrite app_nil_r;
          csplit; auto; try exact Logic.I; intros p' E; discriminate.
    - cbn [ev_packets]. rewrite app_nil_r. csplit; auto; try exact Logic.I.
      + apply incl_refl.
      + intros p' E; discriminate. }
  destruct g as [|c|]; cbn [Model.gen_next].
  - apply L.
  - apply L.
  - cbn [ev_packets]. rewrite app_nil_r. csplit; auto; try exact Logic.I.
    + apply incl_refl.
    + intros p' E; discriminate.
Qed.

Lemma step_Inv s o H NI A U :
  Inv (sq s) H NI A U ->
  let '(s', e) := step s o in
  Inv (sq s') (H ++ ev_packets e) (op_notinf o ++ NI) (op_added o ++ A) (op_stopped o ++ U) /\
  incl (ignore (sq s)) (ignore (sq s')) /\ ok_event e /\
  (forall p, e = EPacket p -> ~ In (p_label p) (ignore (sq s'))) /\
  (forall l, In l (op_stopped o) -> In l (ignore (sq s'))) /\
  levels_completed (sq s) <= levels_completed (sq s').
Proof.
  intros I. destruct o as [l|l|l|l| | |]; cbn [Model.step op_notinf op_added op_stopped app sq ev_packets];
    try rewrite app_nil_r.
  - csplit; auto; try exact Logic.I.
    + apply user_add_Inv. exact I.
    + rewrite add_ignore. apply incl_refl.
    + intros p E; discriminate.
    + intros ? [].
    + unfold levels_completed, Model.add.
      destruct (_ || _); [apply le_n|]. destruct (negb _); apply le_n.
  - csplit; auto; try exact Logic.I.
    + apply user_notinf_Inv. exact I.
    + rewrite set_not_inferrable_ignore. apply incl_refl.
    + intros p E; discriminate.
    + intros ? [].
    + unfold levels_completed, set_not_inferrable. destruct (negb _); apply le_n.
  - csplit; auto; try exact Logic.I.
    + apply user_stop_Inv. exact I.
    + intros x Hx. cbn. right. exact Hx.
    + intros p E; discriminate.
    + intros x [<-|[]]. cbn. left. reflexivity.
  - csplit; auto; try exact Logic.I.
    + apply user_stop_Inv. exact I.
    + intros x Hx. cbn. right. exact Hx.
    + intros p E; discriminate.
    + intros x [<-|[]]. cbn. left. reflexivity.
  - pose proof (next_Inv (sq s) H NI A U I) as X.
    destruct (next (sq s)) as [[p| | |] q']; try tauto; cbn [sq ev_packets].
    + destruct X as (I' & G & Hp & Lv). csplit; auto. exact Logic.I.
      * intros p' E. inversion E; subst. exact Hp.
      * intros ? [].
    + destruct X as (I' & G & _ & Lv). rewrite app_nil_r. csplit; auto. exact Logic.I.
      * intros p' E; discriminate.
      * intros ? [].
  - csplit; auto; try exact Logic.I.
    + apply incl_refl.
    + intros p E; discriminate.
    + intros ? [].
  - pose proof (gen_next_Inv (sg s) (sq s) H NI A U I) as X.
    destruct (gen_next (sg s) (sq s)) as [[e g'] q']. cbn [sq].
    destruct X as (I' & G & Oe & Hp & Lv). csplit; auto. intros ? [].
Qed.

Lemma exec_cons s o t :
  exec s (o :: t) =
  let '(s1, e) := step s o in let '(s2, es) := exec s1 t in (s2, e :: es).
Proof. reflexivity. Qed.

Lemma exec_Inv ops : forall s s' evs H NI A U,
  Inv (sq s) H NI A U -> exec s ops = (s', evs) ->
  Inv (sq s') (H ++ handed evs) (notinf ops ++ NI) (added ops ++ A) (stopped ops ++ U) /\
  incl (ignore (sq s)) (ignore (sq s')) /\
  Forall ok_event evs /\
  (forall p, In p (handed evs) -> ~ In (p_label p) (ignore (sq s))) /\
  length evs = length ops /\
  levels_completed (sq s) <= levels_completed (sq s').
Proof.
  induction ops as [|o t IH]; intros s s' evs H NI A U I E.
  - cbn in E. inversion E; subst. cbn. rewrite app_nil_r. csplit; auto.
    apply incl_refl.
  - rewrite exec_cons in E. pose proof (step_Inv s o H NI A U I) as X.
    destruct (step s o) as [s1 e]. destruct X as (I1 & G1 & Oe & Hp & _ & Lv1).
    destruct (exec s1 t) as [s2 es] eqn:E2. inversion E; subst; clear E.
    destruct (IH s1 s' es _ _ _ _ I1 E2) as (I2 & G2 & Oes & Hps & Len & Lv2).
    csplit.
    + cbn [handed flat_map notinf added stopped]. fold (handed es) (notinf t) (added t) (stopped t).
      rewrite app_assoc. eapply Inv_weaken; [exact I2| | |];
        intros x; rewrite !in_app_iff; tauto.
    + eapply incl_tran; eauto.
    + constructor; assumption.
    + intros p Hin. cbn [handed flat_map] in Hin. apply in_app_or in Hin.
      destruct Hin as [Hin|Hin].
      * destruct e; cbn in Hin; try tauto. destruct Hin as [<-|[]].
        intros G. apply (Hp p0 eq_refl). apply G1. exact G.
      * intros G. apply (Hps p Hin). apply G1. exact G.
    + cbn. lia.
    + lia.
Qed.

Lemma exec_app ops1 ops2 s :
  exec s (ops1 ++ ops2) =
  let '(s1, e1) := exec s ops1 in let '(s2, e2) := exec s1 ops2 in (s2, e1 ++ e2).
Proof.
  revert s. induction ops1 as [|o t IH]; intros s.
  - cbn [app]. cbn [Model.exec]. destruct (exec s ops2). reflexivity.
  - cbn [app]. rewrite !exec_cons. destruct (step s o) as [s1 e]. rewrite IH.
    destruct (exec s1 t) as [s2 es]. destruct (exec s2 ops2). reflexivity.
Qed.

(* ---------------- packets are pairwise distinct ---------------- *)
Lemma exp_packets_concat l sets :
  exp_packets l sets = single_packets l (concat sets).
Proof.
  unfold exp_packets, single_packets. induction sets as [|e t IH]; cbn; [reflexivity|].
  rewrite map_app. f_equal. exact IH.
Qed.

Lemma NoDup_single l s : NoDup s -> NoDup (single_packets l s).
Proof.
  unfold single_packets. induction 1 as [|x t Hx N IH]; cbn; constructor; [|exact IH].
  intros Hin. apply in_map_iff in Hin. destruct Hin as (y & E & Hy). inversion E; subst. tauto.
Qed.

Lemma NoDup_noinf_work l :
  NoDup (initial_strategies ++ concat expansion_strats) -> NoDup (noinf_work l).
Proof.
  intros N. unfold Invariant.noinf_work, ini_packets. rewrite exp_packets_concat.
  unfold single_packets. rewrite <- map_app. apply NoDup_single. exact N.
Qed.

Lemma NoDup_all_work l :
  NoDup (initial_strategies ++ concat expansion_strats) -> NoDup (all_work l).
Proof.
  intros N. unfold Invariant.all_work. destruct (nonempty inferral_strategies); cbn [app].
  - constructor; [|apply NoDup_noinf_work; exact N].
    unfold Invariant.noinf_work, ini_packets. rewrite exp_packets_concat.
    unfold single_packets. rewrite <- map_app. intros Hin. apply in_map_iff in Hin.
    destruct Hin as (y & E & _). unfold inf_packet in E. inversion E.
  - apply NoDup_noinf_work. exact N.
Qed.

(* ---------------- dry = nothing left anywhere ---------------- *)
Definition drained (q : queue) : Prop :=
  staging q = [] /\ working q = [] /\ concat (curr_level q) = [] /\ next_level q = [].

Lemma dry_drained q : curr_level q <> [] -> dry q -> drained q.
Proof.
  intros Cn (St & W & A & CL). unfold drained. csplit; auto.
  - apply any_curr_false. exact A.
  - unfold change_level in CL. rewrite St, W, A in CL. cbn [nonempty orb] in CL.
    cbn [set_curr_level curr_level] in CL.
    destruct (curr_level q) as [|d r] eqn:C; [congruence|]. cbn [extend_first] in CL.
    destruct (any_curr ((d ++ keys (sort_desc (next_level q))) :: r)) eqn:A2; cbn [negb] in CL; [discriminate|].
    apply any_curr_false in A2. cbn in A2. apply app_eq_nil in A2. destruct A2 as (A2 & _).
    apply app_eq_nil in A2. destruct A2 as (_ & A2).
    pose proof (Permutation_length (sort_desc_perm (next_level q))) as Len.
    rewrite <- (map_length fst) in Len. rewrite A2 in Len.
    destruct (next_level q); [reflexivity|discriminate].
Qed.

Lemma drained_dry q : drained q -> dry q.
Proof.
  intros (St & W & Zc & N). unfold dry.
  assert (any_curr (curr_level q) = false) as A by (apply any_curr_false; exact Zc).
  csplit; auto.
  pose proof (change_level_spec q St W A) as X.
  destruct (change_level q) as [q1|q1|q1|q1] eqn:CL; try tauto.
  - exfalso. destruct (change_level_ok q q1 CL) as (_ & _ & _ & Nn & _).
    rewrite N in Nn. apply Nn. reflexivity.
  - subst. reflexivity.
Qed.

Lemma drained_notinf q l : drained q -> drained (set_not_inferrable q l).
Proof.
  unfold drained, set_not_inferrable. destruct (negb (mem l (ignore q))); cbn; tauto.
Qed.

Lemma drained_stop q l : drained q -> drained (set_stop_yielding q l).
Proof.
  unfold drained. cbn. intros (St & W & Zc & N). rewrite N. cbn. tauto.
Qed.

Definition no_add (o : op) : Prop := match o with OAdd _ => False | _ => True end.

(* after StopIteration nothing is handed out until something is added *)
Lemma exec_drained ops : forall s s' evs,
  drained (sq s) -> Forall no_add ops -> exec s ops = (s', evs) ->
  drained (sq s') /\
  Forall (fun e => e = ENone \/ e = EStopIteration \/ e = EGenStop \/ e = ENoMore) evs /\
  Forall2 (fun o e => o = ONext -> e = EStopIteration) ops evs.
Proof.
  induction ops as [|o t IH]; intros s s' evs D Hn E.
  - cbn in E. inversion E; subst. csplit; auto.
  - rewrite exec_cons in E. inversion Hn as [|? ? Ho Ht]; subst.
    assert (let '(s1, e) := step s o in
            drained (sq s1) /\ (e = ENone \/ e = EStopIteration \/ e = EGenStop \/ e = ENoMore) /\
            (o = ONext -> e = EStopIteration)) as X.
    { destruct o as [l|l|l|l| | |]; cbn [Model.step]; cbn [sq].
      - destruct Ho.
      - csplit; auto using drained_notinf. discriminate.
      - csplit; auto using drained_stop. discriminate.
      - csplit; auto using drained_stop. discriminate.
      - rewrite (next_dry _ _ _ (sq s) (drained_dry _ D)). cbn [sq]. csplit; auto.
      - csplit; auto. discriminate.
      - unfold Model.gen_next, Model.gen_loop.
        rewrite (next_dry _ _ _ (sq s) (drained_dry _ D)).
        destruct (sg s) as [|c|]; cbn [sq].
        + rewrite Nat.eqb_refl. cbn [sq]. csplit; auto. discriminate.
        + destruct (Nat.eqb c (levels_completed (sq s))); cbn [sq]; csplit; auto; discriminate.
        + csplit; auto. discriminate. }
    destruct (step s o) as [s1 e]. destruct X as (D1 & Oe & On).
    destruct (exec s1 t) as [s2 es] eqn:E2. inversion E; subst; clear E.
    destruct (IH s1 s' es D1 Ht E2) as (D2 & Oes & F2). csplit; auto.
Qed.

Lemma stop_drained q H NI A U q' :
  Inv q H NI A U -> next q = (RStop, q') -> drained q' /\ Inv q' H NI A U.
Proof.
  intros I E. pose proof (next_Inv q H NI A U I) as X. rewrite E in X.
  destruct X as (I' & _ & D & _). split; [|exact I'].
  apply dry_drained; [|exact D].
  destruct I' as (((S1 & _) & _) & _). intros C. rewrite C in S1. discriminate.
Qed.

Notation run ops := (exec (init_state expansion_strats) ops).

Lemma run_Inv ops s evs :
  run ops = (s, evs) -> Inv (sq s) (handed evs) (notinf ops) (added ops) (stopped ops).
Proof.
  intros E. pose proof (exec_Inv ops (init_state expansion_strats) s evs [] [] [] [] init_Inv E) as X.
  destruct X as (I & _). cbn [app] in I. rewrite !app_nil_r in I. exact I.
Qed.

Lemma never_ignored_trace ops1 o ops2 l s evs :
  In l (op_stopped o) -> run (ops1 ++ o :: ops2) = (s, evs) ->
  forall p, In p (handed (skipn (Datatypes.S (length ops1)) evs)) -> p_label p <> l.
Proof.
  intros Hl E p Hp. rewrite exec_app in E.
  destruct (exec (init_state expansion_strats) ops1) as [s1 e1] eqn:E1.
  rewrite exec_cons in E.
  pose proof (run_Inv ops1 s1 e1 E1) as I1.
  pose proof (exec_Inv ops1 (init_state expansion_strats) _ _ [] [] [] [] init_Inv E1) as (_ & _ & _ & _ & Len1 & _).
  pose proof (step_Inv s1 o _ _ _ _ I1) as X.
  destruct (step s1 o) as [s2 e]. destruct X as (I2 & _ & _ & _ & Hst & _).
  destruct (exec s2 ops2) as [s3 es] eqn:E3. inversion E; subst; clear E.
  pose proof (exec_Inv ops2 _ _ _ _ _ _ _ I2 E3) as (_ & _ & _ & Hps & _).
  replace (skipn (Datatypes.S (length ops1)) (e1 ++ e :: es)) with es in Hp.
  - intros El. apply (Hps p Hp). rewrite El. apply Hst. exact Hl.
  - rewrite <- Len1. change (e :: es) with ([e] ++ es). rewrite app_assoc.
    replace (Datatypes.S (length e1)) with (length (e1 ++ [e])) by (rewrite app_length; cbn; lia).
    rewrite skipn_app, skipn_all, Nat.sub_diag. reflexivity.
Qed.

Lemma complete_when_drained ops s evs q' :
  run ops = (s, evs) -> next (sq s) = (RStop, q') ->
  forall l, In l (added ops) -> ~ In l (stopped ops) ->
  fl l (handed evs) = all_work l \/ (In l (notinf ops) /\ fl l (handed evs) = noinf_work l).
Proof.
  intros E N l Ha Hs. pose proof (run_Inv ops s evs E) as I.
  destruct (stop_drained _ _ _ _ _ _ I N) as ((_ & W & Zc & Nl) & (_ & _ & C & D)).
  apply D; [|exact Hs].
  specialize (C l Ha). rewrite W, Zc, Nl in C. cbn in C. tauto.
Qed.

Lemma gen_loop_spec c q :
  let '(e, g', q') := gen_loop c q in
  if Nat.eqb c (levels_completed q) then
    match e with
    | EPacket p => g' = GRunning c /\ next q = (RPacket p, q')
    | ENoMore => g' = GDone /\ levels_completed q' = c /\ next q = (RStop, q')
    | EGenStop => g' = GDone /\ c < levels_completed q' /\ next q = (RStop, q')
    | _ => False
    end
  else e = EGenStop /\ g' = GDone /\ q' = q.
Proof.
  unfold Model.gen_loop. destruct (Nat.eqb c (levels_completed q)) eqn:Ec; [|auto].
  apply Nat.eqb_eq in Ec.
  pose proof (next_total inferral_strategies initial_strategies expansion_strats q) as T.
  pose proof (next_fuel_levels (fuel_of q) q) as Lv. fold (next q) in Lv.
  destruct (next q) as [[p| | |] q']; try tauto.
  destruct (Nat.eqb c (levels_completed q')) eqn:Ec'.
  - apply Nat.eqb_eq in Ec'. auto.
  - apply Nat.eqb_neq in Ec'. csplit; auto. lia.
Qed.

Lemma run_total ops s evs :
  run ops = (s, evs) ->
  length evs = length ops /\ Forall (fun e => e <> EAssert /\ e <> EFuel) evs.
Proof.
  intros E.
  destruct (exec_Inv ops (init_state expansion_strats) s evs [] [] [] [] init_Inv E)
    as (_ & _ & F & _ & L & _).
  split; [exact L|]. eapply Forall_impl; [|exact F].
  intros e Oe. destruct e; cbn in Oe; try tauto; split; discriminate.
Qed.

Lemma never_ignored_state ops s evs p q' :
  run ops = (s, evs) -> next (sq s) = (RPacket p, q') ->
  ~ In (p_label p) (ignore q') /\ ~ In (p_label p) (ignore (sq s)).
Proof.
  intros E N. pose proof (next_Inv _ _ _ _ _ (run_Inv ops s evs E)) as X.
  rewrite N in X. destruct X as (_ & G & Hp & _). split; [exact Hp|].
  intros Hi. apply Hp. apply G. exact Hi.
Qed.

Lemma order_trace ops s evs l :
  run ops = (s, evs) ->
  prefix (fl l (handed evs)) (all_work l) \/ prefix (fl l (handed evs)) (noinf_work l).
Proof. intros E. destruct (run_Inv ops s evs E) as (_ & Hi & _). apply Hi. Qed.

Lemma exhaustion_stable ops s evs q' g more s' evs' :
  run ops = (s, evs) -> next (sq s) = (RStop, q') ->
  Forall no_add more -> exec (mks q' g) more = (s', evs') ->
  handed evs' = [] /\
  Forall2 (fun o e => o = ONext -> e = EStopIteration) more evs'.
Proof.
  intros E N Hn E'.
  destruct (stop_drained _ _ _ _ _ _ (run_Inv ops s evs E) N) as (D & _).
  destruct (exec_drained more (mks q' g) s' evs' D Hn E') as (_ & F & F2).
  split; [|exact F2].
  clear - F. induction F as [|e es He _ IH]; [reflexivity|].
  cbn [handed flat_map]. fold (handed es). rewrite IH.
  destruct He as [ -> | [ -> | [ -> | -> ] ] ]; reflexivity.
Qed.

Lemma stop_again q q' : next q = (RStop, q') -> next q' = (RStop, q').
Proof.
  intros E. apply next_dry.
  pose proof (next_total inferral_strategies initial_strategies expansion_strats q) as X.
  rewrite E in X. exact X.
Qed.

End Trace.
