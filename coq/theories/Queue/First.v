(* "unless the label was marked not-inferrable FIRST": the first packet a label
   receives in a history is its inferral packet, unless an ONotInf for that
   label occurs in the history strictly before the operation that handed out
   the label's first packet.  Derived from the invariant of Queue/Invariant.v
   evaluated right after the first hand-out. *)
From Coq Require Import ZArith List Bool Lia Permutation Arith.
From CSS Require Import Queue.Model Queue.Lists Queue.Termination Queue.Invariant Queue.Trace.
Import ListNotations.
Open Scope nat_scope.

Lemma handed_app' a b : handed (a ++ b) = handed a ++ handed b.
Proof. apply flat_map_app. Qed.

(* the event that handed out the first packet of label l *)
Lemma first_split l : forall evs p rest,
  fl l (handed evs) = p :: rest ->
  exists evsA evsB, evs = evsA ++ EPacket p :: evsB /\ fl l (handed evsA) = [].
Proof.
  induction evs as [|e t IH]; intros p rest H; [discriminate|].
  cbn [handed flat_map] in H. fold (handed t) in H. rewrite fl_app in H.
  destruct (fl l (ev_packets e)) as [|p0 r0] eqn:E0.
  - cbn [app] in H. destruct (IH p rest H) as (evsA & evsB & -> & Hn).
    exists (e :: evsA), evsB. split; [reflexivity|].
    cbn [handed flat_map]. fold (handed evsA). rewrite fl_app, E0, Hn. reflexivity.
  - destruct e; cbn in E0; try discriminate.
    destruct (lab_is l p1); [|discriminate]. inversion E0; subst.
    cbn [app] in H. inversion H; subst.
    exists [], t. split; reflexivity.
Qed.

Lemma fl_handed_firstn l n evs :
  fl l (handed evs) = [] -> fl l (handed (firstn n evs)) = [].
Proof.
  intros H. rewrite <- (firstn_skipn n evs) in H. rewrite handed_app', fl_app in H.
  apply app_eq_nil in H. exact (proj1 H).
Qed.

Section First.
Variable inferral_strategies : list Z.
Variable initial_strategies : list Z.
Variable expansion_strats : list (list Z).

Notation step := (step inferral_strategies initial_strategies expansion_strats).
Notation exec := (exec inferral_strategies initial_strategies expansion_strats).
Notation inf_packet := (inf_packet inferral_strategies).
Notation run ops := (exec (init_state expansion_strats) ops).

Lemma exec_split : forall evsA s ops s' e evsB,
  exec s ops = (s', evsA ++ e :: evsB) ->
  exists opsA o opsB s1 s2,
    ops = opsA ++ o :: opsB /\ exec s opsA = (s1, evsA) /\ step s1 o = (s2, e) /\
    exec s2 opsB = (s', evsB).
Proof.
  induction evsA as [|a evsA IH]; intros s ops s' e evsB E.
  - destruct ops as [|o t]; [cbn in E; inversion E|].
    rewrite exec_cons in E. destruct (step s o) as [s1 e0] eqn:St.
    destruct (exec s1 t) as [s2 es] eqn:E2. cbn [app] in E. inversion E; subst.
    exists [], o, t, s, s1. csplit; auto.
  - destruct ops as [|o t]; [cbn in E; inversion E|].
    rewrite exec_cons in E. destruct (step s o) as [s1 e0] eqn:St.
    destruct (exec s1 t) as [s2 es] eqn:E2. cbn [app] in E. inversion E; subst.
    destruct (IH s1 t s' e evsB E2) as (opsA & o' & opsB & sa & sb & -> & EA & Sb & EB).
    exists (o :: opsA), o', opsB, sa, sb. csplit; auto.
    rewrite exec_cons, St, EA. reflexivity.
Qed.

Lemma inferral_first ops s evs l p rest :
  run ops = (s, evs) -> inferral_strategies <> [] ->
  fl l (handed evs) = p :: rest ->
  p = inf_packet l \/
  exists ops1 ops2, ops = ops1 ++ ONotInf l :: ops2 /\
    fl l (handed (firstn (Datatypes.S (length ops1)) evs)) = [].
Proof.
  intros E Ne F.
  assert (p_label p = l) as Lp.
  { assert (In p (fl l (handed evs))) as Hp by (rewrite F; left; reflexivity).
    apply filter_In in Hp. destruct Hp as (_ & Hp). apply Z.eqb_eq. exact Hp. }
  destruct (first_split l evs p rest F) as (evsA & evsB & -> & Hn).
  destruct (exec_split _ _ _ _ _ _ E) as (opsA & o & opsB & sA & sB & -> & EA & St & EB).
  pose proof (run_Inv _ _ _ opsA sA evsA EA) as IA.
  destruct (run_total _ _ _ opsA sA evsA EA) as (LenA & _).
  pose proof (step_Inv _ _ _ sA o _ _ _ _ IA) as X. rewrite St in X.
  destruct X as (((_ & LL) & _) & _ & _ & Hig & _).
  assert (op_notinf o = []) as On by (destruct o; cbn in St |- *; try reflexivity; congruence).
  rewrite On in LL. cbn [app ev_packets] in LL.
  specialize (Hig p eq_refl). rewrite Lp in Hig.
  assert (mem l (ignore (sq sB)) = false) as G by (apply mem_false; exact Hig).
  destruct (LL l G) as (F1 & F2 & F3 & I & Ev & C).
  cbn [view_of v_ini v_inf v_queued v_done v_pk] in *.
  assert (fl l ((handed evsA ++ [p]) ++ staging (sq sB)) = p :: fl l (staging (sq sB))) as Ep.
  { rewrite !fl_app, Hn. cbn. unfold lab_is. rewrite Lp, Z.eqb_refl. reflexivity. }
  rewrite Ep in Ev.
  destruct C as [(-> & _)|(-> & Cn)].
  - left. cbn [app] in Ev. inversion Ev. reflexivity.
  - right. cbn [app] in Ev.
    assert (mem l (inferral_expanded (sq sB)) = true) as Vi.
    { destruct (mem l (initial_expanded (sq sB))) eqn:Vn.
      - destruct (F1 eq_refl) as [Z0|Z0]; [congruence|exact Z0].
      - destruct (done_sets l (curr_level (sq sB))) as [|j] eqn:Dn; [cbn in Ev; discriminate|].
        destruct (mem l (keys (next_level (sq sB))) || mem l (concat (curr_level (sq sB)))) eqn:Q.
        + destruct (F2 eq_refl) as ([Z0|Z0] & _); [congruence|exact Z0].
        + specialize (F3 eq_refl). discriminate. }
    specialize (Cn Vi). unfold notinf in Cn. apply in_flat_map in Cn.
    destruct Cn as (o' & Ho' & Hl).
    assert (o' = ONotInf l) as -> by (destruct o'; cbn in Hl; try tauto; destruct Hl as [->|[]]; reflexivity).
    apply in_split in Ho'. destruct Ho' as (ops1 & ops2 & ->).
    exists ops1, (ops2 ++ o :: opsB). split; [rewrite <- app_assoc; reflexivity|].
    rewrite firstn_app.
    assert (Datatypes.S (length ops1) <= length evsA) as Le
      by (rewrite LenA, app_length; cbn [length]; lia).
    replace (Datatypes.S (length ops1) - length evsA) with 0 by lia.
    change (firstn 0 (EPacket p :: evsB)) with (@nil event).
    rewrite app_nil_r. apply fl_handed_firstn. exact Hn.
Qed.

End First.
