(* The strategy contracts of C04 as predicates on the strategy table, their decision
   procedure (run by the harness on every generated universe and compared with the
   Python predicate harness/props/c04.py strong_contract), and the proof that the
   FORMER statement of the two contracts is contradictory as soon as a symmetry has an
   entry on an empty class.

   `pack` is the list of strategies the work queue may hand out in a packet
   (initial + inferral + expansion strategies of the pack): the theorems that need the
   contracts quantify over the packets  ps  with  packets_in pack ps.

   pe_contract   a strategy declaring possibly_empty = False has no empty child
                 (a) on a NON-EMPTY class - the documented contract, for EVERY strategy
                     of the table, symmetries included -, and
                 (b) on an empty class as well if its rules go through add_rule
                     (`applied`: it is handed out by the queue, is a verification strategy,
                     or is yielded by a factory that is).  The searcher does present empty
                     classes to such strategies (a foreign parent of a factory rule, the
                     first child of an inferral rule, see documented_contracts_insufficient
                     in Props/C04.v), and add_rule then caches set_empty(child, False).
                 A strategy used through pack.symmetries only is exempt from (b): its
                 rule on an empty class has an empty child (sym_contract), and
                 _symmetry_expand never calls add_rule.
   sym_contract  the first child of a rule a symmetry yields on a class is empty iff the
                 class is (unchanged).
   sym_unary     a rule a symmetry yields has exactly one child (SymmetryStrategy is a
                 unary equivalence strategy); only needed where the record of the rule
                 must be complete (C04_search_gives_add_hist), not for the emptiness cache. *)
From Coq Require Import ZArith List Bool Lia.
From CSS Require Import Base.PyList ClassDB.Model Searcher.Model Searcher.Inv.
Import ListNotations.
Open Scope Z_scope.

Lemma assoc_in {A} (k : Z) (l : list (Z * A)) v : assoc k l = Some v -> In (k, v) l.
Proof.
  induction l as [|[k' v'] t IH]; simpl; [discriminate|].
  destruct (k' =? k) eqn:E; [apply Z.eqb_eq in E; intros [= <-]; subst; auto|auto].
Qed.

Lemma mem_In x l : mem x l = true <-> In x l.
Proof.
  unfold mem. rewrite existsb_exists. split.
  - intros (y & Hy & E). apply Z.eqb_eq in E. subst; auto.
  - intros H. exists x. split; auto. apply Z.eqb_refl.
Qed.

Section Contracts.
Variable T : table.
Variable pack : list Z.

Notation oracle := (oracle T).
Notation entry_of := (entry_of T).
Notation strat_of := (strat_of T).
Notation rules_from_strategy := (rules_from_strategy T).
Notation rule_children := (rule_children T).
Notation pe_of := (pe_of T).

(* a strategy whose rules go through add_rule *)
Definition handed (sid0 : Z) : Prop := In sid0 pack \/ In sid0 (t_ver T).
Definition hidden_in (sid0 sid : Z) : Prop :=
  exists x c its it, strat_of sid0 = Some x /\ In (c, its) (s_items x) /\ In it its /\ i_sid it = sid.
Definition applied (sid : Z) : Prop := handed sid \/ exists sid0, handed sid0 /\ hidden_in sid0 sid.

Definition pe_contract : Prop := forall sid c e,
  entry_of sid c = Some e -> pe_of sid = false -> (oracle c = false \/ applied sid) ->
  forall k, In k (e_children e) -> oracle k = false.

Definition sym_contract : Prop := forall sid c r c0 rest,
  In sid (t_sym T) -> In r (rules_from_strategy sid c) -> rule_children r = Some (c0 :: rest) ->
  oracle c0 = oracle c.

Definition sym_unary : Prop := forall sid c r cs,
  In sid (t_sym T) -> In r (rules_from_strategy sid c) -> rule_children r = Some cs -> length cs = 1%nat.

(* the packets carry strategies of the pack *)
Definition packets_in (ps : list packet) : Prop := Forall (fun p => incl (p_sids p) pack) ps.

(* the strategy of a rule object a handed-out strategy yields is `applied` *)
Lemma applied_of_rule sid0 c0 r : handed sid0 -> In r (rules_from_strategy sid0 c0) -> applied (r_sid r).
Proof.
  intros Hh. unfold Model.rules_from_strategy. destruct (strat_of sid0) as [x|] eqn:Es; [|intros []].
  destruct (s_kind x =? 1).
  - destruct (assoc c0 (s_items x)) as [its|] eqn:Ea; [|intros []].
    rewrite in_flat_map. intros (it & Hit & Hin). right. exists sid0. split; auto.
    exists x, c0, its, it. split; auto. split; [apply assoc_in; auto|]. split; auto.
    unfold rules_of_item in Hin.
    destruct (i_on it); [destruct (i_lazy it)|];
      try (destruct (applies T (i_sid it) _) in Hin); simpl in Hin;
      try contradiction; destruct Hin as [<-|[]]; reflexivity.
  - destruct (applies T sid0 c0); [|intros []]. intros [<-|[]]. left. exact Hh.
Qed.

(* what add_rule needs: a possibly_empty = False rule of a handed-out strategy has no empty child *)
Lemma pe_contract_rule : pe_contract -> forall sid0 c0 r cs, handed sid0 -> In r (rules_from_strategy sid0 c0) ->
  rule_children r = Some cs -> r_pe T r = false -> forall k, In k cs -> oracle k = false.
Proof.
  intros HP sid0 c0 r cs Hh Hin Hc Hpe k Hk.
  pose proof (applied_of_rule sid0 c0 r Hh Hin) as Ha.
  unfold Model.rule_children in Hc. unfold r_pe in Hpe.
  destruct (r_kind r) eqn:Ek.
  - destruct (entry_of (r_sid r) (r_parent r)) as [e|] eqn:Ee; [|discriminate]. simpl in Hc. injection Hc as <-.
    apply (HP (r_sid r) (r_parent r) e Ee Hpe (or_intror Ha) k Hk).
  - destruct (entry_of (r_sid r) (r_parent r)) as [e|] eqn:Ee; [|discriminate]. simpl in Hc. injection Hc as <-.
    apply (HP (r_sid r) (r_parent r) e Ee Hpe (or_intror Ha) k Hk).
  - injection Hc as <-. destruct Hk.
Qed.

(* ------------------------------------------------------- decision procedure *)
Definition all_sids : list Z := map Z.of_nat (seq 0 (length (t_strats T))).
Definition handedb (sid0 : Z) : bool := mem sid0 pack || mem sid0 (t_ver T).
Definition hidden_inb (sid0 sid : Z) : bool :=
  match strat_of sid0 with
  | Some x => existsb (fun ci => existsb (fun it => i_sid it =? sid) (snd ci)) (s_items x)
  | None => false
  end.
Definition appliedb (sid : Z) : bool :=
  handedb sid || existsb (fun sid0 => hidden_inb sid0 sid) (pack ++ t_ver T).
Definition entry_okb (sid c : Z) : bool :=
  match entry_of sid c with
  | Some e => pe_of sid || negb (negb (oracle c) || appliedb sid) || forallb (fun k => negb (oracle k)) (e_children e)
  | None => true
  end.
Definition pe_contractb : bool :=
  forallb (fun sid => match strat_of sid with
                      | Some x => forallb (fun ce => entry_okb sid (fst ce)) (s_apply x)
                      | None => true
                      end) all_sids.

(* the classes on which strategy sid can yield anything *)
Definition dom_of (sid : Z) : list Z :=
  match strat_of sid with
  | Some x => map fst (s_apply x) ++ map fst (s_items x)
  | None => []
  end.
Definition sym_rule_okb (c : Z) (r : rule) : bool :=
  match rule_children r with
  | Some (c0 :: _) => Bool.eqb (oracle c0) (oracle c)
  | _ => true
  end.
Definition sym_contractb : bool :=
  forallb (fun sid => forallb (fun c => forallb (sym_rule_okb c) (rules_from_strategy sid c)) (dom_of sid)) (t_sym T).
Definition sym_unary_okb (r : rule) : bool :=
  match rule_children r with
  | Some cs => Nat.eqb (length cs) 1
  | None => true
  end.
Definition sym_unaryb : bool :=
  forallb (fun sid => forallb (fun c => forallb sym_unary_okb (rules_from_strategy sid c)) (dom_of sid)) (t_sym T).
Definition packets_inb (ps : list packet) : bool :=
  forallb (fun p => forallb (fun sid => mem sid pack) (p_sids p)) ps.

(* the STRONG contract of the harness *)
Definition contractsb : bool := pe_contractb && sym_contractb.

Lemma strat_of_in_all sid x : strat_of sid = Some x -> In sid all_sids.
Proof.
  unfold Model.strat_of, all_sids. destruct (sid <? 0) eqn:E; [discriminate|]. intros H.
  apply Z.ltb_ge in E. apply in_map_iff. exists (Z.to_nat sid). split; [lia|].
  apply in_seq. split; [lia|]. simpl. apply nth_error_Some. congruence.
Qed.

Lemma handedb_spec sid0 : handedb sid0 = true <-> handed sid0.
Proof. unfold handedb, handed. rewrite orb_true_iff, !mem_In. tauto. Qed.

Lemma hidden_inb_spec sid0 sid : hidden_inb sid0 sid = true <-> hidden_in sid0 sid.
Proof.
  unfold hidden_inb, hidden_in. destruct (strat_of sid0) as [x|].
  - rewrite existsb_exists. split.
    + intros ([c its] & Hin & H). simpl in H. apply existsb_exists in H as (it & Hit & E). apply Z.eqb_eq in E.
      exists x, c, its, it. auto.
    + intros (x' & c & its & it & [= <-] & Hin & Hit & E). exists (c, its). split; auto. simpl.
      apply existsb_exists. exists it. split; auto. apply Z.eqb_eq; auto.
  - split; [discriminate|]. intros (x' & c & its & it & H & _). discriminate.
Qed.

Lemma appliedb_spec sid : appliedb sid = true <-> applied sid.
Proof.
  unfold appliedb, applied. rewrite orb_true_iff, handedb_spec, existsb_exists. split.
  - intros [H|(sid0 & Hin & H)]; auto. right. exists sid0. split; [|apply hidden_inb_spec; auto].
    unfold handed. apply in_app_or in Hin. exact Hin.
  - intros [H|(sid0 & Hh & H)]; auto. right. exists sid0. split; [|apply hidden_inb_spec; auto].
    apply in_or_app. exact Hh.
Qed.

Lemma forallb_nonempty cs : forallb (fun k => negb (oracle k)) cs = true <-> forall k, In k cs -> oracle k = false.
Proof.
  rewrite forallb_forall. split; intros H k Hk; specialize (H k Hk).
  - apply negb_true_iff; auto.
  - rewrite H; reflexivity.
Qed.

Theorem pe_contractb_spec : pe_contractb = true <-> pe_contract.
Proof.
  unfold pe_contractb, pe_contract. rewrite forallb_forall. split.
  - intros H sid c e He Hpe Hor k Hk.
    unfold Model.entry_of in He. destruct (strat_of sid) as [x|] eqn:Es; [|discriminate].
    specialize (H sid (strat_of_in_all sid x Es)). rewrite Es in H. rewrite forallb_forall in H.
    specialize (H (c, e) (assoc_in _ _ _ He)). unfold entry_okb in H. cbn [fst] in H.
    unfold Model.entry_of in H. rewrite Es, He, Hpe in H. cbn [orb] in H.
    apply orb_true_iff in H as [H|H].
    + exfalso. apply negb_true_iff, orb_false_iff in H as (H1 & H2). destruct Hor as [Ho|Ha].
      * rewrite Ho in H1. discriminate.
      * apply appliedb_spec in Ha. congruence.
    + apply (proj1 (forallb_nonempty _) H k Hk).
  - intros H sid _. destruct (strat_of sid) as [x|] eqn:Es; auto. apply forallb_forall. intros [c e0] _.
    unfold entry_okb. cbn [fst]. destruct (entry_of sid c) as [e|] eqn:He; auto.
    destruct (pe_of sid) eqn:Hpe; auto. cbn [orb].
    destruct (negb (oracle c) || appliedb sid) eqn:Eo; auto. cbn [negb orb].
    apply forallb_nonempty. apply (H sid c e He Hpe).
    apply orb_true_iff in Eo as [Eo|Eo]; [left; apply negb_true_iff; auto|right; apply appliedb_spec; auto].
Qed.

Lemma rules_in_dom sid c r : In r (rules_from_strategy sid c) -> In c (dom_of sid).
Proof.
  unfold Model.rules_from_strategy, dom_of. destruct (strat_of sid) as [x|] eqn:Es; [|intros []].
  destruct (s_kind x =? 1).
  - destruct (assoc c (s_items x)) as [its|] eqn:Ea; [|intros []]. intros _.
    apply in_or_app. right. apply in_map_iff. exists (c, its). split; auto. apply assoc_in; auto.
  - unfold applies, Model.entry_of. rewrite Es. destruct (assoc c (s_apply x)) as [e|] eqn:Ea; [|intros []]. intros _.
    apply in_or_app. left. apply in_map_iff. exists (c, e). split; auto. apply assoc_in; auto.
Qed.

Theorem sym_contractb_spec : sym_contractb = true <-> sym_contract.
Proof.
  unfold sym_contractb, sym_contract. rewrite forallb_forall. split.
  - intros H sid c r c0 rest Hs Hin Hc. specialize (H sid Hs). rewrite forallb_forall in H.
    specialize (H c (rules_in_dom sid c r Hin)). rewrite forallb_forall in H. specialize (H r Hin).
    unfold sym_rule_okb in H. rewrite Hc in H. apply eqb_prop in H. exact H.
  - intros H sid Hs. apply forallb_forall. intros c _. apply forallb_forall. intros r Hin.
    unfold sym_rule_okb. destruct (rule_children r) as [[|c0 rest]|] eqn:Hc; auto.
    rewrite (H sid c r c0 rest Hs Hin Hc). apply eqb_reflx.
Qed.

Theorem sym_unaryb_spec : sym_unaryb = true <-> sym_unary.
Proof.
  unfold sym_unaryb, sym_unary. rewrite forallb_forall. split.
  - intros H sid c r cs Hs Hin Hc. specialize (H sid Hs). rewrite forallb_forall in H.
    specialize (H c (rules_in_dom sid c r Hin)). rewrite forallb_forall in H. specialize (H r Hin).
    unfold sym_unary_okb in H. rewrite Hc in H. apply Nat.eqb_eq in H. exact H.
  - intros H sid Hs. apply forallb_forall. intros c _. apply forallb_forall. intros r Hin.
    unfold sym_unary_okb. destruct (rule_children r) as [cs|] eqn:Hc; auto.
    apply Nat.eqb_eq. apply (H sid c r cs Hs Hin Hc).
Qed.

Theorem packets_inb_spec ps : packets_inb ps = true <-> packets_in ps.
Proof.
  unfold packets_inb, packets_in. rewrite forallb_forall, Forall_forall. split; intros H p Hp; specialize (H p Hp).
  - rewrite forallb_forall in H. intros sid Hs. apply mem_In. auto.
  - apply forallb_forall. intros sid Hs. apply mem_In. auto.
Qed.

Theorem contractsb_spec : contractsb = true <-> pe_contract /\ sym_contract.
Proof. unfold contractsb. rewrite andb_true_iff, pe_contractb_spec, sym_contractb_spec. tauto. Qed.

(* ------------------------- the former statement of the contracts (before the repair) *)
(* "a possibly_empty = False strategy never has an empty child", for EVERY strategy and class *)
Definition pe_contract_old : Prop := forall sid c e,
  entry_of sid c = Some e -> pe_of sid = false -> forall k, In k (e_children e) -> oracle k = false.

(* it implies the repaired one, whatever the pack ... *)
Lemma pe_contract_old_new : pe_contract_old -> pe_contract.
Proof. intros H sid c e He Hp _. apply (H sid c e He Hp). Qed.

(* ... and contradicts sym_contract as soon as a symmetry yields, on an EMPTY class, a rule with a
   child (symmetry strategies declare possibly_empty = False): the two hypotheses of the former
   C04_set_empty_consistent / C04_empty_cache_truthful / C04_stored_key (and of C14_search_states_keep_answers)
   could not both hold on such a table, so these theorems said nothing about it *)
Theorem old_contracts_exclude_each_other : forall sid c r c0 rest,
  In sid (t_sym T) -> In r (rules_from_strategy sid c) -> rule_children r = Some (c0 :: rest) ->
  r_pe T r = false -> oracle c = true -> pe_contract_old -> sym_contract -> False.
Proof.
  intros sid c r c0 rest Hs Hin Hc Hpe Ho Hold Hsym.
  pose proof (Hsym sid c r c0 rest Hs Hin Hc) as H0. rewrite Ho in H0.
  unfold Model.rule_children in Hc. unfold r_pe in Hpe.
  destruct (r_kind r); try discriminate;
    destruct (entry_of (r_sid r) (r_parent r)) as [e|] eqn:Ee; try discriminate; simpl in Hc; injection Hc as Hc;
    assert (oracle c0 = false) as H1 by (apply (Hold _ _ e Ee Hpe); rewrite Hc; left; reflexivity); congruence.
Qed.

End Contracts.

(* no factory item names a verification strategy: then every rule object of the table model IS strategy(class)
   (RuleDB/SearchHist.v items_plain_faithful: twoway_faithful for all rule objects) *)
Definition items_plainb (T : table) : bool :=
  forallb (fun x => forallb (fun ci => forallb (fun it =>
      match strat_of T (i_sid it) with Some y => negb (s_kind y =? 2) | None => true end) (snd ci)) (s_items x)) (t_strats T).
