(* sx interface of the slicing model (C17).
   input : ( n_avail mult ((maxt (d ...) (answer ...)) ...) [table part] )   maxt = -1 for "no limit"
           successive calls of _auto_search_rules on the same searcher: each call starts at
           the packet count and clock offset where the previous one stopped
   output: ( (code k (call point ...)) ... )  code 0 Found / 1 Exceeded / 2 NotFound / 3 OutOfFuel
   With a 4th element (table universes)
     table part = ( (mode expand_verified fuel start sort-stores) empty-bits strats ver-sids sym-sids
                    inferral-sids initial-sids (expansion-set ...) (is_verified answer ...) )
           (strats as in Searcher/Run.v)
   the same script is ALSO run on the packet-level state machine of Searcher/Step.v and the
   output is ( old-output  ( init-events
                             ((code k (call point ...) (sevent ...)) ...)     code 4 = crashed
                             (status unused-answers classes emptiness tried symexp infexp
                              rule-keys eqv-rule-keys already-empty queue) ) )
     the last four = the rest of the members of the state (Step.members): the keys of the two rule
     stores in store order, RuleDBForest._already_empty (sorted), and the queue: (working next_level
     curr_level inferral_expanded initial_expanded ignore queue_sizes staging), sets sorted
     sevent = (0 label (sid ...) inferral (event ...)) | (1) queue dry | (2) dead
     event  = the searcher-level events of the C04 trace: ruledb.add, classdb.set_empty,
              classqueue.add / set_not_inferrable / set_stop_yielding (tags 0 1 2 3 4 of Run.v) *)
From Coq Require Import ZArith List Bool.
From CSS Require Import Base.Sx Base.PyList ClassDB.Model Searcher.Model Searcher.Run Searcher.Slicing Searcher.Step.
From CSS Require Queue.Model.
From CSS Require Searcher.Contracts Searcher.QueuePack Searcher.Deciders.
Import ListNotations.
Open Scope Z_scope.

Definition enc_outcome (o : outcome) (calls : list Z) : sx :=
  match o with
  | Found k => L [I 0; I k; of_Zs calls]
  | Exceeded k => L [I 1; I k; of_Zs calls]
  | NotFound k => L [I 2; I k; of_Zs calls]
  | OutOfFuel => L [I 3; I 0; of_Zs calls]
  end.

Fixpoint run_calls (n_avail mult k extra : Z) (calls : list sx) : list sx :=
  match calls with
  | [] => []
  | c :: rest =>
      let m := sx_Z (sx_nth c 0) in
      let maxt := if m <? 0 then None else Some m in
      let ds := sx_Zs (sx_nth c 1) in
      let answers := map sx_bool (sx_list (sx_nth c 2)) in
      let '(o, pts, extra') := auto_search n_avail mult maxt (S (S (length answers))) k extra ds answers in
      let k' := match o with Found x | Exceeded x | NotFound x => x | OutOfFuel => k end in
      enc_outcome o pts :: run_calls n_avail mult k' extra' rest
  end.

(* ---- the state machine on the same script ---- *)
Definition obs_event (e : event) : bool :=
  match e with
  | EvAdd _ _ _ _ | EvSetEmpty _ _ | EvQAdd _ | EvQNotInf _ | EvQStop _ => true
  | _ => false
  end.
Definition enc_events (es : list event) : sx := L (map enc_event (filter obs_event es)).

Definition enc_sevent (e : sevent) : sx :=
  match e with
  | SPacket p evs => L [I 0; I (p_label p); of_Zs (p_sids p); of_bool (p_inferral p); enc_events evs]
  | SDry => L [I 1]
  | SDead => L [I 2]
  end.

Definition enc_outcome2 (x : outcome2 * list Z * list sevent) : sx :=
  let '(o, pts, es) := x in
  let '(code, k) := match o with
                    | Ret (Found k) => (0, k) | Ret (Exceeded k) => (1, k) | Ret (NotFound k) => (2, k)
                    | Ret OutOfFuel => (3, 0) | Crashed k => (4, k)
                    end in
  L [I code; I k; of_Zs pts; L (map enc_sevent es)].

Definition enc_key (k : Z * list Z) : sx := L [I (fst k); of_Zs (snd k)].
(* RecomputingDict keeps its keys in a set: the stores are then compared sorted (flag 5 of the header) *)
Fixpoint lex_leb (a b : list Z) : bool :=
  match a, b with
  | [], _ => true
  | _ :: _, [] => false
  | x :: a', y :: b' => if x <? y then true else if y <? x then false else lex_leb a' b'
  end.
Fixpoint key_insert (x : Z * list Z) (l : list (Z * list Z)) : list (Z * list Z) :=
  match l with
  | [] => [x]
  | y :: t => if lex_leb (fst x :: snd x) (fst y :: snd y) then x :: l else y :: key_insert x t
  end.
Definition key_sort (l : list (Z * list Z)) : list (Z * list Z) := fold_right key_insert [] l.
Definition enc_qpacket (p : Queue.Model.packet) : sx :=
  L [I (Queue.Model.p_label p); of_Zs (Queue.Model.p_strats p); of_bool (Queue.Model.p_inf p)].
Definition enc_queue (q : Queue.Model.queue) : sx :=
  L [ of_Zs (Queue.Model.working q);
      L (map (fun x : Z * Z => L [I (fst x); I (snd x)]) (Queue.Model.next_level q));
      L (map of_Zs (Queue.Model.curr_level q));
      of_Zs (isort (dedup (Queue.Model.inferral_expanded q)));
      of_Zs (isort (dedup (Queue.Model.initial_expanded q)));
      of_Zs (isort (dedup (Queue.Model.ignore q)));
      of_Zs (Queue.Model.queue_sizes q);
      L (map enc_qpacket (Queue.Model.staging q)) ].

Definition dec_call (c : sx) : call :=
  let m := sx_Z (sx_nth c 0) in
  (if m <? 0 then None else Some m, sx_Zs (sx_nth c 1), map sx_bool (sx_list (sx_nth c 2))).

Definition sev_packets (es : list sevent) : list packet :=
  flat_map (fun e => match e with SPacket p _ => [p] | _ => [] end) es.
Definition hyps_c17 (T : table) (mode : Z) (inf ini : list Z) (exps : list (list Z)) (es : list sevent) : sx :=
  let pack := Searcher.QueuePack.pack_of inf ini exps in
  let m0 := mode =? 0 in
  let cap := fun _ : Z => true in
  L (map of_bool
       ( (m0 && Searcher.Deciders.table_hyps_b T pack) :: (m0 && Searcher.Deciders.find_rule_hyps_b T pack cap) :: m0
         :: tl (tl (Searcher.Deciders.hyp_bits T pack cap (sev_packets es))))).

Definition run_steps (mult : Z) (calls : list sx) (tp : sx) : sx :=
  let h := sx_Zs (sx_nth tp 0) in
  let g n := nth n h 0 in
  let T := mkT (sx_Zs (sx_nth tp 1)) (map dec_strat (sx_list (sx_nth tp 2)))
               (sx_Zs (sx_nth tp 3)) (sx_Zs (sx_nth tp 4)) in
  let mode := g 0%nat in
  let ev := negb (g 1%nat =? 0) in
  let F := Z.to_nat (g 2%nat) in
  let inf := sx_Zs (sx_nth tp 5) in
  let ini := sx_Zs (sx_nth tp 6) in
  let exps := map sx_Zs (sx_list (sx_nth tp 7)) in
  let ans := map sx_bool (sx_list (sx_nth tp 8)) in
  let '(s0, ev0) := init_sstate T mode F inf ini exps ans (g 3%nat) in
  let '(outs, s1, sevs, _, _) := run_calls_st T mode F ev inf ini exps mult s0 0 0 (map dec_call calls) in
  let c := core s1 in
  L [ enc_events ev0; L (map enc_outcome2 outs);
      L [ I (enc_status (stat c)); of_nat (length (answers c));
          of_Zs (classes (cdb c)); L (map enc_empty (empties (cdb c)));
          of_Zs (isort (tried c)); of_Zs (isort (dedup (symexp c))); of_Zs (isort (infexp c));
          L (map enc_key (if g 4%nat =? 0 then rstore c else key_sort (rstore c)));
          L (map enc_key (if g 4%nat =? 0 then estore c else key_sort (estore c)));
          of_Zs (isort (dedup (already c)));
          enc_queue (que s1) ];
      (* added later (compatible): the deciders of Searcher/Deciders.v on THIS table, pack = pack_of inferral initial
         expansion, the packets = the ones this run handed out:
         ( mode=0 && table_hyps_b   mode=0 && find_rule_hyps_b (every strategy can be an equivalence)   mode=0
           pe_contractb sym_contractb sym_unaryb items_plainb packets_inb cap_okb rev_okb )
         first bit: the hypotheses of C17_resumed_search_gives_add_hist, second: of C17_resumed_search_find_rule_total,
         4th && 5th: of C17_resumed_search_emptiness_truthful; packets_inb is true by C17's search_in_pack *)
      hyps_c17 T mode inf ini exps sevs ].

Definition run_c17 (inp : sx) : sx :=
  (* a call flagged (4th field) as ended by an exception of the expansion is outside the control-flow model *)
  let old := L (run_calls (sx_Z (sx_nth inp 0)) (sx_Z (sx_nth inp 1)) 0 0
                  (filter (fun c => sx_Z (sx_nth c 3) =? 0) (sx_list (sx_nth inp 2)))) in
  match sx_list (sx_nth inp 3) with
  | [] => old
  | _ => L [old; run_steps (sx_Z (sx_nth inp 1)) (sx_list (sx_nth inp 2)) (sx_nth inp 3)]
  end.
