(* sx interface of the slicing model (C17).
   input : ( n_avail mult ((maxt (d ...) (answer ...)) ...) )   maxt = -1 for "no limit"
           successive calls of _auto_search_rules on the same searcher: each call starts at
           the packet count and clock offset where the previous one stopped
   output: ( (code k (call point ...)) ... )  code 0 Found / 1 Exceeded / 2 NotFound / 3 OutOfFuel *)
From Coq Require Import ZArith List Bool.
From CSS Require Import Base.Sx Searcher.Slicing.
Import ListNotations.
Open Scope Z_scope.

Definition enc_outcome (o : outcome) (calls : list Z) : sx :=
  match o with
  | Found k => L [I 0; I k; of_Zs calls]
  | Exceeded k => L [I 1; I k; of_Zs calls]
  | NotFound k => L [I 2; I k; of_Zs calls]
  | OutOfFuel => L [I 3; I 0; of_Zs calls]
  end.

Fixpoint run_calls (n_avail mult k extra : Z) (calls : list sx) : list sx :=
  match calls with
  | [] => []
  | c :: rest =>
      let m := sx_Z (sx_nth c 0) in
      let maxt := if m <? 0 then None else Some m in
      let ds := sx_Zs (sx_nth c 1) in
      let answers := map sx_bool (sx_list (sx_nth c 2)) in
      let '(o, pts, extra') := auto_search n_avail mult maxt (S (S (length answers))) k extra ds answers in
      let k' := match o with Found x | Exceeded x | NotFound x => x | OutOfFuel => k end in
      enc_outcome o pts :: run_calls n_avail mult k' extra' rest
  end.

Definition run_c17 (inp : sx) : sx :=
  L (run_calls (sx_Z (sx_nth inp 0)) (sx_Z (sx_nth inp 1)) 0 0 (sx_list (sx_nth inp 2))).
