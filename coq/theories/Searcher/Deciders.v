(* ONE decider per composed theorem for the TABLE hypotheses of
     C14_search_stored_rules_handed_back      (Props/C14.v)
     C17_resumed_search_gives_add_hist        (Props/C17.v; there pack = pack_of ...)
     C17_resumed_search_emptiness_truthful    (Props/C17.v)
     C02_search_find_rule_total               (Props/C02.v)
     C17_resumed_search_find_rule_total       (Props/C17.v)
   with the proof that `decider = true` implies exactly these hypotheses.  The run functions of C02 / C14 / C17
   evaluate the decider on the table of every table-universe search they are given and print its value and the bits
   it is the conjunction of (hyp_bits); the harness computes the same bits in Python (the predicates of
   harness/props/c04.py) and the two are compared on every such case.  A case on which the decider answers false is a
   case the composed theorem says nothing about.

   table_hyps_b       pe_contract, sym_contract, sym_unary (each decided exactly: Contracts.v *_spec) and
                      items_plainb (SUFFICIENT for twoway_faithful of every rule object: SearchHist.items_plain_faithful;
                      not necessary)
   search_hyps_b      table_hyps_b and packets_in for a given packet list
   cap_okb / rev_okb  a strategy with a two-way entry can be an equivalence / two-way entries are reversible
                      (decided exactly: cap_okb_spec, rev_okb_spec)
   find_rule_hyps_b   table_hyps_b, cap_okb, rev_okb *)
From Coq Require Import ZArith List Bool.
From CSS Require Import Base.PyList ClassDB.Model Searcher.Model Searcher.Inv Searcher.Contracts
  RuleDB.AddHist RuleDB.SearchHist.
Import ListNotations.
Open Scope Z_scope.

Section Deciders.
Variable T : table.
Variable pack : list Z.

Definition table_hyps_b : bool :=
  pe_contractb T pack && sym_contractb T && sym_unaryb T && items_plainb T.

Definition search_hyps_b (ps : list packet) : bool := table_hyps_b && packets_inb pack ps.

(* every two-way entry of the table satisfies f (the entry of a class is the one entry_of finds) *)
Definition twoway_allb (f : Z -> entry -> bool) : bool :=
  forallb (fun sid => match strat_of T sid with
                      | Some x => forallb (fun ce => match entry_of T sid (fst ce) with
                                                     | Some e => negb (e_two_way e) || f sid e
                                                     | None => true
                                                     end) (s_apply x)
                      | None => true
                      end) (all_sids T).
Definition cap_okb (cap : Z -> bool) : bool := twoway_allb (fun sid _ => cap sid).
Definition rev_okb : bool := twoway_allb (fun _ e => e_reversible e).

Definition find_rule_hyps_b (cap : Z -> bool) : bool := table_hyps_b && cap_okb cap && rev_okb.

(* the bits printed by the run functions: the two deciders first, then their conjuncts *)
Definition hyp_bits (cap : Z -> bool) (ps : list packet) : list bool :=
  [ search_hyps_b ps; find_rule_hyps_b cap && packets_inb pack ps;
    pe_contractb T pack; sym_contractb T; sym_unaryb T; items_plainb T; packets_inb pack ps; cap_okb cap; rev_okb ].

Lemma twoway_allb_spec f : twoway_allb f = true <->
  forall sid c e, entry_of T sid c = Some e -> e_two_way e = true -> f sid e = true.
Proof.
  unfold twoway_allb. rewrite forallb_forall. split.
  - intros H sid c e He Ht. pose proof He as He'.
    unfold entry_of in He. destruct (strat_of T sid) as [x|] eqn:Es; [|discriminate].
    specialize (H sid (strat_of_in_all T sid x Es)). rewrite Es in H. rewrite forallb_forall in H.
    specialize (H (c, e) (assoc_in _ _ _ He)). cbn [fst] in H. rewrite He', Ht in H. exact H.
  - intros H sid _. destruct (strat_of T sid) as [x|] eqn:Es; auto. apply forallb_forall. intros [c e0] _. cbn [fst].
    destruct (entry_of T sid c) as [e|] eqn:He; auto.
    destruct (e_two_way e) eqn:Ht; auto. cbn [negb orb]. apply (H sid c e He Ht).
Qed.

Theorem cap_okb_spec cap : cap_okb cap = true <->
  forall sid c e, entry_of T sid c = Some e -> e_two_way e = true -> cap sid = true.
Proof. unfold cap_okb. apply twoway_allb_spec. Qed.

Theorem rev_okb_spec : rev_okb = true <->
  forall sid c e, entry_of T sid c = Some e -> e_two_way e = true -> e_reversible e = true.
Proof. unfold rev_okb. apply twoway_allb_spec. Qed.

(* exactly the table hypotheses of C14_search_stored_rules_handed_back / C17_resumed_search_gives_add_hist *)
Theorem table_hyps_sound : table_hyps_b = true ->
  sym_unary T /\ (forall sid0 c0 r, In r (rules_from_strategy T sid0 c0) -> twoway_faithful T r) /\
  pe_contract T pack /\ sym_contract T.
Proof.
  unfold table_hyps_b. rewrite !andb_true_iff. intros [[[Hp Hs] Hu] Hi].
  split; [apply sym_unaryb_spec; exact Hu|]. split; [apply items_plain_faithful; exact Hi|].
  split; [apply pe_contractb_spec; exact Hp|apply sym_contractb_spec; exact Hs].
Qed.

Theorem search_hyps_sound ps : search_hyps_b ps = true ->
  sym_unary T /\ (forall sid0 c0 r, In r (rules_from_strategy T sid0 c0) -> twoway_faithful T r) /\
  pe_contract T pack /\ sym_contract T /\ packets_in pack ps.
Proof.
  unfold search_hyps_b. rewrite andb_true_iff. intros [Ht Hk].
  destruct (table_hyps_sound Ht) as (A & B & C & D). repeat split; auto. apply packets_inb_spec; exact Hk.
Qed.

(* exactly the table hypotheses of C02_search_find_rule_total / C17_resumed_search_find_rule_total *)
Theorem find_rule_hyps_sound cap : find_rule_hyps_b cap = true ->
  sym_unary T /\ (forall sid0 c0 r, In r (rules_from_strategy T sid0 c0) -> twoway_faithful T r) /\
  pe_contract T pack /\ sym_contract T /\
  (forall sid c e, entry_of T sid c = Some e -> e_two_way e = true -> cap sid = true) /\
  (forall sid c e, entry_of T sid c = Some e -> e_two_way e = true -> e_reversible e = true).
Proof.
  unfold find_rule_hyps_b. rewrite !andb_true_iff. intros [[Ht Hc] Hr].
  destruct (table_hyps_sound Ht) as (A & B & C & D). repeat split; auto.
  - apply cap_okb_spec; exact Hc.
  - apply rev_okb_spec; exact Hr.
Qed.

(* what the first two printed bits are *)
Lemma hyp_bits_0 cap ps : nth 0 (hyp_bits cap ps) false = search_hyps_b ps.
Proof. reflexivity. Qed.
Lemma hyp_bits_1 cap ps : nth 1 (hyp_bits cap ps) false = true <->
  find_rule_hyps_b cap = true /\ packets_inb pack ps = true.
Proof. cbn [hyp_bits nth]. apply andb_true_iff. Qed.

End Deciders.
