(* What the ONE-SIDED invariant (Searcher/OneSidedInv.v, carried through the searcher in OneSidedCore.v /
   OneSidedProofs.v) gives for the state a run stops in: for EVERY table with sym_fwd (the forward half of
   sym_contract; NO pe_contract, no condition on the packets), mode, fuel, driver, answers, start class,
   packets.  Only fresh names are defined here (Props/C04.v imports this file next to Searcher/Inv.v). *)
From Coq Require Import ZArith List Bool Lia.
From CSS Require Import Base.PyList ClassDB.Model ClassDB.Proofs Gen.Prelude Gen.ReverseShifts
  Searcher.Model Searcher.Inv Searcher.Contracts Searcher.OneSidedDefs.
From CSS Require Searcher.OneSidedInv Searcher.OneSidedProofs.
Import ListNotations.
Open Scope Z_scope.

Lemma Forall2_dropped_pe {B} (X : B -> Prop) (pe : bool) (bs : list bool) (cs : list B) :
  (pe = false -> Forall (fun b => b = true) bs) ->
  Forall2 (fun b c => b = false -> X c) bs cs ->
  Forall2 (fun b c => b = false -> pe = true /\ X c) bs cs.
Proof.
  intros Hpe H. destruct pe.
  - clear Hpe. induction H; constructor; [intros Hx; split; auto|assumption].
  - specialize (Hpe eq_refl). induction H; constructor.
    + intros Hx. inversion Hpe; subst. discriminate.
    + apply IHForall2. inversion Hpe; auto.
Qed.

Section OneSided.
Variable T : table.
Variable mode : Z.
Variables (F : nat) (do_level expand_verified : bool) (answers : list bool) (start : Z).
Hypothesis Hsym : sym_fwd T. (* in-section *)

Notation final ps := (run_search T mode F do_level expand_verified answers start ps).
Notation lbl := (label_of Z.eqb (fun c : Z => c)).

Lemma final_inv1 ps : OneSidedInv.Inv T True Gtriv (final ps).
Proof. exact (OneSidedProofs.run_search_inv1 T mode Hsym F do_level expand_verified answers start ps). Qed.

(* whenever the cache says EMPTY for a label, the class carrying the label is truly empty *)
Theorem one_sided_cache_truthful : forall ps i c,
  nth_error (classes (cdb (final ps))) i = Some c ->
  nth_error (empties (cdb (final ps))) i = Some (Some true) -> oracle T c = true.
Proof.
  intros ps i c. destruct (final_inv1 ps) as (_ & E & _). apply (E Logic.I).
Qed.

(* every set_empty(label, True) the searcher issues is for a truly empty class *)
Theorem one_sided_set_empty_true : forall ps l,
  In (EvSetEmpty l true) (trace (final ps)) ->
  exists c, lbl (cdb (final ps)) c = Some l /\ oracle T c = true.
Proof.
  intros ps l Hin. destruct (final_inv1 ps) as (_ & _ & Hf & _).
  rewrite Forall_forall in Hf. specialize (Hf _ Hin). simpl in Hf.
  destruct Hf as (c & A & B). exists c; auto.
Qed.

(* every child missing from a stored key is a child of a possibly_empty rule AND its class is truly empty *)
Theorem one_sided_dropped_only_if_empty : forall ps eqv start_label ends' sid parent,
  In (EvStore eqv start_label ends' sid parent) (trace (final ps)) ->
  let d := cdb (final ps) in
  lbl d parent = Some start_label /\
  exists ls bs,
    Forall2 (fun c l => lbl d c = Some l) (firstn (length ls) (kids_sp T sid parent)) ls /\
    (length ls = length (kids_sp T sid parent) \/
     (length ls = 1%nat /\ kids_sp T sid parent <> [] /\ sym_yielded T sid parent)) /\
    length bs = length ls /\ ends' = isort (select bs ls) /\
    Forall2 (fun b c => b = false -> pe_of T sid = true /\ oracle T c = true) bs (firstn (length ls) (kids_sp T sid parent)).
Proof.
  intros ps eqv sl ends' sid parent Hin d. destruct (final_inv1 ps) as (_ & _ & Hf & _).
  rewrite Forall_forall in Hf. specialize (Hf _ Hin). simpl in Hf.
  destruct Hf as (A & ls & bs & B & B' & D & E & G & H). split; auto. exists ls, bs. csplit; auto.
  apply Forall2_dropped_pe; auto.
Qed.

End OneSided.
