(* The ONE-SIDED invariant (Searcher/OneSidedInv.v) through the searcher model - part 1: copy of
   Searcher/ProofsCore.v.  The vocabulary (rule_good, labelled, ...) and the lemmas that do not mention the
   invariant are those of ProofsCore.v; add_rule no longer needs anything about the children of a rule that
   is not possibly_empty (kids_nonempty is gone: set_empty(child, False) cannot break the one-sided fact). *)
From Coq Require Import ZArith List Bool Lia.
From CSS Require Import Base.PyList ClassDB.Model ClassDB.Proofs Gen.Prelude Gen.ReverseShifts
  Searcher.Model Searcher.Inv Searcher.ProofsCore Searcher.OneSidedDefs Searcher.OneSidedInv.
Import ListNotations.
(* the strategy-provenance predicate of ProofsCore.prov (added for C14) is not needed one-sidedly: trivial *)
Notation UT := (fun _ : Z => True).
Open Scope Z_scope.

Section Core.
Variable T : table.
Variable C : Prop.
Variable GP : @db Z -> list (Z * list Z) -> list (Z * list Z) -> list event -> Prop.

Notation oracle := (oracle T).
Notation entry_of := (entry_of T).
Notation rules_from_strategy := (rules_from_strategy T).
Notation rule_children := (rule_children T).
Notation lbl := (label_of Z.eqb (fun c : Z => c)).
Notation Inv := (Inv T C GP).
Notation leq := (leq T C GP).
Notation ev_ok := (ev_ok T C).
Notation kids_sp := (kids_sp T).
Notation pe_of := (pe_of T).
Notation rule_good := (rule_good T).
Notation labelled := (labelled T UT).
Notation RK := (ProofsCore.RK).
Notation kids_lbl := (ProofsCore.kids_lbl).
Notation kids_sp_rule := (ProofsCore.kids_sp_rule T).
Notation kids_sp_empty := (ProofsCore.kids_sp_empty T).
Notation r_pe_of := (ProofsCore.r_pe_of T).
Notation labelled_add_ok := (ProofsCore.labelled_add_ok T UT).
Notation labelled_kids := (ProofsCore.labelled_kids T UT).
Notation rule_good_of_strategy := (ProofsCore.rule_good_of_strategy T).

Hypothesis G_frame : C -> forall d d' r e tr, (* in-section *)
  @WF Z d -> @WF Z d' -> extends d d' -> EmptyOK1 T d -> EmptyOK1 T d' ->
  GP d r e tr -> GP d' r e tr.
Hypothesis G_skip : C -> forall ev d r e tr, neutral ev = true -> GP d r e tr -> GP d r e (ev :: tr). (* in-section *)

Notation RL_leq := (OneSidedInv.RL_leq T C GP).
Notation RLs_leq := (OneSidedInv.RLs_leq T C GP).
Notation get_labels_ok := (OneSidedInv.get_labels_ok T C GP G_frame).
Notation get_label_c_ok := (OneSidedInv.get_label_c_ok T C GP G_frame).
Notation is_empty_cl_ok := (OneSidedInv.is_empty_cl_ok T C GP G_frame).
Notation leq_inv := (OneSidedInv.leq_inv T C GP).
Notation emit_neutral_ok := (OneSidedInv.emit_neutral_ok T C GP G_skip).

Definition ar_spec (ar : st -> Z -> list Z -> rule -> st) : Prop :=
  forall s start ends r, Inv s -> rule_good r ->
    (running s = true -> labelled (cdb s) false start ends r) -> leq s (ar s start ends r).

Lemma RK_leq s s' kids : Inv s -> leq s s' -> RK s kids -> RK s' kids.
Proof.
  intros I L H Hr. destruct I as (W & _). destruct L as ((W' & _) & X & R).
  specialize (H (R Hr)). unfold kids_lbl in *. eapply Forall_impl; [|exact H].
  intros [c l]; simpl. apply (lbl_ext _ _ _ _ W W' X).
Qed.

Lemma labelled_leq s s' sym start ends r : Inv s -> leq s s' ->
  (running s = true -> labelled (cdb s) sym start ends r) -> (running s' = true -> labelled (cdb s') sym start ends r).
Proof.
  intros I L H Hr. destruct I as (W & _). destruct L as ((W' & _) & X & R).
  destruct (H (R Hr)) as ((A & cs & B & D & E) & P). split.
  - split; [apply (lbl_ext _ _ _ _ W W' X); auto|].
    exists cs; csplit; auto. apply (labels_of_ext _ _ _ _ W W' X); auto.
  - destruct P as [P|(sid0 & c0 & l0 & P1 & P2 & P3)]; [left; auto|right].
    exists sid0, c0, l0; split; auto. split; [|exact Logic.I]. apply (lbl_ext _ _ _ _ W W' X); auto.
Qed.

Lemma label_rule_ok s c label r s' o :
  Inv s -> RL s c label -> (exists sid0, In r (rules_from_strategy sid0 c)) ->
  label_rule T s c label r = (s', o) ->
  leq s s' /\
  match o with
  | None => True
  | Some (start, ends) =>
      (forall cs, rule_children r = Some cs -> cs <> [r_parent r]) /\
      (running s' = true -> labelled (cdb s') false start ends r)
  end.
Proof.
  intros I Hl (sid0 & Hsid0). unfold label_rule. destruct (rule_children r) as [cs|] eqn:Ec.
  2:{ intros [= <- <-]. split; [apply leq_refl; auto|exact Logic.I]. }
  destruct (match cs with [c0] => r_parent r =? c0 | _ => false end) eqn:Eself.
  { intros [= <- <-]. split; [apply leq_refl; auto|exact Logic.I]. }
  destruct (get_labels T s cs) as [s1 ends] eqn:E1.
  destruct (get_labels_ok cs s s1 ends I E1) as (L1 & H1).
  assert (Inv s1) as I1 by (apply (leq_inv _ _ L1)).
  assert (cs <> [r_parent r]) as Hns.
  { intros ->. simpl in Eself. rewrite Z.eqb_refl in Eself. discriminate. }
  destruct (r_parent r =? c) eqn:Ep.
  - intros [= <- <-]. apply Z.eqb_eq in Ep. split; auto. split.
    + intros cs' Hc'. congruence.
    + intros Hr. pose proof (RL_leq s s1 c label I L1 Hl Hr) as Hc1. split.
      * split; [rewrite Ep; exact Hc1|].
        specialize (H1 Hr). pose proof (Forall2_length' _ _ _ H1) as Hlen.
        exists cs; csplit; auto. rewrite firstn_all2; [exact H1|lia].
      * right. exists sid0, c, label; split; [auto|split; [auto|exact Logic.I]].
  - destruct (get_label_c T s1 (r_parent r)) as [s2 start] eqn:E2.
    destruct (get_label_c_ok s1 (r_parent r) s2 start I1 E2) as (L2 & H2).
    intros [= <- <-]. split; [eapply leq_trans; eauto|]. split.
    + intros cs' Hc'. congruence.
    + intros Hr. split.
      * split; [apply H2; auto|].
        assert (labels_of (cdb s2) cs ends) as H1' by (apply (RLs_leq s1 s2 cs ends I1 L2 H1 Hr)).
        pose proof (Forall2_length' _ _ _ H1') as Hlen.
        exists cs; csplit; auto. rewrite firstn_all2; [exact H1'|lia].
      * right. exists sid0, c, label; split; auto. split; [|exact Logic.I].
        apply (RL_leq s1 s2 c label I1 L2 (RL_leq s s1 c label I L1 Hl) Hr).
Qed.

(* emitting events the ghost predicate does not look at *)
Lemma emits_ok es : forall s, Inv s -> Forall (fun e => neutral e = true) es ->
  (running s = true -> Forall (ev_ok (cdb s)) es) -> leq s (emits es s).
Proof.
  induction es as [|e t IH]; intros s I Hn H; simpl.
  - apply leq_refl; auto.
  - assert (leq s (emit e s)) as L.
    { apply emit_neutral_ok; auto; [inversion Hn; auto|]. intros Hr. specialize (H Hr). inversion H; auto. }
    eapply leq_trans; [exact L|]. apply IH; [apply (leq_inv _ _ L)|inversion Hn; auto|].
    rewrite emit_running, emit_cdb. intros Hr. specialize (H Hr). inversion H; auto.
Qed.

(* for start_label, end_labels, rule in self._expand_class_with_strategy(...): body
   -- the body is only ever run in states later than s0 *)
Definition body_spec (s0 : st) (rules : list rule) (body : st -> Z -> list Z -> rule -> st) : Prop :=
  forall s start ends r, leq s0 s -> In r rules -> Inv s ->
    (forall cs, rule_children r = Some cs -> cs <> [r_parent r]) ->
    (running s = true -> labelled (cdb s) false start ends r) -> leq s (body s start ends r).

Lemma for_rules_ok s0 body sid0 c rules0 : body_spec s0 rules0 body -> incl rules0 (rules_from_strategy sid0 c) ->
  forall rules, incl rules rules0 -> forall s label, leq s0 s -> Inv s -> RL s c label ->
  leq s (for_rules T body s c label rules).
Proof.
  intros HB Hsub. induction rules as [|r t IH]; intros Hin s label L0 I Hl; simpl.
  - apply leq_refl; auto.
  - destruct (label_rule T s c label r) as [s1 o] eqn:E1.
    assert (exists sid1, In r (rules_from_strategy sid1 c)) as Hpr
      by (exists sid0; apply Hsub; apply Hin; left; auto).
    destruct (label_rule_ok s c label r s1 o I Hl Hpr E1) as (L1 & Ho).
    assert (Inv s1) as I1 by (apply (leq_inv _ _ L1)).
    assert (leq s0 s1) as L01 by (eapply leq_trans; eauto).
    assert (incl t rules0) as Hin' by (intros x Hx; apply Hin; right; auto).
    destruct o as [[start ends]|].
    + destruct Ho as (Hn & Hlab).
      assert (leq s1 (body s1 start ends r)) as L2.
      { apply HB; auto. apply Hin; left; auto. }
      eapply leq_trans; [exact L1|]. eapply leq_trans; [exact L2|].
      apply IH; auto.
      * eapply leq_trans; eauto.
      * apply (leq_inv _ _ L2).
      * apply (RL_leq s1 _ c label I1 L2). apply (RL_leq s s1 c label I L1 Hl).
    + eapply leq_trans; [exact L1|]. apply IH; auto. apply (RL_leq s s1 c label I L1 Hl).
Qed.

Lemma ar_body s0 sid c ar : ar_spec ar ->
  body_spec s0 (rules_from_strategy sid c) ar.
Proof.
  intros HA s start ends r _ Hin I Hn Hl. apply HA; auto. eapply rule_good_of_strategy; eauto.
Qed.

(* expanding with a strategy whose rules go to add_rule *)
Lemma expand_with_ok ar s c sid label : ar_spec ar ->
  Inv s -> RL s c label -> leq s (expand_with T ar s c sid label).
Proof.
  intros HA I Hl. unfold expand_with.
  apply (for_rules_ok s ar sid c (rules_from_strategy sid c) (ar_body s sid c ar HA)); auto.
  apply incl_refl. apply incl_refl. apply leq_refl; auto.
Qed.

(* ------------------------------------------------------ RuleDBBase.add *)
Lemma clean_labels_ok pe kids : forall s s1 cl,
  Inv s -> RK s kids -> clean_labels T s pe kids = (s1, cl) ->
  leq s s1 /\
  exists bs, length bs = length kids /\ cl = map snd (select bs kids) /\
    (pe = false -> Forall (fun b => b = true) bs) /\
    (C -> running s1 = true -> Forall2 (fun b cl => b = false -> oracle (fst cl) = true) bs kids).
Proof.
  induction kids as [|[c l] t IH]; intros s s1 cl I Hk; simpl.
  - intros [= <- <-]. split; [apply leq_refl; auto|]. exists []. csplit; auto.
  - assert (RK s t) as Hkt by (intros Hr; specialize (Hk Hr); inversion Hk; auto).
    assert (RL s c l) as Hcl by (intros Hr; specialize (Hk Hr); inversion Hk; auto).
    destruct pe.
    + destruct (is_empty_cl T s c (Some l)) as [s' b] eqn:E1.
      destruct (is_empty_cl_ok s c (Some l) s' b I) as (L1 & Hb); auto.
      { intros l0 [= <-]; auto. }
      assert (Inv s') as I1 by (apply (leq_inv _ _ L1)).
      destruct b.
      * assert (leq s' (emit (EvQStop l) s')) as L2 by (apply emit_ok; simpl; auto).
        intros E2. destruct (IH _ _ _ (leq_inv _ _ L2) (RK_leq _ _ _ I1 L2 (RK_leq _ _ _ I L1 Hkt)) E2)
          as (L3 & bs & Hlen & Hcl' & Hpe & HC).
        split; [eapply leq_trans; [exact L1|eapply leq_trans; eauto]|].
        exists (false :: bs). csplit; simpl; auto; try discriminate.
        intros HCC Hr.
        assert (running s' = true) as Hr'.
        { destruct L3 as (_ & _ & R3). destruct L2 as (_ & _ & R2). auto. }
        constructor; [intros _; simpl; apply (Hb HCC Hr' eq_refl)|apply (HC HCC Hr)].
      * destruct (clean_labels T s' true t) as [s2 rest] eqn:E2. intros [= <- <-].
        destruct (IH _ _ _ I1 (RK_leq _ _ _ I L1 Hkt) E2) as (L3 & bs & Hlen & Hcl' & Hpe & HC).
        split; [eapply leq_trans; eauto|].
        exists (true :: bs). csplit; simpl; auto; try discriminate. rewrite Hcl'; auto.
        intros HCC Hr. constructor; [discriminate|apply (HC HCC Hr)].
    + destruct (clean_labels T s false t) as [s2 rest] eqn:E2. intros [= <- <-].
      destruct (IH _ _ _ I Hkt E2) as (L3 & bs & Hlen & Hcl' & Hpe & HC).
      split; auto. exists (true :: bs). csplit; simpl; auto. rewrite Hcl'; auto.
      intros HCC Hr. constructor; [discriminate|apply (HC HCC Hr)].
Qed.

Lemma Forall2_map_r {A B B'} (P : A -> B' -> Prop) (f : B -> B') (l1 : list A) (l2 : list B) :
  Forall2 (fun a x => P a (f x)) l1 l2 -> Forall2 P l1 (map f l2).
Proof. induction 1; simpl; constructor; auto. Qed.

Lemma labelled_store_ok d sym start ends r bs :
  rule_good r -> labelled d sym start ends r ->
  length bs = length (combine (kids_of T r) ends) ->
  (r_pe T r = false -> Forall (fun b => b = true) bs) ->
  (C -> Forall2 (fun b cl => b = false -> oracle (fst cl) = true) bs (combine (kids_of T r) ends)) ->
  store_ok T C d start (isort (map snd (select bs (combine (kids_of T r) ends)))) (r_sid r) (r_parent r).
Proof.
  intros G Hl Hlen Hpe HC. destruct (labelled_kids _ _ _ _ _ Hl) as (Hk & Hle).
  destruct Hl as ((A & cs & B & D & E) & _). split; auto.
  assert (kids_of T r = cs) as Ek by (unfold kids_of; rewrite B; auto). rewrite Ek in *.
  assert (kids_sp (r_sid r) (r_parent r) = cs /\ r_pe T r = pe_of (r_sid r) \/ cs = []) as Hsp.
  { destruct G as [(Hk1 & Hs & _)|(Hk1 & _)].
    - right. destruct (kids_sp_empty r Hk1 Hs) as (B' & _). congruence.
    - left. split; [apply (kids_sp_rule r cs Hk1 B)|apply r_pe_of; auto]. }
  exists ends, bs. rewrite select_map_snd, map_snd_combine by auto.
  rewrite combine_length in Hlen.
  destruct Hsp as [(Hsp & Hpe')|Hnil]; [|rewrite Hnil in *].
  - rewrite Hsp. split; [exact D|]. split.
    { destruct sym; [right; destruct E as (E1 & E2 & E3); auto|left; exact E]. }
    split; [lia|]. split; [reflexivity|]. split.
    + rewrite <- Hpe'; auto.
    + intros HCC. rewrite <- map_fst_combine. apply Forall2_map_r. exact (HC HCC).
  - destruct ends; simpl in Hle; [|lia]. destruct bs; simpl in Hlen; [|lia].
    assert (kids_sp (r_sid r) (r_parent r) = []) as Hk0.
    { destruct G as [(Hk1 & Hs & _)|(Hk1 & _)].
      - apply (kids_sp_empty r Hk1 Hs).
      - apply (kids_sp_rule r [] Hk1 B). }
    rewrite Hk0. csplit; simpl; auto; try (intros _); constructor.
Qed.

End Core.

(* ------------------------------------------------------ RuleDBBase.add *)
(* The plain invariant (G := Gtriv) through ruledb.add of the pruning databases.  The ghost predicate of
   Proofs.v takes the whole call - EvAdd, _clean_labels, the events of the store part, the new stores -
   as ONE step (hypothesis G_base there); everything else about the call is proved here. *)
Section Base.
Variable T : table.
Variable C : Prop.

Notation oracle := (oracle T).
Notation lbl := (label_of Z.eqb (fun c : Z => c)).
Notation Inv0 := (Inv T C Gtriv).
Notation leq0 := (leq T C Gtriv).
Notation ev_ok := (ev_ok T C).

Lemma Inv0_of (GP : @db Z -> list (Z * list Z) -> list (Z * list Z) -> list event -> Prop) s : Inv T C GP s -> Inv0 s.
Proof. intros (W & E & F & _). unfold Inv. csplit; auto. intros _; exact Logic.I. Qed.

Lemma base_add_ok0 s sym start ends r : Inv0 s -> rule_good T r ->
  (running s = true -> labelled T UT (cdb s) sym start ends r) -> leq0 s (base_add T s start ends r).
Proof.
  intros I G Hl. unfold base_add.
  destruct (clean_labels T s (r_pe T r) (combine (kids_of T r) ends)) as [s1 cl] eqn:E1.
  assert (RK s (combine (kids_of T r) ends)) as Hk.
  { intros Hr. apply (labelled_kids T UT _ _ _ _ _ (Hl Hr)). }
  destruct (clean_labels_ok T C Gtriv (Gtriv_frame1 T C) (Gtriv_skip C) _ _ _ _ _ I Hk E1) as (L1 & bs & Hlen & Hcl & Hpe & HC).
  assert (Inv0 s1) as I1 by (apply (leq_inv _ _ _ _ _ L1)).
  assert (forall eqv, running s1 = true ->
            ev_ok (cdb s1) (EvStore eqv start (isort cl) (r_sid r) (r_parent r))) as Hst.
  { intros eqv Hr. simpl. rewrite Hcl.
    apply (labelled_store_ok T C _ sym); auto. apply (labelled_leq T C Gtriv s s1 sym start ends r I L1 Hl Hr). }
  assert (forall es rs es', Forall (fun e => match e with EvStore _ a b c d => a = start /\ b = isort cl /\ c = r_sid r /\ d = r_parent r
                                    | EvAdd _ _ _ _ | EvSetEmpty _ _ => False | _ => True end) es ->
            leq0 s1 (with_stores (emits es s1) rs es')) as Hfin.
  { intros es rs es' Hes. apply emits_stores_ok; [exact I1| |intros; exact Logic.I].
    intros Hr. eapply Forall_impl; [|exact Hes].
    intros e. destruct e; simpl; auto; try contradiction. intros (-> & -> & -> & ->). apply (Hst eqv Hr). }
  set (ver := if is_ver r then [EvVerified start] else []).
  assert (Forall (fun e => match e with EvStore _ a b c d => a = start /\ b = isort cl /\ c = r_sid r /\ d = r_parent r
                         | EvAdd _ _ _ _ | EvSetEmpty _ _ => False | _ => True end) ver) as Hver.
  { unfold ver. destruct (is_ver r); repeat constructor. }
  eapply leq_trans; [exact L1|].
  destruct (isort cl) as [|e [|e2 t]] eqn:Es.
  - apply Hfin. apply Forall_app; split; [exact Hver|repeat constructor; auto].
  - destruct (r_two_way T r).
    + cbv zeta. apply Hfin. apply Forall_app; split; [exact Hver|].
      repeat match goal with |- context [if ?b then _ else _] => destruct b end;
        cbn [app]; repeat constructor; auto.
    + apply Hfin. apply Forall_app; split; [exact Hver|repeat constructor; auto].
  - apply Hfin. apply Forall_app; split; [exact Hver|repeat constructor; auto].
Qed.

(* self.ruledb.add(start, ends, rule) of RuleDB / RuleDBForgetStrategy: the call is logged, then RuleDBBase.add *)
Lemma ruledb_base_ok0 s sym start ends r : Inv0 s -> rule_good T r ->
  (running s = true -> labelled T UT (cdb s) sym start ends r) ->
  leq0 s (base_add T (emit (EvAdd start ends (r_sid r) (r_parent r)) s) start ends r).
Proof.
  intros I G Hl.
  assert (leq0 s (emit (EvAdd start ends (r_sid r) (r_parent r)) s)) as L0.
  { apply emit_ok; [exact I| |intros; exact Logic.I]. intros Hr. simpl. eapply labelled_add_ok; eauto. }
  eapply leq_trans; [exact L0|]. apply (base_add_ok0 _ sym); auto; [apply (leq_inv _ _ _ _ _ L0)|].
  rewrite emit_running, emit_cdb. auto.
Qed.

End Base.
