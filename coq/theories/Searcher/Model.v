(* Executable model of the expansion loop of
   comb_spec_searcher/comb_spec_searcher.py (CombinatorialSpecificationSearcher:
   __init__, try_verify, _expand, _rules_from_strategy,
   _expand_class_with_strategy, add_rule, _symmetry_expand, _inferral_expand,
   _expand_classes_for, do_level), of what it hands to the rule database
   (rule_db/base.py RuleDBBase.add/_clean_labels; rule_db/forest.py
   RuleDBForest.add/_add_empty_rule with Rule/ReverseRule/VerificationRule
   .forest_key) and of its use of the class database (the C15 model
   CSS.ClassDB.Model with cls = key = Z, compress = id).

   The pack and the classes are a finite STRATEGY TABLE (harness/universes/
   table.py): classes are integers, a strategy reads everything from the table.
   The work queue and the rule database's is_verified answers are EXTERNAL:
   the packets handed out by the queue and the answers of ruledb.is_verified
   are inputs (oracle streams); every theorem quantifies over all of them.

   Observable output: the EVENT TRACE (newest event first in the state).
   Python is modelled as it is: generators are consumed lazily (the labels of
   the next rule of a strategy are allocated AFTER the previous rule was
   added), `and` short-circuits, zip truncates, an exception stops everything
   (status Failed; every primitive is then a no-op).  Recursion through
   add_rule/try_verify/_inferral_expand uses explicit fuel.  No proofs here. *)
From Coq Require Import ZArith List Bool.
From CSS Require Import Base.PyList ClassDB.Model Gen.Prelude Gen.ReverseShifts.
Import ListNotations.
Open Scope Z_scope.

(* ------------------------------------------------------------------ table *)
Record entry := mkE {
  e_children : list Z;      (* decomposition_function *)
  e_two_way : bool;         (* strategy.is_two_way(comb_class) *)
  e_reversible : bool;      (* strategy.is_reversible(comb_class) *)
  e_shifts : list Z         (* strategy.shifts(comb_class, children) *)
}.

(* what a factory yields: the strategy itself (i_on = None), or the ready rule
   i_sid(i_on), built lazily (children computed on first access) or eagerly *)
Record item := mkI { i_sid : Z; i_on : option Z; i_lazy : bool }.

(* s_kind: 0 plain strategy, 1 factory, 2 verification strategy, 3 symmetry *)
Record strat := mkS {
  s_kind : Z;
  s_ip : bool; s_inf : bool; s_pe : bool; s_work : bool;
     (* ignore_parent, inferrable, possibly_empty, workable of the strategy object *)
  s_apply : list (Z * entry);
  s_items : list (Z * list item)
}.

Record table := mkT {
  t_empty : list Z;        (* comb_class.is_empty(), 0 = non-empty *)
  t_strats : list strat;
  t_ver : list Z;          (* strategy_pack.ver_strats *)
  t_sym : list Z           (* strategy_pack.symmetries *)
}.

Fixpoint assoc {A} (k : Z) (l : list (Z * A)) : option A :=
  match l with
  | [] => None
  | (k', v) :: t => if k' =? k then Some v else assoc k t
  end.

Definition mem (x : Z) (l : list Z) : bool := existsb (Z.eqb x) l.

(* sorted() on integers *)
Fixpoint insert (x : Z) (l : list Z) : list Z :=
  match l with
  | [] => [x]
  | y :: t => if x <=? y then x :: l else y :: insert x t
  end.
Definition isort (l : list Z) : list Z := fold_right insert [] l.

(* ------------------------------------------------------------------ rules *)
(* a rule object is identified by its strategy and its parent class; RVer = a
   VerificationRule, REmpty = the rule of EmptyStrategy (forest.empty_strategy, and the
   searcher's own rule for an empty start class) *)
Inductive rkind := RPlain | RVer | REmpty.
Record rule := mkR { r_sid : Z; r_parent : Z; r_kind : rkind }.

Inductive event :=
| EvAdd (start : Z) (ends : list Z) (sid parent : Z)      (* ruledb.add(start, ends, rule) *)
| EvSetEmpty (l : Z) (v : bool)                            (* classdb.set_empty issued by the searcher *)
| EvQAdd (l : Z)                                           (* classqueue.add *)
| EvQNotInf (l : Z)                                        (* classqueue.set_not_inferrable *)
| EvQStop (l : Z)                                          (* classqueue.set_stop_yielding *)
| EvVerified (l : Z)                                       (* equivdb.set_verified (RuleDBBase.add) *)
| EvEdge (two_way : bool) (a b : Z)                        (* equivdb.add_two_way_edge / add_one_way_edge *)
| EvStore (eqv : bool) (start : Z) (ends : list Z) (sid parent : Z)
      (* eqv_rule_to_strategy / rule_to_strategy [(start, ends)] = rule.strategy *)
| EvPop (start : Z) (ends : list Z)                        (* the key (start, ends) is removed from rule_to_strategy *)
| EvKey (parent : Z) (children shifts : list Z) (bucket : Z).
      (* table_method.add_rule_key; bucket 0 REVERSE, 1 NORMAL, 2 EQUIV, 3 VERIFICATION *)

Inductive status := Running | OutOfFuel | Failed (code : Z).
(* codes: 1 KeyError, 2 IndexError (class database), 5 no recorded is_verified answer left,
   6 IndexError on rule.children[0] / end_labels[0], 7 StrategyDoesNotApply raised by
   EmptyStrategy()(comb_class) in RuleDBForest._add_empty_rule / __init__, 8 rule without children object *)

Record st := mkSt {
  cdb : @db Z;
  tried : list Z;           (* tried_to_verify *)
  symexp : list Z;          (* symmetry_expanded *)
  infexp : list Z;          (* inferral_expanded *)
  symacc : list Z;          (* local sym_labels of the running _symmetry_expand *)
  answers : list bool;      (* ruledb.is_verified answers still to come *)
  rstore : list (Z * list Z);   (* keys of rule_to_strategy *)
  estore : list (Z * list Z);   (* keys of eqv_rule_to_strategy *)
  already : list Z;         (* RuleDBForest._already_empty *)
  trace : list event;       (* newest first *)
  stat : status
}.

Definition running (s : st) : bool := match stat s with Running => true | _ => false end.

Definition with_cdb (s : st) (d : @db Z) : st :=
  mkSt d (tried s) (symexp s) (infexp s) (symacc s) (answers s) (rstore s) (estore s) (already s) (trace s) (stat s).
Definition with_stat (s : st) (x : status) : st :=
  mkSt (cdb s) (tried s) (symexp s) (infexp s) (symacc s) (answers s) (rstore s) (estore s) (already s) (trace s) x.
Definition fail (code : Z) (s : st) : st := if running s then with_stat s (Failed code) else s.
Definition out_of_fuel (s : st) : st := if running s then with_stat s OutOfFuel else s.
Definition emit (e : event) (s : st) : st :=
  if running s then
    mkSt (cdb s) (tried s) (symexp s) (infexp s) (symacc s) (answers s) (rstore s) (estore s) (already s) (e :: trace s) (stat s)
  else s.
Definition add_tried (l : Z) (s : st) : st :=
  if running s then
    mkSt (cdb s) (l :: tried s) (symexp s) (infexp s) (symacc s) (answers s) (rstore s) (estore s) (already s) (trace s) (stat s)
  else s.
Definition add_infexp (l : Z) (s : st) : st :=
  if running s then
    mkSt (cdb s) (tried s) (symexp s) (l :: infexp s) (symacc s) (answers s) (rstore s) (estore s) (already s) (trace s) (stat s)
  else s.
Definition set_symacc (a : list Z) (s : st) : st :=
  if running s then
    mkSt (cdb s) (tried s) (symexp s) (infexp s) a (answers s) (rstore s) (estore s) (already s) (trace s) (stat s)
  else s.
(* self.symmetry_expanded.update(sym_labels) *)
Definition flush_symacc (s : st) : st :=
  if running s then
    mkSt (cdb s) (tried s) (symacc s ++ symexp s) (infexp s) [] (answers s) (rstore s) (estore s) (already s) (trace s) (stat s)
  else s.
Definition add_already (l : Z) (s : st) : st :=
  if running s then
    mkSt (cdb s) (tried s) (symexp s) (infexp s) (symacc s) (answers s) (rstore s) (estore s) (l :: already s) (trace s) (stat s)
  else s.
Definition with_stores (s : st) (r e : list (Z * list Z)) : st :=
  if running s then
    mkSt (cdb s) (tried s) (symexp s) (infexp s) (symacc s) (answers s) r e (already s) (trace s) (stat s)
  else s.

Definition emits (es : list event) (s : st) : st := fold_left (fun s e => emit e s) es s.

(* the next recorded answer of ruledb.is_verified *)
Definition pop_answer (s : st) : st * bool :=
  if running s then
    match answers s with
    | [] => (fail 5 s, true)
    | a :: t =>
        (mkSt (cdb s) (tried s) (symexp s) (infexp s) (symacc s) t (rstore s) (estore s) (already s) (trace s) (stat s), a)
    end
  else (s, true).

Definition err_code (e : err) : Z :=
  match e with KeyError => 1 | IndexError => 2 | TypeError => 3 | ValueError => 4 end.

Definition keyeq (a b : Z * list Z) : bool :=
  (fst a =? fst b) && (if list_eq_dec Z.eq_dec (snd a) (snd b) then true else false).
(* d[k] = v on the key set of a dict *)
Definition store_set (k : Z * list Z) (d : list (Z * list Z)) : list (Z * list Z) :=
  if existsb (keyeq k) d then d else d ++ [k].
(* d.pop(k, None) *)
Definition store_pop (k : Z * list Z) (d : list (Z * list Z)) : list (Z * list Z) :=
  filter (fun k' => negb (keyeq k k')) d.

Section Searcher.
Variable T : table.
Variable mode : Z.   (* 0 RuleDB / RuleDBForgetStrategy; 1 RuleDBForest(reverse=False); 2 RuleDBForest(reverse=True) *)

(* comb_class.is_empty() *)
Definition oracle (c : Z) : bool :=
  if c <? 0 then false else negb (nth (Z.to_nat c) (t_empty T) 0 =? 0).

Definition strat_of (sid : Z) : option strat :=
  if sid <? 0 then None else nth_error (t_strats T) (Z.to_nat sid).
Definition entry_of (sid c : Z) : option entry :=
  match strat_of sid with Some x => assoc c (s_apply x) | None => None end.
Definition flag (f : strat -> bool) (sid : Z) : bool :=
  match strat_of sid with Some x => f x | None => false end.

(* rule.children; None = StrategyDoesNotApply *)
Definition rule_children (r : rule) : option (list Z) :=
  match r_kind r with
  | REmpty => Some []
  | _ => option_map e_children (entry_of (r_sid r) (r_parent r))
  end.
Definition r_ip (r : rule) : bool := match r_kind r with REmpty => true | _ => flag s_ip (r_sid r) end.
Definition r_inf (r : rule) : bool := match r_kind r with REmpty => false | _ => flag s_inf (r_sid r) end.
Definition r_pe (r : rule) : bool := match r_kind r with REmpty => false | _ => flag s_pe (r_sid r) end.
Definition r_work (r : rule) : bool := match r_kind r with REmpty => false | _ => flag s_work (r_sid r) end.
Definition is_ver (r : rule) : bool := match r_kind r with RPlain => false | _ => true end.
Definition r_two_way (r : rule) : bool :=
  match r_kind r with
  | RPlain => match entry_of (r_sid r) (r_parent r) with Some e => e_two_way e | None => false end
  | _ => false
  end.
Definition r_reversible (r : rule) : bool :=
  match r_kind r with
  | RPlain => match entry_of (r_sid r) (r_parent r) with Some e => e_reversible e | None => false end
  | _ => false
  end.
Definition r_shifts (r : rule) : list Z :=
  match r_kind r with
  | REmpty => []
  | _ => match entry_of (r_sid r) (r_parent r) with Some e => e_shifts e | None => [] end
  end.

(* _rules_from_strategy: the rule objects a pack strategy yields on a class.
   A strategy that does not apply yields nothing (StrategyDoesNotApply caught);
   a lazily built ready rule of a factory is yielded whatever the table says
   (its children raise later). *)
Definition applies (sid c : Z) : bool :=
  match entry_of sid c with Some _ => true | None => false end.
Definition rules_of_item (c : Z) (it : item) : list rule :=
  match i_on it with
  | None => if applies (i_sid it) c then [mkR (i_sid it) c RPlain] else []
  | Some p => if i_lazy it then [mkR (i_sid it) p RPlain]
              else if applies (i_sid it) p then [mkR (i_sid it) p RPlain] else []
  end.
Definition rules_from_strategy (sid c : Z) : list rule :=
  match strat_of sid with
  | None => []
  | Some x =>
      if s_kind x =? 1 then
        flat_map (rules_of_item c) (match assoc c (s_items x) with Some l => l | None => [] end)
      else if applies sid c then [mkR sid c (if s_kind x =? 2 then RVer else RPlain)] else []
  end.

(* ------------------------------------------------- class database access *)
Definition cdb_op (s : st) (o : @op Z) : st * @res Z :=
  if running s then
    let '(d, r) := step Z.eqb (fun c => c) (fun k => k) oracle (cdb s) o in (with_cdb s d, r)
  else (s, RNone).

(* classdb.get_label(comb_class) *)
Definition get_label_c (s : st) (c : Z) : st * Z :=
  let '(s', r) := cdb_op s (OpGetLabel (KC c)) in
  match r with
  | RLabel l => (s', l)
  | RErr e => (fail (err_code e) s', 0)
  | _ => (s', 0)
  end.
(* classdb.get_class(label) *)
Definition get_class_l (s : st) (l : Z) : st * Z :=
  let '(s', r) := cdb_op s (OpGetClass (KI l)) in
  match r with
  | RClass c => (s', c)
  | RErr e => (fail (err_code e) s', 0)
  | _ => (s', 0)
  end.
(* classdb.is_empty(comb_class, label) *)
Definition is_empty_cl (s : st) (c : Z) (l : option Z) : st * bool :=
  let '(s', r) := cdb_op s (OpIsEmpty c l) in
  match r with
  | RBool b => (s', b)
  | RErr e => (fail (err_code e) s', false)
  | _ => (s', false)
  end.
(* classdb.set_empty(label, v) issued by the searcher *)
Definition set_empty_ev (s : st) (l : Z) (v : bool) : st :=
  let s0 := emit (EvSetEmpty l v) s in
  let '(s', r) := cdb_op s0 (OpSetEmpty (KI l) v) in
  match r with
  | RErr e => fail (err_code e) s'
  | _ => s'
  end.

Fixpoint get_labels (s : st) (cs : list Z) : st * list Z :=
  match cs with
  | [] => (s, [])
  | c :: t => let '(s1, l) := get_label_c s c in
              let '(s2, ls) := get_labels s1 t in (s2, l :: ls)
  end.

(* ------------------------------------------ _expand_class_with_strategy *)
(* one turn of the generator's loop body for one rule: None = `continue` *)
Definition label_rule (s : st) (c label : Z) (r : rule) : st * option (Z * list Z) :=
  match rule_children r with
  | None => (s, None)                       (* except StrategyDoesNotApply: continue *)
  | Some cs =>
      if (match cs with [c0] => r_parent r =? c0 | _ => false end) then (s, None)
      else
        let '(s1, ends) := get_labels s cs in
        let '(s2, start) := if r_parent r =? c then (s1, label) else get_label_c s1 (r_parent r) in
        (s2, Some (start, ends))
  end.

(* for start_label, end_labels, rule in self._expand_class_with_strategy(...): body *)
Fixpoint for_rules (body : st -> Z -> list Z -> rule -> st) (s : st) (c label : Z) (rules : list rule) : st :=
  match rules with
  | [] => s
  | r :: t =>
      let '(s1, o) := label_rule s c label r in
      let s2 := match o with
                | None => s1
                | Some (start, ends) => body s1 start ends r
                end in
      for_rules body s2 c label t
  end.
Definition expand_with (body : st -> Z -> list Z -> rule -> st) (s : st) (c sid label : Z) : st :=
  for_rules body s c label (rules_from_strategy sid c).

(* ---------------------------------------------------- RuleDBBase.add *)
(* _clean_labels, before sorting *)
Fixpoint clean_labels (s : st) (pe : bool) (kids : list (Z * Z)) : st * list Z :=
  match kids with
  | [] => (s, [])
  | (c, l) :: t =>
      if pe then
        let '(s1, b) := is_empty_cl s c (Some l) in
        if b then clean_labels (emit (EvQStop l) s1) pe t
        else let '(s2, rest) := clean_labels s1 pe t in (s2, l :: rest)
      else let '(s2, rest) := clean_labels s pe t in (s2, l :: rest)
  end.

Definition kids_of (r : rule) : list Z := match rule_children r with Some cs => cs | None => [] end.

Definition base_add (s : st) (start : Z) (ends : list Z) (r : rule) : st :=
  let '(s1, cl) := clean_labels s (r_pe r) (combine (kids_of r) ends) in
  let ends' := isort cl in
  (* `if ends == [start]: return` compares a tuple with a list: never true *)
  let ver := if is_ver r then [EvVerified start] else [] in
  let st_ev := fun eqv => EvStore eqv start ends' (r_sid r) (r_parent r) in
  match ends' with
  | [e] =>
      if r_two_way r then
        (* the superseded one-way keys are deleted when present (`if key in d: del d[key]`);
           EvPop = a key really left the store *)
        let d0 := rstore s1 in
        let p1 := if existsb (keyeq (start, ends')) d0 then [EvPop start ends'] else [] in
        let p2 := if existsb (keyeq (e, [start])) (store_pop (start, ends') d0) then [EvPop e [start]] else [] in
        let s2 := emits (ver ++ [EvEdge true start e; st_ev true] ++ p1 ++ p2) s1 in
        with_stores s2 (store_pop (e, [start]) (store_pop (start, ends') (rstore s2)))
                       (store_set (start, ends') (estore s2))
      else
        let s2 := emits (ver ++ [EvEdge false start e; st_ev false]) s1 in
        with_stores s2 (store_set (start, ends') (rstore s2)) (estore s2)
  | _ =>
      let s2 := emits (ver ++ [st_ev false]) s1 in
      with_stores s2 (store_set (start, ends') (rstore s2)) (estore s2)
  end.

(* --------------------------------------------------- RuleDBForest.add *)
(* len(rule.non_empty_children(classdb.is_empty)) *)
Fixpoint count_nonempty (s : st) (cs : list Z) : st * Z :=
  match cs with
  | [] => (s, 0)
  | c :: t => let '(s1, b) := is_empty_cl s c None in
              let '(s2, n) := count_nonempty s1 t in
              (s2, if b then n else n + 1)
  end.

(* ForestRuleKey(get_label(parent), map get_label children, shifts, bucket) of a
   Rule (normal = true) / ReverseRule (normal = false) with the given classes *)
Definition plain_key (s : st) (normal : bool) (p : Z) (cs sh : list Z) : st * event :=
  let '(s1, pl) := get_label_c s p in
  let '(s2, ls) := get_labels s1 cs in
  let '(s3, n) := count_nonempty s2 cs in
  (s3, EvKey pl ls sh (if n =? 1 then 2 else if normal then 1 else 0)).

Definition forest_key (s : st) (r : rule) : st * event :=
  match r_kind r with
  | RPlain => plain_key s true (r_parent r) (kids_of r) (r_shifts r)
  | _ => let '(s1, pl) := get_label_c s (r_parent r) in
         let '(s2, ls) := get_labels s1 (kids_of r) in
         (s2, EvKey pl ls (r_shifts r) 3)
  end.

Fixpoint remove_nth {A} (n : nat) (l : list A) : list A :=
  match l, n with
  | [], _ => []
  | _ :: t, O => t
  | h :: t, S n' => h :: remove_nth n' t
  end.

(* rule.to_reverse_rule(i).forest_key(...) for i in range(len(rule.children)) *)
Fixpoint reverse_keys (s : st) (r : rule) (idxs : list nat) : st * list event :=
  match idxs with
  | [] => (s, [])
  | i :: t =>
      let cs := kids_of r in
      let '(s1, k) := plain_key s false (nth i cs 0) (r_parent r :: remove_nth i cs)
                        (reverse_shifts (r_shifts r) (Z.of_nat i)) in
      let '(s2, ks) := reverse_keys s1 r t in
      (s2, k :: ks)
  end.

(* _add_empty_rule; ar = searcher.add_rule *)
Fixpoint add_empty_rules (ar : st -> Z -> list Z -> rule -> st) (s : st) (kids : list (Z * Z)) : st :=
  match kids with
  | [] => s
  | (l, c) :: t =>
      let s' :=
        if mem l (already s) then s
        else let '(s1, b) := is_empty_cl s c (Some l) in
             if b then
               (* empty_strategy(comb_class) asks the class itself *)
               if oracle c then ar (add_already l s1) l [] (mkR (-1) c REmpty)
               else fail 7 s1
             else s1 in
      add_empty_rules ar s' t
  end.

Definition forest_add (ar : st -> Z -> list Z -> rule -> st) (s : st) (start : Z) (ends : list Z) (r : rule) : st :=
  let s1 := if r_pe r then add_empty_rules ar s (combine ends (kids_of r)) else s in
  let '(s2, k0) := forest_key s1 r in
  let '(s3, ks) := if (mode =? 2) && r_reversible r
                   then reverse_keys s2 r (seq 0 (length (kids_of r))) else (s2, []) in
  emits (k0 :: ks) s3.

(* self.ruledb.add(start, ends, rule) *)
Definition ruledb_add (ar : st -> Z -> list Z -> rule -> st) (s : st) (start : Z) (ends : list Z) (r : rule) : st :=
  let s0 := emit (EvAdd start ends (r_sid r) (r_parent r)) s in
  if mode =? 0 then base_add s0 start ends r else forest_add ar s0 start ends r.

(* ---------------------------------------------------- _symmetry_expand *)
Definition has_sym : bool := match t_sym T with [] => false | _ => true end.

Definition symmetry_expand (ar : st -> Z -> list Z -> rule -> st) (s : st) (c label : Z) : st :=
  let s0 := set_symacc [label] s in
  let '(s1, empty) := is_empty_cl s0 c (Some label) in
  let body := fun (s : st) (start : Z) (ends : list Z) (r : rule) =>
    match ends with
    | [] => fail 6 s                                     (* end_labels[0] *)
    | sl :: _ =>
        let s := set_empty_ev s sl empty in
        let s := ruledb_add ar s start [sl] r in
        let s := emit (EvQStop sl) s in
        set_symacc (sl :: symacc s) s
    end in
  let s2 := fold_left (fun s sid => expand_with body s c sid label) (t_sym T) s1 in
  flush_symacc s2.

(* ---------------------------------------------------------- try_verify *)
Fixpoint ver_loop (ar : st -> Z -> list Z -> rule -> st) (s : st) (c label : Z) (sids : list Z) : st :=
  match sids with
  | [] => s
  | sid :: t =>
      let '(s1, a) := pop_answer s in              (* if self.ruledb.is_verified(label): return *)
      if a then s1
      else ver_loop ar (expand_with ar s1 c sid label) c label t
  end.

Definition try_verify (ar : st -> Z -> list Z -> rule -> st) (s : st) (c label : Z) : st :=
  if mem label (tried s) then s
  else
    let s0 := add_tried label s in
    let '(s1, b) := is_empty_cl s0 c (Some label) in
    if b then s1 else ver_loop ar s1 c label (t_ver T).

(* ------------------------------------------------------------ add_rule *)
Definition child_step (ar : st -> Z -> list Z -> rule -> st) (r : rule) (s : st) (cl : Z * Z) : st :=
  let '(c, l) := cl in
  let s := if r_pe r then s else set_empty_ev s l false in
  let s := if has_sym && negb (mem l (symexp s)) then symmetry_expand ar s c l else s in
  let s := if r_work r then emit (EvQAdd l) s else s in
  let s := if r_inf r then s else emit (EvQNotInf l) s in
  try_verify ar s c l.

Fixpoint add_rule (n : nat) (s : st) (start : Z) (ends : list Z) (r : rule) : st :=
  match n with
  | O => out_of_fuel s
  | S n' =>
      match rule_children r with
      | None => fail 8 s
      | Some cs =>
          let ar := add_rule n' in
          let s1 := fold_left (child_step ar r) (combine cs ends) s in
          let s2 := if r_ip r then emit (EvQStop start) s1 else s1 in
          ruledb_add ar s2 start ends r
      end
  end.

(* ---------------------------------------------------- _inferral_expand *)
(* the first (start, ends, rule) the generator yields; rules skipped on the way
   change nothing *)
Fixpoint first_rule (s : st) (c label : Z) (rules : list rule) : st * option (Z * list Z * rule) :=
  match rules with
  | [] => (s, None)
  | r :: t =>
      let '(s1, o) := label_rule s c label r in
      match o with
      | Some (start, ends) => (s1, Some (start, ends, r))
      | None => first_rule s1 c label t
      end
  end.

Definition skip_eqb (skip : option Z) (sid : Z) : bool :=
  match skip with Some k => k =? sid | None => false end.

Fixpoint inf_loop (F : nat) (rec : st -> Z -> Z -> list Z -> option Z -> st)
         (s : st) (c label : Z) (all : list Z) (i : nat) (rest : list Z) (skip : option Z) : st :=
  match rest with
  | [] => s
  | sid :: t =>
      if skip_eqb skip sid then inf_loop F rec s c label all (S i) t skip
      else
        let '(s1, o) := first_rule s c label (rules_from_strategy sid c) in
        match o with
        | None => inf_loop F rec s1 c label all (S i) t skip
        | Some (start, ends, r) =>
            match rule_children r, ends with
            | Some (ic :: _), il :: _ =>
                let s2 := add_rule F s1 start ends r in
                let s3 := emit (EvQNotInf start) s2 in
                (* inferral_strategies[i + 1:] + inferral_strategies[0 : i + 1] *)
                rec s3 ic il (skipn (S i) all ++ firstn (S i) all) (Some sid)
            | _, _ => fail 6 s1                       (* rule.children[0] *)
            end
        end
  end.

Fixpoint inferral_expand (F n : nat) (s : st) (c label : Z) (strategies : list Z) (skip : option Z) : st :=
  match n with
  | O => out_of_fuel s
  | S n' =>
      if mem label (infexp s) then s
      else
        let s0 := add_infexp label s in
        let s1 := inf_loop F (inferral_expand F n') s0 c label strategies 0 strategies skip in
        emit (EvQNotInf label) s1
  end.

(* -------------------------------------------------------------- _expand *)
Definition expand (F : nat) (s : st) (c label : Z) (sids : list Z) (inferral : bool) : st :=
  if inferral then inferral_expand F F s c label sids None
  else fold_left (fun s sid => expand_with (add_rule F) s c sid label) sids s.

(* a work packet as handed out by the queue *)
Record packet := mkP { p_label : Z; p_sids : list Z; p_inferral : bool }.

(* one turn of the loop of _expand_classes_for(...) (do_level = false) / do_level()
   (do_level = true) on the packet the queue hands out; `last` = (last_label, comb_class) *)
Definition packet_step (F : nat) (do_level expand_verified : bool) (sl : st * option (Z * Z))
           (p : packet) : st * option (Z * Z) :=
  let '(s, last) := sl in
  let l := p_label p in
  if do_level then
    let '(s1, c) := get_class_l s l in
    (expand F s1 c l (p_sids p) (p_inferral p), last)
  else
    let '(s1, c) :=
      match last with
      | Some (ll, lc) => if l =? ll then (s, lc) else get_class_l s l     (* if label != last_label *)
      | None => get_class_l s l
      end in
    let '(s2, go) :=
      if expand_verified then (s1, true)      (* self.expand_verified or not self.ruledb.is_verified(label) *)
      else let '(s2, a) := pop_answer s1 in (s2, negb a) in
    let s3 := if go then expand F s2 c l (p_sids p) (p_inferral p) else s2 in
    (s3, Some (l, c)).

Definition run_packets (F : nat) (do_level expand_verified : bool) (s : st) (last : option (Z * Z))
           (ps : list packet) : st :=
  fst (fold_left (packet_step F do_level expand_verified) ps (s, last)).

Definition init_state (ans : list bool) : st :=
  mkSt init [] [] [] [] ans [] [] [] [] Running.

(* CombinatorialSpecificationSearcher.__init__ *)
(* if self.classdb.is_empty(start_class, self.start_label):
       self.classqueue.set_stop_yielding(self.start_label)
       self.add_rule(self.start_label, (), EmptyStrategy()(start_class))
   (EmptyStrategy()(start_class) asks the class itself and raises StrategyDoesNotApply otherwise) *)
Definition empty_start (F : nat) (s : st) (start sl : Z) : st :=
  let '(s1, e) := is_empty_cl s start (Some sl) in
  if e then
    let s2 := emit (EvQStop sl) s1 in
    if oracle start then add_rule F s2 sl [] (mkR (-1) start REmpty) else fail 7 s2
  else s1.

Definition searcher_init (F : nat) (ans : list bool) (start : Z) : st :=
  let '(s1, sl) := get_label_c (init_state ans) start in
  let s2 := empty_start F (emit (EvQAdd sl) s1) start sl in
  let s3 := try_verify (add_rule F) s2 start sl in
  if has_sym then symmetry_expand (add_rule F) s3 start sl else s3.

Definition run_search (F : nat) (do_level expand_verified : bool) (ans : list bool) (start : Z)
           (ps : list packet) : st :=
  run_packets F do_level expand_verified (searcher_init F ans start) None ps.

End Searcher.
