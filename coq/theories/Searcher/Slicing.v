(* C17: the control flow of CombinatorialSpecificationSearcher._auto_search_rules
   and _expand_classes_for under a controlled clock.

   The clock is (number of work packets processed) + extra, where `extra`
   advances by a scripted amount at every has_specification() call — exactly
   what the harness's fake time.time() does.  Inputs:
     n_avail : the packet count at which the queue runs dry
     ds      : clock advance at the j-th has_specification() call (>= 0)
     answers : what the j-th has_specification() call answers
     mult    : 100 / perc
     maxt    : max_expansion_time (None = no limit)
   Output: the outcome, the packet counts at which has_specification() was
   consulted, and the final clock offset.  Interruption (ExceededMaxtimeError)
   can only happen BETWEEN packets, after a has_specification() call; calling
   again continues from the packet count where the previous call stopped.     *)
From Coq Require Import ZArith List Bool Lia.
Import ListNotations.
Open Scope Z_scope.

Inductive outcome :=
| Found (k : Z)          (* specification detected after k packets *)
| Exceeded (k : Z)       (* ExceededMaxtimeError, k packets processed *)
| NotFound (k : Z)       (* SpecificationNotFound: queue exhausted *)
| OutOfFuel.

Section Slicing.
Variable n_avail : Z.
Variable mult : Z.
Variable maxt : option Z.

(* _expand_classes_for(expansion_time): (packets processed so far, expanding) *)
Definition expand_for (k exp_time : Z) : Z * bool :=
  let want := k + exp_time + 1 in    (* break after the first packet j of the slice with j > expansion_time *)
  if want <=? n_avail then (want, true) else (Z.max k n_avail, false).

(* the while loop of _auto_search_rules *)
Fixpoint auto (fuel : nat) (k extra t0 exp_time : Z) (ds : list Z) (answers : list bool)
              (calls : list Z) : outcome * list Z * Z :=
  match fuel with
  | O => (OutOfFuel, calls, extra)
  | S f =>
      let '(k', expanding) := expand_for k exp_time in
      let d := hd 0 ds in
      let extra' := extra + d in                   (* has_specification() advances the clock *)
      let calls' := calls ++ [k'] in
      if hd false answers then (Found k', calls', extra')
      else if (match maxt with Some m => m <? (k' + extra') - t0 | None => false end)
           then (Exceeded k', calls', extra')
      else if expanding
           then auto f k' extra' t0 (Z.min (mult * d) 3600) (tl ds) (tl answers) calls'
           else (NotFound k', calls', extra')
  end.

Definition auto_search (fuel : nat) (k extra : Z) (ds : list Z) (answers : list bool)
  : outcome * list Z * Z :=
  auto fuel k extra (k + extra) 0 ds answers [].

Lemma expand_for_mono k e : 0 <= e ->
  let '(k', _) := expand_for k e in k <= k' /\ (k <= n_avail -> k' <= n_avail).
Proof.
  intros He. unfold expand_for. destruct (k + e + 1 <=? n_avail) eqn:E; simpl; lia.
Qed.

Hypothesis mult_nonneg : 0 <= mult.

(* the decision points are packet counts between the start and the exhaustion
   point, in non-decreasing order; there is one per has_specification() answer
   consumed; the run stops at the first `true` answer *)
Lemma auto_spec : forall fuel k extra t0 e ds answers calls o calls' extra',
  0 <= e -> k <= n_avail -> Forall (fun d => 0 <= d) ds ->
  auto fuel k extra t0 e ds answers calls = (o, calls', extra') ->
  exists new, calls' = calls ++ new /\
    (forall x, In x new -> k <= x <= n_avail) /\
    (match o with
     | Found kf => exists pre, new = pre ++ [kf] /\
                     nth (length pre) answers false = true /\
                     forall j, (j < length pre)%nat -> nth j answers false = false
     | Exceeded kf | NotFound kf =>
         (exists pre, new = pre ++ [kf]) /\
         forall j, (j < length new)%nat -> nth j answers false = false
     | OutOfFuel => True
     end).
Proof.
  induction fuel as [|f IH]; intros k extra t0 e ds answers calls o calls' extra' He Hk Hds H; simpl in H.
  - injection H as <- <- <-. exists []. rewrite app_nil_r. split; auto. split; [intros x []|exact I].
  - pose proof (expand_for_mono k e He) as Hm.
    destruct (expand_for k e) as [k' expanding] eqn:Ee. destruct Hm as [Hm1 Hm2]. specialize (Hm2 Hk).
    assert (0 <= hd 0 ds) as Hd by (destruct Hds; simpl; lia).
    assert (Forall (fun d => 0 <= d) (tl ds)) as Htl by (destruct Hds; simpl; auto).
    destruct (hd false answers) eqn:Ea.
    + injection H as <- <- <-. exists [k']. split; auto. split; [intros x [<-|[]]; lia|].
      exists []. split; auto. split; [destruct answers; simpl in *; auto|]. intros j Hj. simpl in Hj. lia.
    + destruct (match maxt with Some m => m <? k' + (extra + hd 0 ds) - t0 | None => false end) eqn:Em.
      * injection H as <- <- <-. exists [k']. split; auto. split; [intros x [<-|[]]; lia|].
        split; [exists []; auto|]. intros j Hj. simpl in Hj. assert (j = O) as -> by lia.
        destruct answers; simpl in *; auto.
      * destruct expanding.
        -- assert (0 <= Z.min (mult * hd 0 ds) 3600) as Hp
             by (apply Z.min_glb; [apply Z.mul_nonneg_nonneg; auto|lia]).
           destruct (IH _ _ _ _ _ _ _ _ _ _ Hp Hm2 Htl H) as (new & Hc & Hr & Ho).
           exists (k' :: new). split; [rewrite Hc, <- app_assoc; reflexivity|].
           split; [intros x [<-|Hx]; [lia|specialize (Hr x Hx); lia]|].
           assert (forall j, nth (S j) answers false = nth j (tl answers) false) as Hnth
             by (intros j; destruct answers; simpl; auto; destruct j; auto).
           assert (nth 0 answers false = false) as H0 by (destruct answers; simpl in *; auto).
           destruct o as [kf|kf|kf|]; auto.
           ++ destruct Ho as (pre & Hn & Ht & Hf). exists (k' :: pre). split; [rewrite Hn; auto|].
              simpl. split; [rewrite Hnth; auto|]. intros [|j] Hj; auto. rewrite Hnth. apply Hf. lia.
           ++ destruct Ho as [(pre & Hn) Hall]. split; [exists (k' :: pre); rewrite Hn; auto|].
              intros [|j] Hj; auto. rewrite Hnth. apply Hall. simpl in Hj. lia.
           ++ destruct Ho as [(pre & Hn) Hall]. split; [exists (k' :: pre); rewrite Hn; auto|].
              intros [|j] Hj; auto. rewrite Hnth. apply Hall. simpl in Hj. lia.
        -- injection H as <- <- <-. exists [k']. split; auto. split; [intros x [<-|[]]; lia|].
           split; [exists []; auto|]. intros j Hj. simpl in Hj. assert (j = O) as -> by lia.
           destruct answers; simpl in *; auto.
Qed.

(* a search called again after an interruption continues from the packet count
   where it stopped: all its decision points are at or after it, none beyond
   what the queue can hand out; it reports a specification only on a `true`
   answer, and only the last consulted answer can be true *)
Theorem resume_from : forall fuel k extra ds answers o calls extra',
  k <= n_avail -> Forall (fun d => 0 <= d) ds ->
  auto_search fuel k extra ds answers = (o, calls, extra') ->
  (forall x, In x calls -> k <= x <= n_avail) /\
  match o with
  | Found kf => last calls k = kf /\ nth (length calls - 1) answers false = true /\
                forall j, (j < length calls - 1)%nat -> nth j answers false = false
  | Exceeded kf | NotFound kf =>
      last calls k = kf /\ forall j, (j < length calls)%nat -> nth j answers false = false
  | OutOfFuel => True
  end.
Proof.
  intros fuel k extra ds answers o calls extra' Hk Hds H. unfold auto_search in H.
  destruct (auto_spec _ _ _ _ _ _ _ _ _ _ _ (Z.le_refl 0) Hk Hds H) as (new & Hc & Hr & Ho).
  simpl in Hc. subst calls. split; auto.
  destruct o as [kf|kf|kf|]; auto.
  - destruct Ho as (pre & -> & Ht & Hf). rewrite last_last, app_length. simpl.
    replace (length pre + 1 - 1)%nat with (length pre) by lia. auto.
  - destruct Ho as [(pre & ->) Hall]. rewrite last_last. auto.
  - destruct Ho as [(pre & ->) Hall]. rewrite last_last. auto.
Qed.

(* SpecificationNotFound is raised only once the queue has run dry *)
Theorem notfound_exhausted : forall fuel k extra t0 e ds answers calls kf calls' extra',
  0 <= e -> k <= n_avail -> Forall (fun d => 0 <= d) ds ->
  auto fuel k extra t0 e ds answers calls = (NotFound kf, calls', extra') -> kf = n_avail.
Proof.
  induction fuel as [|f IH]; intros k extra t0 e ds answers calls kf calls' extra' He Hk Hds H;
    simpl in H; [discriminate|].
  assert (0 <= hd 0 ds) as Hd by (destruct Hds; simpl; lia).
  assert (Forall (fun d => 0 <= d) (tl ds)) as Htl by (destruct Hds; simpl; auto).
  pose proof (expand_for_mono k e He) as Hm.
  destruct (expand_for k e) as [k' expanding] eqn:Ee. destruct Hm as [Hm1 Hm2]. specialize (Hm2 Hk).
  destruct (hd false answers); [discriminate|].
  destruct (match maxt with Some m => m <? k' + (extra + hd 0 ds) - t0 | None => false end); [discriminate|].
  destruct expanding.
  - eapply IH; [| |exact Htl|exact H]; auto.
    apply Z.min_glb; [apply Z.mul_nonneg_nonneg; auto|lia].
  - injection H as <- _ _. unfold expand_for in Ee.
    destruct (k + e + 1 <=? n_avail) eqn:E; [discriminate|]. injection Ee as <-. lia.
Qed.

(* ExceededMaxtimeError is raised only when the clock really passed the limit *)
Theorem exceeded_really : forall fuel k extra t0 e ds answers calls kf calls' extra',
  auto fuel k extra t0 e ds answers calls = (Exceeded kf, calls', extra') ->
  exists m, maxt = Some m /\ m < kf + extra' - t0.
Proof.
  induction fuel as [|f IH]; intros k extra t0 e ds answers calls kf calls' extra' H; simpl in H;
    [discriminate|].
  destruct (expand_for k e) as [k' expanding].
  destruct (hd false answers); [discriminate|].
  destruct maxt as [m|] eqn:Em.
  - destruct (m <? k' + (extra + hd 0 ds) - t0) eqn:El.
    + injection H as <- _ <-. exists m. split; auto. lia.
    + destruct expanding; [|discriminate]. apply (IH _ _ _ _ _ _ _ _ _ _ H).
  - destruct expanding; [|discriminate]. apply (IH _ _ _ _ _ _ _ _ _ _ H).
Qed.

End Slicing.
