(* C17: the searcher as a PACKET-LEVEL STATE MACHINE, and the time-sliced
   drivers on top of it.  No proofs here (Searcher/StepProofs.v).

   step : sstate -> sstate * sevent        one turn of the loop of
       CombinatorialSpecificationSearcher._expand_classes_for:
       next(self.classqueue)                      (the C16 model, Queue/Model.v)
       comb_class = self.classdb.get_class(label) (the C15 model)
       if self.expand_verified or not self.ruledb.is_verified(label):
           self._expand(comb_class, label, strategies, inferral)   (the C04 model, Searcher/Model.v)
   The C04 model reports every call the searcher makes on the queue
   (classqueue.add / set_not_inferrable / set_stop_yielding) as an event;
   none of them returns anything, and the queue is only ever READ by
   next(), so they are applied to the queue model when the packet is done.

   The STATE is exactly the members the searcher keeps its progress in:
     classdb                                      cdb        (C15 model)
     classqueue                                   que        (C16 model)
     ruledb: rule_to_strategy / eqv_rule_to_strategy keys     rstore, estore
             RuleDBForest._already_empty                      already
     tried_to_verify, symmetry_expanded, inferral_expanded    tried, symexp, infexp
   plus an ENVIRONMENT that is not a member of the searcher:
     answers : the answers ruledb.is_verified will give, in call order.  This
               is how the equivalence database / the forest's table method
               (members of ruledb, WRITTEN by ruledb.add: events EvVerified,
               EvEdge, EvKey of the C04 model) are READ back.  For the pruning
               databases has_specification() marks labels verified, so these
               answers are NOT a function of the packet count alone: they are
               inputs, as in the C04 model, and every theorem quantifies over
               all answer streams.
     stat    : Running, or how the search died (an exception leaves the
               Python object in a state the property says nothing about).
   The fields `trace` (history) and `symacc` (the local variable sym_labels
   of _symmetry_expand) of the C04 record are NOT state: `norm` clears them
   before and after every packet; what a packet did is RETURNED as events.

   _expand_classes_for and _auto_search_rules are transcribed on top of the
   same pieces WITH the local variable last_label (the class of the previous
   packet is reused without asking the class database) and with the clock of
   Searcher/Slicing.v:  time.time() = packets handed out + extra,  extra
   advancing by a scripted amount at every has_specification() call. *)
From Coq Require Import ZArith List Bool.
From CSS Require Import Base.PyList ClassDB.Model Gen.Prelude Gen.ReverseShifts Searcher.Model Searcher.Slicing.
From CSS Require Queue.Model.
Import ListNotations.
Open Scope Z_scope.


(* what is NOT state: history and the local sym_labels *)
Definition norm (c : st) : st :=
  mkSt (cdb c) (tried c) (symexp c) (infexp c) [] (answers c) (rstore c) (estore c) (already c) [] (stat c).

Record sstate := mkSS { core : st; que : Queue.Model.queue }.

Inductive sevent :=
| SPacket (p : packet) (evs : list event)   (* the packet next(queue) handed out, and everything done for it, oldest first *)
| SDry                                      (* next(queue) raised StopIteration *)
| SDead.                                    (* the search has died before (exception); nothing happens any more *)

Definition is_packet (e : sevent) : bool := match e with SPacket _ _ => true | _ => false end.

Section Step.
Variable T : table.
Variable mode : Z.              (* 0 RuleDB / RuleDBForgetStrategy; 1 RuleDBForest(reverse=False); 2 RuleDBForest(reverse=True) *)
Variable F : nat.               (* recursion fuel of the C04 model *)
Variable expand_verified : bool.
Variable inferral_strategies : list Z.        (* tuple(pack.inferral_strats) *)
Variable initial_strategies : list Z.         (* tuple(pack.initial_strats) *)
Variable expansion_strats : list (list Z).    (* tuple(tuple(x) for x in pack.expansion_strats) *)

Notation qnext := (Queue.Model.next inferral_strategies initial_strategies expansion_strats).

(* a call the searcher (or RuleDBBase._clean_labels) makes on the queue *)
Definition q_apply (q : Queue.Model.queue) (e : event) : Queue.Model.queue :=
  match e with
  | EvQAdd l => Queue.Model.add inferral_strategies initial_strategies q l
  | EvQNotInf l => Queue.Model.set_not_inferrable q l
  | EvQStop l => Queue.Model.set_stop_yielding q l
  | _ => q
  end.

Definition to_packet (p : Queue.Model.packet) : packet := mkP (Queue.Model.p_label p) (Queue.Model.p_strats p) (Queue.Model.p_inf p).

(* the body of the for loop for the packet p; `last` = (last_label, comb_class) *)
Definition process (c : st) (last : option (Z * Z)) (p : packet) : st * option (Z * Z) * list event :=
  let '(c1, last') := packet_step T mode F false expand_verified (norm c, last) p in
  (norm c1, last', rev (trace c1)).

(* one turn of `for label, strategies, inferral in self.classqueue:` *)
Definition step_with (last : option (Z * Z)) (s : sstate) : sstate * option (Z * Z) * sevent :=
  let c := norm (core s) in
  if negb (running c) then (mkSS c (que s), last, SDead)
  else
    match qnext (que s) with
    | (Queue.Model.RPacket qp, q1) =>
        let p := to_packet qp in
        let '(c1, last', evs) := process c last p in
        (mkSS c1 (fold_left q_apply evs q1), last', SPacket p evs)
    | (Queue.Model.RStop, q1) => (mkSS c q1, last, SDry)
    | (_, q1) => (mkSS (fail 9 c) q1, last, SDead)    (* AssertionError inside the queue: unreachable (C16) *)
    end.

(* THE state machine: a turn of the loop that knows nothing about the previous one *)
Definition step (s : sstate) : sstate * sevent :=
  let '(s', _, e) := step_with None s in (s', e).

Fixpoint iterate (n : nat) (s : sstate) : sstate * list sevent :=
  match n with
  | O => (s, [])
  | S n' => let '(s1, e) := step s in
            let '(s2, es) := iterate n' s1 in (s2, e :: es)
  end.

(* ---------------------------------------------------------------- __init__ *)
Definition init_sstate (ans : list bool) (start : Z) : sstate * list event :=
  let c := searcher_init T mode F ans start in
  let evs := rev (trace c) in
  (mkSS (norm c) (fold_left q_apply evs (Queue.Model.init expansion_strats)), evs).

(* ------------------------------------------------- _expand_classes_for *)
Inductive xres :=
| XDone (expanding : bool)    (* the method returned (expanding, _) *)
| XDead                       (* an exception went through it *)
| XFuel.                      (* the model's loop bound was too small: unreachable (StepProofs.expand_loop_no_fuel) *)

(* the for loop; k = packets handed out so far (the clock), k0 = its value at
   expansion_start.  The clock is looked at AFTER the packet has been
   processed:  if time.time() - expansion_start > expansion_time: break *)
Fixpoint expand_loop (fuel : nat) (exp_time k0 : Z) (s : sstate) (last : option (Z * Z)) (k : Z)
  : sstate * Z * xres * list sevent :=
  match fuel with
  | O => (s, k, XFuel, [])
  | S f =>
      let '(s1, last1, e) := step_with last s in
      match e with
      | SDry => (s1, k, XDone false, [e])            (* for ... else: expanding = False *)
      | SDead => (s1, k, XDead, [e])
      | SPacket _ _ =>
          let k1 := k + 1 in
          if negb (running (core s1)) then (s1, k1, XDead, [e])
          else if exp_time <? k1 - k0 then (s1, k1, XDone true, [e])
          else let '(s2, k2, r, es) := expand_loop f exp_time k0 s1 last1 k1 in (s2, k2, r, e :: es)
      end
  end.

(* a slice of expansion_time e >= 0 processes at most e + 1 packets *)
Definition expand_classes_for (exp_time : Z) (s : sstate) (k : Z) : sstate * Z * xres * list sevent :=
  expand_loop (S (Z.to_nat exp_time)) exp_time k s None k.

(* ---------------------------------------------------- _auto_search_rules *)
Inductive outcome2 :=
| Ret (o : outcome)     (* Found / Exceeded / NotFound / OutOfFuel of Searcher/Slicing.v *)
| Crashed (k : Z).      (* an exception of the expansion went through auto_search *)

Section Auto.
Variable mult : Z.             (* 100 / perc *)
Variable maxt : option Z.      (* max_expansion_time *)

(* the while loop, exactly as Slicing.auto, with the state threaded through *)
Fixpoint auto_st (fuel : nat) (s : sstate) (k extra t0 exp_time : Z) (ds : list Z) (hs : list bool)
                 (calls : list Z) : outcome2 * list Z * Z * sstate * list sevent :=
  match fuel with
  | O => (Ret OutOfFuel, calls, extra, s, [])
  | S f =>
      let '(s1, k', r, es) := expand_classes_for exp_time s k in
      match r with
      | XDead | XFuel => (Crashed k', calls, extra, s1, es)
      | XDone expanding =>
          let d := hd 0 ds in
          let extra' := extra + d in                   (* has_specification() advances the clock *)
          let calls' := calls ++ [k'] in
          if hd false hs then (Ret (Found k'), calls', extra', s1, es)
          else if (match maxt with Some m => m <? (k' + extra') - t0 | None => false end)
               then (Ret (Exceeded k'), calls', extra', s1, es)
          else if expanding
               then let '(o, c2, x2, s2, es2) :=
                      auto_st f s1 k' extra' t0 (Z.min (mult * d) 3600) (tl ds) (tl hs) calls' in
                    (o, c2, x2, s2, es ++ es2)
               else (Ret (NotFound k'), calls', extra', s1, es)
      end
  end.

Definition auto_search_st (fuel : nat) (s : sstate) (k extra : Z) (ds : list Z) (hs : list bool)
  : outcome2 * list Z * Z * sstate * list sevent :=
  auto_st fuel s k extra (k + extra) 0 ds hs [].
End Auto.

(* successive calls of auto_search on the same searcher: (max_expansion_time,
   clock advances, has_specification answers) per call; each call starts where
   the previous one stopped, whatever it returned or raised *)
Definition call := (option Z * list Z * list bool)%type.

Definition end_count (o : outcome2) (k : Z) : Z :=
  match o with
  | Ret (Found x) | Ret (Exceeded x) | Ret (NotFound x) | Crashed x => x
  | Ret OutOfFuel => k
  end.

Fixpoint run_calls_st (mult : Z) (s : sstate) (k extra : Z) (cs : list call)
  : list (outcome2 * list Z * list sevent) * sstate * list sevent * Z * Z :=
  match cs with
  | [] => ([], s, [], k, extra)
  | (maxt, ds, hs) :: rest =>
      let '(o, pts, extra', s1, es) := auto_search_st mult maxt (S (S (length hs))) s k extra ds hs in
      let '(outs, s2, es2, k2, x2) := run_calls_st mult s1 (end_count o k) extra' rest in
      ((o, pts, es) :: outs, s2, es ++ es2, k2, x2)
  end.

End Step.

(* ------------------------------------------------------------------ members *)
(* the state as the record of members (+ environment) it is *)
Record members := mkM {
  m_classdb : @db Z;                                  (* classdb *)
  m_queue : Queue.Model.queue;                                  (* classqueue *)
  m_rules : list (Z * list Z);                        (* ruledb: keys of rule_to_strategy *)
  m_eqv_rules : list (Z * list Z);                    (*         keys of eqv_rule_to_strategy *)
  m_already_empty : list Z;                           (*         RuleDBForest._already_empty *)
  m_tried_to_verify : list Z;
  m_symmetry_expanded : list Z;
  m_inferral_expanded : list Z;
  m_env_answers : list bool;                          (* environment: ruledb.is_verified answers to come *)
  m_env_stat : status                                 (* environment: alive / how it died *)
}.

Definition members_of (s : sstate) : members :=
  let c := core s in
  mkM (cdb c) (que s) (rstore c) (estore c) (already c) (tried c) (symexp c) (infexp c) (answers c) (stat c).

Definition of_members (m : members) : sstate :=
  mkSS (mkSt (m_classdb m) (m_tried_to_verify m) (m_symmetry_expanded m) (m_inferral_expanded m) []
             (m_env_answers m) (m_rules m) (m_eqv_rules m) (m_already_empty m) [] (m_env_stat m))
       (m_queue m).
