(* C17: what was missing between the control-flow model, the state machine and the C04 theorems.

   1. FUEL.  `Slicing.auto` and `Step.auto_st` are fuelled loops whose OutOfFuel answer makes the
      control-flow theorems say `True`.  Here: an explicit bound on the fuel that excludes it.
        auto_search_fuel      fuel > n_avail - k          (one more than the packets the queue
                                                           can still hand out) suffices for Slicing.auto;
        auto_st_fuel /
        run_calls_no_out_of_fuel   the same for the state machine, where "the queue can hand out at
                              most N more packets" is the predicate packets_bounded s N; the fuel of a
                              call of run_calls_st is S (S (length hs)) (two more than the number of
                              has_specification answers of the script), so N <= S (length hs) suffices;
        packets_bounded_of_dry    how a bound is obtained: a run that reaches a turn that finds the queue
                              dry has seen all the packets there will ever be.
   2. THE C04 CONCLUSIONS FOR EVERY INTERRUPTED / RESUMED SEARCH.  Every event of every packet of
      every script of calls (time limits, clock, answers: arbitrary) is justified by the strategy table
      with respect to the class database the searcher ends with: run_calls_events_ok.  The proof reuses
      the C04 invariant per packet (Searcher/Proofs.packet_step_ok on the normalised state: the trace of
      one packet is exactly what `step` returns) and the monotonicity of labels (ev_ok_ext).
   3. THE CONTROL-FLOW MODEL IS THE STATE MACHINE'S CONTROL FLOW.  auto_st_refines: a call of the state
      machine that does not crash returns what Slicing.auto returns for n_avail := the packet count at
      which the state machine's queue ran dry (or anything not smaller than the packet count reached
      when it did not run dry during the call). *)
From Coq Require Import ZArith List Bool Lia.
From CSS Require Import Base.PyList ClassDB.Model ClassDB.Proofs Gen.Prelude Gen.ReverseShifts
  Searcher.Model Searcher.Inv Searcher.Contracts Searcher.ProofsCore Searcher.Proofs Searcher.Slicing Searcher.Step
  Searcher.StepProofs.
From CSS Require Queue.Model Queue.Termination Queue.Trace.
Import ListNotations.
Open Scope Z_scope.

(* ====================================================================== 1a. fuel of Slicing.auto *)
Section SlicingFuel.
Variable n_avail : Z.
Variable mult : Z.
Variable maxt : option Z.
Hypothesis mult_nonneg : 0 <= mult. (* in-section *)

Lemma auto_fuel : forall fuel k extra t0 e ds answers calls,
  0 <= e -> Forall (fun d => 0 <= d) ds -> (Z.to_nat (n_avail - k) < fuel)%nat ->
  fst (fst (auto n_avail mult maxt fuel k extra t0 e ds answers calls)) <> OutOfFuel.
Proof.
  induction fuel as [|f IH]; intros k extra t0 e ds answers calls He Hds Hf; [lia|].
  simpl. unfold expand_for.
  assert (0 <= hd 0 ds) as Hd by (destruct Hds; simpl; lia).
  assert (Forall (fun d => 0 <= d) (tl ds)) as Htl by (destruct Hds; simpl; auto).
  destruct (k + e + 1 <=? n_avail) eqn:E.
  - apply Z.leb_le in E.
    destruct (hd false answers); [simpl; discriminate|].
    destruct (match maxt with Some m => m <? k + e + 1 + (extra + hd 0 ds) - t0 | None => false end);
      [simpl; discriminate|].
    apply IH; auto.
    + apply Z.min_glb; [apply Z.mul_nonneg_nonneg; auto|lia].
    + lia.
  - destruct (hd false answers); [simpl; discriminate|].
    destruct (match maxt with Some m => m <? Z.max k n_avail + (extra + hd 0 ds) - t0 | None => false end);
      simpl; discriminate.
Qed.

Theorem auto_search_fuel : forall fuel k extra ds answers,
  Forall (fun d => 0 <= d) ds -> (Z.to_nat (n_avail - k) < fuel)%nat ->
  fst (fst (auto_search n_avail mult maxt fuel k extra ds answers)) <> OutOfFuel.
Proof.
  intros fuel k extra ds answers Hds Hf. unfold auto_search. apply auto_fuel; auto. lia.
Qed.

End SlicingFuel.

(* ====================================================================== the state machine *)
Section Resume.
Variable T : table.
Variable mode : Z.
Variable F : nat.
Variable expand_verified : bool.
Variable inferral_strategies : list Z.
Variable initial_strategies : list Z.
Variable expansion_strats : list (list Z).

Notation step_with := (step_with T mode F expand_verified inferral_strategies initial_strategies expansion_strats).
Notation step := (step T mode F expand_verified inferral_strategies initial_strategies expansion_strats).
Notation iterate := (iterate T mode F expand_verified inferral_strategies initial_strategies expansion_strats).
Notation process := (process T mode F expand_verified).
Notation expand_loop := (expand_loop T mode F expand_verified inferral_strategies initial_strategies expansion_strats).
Notation expand_classes_for := (expand_classes_for T mode F expand_verified inferral_strategies initial_strategies expansion_strats).
Notation auto_st := (auto_st T mode F expand_verified inferral_strategies initial_strategies expansion_strats).
Notation auto_search_st := (auto_search_st T mode F expand_verified inferral_strategies initial_strategies expansion_strats).
Notation run_calls_st := (run_calls_st T mode F expand_verified inferral_strategies initial_strategies expansion_strats).
Notation init_sstate := (init_sstate T mode F inferral_strategies initial_strategies expansion_strats).
Notation qnext := (Queue.Model.next inferral_strategies initial_strategies expansion_strats).
Notation Inv0 := (Inv T False Gtriv).

Definition npackets (es : list sevent) : nat := length (filter is_packet es).

Lemma npackets_app a b : npackets (a ++ b) = (npackets a + npackets b)%nat.
Proof. unfold npackets. rewrite filter_app, app_length. reflexivity. Qed.

(* "the queue hands out at most N more packets, whatever is done": a bound on the rest of the search *)
Definition packets_bounded (s : sstate) (N : nat) : Prop :=
  forall n s' es, iterate n s = (s', es) -> (npackets es <= N)%nat.

Lemma packets_bounded_after s N j s1 es1 :
  packets_bounded s N -> iterate j s = (s1, es1) -> packets_bounded s1 (N - npackets es1).
Proof.
  intros B H n s' es Hn.
  pose proof (iterate_app_events T mode F expand_verified inferral_strategies initial_strategies expansion_strats
                s j s1 es1 n s' es H Hn) as Hc.
  specialize (B _ _ _ Hc). rewrite npackets_app in B. lia.
Qed.

Lemma packets_bounded_mono s N M : packets_bounded s N -> (N <= M)%nat -> packets_bounded s M.
Proof. intros B L n s' es H. specialize (B _ _ _ H). lia. Qed.

(* iterating from a state on which a turn finds the queue dry: nothing but dry turns *)
Lemma iterate_dry n : forall s, step s = (s, SDry) -> iterate n s = (s, repeat SDry n).
Proof.
  induction n as [|n IH]; intros s H; simpl; [reflexivity|].
  rewrite H, (IH s H). reflexivity.
Qed.

Lemma npackets_repeat_dry n : npackets (repeat SDry n) = O.
Proof. induction n; simpl; auto. Qed.

Lemma iterate_prefix n : forall m s s' es, (n <= m)%nat -> iterate m s = (s', es) ->
  exists s1 es1 es2, iterate n s = (s1, es1) /\ es = es1 ++ es2.
Proof.
  intros m s s' es L H. replace m with (n + (m - n))%nat in H by lia.
  rewrite (iterate_add T mode F expand_verified inferral_strategies initial_strategies expansion_strats) in H.
  destruct (iterate n s) as [s1 es1]. destruct (iterate (m - n) s1) as [s2 es2].
  injection H as <- <-. exists s1, es1, es2. auto.
Qed.

(* how a bound is obtained: a run that has reached a turn that finds the queue dry has seen every
   packet there will ever be *)
Theorem packets_bounded_of_dry s m s1 es1 :
  iterate m s = (s1, es1) -> step s1 = (s1, SDry) -> packets_bounded s (npackets es1).
Proof.
  intros H Hd n s' es Hn.
  destruct (Nat.le_gt_cases n m) as [L|L].
  - destruct (iterate_prefix n m s s1 es1 L H) as (s2 & es2 & es3 & H2 & ->).
    rewrite Hn in H2. injection H2 as <- <-. rewrite npackets_app. lia.
  - replace n with (m + (n - m))%nat in Hn by lia.
    rewrite (iterate_add T mode F expand_verified inferral_strategies initial_strategies expansion_strats) in Hn.
    rewrite H, (iterate_dry (n - m) s1 Hd) in Hn. injection Hn as <- <-.
    rewrite npackets_app, npackets_repeat_dry. lia.
Qed.

(* a slice that ends with `expanding = True` consists of packets only, and of at least one *)
Lemma expand_loop_true fuel e k0 : forall s last k s' k' es,
  expand_loop fuel e k0 s last k = (s', k', XDone true, es) ->
  es <> [] /\ npackets es = length es.
Proof.
  induction fuel as [|f IH]; intros s last k s' k' es H; simpl in H; [discriminate|].
  destruct (step_with last s) as [[s1 last1] ev].
  destruct ev as [p evs| |]; try discriminate.
  destruct (negb (running (core s1))); [discriminate|].
  destruct (e <? k + 1 - k0).
  - injection H as _ _ <-. split; [discriminate|reflexivity].
  - destruct (expand_loop f e k0 s1 last1 (k + 1)) as [[[s2 k2] r2] es2] eqn:E2.
    injection H as _ _ -> <-. destruct (IH _ _ _ _ _ _ E2) as (_ & Hn).
    split; [discriminate|]. unfold npackets in *. simpl. rewrite Hn. reflexivity.
Qed.

Section AutoFuel.
Variable mult : Z.
Variable maxt : option Z.

(* enough fuel: more than the number of packets the queue can still hand out *)
Theorem auto_st_fuel : forall fuel N s k extra t0 e ds hs calls,
  Inv0 (core s) -> packets_bounded s N -> (N < fuel)%nat ->
  fst (fst (fst (fst (auto_st mult maxt fuel s k extra t0 e ds hs calls)))) <> Ret OutOfFuel.
Proof.
  induction fuel as [|f IH]; intros N s k extra t0 e ds hs calls I B Hf; [lia|].
  simpl.
  destruct (expand_classes_for e s k) as [[[s1 k1] r] es1] eqn:E1.
  destruct (expand_classes_for_iterate T mode F expand_verified inferral_strategies initial_strategies expansion_strats
              _ _ _ _ _ _ _ I E1) as (Hi & _).
  destruct r as [expanding| |]; try (simpl; discriminate).
  destruct (hd false hs); [simpl; discriminate|].
  destruct (match maxt with Some m => m <? k1 + (extra + hd 0 ds) - t0 | None => false end); [simpl; discriminate|].
  destruct expanding; [|simpl; discriminate].
  destruct (auto_st mult maxt f s1 k1 (extra + hd 0 ds) t0 (Z.min (mult * hd 0 ds) 3600) (tl ds) (tl hs) (calls ++ [k1]))
    as [[[[o2 c2] x2] s2] es2] eqn:E2.
  simpl.
  unfold Step.expand_classes_for in E1. destruct (expand_loop_true _ _ _ _ _ _ _ _ _ E1) as (Hne & Hall).
  assert (0 < length es1)%nat as Hpos by (destruct es1; [congruence|simpl; lia]).
  pose proof (B _ _ _ Hi) as Hb.
  assert (Inv0 (core s1)) as I1
    by (eapply (iterate_inv T mode F expand_verified inferral_strategies initial_strategies expansion_strats); eauto).
  pose proof (IH (N - npackets es1)%nat s1 k1 (extra + hd 0 ds) t0 (Z.min (mult * hd 0 ds) 3600) (tl ds) (tl hs)
                (calls ++ [k1]) I1 (packets_bounded_after s N _ _ _ B Hi) ltac:(lia)) as X.
  rewrite E2 in X. exact X.
Qed.

Theorem auto_search_st_fuel : forall fuel N s k extra ds hs,
  Inv0 (core s) -> packets_bounded s N -> (N < fuel)%nat ->
  fst (fst (fst (fst (auto_search_st mult maxt fuel s k extra ds hs)))) <> Ret OutOfFuel.
Proof. intros. unfold Step.auto_search_st. eapply auto_st_fuel; eauto. Qed.

End AutoFuel.

(* ... for a whole script of calls: the fuel run_calls_st gives a call is S (S (length hs)) *)
Theorem run_calls_no_out_of_fuel mult : forall cs N s k extra outs s' es k' extra',
  Inv0 (core s) -> packets_bounded s N ->
  Forall (fun c : call => (N <= S (length (snd c)))%nat) cs ->
  run_calls_st mult s k extra cs = (outs, s', es, k', extra') ->
  Forall (fun o => fst (fst o) <> Ret OutOfFuel) outs.
Proof.
  induction cs as [|[[maxt ds] hs] rest IH]; intros N s k extra outs s' es k' extra' I B Hc H; simpl in H.
  - injection H as <- _ _ _ _. constructor.
  - destruct (auto_search_st mult maxt (S (S (length hs))) s k extra ds hs) as [[[[o pts] x1] s1] es1] eqn:E1.
    destruct (run_calls_st mult s1 (end_count o k) x1 rest) as [[[[outs2 s2] es2] k2] x2] eqn:E2.
    injection H as <- _ _ _ _.
    inversion Hc as [|c l Hc1 Hc2]; subst. simpl in Hc1.
    pose proof (auto_search_st_fuel mult maxt (S (S (length hs))) N s k extra ds hs I B ltac:(lia)) as X.
    rewrite E1 in X. simpl in X.
    constructor; [exact X|].
    unfold Step.auto_search_st in E1.
    destruct (auto_st_iterate T mode F expand_verified inferral_strategies initial_strategies expansion_strats
                _ _ _ _ _ _ _ _ _ _ _ _ _ _ _ _ I E1) as (Hi & _).
    assert (Inv0 (core s1)) as I1
      by (eapply (iterate_inv T mode F expand_verified inferral_strategies initial_strategies expansion_strats); eauto).
    eapply (IH N); eauto.
    eapply packets_bounded_mono; [eapply packets_bounded_after; eauto|lia].
Qed.


(* ====================================================================== 3. Slicing.auto is auto_st's control flow *)
Definition allp (es : list sevent) : Prop := Forall (fun e => is_packet e = true) es.

Lemma allp_npackets es : allp es -> npackets es = length es.
Proof. induction 1 as [|e t He _ IH]; [reflexivity|]. unfold npackets in *. simpl. rewrite He. simpl. rewrite IH. reflexivity. Qed.

Lemma allp_no_dry es : allp es -> ~ In SDry es.
Proof. intros H Hin. unfold allp in H. rewrite Forall_forall in H. specialize (H _ Hin). discriminate. Qed.

(* the shape of a slice: exp_time + 1 packets (expanding), or fewer packets and then the dry queue *)
Lemma expand_loop_shape fuel e k0 : forall s last k s' k' r es,
  k - k0 <= e -> e - (k - k0) < Z.of_nat fuel ->
  expand_loop fuel e k0 s last k = (s', k', r, es) ->
  match r with
  | XDone true => allp es /\ k' = k0 + e + 1 /\ k' = k + Z.of_nat (length es)
  | XDone false => exists pk, es = pk ++ [SDry] /\ allp pk /\ k' = k + Z.of_nat (length pk) /\ k' - k0 <= e
  | _ => True
  end.
Proof.
  induction fuel as [|f IH]; intros s last k s' k' r es Hk Hf H; [lia|]. simpl in H.
  destruct (step_with last s) as [[s1 last1] ev].
  destruct ev as [p evs| |].
  - destruct (negb (running (core s1))); [injection H as _ _ <- _; exact I|].
    destruct (e <? k + 1 - k0) eqn:El.
    + injection H as _ <- <- <-. apply Z.ltb_lt in El.
      split; [repeat constructor|]. simpl. lia.
    + apply Z.ltb_ge in El.
      destruct (expand_loop f e k0 s1 last1 (k + 1)) as [[[s2 k2] r2] es2] eqn:E2.
      injection H as _ <- <- <-.
      assert (k + 1 - k0 <= e) as H1 by lia.
      assert (e - (k + 1 - k0) < Z.of_nat f) as H2 by lia.
      pose proof (IH _ _ _ _ _ _ _ H1 H2 E2) as X.
      destruct r2 as [[|]| |]; auto.
      * destruct X as (A & B & D). split; [constructor; auto|]. simpl length. lia.
      * destruct X as (pk & -> & A & B & D). exists (SPacket p evs :: pk).
        split; [reflexivity|]. split; [constructor; auto|]. simpl length. lia.
  - injection H as _ <- <- <-. exists []. split; [reflexivity|]. split; [constructor|]. simpl. lia.
  - injection H as _ _ <- _. exact I.
Qed.

Lemma expand_classes_for_shape e s k s' k' r es : 0 <= e ->
  expand_classes_for e s k = (s', k', r, es) ->
  match r with
  | XDone true => allp es /\ k' = k + e + 1 /\ Z.of_nat (length es) = e + 1
  | XDone false => exists pk, es = pk ++ [SDry] /\ allp pk /\ k' = k + Z.of_nat (length pk) /\ Z.of_nat (length pk) <= e
  | _ => True
  end.
Proof.
  intros He H. unfold Step.expand_classes_for in H.
  assert (k - k <= e) as H1 by lia.
  assert (e - (k - k) < Z.of_nat (S (Z.to_nat e))) as H2 by (rewrite Nat2Z.inj_succ, Z2Nat.id; lia).
  pose proof (expand_loop_shape _ _ _ _ _ _ _ _ _ _ H1 H2 H) as X.
  destruct r as [[|]| |]; auto.
  - destruct X as (A & B & D). csplit; auto; lia.
  - destruct X as (pk & E & A & B & D). exists pk. csplit; auto; lia.
Qed.

Definition is_dry (e : sevent) : bool := match e with SDry => true | _ => false end.
Definition has_dry (es : list sevent) : bool := existsb is_dry es.

Lemma has_dry_app a b : has_dry (a ++ b) = has_dry a || has_dry b.
Proof. apply existsb_app. Qed.
Lemma allp_has_dry es : allp es -> has_dry es = false.
Proof.
  induction 1 as [|e t He _ IH]; [reflexivity|]. unfold has_dry in *. simpl. rewrite IH.
  destruct e; simpl in *; auto; discriminate.
Qed.
Lemma has_dry_end pk : has_dry (pk ++ [SDry]) = true.
Proof. rewrite has_dry_app. simpl. apply orb_true_r. Qed.
Lemma npackets_end pk : npackets (pk ++ [SDry]) = npackets pk.
Proof. rewrite npackets_app. unfold npackets. simpl. lia. Qed.

(* n_avail describes the queue of the state machine during a call that starts at packet count k and
   produces the events es: the packet count at which the queue was found dry, or - when the call ended
   before that - any count not below the packets processed *)
Definition describes (n_avail k : Z) (es : list sevent) : Prop :=
  if has_dry es then n_avail = k + Z.of_nat (npackets es) else k + Z.of_nat (npackets es) <= n_avail.

Lemma describes_ge n_avail k es : describes n_avail k es -> k + Z.of_nat (npackets es) <= n_avail.
Proof. unfold describes. destruct (has_dry es); lia. Qed.

Section Refine.
Variable mult : Z.
Variable maxt : option Z.
Hypothesis mult_nonneg : 0 <= mult. (* in-section *)

Lemma auto_st_prefix f s k extra t0 e ds hs calls oo c x s' es s1 k1 r es1 :
  auto_st mult maxt (S f) s k extra t0 e ds hs calls = (oo, c, x, s', es) ->
  expand_classes_for e s k = (s1, k1, r, es1) -> exists rest, es = es1 ++ rest.
Proof.
  simpl. intros H E1. rewrite E1 in H.
  destruct r as [expanding| |]; try (injection H as _ _ _ _ <-; exists []; rewrite app_nil_r; reflexivity).
  destruct (hd false hs); [injection H as _ _ _ _ <-; exists []; rewrite app_nil_r; reflexivity|].
  destruct (match maxt with Some m => m <? k1 + (extra + hd 0 ds) - t0 | None => false end);
    [injection H as _ _ _ _ <-; exists []; rewrite app_nil_r; reflexivity|].
  destruct expanding.
  - destruct (auto_st mult maxt f s1 k1 (extra + hd 0 ds) t0 (Z.min (mult * hd 0 ds) 3600) (tl ds) (tl hs) (calls ++ [k1]))
      as [[[[o2 c2] x2] s2] es2].
    injection H as _ _ _ _ <-. exists es2. reflexivity.
  - injection H as _ _ _ _ <-. exists []. rewrite app_nil_r. reflexivity.
Qed.

(* a call of the state machine that returns or raises one of the library's two exceptions (no crash
   of the expansion) is the call of the control-flow model for the n_avail that describes its queue *)
Lemma auto_st_refines n_avail : forall fuel s k extra t0 e ds hs calls o calls' extra' s' es,
  0 <= e -> Forall (fun d => 0 <= d) ds ->
  auto_st mult maxt fuel s k extra t0 e ds hs calls = (Ret o, calls', extra', s', es) ->
  describes n_avail k es ->
  auto n_avail mult maxt fuel k extra t0 e ds hs calls = (o, calls', extra').
Proof.
  induction fuel as [|f IH]; intros s k extra t0 e ds hs calls o calls' extra' s' es He Hds H D.
  - simpl in H. injection H as <- <- <- _ _. reflexivity.
  - assert (0 <= hd 0 ds) as Hd by (destruct Hds; simpl; lia).
    assert (Forall (fun d => 0 <= d) (tl ds)) as Htl by (destruct Hds; simpl; auto).
    destruct (expand_classes_for e s k) as [[[s1 k1] r] es1] eqn:E1.
    destruct (auto_st_prefix _ _ _ _ _ _ _ _ _ _ _ _ _ _ _ _ _ _ H E1) as (rest & Hes).
    pose proof (expand_classes_for_shape _ _ _ _ _ _ _ He E1) as Sh.
    simpl in H. rewrite E1 in H. simpl. unfold expand_for.
    destruct r as [[|]| |]; try discriminate.
    + (* the slice was processed in full: exp_time + 1 packets *)
      destruct Sh as (A & -> & Hl).
      assert (k + e + 1 <= n_avail) as Hle.
      { pose proof (describes_ge _ _ _ D) as G. rewrite Hes, npackets_app, (allp_npackets _ A) in G. lia. }
      rewrite (proj2 (Z.leb_le _ _) Hle).
      destruct (hd false hs); [injection H as <- <- <- _ _; reflexivity|].
      destruct (match maxt with Some m => m <? k + e + 1 + (extra + hd 0 ds) - t0 | None => false end);
        [injection H as <- <- <- _ _; reflexivity|].
      destruct (auto_st mult maxt f s1 (k + e + 1) (extra + hd 0 ds) t0 (Z.min (mult * hd 0 ds) 3600) (tl ds) (tl hs)
                  (calls ++ [k + e + 1])) as [[[[o2 c2] x2] s2] es2] eqn:E2.
      injection H as -> <- <- _ <-.
      apply (IH s1 _ _ _ _ _ _ _ _ _ _ s2 es2); auto.
      * apply Z.min_glb; [apply Z.mul_nonneg_nonneg; auto|lia].
      * unfold describes in *. rewrite has_dry_app, (allp_has_dry _ A), npackets_app, (allp_npackets _ A) in D.
        simpl in D. destruct (has_dry es2); lia.
    + (* the queue ran dry during the slice: the call ends here *)
      destruct Sh as (pk & -> & A & -> & Hl).
      assert (rest = []) as ->.
      { destruct (hd false hs); [injection H as _ _ _ _ E; rewrite <- app_nil_r in E at 1; rewrite Hes in E;
                                 apply app_inv_head in E; auto|].
        destruct (match maxt with Some m => m <? k + Z.of_nat (length pk) + (extra + hd 0 ds) - t0 | None => false end);
          injection H as _ _ _ _ E; rewrite <- app_nil_r in E at 1; rewrite Hes in E; apply app_inv_head in E; auto. }
      rewrite app_nil_r in Hes. subst es.
      unfold describes in D. rewrite has_dry_end, npackets_end, (allp_npackets _ A) in D.
      assert (k + e + 1 <=? n_avail = false) as -> by (apply Z.leb_gt; lia).
      replace (Z.max k n_avail) with (k + Z.of_nat (length pk)) by lia.
      destruct (hd false hs); [injection H as <- <- <- _; reflexivity|].
      destruct (match maxt with Some m => m <? k + Z.of_nat (length pk) + (extra + hd 0 ds) - t0 | None => false end);
        injection H as <- <- <- _; reflexivity.
Qed.

Theorem auto_search_st_refines n_avail fuel s k extra ds hs o calls' extra' s' es :
  Forall (fun d => 0 <= d) ds ->
  auto_search_st mult maxt fuel s k extra ds hs = (Ret o, calls', extra', s', es) ->
  describes n_avail k es ->
  auto_search n_avail mult maxt fuel k extra ds hs = (o, calls', extra').
Proof.
  intros Hds H D. unfold Step.auto_search_st in H. unfold auto_search.
  eapply auto_st_refines; eauto. lia.
Qed.

(* hence the control-flow theorems of Slicing.v hold of the state machine's calls, with the queue's own
   exhaustion point in the place of the parameter n_avail *)
Lemma describes_self k es : describes (k + Z.of_nat (npackets es)) k es.
Proof. unfold describes. destruct (has_dry es); lia. Qed.

Theorem auto_search_st_control_flow fuel s k extra ds hs o calls' extra' s' es :
  Forall (fun d => 0 <= d) ds ->
  auto_search_st mult maxt fuel s k extra ds hs = (Ret o, calls', extra', s', es) ->
  let n := k + Z.of_nat (npackets es) in
  (forall x, In x calls' -> k <= x <= n) /\
  match o with
  | Found kf => last calls' k = kf /\ nth (length calls' - 1) hs false = true /\
                forall j, (j < length calls' - 1)%nat -> nth j hs false = false
  | Exceeded kf => last calls' k = kf /\ (forall j, (j < length calls')%nat -> nth j hs false = false) /\
                   exists m, maxt = Some m /\ m < kf + extra' - (k + extra)
  | NotFound kf => last calls' k = kf /\ (forall j, (j < length calls')%nat -> nth j hs false = false) /\
                   kf = n /\ exists pre, es = pre ++ [SDry]
  | OutOfFuel => True
  end.
Proof.
  intros Hds H n.
  pose proof (auto_search_st_refines n fuel s k extra ds hs o calls' extra' s' es Hds H (describes_self k es)) as R.
  assert (k <= n) as Hk by (unfold n; lia).
  destruct (resume_from n mult maxt mult_nonneg fuel k extra ds hs o calls' extra' Hk Hds R) as (A & B).
  split; [exact A|].
  destruct o as [kf|kf|kf|]; auto.
  - destruct B as (B1 & B2). csplit; auto.
    unfold auto_search in R.
    exact (exceeded_really n mult maxt fuel k extra (k + extra) 0 ds hs [] kf calls' extra' R).
  - destruct B as (B1 & B2). csplit; auto.
    + unfold auto_search in R.
      exact (notfound_exhausted n mult maxt mult_nonneg fuel k extra (k + extra) 0 ds hs [] kf calls' extra'
               (Z.le_refl 0) Hk Hds R).
    + unfold Step.auto_search_st in H.
      eapply (auto_st_notfound T mode F expand_verified inferral_strategies initial_strategies expansion_strats); eauto.
Qed.

End Refine.

(* ====================================================================== 2. the C04 conclusions *)
Section Faithful.
(* C switches the table contracts on, as in Searcher/Inv.v; `pack` = the strategies the queue may hand out
   (Searcher/Contracts.v: pe_contract speaks about the strategies whose rules go through add_rule); GP = a
   ghost predicate on (class database, the two rule stores, trace) as in Searcher/Inv.v, with the hypotheses
   Searcher/Proofs.v asks of it - and one more: it does not depend on the trace (G_forget), because the state
   machine forgets the history between two packets (`norm`).  Instances: Gtriv (below), and "the rule stores
   are those of a RuleDB reached by a history of justified adds" (Searcher/ResumeHist.v). *)
Variable C : Prop.
Variable pack : list Z.
Variable GP : @db Z -> list (Z * list Z) -> list (Z * list Z) -> list event -> Prop.
Hypothesis G_frame : C -> forall d d' r e tr, (* in-section *)
  @WF Z d -> @WF Z d' -> extends d d' -> EmptyOK (fun k : Z => k) (oracle T) d -> EmptyOK (fun k : Z => k) (oracle T) d' ->
  GP d r e tr -> GP d' r e tr.
Hypothesis G_skip : C -> forall ev d r e tr, neutral ev = true -> GP d r e tr -> GP d r e (ev :: tr). (* in-section *)
Hypothesis G_forest : C -> (mode =? 0) = false -> forall start ends sid parent d r e tr, (* in-section *)
  GP d r e tr -> GP d r e (EvAdd start ends sid parent :: tr).
Hypothesis G_base : C -> (mode =? 0) = true -> forall s sym start ends r, (* in-section *)
  Inv T C GP s -> rule_good T r -> (running s = true -> labelled T (used T C pack) (cdb s) sym start ends r) ->
  Gs GP s -> Gs GP (base_add T (emit (EvAdd start ends (r_sid r) (r_parent r)) s) start ends r).
Hypothesis G_init : C -> GP init [] [] []. (* in-section *)
Hypothesis G_forget : C -> forall d r e tr, GP d r e tr -> GP d r e []. (* in-section *)
Hypothesis pe_contract : C -> Contracts.pe_contract T pack. (* in-section *)
Hypothesis sym_contract : C -> Contracts.sym_contract T. (* in-section *)

Notation InvC := (Inv T C GP).
Notation WFd := (@WF Z).

(* every event of a packet is justified by the table w.r.t. the class database d *)
Definition sev_ok (d : @db Z) (e : sevent) : Prop :=
  match e with SPacket _ evs => Forall (ev_ok T C d) evs | _ => True end.
(* under the contracts: the packet carries strategies of the pack (what C04 asks of its packet list) *)
Definition sev_in_pack (e : sevent) : Prop :=
  match e with SPacket p _ => C -> incl (p_sids p) pack | _ => True end.

Lemma sev_ok_ext d d' e : WFd d -> WFd d' -> extends d d' -> sev_ok d e -> sev_ok d' e.
Proof.
  intros W W' X. destruct e as [p evs| |]; simpl; auto.
  intros H. eapply Forall_impl; [|exact H]. intros ev. apply ev_ok_ext; auto.
Qed.

(* the contracts are only ever used to conclude MORE: the invariant with contracts implies the one without *)
Lemma ev_ok_weaken d e : ev_ok T C d e -> ev_ok T False d e.
Proof.
  destruct e; simpl; auto.
  - intros (c & A & _). exists c. split; auto. intros [].
  - intros (A & ls & bs & B0 & B1 & B2 & B3 & B4 & _). split; auto. exists ls, bs. csplit; auto. intros [].
Qed.

Lemma Inv_weaken c : InvC c -> Inv0 c.
Proof.
  intros (W & _ & Fa & _). split; [exact W|split; [intros []|split; [|intros []]]].
  eapply Forall_impl; [|exact Fa]. intros e. apply ev_ok_weaken.
Qed.

Lemma InvC_norm c : InvC c -> InvC (norm c).
Proof.
  intros (W & E & _ & Gh). unfold Inv.Inv; simpl.
  split; [exact W|split; [exact E|split; [constructor|]]].
  intros HC. unfold Gs. simpl. apply (G_forget HC _ _ _ (trace c)). exact (Gh HC).
Qed.

(* one turn of the loop: the invariant is kept, the class database only grows, and the events the turn
   RETURNS are justified w.r.t. the class database it leaves *)
Lemma step_okC s s' e : InvC (core s) -> step s = (s', e) -> sev_in_pack e ->
  InvC (core s') /\ extends (cdb (core s)) (cdb (core s')) /\ sev_ok (cdb (core s')) e.
Proof.
  intros I H Hp. unfold Step.step, Step.step_with in H.
  pose proof (InvC_norm _ I) as In.
  destruct (negb (running (norm (core s)))).
  - injection H as <- <-. simpl. csplit; auto using extends_refl.
  - destruct (qnext (que s)) as [[qp| | |] q1].
    + unfold Step.process in H.
      destruct (packet_step T mode F false expand_verified (norm (norm (core s)), None) (to_packet qp))
        as [c1 l1] eqn:Ep.
      injection H as <- <-.
      assert (C -> incl (p_sids (to_packet qp)) pack) as Hp' by exact Hp.
      simpl. rewrite norm_idem in Ep.
      destruct (packet_step_ok T mode C pack GP G_frame G_skip G_forest G_base pe_contract sym_contract
                  F false expand_verified _ _ _ _ _ Hp' In
                  (fun l c (E : None = Some (l, c)) => match E with end) Ep) as ((I1 & X & _) & _).
      csplit; [apply InvC_norm; exact I1|exact X|].
      destruct I1 as (_ & _ & F1 & _). apply Forall_rev. exact F1.
    + injection H as <- <-. simpl. csplit; auto using extends_refl.
    + injection H as <- <-. simpl.
      destruct (fail_ok T C GP 9 _ In) as (I1 & X & _). csplit; auto.
    + injection H as <- <-. simpl.
      destruct (fail_ok T C GP 9 _ In) as (I1 & X & _). csplit; auto.
Qed.

Lemma iterate_okC n : forall s s' es, InvC (core s) -> iterate n s = (s', es) -> Forall sev_in_pack es ->
  InvC (core s') /\ extends (cdb (core s)) (cdb (core s')) /\ Forall (sev_ok (cdb (core s'))) es.
Proof.
  induction n as [|n IH]; intros s s' es I H Hp; simpl in H.
  - injection H as <- <-. csplit; auto using extends_refl.
  - destruct (step s) as [s1 e] eqn:E1. destruct (iterate n s1) as [s2 es2] eqn:E2.
    injection H as <- <-. inversion Hp as [|x l Hp1 Hp2]; subst.
    destruct (step_okC _ _ _ I E1 Hp1) as (I1 & X1 & O1).
    destruct (IH _ _ _ I1 E2 Hp2) as (I2 & X2 & O2).
    csplit; [exact I2|eapply extends_trans; eauto|].
    constructor; [|exact O2].
    destruct I1 as (W1 & _). destruct I2 as (W2 & _).
    exact (sev_ok_ext (cdb (core s1)) (cdb (core s2)) e W1 W2 X2 O1).
Qed.

(* ANY script of auto_search calls - time limits, clock, has_specification answers, interruptions,
   resumptions: the searcher's events are justified by the table w.r.t. the class database the calls leave *)
Theorem run_calls_events_ok mult : forall cs s k extra outs s' es k' extra',
  InvC (core s) -> run_calls_st mult s k extra cs = (outs, s', es, k', extra') -> Forall sev_in_pack es ->
  InvC (core s') /\ extends (cdb (core s)) (cdb (core s')) /\ Forall (sev_ok (cdb (core s'))) es.
Proof.
  intros cs s k extra outs s' es k' extra' I H Hp.
  pose proof (run_calls_iterate T mode F expand_verified inferral_strategies initial_strategies expansion_strats
                mult cs s k extra outs s' es k' extra' (Inv_weaken _ I) H) as Hi.
  eapply iterate_okC; eauto.
Qed.

(* __init__ *)
Lemma init_okC ans start :
  InvC (core (fst (init_sstate ans start))) /\
  Forall (ev_ok T C (cdb (core (fst (init_sstate ans start))))) (snd (init_sstate ans start)).
Proof.
  unfold Step.init_sstate. simpl.
  pose proof (searcher_init_ok T mode C pack GP G_frame G_skip G_forest G_base G_init pe_contract sym_contract
                F ans start) as I.
  split; [apply InvC_norm; exact I|]. destruct I as (_ & _ & Fa & _). apply Forall_rev. exact Fa.
Qed.

(* a search from __init__ through any script of calls: the events of __init__ and of every packet *)
Theorem search_events_ok mult ans start cs outs s' es k' extra' :
  run_calls_st mult (fst (init_sstate ans start)) 0 0 cs = (outs, s', es, k', extra') -> Forall sev_in_pack es ->
  InvC (core s') /\
  forall evs, (evs = snd (init_sstate ans start) \/ exists p, In (SPacket p evs) es) ->
  Forall (ev_ok T C (cdb (core s'))) evs.
Proof.
  intros H Hp. destruct (init_okC ans start) as (I0 & F0).
  destruct (run_calls_events_ok mult _ _ _ _ _ _ _ _ _ I0 H Hp) as (I' & X & O).
  split; [exact I'|]. intros evs [->|(p & Hin)].
  - destruct I0 as (W0 & _). destruct I' as (W' & _).
    eapply Forall_impl; [|exact F0]. intros e. apply ev_ok_ext; auto.
  - rewrite Forall_forall in O. exact (O _ Hin).
Qed.

End Faithful.

(* without contracts there is no condition on the packets *)
Lemma sev_in_pack_False es : Forall (sev_in_pack False []) es.
Proof. induction es as [|[p evs| |] t IH]; constructor; simpl; auto. intros []. Qed.

(* ---------------------------------------------------------------- the plain invariant (ghost predicate Gtriv) *)
Section FaithfulPlain.
Variable C : Prop.
Variable pack : list Z.
Hypothesis pe_contract : C -> Contracts.pe_contract T pack. (* in-section *)
Hypothesis sym_contract : C -> Contracts.sym_contract T. (* in-section *)

Definition run_calls_events_ok0 :=
  run_calls_events_ok C pack Gtriv (fun _ _ _ _ _ _ _ _ _ _ _ _ => Logic.I) (fun _ _ _ _ _ _ _ _ => Logic.I)
    (fun _ _ _ _ _ _ _ _ _ _ _ => Logic.I) (fun _ _ _ _ _ _ _ _ _ _ _ => Logic.I) (fun _ _ _ _ _ _ => Logic.I)
    pe_contract sym_contract.
Definition search_events_ok0 :=
  search_events_ok C pack Gtriv (fun _ _ _ _ _ _ _ _ _ _ _ _ => Logic.I) (fun _ _ _ _ _ _ _ _ => Logic.I)
    (fun _ _ _ _ _ _ _ _ _ _ _ => Logic.I) (fun _ _ _ _ _ _ _ _ _ _ _ => Logic.I) (fun _ => Logic.I)
    (fun _ _ _ _ _ _ => Logic.I) pe_contract sym_contract.
End FaithfulPlain.

End Resume.
