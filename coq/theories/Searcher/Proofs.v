(* Every function of the searcher model preserves the invariant of Inv.v. *)
From Coq Require Import ZArith List Bool Lia.
From CSS Require Import Base.PyList ClassDB.Model ClassDB.Proofs Gen.Prelude Gen.ReverseShifts
  Searcher.Model Searcher.Inv.
Import ListNotations.
Open Scope Z_scope.

Section Proofs.
Variable T : table.
Variable mode : Z.
Variable C : Prop.

Notation oracle := (oracle T).
Notation entry_of := (entry_of T).
Notation rules_from_strategy := (rules_from_strategy T).
Notation rule_children := (rule_children T).
Notation lbl := (label_of Z.eqb (fun c : Z => c)).
Notation Inv := (Inv T C).
Notation leq := (leq T C).
Notation ev_ok := (ev_ok T C).
Notation kids_sp := (kids_sp T).
Notation pe_of := (pe_of T).

(* the table contracts (only used where C holds) *)
Hypothesis pe_contract : C -> forall sid c e, (* in-section *)
  entry_of sid c = Some e -> pe_of sid = false -> forall k, In k (e_children e) -> oracle k = false.
Hypothesis sym_contract : C -> forall sid c r c0 rest, (* in-section *)
  In sid (t_sym T) -> In r (rules_from_strategy sid c) -> rule_children r = Some (c0 :: rest) ->
  oracle c0 = oracle c.

(* ---------------------------------------------------------- rule facts *)
(* state-independent facts about a rule object the model works with *)
Definition rule_good (r : rule) : Prop :=
  (r_kind r = REmpty /\ r_sid r = -1 /\ oracle (r_parent r) = true) \/
  (r_kind r <> REmpty /\ (exists sid0 c0, In r (rules_from_strategy sid0 c0)) /\
   forall cs, rule_children r = Some cs -> cs <> [r_parent r]).

Definition kids_lbl (d : @db Z) (kids : list (Z * Z)) : Prop :=
  Forall (fun cl => lbl d (fst cl) = Some (snd cl)) kids.
Definition RK (s : st) (kids : list (Z * Z)) : Prop := running s = true -> kids_lbl (cdb s) kids.

(* the labels handed to ruledb.add: those of all children (sym = false), or - from
   _symmetry_expand - of the first child only (sym = true) *)
Definition labelled0 (d : @db Z) (sym : bool) (start : Z) (ends : list Z) (r : rule) : Prop :=
  lbl d (r_parent r) = Some start /\
  exists cs, rule_children r = Some cs /\
    labels_of d (firstn (length ends) cs) ends /\
    (if sym then length ends = 1%nat /\ cs <> [] /\ sym_yielded T (r_sid r) (r_parent r)
     else length ends = length cs).
(* ... and where the rule object came from: a strategy applied to a class the database knows *)
Definition prov (d : @db Z) (r : rule) : Prop :=
  r_kind r = REmpty \/ exists sid0 c0 l0, In r (rules_from_strategy sid0 c0) /\ lbl d c0 = Some l0.
Definition labelled (d : @db Z) (sym : bool) (start : Z) (ends : list Z) (r : rule) : Prop :=
  labelled0 d sym start ends r /\ prov d r.

Definition ar_spec (ar : st -> Z -> list Z -> rule -> st) : Prop :=
  forall s start ends r, Inv s -> rule_good r ->
    (running s = true -> labelled (cdb s) false start ends r) -> leq s (ar s start ends r).

Lemma RK_leq s s' kids : Inv s -> leq s s' -> RK s kids -> RK s' kids.
Proof.
  intros I L H Hr. destruct I as (W & _). destruct L as ((W' & _) & X & R).
  specialize (H (R Hr)). unfold kids_lbl in *. eapply Forall_impl; [|exact H].
  intros [c l]; simpl. apply (lbl_ext _ _ _ _ W W' X).
Qed.

Lemma labelled_leq s s' sym start ends r : Inv s -> leq s s' ->
  (running s = true -> labelled (cdb s) sym start ends r) -> (running s' = true -> labelled (cdb s') sym start ends r).
Proof.
  intros I L H Hr. destruct I as (W & _). destruct L as ((W' & _) & X & R).
  destruct (H (R Hr)) as ((A & cs & B & D & E) & P). split.
  - split; [apply (lbl_ext _ _ _ _ W W' X); auto|].
    exists cs; csplit; auto. apply (labels_of_ext _ _ _ _ W W' X); auto.
  - destruct P as [P|(sid0 & c0 & l0 & P1 & P2)]; [left; auto|right].
    exists sid0, c0, l0; split; auto. apply (lbl_ext _ _ _ _ W W' X); auto.
Qed.

Lemma strat_of_neg : strat_of T (-1) = None.
Proof. reflexivity. Qed.

Lemma kids_sp_rule r cs : r_kind r <> REmpty -> rule_children r = Some cs ->
  kids_sp (r_sid r) (r_parent r) = cs /\ applies T (r_sid r) (r_parent r) = true.
Proof.
  unfold Model.rule_children, Inv.kids_sp, applies. intros Hk.
  destruct (r_kind r); try congruence; destruct (entry_of (r_sid r) (r_parent r)); simpl; intros [= <-]; auto.
Qed.

Lemma kids_sp_empty r : r_kind r = REmpty -> r_sid r = -1 ->
  rule_children r = Some [] /\ kids_sp (r_sid r) (r_parent r) = [].
Proof.
  intros Hk Hs. unfold Model.rule_children, Inv.kids_sp, Model.entry_of. rewrite Hk, Hs, strat_of_neg. auto.
Qed.

Lemma r_pe_of r : r_kind r <> REmpty -> r_pe T r = pe_of (r_sid r).
Proof. unfold r_pe, Inv.pe_of. destruct (r_kind r); congruence. Qed.

Lemma combine_firstn {A B} (P : A -> B -> Prop) (ends : list B) : forall cs : list A,
  Forall2 P (firstn (length ends) cs) ends -> Forall (fun cl => P (fst cl) (snd cl)) (combine cs ends).
Proof.
  induction ends as [|l t IH]; intros cs H.
  - destruct cs; constructor.
  - destruct cs as [|c cs']; simpl in *; [inversion H|].
    inversion H; subst. constructor; auto.
Qed.

Lemma firstn_length_le {A} (n : nat) (l : list A) : (n <= length l)%nat -> length (firstn n l) = n.
Proof. intros. rewrite firstn_length. lia. Qed.

Lemma Forall2_length' {A B} (P : A -> B -> Prop) l l' : Forall2 P l l' -> length l = length l'.
Proof. induction 1; simpl; auto. Qed.

Lemma labelled_add_ok d sym start ends r : rule_good r -> labelled d sym start ends r ->
  add_ok T d start ends (r_sid r) (r_parent r).
Proof.
  intros G ((A & cs & B & D & E) & P). unfold add_ok. split; auto.
  destruct G as [(Hk & Hs & Ho)|(Hk & Hy & Hn)].
  - destruct (kids_sp_empty r Hk Hs) as (B' & K). rewrite B' in B. injection B as <-.
    rewrite K. split; auto. left. csplit; auto.
    destruct sym; [destruct E as (E & F & _); congruence|destruct ends; simpl in *; auto; discriminate].
  - destruct (kids_sp_rule r cs Hk B) as (K & Ap). rewrite K. split; auto. right.
    csplit; auto.
    + destruct P as [P|(sid0 & c0 & l0 & P1 & P2)]; [contradiction|]. exists sid0, c0, l0, r; auto.
    + destruct sym; auto.
Qed.

(* ------------------------------------------ _expand_class_with_strategy *)
Lemma rule_kind_of_strategy sid c r : In r (rules_from_strategy sid c) -> r_kind r <> REmpty.
Proof.
  unfold Model.rules_from_strategy. destruct (strat_of T sid) as [x|]; [|intros []].
  destruct (s_kind x =? 1).
  - rewrite in_flat_map. intros (it & _ & Hin). unfold rules_of_item in Hin.
    destruct (i_on it); [destruct (i_lazy it)|];
      try (destruct (applies T (i_sid it) _) in Hin); simpl in Hin;
      try contradiction; destruct Hin as [<-|[]]; simpl; congruence.
  - destruct (applies T sid c); [|intros []]. intros [<-|[]]; simpl. destruct (s_kind x =? 2); congruence.
Qed.

Lemma label_rule_ok s c label r s' o :
  Inv s -> RL s c label -> (exists sid0, In r (rules_from_strategy sid0 c)) ->
  label_rule T s c label r = (s', o) ->
  leq s s' /\
  match o with
  | None => True
  | Some (start, ends) =>
      (forall cs, rule_children r = Some cs -> cs <> [r_parent r]) /\
      (running s' = true -> labelled (cdb s') false start ends r)
  end.
Proof.
  intros I Hl (sid0 & Hsid0). unfold label_rule. destruct (rule_children r) as [cs|] eqn:Ec.
  2:{ intros [= <- <-]. split; [apply leq_refl; auto|exact Logic.I]. }
  destruct (match cs with [c0] => r_parent r =? c0 | _ => false end) eqn:Eself.
  { intros [= <- <-]. split; [apply leq_refl; auto|exact Logic.I]. }
  destruct (get_labels T s cs) as [s1 ends] eqn:E1.
  destruct (get_labels_ok T C cs s s1 ends I E1) as (L1 & H1).
  assert (Inv s1) as I1 by (apply (leq_inv _ _ _ _ L1)).
  assert (cs <> [r_parent r]) as Hns.
  { intros ->. simpl in Eself. rewrite Z.eqb_refl in Eself. discriminate. }
  destruct (r_parent r =? c) eqn:Ep.
  - intros [= <- <-]. apply Z.eqb_eq in Ep. split; auto. split.
    + intros cs' Hc'. congruence.
    + intros Hr. pose proof (RL_leq T C s s1 c label I L1 Hl Hr) as Hc1. split.
      * split; [rewrite Ep; exact Hc1|].
        specialize (H1 Hr). pose proof (Forall2_length' _ _ _ H1) as Hlen.
        exists cs; csplit; auto. rewrite firstn_all2; [exact H1|lia].
      * right. exists sid0, c, label; auto.
  - destruct (get_label_c T s1 (r_parent r)) as [s2 start] eqn:E2.
    destruct (get_label_c_ok T C s1 (r_parent r) s2 start I1 E2) as (L2 & H2).
    intros [= <- <-]. split; [eapply leq_trans; eauto|]. split.
    + intros cs' Hc'. congruence.
    + intros Hr. split.
      * split; [apply H2; auto|].
        assert (labels_of (cdb s2) cs ends) as H1' by (apply (RLs_leq T C s1 s2 cs ends I1 L2 H1 Hr)).
        pose proof (Forall2_length' _ _ _ H1') as Hlen.
        exists cs; csplit; auto. rewrite firstn_all2; [exact H1'|lia].
      * right. exists sid0, c, label; split; auto.
        apply (RL_leq T C s1 s2 c label I1 L2 (RL_leq T C s s1 c label I L1 Hl) Hr).
Qed.

Lemma emit_cdb e s : cdb (emit e s) = cdb s.
Proof. unfold emit. destruct (running s); reflexivity. Qed.
Lemma emit_running e s : running (emit e s) = running s.
Proof. unfold emit. destruct (running s) eqn:R; auto. Qed.

Lemma emits_ok es : forall s, Inv s -> (running s = true -> Forall (ev_ok (cdb s)) es) -> leq s (emits es s).
Proof.
  induction es as [|e t IH]; intros s I H; simpl.
  - apply leq_refl; auto.
  - assert (leq s (emit e s)) as L.
    { apply emit_ok; auto. intros Hr. specialize (H Hr). inversion H; auto. }
    eapply leq_trans; [exact L|]. apply IH; [apply (leq_inv _ _ _ _ L)|].
    rewrite emit_running, emit_cdb. intros Hr. specialize (H Hr). inversion H; auto.
Qed.

(* for start_label, end_labels, rule in self._expand_class_with_strategy(...): body
   -- the body is only ever run in states later than s0 *)
Definition body_spec (s0 : st) (rules : list rule) (body : st -> Z -> list Z -> rule -> st) : Prop :=
  forall s start ends r, leq s0 s -> In r rules -> Inv s ->
    (forall cs, rule_children r = Some cs -> cs <> [r_parent r]) ->
    (running s = true -> labelled (cdb s) false start ends r) -> leq s (body s start ends r).

Lemma for_rules_ok s0 body sid0 c rules0 : body_spec s0 rules0 body -> incl rules0 (rules_from_strategy sid0 c) ->
  forall rules, incl rules rules0 -> forall s label, leq s0 s -> Inv s -> RL s c label ->
  leq s (for_rules T body s c label rules).
Proof.
  intros HB Hsub. induction rules as [|r t IH]; intros Hin s label L0 I Hl; simpl.
  - apply leq_refl; auto.
  - destruct (label_rule T s c label r) as [s1 o] eqn:E1.
    assert (exists sid1, In r (rules_from_strategy sid1 c)) as Hpr
      by (exists sid0; apply Hsub; apply Hin; left; auto).
    destruct (label_rule_ok s c label r s1 o I Hl Hpr E1) as (L1 & Ho).
    assert (Inv s1) as I1 by (apply (leq_inv _ _ _ _ L1)).
    assert (leq s0 s1) as L01 by (eapply leq_trans; eauto).
    assert (incl t rules0) as Hin' by (intros x Hx; apply Hin; right; auto).
    destruct o as [[start ends]|].
    + destruct Ho as (Hn & Hlab).
      assert (leq s1 (body s1 start ends r)) as L2.
      { apply HB; auto. apply Hin; left; auto. }
      eapply leq_trans; [exact L1|]. eapply leq_trans; [exact L2|].
      apply IH; auto.
      * eapply leq_trans; eauto.
      * apply (leq_inv _ _ _ _ L2).
      * apply (RL_leq T C s1 _ c label I1 L2). apply (RL_leq T C s s1 c label I L1 Hl).
    + eapply leq_trans; [exact L1|]. apply IH; auto. apply (RL_leq T C s s1 c label I L1 Hl).
Qed.

Lemma rule_good_of_strategy sid c r : In r (rules_from_strategy sid c) ->
  (forall cs, rule_children r = Some cs -> cs <> [r_parent r]) -> rule_good r.
Proof.
  intros Hin Hn. right. csplit; auto. eapply rule_kind_of_strategy; eauto. exists sid, c; auto.
Qed.

Lemma ar_body s0 sid c ar : ar_spec ar -> body_spec s0 (rules_from_strategy sid c) ar.
Proof.
  intros HA s start ends r _ Hin I Hn Hl. apply HA; auto. eapply rule_good_of_strategy; eauto.
Qed.

Lemma expand_with_ok ar s c sid label : ar_spec ar -> Inv s -> RL s c label ->
  leq s (expand_with T ar s c sid label).
Proof.
  intros HA I Hl. unfold expand_with.
  apply (for_rules_ok s ar sid c (rules_from_strategy sid c) (ar_body s sid c ar HA)); auto.
  apply incl_refl. apply incl_refl. apply leq_refl; auto.
Qed.

(* ------------------------------------------------------ RuleDBBase.add *)
Lemma clean_labels_ok pe kids : forall s s1 cl,
  Inv s -> RK s kids -> clean_labels T s pe kids = (s1, cl) ->
  leq s s1 /\
  exists bs, length bs = length kids /\ cl = map snd (select bs kids) /\
    (pe = false -> Forall (fun b => b = true) bs) /\
    (C -> running s1 = true -> bs = map (fun cl => negb (pe && oracle (fst cl))) kids).
Proof.
  induction kids as [|[c l] t IH]; intros s s1 cl I Hk; simpl.
  - intros [= <- <-]. split; [apply leq_refl; auto|]. exists []. csplit; auto.
  - assert (RK s t) as Hkt by (intros Hr; specialize (Hk Hr); inversion Hk; auto).
    assert (RL s c l) as Hcl by (intros Hr; specialize (Hk Hr); inversion Hk; auto).
    destruct pe.
    + destruct (is_empty_cl T s c (Some l)) as [s' b] eqn:E1.
      destruct (is_empty_cl_ok T C s c (Some l) s' b I) as (L1 & Hb); auto.
      { intros l0 [= <-]; auto. }
      assert (Inv s') as I1 by (apply (leq_inv _ _ _ _ L1)).
      destruct b.
      * assert (leq s' (emit (EvQStop l) s')) as L2 by (apply emit_ok; simpl; auto).
        intros E2. destruct (IH _ _ _ (leq_inv _ _ _ _ L2) (RK_leq _ _ _ I1 L2 (RK_leq _ _ _ I L1 Hkt)) E2)
          as (L3 & bs & Hlen & Hcl' & Hpe & HC).
        split; [eapply leq_trans; [exact L1|eapply leq_trans; eauto]|].
        exists (false :: bs). csplit; simpl; auto; try discriminate.
        intros HCC Hr. rewrite (HC HCC Hr). f_equal.
        assert (running s' = true) as Hr'.
        { destruct L3 as (_ & _ & R3). destruct L2 as (_ & _ & R2). auto. }
        rewrite <- (Hb HCC Hr'). reflexivity.
      * destruct (clean_labels T s' true t) as [s2 rest] eqn:E2. intros [= <- <-].
        destruct (IH _ _ _ I1 (RK_leq _ _ _ I L1 Hkt) E2) as (L3 & bs & Hlen & Hcl' & Hpe & HC).
        split; [eapply leq_trans; eauto|].
        exists (true :: bs). csplit; simpl; auto; try discriminate. rewrite Hcl'; auto.
        intros HCC Hr. rewrite (HC HCC Hr). f_equal.
        assert (running s' = true) as Hr' by (destruct L3 as (_ & _ & R3); auto).
        rewrite <- (Hb HCC Hr'). reflexivity.
    + destruct (clean_labels T s false t) as [s2 rest] eqn:E2. intros [= <- <-].
      destruct (IH _ _ _ I Hkt E2) as (L3 & bs & Hlen & Hcl' & Hpe & HC).
      split; auto. exists (true :: bs). csplit; simpl; auto. rewrite Hcl'; auto.
      intros HCC Hr. rewrite (HC HCC Hr). reflexivity.
Qed.

Lemma select_map_snd {A B} (bs : list bool) : forall (l : list (A * B)),
  map snd (select bs l) = select bs (map snd l).
Proof.
  induction bs as [|b t IH]; intros [|x l]; simpl; auto. destruct b; simpl; rewrite IH; auto.
Qed.

Lemma map_snd_combine {A B} (ends : list B) : forall (cs : list A),
  (length ends <= length cs)%nat -> map snd (combine cs ends) = ends.
Proof.
  induction ends as [|l t IH]; intros [|c cs] H; simpl in *; auto; try lia. rewrite IH; auto. lia.
Qed.

Lemma map_fst_combine {A B} (ends : list B) : forall (cs : list A),
  map fst (combine cs ends) = firstn (length ends) cs.
Proof.
  induction ends as [|l t IH]; intros [|c cs]; simpl in *; auto. rewrite IH; auto.
Qed.

Lemma labelled_kids d sym start ends r : labelled d sym start ends r ->
  kids_lbl d (combine (kids_of T r) ends) /\ (length ends <= length (kids_of T r))%nat.
Proof.
  intros ((A & cs & B & D & E) & _). unfold kids_of. rewrite B. split.
  - apply (combine_firstn (fun c l => lbl d c = Some l)); auto.
  - pose proof (Forall2_length' _ _ _ D) as Hl. rewrite firstn_length in Hl. lia.
Qed.

Lemma labelled_store_ok d sym start ends r bs :
  rule_good r -> labelled d sym start ends r ->
  length bs = length (combine (kids_of T r) ends) ->
  (r_pe T r = false -> Forall (fun b => b = true) bs) ->
  (C -> bs = map (fun cl => negb (r_pe T r && oracle (fst cl))) (combine (kids_of T r) ends)) ->
  store_ok T C d start (isort (map snd (select bs (combine (kids_of T r) ends)))) (r_sid r) (r_parent r).
Proof.
  intros G Hl Hlen Hpe HC. destruct (labelled_kids _ _ _ _ _ Hl) as (Hk & Hle).
  destruct Hl as ((A & cs & B & D & E) & _). split; auto.
  assert (kids_of T r = cs) as Ek by (unfold kids_of; rewrite B; auto). rewrite Ek in *.
  assert (kids_sp (r_sid r) (r_parent r) = cs /\ r_pe T r = pe_of (r_sid r) \/ cs = []) as Hsp.
  { destruct G as [(Hk1 & Hs & _)|(Hk1 & _)].
    - right. destruct (kids_sp_empty r Hk1 Hs) as (B' & _). congruence.
    - left. split; [apply (kids_sp_rule r cs Hk1 B)|apply r_pe_of; auto]. }
  exists ends, bs. rewrite select_map_snd, map_snd_combine by auto.
  rewrite combine_length in Hlen.
  destruct Hsp as [(Hsp & Hpe')|Hnil]; [|rewrite Hnil in *].
  - rewrite Hsp. csplit; auto; try lia.
    + rewrite <- Hpe'; auto.
    + intros HCC. rewrite (HC HCC), <- Hpe', <- map_fst_combine, map_map. reflexivity.
  - destruct ends; simpl in Hle; [|lia]. destruct bs; simpl in Hlen; [|lia].
    csplit; simpl; auto; try (destruct (kids_sp _ _); constructor).
Qed.

Lemma base_add_ok s sym start ends r : Inv s -> rule_good r ->
  (running s = true -> labelled (cdb s) sym start ends r) -> leq s (base_add T s start ends r).
Proof.
  intros I G Hl. unfold base_add.
  destruct (clean_labels T s (r_pe T r) (combine (kids_of T r) ends)) as [s1 cl] eqn:E1.
  assert (RK s (combine (kids_of T r) ends)) as Hk.
  { intros Hr. apply (labelled_kids _ _ _ _ _ (Hl Hr)). }
  destruct (clean_labels_ok _ _ _ _ _ I Hk E1) as (L1 & bs & Hlen & Hcl & Hpe & HC).
  assert (Inv s1) as I1 by (apply (leq_inv _ _ _ _ L1)).
  assert (forall eqv, running s1 = true ->
            ev_ok (cdb s1) (EvStore eqv start (isort cl) (r_sid r) (r_parent r))) as Hst.
  { intros eqv Hr. simpl. rewrite Hcl.
    apply (labelled_store_ok _ sym); auto. apply (labelled_leq s s1 sym start ends r I L1 Hl Hr). }
  assert (forall es, Forall (fun e => match e with EvStore _ a b c d => a = start /\ b = isort cl /\ c = r_sid r /\ d = r_parent r
                                    | EvAdd _ _ _ _ | EvSetEmpty _ _ => False | _ => True end) es ->
            leq s1 (emits es s1)) as Hem.
  { intros es Hes. apply emits_ok; auto. intros Hr. eapply Forall_impl; [|exact Hes].
    intros e. destruct e; simpl; auto; try contradiction. intros (-> & -> & -> & ->). apply (Hst eqv Hr). }
  set (ver := if is_ver r then [EvVerified start] else []).
  assert (Forall (fun e => match e with EvStore _ a b c d => a = start /\ b = isort cl /\ c = r_sid r /\ d = r_parent r
                         | EvAdd _ _ _ _ | EvSetEmpty _ _ => False | _ => True end) ver) as Hver.
  { unfold ver. destruct (is_ver r); repeat constructor. }
  assert (forall es rs es', Forall (fun e => match e with EvStore _ a b c d => a = start /\ b = isort cl /\ c = r_sid r /\ d = r_parent r
                                    | EvAdd _ _ _ _ | EvSetEmpty _ _ => False | _ => True end) es ->
            leq s1 (with_stores (emits es s1) rs es')) as Hfin.
  { intros es rs es' Hes. eapply leq_trans; [apply Hem; exact Hes|].
    apply with_stores_ok. apply (leq_inv _ _ _ _ (Hem _ Hes)). }
  eapply leq_trans; [exact L1|].
  destruct (isort cl) as [|e [|e2 t]] eqn:Es.
  - apply Hfin. apply Forall_app; split; [exact Hver|repeat constructor; auto].
  - destruct (r_two_way T r).
    + cbv zeta. apply Hfin. apply Forall_app; split; [exact Hver|].
      repeat match goal with |- context [if ?b then _ else _] => destruct b end;
        cbn [app]; repeat constructor; auto.
    + apply Hfin. apply Forall_app; split; [exact Hver|repeat constructor; auto].
  - apply Hfin. apply Forall_app; split; [exact Hver|repeat constructor; auto].
Qed.

(* ---------------------------------------------------- RuleDBForest.add *)
Lemma count_nonempty_ok cs : forall s s' n, Inv s -> count_nonempty T s cs = (s', n) -> leq s s'.
Proof.
  induction cs as [|c t IH]; intros s s' n I; simpl.
  - intros [= <- <-]. apply leq_refl; auto.
  - destruct (is_empty_cl T s c None) as [s1 b] eqn:E1.
    destruct (count_nonempty T s1 t) as [s2 m] eqn:E2. intros [= <- <-].
    destruct (is_empty_cl_ok T C s c None s1 b I) as (L1 & _); auto. { intros l0; discriminate. }
    eapply leq_trans; [exact L1|]. eapply IH; eauto. apply (leq_inv _ _ _ _ L1).
Qed.

Lemma plain_key_ok s normal p cs sh s' k : Inv s -> plain_key T s normal p cs sh = (s', k) ->
  leq s s' /\ match k with EvKey _ _ _ _ => True | _ => False end.
Proof.
  intros I. unfold plain_key.
  destruct (get_label_c T s p) as [s1 pl] eqn:E1.
  destruct (get_labels T s1 cs) as [s2 ls] eqn:E2.
  destruct (count_nonempty T s2 cs) as [s3 n] eqn:E3. intros [= <- <-].
  destruct (get_label_c_ok T C _ _ _ _ I E1) as (L1 & _).
  destruct (get_labels_ok T C _ _ _ _ (leq_inv _ _ _ _ L1) E2) as (L2 & _).
  pose proof (count_nonempty_ok _ _ _ _ (leq_inv _ _ _ _ L2) E3) as L3.
  split; auto. eapply leq_trans; [exact L1|eapply leq_trans; eauto].
Qed.

Lemma forest_key_ok s r s' k : Inv s -> forest_key T s r = (s', k) ->
  leq s s' /\ match k with EvKey _ _ _ _ => True | _ => False end.
Proof.
  intros I. unfold forest_key.
  assert (forall s' k, (let '(s1, pl) := get_label_c T s (r_parent r) in
             let '(s2, ls) := get_labels T s1 (kids_of T r) in (s2, EvKey pl ls (r_shifts T r) 3)) = (s', k) ->
          leq s s' /\ match k with EvKey _ _ _ _ => True | _ => False end) as Hv.
  { intros s0 k0. destruct (get_label_c T s (r_parent r)) as [s1 pl] eqn:E1.
    destruct (get_labels T s1 (kids_of T r)) as [s2 ls] eqn:E2. intros [= <- <-].
    destruct (get_label_c_ok T C _ _ _ _ I E1) as (L1 & _).
    destruct (get_labels_ok T C _ _ _ _ (leq_inv _ _ _ _ L1) E2) as (L2 & _).
    split; auto. eapply leq_trans; eauto. }
  destruct (r_kind r); auto. apply plain_key_ok; auto.
Qed.

Lemma reverse_keys_ok r idxs : forall s s' ks, Inv s -> reverse_keys T s r idxs = (s', ks) ->
  leq s s' /\ Forall (fun k => match k with EvKey _ _ _ _ => True | _ => False end) ks.
Proof.
  induction idxs as [|i t IH]; intros s s' ks I; simpl.
  - intros [= <- <-]. split; [apply leq_refl; auto|constructor].
  - destruct (plain_key T s false _ _ _) as [s1 k] eqn:E1.
    destruct (reverse_keys T s1 r t) as [s2 ks2] eqn:E2. intros [= <- <-].
    destruct (plain_key_ok _ _ _ _ _ _ _ I E1) as (L1 & Hk).
    destruct (IH _ _ _ (leq_inv _ _ _ _ L1) E2) as (L2 & Hks).
    split; [eapply leq_trans; eauto|constructor; auto].
Qed.

Lemma keys_ev_ok d ks : Forall (fun k => match k with EvKey _ _ _ _ => True | _ => False end) ks ->
  Forall (ev_ok d) ks.
Proof. intros H. eapply Forall_impl; [|exact H]. intros k. destruct k; simpl; auto; contradiction. Qed.

Lemma add_empty_rules_ok ar kids : ar_spec ar -> forall s, Inv s ->
  (running s = true -> Forall (fun lc => lbl (cdb s) (snd lc) = Some (fst lc)) kids) ->
  leq s (add_empty_rules T ar s kids).
Proof.
  intros HA. induction kids as [|[l c] t IH]; intros s I Hk; simpl.
  - apply leq_refl; auto.
  - assert (RL s c l) as Hcl by (intros Hr; specialize (Hk Hr); inversion Hk; auto).
    assert (forall s', leq s s' -> leq s (add_empty_rules T ar s' t)) as Hrest.
    { intros s' L. eapply leq_trans; [exact L|]. apply IH; [apply (leq_inv _ _ _ _ L)|].
      intros Hr. destruct I as (W & _). destruct L as ((W' & _) & X & R).
      specialize (Hk (R Hr)). inversion Hk; subst. eapply Forall_impl; [|eassumption].
      intros [l0 c0]; simpl. apply (lbl_ext _ _ _ _ W W' X). }
    apply Hrest.
    destruct (mem l (already s)); [apply leq_refl; auto|].
    destruct (is_empty_cl T s c (Some l)) as [s1 b] eqn:E1.
    destruct (is_empty_cl_ok T C s c (Some l) s1 b I) as (L1 & _); auto. { intros l0 [= <-]; auto. }
    assert (Inv s1) as I1 by (apply (leq_inv _ _ _ _ L1)).
    destruct b; auto.
    destruct (oracle c) eqn:Eo.
    + assert (leq s1 (add_already l s1)) as L2 by (apply add_already_ok; auto).
      eapply leq_trans; [exact L1|]. eapply leq_trans; [exact L2|].
      apply HA; [apply (leq_inv _ _ _ _ L2)|left; simpl; auto|].
      intros Hr. split; [split; simpl|left; reflexivity].
      * apply (RL_leq T C s1 _ c l I1 L2 (RL_leq T C s s1 c l I L1 Hcl) Hr).
      * exists []. csplit; auto. constructor.
    + eapply leq_trans; [exact L1|apply fail_ok; auto].
Qed.

Lemma combine_firstn' {A B} (P : A -> B -> Prop) (ends : list B) : forall cs : list A,
  Forall2 P (firstn (length ends) cs) ends -> Forall (fun lc => P (snd lc) (fst lc)) (combine ends cs).
Proof.
  induction ends as [|l t IH]; intros cs H.
  - constructor.
  - destruct cs as [|c cs']; simpl in *; [inversion H|].
    inversion H; subst. constructor; auto.
Qed.

Lemma forest_add_ok ar s sym start ends r : ar_spec ar -> Inv s -> rule_good r ->
  (running s = true -> labelled (cdb s) sym start ends r) -> leq s (forest_add T mode ar s start ends r).
Proof.
  intros HA I G Hl. unfold forest_add.
  set (s1 := if r_pe T r then add_empty_rules T ar s (combine ends (kids_of T r)) else s).
  assert (leq s s1) as L1.
  { unfold s1. destruct (r_pe T r); [|apply leq_refl; auto]. apply add_empty_rules_ok; auto.
    intros Hr. destruct (Hl Hr) as ((A & cs & B & D & E) & _). unfold kids_of. rewrite B.
    apply (combine_firstn' (fun c l => lbl (cdb s) c = Some l)); auto. }
  destruct (forest_key T s1 r) as [s2 k0] eqn:E2.
  destruct (forest_key_ok _ _ _ _ (leq_inv _ _ _ _ L1) E2) as (L2 & Hk0).
  assert (Inv s2) as I2 by (apply (leq_inv _ _ _ _ L2)).
  destruct ((mode =? 2) && r_reversible T r).
  - destruct (reverse_keys T s2 r _) as [s3 ks] eqn:E3.
    destruct (reverse_keys_ok _ _ _ _ _ I2 E3) as (L3 & Hks).
    eapply leq_trans; [exact L1|]. eapply leq_trans; [exact L2|]. eapply leq_trans; [exact L3|].
    apply emits_ok; [apply (leq_inv _ _ _ _ L3)|]. intros _. apply keys_ev_ok. constructor; auto.
  - eapply leq_trans; [exact L1|]. eapply leq_trans; [exact L2|].
    apply emits_ok; auto. intros _. apply keys_ev_ok. constructor; auto.
Qed.

(* self.ruledb.add(start, ends, rule) *)
Lemma ruledb_add_ok ar s sym start ends r : ar_spec ar -> Inv s -> rule_good r ->
  (running s = true -> labelled (cdb s) sym start ends r) -> leq s (ruledb_add T mode ar s start ends r).
Proof.
  intros HA I G Hl. unfold ruledb_add.
  assert (leq s (emit (EvAdd start ends (r_sid r) (r_parent r)) s)) as L0.
  { apply emit_ok; auto. intros Hr. simpl. eapply labelled_add_ok; eauto. }
  set (s0 := emit (EvAdd start ends (r_sid r) (r_parent r)) s) in *.
  assert (running s0 = true -> labelled (cdb s0) sym start ends r) as Hl0.
  { unfold s0. rewrite emit_running, emit_cdb. auto. }
  eapply leq_trans; [exact L0|].
  destruct (mode =? 0); [eapply base_add_ok|eapply forest_add_ok]; eauto; apply (leq_inv _ _ _ _ L0).
Qed.

(* ---------------------------------------------------- _symmetry_expand *)
Lemma fold_sids_ok (f : st -> Z -> st) (s0 : st) (sids0 : list Z) :
  (forall s sid, In sid sids0 -> leq s0 s -> Inv s -> leq s (f s sid)) ->
  forall sids, incl sids sids0 -> forall s, leq s0 s -> Inv s -> leq s (fold_left f sids s).
Proof.
  intros Hf. induction sids as [|sid t IH]; intros Hin s L0 I; simpl.
  - apply leq_refl; auto.
  - assert (leq s (f s sid)) as L1 by (apply Hf; auto; apply Hin; left; auto).
    eapply leq_trans; [exact L1|]. apply IH.
    + intros x Hx; apply Hin; right; auto.
    + eapply leq_trans; eauto.
    + apply (leq_inv _ _ _ _ L1).
Qed.

Lemma symmetry_expand_ok ar s c label : ar_spec ar -> Inv s -> RL s c label ->
  leq s (symmetry_expand T mode ar s c label).
Proof.
  intros HA I Hl. unfold symmetry_expand.
  assert (leq s (set_symacc [label] s)) as L0 by (apply set_symacc_ok; auto).
  set (s0 := set_symacc [label] s) in *.
  assert (Inv s0) as I0 by (apply (leq_inv _ _ _ _ L0)).
  destruct (is_empty_cl T s0 c (Some label)) as [s1 empty] eqn:E1.
  destruct (is_empty_cl_ok T C s0 c (Some label) s1 empty I0) as (L1 & Hb); auto.
  { intros l0 [= <-]. apply (RL_leq T C s s0 c label I L0 Hl). }
  assert (Inv s1) as I1 by (apply (leq_inv _ _ _ _ L1)).
  assert (RL s1 c label) as Hl1 by (apply (RL_leq T C s0 s1 c label I0 L1 (RL_leq T C s s0 c label I L0 Hl))).
  eapply leq_trans; [exact L0|]. eapply leq_trans; [exact L1|].
  match goal with |- leq s1 (flush_symacc (fold_left ?f _ _)) => set (F := f) end.
  assert (leq s1 (fold_left F (t_sym T) s1)) as L2.
  { apply (fold_sids_ok F s1 (t_sym T)); auto; [|apply incl_refl|apply leq_refl; auto].
    intros s2 sid Hsid L12 I2. unfold F, expand_with.
    eapply (for_rules_ok s1 _ sid c (rules_from_strategy sid c)); auto; [|apply incl_refl|apply incl_refl|].
    2:{ apply (RL_leq T C s1 s2 c label I1 L12 Hl1). }
    intros s3 start ends r L13 Hin I3 Hn Hlab.
    destruct ends as [|sl rest]; [apply fail_ok; auto|].
    (* the first child and its label *)
    assert (running s3 = true -> exists c0 cs', rule_children r = Some (c0 :: cs') /\ lbl (cdb s3) c0 = Some sl) as Hfirst.
    { intros Hr. destruct (Hlab Hr) as ((A & cs & B & D & E) & _). destruct cs as [|c0 cs']; simpl in D; inversion D; subst.
      exists c0, cs'; auto. }
    assert (leq s3 (set_empty_ev T s3 sl empty)) as La.
    { apply set_empty_ev_ok; auto. intros Hr. destruct (Hfirst Hr) as (c0 & cs' & B & Hc0).
      exists c0; split; auto. intros HC. rewrite (sym_contract HC sid c r c0 cs' Hsid Hin B).
      symmetry. apply Hb; auto. destruct L13 as (_ & _ & R). auto. }
    set (s4 := set_empty_ev T s3 sl empty) in *.
    assert (Inv s4) as I4 by (apply (leq_inv _ _ _ _ La)).
    assert (rule_good r) as G by (eapply rule_good_of_strategy; eauto).
    assert (leq s4 (ruledb_add T mode ar s4 start [sl] r)) as Lb.
    { apply (ruledb_add_ok ar s4 true); auto. intros Hr.
      assert (running s3 = true) as Hr3 by (destruct La as (_ & _ & R); auto).
      destruct (labelled_leq s3 s4 false start (sl :: rest) r I3 La Hlab Hr) as ((A & cs & B & D & E) & P).
      split; auto. split; auto. exists cs. csplit; auto.
      - destruct cs as [|c0 cs']; simpl in D; inversion D; subst. simpl. constructor; auto.
      - destruct cs; simpl in E; [discriminate|congruence].
      - exists sid, c, r; auto. }
    set (s5 := ruledb_add T mode ar s4 start [sl] r) in *.
    assert (leq s5 (emit (EvQStop sl) s5)) as Lc by (apply emit_ok; [apply (leq_inv _ _ _ _ Lb)|simpl; auto]).
    eapply leq_trans; [exact La|]. eapply leq_trans; [exact Lb|]. eapply leq_trans; [exact Lc|].
    apply set_symacc_ok. apply (leq_inv _ _ _ _ Lc). }
  eapply leq_trans; [exact L2|]. apply flush_symacc_ok. apply (leq_inv _ _ _ _ L2).
Qed.

(* ---------------------------------------------------------- try_verify *)
Lemma ver_loop_ok ar c label : ar_spec ar -> forall sids s, Inv s -> RL s c label ->
  leq s (ver_loop T ar s c label sids).
Proof.
  intros HA. induction sids as [|sid t IH]; intros s I Hl; simpl.
  - apply leq_refl; auto.
  - destruct (pop_answer s) as [s1 a] eqn:E1.
    pose proof (pop_answer_ok T C _ _ _ I E1) as L1. assert (Inv s1) as I1 by (apply (leq_inv _ _ _ _ L1)).
    destruct a; auto.
    assert (RL s1 c label) as Hl1 by (apply (RL_leq T C s s1 c label I L1 Hl)).
    assert (leq s1 (expand_with T ar s1 c sid label)) as L2 by (apply expand_with_ok; auto).
    eapply leq_trans; [exact L1|]. eapply leq_trans; [exact L2|].
    apply IH; [apply (leq_inv _ _ _ _ L2)|apply (RL_leq T C s1 _ c label I1 L2 Hl1)].
Qed.

Lemma try_verify_ok ar s c label : ar_spec ar -> Inv s -> RL s c label ->
  leq s (try_verify T ar s c label).
Proof.
  intros HA I Hl. unfold try_verify. destruct (mem label (tried s)); [apply leq_refl; auto|].
  assert (leq s (add_tried label s)) as L0 by (apply add_tried_ok; auto).
  set (s0 := add_tried label s) in *. assert (Inv s0) as I0 by (apply (leq_inv _ _ _ _ L0)).
  assert (RL s0 c label) as Hl0 by (apply (RL_leq T C s s0 c label I L0 Hl)).
  destruct (is_empty_cl T s0 c (Some label)) as [s1 b] eqn:E1.
  destruct (is_empty_cl_ok T C s0 c (Some label) s1 b I0) as (L1 & _); auto. { intros l0 [= <-]; auto. }
  eapply leq_trans; [exact L0|]. destruct b; auto. eapply leq_trans; [exact L1|].
  apply ver_loop_ok; auto. apply (leq_inv _ _ _ _ L1). apply (RL_leq T C s0 s1 c label I0 L1 Hl0).
Qed.

(* ------------------------------------------------------------ add_rule *)
Lemma child_step_ok ar r s c l : ar_spec ar -> Inv s -> RL s c l ->
  (C -> r_pe T r = false -> oracle c = false) -> leq s (child_step T mode ar r s (c, l)).
Proof.
  intros HA I Hl Hpe. unfold child_step.
  set (s1 := if r_pe T r then s else set_empty_ev T s l false).
  assert (leq s s1) as L1.
  { unfold s1. destruct (r_pe T r) eqn:Ep; [apply leq_refl; auto|]. apply set_empty_ev_ok; auto.
    intros Hr. exists c; split; auto. }
  assert (Inv s1) as I1 by (apply (leq_inv _ _ _ _ L1)).
  assert (RL s1 c l) as Hl1 by (apply (RL_leq T C s s1 c l I L1 Hl)).
  set (s2 := if has_sym T && negb (mem l (symexp s1)) then symmetry_expand T mode ar s1 c l else s1).
  assert (leq s1 s2) as L2.
  { unfold s2. destruct (has_sym T && negb (mem l (symexp s1))); [apply symmetry_expand_ok; auto|apply leq_refl; auto]. }
  assert (Inv s2) as I2 by (apply (leq_inv _ _ _ _ L2)).
  set (s3 := if r_work T r then emit (EvQAdd l) s2 else s2).
  assert (leq s2 s3) as L3.
  { unfold s3. destruct (r_work T r); [apply emit_ok; simpl; auto|apply leq_refl; auto]. }
  assert (Inv s3) as I3 by (apply (leq_inv _ _ _ _ L3)).
  set (s4 := if r_inf T r then s3 else emit (EvQNotInf l) s3).
  assert (leq s3 s4) as L4.
  { unfold s4. destruct (r_inf T r); [apply leq_refl; auto|apply emit_ok; simpl; auto]. }
  assert (Inv s4) as I4 by (apply (leq_inv _ _ _ _ L4)).
  eapply leq_trans; [exact L1|]. eapply leq_trans; [exact L2|]. eapply leq_trans; [exact L3|].
  eapply leq_trans; [exact L4|]. apply try_verify_ok; auto.
  apply (RL_leq T C s3 s4 c l I3 L4). apply (RL_leq T C s2 s3 c l I2 L3). apply (RL_leq T C s1 s2 c l I1 L2 Hl1).
Qed.

Lemma fold_child_ok ar r : ar_spec ar -> forall kids s, Inv s -> RK s kids ->
  (C -> r_pe T r = false -> Forall (fun cl => oracle (fst cl) = false) kids) ->
  leq s (fold_left (child_step T mode ar r) kids s).
Proof.
  intros HA. induction kids as [|[c l] t IH]; intros s I Hk Hpe; simpl.
  - apply leq_refl; auto.
  - assert (leq s (child_step T mode ar r s (c, l))) as L1.
    { apply child_step_ok; auto.
      - intros Hr. specialize (Hk Hr). inversion Hk; auto.
      - intros HC Hp. specialize (Hpe HC Hp). inversion Hpe; auto. }
    eapply leq_trans; [exact L1|]. apply IH.
    + apply (leq_inv _ _ _ _ L1).
    + apply (RK_leq s _ t I L1). intros Hr. specialize (Hk Hr). inversion Hk; auto.
    + intros HC Hp. specialize (Hpe HC Hp). inversion Hpe; auto.
Qed.

Lemma add_rule_ok n : ar_spec (add_rule T mode n).
Proof.
  induction n as [|n IH]; intros s start ends r I G Hl; simpl.
  - apply out_of_fuel_ok; auto.
  - destruct (rule_children r) as [cs|] eqn:Ec; [|apply fail_ok; auto].
    assert (leq s (fold_left (child_step T mode (add_rule T mode n) r) (combine cs ends) s)) as L1.
    { apply fold_child_ok; auto.
      - intros Hr. destruct (labelled_kids _ _ _ _ _ (Hl Hr)) as (Hk & _). unfold kids_of in Hk. rewrite Ec in Hk. auto.
      - intros HC Hp. apply Forall_forall. intros [c l] Hin. simpl. apply in_combine_l in Hin.
        destruct G as [(Hk & Hs & _)|(Hk & _)].
        + destruct (kids_sp_empty r Hk Hs) as (B & _). rewrite B in Ec. injection Ec as <-. destruct Hin.
        + rewrite (r_pe_of r Hk) in Hp.
          unfold Model.rule_children in Ec.
          destruct (r_kind r); try congruence;
            destruct (entry_of (r_sid r) (r_parent r)) as [e|] eqn:Ee; simpl in Ec; try discriminate;
            injection Ec as <-; eapply pe_contract; eauto. }
    set (s1 := fold_left (child_step T mode (add_rule T mode n) r) (combine cs ends) s) in *.
    assert (Inv s1) as I1 by (apply (leq_inv _ _ _ _ L1)).
    set (s2 := if r_ip T r then emit (EvQStop start) s1 else s1).
    assert (leq s1 s2) as L2.
    { unfold s2. destruct (r_ip T r); [apply emit_ok; simpl; auto|apply leq_refl; auto]. }
    eapply leq_trans; [exact L1|]. eapply leq_trans; [exact L2|].
    apply (ruledb_add_ok _ s2 false); auto. apply (leq_inv _ _ _ _ L2).
    apply (labelled_leq s1 s2 false start ends r I1 L2). apply (labelled_leq s s1 false start ends r I L1 Hl).
Qed.

(* ---------------------------------------------------- _inferral_expand *)
Lemma first_rule_ok sid0 c rules : incl rules (rules_from_strategy sid0 c) ->
  forall s label s' o, Inv s -> RL s c label ->
  first_rule T s c label rules = (s', o) ->
  leq s s' /\
  match o with
  | None => True
  | Some (start, ends, r) =>
      In r rules /\ (forall cs, rule_children r = Some cs -> cs <> [r_parent r]) /\
      (running s' = true -> labelled (cdb s') false start ends r)
  end.
Proof.
  induction rules as [|r t IH]; intros Hsub s label s' o I Hl; simpl.
  - intros [= <- <-]. split; [apply leq_refl; auto|exact Logic.I].
  - destruct (label_rule T s c label r) as [s1 o1] eqn:E1.
    assert (exists sid1, In r (rules_from_strategy sid1 c)) as Hpr by (exists sid0; apply Hsub; left; auto).
    assert (incl t (rules_from_strategy sid0 c)) as Hsub' by (intros x Hx; apply Hsub; right; auto).
    destruct (label_rule_ok s c label r s1 o1 I Hl Hpr E1) as (L1 & Ho).
    destruct o1 as [[start ends]|].
    + intros [= <- <-]. destruct Ho as (Hn & Hlab). split; auto.
    + intros E2. destruct (IH Hsub' _ _ _ _ (leq_inv _ _ _ _ L1) (RL_leq T C s s1 c label I L1 Hl) E2) as (L2 & Ho2).
      split; [eapply leq_trans; eauto|]. destruct o as [[[start ends] r0]|]; auto.
      destruct Ho2 as (A & B & D). csplit; auto.
Qed.

Definition rec_spec (rec : st -> Z -> Z -> list Z -> option Z -> st) : Prop :=
  forall s c label sids skip, Inv s -> RL s c label -> leq s (rec s c label sids skip).

Lemma inf_loop_ok F rec c label all skip : rec_spec rec ->
  forall rest i s, Inv s -> RL s c label -> leq s (inf_loop T mode F rec s c label all i rest skip).
Proof.
  intros HR. induction rest as [|sid t IH]; intros i s I Hl; simpl.
  - apply leq_refl; auto.
  - destruct (skip_eqb skip sid); [apply IH; auto|].
    destruct (first_rule T s c label (rules_from_strategy sid c)) as [s1 o] eqn:E1.
    destruct (first_rule_ok sid c _ (incl_refl _) _ _ _ _ I Hl E1) as (L1 & Ho).
    assert (Inv s1) as I1 by (apply (leq_inv _ _ _ _ L1)).
    eapply leq_trans; [exact L1|].
    destruct o as [[[start ends] r]|].
    2:{ apply IH; auto. apply (RL_leq T C s s1 c label I L1 Hl). }
    destruct Ho as (Hin & Hn & Hlab).
    assert (rule_good r) as G by (eapply rule_good_of_strategy; eauto).
    destruct (rule_children r) as [[|ic cs']|] eqn:Ec; try (apply fail_ok; auto).
    destruct ends as [|il rest']; [apply fail_ok; auto|].
    assert (leq s1 (add_rule T mode F s1 start (il :: rest') r)) as L2.
    { apply add_rule_ok; auto. }
    set (s2 := add_rule T mode F s1 start (il :: rest') r) in *.
    assert (Inv s2) as I2 by (apply (leq_inv _ _ _ _ L2)).
    assert (leq s2 (emit (EvQNotInf start) s2)) as L3 by (apply emit_ok; simpl; auto).
    eapply leq_trans; [exact L2|]. eapply leq_trans; [exact L3|].
    apply HR; [apply (leq_inv _ _ _ _ L3)|].
    apply (RL_leq T C s2 _ ic il I2 L3). apply (RL_leq T C s1 s2 ic il I1 L2).
    intros Hr. destruct (Hlab Hr) as ((A & cs & B & D & E) & _). rewrite Ec in B. injection B as <-.
    simpl in D. inversion D; auto.
Qed.

Lemma inferral_expand_ok F n : rec_spec (inferral_expand T mode F n).
Proof.
  induction n as [|n IH]; intros s c label sids skip I Hl; simpl.
  - apply out_of_fuel_ok; auto.
  - destruct (mem label (infexp s)); [apply leq_refl; auto|].
    assert (leq s (add_infexp label s)) as L0 by (apply add_infexp_ok; auto).
    set (s0 := add_infexp label s) in *. assert (Inv s0) as I0 by (apply (leq_inv _ _ _ _ L0)).
    assert (leq s0 (inf_loop T mode F (inferral_expand T mode F n) s0 c label sids 0 sids skip)) as L1.
    { apply inf_loop_ok; auto. apply (RL_leq T C s s0 c label I L0 Hl). }
    eapply leq_trans; [exact L0|]. eapply leq_trans; [exact L1|].
    apply emit_ok; [apply (leq_inv _ _ _ _ L1)|simpl; auto].
Qed.

(* -------------------------------------------------------------- _expand *)
Lemma expand_ok F s c label sids inferral : Inv s -> RL s c label ->
  leq s (expand T mode F s c label sids inferral).
Proof.
  intros I Hl. unfold expand. destruct inferral; [apply inferral_expand_ok; auto|].
  apply (fold_sids_ok _ s sids); auto; [|apply incl_refl|apply leq_refl; auto].
  intros s1 sid _ L1 I1. apply expand_with_ok; auto. apply add_rule_ok.
  apply (RL_leq T C s s1 c label I L1 Hl).
Qed.

Definition last_ok (s : st) (last : option (Z * Z)) : Prop :=
  forall l c, last = Some (l, c) -> RL s c l.

Lemma packet_step_ok F dl ev s last p s' last' : Inv s -> last_ok s last ->
  packet_step T mode F dl ev (s, last) p = (s', last') -> leq s s' /\ last_ok s' last'.
Proof.
  intros I Hlast. unfold packet_step. destruct dl.
  - destruct (get_class_l T s (p_label p)) as [s1 c] eqn:E1.
    destruct (get_class_l_ok T C _ _ _ _ I E1) as (L1 & Hl1).
    assert (leq s1 (expand T mode F s1 c (p_label p) (p_sids p) (p_inferral p))) as L2
      by (apply expand_ok; auto; apply (leq_inv _ _ _ _ L1)).
    intros [= <- <-]. split; [eapply leq_trans; eauto|].
    intros l0 c0 E. apply (RL_leq T C s _ c0 l0 I); [eapply leq_trans; eauto|eapply Hlast; eauto].
  - set (g := match last with
              | Some (ll, lc) => if p_label p =? ll then (s, lc) else get_class_l T s (p_label p)
              | None => get_class_l T s (p_label p) end).
    assert (forall s1 c, g = (s1, c) -> leq s s1 /\ RL s1 c (p_label p)) as Hg.
    { intros s1 c. unfold g. destruct last as [[ll lc]|]; [|apply get_class_l_ok; auto].
      destruct (p_label p =? ll) eqn:El; [|apply get_class_l_ok; auto].
      intros [= <- <-]. apply Z.eqb_eq in El. split; [apply leq_refl; auto|]. rewrite El. eapply Hlast; eauto. }
    destruct g as [s1 c]. destruct (Hg s1 c eq_refl) as (L1 & Hl1).
    assert (Inv s1) as I1 by (apply (leq_inv _ _ _ _ L1)).
    set (h := if ev then (s1, true) else let '(s2, a) := pop_answer s1 in (s2, negb a)).
    assert (forall s2 go, h = (s2, go) -> leq s1 s2) as Hh.
    { intros s2 go. unfold h. destruct ev; [intros [= <- <-]; apply leq_refl; auto|].
      destruct (pop_answer s1) as [s2' a] eqn:E2. intros [= <- <-]. eapply pop_answer_ok; eauto. }
    destruct h as [s2 go]. pose proof (Hh s2 go eq_refl) as L2.
    assert (Inv s2) as I2 by (apply (leq_inv _ _ _ _ L2)).
    assert (RL s2 c (p_label p)) as Hl2 by (apply (RL_leq T C s1 s2 c _ I1 L2 Hl1)).
    set (s3 := if go then expand T mode F s2 c (p_label p) (p_sids p) (p_inferral p) else s2).
    assert (leq s2 s3) as L3.
    { unfold s3. destruct go; [apply expand_ok; auto|apply leq_refl; auto]. }
    intros [= <- <-]. split; [eapply leq_trans; [exact L1|eapply leq_trans; eauto]|].
    intros l0 c0 [= <- <-]. apply (RL_leq T C s2 s3 c _ I2 L3 Hl2).
Qed.

Lemma fold_packets_ok F dl ev ps : forall s last, Inv s -> last_ok s last ->
  let r := fold_left (packet_step T mode F dl ev) ps (s, last) in
  leq s (fst r) /\ last_ok (fst r) (snd r).
Proof.
  induction ps as [|p t IH]; intros s last I Hlast; cbn [fold_left].
  - simpl. split; [apply leq_refl; auto|auto].
  - destruct (packet_step T mode F dl ev (s, last) p) as [s1 last1] eqn:E1.
    destruct (packet_step_ok _ _ _ _ _ _ _ _ I Hlast E1) as (L1 & Hl1).
    destruct (IH s1 last1 (leq_inv _ _ _ _ L1) Hl1) as (L2 & Hl2).
    split; auto. eapply leq_trans; eauto.
Qed.

Lemma run_packets_ok F dl ev ps s last : Inv s -> last_ok s last ->
  leq s (run_packets T mode F dl ev s last ps).
Proof. intros I Hl. apply (fold_packets_ok F dl ev ps s last I Hl). Qed.

Lemma Inv_init ans : Inv (init_state ans).
Proof.
  unfold Inv.Inv, init_state; simpl. csplit.
  - apply WF_init.
  - intros _. apply EmptyOK_init.
  - constructor.
Qed.

Lemma empty_start_ok F s start sl : Inv s -> RL s start sl -> leq s (empty_start T mode F s start sl).
Proof.
  intros I Hl. unfold empty_start.
  destruct (is_empty_cl T s start (Some sl)) as [s1 e] eqn:E1.
  destruct (is_empty_cl_ok T C s start (Some sl) s1 e I) as (L1 & _); auto. { intros l0 [= <-]; auto. }
  assert (Inv s1) as I1 by (apply (leq_inv _ _ _ _ L1)).
  destruct e; auto.
  assert (leq s1 (emit (EvQStop sl) s1)) as L2 by (apply emit_ok; simpl; auto).
  set (s2 := emit (EvQStop sl) s1) in *. assert (Inv s2) as I2 by (apply (leq_inv _ _ _ _ L2)).
  eapply leq_trans; [exact L1|]. eapply leq_trans; [exact L2|].
  destruct (oracle start) eqn:Eo; [|apply fail_ok; auto].
  apply add_rule_ok; auto; [left; simpl; auto|].
  intros Hr. split; [split; simpl|left; reflexivity].
  - apply (RL_leq T C s1 s2 start sl I1 L2 (RL_leq T C s s1 start sl I L1 Hl) Hr).
  - exists []. csplit; auto. constructor.
Qed.

Lemma searcher_init_ok F ans start : Inv (searcher_init T mode F ans start).
Proof.
  unfold searcher_init.
  destruct (get_label_c T (init_state ans) start) as [s1 sl] eqn:E1.
  destruct (get_label_c_ok T C _ _ _ _ (Inv_init ans) E1) as (L1 & Hl1).
  assert (Inv s1) as I1 by (apply (leq_inv _ _ _ _ L1)).
  assert (leq s1 (emit (EvQAdd sl) s1)) as L2a by (apply emit_ok; simpl; auto).
  assert (leq (emit (EvQAdd sl) s1) (empty_start T mode F (emit (EvQAdd sl) s1) start sl)) as L2b.
  { apply empty_start_ok; [apply (leq_inv _ _ _ _ L2a)|apply (RL_leq T C s1 _ start sl I1 L2a Hl1)]. }
  assert (leq s1 (empty_start T mode F (emit (EvQAdd sl) s1) start sl)) as L2 by (eapply leq_trans; eauto).
  set (s2 := empty_start T mode F (emit (EvQAdd sl) s1) start sl) in *.
  assert (Inv s2) as I2 by (apply (leq_inv _ _ _ _ L2)).
  assert (RL s2 start sl) as Hl2 by (apply (RL_leq T C s1 s2 start sl I1 L2 Hl1)).
  assert (leq s2 (try_verify T (add_rule T mode F) s2 start sl)) as L3
    by (apply try_verify_ok; auto; apply add_rule_ok).
  set (s3 := try_verify T (add_rule T mode F) s2 start sl) in *.
  assert (Inv s3) as I3 by (apply (leq_inv _ _ _ _ L3)).
  destruct (has_sym T); auto.
  apply (leq_inv _ _ s3). apply symmetry_expand_ok; auto. apply add_rule_ok.
  apply (RL_leq T C s2 s3 start sl I2 L3 Hl2).
Qed.

(* THE invariant of the whole run: any table, packets, answers, fuel, mode *)
Theorem run_search_inv F dl ev ans start ps : Inv (run_search T mode F dl ev ans start ps).
Proof.
  unfold run_search. apply (leq_inv _ _ (searcher_init T mode F ans start)).
  apply run_packets_ok; [apply searcher_init_ok|intros l c; discriminate].
Qed.

(* the run on more packets continues the run on fewer: the database only grows *)
Theorem run_search_app F dl ev ans start ps more :
  leq (run_search T mode F dl ev ans start ps) (run_search T mode F dl ev ans start (ps ++ more)).
Proof.
  unfold run_search, run_packets. rewrite fold_left_app.
  set (s0 := searcher_init T mode F ans start).
  destruct (fold_packets_ok F dl ev ps s0 None (searcher_init_ok F ans start)) as (L1 & Hl1).
  { intros l c; discriminate. }
  destruct (fold_left (packet_step T mode F dl ev) ps (s0, None)) as [s1 last1]. simpl in *.
  apply (fold_packets_ok F dl ev more s1 last1 (leq_inv _ _ _ _ L1) Hl1).
Qed.

End Proofs.
