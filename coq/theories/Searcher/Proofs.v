(* Every function of the searcher model preserves the invariant of Inv.v - part 2 (part 1:
   Searcher/ProofsCore.v): the forest database, _symmetry_expand, try_verify, add_rule,
   _inferral_expand, _expand, the packet loop, __init__, and the whole run.

   Parameters: the switch C of the table contracts (Searcher/Contracts.v; `pack` = the strategies the
   queue may hand out) and the ghost predicate GP of Inv.v.  GP is only looked at where C holds; the
   three hypotheses about it say that it survives the growth of a truthful class database (G_frame),
   ignores the events that are none of its business (G_skip) and what the forest databases record
   (G_forest), and takes ONE step over ruledb.add of the pruning databases (G_base).  GP := Gtriv
   discharges all of them (Section Plain at the end: the plain invariant, as used by C04/C17). *)
From Coq Require Import ZArith List Bool Lia.
From CSS Require Import Base.PyList ClassDB.Model ClassDB.Proofs Gen.Prelude Gen.ReverseShifts
  Searcher.Model Searcher.Inv Searcher.Contracts Searcher.ProofsCore.
Import ListNotations.
Open Scope Z_scope.

(* what the invariant knows of the strategy sid0 a recorded rule object came from (the provenance carried by
   ProofsCore.prov): where the contracts are switched on, it was handed out by the queue (a strategy of `pack`),
   is a verification strategy, or a symmetry of the table *)
Definition used (T : table) (C : Prop) (pack : list Z) (sid0 : Z) : Prop :=
  C -> Contracts.handed T pack sid0 \/ In sid0 (t_sym T).

Section Proofs.
Variable T : table.
Variable mode : Z.
Variable C : Prop.
Variable pack : list Z.
Variable GP : @db Z -> list (Z * list Z) -> list (Z * list Z) -> list event -> Prop.

Notation oracle := (oracle T).
Notation entry_of := (entry_of T).
Notation rules_from_strategy := (rules_from_strategy T).
Notation rule_children := (rule_children T).
Notation lbl := (label_of Z.eqb (fun c : Z => c)).
Notation Inv := (Inv T C GP).
Notation leq := (leq T C GP).
Notation ev_ok := (ev_ok T C).
Notation kids_sp := (kids_sp T).
Notation pe_of := (pe_of T).
Notation rule_good := (rule_good T).
Notation U := (used T C pack).
Notation labelled := (labelled T U).
Notation kids_nonempty := (kids_nonempty T C).
Notation ar_spec := (ar_spec T C GP U).
Notation RK := (ProofsCore.RK).
Notation kids_lbl := (ProofsCore.kids_lbl).

Hypothesis G_frame : C -> forall d d' r e tr, (* in-section *)
  @WF Z d -> @WF Z d' -> extends d d' -> EmptyOK (fun k : Z => k) oracle d -> EmptyOK (fun k : Z => k) oracle d' ->
  GP d r e tr -> GP d' r e tr.
Hypothesis G_skip : C -> forall ev d r e tr, neutral ev = true -> GP d r e tr -> GP d r e (ev :: tr). (* in-section *)
(* the forest databases: the ghost predicate does not follow them *)
Hypothesis G_forest : C -> (mode =? 0) = false -> forall start ends sid parent d r e tr, (* in-section *)
  GP d r e tr -> GP d r e (EvAdd start ends sid parent :: tr).
(* ruledb.add of the pruning databases (the call is logged, then RuleDBBase.add) is one step *)
Hypothesis G_base : C -> (mode =? 0) = true -> forall s sym start ends r, (* in-section *)
  Inv s -> rule_good r -> (running s = true -> labelled (cdb s) sym start ends r) ->
  Gs GP s -> Gs GP (base_add T (emit (EvAdd start ends (r_sid r) (r_parent r)) s) start ends r).

(* ... and holds of the fresh searcher *)
Hypothesis G_init : C -> GP init [] [] []. (* in-section *)

(* the table contracts (only used where C holds) *)
Hypothesis pe_contract : C -> Contracts.pe_contract T pack. (* in-section *)
Hypothesis sym_contract : C -> Contracts.sym_contract T. (* in-section *)

Notation RL_leq := (Inv.RL_leq T C GP).
Notation RLs_leq := (Inv.RLs_leq T C GP).
Notation leq_inv := (Inv.leq_inv T C GP).
Notation get_labels_ok := (Inv.get_labels_ok T C GP G_frame).
Notation get_label_c_ok := (Inv.get_label_c_ok T C GP G_frame).
Notation get_class_l_ok := (Inv.get_class_l_ok T C GP G_frame).
Notation is_empty_cl_ok := (Inv.is_empty_cl_ok T C GP G_frame).
Notation pop_answer_ok := (Inv.pop_answer_ok T C GP).
Notation set_empty_ev_ok := (Inv.set_empty_ev_ok T C GP G_frame G_skip).
Notation emit_neutral_ok := (Inv.emit_neutral_ok T C GP G_skip).
Notation RK_leq := (ProofsCore.RK_leq T C GP).
Notation labelled_leq := (ProofsCore.labelled_leq T C GP U).
Notation labelled_kids := (ProofsCore.labelled_kids T U).
Notation label_rule_ok := (ProofsCore.label_rule_ok T C GP U G_frame).
Notation for_rules_ok := (ProofsCore.for_rules_ok T C GP U G_frame).
Notation expand_with_ok := (ProofsCore.expand_with_ok T C GP U G_frame).
Notation emits_ok := (ProofsCore.emits_ok T C GP G_skip).
Notation rule_good_of_strategy := (ProofsCore.rule_good_of_strategy T).
Notation kids_sp_empty := (ProofsCore.kids_sp_empty T).
Notation kids_sp_rule := (ProofsCore.kids_sp_rule T).
Notation r_pe_of := (ProofsCore.r_pe_of T).

(* the strategies whose rules go through add_rule: those the queue hands out and the verification strategies *)
Notation handed := (Contracts.handed T pack).
Lemma handed_kids_nonempty sid c : (C -> handed sid) -> forall r, In r (rules_from_strategy sid c) -> kids_nonempty r.
Proof.
  intros Hh r Hin HC Hpe k Hk. unfold kids_of in Hk. destruct (rule_children r) as [cs|] eqn:Ec; [|destruct Hk].
  apply (pe_contract_rule T pack (pe_contract HC) sid c r cs (Hh HC) Hin Ec Hpe k Hk).
Qed.

(* ---------------------------------------------------- RuleDBForest.add *)
Lemma count_nonempty_ok cs : forall s s' n, Inv s -> count_nonempty T s cs = (s', n) -> leq s s'.
Proof.
  induction cs as [|c t IH]; intros s s' n I; simpl.
  - intros [= <- <-]. apply leq_refl; auto.
  - destruct (is_empty_cl T s c None) as [s1 b] eqn:E1.
    destruct (count_nonempty T s1 t) as [s2 m] eqn:E2. intros [= <- <-].
    destruct (is_empty_cl_ok s c None s1 b I) as (L1 & _); auto. { intros l0; discriminate. }
    eapply leq_trans; [exact L1|]. eapply IH; eauto. apply (leq_inv _ _ L1).
Qed.

Lemma plain_key_ok s normal p cs sh s' k : Inv s -> plain_key T s normal p cs sh = (s', k) ->
  leq s s' /\ match k with EvKey _ _ _ _ => True | _ => False end.
Proof.
  intros I. unfold plain_key.
  destruct (get_label_c T s p) as [s1 pl] eqn:E1.
  destruct (get_labels T s1 cs) as [s2 ls] eqn:E2.
  destruct (count_nonempty T s2 cs) as [s3 n] eqn:E3. intros [= <- <-].
  destruct (get_label_c_ok _ _ _ _ I E1) as (L1 & _).
  destruct (get_labels_ok _ _ _ _ (leq_inv _ _ L1) E2) as (L2 & _).
  pose proof (count_nonempty_ok _ _ _ _ (leq_inv _ _ L2) E3) as L3.
  split; auto. eapply leq_trans; [exact L1|eapply leq_trans; eauto].
Qed.

Lemma forest_key_ok s r s' k : Inv s -> forest_key T s r = (s', k) ->
  leq s s' /\ match k with EvKey _ _ _ _ => True | _ => False end.
Proof.
  intros I. unfold forest_key.
  assert (forall s' k, (let '(s1, pl) := get_label_c T s (r_parent r) in
             let '(s2, ls) := get_labels T s1 (kids_of T r) in (s2, EvKey pl ls (r_shifts T r) 3)) = (s', k) ->
          leq s s' /\ match k with EvKey _ _ _ _ => True | _ => False end) as Hv.
  { intros s0 k0. destruct (get_label_c T s (r_parent r)) as [s1 pl] eqn:E1.
    destruct (get_labels T s1 (kids_of T r)) as [s2 ls] eqn:E2. intros [= <- <-].
    destruct (get_label_c_ok _ _ _ _ I E1) as (L1 & _).
    destruct (get_labels_ok _ _ _ _ (leq_inv _ _ L1) E2) as (L2 & _).
    split; auto. eapply leq_trans; eauto. }
  destruct (r_kind r); auto. apply plain_key_ok; auto.
Qed.

Lemma reverse_keys_ok r idxs : forall s s' ks, Inv s -> reverse_keys T s r idxs = (s', ks) ->
  leq s s' /\ Forall (fun k => match k with EvKey _ _ _ _ => True | _ => False end) ks.
Proof.
  induction idxs as [|i t IH]; intros s s' ks I; simpl.
  - intros [= <- <-]. split; [apply leq_refl; auto|constructor].
  - destruct (plain_key T s false _ _ _) as [s1 k] eqn:E1.
    destruct (reverse_keys T s1 r t) as [s2 ks2] eqn:E2. intros [= <- <-].
    destruct (plain_key_ok _ _ _ _ _ _ _ I E1) as (L1 & Hk).
    destruct (IH _ _ _ (leq_inv _ _ L1) E2) as (L2 & Hks).
    split; [eapply leq_trans; eauto|constructor; auto].
Qed.

Lemma keys_ev_ok d ks : Forall (fun k => match k with EvKey _ _ _ _ => True | _ => False end) ks ->
  Forall (ev_ok d) ks.
Proof. intros H. eapply Forall_impl; [|exact H]. intros k. destruct k; simpl; auto; contradiction. Qed.

Lemma keys_neutral ks : Forall (fun k => match k with EvKey _ _ _ _ => True | _ => False end) ks ->
  Forall (fun e => neutral e = true) ks.
Proof. intros H. eapply Forall_impl; [|exact H]. intros k. destruct k; simpl; auto; contradiction. Qed.

Lemma add_empty_rules_ok ar kids : ar_spec ar -> forall s, Inv s ->
  (running s = true -> Forall (fun lc => lbl (cdb s) (snd lc) = Some (fst lc)) kids) ->
  leq s (add_empty_rules T ar s kids).
Proof.
  intros HA. induction kids as [|[l c] t IH]; intros s I Hk; simpl.
  - apply leq_refl; auto.
  - assert (RL s c l) as Hcl by (intros Hr; specialize (Hk Hr); inversion Hk; auto).
    assert (forall s', leq s s' -> leq s (add_empty_rules T ar s' t)) as Hrest.
    { intros s' L. eapply leq_trans; [exact L|]. apply IH; [apply (leq_inv _ _ L)|].
      intros Hr. destruct I as (W & _). destruct L as ((W' & _) & X & R).
      specialize (Hk (R Hr)). inversion Hk; subst. eapply Forall_impl; [|eassumption].
      intros [l0 c0]; simpl. apply (lbl_ext _ _ _ _ W W' X). }
    apply Hrest.
    destruct (mem l (already s)); [apply leq_refl; auto|].
    destruct (is_empty_cl T s c (Some l)) as [s1 b] eqn:E1.
    destruct (is_empty_cl_ok s c (Some l) s1 b I) as (L1 & _); auto. { intros l0 [= <-]; auto. }
    assert (Inv s1) as I1 by (apply (leq_inv _ _ L1)).
    destruct b; auto.
    destruct (oracle c) eqn:Eo.
    + assert (leq s1 (add_already l s1)) as L2 by (apply add_already_ok; auto).
      eapply leq_trans; [exact L1|]. eapply leq_trans; [exact L2|].
      apply HA; [apply (leq_inv _ _ L2)|left; simpl; auto|intros _ _ k []|].
      intros Hr. split; [split; simpl|left; reflexivity].
      * apply (RL_leq s1 _ c l I1 L2 (RL_leq s s1 c l I L1 Hcl) Hr).
      * exists []. csplit; auto. constructor.
    + eapply leq_trans; [exact L1|apply fail_ok; auto].
Qed.

Lemma combine_firstn' {A B} (P : A -> B -> Prop) (ends : list B) : forall cs : list A,
  Forall2 P (firstn (length ends) cs) ends -> Forall (fun lc => P (snd lc) (fst lc)) (combine ends cs).
Proof.
  induction ends as [|l t IH]; intros cs H.
  - constructor.
  - destruct cs as [|c cs']; simpl in *; [inversion H|].
    inversion H; subst. constructor; auto.
Qed.

Lemma forest_add_ok ar s sym start ends r : ar_spec ar -> Inv s -> rule_good r ->
  (running s = true -> labelled (cdb s) sym start ends r) -> leq s (forest_add T mode ar s start ends r).
Proof.
  intros HA I G Hl. unfold forest_add.
  set (s1 := if r_pe T r then add_empty_rules T ar s (combine ends (kids_of T r)) else s).
  assert (leq s s1) as L1.
  { unfold s1. destruct (r_pe T r); [|apply leq_refl; auto]. apply add_empty_rules_ok; auto.
    intros Hr. destruct (Hl Hr) as ((A & cs & B & D & E) & _). unfold kids_of. rewrite B.
    apply (combine_firstn' (fun c l => lbl (cdb s) c = Some l)); auto. }
  destruct (forest_key T s1 r) as [s2 k0] eqn:E2.
  destruct (forest_key_ok _ _ _ _ (leq_inv _ _ L1) E2) as (L2 & Hk0).
  assert (Inv s2) as I2 by (apply (leq_inv _ _ L2)).
  destruct ((mode =? 2) && r_reversible T r).
  - destruct (reverse_keys T s2 r _) as [s3 ks] eqn:E3.
    destruct (reverse_keys_ok _ _ _ _ _ I2 E3) as (L3 & Hks).
    eapply leq_trans; [exact L1|]. eapply leq_trans; [exact L2|]. eapply leq_trans; [exact L3|].
    apply emits_ok; [apply (leq_inv _ _ L3)|apply keys_neutral; constructor; auto|].
    intros _. apply keys_ev_ok. constructor; auto.
  - eapply leq_trans; [exact L1|]. eapply leq_trans; [exact L2|].
    apply emits_ok; [exact I2|apply keys_neutral; constructor; auto|]. intros _. apply keys_ev_ok. constructor; auto.
Qed.

(* self.ruledb.add(start, ends, rule) *)
Lemma ruledb_add_ok ar s sym start ends r : ar_spec ar -> Inv s -> rule_good r ->
  (running s = true -> labelled (cdb s) sym start ends r) -> leq s (ruledb_add T mode ar s start ends r).
Proof.
  intros HA I G Hl. unfold ruledb_add.
  assert ({(mode =? 0) = true} + {(mode =? 0) = false}) as [Em|Em] by (destruct (mode =? 0); auto); rewrite Em.
  - (* RuleDB / RuleDBForgetStrategy: the plain invariant by ProofsCore, the ghost predicate by G_base *)
    destruct (ruledb_base_ok0 T C U s sym start ends r (Inv0_of T C GP s I) G Hl) as ((W' & E' & F' & _) & X & R).
    unfold Inv.leq, Inv.Inv. split; [|split; [exact X|exact R]].
    split; [exact W'|]. split; [exact E'|]. split; [exact F'|].
    intros HC. apply (G_base HC Em s sym start ends r I G Hl). destruct I as (_ & _ & _ & Gh). apply (Gh HC).
  - assert (leq s (emit (EvAdd start ends (r_sid r) (r_parent r)) s)) as L0.
    { apply emit_ok; [exact I| |].
      - intros Hr. simpl. eapply labelled_add_ok; eauto.
      - intros HC _ Hg. apply (G_forest HC Em); auto. }
    set (s0 := emit (EvAdd start ends (r_sid r) (r_parent r)) s) in *.
    assert (running s0 = true -> labelled (cdb s0) sym start ends r) as Hl0.
    { unfold s0. rewrite emit_running, emit_cdb. auto. }
    eapply leq_trans; [exact L0|]. eapply forest_add_ok; eauto; apply (leq_inv _ _ L0).
Qed.

(* ---------------------------------------------------- _symmetry_expand *)
Lemma fold_sids_ok (f : st -> Z -> st) (s0 : st) (sids0 : list Z) :
  (forall s sid, In sid sids0 -> leq s0 s -> Inv s -> leq s (f s sid)) ->
  forall sids, incl sids sids0 -> forall s, leq s0 s -> Inv s -> leq s (fold_left f sids s).
Proof.
  intros Hf. induction sids as [|sid t IH]; intros Hin s L0 I; simpl.
  - apply leq_refl; auto.
  - assert (leq s (f s sid)) as L1 by (apply Hf; auto; apply Hin; left; auto).
    eapply leq_trans; [exact L1|]. apply IH.
    + intros x Hx; apply Hin; right; auto.
    + eapply leq_trans; eauto.
    + apply (leq_inv _ _ L1).
Qed.

Lemma symmetry_expand_ok ar s c label : ar_spec ar -> Inv s -> RL s c label ->
  leq s (symmetry_expand T mode ar s c label).
Proof.
  intros HA I Hl. unfold symmetry_expand.
  assert (leq s (set_symacc [label] s)) as L0 by (apply set_symacc_ok; auto).
  set (s0 := set_symacc [label] s) in *.
  assert (Inv s0) as I0 by (apply (leq_inv _ _ L0)).
  destruct (is_empty_cl T s0 c (Some label)) as [s1 empty] eqn:E1.
  destruct (is_empty_cl_ok s0 c (Some label) s1 empty I0) as (L1 & Hb); auto.
  { intros l0 [= <-]. apply (RL_leq s s0 c label I L0 Hl). }
  assert (Inv s1) as I1 by (apply (leq_inv _ _ L1)).
  assert (RL s1 c label) as Hl1 by (apply (RL_leq s0 s1 c label I0 L1 (RL_leq s s0 c label I L0 Hl))).
  eapply leq_trans; [exact L0|]. eapply leq_trans; [exact L1|].
  match goal with |- leq s1 (flush_symacc (fold_left ?f _ _)) => set (F := f) end.
  assert (leq s1 (fold_left F (t_sym T) s1)) as L2.
  { apply (fold_sids_ok F s1 (t_sym T)); auto; [|apply incl_refl|apply leq_refl; auto].
    intros s2 sid Hsid L12 I2. unfold F, expand_with.
    eapply (for_rules_ok s1 _ sid c (rules_from_strategy sid c)); auto; [|apply incl_refl|intros _; right; exact Hsid|apply incl_refl|].
    2:{ apply (RL_leq s1 s2 c label I1 L12 Hl1). }
    intros s3 start ends r L13 Hin I3 Hn Hlab.
    destruct ends as [|sl rest]; [apply fail_ok; auto|].
    (* the first child and its label *)
    assert (running s3 = true -> exists c0 cs', rule_children r = Some (c0 :: cs') /\ lbl (cdb s3) c0 = Some sl) as Hfirst.
    { intros Hr. destruct (Hlab Hr) as ((A & cs & B & D & E) & _). destruct cs as [|c0 cs']; simpl in D; inversion D; subst.
      exists c0, cs'; auto. }
    assert (leq s3 (set_empty_ev T s3 sl empty)) as La.
    { apply set_empty_ev_ok; auto. intros Hr. destruct (Hfirst Hr) as (c0 & cs' & B & Hc0).
      exists c0; split; auto. intros HC. rewrite (sym_contract HC sid c r c0 cs' Hsid Hin B).
      symmetry. apply Hb; auto. destruct L13 as (_ & _ & R). auto. }
    set (s4 := set_empty_ev T s3 sl empty) in *.
    assert (Inv s4) as I4 by (apply (leq_inv _ _ La)).
    assert (rule_good r) as G by (eapply rule_good_of_strategy; eauto).
    assert (leq s4 (ruledb_add T mode ar s4 start [sl] r)) as Lb.
    { apply (ruledb_add_ok ar s4 true); auto. intros Hr.
      assert (running s3 = true) as Hr3 by (destruct La as (_ & _ & R); auto).
      destruct (labelled_leq s3 s4 false start (sl :: rest) r I3 La Hlab Hr) as ((A & cs & B & D & E) & P).
      split; auto. split; auto. exists cs. csplit; auto.
      - destruct cs as [|c0 cs']; simpl in D; inversion D; subst. simpl. constructor; auto.
      - destruct cs; simpl in E; [discriminate|congruence].
      - exists sid, c, r; auto. }
    set (s5 := ruledb_add T mode ar s4 start [sl] r) in *.
    assert (leq s5 (emit (EvQStop sl) s5)) as Lc by (apply emit_neutral_ok; [reflexivity|apply (leq_inv _ _ Lb)|simpl; auto]).
    eapply leq_trans; [exact La|]. eapply leq_trans; [exact Lb|]. eapply leq_trans; [exact Lc|].
    apply set_symacc_ok. apply (leq_inv _ _ Lc). }
  eapply leq_trans; [exact L2|]. apply flush_symacc_ok. apply (leq_inv _ _ L2).
Qed.

(* ---------------------------------------------------------- try_verify *)
Lemma ver_loop_ok ar c label : ar_spec ar -> forall sids, (C -> incl sids (t_ver T)) -> forall s, Inv s -> RL s c label ->
  leq s (ver_loop T ar s c label sids).
Proof.
  intros HA. induction sids as [|sid t IH]; intros Hsub s I Hl; simpl.
  - apply leq_refl; auto.
  - destruct (pop_answer s) as [s1 a] eqn:E1.
    pose proof (pop_answer_ok _ _ _ I E1) as L1. assert (Inv s1) as I1 by (apply (leq_inv _ _ L1)).
    destruct a; auto.
    assert (RL s1 c label) as Hl1 by (apply (RL_leq s s1 c label I L1 Hl)).
    assert (leq s1 (expand_with T ar s1 c sid label)) as L2.
    { apply expand_with_ok; auto; [apply handed_kids_nonempty; intros HC; right; apply (Hsub HC); left; reflexivity|].
      intros HC. left. right. apply (Hsub HC). left; reflexivity. }
    eapply leq_trans; [exact L1|]. eapply leq_trans; [exact L2|].
    apply IH; [intros HC x Hx; apply (Hsub HC); right; exact Hx|apply (leq_inv _ _ L2)|apply (RL_leq s1 _ c label I1 L2 Hl1)].
Qed.

Lemma try_verify_ok ar s c label : ar_spec ar -> Inv s -> RL s c label ->
  leq s (try_verify T ar s c label).
Proof.
  intros HA I Hl. unfold try_verify. destruct (mem label (tried s)); [apply leq_refl; auto|].
  assert (leq s (add_tried label s)) as L0 by (apply add_tried_ok; auto).
  set (s0 := add_tried label s) in *. assert (Inv s0) as I0 by (apply (leq_inv _ _ L0)).
  assert (RL s0 c label) as Hl0 by (apply (RL_leq s s0 c label I L0 Hl)).
  destruct (is_empty_cl T s0 c (Some label)) as [s1 b] eqn:E1.
  destruct (is_empty_cl_ok s0 c (Some label) s1 b I0) as (L1 & _); auto. { intros l0 [= <-]; auto. }
  eapply leq_trans; [exact L0|]. destruct b; auto. eapply leq_trans; [exact L1|].
  apply ver_loop_ok; auto; [intros _; apply incl_refl|apply (leq_inv _ _ L1)|apply (RL_leq s0 s1 c label I0 L1 Hl0)].
Qed.

(* ------------------------------------------------------------ add_rule *)
Lemma child_step_ok ar r s c l : ar_spec ar -> Inv s -> RL s c l ->
  (C -> r_pe T r = false -> oracle c = false) -> leq s (child_step T mode ar r s (c, l)).
Proof.
  intros HA I Hl Hpe. unfold child_step.
  set (s1 := if r_pe T r then s else set_empty_ev T s l false).
  assert (leq s s1) as L1.
  { unfold s1. destruct (r_pe T r) eqn:Ep; [apply leq_refl; auto|]. apply set_empty_ev_ok; auto.
    intros Hr. exists c; split; auto. }
  assert (Inv s1) as I1 by (apply (leq_inv _ _ L1)).
  assert (RL s1 c l) as Hl1 by (apply (RL_leq s s1 c l I L1 Hl)).
  set (s2 := if has_sym T && negb (mem l (symexp s1)) then symmetry_expand T mode ar s1 c l else s1).
  assert (leq s1 s2) as L2.
  { unfold s2. destruct (has_sym T && negb (mem l (symexp s1))); [apply symmetry_expand_ok; auto|apply leq_refl; auto]. }
  assert (Inv s2) as I2 by (apply (leq_inv _ _ L2)).
  set (s3 := if r_work T r then emit (EvQAdd l) s2 else s2).
  assert (leq s2 s3) as L3.
  { unfold s3. destruct (r_work T r); [apply emit_neutral_ok; simpl; auto|apply leq_refl; auto]. }
  assert (Inv s3) as I3 by (apply (leq_inv _ _ L3)).
  set (s4 := if r_inf T r then s3 else emit (EvQNotInf l) s3).
  assert (leq s3 s4) as L4.
  { unfold s4. destruct (r_inf T r); [apply leq_refl; auto|apply emit_neutral_ok; simpl; auto]. }
  assert (Inv s4) as I4 by (apply (leq_inv _ _ L4)).
  eapply leq_trans; [exact L1|]. eapply leq_trans; [exact L2|]. eapply leq_trans; [exact L3|].
  eapply leq_trans; [exact L4|]. apply try_verify_ok; auto.
  apply (RL_leq s3 s4 c l I3 L4). apply (RL_leq s2 s3 c l I2 L3). apply (RL_leq s1 s2 c l I1 L2 Hl1).
Qed.

Lemma fold_child_ok ar r : ar_spec ar -> forall kids s, Inv s -> RK s kids ->
  (C -> r_pe T r = false -> Forall (fun cl => oracle (fst cl) = false) kids) ->
  leq s (fold_left (child_step T mode ar r) kids s).
Proof.
  intros HA. induction kids as [|[c l] t IH]; intros s I Hk Hpe; simpl.
  - apply leq_refl; auto.
  - assert (leq s (child_step T mode ar r s (c, l))) as L1.
    { apply child_step_ok; auto.
      - intros Hr. specialize (Hk Hr). inversion Hk; auto.
      - intros HC Hp. specialize (Hpe HC Hp). inversion Hpe; auto. }
    eapply leq_trans; [exact L1|]. apply IH.
    + apply (leq_inv _ _ L1).
    + apply (RK_leq s _ t I L1). intros Hr. specialize (Hk Hr). inversion Hk; auto.
    + intros HC Hp. specialize (Hpe HC Hp). inversion Hpe; auto.
Qed.

Lemma add_rule_ok n : ar_spec (add_rule T mode n).
Proof.
  induction n as [|n IH]; intros s start ends r I G Hne Hl; simpl.
  - apply out_of_fuel_ok; auto.
  - destruct (rule_children r) as [cs|] eqn:Ec; [|apply fail_ok; auto].
    assert (leq s (fold_left (child_step T mode (add_rule T mode n) r) (combine cs ends) s)) as L1.
    { apply fold_child_ok; auto.
      - intros Hr. destruct (labelled_kids _ _ _ _ _ (Hl Hr)) as (Hk & _). unfold kids_of in Hk. rewrite Ec in Hk. auto.
      - intros HC Hp. apply Forall_forall. intros [c l] Hin. simpl. apply in_combine_l in Hin.
        apply (Hne HC Hp). unfold kids_of. rewrite Ec. exact Hin. }
    set (s1 := fold_left (child_step T mode (add_rule T mode n) r) (combine cs ends) s) in *.
    assert (Inv s1) as I1 by (apply (leq_inv _ _ L1)).
    set (s2 := if r_ip T r then emit (EvQStop start) s1 else s1).
    assert (leq s1 s2) as L2.
    { unfold s2. destruct (r_ip T r); [apply emit_neutral_ok; simpl; auto|apply leq_refl; auto]. }
    eapply leq_trans; [exact L1|]. eapply leq_trans; [exact L2|].
    apply (ruledb_add_ok _ s2 false); auto. apply (leq_inv _ _ L2).
    apply (labelled_leq s1 s2 false start ends r I1 L2). apply (labelled_leq s s1 false start ends r I L1 Hl).
Qed.

(* ---------------------------------------------------- _inferral_expand *)
Lemma first_rule_ok sid0 c rules : U sid0 -> incl rules (rules_from_strategy sid0 c) ->
  forall s label s' o, Inv s -> RL s c label ->
  first_rule T s c label rules = (s', o) ->
  leq s s' /\
  match o with
  | None => True
  | Some (start, ends, r) =>
      In r rules /\ (forall cs, rule_children r = Some cs -> cs <> [r_parent r]) /\
      (running s' = true -> labelled (cdb s') false start ends r)
  end.
Proof.
  intros HU. induction rules as [|r t IH]; intros Hsub s label s' o I Hl; simpl.
  - intros [= <- <-]. split; [apply leq_refl; auto|exact Logic.I].
  - destruct (label_rule T s c label r) as [s1 o1] eqn:E1.
    assert (exists sid1, In r (rules_from_strategy sid1 c) /\ U sid1) as Hpr by (exists sid0; split; [apply Hsub; left; auto|exact HU]).
    assert (incl t (rules_from_strategy sid0 c)) as Hsub' by (intros x Hx; apply Hsub; right; auto).
    destruct (label_rule_ok s c label r s1 o1 I Hl Hpr E1) as (L1 & Ho).
    destruct o1 as [[start ends]|].
    + intros [= <- <-]. destruct Ho as (Hn & Hlab). split; auto.
    + intros E2. destruct (IH Hsub' _ _ _ _ (leq_inv _ _ L1) (RL_leq s s1 c label I L1 Hl) E2) as (L2 & Ho2).
      split; [eapply leq_trans; eauto|]. destruct o as [[[start ends] r0]|]; auto.
      destruct Ho2 as (A & B & D). csplit; auto.
Qed.

Lemma In_firstn {A} (x : A) n : forall l, In x (firstn n l) -> In x l.
Proof. induction n as [|n IH]; intros [|y l]; simpl; auto; [intros []|]. intros [->|H]; auto. Qed.
Lemma In_skipn {A} (x : A) n : forall l, In x (skipn n l) -> In x l.
Proof. induction n as [|n IH]; intros [|y l]; simpl; auto. Qed.

Definition rec_spec (rec : st -> Z -> Z -> list Z -> option Z -> st) : Prop :=
  forall s c label sids skip, (C -> incl sids pack) -> Inv s -> RL s c label -> leq s (rec s c label sids skip).

Lemma inf_loop_ok F rec c label all skip : rec_spec rec -> (C -> incl all pack) ->
  forall rest, (C -> incl rest pack) -> forall i s, Inv s -> RL s c label ->
  leq s (inf_loop T mode F rec s c label all i rest skip).
Proof.
  intros HR Hall. induction rest as [|sid t IH]; intros Hsub i s I Hl; simpl.
  - apply leq_refl; auto.
  - assert (C -> incl t pack) as Hsub' by (intros HC x Hx; apply (Hsub HC); right; exact Hx).
    destruct (skip_eqb skip sid); [apply IH; auto|].
    destruct (first_rule T s c label (rules_from_strategy sid c)) as [s1 o] eqn:E1.
    assert (U sid) as HUsid by (intros HC; left; left; apply (Hsub HC); left; reflexivity).
    destruct (first_rule_ok sid c _ HUsid (incl_refl _) _ _ _ _ I Hl E1) as (L1 & Ho).
    assert (Inv s1) as I1 by (apply (leq_inv _ _ L1)).
    eapply leq_trans; [exact L1|].
    destruct o as [[[start ends] r]|].
    2:{ apply IH; auto. apply (RL_leq s s1 c label I L1 Hl). }
    destruct Ho as (Hin & Hn & Hlab).
    assert (rule_good r) as G by (eapply rule_good_of_strategy; eauto).
    destruct (rule_children r) as [[|ic cs']|] eqn:Ec; try (apply fail_ok; auto).
    destruct ends as [|il rest']; [apply fail_ok; auto|].
    assert (leq s1 (add_rule T mode F s1 start (il :: rest') r)) as L2.
    { apply add_rule_ok; auto. apply (handed_kids_nonempty sid c); auto.
      intros HC. left. apply (Hsub HC). left; reflexivity. }
    set (s2 := add_rule T mode F s1 start (il :: rest') r) in *.
    assert (Inv s2) as I2 by (apply (leq_inv _ _ L2)).
    assert (leq s2 (emit (EvQNotInf start) s2)) as L3 by (apply emit_neutral_ok; simpl; auto).
    eapply leq_trans; [exact L2|]. eapply leq_trans; [exact L3|].
    apply HR; [|apply (leq_inv _ _ L3)|].
    { intros HC x Hx. apply (Hall HC). apply in_app_or in Hx as [Hx|Hx];
        [apply (In_skipn x (S i) all Hx)|apply (In_firstn x (S i) all Hx)]. }
    apply (RL_leq s2 _ ic il I2 L3). apply (RL_leq s1 s2 ic il I1 L2).
    intros Hr. destruct (Hlab Hr) as ((A & cs & B & D & E) & _). rewrite Ec in B. injection B as <-.
    simpl in D. inversion D; auto.
Qed.

Lemma inferral_expand_ok F n : rec_spec (inferral_expand T mode F n).
Proof.
  induction n as [|n IH]; intros s c label sids skip Hsub I Hl; simpl.
  - apply out_of_fuel_ok; auto.
  - destruct (mem label (infexp s)); [apply leq_refl; auto|].
    assert (leq s (add_infexp label s)) as L0 by (apply add_infexp_ok; auto).
    set (s0 := add_infexp label s) in *. assert (Inv s0) as I0 by (apply (leq_inv _ _ L0)).
    assert (leq s0 (inf_loop T mode F (inferral_expand T mode F n) s0 c label sids 0 sids skip)) as L1.
    { apply inf_loop_ok; auto. apply (RL_leq s s0 c label I L0 Hl). }
    eapply leq_trans; [exact L0|]. eapply leq_trans; [exact L1|].
    apply emit_neutral_ok; [reflexivity|apply (leq_inv _ _ L1)|simpl; auto].
Qed.

(* -------------------------------------------------------------- _expand *)
Lemma expand_ok F s c label sids inferral : (C -> incl sids pack) -> Inv s -> RL s c label ->
  leq s (expand T mode F s c label sids inferral).
Proof.
  intros Hsub I Hl. unfold expand. destruct inferral; [apply inferral_expand_ok; auto|].
  apply (fold_sids_ok _ s sids); auto; [|apply incl_refl|apply leq_refl; auto].
  intros s1 sid Hsid L1 I1. apply expand_with_ok; auto.
  - apply add_rule_ok.
  - apply handed_kids_nonempty. intros HC. left. apply (Hsub HC). exact Hsid.
  - intros HC. left. left. apply (Hsub HC). exact Hsid.
  - apply (RL_leq s s1 c label I L1 Hl).
Qed.

Definition last_ok (s : st) (last : option (Z * Z)) : Prop :=
  forall l c, last = Some (l, c) -> RL s c l.

Lemma packet_step_ok F dl ev s last p s' last' : (C -> incl (p_sids p) pack) -> Inv s -> last_ok s last ->
  packet_step T mode F dl ev (s, last) p = (s', last') -> leq s s' /\ last_ok s' last'.
Proof.
  intros Hsub I Hlast. unfold packet_step. destruct dl.
  - destruct (get_class_l T s (p_label p)) as [s1 c] eqn:E1.
    destruct (get_class_l_ok _ _ _ _ I E1) as (L1 & Hl1).
    assert (leq s1 (expand T mode F s1 c (p_label p) (p_sids p) (p_inferral p))) as L2
      by (apply expand_ok; auto; apply (leq_inv _ _ L1)).
    intros [= <- <-]. split; [eapply leq_trans; eauto|].
    intros l0 c0 E. apply (RL_leq s _ c0 l0 I); [eapply leq_trans; eauto|eapply Hlast; eauto].
  - set (g := match last with
              | Some (ll, lc) => if p_label p =? ll then (s, lc) else get_class_l T s (p_label p)
              | None => get_class_l T s (p_label p) end).
    assert (forall s1 c, g = (s1, c) -> leq s s1 /\ RL s1 c (p_label p)) as Hg.
    { intros s1 c. unfold g. destruct last as [[ll lc]|]; [|apply get_class_l_ok; auto].
      destruct (p_label p =? ll) eqn:El; [|apply get_class_l_ok; auto].
      intros [= <- <-]. apply Z.eqb_eq in El. split; [apply leq_refl; auto|]. rewrite El. eapply Hlast; eauto. }
    destruct g as [s1 c]. destruct (Hg s1 c eq_refl) as (L1 & Hl1).
    assert (Inv s1) as I1 by (apply (leq_inv _ _ L1)).
    set (h := if ev then (s1, true) else let '(s2, a) := pop_answer s1 in (s2, negb a)).
    assert (forall s2 go, h = (s2, go) -> leq s1 s2) as Hh.
    { intros s2 go. unfold h. destruct ev; [intros [= <- <-]; apply leq_refl; auto|].
      destruct (pop_answer s1) as [s2' a] eqn:E2. intros [= <- <-]. eapply pop_answer_ok; eauto. }
    destruct h as [s2 go]. pose proof (Hh s2 go eq_refl) as L2.
    assert (Inv s2) as I2 by (apply (leq_inv _ _ L2)).
    assert (RL s2 c (p_label p)) as Hl2 by (apply (RL_leq s1 s2 c _ I1 L2 Hl1)).
    set (s3 := if go then expand T mode F s2 c (p_label p) (p_sids p) (p_inferral p) else s2).
    assert (leq s2 s3) as L3.
    { unfold s3. destruct go; [apply expand_ok; auto|apply leq_refl; auto]. }
    intros [= <- <-]. split; [eapply leq_trans; [exact L1|eapply leq_trans; eauto]|].
    intros l0 c0 [= <- <-]. apply (RL_leq s2 s3 c _ I2 L3 Hl2).
Qed.

Notation packets_in := (Contracts.packets_in pack).

Lemma fold_packets_ok F dl ev ps : (C -> packets_in ps) -> forall s last, Inv s -> last_ok s last ->
  let r := fold_left (packet_step T mode F dl ev) ps (s, last) in
  leq s (fst r) /\ last_ok (fst r) (snd r).
Proof.
  induction ps as [|p t IH]; intros Hps s last I Hlast; cbn [fold_left].
  - simpl. split; [apply leq_refl; auto|auto].
  - destruct (packet_step T mode F dl ev (s, last) p) as [s1 last1] eqn:E1.
    assert (C -> incl (p_sids p) pack) as Hp by (intros HC; specialize (Hps HC); inversion Hps; auto).
    assert (C -> packets_in t) as Ht by (intros HC; specialize (Hps HC); inversion Hps; auto).
    destruct (packet_step_ok _ _ _ _ _ _ _ _ Hp I Hlast E1) as (L1 & Hl1).
    destruct (IH Ht s1 last1 (leq_inv _ _ L1) Hl1) as (L2 & Hl2).
    split; auto. eapply leq_trans; eauto.
Qed.

Lemma run_packets_ok F dl ev ps s last : (C -> packets_in ps) -> Inv s -> last_ok s last ->
  leq s (run_packets T mode F dl ev s last ps).
Proof. intros Hps I Hl. apply (fold_packets_ok F dl ev ps Hps s last I Hl). Qed.

Lemma Inv_init ans : Inv (init_state ans).
Proof.
  unfold Inv.Inv, init_state; simpl. csplit.
  - apply WF_init.
  - intros _. apply EmptyOK_init.
  - constructor.
  - exact G_init.
Qed.

Lemma empty_start_ok F s start sl : Inv s -> RL s start sl -> leq s (empty_start T mode F s start sl).
Proof.
  intros I Hl. unfold empty_start.
  destruct (is_empty_cl T s start (Some sl)) as [s1 e] eqn:E1.
  destruct (is_empty_cl_ok s start (Some sl) s1 e I) as (L1 & _); auto. { intros l0 [= <-]; auto. }
  assert (Inv s1) as I1 by (apply (leq_inv _ _ L1)).
  destruct e; auto.
  assert (leq s1 (emit (EvQStop sl) s1)) as L2 by (apply emit_neutral_ok; simpl; auto).
  set (s2 := emit (EvQStop sl) s1) in *. assert (Inv s2) as I2 by (apply (leq_inv _ _ L2)).
  eapply leq_trans; [exact L1|]. eapply leq_trans; [exact L2|].
  destruct (oracle start) eqn:Eo; [|apply fail_ok; auto].
  apply add_rule_ok; auto; [left; simpl; auto|intros _ _ k []|].
  intros Hr. split; [split; simpl|left; reflexivity].
  - apply (RL_leq s1 s2 start sl I1 L2 (RL_leq s s1 start sl I L1 Hl) Hr).
  - exists []. csplit; auto. constructor.
Qed.

Lemma searcher_init_ok F ans start : Inv (searcher_init T mode F ans start).
Proof.
  unfold searcher_init.
  destruct (get_label_c T (init_state ans) start) as [s1 sl] eqn:E1.
  destruct (get_label_c_ok _ _ _ _ (Inv_init ans) E1) as (L1 & Hl1).
  assert (Inv s1) as I1 by (apply (leq_inv _ _ L1)).
  assert (leq s1 (emit (EvQAdd sl) s1)) as L2a by (apply emit_neutral_ok; simpl; auto).
  assert (leq (emit (EvQAdd sl) s1) (empty_start T mode F (emit (EvQAdd sl) s1) start sl)) as L2b.
  { apply empty_start_ok; [apply (leq_inv _ _ L2a)|apply (RL_leq s1 _ start sl I1 L2a Hl1)]. }
  assert (leq s1 (empty_start T mode F (emit (EvQAdd sl) s1) start sl)) as L2 by (eapply leq_trans; eauto).
  set (s2 := empty_start T mode F (emit (EvQAdd sl) s1) start sl) in *.
  assert (Inv s2) as I2 by (apply (leq_inv _ _ L2)).
  assert (RL s2 start sl) as Hl2 by (apply (RL_leq s1 s2 start sl I1 L2 Hl1)).
  assert (leq s2 (try_verify T (add_rule T mode F) s2 start sl)) as L3
    by (apply try_verify_ok; auto; apply add_rule_ok).
  set (s3 := try_verify T (add_rule T mode F) s2 start sl) in *.
  assert (Inv s3) as I3 by (apply (leq_inv _ _ L3)).
  destruct (has_sym T); auto.
  apply (leq_inv s3). apply symmetry_expand_ok; auto. apply add_rule_ok.
  apply (RL_leq s2 s3 start sl I2 L3 Hl2).
Qed.

(* THE invariant of the whole run: any table, packets (of strategies of the pack where the contracts are
   switched on), answers, fuel, mode *)
Theorem run_search_inv F dl ev ans start ps : (C -> packets_in ps) -> Inv (run_search T mode F dl ev ans start ps).
Proof.
  intros Hps. unfold run_search. apply (leq_inv (searcher_init T mode F ans start)).
  apply run_packets_ok; [exact Hps|apply searcher_init_ok|intros l c; discriminate].
Qed.

(* the run on more packets continues the run on fewer: the database only grows *)
Theorem run_search_app F dl ev ans start ps more : (C -> packets_in (ps ++ more)) ->
  leq (run_search T mode F dl ev ans start ps) (run_search T mode F dl ev ans start (ps ++ more)).
Proof.
  intros Hps. unfold run_search, run_packets. rewrite fold_left_app.
  assert (C -> packets_in ps) as Hp1 by (intros HC; apply (proj1 (Forall_app _ ps more) (Hps HC))).
  assert (C -> packets_in more) as Hp2 by (intros HC; apply (proj1 (Forall_app _ ps more) (Hps HC))).
  set (s0 := searcher_init T mode F ans start).
  destruct (fold_packets_ok F dl ev ps Hp1 s0 None (searcher_init_ok F ans start)) as (L1 & Hl1).
  { intros l c; discriminate. }
  destruct (fold_left (packet_step T mode F dl ev) ps (s0, None)) as [s1 last1]. simpl in *.
  apply (fold_packets_ok F dl ev more Hp2 s1 last1 (leq_inv _ _ L1) Hl1).
Qed.

End Proofs.

(* ------------------------------------------------------------------------------------------
   The plain invariant (ghost predicate Gtriv): what C04's per-event theorems and C17 use.  With
   C := False there is no contract and no condition on the packets. *)
Section Plain.
Variable T : table.
Variable mode : Z.
Variable C : Prop.
Variable pack : list Z.
Hypothesis pe_contract : C -> Contracts.pe_contract T pack. (* in-section *)
Hypothesis sym_contract : C -> Contracts.sym_contract T. (* in-section *)

Notation Inv0 := (Inv T C Gtriv).
Notation leq0 := (leq T C Gtriv).

Lemma Gtriv_forest : C -> (mode =? 0) = false -> forall (start : Z) (ends : list Z) (sid parent : Z)
  (d : @db Z) (r e : list (Z * list Z)) (tr : list event), Gtriv d r e tr -> Gtriv d r e (EvAdd start ends sid parent :: tr).
Proof. intros; exact Logic.I. Qed.
Lemma Gtriv_base : C -> (mode =? 0) = true -> forall (s : st) (sym : bool) (start : Z) (ends : list Z) (r : rule),
  Inv0 s -> rule_good T r -> (running s = true -> labelled T (used T C pack) (cdb s) sym start ends r) ->
  Gs Gtriv s -> Gs Gtriv (base_add T (emit (EvAdd start ends (r_sid r) (r_parent r)) s) start ends r).
Proof. intros; exact Logic.I. Qed.
Lemma Gtriv_init : C -> Gtriv init [] [] [].
Proof. intros; exact Logic.I. Qed.

Definition run_search_inv0 :=
  run_search_inv T mode C pack Gtriv (Gtriv_frame T C) (Gtriv_skip C) Gtriv_forest Gtriv_base Gtriv_init pe_contract sym_contract.
Definition run_search_app0 :=
  run_search_app T mode C pack Gtriv (Gtriv_frame T C) (Gtriv_skip C) Gtriv_forest Gtriv_base Gtriv_init pe_contract sym_contract.
Definition packet_step_ok0 :=
  packet_step_ok T mode C pack Gtriv (Gtriv_frame T C) (Gtriv_skip C) Gtriv_forest Gtriv_base pe_contract sym_contract.
Definition searcher_init_ok0 :=
  searcher_init_ok T mode C pack Gtriv (Gtriv_frame T C) (Gtriv_skip C) Gtriv_forest Gtriv_base Gtriv_init pe_contract sym_contract.
End Plain.
