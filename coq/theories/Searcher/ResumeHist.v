(* C17 -> C14 / C02: every INTERRUPTED / RESUMED search (pruning databases) has rule stores that are the key sets
   of a RuleDB reached by an add_hist history (RuleDB/AddHist.v) - the hypothesis of C02_find_rule_total and of
   the C14 lookup theorems.  C04 proves this for one uninterrupted packet list (C04_search_gives_add_hist, ghost
   predicate RuleDB.SearchHist.Ghist, which ties the stores to the ruledb.add events of the TRACE); the state
   machine of Searcher/Step.v forgets the trace between two packets (`norm`), so the ghost predicate used here,
   Gres, keeps the part that does not mention the trace: "the class database and the key sets of the two stores
   are those of a RuleDB state reached by add_hist".  It satisfies what Searcher/Proofs.v asks of a ghost
   predicate (frame, skip, forest, base = one RuleDBBase.add, init) and G_forget of Searcher/Resume.v.

   Hypotheses, as in C04_search_gives_add_hist: the table honours pe_contract / sym_contract for the strategies
   `pack` the queue hands out, symmetries are unary, rule objects are twoway_faithful; and the packets of the
   run carry strategies of the pack (true of every packet the queue builds from the pack's three strategy
   lists; stated as a hypothesis on the events, not proved about the queue model). *)
From Coq Require Import ZArith List Bool Lia.
From CSS Require Import Base.PyList ClassDB.Model ClassDB.Proofs Searcher.Model Searcher.Inv Searcher.Contracts
  Searcher.ProofsCore Searcher.Proofs Searcher.Step Searcher.StepProofs Searcher.Resume
  RuleDB.Model RuleDB.StoreProofs RuleDB.CdbFacts RuleDB.GetProofs RuleDB.AddProofs RuleDB.Bridge RuleDB.AddHist
  RuleDB.SearchHist Spec.FindRule Spec.FindRuleProofs Spec.FindRuleSearch.
Import ListNotations.
Open Scope Z_scope.

Section ResumeHist.
Variable T : table.
Variable mode : Z.
Variable pack : list Z.

Notation orc := (oracle T).
Notation EOK := (EmptyOK (fun k : Z => k) orc).

Definition Gres (d : cdbT) (rs es : list key) (tr : list event) : Prop :=
  (mode =? 0) = true ->
  exists a l, add_hist_l T l a /\ b_cdb dstore a = d /\ d_keys (b_r dstore a) = rs /\ d_keys (b_e dstore a) = es.

Lemma Gres_frame : True -> forall d d' r e tr,
  WFd d -> WFd d' -> extends d d' -> EOK d -> EOK d' -> Gres d r e tr -> Gres d' r e tr.
Proof.
  intros _ d d' r e tr W W' X E E' H Hm. destruct (H Hm) as (a & l & Ha & Hd & Hr & He).
  exists (mkDB dstore d' (b_r dstore a) (b_e dstore a) (b_eq dstore a) (b_stop dstore a) 0), l.
  cbn [b_cdb b_r b_e b_eq]. csplit; auto.
  apply hl_env; auto. rewrite Hd. apply pres_of_truthful; auto.
Qed.

Lemma Gres_skip : True -> forall ev d r e tr, neutral ev = true -> Gres d r e tr -> Gres d r e (ev :: tr).
Proof. intros _ ev d r e tr _ H. exact H. Qed.

Lemma Gres_forest : True -> (mode =? 0) = false -> forall start ends sid parent d r e tr,
  Gres d r e tr -> Gres d r e (EvAdd start ends sid parent :: tr).
Proof. intros _ _ start ends sid parent d r e tr H. exact H. Qed.

Lemma Gres_init : True -> Gres init [] [] [].
Proof. intros _ _. exists (dict_init init), []. csplit; auto. apply hl_init. apply WF_init. Qed.

Lemma Gres_forget : True -> forall d r e tr, Gres d r e tr -> Gres d r e [].
Proof. intros _ d r e tr H. exact H. Qed.

Hypothesis Hunary : sym_unary T. (* in-section *)
Hypothesis Hfaith : forall sid0 c0 r, In r (rules_from_strategy T sid0 c0) -> twoway_faithful T r. (* in-section *)

(* one RuleDBBase.add: the first half of RuleDB.SearchHist.Ghist_base (the part that does not read the trace) *)
Lemma Gres_base (C : Prop) (GP : cdbT -> list key -> list key -> list event -> Prop) (U : Z -> Prop) :
  (mode =? 0) = true -> forall s sym start ends r,
  Inv T C GP s -> rule_good T r -> (running s = true -> ProofsCore.labelled T U (cdb s) sym start ends r) ->
  Gs Gres s -> Gs Gres (base_add T (emit (EvAdd start ends (r_sid r) (r_parent r)) s) start ends r).
Proof.
  intros Hm s sym start ends r I G Hl Hg. unfold Gs in *.
  destruct (running s) eqn:R.
  2:{ assert (emit (EvAdd start ends (r_sid r) (r_parent r)) s = s) as -> by (unfold emit; rewrite R; reflexivity).
      rewrite (dead_base_add T s start ends r R). exact Hg. }
  intros _. destruct (Hg Hm) as (a & l & Ha & Hd & Hr & He).
  destruct I as (W & _).
  destruct (labelled_add_pre T Hunary Hfaith U (cdb s) sym start ends r W G (Hl eq_refl)) as (cs & Hpre & Hk & Hf).
  set (s0 := emit (EvAdd start ends (r_sid r) (r_parent r)) s).
  assert (running s0 = true /\ cdb s0 = cdb s /\ rstore s0 = rstore s /\ estore s0 = estore s) as (R0 & Hc0 & Hr0 & He0).
  { unfold s0, emit. rewrite R. unfold running in *. simpl. auto. }
  set (x := mkH (cdb s) start ends r cs).
  assert (add_pre T (b_cdb dstore a) start ends r cs) as Hpre' by (rewrite Hd; exact Hpre).
  pose proof (hl_add T l a x Ha (eq_sym Hd) Hpre' Hk Hf) as Ha'. cbn [h_start h_ends h_r x] in Ha'.
  destruct (dict_add_spec T a start ends r cs Hpre' Hk) as (Hstat & _).
  destruct Hpre as (_ & Hc & _).
  pose proof (base_add_is_dict_add T s0 a start ends r cs R0 Hc) as HB. cbv zeta in HB.
  rewrite Hd, Hc0, Hr, Hr0, He, He0 in HB. specialize (HB eq_refl eq_refl eq_refl).
  destruct (running (base_add T s0 start ends r)) eqn:R'.
  2:{ destruct HB as (HB & _). cbv zeta in Hstat. congruence. }
  destruct HB as (_ & HB1 & HB2 & HB3).
  exists (dict_add T a start ends r), (x :: l). split; [exact Ha'|]. split; [exact HB1|]. split; [exact HB2|exact HB3].
Qed.

Hypothesis Hpe : pe_contract T pack. (* in-section *)
Hypothesis Hsym : sym_contract T. (* in-section *)

Section Machine.
Variable F : nat.
Variable expand_verified : bool.
Variable inferral_strategies : list Z.
Variable initial_strategies : list Z.
Variable expansion_strats : list (list Z).

Notation run_calls_st := (run_calls_st T mode F expand_verified inferral_strategies initial_strategies expansion_strats).
Notation init_sstate := (init_sstate T mode F inferral_strategies initial_strategies expansion_strats).

(* every script of auto_search calls from __init__ (pruning database): the state it leaves has the class
   database and the two key sets of a RuleDB state reached by add_hist, and a truthful emptiness cache *)
Theorem resumed_search_gives_add_hist mult ans start cs outs s' es k' extra' :
  (mode =? 0) = true ->
  run_calls_st mult (fst (init_sstate ans start)) 0 0 cs = (outs, s', es, k', extra') ->
  Forall (fun e => match e with SPacket p _ => incl (p_sids p) pack | _ => True end) es ->
  exists a l, add_hist_l T l a /\ b_cdb dstore a = cdb (core s') /\
              d_keys (b_r dstore a) = rstore (core s') /\ d_keys (b_e dstore a) = estore (core s') /\
              EOK (cdb (core s')).
Proof.
  intros Hm H Hpk.
  assert (Forall (sev_in_pack True pack) es) as Hp.
  { eapply Forall_impl; [|exact Hpk]. intros [p e0| |]; simpl; auto. }
  destruct (search_events_ok T mode F expand_verified inferral_strategies initial_strategies expansion_strats
              True pack Gres Gres_frame Gres_skip Gres_forest (fun _ Hm0 => Gres_base True Gres _ Hm0) Gres_init Gres_forget
              (fun _ => Hpe) (fun _ => Hsym) mult ans start cs outs s' es k' extra' H Hp) as ((_ & E & _ & Gh) & _).
  destruct (Gh Logic.I Hm) as (a & l & A & B & D & E1). exists a, l. csplit; auto.
Qed.

(* ... hence (composition with C02: Spec/FindRuleProofs.dict_find_rule_total) SpecificationRuleExtractor._find_rule
   is total on the rule database an interrupted / resumed search leaves: every key of rule_to_strategy and every
   key of eqv_rule_to_strategy (both ways) is turned back into a rule filed under exactly that key.  The analogue
   of C02_search_find_rule_total for every script of calls; its clause about the edges handed to the equivalence
   database is not carried over (Gres does not follow the trace). *)
Theorem resumed_search_find_rule_total (cap : Z -> bool) mult ans start cs outs s' es k' extra' :
  (mode =? 0) = true ->
  (forall sid c e, entry_of T sid c = Some e -> e_two_way e = true -> cap sid = true) ->
  (forall sid c e, entry_of T sid c = Some e -> e_two_way e = true -> e_reversible e = true) ->
  run_calls_st mult (fst (init_sstate ans start)) 0 0 cs = (outs, s', es, k', extra') ->
  Forall (fun e => match e with SPacket p _ => incl (p_sids p) pack | _ => True end) es ->
  let s := core s' in
  let d := cdb s in
  exists a, add_hist T a /\ b_cdb dstore a = d /\ d_keys (b_r dstore a) = rstore s /\ d_keys (b_e dstore a) = estore s /\
  let fr := find_rule T cap (dict_lookup (b_r dstore a)) (dict_lookup (b_e dstore a)) d in
  (forall p cs0, In (p, cs0) (rstore s) ->
     exists f, fr p cs0 = (d, inl f) /\ form_key T d f = Some (p, cs0)) /\
  (forall p cs0, In (p, cs0) (estore s) ->
     exists c, cs0 = [c] /\
     ((forall C, label_of Z.eqb (fun c : Z => c) d C = Some c -> oracle T C = false) ->
      exists f, fr p [c] = (d, inl f) /\ form_key T d f = Some (p, [c])) /\
     ((forall C, label_of Z.eqb (fun c : Z => c) d C = Some p -> oracle T C = false) ->
      exists f', fr c [p] = (d, inl f') /\ form_key T d f' = Some (c, [p]))).
Proof.
  intros Hm Hcap Hrev H Hpk s d.
  destruct (resumed_search_gives_add_hist mult ans start cs outs s' es k' extra' Hm H Hpk)
    as (a & l & A & B & Dr & De & E).
  fold s in B, Dr, De, E. fold d in B, E.
  pose proof (add_hist_l_hist T l a A) as Ha.
  pose proof (add_hist_inv T a Ha) as (W & _ & Heq & _).
  exists a. split; [exact Ha|]. split; [exact B|]. split; [exact Dr|]. split; [exact De|].
  assert (forall c l0, label_of Z.eqb (fun c : Z => c) (b_cdb dstore a) c = Some l0 -> empv T (b_cdb dstore a) c = oracle T c) as Htruth.
  { intros c l0 H0. apply (empv_truthful T (b_cdb dstore a) c l0 W); [rewrite B; exact E|exact H0]. }
  assert (forall k sid, d_get k (b_e dstore a) = Some sid -> cap sid = true) as Hcap'.
  { intros k sid H0. destruct (Heq k sid H0) as (P & e0 & _ & _ & Htw).
    unfold r_two_way in Htw. rewrite rule_of_sid, rule_of_parent in Htw.
    destruct (r_kind (rule_of T sid P)); try discriminate.
    destruct (entry_of T sid P) as [e|] eqn:Ee; [|discriminate]. apply (Hcap sid P e Ee Htw). }
  destruct (dict_find_rule_total T cap a Ha Htruth Hcap' Hrev) as (R1 & _ & R3). rewrite B in R1, R3.
  cbv zeta. split.
  - intros p cs0 Hin. rewrite <- Dr in Hin. destruct (d_keys_get _ _ Hin) as (sid & Hg). apply (R1 p cs0 sid Hg).
  - intros p cs0 Hin. rewrite <- De in Hin. destruct (d_keys_get _ _ Hin) as (sid & Hg). apply (R3 p cs0 sid Hg).
Qed.

End Machine.
End ResumeHist.
