(* sx interface of the deciders of Searcher/Deciders.v, shared by run_c02 / run_c14 (run_c17 has the whole table in
   its table part and calls hyp_bits itself).
   The table (empty bits, strategies) and nocap are the ones the calling run function decoded for its own model run;
   the extra input field h supplies what that run did not need:
     h = ( ver-sids sym-sids queue-pack packets )     or () = print nothing  (then the output is ())
       queue-pack: the strategies the work queue may hand out (initial + inferral + expansion sets: `pack` of
                   Searcher/Contracts.v); packets = ((label (sid ...) inferral) ...) as in Searcher/Run.v
   output = ( search_hyps_b  find_rule_hyps_b&&packets_inb  pe_contractb sym_contractb sym_unaryb items_plainb
              packets_inb cap_okb rev_okb )        (Deciders.hyp_bits) *)
From Coq Require Import ZArith List Bool.
From CSS Require Import Base.Sx Base.PyList ClassDB.Model Searcher.Model Searcher.Run Searcher.Contracts Searcher.Deciders.
Import ListNotations.
Open Scope Z_scope.

Definition run_hyps (empty : list Z) (strats : list strat) (nocap : list Z) (h : sx) : sx :=
  match sx_list h with
  | [] => L []
  | _ =>
      let T := mkT empty strats (sx_Zs (sx_nth h 0)) (sx_Zs (sx_nth h 1)) in
      let pack := sx_Zs (sx_nth h 2) in
      let ps := map dec_packet (sx_list (sx_nth h 3)) in
      L (map of_bool (hyp_bits T pack (fun sid => negb (mem sid nocap)) ps))
  end.
