(* sx interface of the searcher model.
   input  = [ [mode; expand_verified; do_level; fuel; start];
              empty bits; strats; ver sids; sym sids; packets; answers ]
     strat  = [kind; [ip; inf; pe; work]; apply; items]
     apply  = [[c; [children]; two_way; reversible; [shifts]] ...]
     items  = [[c; [[sid; on (or -1 for None); lazy] ...]] ...]
     packet = [label; [sids]; inferral]
   output = [ status; unused answers; events (oldest first); classes by label;
              cached emptiness by label; sorted tried_to_verify; sorted
              symmetry_expanded; sorted inferral_expanded;
              len(rule_to_strategy); len(eqv_rule_to_strategy); sorted _already_empty ]
   mode = 100 (compatible extension): the decision procedures of Searcher/Contracts.v instead of a run;
     input has an 8th field `pack` (the strategies the queue may hand out); output =
     [ pe_contractb T pack; sym_contractb T; sym_unaryb T; packets_inb pack packets; items_plainb T ]
   mode = 101 (compatible extension): output = [ sym_fwdb T ] (Searcher/SymFwd.v) *)
From Coq Require Import ZArith List Bool.
From CSS Require Import Base.Sx Base.PyList ClassDB.Model Searcher.Model Searcher.Contracts Searcher.SymFwd.
Import ListNotations.
Open Scope Z_scope.

Definition dec_entry (s : sx) : Z * entry :=
  (sx_Z (sx_nth s 0),
   mkE (sx_Zs (sx_nth s 1)) (sx_bool (sx_nth s 2)) (sx_bool (sx_nth s 3)) (sx_Zs (sx_nth s 4))).

Definition dec_item (s : sx) : item :=
  let on := sx_Z (sx_nth s 1) in
  mkI (sx_Z (sx_nth s 0)) (if on <? 0 then None else Some on) (sx_bool (sx_nth s 2)).

Definition dec_items (s : sx) : Z * list item :=
  (sx_Z (sx_nth s 0), map dec_item (sx_list (sx_nth s 1))).

Definition dec_strat (s : sx) : strat :=
  let f := sx_nth s 1 in
  mkS (sx_Z (sx_nth s 0))
      (sx_bool (sx_nth f 0)) (sx_bool (sx_nth f 1)) (sx_bool (sx_nth f 2)) (sx_bool (sx_nth f 3))
      (map dec_entry (sx_list (sx_nth s 2)))
      (map dec_items (sx_list (sx_nth s 3))).

Definition dec_packet (s : sx) : packet :=
  mkP (sx_Z (sx_nth s 0)) (sx_Zs (sx_nth s 1)) (sx_bool (sx_nth s 2)).

Definition enc_event (e : event) : sx :=
  match e with
  | EvAdd a ends sid p => L [I 0; I a; of_Zs ends; I sid; I p]
  | EvSetEmpty l v => L [I 1; I l; of_bool v]
  | EvQAdd l => L [I 2; I l]
  | EvQNotInf l => L [I 3; I l]
  | EvQStop l => L [I 4; I l]
  | EvVerified l => L [I 5; I l]
  | EvEdge tw a b => L [I 6; of_bool tw; I a; I b]
  | EvStore eqv a ends sid p => L [I 7; of_bool eqv; I a; of_Zs ends; I sid; I p]
  | EvPop a ends => L [I 8; I a; of_Zs ends]
  | EvKey p cs sh b => L [I 9; I p; of_Zs cs; of_Zs sh; I b]
  end.

Definition enc_status (x : status) : Z :=
  match x with Running => 0 | OutOfFuel => 99 | Failed c => c end.

Definition enc_empty (e : option bool) : sx :=
  match e with None => I (-1) | Some b => of_bool b end.

Fixpoint dedup (l : list Z) : list Z :=
  match l with
  | [] => []
  | x :: t => if mem x t then dedup t else x :: dedup t
  end.

Definition run_c04 (inp : sx) : sx :=
  let h := sx_Zs (sx_nth inp 0) in
  let g n := nth n h 0 in
  let T := mkT (sx_Zs (sx_nth inp 1)) (map dec_strat (sx_list (sx_nth inp 2)))
               (sx_Zs (sx_nth inp 3)) (sx_Zs (sx_nth inp 4)) in
  let ps := map dec_packet (sx_list (sx_nth inp 5)) in
  let ans := map sx_bool (sx_list (sx_nth inp 6)) in
  if g 0%nat =? 100 then
    let pack := sx_Zs (sx_nth inp 7) in
    L [ of_bool (pe_contractb T pack); of_bool (sym_contractb T); of_bool (sym_unaryb T);
        of_bool (packets_inb pack ps); of_bool (items_plainb T) ]
  else if g 0%nat =? 101 then
    (* mode 101 (compatible extension): the decider of sym_fwd (Searcher/SymFwd.v), the hypothesis of the
       one-sided emptiness theorems C04_dropped_only_if_empty_fwd / C04_set_empty_true_truthful /
       C04_cache_empty_truthful_one_sided *)
    L [ of_bool (sym_fwdb T) ]
  else
  let s := run_search T (g 0%nat) (Z.to_nat (g 3%nat)) (negb (g 2%nat =? 0)) (negb (g 1%nat =? 0))
             ans (g 4%nat) ps in
  L [ I (enc_status (stat s)); of_nat (length (answers s));
      L (map enc_event (rev (trace s)));
      of_Zs (classes (cdb s)); L (map enc_empty (empties (cdb s)));
      of_Zs (isort (tried s)); of_Zs (isort (dedup (symexp s))); of_Zs (isort (infexp s));
      of_nat (length (rstore s)); of_nat (length (estore s)); of_Zs (isort (already s)) ].
