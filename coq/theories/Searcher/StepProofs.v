(* C17: proofs about the packet-level state machine of Searcher/Step.v.

   - step_with_last: the local variable last_label of _expand_classes_for is
     only a cache: a turn of the loop that reuses the class of the previous
     packet does what a turn that asks the class database does (uses the C04
     invariant: a label, once given, never changes its class);
   - expand_loop_iterate / auto_st_iterate / run_calls_iterate: whatever the
     clock, the limits and the answers of has_specification are, the state
     after a slice / a call / a sequence of calls is `iterate step n` of the
     state before, n = number of next(queue) calls made, and the events are
     those of `iterate`;
   - iterate_add: resumption composes;
   - members: step is a function of the members (+ environment) only. *)
From Coq Require Import ZArith List Bool Lia.
From CSS Require Import Base.PyList ClassDB.Model ClassDB.Proofs Gen.Prelude Gen.ReverseShifts
  Searcher.Model Searcher.Inv Searcher.Proofs Searcher.Slicing Searcher.Step.
From CSS Require Queue.Model Queue.Termination Queue.Trace.
Import ListNotations.
Open Scope Z_scope.

(* ------------------------------------------------------------ norm *)
Lemma norm_idem c : norm (norm c) = norm c.
Proof. reflexivity. Qed.
Lemma norm_running c : running (norm c) = running c.
Proof. reflexivity. Qed.
Lemma norm_cdb c : cdb (norm c) = cdb c.
Proof. reflexivity. Qed.
Lemma norm_fail n c : norm (fail n c) = fail n (norm c).
Proof. unfold fail. rewrite norm_running. destruct (running c); reflexivity. Qed.

Lemma with_cdb_same (s : st) : with_cdb s (cdb s) = s.
Proof. destruct s; reflexivity. Qed.

Section StepProofs.
Variable T : table.
Variable mode : Z.
Variable F : nat.
Variable expand_verified : bool.
Variable inferral_strategies : list Z.
Variable initial_strategies : list Z.
Variable expansion_strats : list (list Z).

Notation Inv := (Inv T False Gtriv).
Notation leq := (leq T False Gtriv).
Notation lbl := (label_of Z.eqb (fun c : Z => c)).
Notation step_with := (step_with T mode F expand_verified inferral_strategies initial_strategies expansion_strats).
Notation step := (step T mode F expand_verified inferral_strategies initial_strategies expansion_strats).
Notation iterate := (iterate T mode F expand_verified inferral_strategies initial_strategies expansion_strats).
Notation process := (process T mode F expand_verified).
Notation expand_loop := (expand_loop T mode F expand_verified inferral_strategies initial_strategies expansion_strats).
Notation expand_classes_for := (expand_classes_for T mode F expand_verified inferral_strategies initial_strategies expansion_strats).
Notation auto_st := (auto_st T mode F expand_verified inferral_strategies initial_strategies expansion_strats).
Notation auto_search_st := (auto_search_st T mode F expand_verified inferral_strategies initial_strategies expansion_strats).
Notation run_calls_st := (run_calls_st T mode F expand_verified inferral_strategies initial_strategies expansion_strats).
Notation init_sstate := (init_sstate T mode F inferral_strategies initial_strategies expansion_strats).
Notation qnext := (Queue.Model.next inferral_strategies initial_strategies expansion_strats).
Notation q_apply := (q_apply inferral_strategies initial_strategies).

(* the contract-free invariant of C04 needs no table contracts *)
Lemma no_pe : False -> Contracts.pe_contract T [].
Proof. intros []. Qed.
Lemma no_sym : False -> Contracts.sym_contract T.
Proof. intros []. Qed.

Lemma Inv_norm c : Inv c -> Inv (norm c).
Proof. intros (W & E & _). unfold Inv.Inv; simpl. split; [exact W|split; [exact E|split; [constructor|intros []]]]. Qed.

Lemma last_ok_norm c last : last_ok c last -> last_ok (norm c) last.
Proof. intros H l x E. exact (H l x E). Qed.
Lemma last_ok_norm' c last : last_ok (norm c) last -> last_ok c last.
Proof. intros H l x E. exact (H l x E). Qed.

(* ------------------------------------------- last_label is only a cache *)
Lemma get_class_cached (c : st) l x : Inv c -> running c = true -> lbl (cdb c) x = Some l ->
  get_class_l T c l = (c, x).
Proof.
  intros (W & _) R H. unfold get_class_l, cdb_op. rewrite R. cbn [ClassDB.Model.step].
  rewrite (get_class_of_label Z.eqb Zeqb_spec (fun c : Z => c) (fun k : Z => k) id_inv (cdb c) x l W H).
  rewrite with_cdb_same. reflexivity.
Qed.

Lemma packet_step_last c last p : Inv c -> running c = true -> last_ok c last ->
  packet_step T mode F false expand_verified (c, last) p = packet_step T mode F false expand_verified (c, None) p.
Proof.
  intros I R Hl. unfold packet_step. destruct last as [[ll lc]|]; auto.
  destruct (p_label p =? ll) eqn:E; auto.
  apply Z.eqb_eq in E. rewrite E.
  rewrite (get_class_cached c ll lc I R (Hl ll lc eq_refl R)). reflexivity.
Qed.

Lemma process_last c last p : Inv c -> running c = true -> last_ok c last ->
  process c last p = process c None p.
Proof.
  intros I R Hl. unfold Step.process.
  rewrite (packet_step_last (norm c) last p (Inv_norm c I) R (last_ok_norm c last Hl)). reflexivity.
Qed.

Lemma step_with_last s last s' last' e : Inv (core s) -> last_ok (core s) last ->
  step_with last s = (s', last', e) -> step s = (s', e).
Proof.
  intros I Hl H. unfold Step.step. unfold Step.step_with in *.
  destruct (negb (running (norm (core s)))) eqn:R.
  - injection H as <- _ <-. reflexivity.
  - apply negb_false_iff in R.
    destruct (qnext (que s)) as [[qp| | |] q1].
    + rewrite (process_last (norm (core s)) last (to_packet qp) (Inv_norm _ I) R (last_ok_norm _ _ Hl)) in H.
      destruct (process (norm (core s)) None (to_packet qp)) as [[c1 l1] evs].
      injection H as <- _ <-. reflexivity.
    + injection H as <- _ <-. reflexivity.
    + injection H as <- _ <-. reflexivity.
    + injection H as <- _ <-. reflexivity.
Qed.

(* the invariant (and the cache's justification) survives a turn of the loop *)
Lemma step_with_inv s last s' last' e : Inv (core s) -> last_ok (core s) last ->
  step_with last s = (s', last', e) -> Inv (core s') /\ last_ok (core s') last'.
Proof.
  intros I Hl H. unfold Step.step_with in H.
  pose proof (Inv_norm _ I) as In. pose proof (last_ok_norm _ _ Hl) as Hn.
  destruct (negb (running (norm (core s)))).
  - injection H as <- <- _. simpl. auto.
  - destruct (qnext (que s)) as [[qp| | |] q1].
    + unfold Step.process in H.
      destruct (packet_step T mode F false expand_verified (norm (norm (core s)), last) (to_packet qp))
        as [c1 l1] eqn:Ep.
      injection H as <- <- _. simpl.
      rewrite norm_idem in Ep.
      destruct (packet_step_ok0 T mode False [] no_pe no_sym F false expand_verified _ _ _ _ _ (fun f : False => match f with end) In Hn Ep) as (L & Hl1).
      split; [apply Inv_norm; apply (leq_inv _ _ _ _ _ L)|apply last_ok_norm; auto].
    + injection H as <- <- _. simpl. auto.
    + injection H as <- <- _. simpl.
      pose proof (fail_ok T False Gtriv 9 _ In) as L.
      split; [apply (leq_inv _ _ _ _ _ L)|].
      intros l x E. apply (RL_leq T False Gtriv _ _ x l In L). apply (Hn l x E).
    + injection H as <- <- _. simpl.
      pose proof (fail_ok T False Gtriv 9 _ In) as L.
      split; [apply (leq_inv _ _ _ _ _ L)|].
      intros l x E. apply (RL_leq T False Gtriv _ _ x l In L). apply (Hn l x E).
Qed.

Lemma step_inv s s' e : Inv (core s) -> step s = (s', e) -> Inv (core s').
Proof.
  intros I H. unfold Step.step in H.
  destruct (step_with None s) as [[s1 l1] e1] eqn:E. injection H as <- <-.
  apply (step_with_inv s None s1 l1 e1 I); auto. intros l x; discriminate.
Qed.

Lemma iterate_inv n : forall s s' es, Inv (core s) -> iterate n s = (s', es) -> Inv (core s').
Proof.
  induction n as [|n IH]; intros s s' es I H; simpl in H.
  - injection H as <- _. auto.
  - destruct (step s) as [s1 e] eqn:E1. destruct (iterate n s1) as [s2 es2] eqn:E2.
    injection H as <- _. eapply IH; [|exact E2]. eapply step_inv; eauto.
Qed.

Lemma init_sstate_inv ans start : Inv (core (fst (init_sstate ans start))).
Proof.
  unfold Step.init_sstate. simpl. apply Inv_norm.
  apply (searcher_init_ok0 T mode False [] no_pe no_sym).
Qed.

(* ------------------------------------------------------ iterate composes *)
Lemma iterate_length n : forall s s' es, iterate n s = (s', es) -> length es = n.
Proof.
  induction n as [|n IH]; intros s s' es H; simpl in H.
  - injection H as _ <-. reflexivity.
  - destruct (step s) as [s1 e]. destruct (iterate n s1) as [s2 es2] eqn:E2.
    injection H as _ <-. simpl. f_equal. eapply IH; eauto.
Qed.

Theorem iterate_add k1 k2 s :
  iterate (k1 + k2) s =
  let '(s1, e1) := iterate k1 s in let '(s2, e2) := iterate k2 s1 in (s2, e1 ++ e2).
Proof.
  revert s. induction k1 as [|k1 IH]; intros s; simpl.
  - destruct (iterate k2 s); reflexivity.
  - destruct (step s) as [s1 e]. rewrite IH.
    destruct (iterate k1 s1) as [s2 e1]. destruct (iterate k2 s2) as [s3 e2]. reflexivity.
Qed.

Lemma iterate_app_events s n s1 es1 m s2 es2 :
  iterate n s = (s1, es1) -> iterate m s1 = (s2, es2) -> iterate (n + m) s = (s2, es1 ++ es2).
Proof. intros H1 H2. rewrite iterate_add, H1, H2. reflexivity. Qed.

Lemma iterate_one s s' e : step s = (s', e) -> iterate 1 s = (s', [e]).
Proof. intros H. simpl. rewrite H. reflexivity. Qed.

(* ------------------------------------------------- a slice is an iterate *)
Lemma expand_loop_iterate fuel e k0 : forall s last k s' k' r es,
  Inv (core s) -> last_ok (core s) last ->
  expand_loop fuel e k0 s last k = (s', k', r, es) ->
  iterate (length es) s = (s', es) /\
  k' = k + Z.of_nat (length (filter is_packet es)).
Proof.
  induction fuel as [|f IH]; intros s last k s' k' r es I Hl H; simpl in H.
  - injection H as <- <- _ <-. simpl. split; auto. lia.
  - destruct (step_with last s) as [[s1 last1] ev] eqn:Es.
    pose proof (step_with_last s last s1 last1 ev I Hl Es) as Hs.
    destruct (step_with_inv s last s1 last1 ev I Hl Es) as (I1 & Hl1).
    destruct ev as [p evs| |].
    + destruct (negb (running (core s1))).
      { injection H as <- <- _ <-. split; [apply iterate_one; auto|simpl; lia]. }
      destruct (e <? k + 1 - k0).
      { injection H as <- <- _ <-. split; [apply iterate_one; auto|simpl; lia]. }
      destruct (expand_loop f e k0 s1 last1 (k + 1)) as [[[s2 k2] r2] es2] eqn:E2.
      injection H as <- <- _ <-.
      destruct (IH _ _ _ _ _ _ _ I1 Hl1 E2) as (Hi & Hk).
      split.
      * change (length (SPacket p evs :: es2)) with (1 + length es2)%nat.
        apply (iterate_app_events s 1 s1 [SPacket p evs] (length es2) s2 es2); auto.
        apply iterate_one; auto.
      * simpl. lia.
    + injection H as <- <- _ <-. split; [apply iterate_one; auto|simpl; lia].
    + injection H as <- <- _ <-. split; [apply iterate_one; auto|simpl; lia].
Qed.

Lemma expand_classes_for_iterate e s k s' k' r es : Inv (core s) ->
  expand_classes_for e s k = (s', k', r, es) ->
  iterate (length es) s = (s', es) /\ k' = k + Z.of_nat (length (filter is_packet es)).
Proof.
  intros I H. unfold Step.expand_classes_for in H.
  eapply expand_loop_iterate; [exact I| |exact H]. intros l x; discriminate.
Qed.

(* the loop bound of expand_classes_for is never what stops the loop *)
Lemma expand_loop_no_fuel fuel e k0 : forall s last k s' k' r es,
  (0 < fuel)%nat -> e - (k - k0) < Z.of_nat fuel ->
  expand_loop fuel e k0 s last k = (s', k', r, es) -> r <> XFuel.
Proof.
  induction fuel as [|f IH]; intros s last k s' k' r es Hp Hf H; [lia|]. simpl in H.
  destruct (step_with last s) as [[s1 last1] ev].
  destruct ev as [p evs| |]; try (injection H as _ _ <- _; discriminate).
  destruct (negb (running (core s1))); [injection H as _ _ <- _; discriminate|].
  destruct (e <? k + 1 - k0) eqn:El; [injection H as _ _ <- _; discriminate|].
  apply Z.ltb_ge in El.
  destruct (expand_loop f e k0 s1 last1 (k + 1)) as [[[s2 k2] r2] es2] eqn:E2.
  injection H as _ _ <- _.
  apply (IH _ _ _ _ _ _ _) in E2; auto; lia.
Qed.

Lemma expand_classes_for_no_fuel e s k s' k' r es :
  expand_classes_for e s k = (s', k', r, es) -> r <> XFuel.
Proof.
  intros H. unfold Step.expand_classes_for in H.
  eapply expand_loop_no_fuel; [| |exact H]; lia.
Qed.

(* --------------------------------------------------- a call is an iterate *)
Lemma auto_st_iterate mult maxt fuel : forall s k extra t0 e ds hs calls o calls' extra' s' es,
  Inv (core s) ->
  auto_st mult maxt fuel s k extra t0 e ds hs calls = (o, calls', extra', s', es) ->
  iterate (length es) s = (s', es) /\
  (match o with Ret OutOfFuel => True | _ => end_count o k = k + Z.of_nat (length (filter is_packet es)) end).
Proof.
  induction fuel as [|f IH]; intros s k extra t0 e ds hs calls o calls' extra' s' es I H; simpl in H.
  - injection H as <- _ _ <- <-. simpl. auto.
  - destruct (expand_classes_for e s k) as [[[s1 k1] r] es1] eqn:E1.
    destruct (expand_classes_for_iterate _ _ _ _ _ _ _ I E1) as (Hi & Hk).
    destruct r as [expanding| |].
    + destruct (hd false hs). { injection H as <- _ _ <- <-. split; auto. }
      destruct (match maxt with Some m => m <? k1 + (extra + hd 0 ds) - t0 | None => false end).
      { injection H as <- _ _ <- <-. split; auto. }
      destruct expanding.
      * destruct (auto_st mult maxt f s1 k1 (extra + hd 0 ds) t0 (Z.min (mult * hd 0 ds) 3600) (tl ds) (tl hs)
                    (calls ++ [k1])) as [[[[o2 c2] x2] s2] es2] eqn:E2.
        injection H as <- _ _ <- <-.
        assert (Inv (core s1)) as I1 by (eapply iterate_inv; eauto).
        destruct (IH _ _ _ _ _ _ _ _ _ _ _ _ _ I1 E2) as (Hi2 & Hk2).
        split.
        -- rewrite app_length. eapply iterate_app_events; eauto.
        -- rewrite filter_app, app_length.
           destruct o2 as [[x|x|x|]|x]; simpl in *; auto; lia.
      * injection H as <- _ _ <- <-. split; auto.
    + injection H as <- _ _ <- <-. split; auto.
    + injection H as <- _ _ <- <-. split; auto.
Qed.

(* SpecificationNotFound is only raised right after next(queue) found the queue dry *)
Lemma expand_loop_dry fuel e k0 : forall s last k s' k' es,
  expand_loop fuel e k0 s last k = (s', k', XDone false, es) -> exists pre, es = pre ++ [SDry].
Proof.
  induction fuel as [|f IH]; intros s last k s' k' es H; simpl in H; [discriminate|].
  destruct (step_with last s) as [[s1 last1] ev].
  destruct ev as [p evs| |].
  - destruct (negb (running (core s1))); [discriminate|].
    destruct (e <? k + 1 - k0); [discriminate|].
    destruct (expand_loop f e k0 s1 last1 (k + 1)) as [[[s2 k2] r2] es2] eqn:E2.
    injection H as <- <- -> <-. destruct (IH _ _ _ _ _ _ E2) as (pre & ->).
    exists (SPacket p evs :: pre). reflexivity.
  - injection H as <- <- <-. exists []. reflexivity.
  - discriminate.
Qed.

Lemma auto_st_notfound mult maxt fuel : forall s k extra t0 e ds hs calls kf calls' extra' s' es,
  auto_st mult maxt fuel s k extra t0 e ds hs calls = (Ret (NotFound kf), calls', extra', s', es) ->
  exists pre, es = pre ++ [SDry].
Proof.
  induction fuel as [|f IH]; intros s k extra t0 e ds hs calls kf calls' extra' s' es H; simpl in H; [discriminate|].
  destruct (expand_classes_for e s k) as [[[s1 k1] r] es1] eqn:E1.
  destruct r as [expanding| |]; try discriminate.
  destruct (hd false hs); [discriminate|].
  destruct (match maxt with Some m => m <? k1 + (extra + hd 0 ds) - t0 | None => false end); [discriminate|].
  destruct expanding.
  - destruct (auto_st mult maxt f s1 k1 (extra + hd 0 ds) t0 (Z.min (mult * hd 0 ds) 3600) (tl ds) (tl hs)
                (calls ++ [k1])) as [[[[o2 c2] x2] s2] es2] eqn:E2.
    injection H as -> _ _ _ <-. destruct (IH _ _ _ _ _ _ _ _ _ _ _ _ _ E2) as (pre & ->).
    exists (es1 ++ pre). rewrite app_assoc. reflexivity.
  - injection H as _ _ _ _ <-. unfold Step.expand_classes_for in E1.
    eapply expand_loop_dry; eauto.
Qed.

(* ------------------------------------- a sequence of calls is an iterate *)
Theorem run_calls_iterate mult : forall cs s k extra outs s' es k' extra',
  Inv (core s) ->
  run_calls_st mult s k extra cs = (outs, s', es, k', extra') ->
  iterate (length es) s = (s', es).
Proof.
  induction cs as [|[[maxt ds] hs] rest IH]; intros s k extra outs s' es k' extra' I H; simpl in H.
  - injection H as _ <- <- _ _. reflexivity.
  - destruct (auto_search_st mult maxt (S (S (length hs))) s k extra ds hs) as [[[[o pts] x1] s1] es1] eqn:E1.
    destruct (run_calls_st mult s1 (end_count o k) x1 rest) as [[[[outs2 s2] es2] k2] x2] eqn:E2.
    injection H as _ <- <- _ _.
    unfold Step.auto_search_st in E1.
    destruct (auto_st_iterate _ _ _ _ _ _ _ _ _ _ _ _ _ _ _ _ I E1) as (Hi & _).
    assert (Inv (core s1)) as I1 by (eapply iterate_inv; eauto).
    rewrite app_length. eapply iterate_app_events; eauto.
Qed.

(* calls compose: a script of calls split anywhere is the first part followed by
   the second part started where the first one stopped *)
Theorem run_calls_app mult : forall cs1 cs2 s k extra,
  run_calls_st mult s k extra (cs1 ++ cs2) =
  let '(o1, s1, e1, k1, x1) := run_calls_st mult s k extra cs1 in
  let '(o2, s2, e2, k2, x2) := run_calls_st mult s1 k1 x1 cs2 in (o1 ++ o2, s2, e1 ++ e2, k2, x2).
Proof.
  induction cs1 as [|[[maxt ds] hs] rest IH]; intros cs2 s k extra; simpl.
  - destruct (run_calls_st mult s k extra cs2) as [[[[o2 s2] e2] k2] x2]. reflexivity.
  - destruct (auto_search_st mult maxt (S (S (length hs))) s k extra ds hs) as [[[[o pts] x1] s1] es1].
    rewrite IH.
    destruct (run_calls_st mult s1 (end_count o k) x1 rest) as [[[[o1 s1'] e1] k1] x1'].
    destruct (run_calls_st mult s1' k1 x1' cs2) as [[[[o2 s2] e2] k2] x2].
    rewrite app_assoc. reflexivity.
Qed.

(* ---------------------------------------- no packet is lost, at any point *)
Lemma iterate_nth n : forall s s' es i si esi,
  iterate n s = (s', es) -> (i < n)%nat -> iterate i s = (si, esi) ->
  nth i es SDead = snd (step si) /\ fst (iterate (S i) s) = fst (step si).
Proof.
  induction n as [|n IH]; intros s s' es i si esi H Hi Hs; [lia|].
  simpl in H. destruct (step s) as [s1 e] eqn:E1. destruct (iterate n s1) as [s2 es2] eqn:E2.
  injection H as <- <-.
  destruct i as [|i].
  - simpl in Hs. injection Hs as <- <-. simpl. rewrite E1. simpl. auto.
  - simpl in Hs. rewrite E1 in Hs. destruct (iterate i s1) as [s3 es3] eqn:E3. injection Hs as <- <-.
    destruct (IH s1 s2 es2 i s3 es3 E2 ltac:(lia) E3) as (A & B).
    split; [exact A|].
    change (iterate (S (S i)) s) with (let '(s1, e) := step s in let '(s2, es) := iterate (S i) s1 in (s2, e :: es)).
    rewrite E1. destruct (iterate (S i) s1) as [s4 es4] eqn:E4. simpl. rewrite <- B. reflexivity.
Qed.

(* what a turn does when the queue hands out a packet *)
Lemma step_packet s qp q1 : running (core s) = true -> qnext (que s) = (Queue.Model.RPacket qp, q1) ->
  let p := to_packet qp in
  let '(c1, _, evs) := process (core s) None p in
  step s = (mkSS c1 (fold_left q_apply evs q1), SPacket p evs).
Proof.
  intros R Hq. unfold Step.step, Step.step_with. rewrite norm_running, R. simpl. rewrite Hq.
  unfold Step.process. rewrite norm_idem.
  destruct (packet_step T mode F false expand_verified (norm (core s), None) (to_packet qp)) as [c1 l1].
  reflexivity.
Qed.

(* next(queue) of the C16 model never fails *)
Lemma qnext_total q : match fst (qnext q) with Queue.Model.RPacket _ | Queue.Model.RStop => True | _ => False end.
Proof.
  pose proof (Queue.Termination.next_total inferral_strategies initial_strategies expansion_strats q) as X.
  destruct (qnext q) as [[p| | |] q']; cbn in *; tauto.
Qed.

(* at every point of a sliced run: a packet handed out is processed completely *)
Theorem no_packet_lost mult calls s k extra outs s' es k' extra' :
  Inv (core s) ->
  run_calls_st mult s k extra calls = (outs, s', es, k', extra') ->
  forall i si esi qp q1, (i < length es)%nat -> iterate i s = (si, esi) ->
    running (core si) = true -> qnext (que si) = (Queue.Model.RPacket qp, q1) ->
    let p := to_packet qp in
    let '(c1, _, evs) := process (core si) None p in
    nth i es SDead = SPacket p evs /\
    fst (iterate (S i) s) = mkSS c1 (fold_left q_apply evs q1).
Proof.
  intros I H i si esi qp q1 Hi Hs R Hq.
  pose proof (run_calls_iterate mult calls s k extra outs s' es k' extra' I H) as Hit.
  destruct (iterate_nth (length es) s s' es i si esi Hit Hi Hs) as (A & B).
  pose proof (step_packet si qp q1 R Hq) as P.
  cbv zeta in P |- *. destruct (process (core si) None (to_packet qp)) as [[c1 l1] evs].
  rewrite A, B, P. split; reflexivity.
Qed.

(* the number of packets handed out is what the clock counts: k advances by one per packet *)
Lemma run_calls_count mult : forall cs s k extra outs s' es k' extra',
  Inv (core s) ->
  run_calls_st mult s k extra cs = (outs, s', es, k', extra') ->
  Forall (fun o => fst (fst o) <> Ret OutOfFuel) outs ->
  k' = k + Z.of_nat (length (filter is_packet es)).
Proof.
  induction cs as [|[[maxt ds] hs] rest IH]; intros s k extra outs s' es k' extra' I H Hf; simpl in H.
  - injection H as _ _ <- <- _. simpl. lia.
  - destruct (auto_search_st mult maxt (S (S (length hs))) s k extra ds hs) as [[[[o pts] x1] s1] es1] eqn:E1.
    destruct (run_calls_st mult s1 (end_count o k) x1 rest) as [[[[outs2 s2] es2] k2] x2] eqn:E2.
    injection H as <- _ <- <- _.
    unfold Step.auto_search_st in E1.
    destruct (auto_st_iterate _ _ _ _ _ _ _ _ _ _ _ _ _ _ _ _ I E1) as (Hi & Hk).
    assert (Inv (core s1)) as I1 by (eapply iterate_inv; eauto).
    inversion Hf as [|x l Hx Hl]; subst. simpl in Hx.
    rewrite (IH _ _ _ _ _ _ _ _ I1 E2 Hl).
    rewrite filter_app, app_length.
    destruct o as [[x|x|x|]|x]; simpl in *; try lia. congruence.
Qed.

(* a turn that finds the queue dry leaves a state on which every further turn finds it dry
   and changes nothing: the turns counted by `iterate` beyond the packets are harmless *)
Lemma dry_is_stable s s1 : step s = (s1, SDry) -> step s1 = (s1, SDry).
Proof.
  unfold Step.step, Step.step_with.
  destruct (negb (running (norm (core s)))) eqn:R; [intros H; discriminate H|].
  destruct (qnext (que s)) as [[qp| | |] q1] eqn:Eq.
  - destruct (process (norm (core s)) None (to_packet qp)) as [[c1 l1] evs]. intros H; discriminate H.
  - intros [= <-]. simpl. rewrite norm_idem, R.
    rewrite (Queue.Trace.stop_again inferral_strategies initial_strategies expansion_strats _ _ Eq). reflexivity.
  - intros H; discriminate H.
  - intros H; discriminate H.
Qed.

(* ----------------------------------------------------------- members *)
Lemma of_members_of s : of_members (members_of s) = mkSS (norm (core s)) (que s).
Proof. reflexivity. Qed.

Lemma step_with_norm last s : step_with last (mkSS (norm (core s)) (que s)) = step_with last s.
Proof. unfold Step.step_with. simpl. rewrite norm_idem. reflexivity. Qed.

Theorem step_members s : step s = step (of_members (members_of s)).
Proof. rewrite of_members_of. unfold Step.step. rewrite step_with_norm. reflexivity. Qed.

Lemma step_with_normal last s s' last' e : step_with last s = (s', last', e) -> norm (core s') = core s'.
Proof.
  unfold Step.step_with. destruct (negb (running (norm (core s)))).
  - intros [= <- _ _]. reflexivity.
  - destruct (qnext (que s)) as [[qp| | |] q1].
    + unfold Step.process.
      destruct (packet_step T mode F false expand_verified (norm (norm (core s)), last) (to_packet qp)) as [c1 l1].
      intros [= <- _ _]. reflexivity.
    + intros [= <- _ _]. reflexivity.
    + intros [= <- _ _]. simpl. rewrite norm_fail, norm_idem. reflexivity.
    + intros [= <- _ _]. simpl. rewrite norm_fail, norm_idem. reflexivity.
Qed.

Theorem step_normal s s' e : step s = (s', e) -> of_members (members_of s') = s'.
Proof.
  unfold Step.step. destruct (step_with None s) as [[s1 l1] e1] eqn:E. intros [= <- <-].
  rewrite of_members_of, (step_with_normal _ _ _ _ _ E). destruct s1; reflexivity.
Qed.

End StepProofs.
