(* sym_fwd: the forward half of sym_contract (Searcher/Contracts.v) - the image of an EMPTY class under a symmetry
   is empty -, the only table hypothesis of the ONE-SIDED emptiness theorems (Searcher/OneSided*.v,
   C04_dropped_only_if_empty_fwd, C04_set_empty_true_truthful, C04_cache_empty_truthful_one_sided), and its decision
   procedure sym_fwdb (extracted in Searcher/Run.v run_c04, mode 101, and compared by the harness with the Python
   predicate harness/props/c04.py sym_fwd on every retained universe). *)
From Coq Require Import ZArith List Bool Lia.
From CSS Require Import Base.PyList ClassDB.Model Searcher.Model Searcher.Inv Searcher.Contracts.
Import ListNotations.
Open Scope Z_scope.

Definition sym_fwd (T : table) : Prop := forall sid c r c0 rest,
  In sid (t_sym T) -> In r (rules_from_strategy T sid c) -> rule_children T r = Some (c0 :: rest) ->
  oracle T c = true -> oracle T c0 = true.

Lemma sym_contract_fwd T : sym_contract T -> sym_fwd T.
Proof. intros H sid c r c0 rest H1 H2 H3 H4. rewrite (H sid c r c0 rest H1 H2 H3). exact H4. Qed.

Definition sym_fwd_rule_okb (T : table) (c : Z) (r : rule) : bool :=
  match rule_children T r with
  | Some (c0 :: _) => negb (oracle T c) || oracle T c0
  | _ => true
  end.
Definition sym_fwdb (T : table) : bool :=
  forallb (fun sid => forallb (fun c => forallb (sym_fwd_rule_okb T c) (rules_from_strategy T sid c)) (dom_of T sid)) (t_sym T).

Theorem sym_fwdb_spec T : sym_fwdb T = true <-> sym_fwd T.
Proof.
  unfold sym_fwdb, sym_fwd. rewrite forallb_forall. split.
  - intros H sid c r c0 rest Hs Hin Hc Ho. specialize (H sid Hs). rewrite forallb_forall in H.
    specialize (H c (rules_in_dom T sid c r Hin)). rewrite forallb_forall in H. specialize (H r Hin).
    unfold sym_fwd_rule_okb in H. rewrite Hc, Ho in H. simpl in H. exact H.
  - intros H sid Hs. apply forallb_forall. intros c _. apply forallb_forall. intros r Hin.
    unfold sym_fwd_rule_okb. destruct (rule_children T r) as [[|c0 rest]|] eqn:Hc; auto.
    destruct (oracle T c) eqn:Ho; simpl; auto. apply (H sid c r c0 rest Hs Hin Hc Ho).
Qed.
