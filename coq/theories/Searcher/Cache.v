(* C17: the derived cache of RuleDBBase (rule_db/base.py).

     self._pruned_dict : Optional[RulesDict]
       set to None by every add(...)                              (base.py, first line of add)
       filled by the property `pruned_dict`:
           rules_dict = self.rules_up_to_equivalence()   # connect_cycles + representatives
           prune(rules_dict) / iterative_prune(...)
           self._pruned_dict = rules_dict
           for ver_label in rules_dict.keys(): self.equivdb.set_verified(ver_label)
       read by has_specification():  self.equivdb[self.root_label] in self.pruned_dict

   No class of the package defines __getstate__/__reduce__, so pickle writes
   the cache along with everything else; nothing is "recomputed after
   unpickling".  What makes the cache harmless - for a pickled copy, for a
   copy whose cache was dropped, and for the searcher itself between two
   has_specification() calls - is the discipline "every add invalidates".

   The engines behind the cache (union-find with connect_cycles: C06; prune:
   C05) are abstract here: Section variables.  `recompute` is the whole body of
   the property; note that it is NOT pure: it connects cycles and marks every
   label of the result verified, and these effects on the equivalence database
   stay when the next add drops the cache.  The one contract needed is that
   doing it again at once changes nothing and finds the same dictionary
   (recompute_idem).  E stands for the equivalence database AS OBSERVED
   (partition into classes, verified set, edges), not for the union-find's
   parent pointers, which path compression rewrites on every lookup.  The
   harness checks the contract on the real code at every pickling point.  *)
From Coq Require Import ZArith List Bool.
Import ListNotations.
Open Scope Z_scope.

Section Cache.
Variable R : Type.      (* rule_to_strategy + eqv_rule_to_strategy *)
Variable E : Type.      (* the equivalence database, as observed *)
Variable D : Type.      (* a pruned rules dictionary *)
Variable K : Type.      (* what add(start, ends, rule) hands over *)
Variable r_add : R -> K -> R.
Variable e_add : E -> K -> E.                  (* set_verified / add_two_way_edge / add_one_way_edge of add *)
Variable recompute : R -> E -> D * E.          (* the body of the property pruned_dict *)
Variable root_in : E -> D -> bool.             (* self.equivdb[self.root_label] in pruned_dict *)
Variable e_isv : E -> Z -> bool.               (* equivdb.is_verified(label) *)

Hypothesis recompute_idem : forall r e d e', (* in-section *)
  recompute r e = (d, e') -> recompute r e' = (d, e').

Record rdb := mkDB { rules : R; eqv : E; cache : option D }.

(* RuleDBBase.add *)
Definition add (x : rdb) (k : K) : rdb := mkDB (r_add (rules x) k) (e_add (eqv x) k) None.

(* the property pruned_dict *)
Definition pruned_dict (x : rdb) : D * rdb :=
  match cache x with
  | Some d => (d, x)
  | None => let '(d, e') := recompute (rules x) (eqv x) in (d, mkDB (rules x) e' (Some d))
  end.

(* RuleDBBase.has_specification *)
Definition has_specification (x : rdb) : bool * rdb :=
  let '(d, x') := pruned_dict x in (root_in (eqv x') d, x').

(* RuleDBBase.is_verified *)
Definition is_verified (x : rdb) (l : Z) : bool := e_isv (eqv x) l.

(* the cache goes away (a copy made without it, `x._pruned_dict = None`) *)
Definition drop (x : rdb) : rdb := mkDB (rules x) (eqv x) None.

Inductive op := OAdd (k : K) | OHasSpec | OIsVerified (l : Z) | ODrop.
Definition is_drop (o : op) : bool := match o with ODrop => true | _ => false end.

Definition exec1 (x : rdb) (o : op) : rdb * list bool :=
  match o with
  | OAdd k => (add x k, [])
  | OHasSpec => let '(b, x') := has_specification x in (x', [b])
  | OIsVerified l => (x, [is_verified x l])
  | ODrop => (drop x, [])
  end.

(* a history; the answers of has_specification / is_verified in order *)
Fixpoint exec (x : rdb) (ops : list op) : rdb * list bool :=
  match ops with
  | [] => (x, [])
  | o :: t => let '(x1, a) := exec1 x o in
              let '(x2, b) := exec x1 t in (x2, a ++ b)
  end.

(* a cached dictionary is what recomputing would give, and recomputing would
   leave the equivalence database as it is *)
Definition cache_ok (x : rdb) : Prop :=
  match cache x with
  | None => True
  | Some d => recompute (rules x) (eqv x) = (d, eqv x)
  end.

(* equal up to the cache *)
Definition same (x y : rdb) : Prop := rules x = rules y /\ eqv x = eqv y /\ cache_ok x /\ cache_ok y.

Lemma cache_ok_exec1 x o : cache_ok x -> cache_ok (fst (exec1 x o)).
Proof.
  intros H. destruct o as [k| |l|]; simpl; auto; try exact I.
  unfold has_specification, pruned_dict. destruct (cache x) as [d|] eqn:Ec; simpl; auto.
  destruct (recompute (rules x) (eqv x)) as [d e'] eqn:Er. simpl.
  unfold cache_ok; simpl. apply (recompute_idem _ _ _ _ Er).
Qed.

Lemma same_drop x : cache_ok x -> same x (drop x).
Proof. intros H. unfold same; simpl. repeat split; auto. Qed.

Lemma has_spec_same x y : same x y ->
  fst (has_specification x) = fst (has_specification y) /\
  same (snd (has_specification x)) (snd (has_specification y)).
Proof.
  intros (Hr & He & Hx & Hy). unfold has_specification, pruned_dict.
  unfold cache_ok in Hx, Hy.
  destruct (cache x) as [dx|] eqn:Cx; destruct (cache y) as [dy|] eqn:Cy; simpl.
  - rewrite Hr, He in Hx. rewrite Hx in Hy. injection Hy as ->.
    rewrite He. split; auto. unfold same, cache_ok. rewrite Cx, Cy.
    repeat split; auto. rewrite Hr, He; auto.
  - rewrite <- Hr, <- He, Hx. simpl. split; auto.
    unfold same, cache_ok. rewrite Cx. simpl. repeat split; auto.
  - rewrite Hr, He, Hy. simpl. split; auto.
    unfold same, cache_ok. rewrite Cy. simpl. repeat split; auto.
  - rewrite Hr, He. destruct (recompute (rules y) (eqv y)) as [d e'] eqn:Er. simpl.
    split; auto. unfold same, cache_ok; simpl.
    repeat split; auto; apply (recompute_idem _ _ _ _ Er).
Qed.

Lemma exec1_same x y o : is_drop o = false -> same x y ->
  snd (exec1 x o) = snd (exec1 y o) /\ same (fst (exec1 x o)) (fst (exec1 y o)).
Proof.
  intros Ho S. destruct o as [k| |l|]; try discriminate; simpl.
  - destruct S as (Hr & He & _ & _). unfold same, cache_ok; simpl. rewrite Hr, He. repeat split; auto.
  - pose proof (has_spec_same x y S) as (A & B).
    destruct (has_specification x) as [bx x']. destruct (has_specification y) as [by' y']. simpl in *.
    rewrite A. auto.
  - destruct S as (Hr & He & Hx & Hy). unfold is_verified. rewrite He. split; auto.
    unfold same; auto.
Qed.

Lemma same_drop_l x y : same x y -> same (drop x) y.
Proof. intros (Hr & He & Hx & Hy). unfold same; simpl. repeat split; auto. Qed.
Lemma same_sym x y : same x y -> same y x.
Proof. intros (Hr & He & Hx & Hy). unfold same. repeat split; auto. Qed.

(* THE statement: two histories that differ only in where the cache was thrown
   away, run from two databases that differ only in whether the cache is
   there, give the same answers and end in databases that differ at most in
   the cache *)
Theorem cache_transparent : forall ops1 ops2 x y, same x y ->
  filter (fun o => negb (is_drop o)) ops1 = filter (fun o => negb (is_drop o)) ops2 ->
  snd (exec x ops1) = snd (exec y ops2) /\ same (fst (exec x ops1)) (fst (exec y ops2)).
Proof.
  induction ops1 as [|o1 t1 IH1].
  - induction ops2 as [|o2 t2 IH2]; intros x y S Hf; simpl in *; auto.
    destruct o2; simpl in Hf; try discriminate.
    specialize (IH2 x (drop y) (same_sym _ _ (same_drop_l _ _ (same_sym _ _ S))) Hf).
    simpl. destruct (exec (drop y) t2) as [y2 b]. simpl in *. auto.
  - intros ops2 x y S Hf. destruct (is_drop o1) eqn:D1.
    + destruct o1; try discriminate. simpl in Hf.
      specialize (IH1 ops2 (drop x) y (same_drop_l _ _ S) Hf).
      simpl. destruct (exec (drop x) t1) as [x2 b]. simpl in *. auto.
    + simpl in Hf. rewrite D1 in Hf. simpl in Hf.
      revert y S Hf. induction ops2 as [|o2 t2 IH2]; intros y S Hf; [discriminate|].
      destruct (is_drop o2) eqn:D2.
      * destruct o2; try discriminate. simpl in Hf.
        specialize (IH2 (drop y) (same_sym _ _ (same_drop_l _ _ (same_sym _ _ S))) Hf).
        simpl. destruct (exec (drop y) t2) as [y2 b]. simpl in *.
        destruct (exec1 x o1) as [x1 a]. destruct (exec x1 t1) as [x2 b2]. simpl in *. auto.
      * simpl in Hf. rewrite D2 in Hf. simpl in Hf. injection Hf as <- Hf.
        destruct (exec1_same x y o1 D1 S) as (A & B).
        specialize (IH1 t2 _ _ B Hf).
        simpl. destruct (exec1 x o1) as [x1 a1]. destruct (exec1 y o1) as [y1 a2]. simpl in *.
        destruct (exec x1 t1) as [x2 b1]. destruct (exec y1 t2) as [y2 b2]. simpl in *.
        destruct IH1 as (P & Q). rewrite A, P. auto.
Qed.

(* a fresh database and everything reachable from it by any history is cache_ok *)
Lemma cache_ok_exec ops : forall x, cache_ok x -> cache_ok (fst (exec x ops)).
Proof.
  induction ops as [|o t IH]; intros x H; simpl; auto.
  pose proof (cache_ok_exec1 x o H) as H1. destruct (exec1 x o) as [x1 a]. simpl in *.
  specialize (IH x1 H1). destruct (exec x1 t) as [x2 b]. auto.
Qed.

End Cache.

(* what goes wrong without the invalidation: an `add` that keeps the cache
   answers from a stale dictionary.  R = E = D = number of rules; a
   specification exists as soon as there is a rule. *)
Definition stale_add (x : rdb nat nat nat) : rdb nat nat nat := mkDB _ _ _ (S (rules _ _ _ x)) (eqv _ _ _ x) (cache _ _ _ x).
Example stale_cache_answers_wrongly :
  let recompute := fun (r e : nat) => (r, e) in
  let root_in := fun (_ d : nat) => negb (Nat.eqb d 0) in
  let x0 := mkDB nat nat nat 0%nat 0%nat None in
  let x1 := snd (has_specification _ _ _ recompute root_in x0) in
  fst (has_specification _ _ _ recompute root_in (stale_add x1)) = false /\
  fst (has_specification _ _ _ recompute root_in (add _ _ _ nat (fun r _ => S r) (fun e _ => e) x1 0%nat)) = true.
Proof. vm_compute. split; reflexivity. Qed.
