(* C17: pickling, at the level of this model.

   No class of comb_spec_searcher defines __getstate__, __setstate__,
   __reduce__, __reduce_ex__ or __getnewargs__ (checked by the harness on every
   run), so pickle.dumps(searcher) writes exactly the instance __dict__s
   reachable from the searcher, and pickle.loads rebuilds objects with those
   __dict__s.  At the level of the members this is the identity: `dump` writes
   the members, `load` reads them.

   The one thing that is NOT plain data is the SHARING inside the object graph:
     - ClassDB.comb_class_list / label_dict / empty_list are each ONE object
       referenced from three places: the ClassDB, its ClassToInfo and its
       LabelToInfo (class_db.py: ClassDB.__init__ hands the same three objects
       to both views).  ClassDB.add appends through the ClassDB's reference;
       every lookup reads through a view's reference.
     - ruledb._searcher refers back to the searcher the ruledb hangs off.
   `repr` makes this explicit: a heap of cells and, per object, the addresses
   it holds.  `dump` produces a well_shared graph and `load (dump s) = s`; but
   `load` (and with it the whole value-level model) cannot tell a well shared
   graph from one where the views hold equal COPIES (Example
   copies_look_the_same): that CPython's pickle memoises objects by identity
   and therefore restores the sharing is behaviour of the Python runtime,
   outside this model; the harness checks it (identity of the three lists and
   of the back reference after every unpickling) and checks its consequence
   (the unpickled copy continues through the same work). *)
From Coq Require Import ZArith List Bool.
From CSS Require Import Base.PyList ClassDB.Model Searcher.Model Searcher.Step.
Import ListNotations.
Open Scope Z_scope.

Inductive cell :=
| CClasses (l : list Z)                 (* comb_class_list *)
| CDict (d : list (Z * Z))              (* label_dict *)
| CEmpties (l : list (option bool)).    (* empty_list *)

(* the three references an object of class_db.py holds *)
Record view := mkV { v_classes : nat; v_dict : nat; v_empties : nat }.

Inductive objref := SameObject | OtherObject.

Record repr := mkRepr {
  heap : list cell;
  r_classdb : view;              (* ClassDB.__dict__ *)
  r_class_to_info : view;        (* ClassDB.class_to_info.__dict__ *)
  r_label_to_info : view;        (* ClassDB.label_to_info.__dict__ *)
  r_ncalls : nat;                (* ClassDB._empty_num_application *)
  r_queue : Queue.Model.queue;             (* classqueue.__dict__: deques, Counter, sets, list - plain data *)
  r_rules : list (Z * list Z);   (* ruledb *)
  r_eqv_rules : list (Z * list Z);
  r_already_empty : list Z;
  r_ruledb_searcher : objref;    (* ruledb._searcher *)
  r_tried : list Z;
  r_symexp : list Z;
  r_infexp : list Z;
  r_answers : list bool;         (* environment (see Step.v), carried along *)
  r_stat : status
}.

Definition dump (s : sstate) : repr :=
  let c := core s in
  let d := cdb c in
  mkRepr [CClasses (classes d); CDict (dict d); CEmpties (empties d)]
         (mkV 0 1 2) (mkV 0 1 2) (mkV 0 1 2) (ncalls d)
         (que s) (rstore c) (estore c) (already c) SameObject
         (tried c) (symexp c) (infexp c) (answers c) (stat c).

Definition get_classes (h : list cell) (a : nat) : list Z :=
  match nth_error h a with Some (CClasses l) => l | _ => [] end.
Definition get_dict (h : list cell) (a : nat) : list (Z * Z) :=
  match nth_error h a with Some (CDict l) => l | _ => [] end.
Definition get_empties (h : list cell) (a : nat) : list (option bool) :=
  match nth_error h a with Some (CEmpties l) => l | _ => [] end.

(* the members, read through the ClassDB's own references *)
Definition load (r : repr) : sstate :=
  let v := r_classdb r in
  let d := ClassDB.Model.mk (get_classes (heap r) (v_classes v)) (get_dict (heap r) (v_dict v))
                            (get_empties (heap r) (v_empties v)) (r_ncalls r) in
  mkSS (mkSt d (r_tried r) (r_symexp r) (r_infexp r) [] (r_answers r) (r_rules r) (r_eqv_rules r)
             (r_already_empty r) [] (r_stat r))
       (r_queue r).

Definition well_shared (r : repr) : Prop :=
  r_class_to_info r = r_classdb r /\ r_label_to_info r = r_classdb r /\ r_ruledb_searcher r = SameObject.

(* a state between two packets: nothing but members *)
Definition normal (s : sstate) : Prop := of_members (members_of s) = s.

Lemma dump_well_shared s : well_shared (dump s).
Proof. unfold well_shared; simpl; auto. Qed.

Lemma load_dump_members s : load (dump s) = of_members (members_of s).
Proof. unfold load, dump, of_members, members_of. simpl. destruct (cdb (core s)); reflexivity. Qed.

Theorem load_dump s : normal s -> load (dump s) = s.
Proof. intros H. rewrite load_dump_members. exact H. Qed.

(* three equal copies instead of one shared list: the value-level model sees no difference *)
Example copies_look_the_same :
  let s := mkSS (mkSt (ClassDB.Model.mk [7; 8] [(7, 0); (8, 1)] [None; Some false] 1) [0] [] [] [] [] [] [] [] [] Running)
                (Queue.Model.init [[1]]) in
  let r := dump s in
  let r' := mkRepr (heap r ++ heap r ++ heap r) (mkV 0 1 2) (mkV 3 4 5) (mkV 6 7 8) (r_ncalls r) (r_queue r)
                   (r_rules r) (r_eqv_rules r) (r_already_empty r) OtherObject (r_tried r) (r_symexp r)
                   (r_infexp r) (r_answers r) (r_stat r) in
  load r' = load r /\ well_shared r /\ ~ well_shared r'.
Proof.
  simpl. split; [reflexivity|]. split; [unfold well_shared; simpl; auto|].
  intros (H & _). discriminate.
Qed.

(* ------------------------------------------------ step commutes with pickling *)
From CSS Require Import Searcher.StepProofs.

Section Commute.
Variable T : table.
Variable mode : Z.
Variable F : nat.
Variable expand_verified : bool.
Variable inferral_strategies : list Z.
Variable initial_strategies : list Z.
Variable expansion_strats : list (list Z).
Notation step := (step T mode F expand_verified inferral_strategies initial_strategies expansion_strats).
Notation iterate := (iterate T mode F expand_verified inferral_strategies initial_strategies expansion_strats).

(* continuing the unpickled copy = continuing the original, for EVERY state *)
Lemma step_load_dump s : step (load (dump s)) = step s.
Proof. rewrite load_dump_members. symmetry. apply step_members. Qed.

(* every state the machine produces is normal, so pickling it gives back the same state *)
Lemma step_result_normal s s' e : step s = (s', e) -> normal s'.
Proof. intros H. unfold normal. eapply step_normal; eauto. Qed.

Lemma iterate_load_dump n s : (0 < n)%nat -> iterate n (load (dump s)) = iterate n s.
Proof. destruct n as [|n]; [intros H; inversion H|]. intros _. simpl. rewrite step_load_dump. reflexivity. Qed.

(* pickling after k packets and continuing for n more = the uninterrupted run of k + n packets *)
Theorem pickle_anywhere k n s :
  let '(sk, ek) := iterate k s in
  let '(sn, en) := iterate n (load (dump sk)) in
  (k = O \/ load (dump sk) = sk) /\ (n = O \/ iterate (k + n) s = (sn, ek ++ en)).
Proof.
  destruct (iterate k s) as [sk ek] eqn:Ek.
  destruct (iterate n (load (dump sk))) as [sn en] eqn:En.
  split.
  - destruct k as [|k]; [left; reflexivity|right].
    apply load_dump.
    replace (S k) with (k + 1)%nat in Ek by (rewrite Nat.add_comm; reflexivity).
    rewrite iterate_add in Ek. destruct (iterate k s) as [s1 e1]. simpl in Ek.
    destruct (step s1) as [s2 e2] eqn:E2. injection Ek as <- _. eapply step_result_normal; eauto.
  - destruct n as [|n]; [left; reflexivity|right].
    rewrite iterate_load_dump in En by (apply Nat.lt_0_succ).
    rewrite iterate_add, Ek, En. reflexivity.
Qed.

End Commute.
