(* C17: the packets the queue hands out carry strategies of the pack.

   The contracts of C04 (Searcher/Contracts.v) speak about the strategies `pack` the work queue may hand out; C04's
   theorems take `packets_in pack ps` as a hypothesis on their packet list.  In the state machine of
   Searcher/Step.v the packets come from the C16 queue model, and here it is a THEOREM that every packet it ever
   hands out carries strategies of

       pack_of = inferral_strategies ++ initial_strategies ++ concat expansion_strats

   (DefaultQueue builds its packets from these three tuples only): the invariant `staged q` (every packet in the
   staging deque has its strategies in pack_of) holds of the fresh queue and is kept by next, add,
   set_not_inferrable, set_stop_yielding; hence iterate_in_pack: all the packets among the events of ANY run of
   the state machine from __init__. *)
From Coq Require Import ZArith List Bool Lia.
From CSS Require Import Base.PyList ClassDB.Model Searcher.Model Searcher.Inv Searcher.Step Searcher.StepProofs.
From CSS Require Queue.Model.
Import ListNotations.
Open Scope Z_scope.

Section QueuePack.
Variable inferral_strategies : list Z.
Variable initial_strategies : list Z.
Variable expansion_strats : list (list Z).

Import Queue.Model.

Definition pack_of : list Z := inferral_strategies ++ initial_strategies ++ concat expansion_strats.

Definition pk_ok (p : Queue.Model.packet) : Prop := incl (Queue.Model.p_strats p) pack_of.
Definition staged (q : queue) : Prop := Forall pk_ok (staging q).

Notation qnext := (Queue.Model.next inferral_strategies initial_strategies expansion_strats).
Notation qadd := (Queue.Model.add inferral_strategies initial_strategies).

Lemma staged_init : staged (Queue.Model.init expansion_strats).
Proof. constructor. Qed.

Lemma staged_add q l : staged q -> staged (qadd q l).
Proof.
  unfold staged, Queue.Model.add. intros H.
  destruct (_ || _); [exact H|]. destruct (negb _); exact H.
Qed.

Lemma staged_set_not_inferrable q l : staged q -> staged (set_not_inferrable q l).
Proof. unfold staged, set_not_inferrable. intros H. destruct (negb _); exact H. Qed.

Lemma staged_set_not_initial q l : staged q -> staged (set_not_initial q l).
Proof. unfold staged, set_not_initial. intros H. destruct (negb _); exact H. Qed.

Lemma staged_set_stop_yielding q l : staged q -> staged (set_stop_yielding q l).
Proof. unfold staged, set_stop_yielding. intros H. exact H. Qed.

Lemma staged_stage q ps : staged q -> Forall pk_ok ps -> staged (stage q ps).
Proof. unfold staged, stage. simpl. intros H1 H2. apply Forall_app. split; auto. Qed.

Lemma single_ok l strats : incl strats pack_of -> Forall pk_ok (single_packets l strats).
Proof.
  intros H. unfold single_packets. apply Forall_forall. intros p Hp. apply in_map_iff in Hp as (s & <- & Hs).
  unfold pk_ok. simpl. intros x [<-|[]]. apply H. exact Hs.
Qed.

Lemma incl_inferral : incl inferral_strategies pack_of.
Proof. unfold pack_of. apply incl_appl. apply incl_refl. Qed.
Lemma incl_initial : incl initial_strategies pack_of.
Proof. unfold pack_of. apply incl_appr. apply incl_appl. apply incl_refl. Qed.
Lemma incl_expansion idx : incl (nth idx expansion_strats []) pack_of.
Proof.
  unfold pack_of. apply incl_appr. apply incl_appr.
  intros x Hx. apply in_concat. exists (nth idx expansion_strats []). split; [|exact Hx].
  destruct (Nat.lt_ge_cases idx (length expansion_strats)) as [L|L]; [apply nth_In; exact L|].
  rewrite nth_overflow in Hx by exact L. destruct Hx.
Qed.

Lemma staged_iter_helper_working q : staged q -> staged (iter_helper_working inferral_strategies initial_strategies q).
Proof.
  unfold iter_helper_working. intros H. destruct (working q) as [|label w]; [exact H|].
  cbv zeta.
  set (q1 := set_working q w). assert (staged q1) as H1 by exact H.
  set (q2 := if can_do_inferral inferral_strategies q1 label
             then set_not_inferrable (stage q1 [inf_packet inferral_strategies label]) label else q1).
  assert (staged q2) as H2.
  { unfold q2. destruct (can_do_inferral inferral_strategies q1 label); [|exact H1].
    apply staged_set_not_inferrable. apply staged_stage; [exact H1|].
    constructor; [|constructor]. unfold pk_ok, inf_packet. simpl. apply incl_inferral. }
  set (q3 := if can_do_initial initial_strategies q2 label
             then set_not_initial (stage q2 (single_packets label initial_strategies)) label else q2).
  assert (staged q3) as H3.
  { unfold q3. destruct (can_do_initial initial_strategies q2 label); [|exact H2].
    apply staged_set_not_initial. apply staged_stage; [exact H2|]. apply single_ok. apply incl_initial. }
  exact H3.
Qed.

Lemma staged_populate_working n : forall q, staged q ->
  staged (populate_working inferral_strategies initial_strategies n q).
Proof.
  induction n as [|n IH]; intros q H; simpl; [exact H|].
  destruct (_ && _); [|exact H]. apply IH. apply staged_iter_helper_working. exact H.
Qed.

Definition pres_staged (r : pres) : Prop :=
  match r with POk q | PStop q | PAssert q | PFuel q => staged q end.

Lemma staged_change_level q : staged q -> pres_staged (change_level q).
Proof.
  unfold change_level. intros H. destruct (_ || _); [exact H|].
  cbv zeta. destruct (negb _); exact H.
Qed.

Lemma staged_iter_helper_curr q : staged q -> pres_staged (iter_helper_curr expansion_strats q).
Proof.
  unfold iter_helper_curr. intros H. destruct (pop_first 0 (curr_level q)) as [[[idx label] cl]|]; [|exact H].
  cbv zeta. destruct (Nat.eqb idx (length expansion_strats)).
  - simpl. apply staged_set_stop_yielding. exact H.
  - simpl. unfold staged. simpl. apply Forall_app. split; [exact H|]. apply single_ok. apply incl_expansion.
Qed.

Lemma staged_populate_curr n : forall q, staged q -> pres_staged (populate_curr expansion_strats n q).
Proof.
  induction n as [|n IH]; intros q H; simpl; [exact H|].
  destruct (nonempty (staging q)); [exact H|].
  assert (pres_staged (if negb (any_curr (curr_level q)) then change_level q else POk q)) as H1.
  { destruct (negb _); [apply staged_change_level; exact H|exact H]. }
  destruct (if negb (any_curr (curr_level q)) then change_level q else POk q) as [q1|q1|q1|q1]; try exact H1.
  pose proof (staged_iter_helper_curr q1 H1) as H2.
  destruct (iter_helper_curr expansion_strats q1) as [q2|q2|q2|q2]; try exact H2.
  apply IH. exact H2.
Qed.

Lemma drain_ok st ign : Forall pk_ok st ->
  match drain_staging st ign with
  | (Some wp, r) => pk_ok wp /\ Forall pk_ok r
  | (None, r) => Forall pk_ok r
  end.
Proof.
  induction st as [|wp r IH]; intros H; simpl; [constructor|].
  inversion H as [|x l Hx Hl]; subst.
  destruct (mem (p_label wp) ign); [apply IH; exact Hl|split; assumption].
Qed.

Lemma staged_next_fuel n : forall q, staged q ->
  let '(r, q') := next_fuel inferral_strategies initial_strategies expansion_strats n q in
  staged q' /\ match r with RPacket p => pk_ok p | _ => True end.
Proof.
  induction n as [|n IH]; intros q H; simpl; [split; [exact H|exact I]|].
  pose proof (drain_ok (staging q) (ignore q) H) as D.
  destruct (drain_staging (staging q) (ignore q)) as [[wp|] r].
  - destruct D as (D1 & D2). split; [exact D2|exact D1].
  - assert (staged (set_staging q r)) as H1 by exact D.
    unfold populate_staging.
    pose proof (staged_populate_curr n _ (staged_populate_working (length (working (set_staging q r))) _ H1)) as H2.
    destruct (populate_curr expansion_strats n
                (populate_working inferral_strategies initial_strategies (length (working (set_staging q r))) (set_staging q r)))
      as [q2|q2|q2|q2]; try (split; [exact H2|exact I]).
    apply IH. exact H2.
Qed.

Theorem next_in_pack q : staged q ->
  let '(r, q') := qnext q in
  staged q' /\ match r with RPacket p => pk_ok p | _ => True end.
Proof. intros H. unfold Queue.Model.next. apply staged_next_fuel. exact H. Qed.

(* ---------------------------------------------------------------- the state machine *)
Section Machine.
Variable T : table.
Variable mode : Z.
Variable F : nat.
Variable expand_verified : bool.

Notation step := (Step.step T mode F expand_verified inferral_strategies initial_strategies expansion_strats).
Notation iterate := (Step.iterate T mode F expand_verified inferral_strategies initial_strategies expansion_strats).
Notation run_calls_st := (Step.run_calls_st T mode F expand_verified inferral_strategies initial_strategies expansion_strats).
Notation init_sstate := (Step.init_sstate T mode F inferral_strategies initial_strategies expansion_strats).
Notation q_apply := (Step.q_apply inferral_strategies initial_strategies).

Definition sev_pack (e : sevent) : Prop :=
  match e with SPacket p _ => incl (p_sids p) pack_of | _ => True end.

Lemma staged_q_apply evs : forall q, staged q -> staged (fold_left q_apply evs q).
Proof.
  induction evs as [|e t IH]; intros q H; simpl; [exact H|].
  apply IH. destruct e; simpl; try exact H;
    [apply staged_add|apply staged_set_not_inferrable]; exact H.
Qed.

Lemma step_in_pack s s' e : staged (que s) -> step s = (s', e) -> staged (que s') /\ sev_pack e.
Proof.
  intros H Hs. unfold Step.step, Step.step_with in Hs.
  destruct (negb (running (norm (core s)))).
  - injection Hs as <- <-. split; [exact H|exact I].
  - pose proof (next_in_pack (que s) H) as N.
    destruct (Queue.Model.next inferral_strategies initial_strategies expansion_strats (que s)) as [[qp| | |] q1].
    + destruct N as (N1 & N2).
      destruct (process T mode F expand_verified (norm (core s)) None (to_packet qp)) as [[c1 l1] evs].
      injection Hs as <- <-. split; [apply staged_q_apply; exact N1|exact N2].
    + injection Hs as <- <-. split; [exact (proj1 N)|exact I].
    + injection Hs as <- <-. split; [exact (proj1 N)|exact I].
    + injection Hs as <- <-. split; [exact (proj1 N)|exact I].
Qed.

Lemma iterate_in_pack n : forall s s' es, staged (que s) -> iterate n s = (s', es) ->
  staged (que s') /\ Forall sev_pack es.
Proof.
  induction n as [|n IH]; intros s s' es H Hi; simpl in Hi.
  - injection Hi as <- <-. split; [exact H|constructor].
  - destruct (step s) as [s1 e] eqn:E1. destruct (iterate n s1) as [s2 es2] eqn:E2.
    injection Hi as <- <-.
    destruct (step_in_pack _ _ _ H E1) as (H1 & P1).
    destruct (IH _ _ _ H1 E2) as (H2 & P2). split; [exact H2|constructor; assumption].
Qed.

Lemma staged_init_sstate ans start : staged (que (fst (init_sstate ans start))).
Proof. unfold Step.init_sstate. simpl. apply staged_q_apply. apply staged_init. Qed.

(* every packet among the events of a search from __init__, through any script of calls, carries strategies of
   the pack *)
Theorem search_in_pack mult ans start cs outs s' es k' extra' :
  run_calls_st mult (fst (init_sstate ans start)) 0 0 cs = (outs, s', es, k', extra') ->
  Forall sev_pack es.
Proof.
  intros H.
  pose proof (run_calls_iterate T mode F expand_verified inferral_strategies initial_strategies expansion_strats
                mult cs _ 0 0 outs s' es k' extra'
                (init_sstate_inv T mode F inferral_strategies initial_strategies expansion_strats ans start) H) as Hi.
  exact (proj2 (iterate_in_pack _ _ _ _ (staged_init_sstate ans start) Hi)).
Qed.

End Machine.
End QueuePack.
