(* The ONE-SIDED invariant of the searcher model (copy of Searcher/Inv.v with the two-sided emptiness facts
   replaced by their one-sided forms; see Searcher/OneSidedDefs.v):

   Inv s :  the class database is well formed, every event emitted so far is justified by the table
   w.r.t. the labels of the current database, and - where the switch C holds - whenever the cache says
   EMPTY for a label the class carrying it is truly empty (EmptyOK1), every set_empty(l, True) the
   searcher issued was for a truly empty class, and every child missing from a stored key is truly
   empty.  The ghost predicate G is kept (instantiated by Gtriv at the end) so that the proof scripts of
   Searcher/ProofsCore.v and Proofs.v carry over. *)
From Coq Require Import ZArith List Bool Lia.
From CSS Require Import Base.PyList ClassDB.Model ClassDB.Proofs Gen.Prelude Gen.ReverseShifts Searcher.Model
  Searcher.Inv Searcher.OneSidedDefs.
Import ListNotations.
Open Scope Z_scope.

Section Inv.
Variable T : table.
Variable mode : Z.
(* C switches the table contracts on: the theorems that need them are proved
   with C := True and the contracts as hypotheses, the others with C := False *)
Variable C : Prop.
(* the ghost predicate (only looked at where C holds) *)
Variable G : @db Z -> list (Z * list Z) -> list (Z * list Z) -> list event -> Prop.

Notation oracle := (oracle T).
Notation entry_of := (entry_of T).
Notation rules_from_strategy := (rules_from_strategy T).
Notation rule_children := (rule_children T).
Notation WFd := (@WF Z).
Notation lbl := (label_of Z.eqb (fun c : Z => c)).
Notation EOK := (EmptyOK1 T).
Notation kids_sp := (kids_sp T).
Notation pe_of := (pe_of T).
Notation sym_yielded := (sym_yielded T).
Notation add_ok := (add_ok T).
Notation cstep := (step Z.eqb (fun c : Z => c) (fun k : Z => k) oracle).
Notation honest := (honest1 T).

(* what justifies storing the key (start, ends') for the rule (sid, parent) *)
Definition store_ok (d : @db Z) (start : Z) (ends' : list Z) (sid parent : Z) : Prop :=
  lbl d parent = Some start /\
  exists ls bs,
    labels_of d (firstn (length ls) (kids_sp sid parent)) ls /\
    (* ls are the labels of ALL children - or, for the calls of _symmetry_expand, of the first one *)
    (length ls = length (kids_sp sid parent) \/
     (length ls = 1%nat /\ kids_sp sid parent <> [] /\ sym_yielded sid parent)) /\
    length bs = length ls /\
    ends' = isort (select bs ls) /\
    (pe_of sid = false -> Forall (fun b => b = true) bs) /\
    (* ONE-SIDED: a child missing from the key is truly empty *)
    (C -> Forall2 (fun b c => b = false -> oracle c = true) bs (firstn (length ls) (kids_sp sid parent))).

Definition ev_ok (d : @db Z) (e : event) : Prop :=
  match e with
  | EvAdd start ends sid parent => add_ok d start ends sid parent
  | EvSetEmpty l v => exists c, lbl d c = Some l /\ (C -> v = true -> oracle c = true)
  | EvStore _ start ends' sid parent => store_ok d start ends' sid parent
  | _ => True
  end.

Definition Gs (s : st) : Prop := G (cdb s) (rstore s) (estore s) (trace s).

Definition Inv (s : st) : Prop :=
  WFd (cdb s) /\ (C -> EOK (cdb s)) /\ Forall (ev_ok (cdb s)) (trace s) /\ (C -> Gs s).

(* the ghost predicate survives the growth of a truthful class database *)
Hypothesis G_frame : C -> forall d d' r e tr, (* in-section *)
  WFd d -> WFd d' -> extends d d' -> EOK d -> EOK d' -> G d r e tr -> G d' r e tr.
(* ... and the events that are none of its business *)
Hypothesis G_skip : C -> forall ev d r e tr, neutral ev = true -> G d r e tr -> G d r e (ev :: tr). (* in-section *)

Definition leq (s s' : st) : Prop :=
  Inv s' /\ extends (cdb s) (cdb s') /\ (running s' = true -> running s = true).

Lemma leq_refl s : Inv s -> leq s s.
Proof. intros I; unfold leq; csplit; auto. apply extends_refl. Qed.

Lemma leq_trans a b c : leq a b -> leq b c -> leq a c.
Proof.
  intros (I1 & X1 & R1) (I2 & X2 & R2). unfold leq; csplit; auto.
  eapply extends_trans; eauto.
Qed.

Lemma leq_inv a b : leq a b -> Inv b.
Proof. intros (I & _); exact I. Qed.

Lemma ev_ok_ext d d' e : WFd d -> WFd d' -> extends d d' -> ev_ok d e -> ev_ok d' e.
Proof.
  intros W W' X. destruct e; simpl; auto.
  - intros (A & B & D). split; [apply (lbl_ext d d' _ _ W W' X); auto|].
    split; [apply (labels_of_ext d d' _ _ W W' X); auto|].
    destruct D as [D|(D1 & D2 & (sid0 & c0 & l0 & r & Y1 & Y2 & Y3 & Y4) & D4)]; [left; auto|right].
    csplit; auto. exists sid0, c0, l0, r. csplit; auto. apply (lbl_ext d d' _ _ W W' X); auto.
  - intros (c & A & B). exists c; split; auto. apply (lbl_ext d d' _ _ W W' X); auto.
  - intros (A & ls & bs & B & D). split; [apply (lbl_ext d d' _ _ W W' X); auto|].
    exists ls, bs. destruct D as (D0 & D1 & D2 & D3 & D4). csplit; auto. apply (labels_of_ext d d' _ _ W W' X); auto.
Qed.

Lemma RL_leq s s' c l : Inv s -> leq s s' -> RL s c l -> RL s' c l.
Proof.
  intros (W & _) ((W' & _) & X & R) H Hr. apply (lbl_ext _ _ _ _ W W' X); auto.
Qed.

Lemma RLs_leq s s' cs ls : Inv s -> leq s s' -> RLs s cs ls -> RLs s' cs ls.
Proof.
  intros (W & _) ((W' & _) & X & R) H Hr. apply (labels_of_ext _ _ _ _ W W' X); auto.
Qed.

(* ------------------------------------------------------------ primitives *)
(* emitting an event: the event is justified, and the ghost predicate takes the step *)
Lemma emit_ok e s : Inv s -> (running s = true -> ev_ok (cdb s) e) ->
  (C -> running s = true -> Gs s -> G (cdb s) (rstore s) (estore s) (e :: trace s)) -> leq s (emit e s).
Proof.
  intros I H HG. unfold emit. destruct (running s) eqn:R; [|apply leq_refl; auto].
  destruct I as (W & E & F & Gh). unfold leq, Inv, Gs; simpl. csplit; auto using extends_refl.
Qed.

Lemma fail_ok c s : Inv s -> leq s (fail c s).
Proof.
  intros I. unfold fail. destruct (running s) eqn:R; [|apply leq_refl; auto].
  unfold leq, Inv, Gs, with_stat; simpl. destruct I as (W & E & F & Gh). csplit; auto using extends_refl.
Qed.

Lemma out_of_fuel_ok s : Inv s -> leq s (out_of_fuel s).
Proof.
  intros I. unfold out_of_fuel. destruct (running s) eqn:R; [|apply leq_refl; auto].
  unfold leq, Inv, Gs, with_stat; simpl. destruct I as (W & E & F & Gh). csplit; auto using extends_refl.
Qed.

(* updates of fields the invariant does not read *)
Lemma frame_ok s s' : Inv s -> cdb s' = cdb s -> trace s' = trace s -> running s' = running s ->
  rstore s' = rstore s -> estore s' = estore s -> leq s s'.
Proof.
  intros (W & E & F & Gh) Hc Ht Hr Hrs Hes. unfold leq, Inv, Gs. rewrite Hc, Ht, Hr, Hrs, Hes. csplit; auto using extends_refl.
Qed.

Lemma add_tried_ok l s : Inv s -> leq s (add_tried l s).
Proof. intros I. unfold add_tried. destruct (running s) eqn:R; [apply frame_ok; auto|apply leq_refl; auto]. Qed.
Lemma add_infexp_ok l s : Inv s -> leq s (add_infexp l s).
Proof. intros I. unfold add_infexp. destruct (running s) eqn:R; [apply frame_ok; auto|apply leq_refl; auto]. Qed.
Lemma set_symacc_ok a s : Inv s -> leq s (set_symacc a s).
Proof. intros I. unfold set_symacc. destruct (running s) eqn:R; [apply frame_ok; auto|apply leq_refl; auto]. Qed.
Lemma flush_symacc_ok s : Inv s -> leq s (flush_symacc s).
Proof. intros I. unfold flush_symacc. destruct (running s) eqn:R; [apply frame_ok; auto|apply leq_refl; auto]. Qed.
Lemma add_already_ok l s : Inv s -> leq s (add_already l s).
Proof. intros I. unfold add_already. destruct (running s) eqn:R; [apply frame_ok; auto|apply leq_refl; auto]. Qed.
(* RuleDBBase.add's final step: the events of the store part are emitted and the two stores replaced -
   ONE step for the ghost predicate (in between the trace is ahead of the stores) *)
Lemma emits_stores_ok es s r e : Inv s -> (running s = true -> Forall (ev_ok (cdb s)) es) ->
  (C -> running s = true -> Gs s -> G (cdb s) r e (rev es ++ trace s)) ->
  leq s (with_stores (emits es s) r e).
Proof.
  intros I H HG. destruct (running s) eqn:R.
  - assert (forall es s0, running s0 = true ->
              running (emits es s0) = true /\ cdb (emits es s0) = cdb s0 /\ trace (emits es s0) = rev es ++ trace s0) as Hem.
    { clear. unfold emits. induction es as [|e0 t IH]; intros s0 R0; simpl; auto.
      assert (running (emit e0 s0) = true) as R1 by (unfold emit; rewrite R0; exact R0).
      destruct (IH _ R1) as (A & B & D). csplit; auto.
      - rewrite B. unfold emit. rewrite R0. reflexivity.
      - rewrite D. unfold emit. rewrite R0. simpl. rewrite <- app_assoc. reflexivity. }
    destruct (Hem es s R) as (R1 & Hc & Ht).
    destruct I as (W & E & F & Gh). unfold with_stores. rewrite R1.
    unfold leq, Inv, Gs. cbn [cdb rstore estore trace]. rewrite Hc, Ht.
    split; [|split; [apply extends_refl|auto]].
    split; [exact W|]. split; [exact E|]. split; [|auto].
    apply Forall_app. split; [apply Forall_rev; auto|exact F].
  - assert (forall es s0, running s0 = false -> emits es s0 = s0) as Hem.
    { clear. unfold emits. induction es as [|e0 t IH]; intros s0 R0; simpl; auto.
      assert (emit e0 s0 = s0) as -> by (unfold emit; rewrite R0; reflexivity). auto. }
    rewrite (Hem es s R). unfold with_stores. rewrite R. apply leq_refl; auto.
Qed.

Lemma pop_answer_ok s s' a : Inv s -> pop_answer s = (s', a) -> leq s s'.
Proof.
  intros I. unfold pop_answer. destruct (running s) eqn:R.
  - destruct (answers s) as [|x t]; intros [= <- <-]; [apply fail_ok; auto|apply frame_ok; auto].
  - intros [= <- <-]. apply leq_refl; auto.
Qed.

(* one operation of the class database *)
Lemma cdb_op_ok s o s' r :
  Inv s -> (C -> running s = true -> honest (cdb s) o) -> cdb_op T s o = (s', r) ->
  leq s s' /\ trace s' = trace s /\ running s' = running s /\
  (running s = true -> cstep (cdb s) o = (cdb s', r)).
Proof.
  intros (W & E & F & Gh) Hh. unfold cdb_op. destruct (running s) eqn:R.
  - destruct (cstep (cdb s) o) as [d r0] eqn:Es. intros [= <- <-].
    pose proof (step_inv Z.eqb Zeqb_spec (fun c : Z => c) (fun k : Z => k) id_inv oracle (cdb s) o W) as Hs.
    rewrite Es in Hs. simpl in Hs. destruct Hs as (W' & X & _ & _).
    assert (C -> EOK d) as HE.
    { intros HC. pose proof (step_inv1 T (cdb s) o W (E HC) (Hh HC eq_refl)) as H1. rewrite Es in H1. exact H1. }
    assert (Forall (ev_ok d) (trace s)) as F'.
    { eapply Forall_impl; [|exact F]. intros e. apply ev_ok_ext; auto. }
    unfold leq, Inv, Gs, with_cdb; simpl. csplit; auto.
    intros HC. apply (G_frame HC (cdb s) d); auto. apply (Gh HC).
  - intros [= <- <-]. csplit; auto; try discriminate. apply leq_refl; unfold Inv; auto.
Qed.

(* classdb.get_label(comb_class) *)
Lemma get_label_c_ok s c s' l : Inv s -> get_label_c T s c = (s', l) -> leq s s' /\ RL s' c l.
Proof.
  intros I. unfold get_label_c. destruct (cdb_op T s (OpGetLabel (KC c))) as [s1 r] eqn:Eo.
  destruct (cdb_op_ok s (OpGetLabel (KC c)) s1 r I (fun _ _ => Logic.I) Eo) as (L & Ht & Hr & Hs).
  destruct (running s) eqn:R.
  - specialize (Hs eq_refl). simpl in Hs.
    destruct I as (W & _).
    destruct (get_label_class Z.eqb Zeqb_spec (fun c : Z => c) (cdb s) c W) as (d' & l0 & Hg & _ & _ & Hl & _).
    rewrite Hg in Hs. injection Hs as Hd <-. intros [= <- <-]. split; auto. intros _. rewrite <- Hd. exact Hl.
  - assert (running s1 = false) as R1 by congruence.
    destruct r; intros [= <- <-]; (split; [|intros Hx; try rewrite fail_stopped in Hx; congruence]); auto.
    eapply leq_trans; [exact L|apply fail_ok; apply (leq_inv _ _ L)].
Qed.

Lemma get_labels_ok cs : forall s s' ls, Inv s -> get_labels T s cs = (s', ls) -> leq s s' /\ RLs s' cs ls.
Proof.
  induction cs as [|c t IH]; intros s s' ls I; simpl.
  - intros [= <- <-]. split; [apply leq_refl; auto|intros _; constructor].
  - destruct (get_label_c T s c) as [s1 l] eqn:E1. destruct (get_labels T s1 t) as [s2 ls2] eqn:E2.
    intros [= <- <-]. destruct (get_label_c_ok _ _ _ _ I E1) as (L1 & H1).
    destruct (IH _ _ _ (leq_inv _ _ L1) E2) as (L2 & H2).
    split; [eapply leq_trans; eauto|]. intros Hr. constructor; [|apply H2; auto].
    apply (RL_leq s1 s2 c l (leq_inv _ _ L1) L2 H1 Hr).
Qed.

(* classdb.get_class(label) *)
Lemma get_class_l_ok s l s' c : Inv s -> get_class_l T s l = (s', c) -> leq s s' /\ RL s' c l.
Proof.
  intros I. unfold get_class_l. destruct (cdb_op T s (OpGetClass (KI l))) as [s1 r] eqn:Eo.
  destruct (cdb_op_ok s (OpGetClass (KI l)) s1 r I (fun _ _ => Logic.I) Eo) as (L & Ht & Hr & Hs).
  destruct (running s) eqn:R.
  - specialize (Hs eq_refl). simpl in Hs. destruct I as (W & _).
    unfold get_class, get_info, get_info_i in Hs.
    destruct (lti_get_spec (cdb s) l W) as [(Hrg & k & e & Hk & He & Hi)|(Hrg & Hi)];
      rewrite Hi in Hs; injection Hs as Hd <-; intros [= <- <-].
    + split; auto. intros _. rewrite <- Hd.
      rewrite (label_of_nth Z.eqb Zeqb_spec (fun c : Z => c) (cdb s) k (Z.to_nat l) W Hk). f_equal. lia.
    + split; [eapply leq_trans; [exact L|apply fail_ok; apply (leq_inv _ _ L)]|].
      intros Hx. rewrite fail_stopped in Hx. discriminate.
  - assert (running s1 = false) as R1 by congruence.
    destruct r; intros [= <- <-]; (split; [|intros Hx; try rewrite fail_stopped in Hx; congruence]); auto.
    eapply leq_trans; [exact L|apply fail_ok; apply (leq_inv _ _ L)].
Qed.

(* classdb.is_empty(comb_class, label): under the contracts it answers with the class's own answer *)
Lemma is_empty_cl_ok s c lab s' b :
  Inv s -> (forall l, lab = Some l -> RL s c l) -> is_empty_cl T s c lab = (s', b) ->
  leq s s' /\ (C -> running s' = true -> b = true -> oracle c = true).
Proof.
  intros I Hl. unfold is_empty_cl. destruct (cdb_op T s (OpIsEmpty c lab)) as [s1 r] eqn:Eo.
  assert (C -> running s = true -> honest (cdb s) (OpIsEmpty c lab)) as Hh.
  { intros _ Hr. simpl. destruct lab as [l|]; auto. apply (Hl l eq_refl Hr). }
  destruct (cdb_op_ok _ _ _ _ I Hh Eo) as (L & Ht & Hr & Hs).
  destruct (running s) eqn:R.
  - specialize (Hs eq_refl). destruct I as (W & E & _). simpl in Hs.
    pose proof (is_empty_res T _ _ _ _ _ Hs) as Hres.
    destruct r; try contradiction; intros [= <- <-].
    + split; auto. intros HC Hx Hb. rewrite Hb in Hs.
      eapply (is_empty_correct1 T (cdb s) c lab); eauto.
    + split; [|intros HC Hx; rewrite fail_stopped in Hx; discriminate].
      eapply leq_trans; [exact L|apply fail_ok; apply (leq_inv _ _ L)].
  - assert (running s1 = false) as R1 by congruence.
    destruct r; intros [= <- <-]; (split; [|intros HC Hx; try rewrite fail_stopped in Hx; congruence]); auto.
    eapply leq_trans; [exact L|apply fail_ok; apply (leq_inv _ _ L)].
Qed.

(* classdb.set_empty(label, v) issued by the searcher *)
Lemma set_empty_ev_ok s l v :
  Inv s -> (running s = true -> exists c, lbl (cdb s) c = Some l /\ (C -> v = true -> oracle c = true)) ->
  leq s (set_empty_ev T s l v).
Proof.
  intros I H. unfold set_empty_ev.
  assert (leq s (emit (EvSetEmpty l v) s)) as L0.
  { apply emit_ok; auto; intros HC _ Hg; apply (G_skip HC); auto. }
  set (s0 := emit (EvSetEmpty l v) s) in *.
  destruct (cdb_op T s0 (OpSetEmpty (KI l) v)) as [s1 r] eqn:Eo.
  assert (C -> running s0 = true -> honest (cdb s0) (OpSetEmpty (KI l) v)) as Hh.
  { intros HC Hr. assert (running s = true) as Hr' by (destruct L0 as (_ & _ & X); auto).
    destruct (H Hr') as (c & Hc & Ho). simpl. intros Hv k Hk.
    assert (cdb s0 = cdb s) as Ec by (unfold s0, emit; rewrite Hr'; reflexivity).
    rewrite Ec in Hk. destruct I as (W & _).
    destruct (label_of_range Z.eqb Zeqb_spec (fun c : Z => c) (cdb s) c l W Hc) as (_ & Hn).
    rewrite Hn in Hk. injection Hk as <-. auto. }
  destruct (cdb_op_ok _ _ _ _ (leq_inv _ _ L0) Hh Eo) as (L & _).
  assert (leq s s1) as L1 by (eapply leq_trans; eauto).
  destruct r; auto. eapply leq_trans; [exact L1|apply fail_ok; apply (leq_inv _ _ L1)].
Qed.

(* emitting an event the ghost predicate does not look at *)
Lemma emit_neutral_ok e s : neutral e = true -> Inv s -> (running s = true -> ev_ok (cdb s) e) -> leq s (emit e s).
Proof. intros Hn I H. apply emit_ok; auto; intros HC _ Hg; apply (G_skip HC); auto. Qed.

End Inv.

(* the trivial ghost predicate *)
Lemma Gtriv_frame1 (T : table) (C : Prop) : C -> forall (d d' : @db Z) (r e : list (Z * list Z)) (tr : list event),
  @WF Z d -> @WF Z d' -> extends d d' -> EmptyOK1 T d -> EmptyOK1 T d' ->
  Gtriv d r e tr -> Gtriv d' r e tr.
Proof. intros; exact Logic.I. Qed.
