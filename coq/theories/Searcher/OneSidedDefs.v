(* The ONE-SIDED truthfulness of the emptiness cache: vocabulary, and the class-database half.

   The two-sided invariant of Searcher/Inv.v ("the cached emptiness value of a label IS the class's own
   answer") needs both table contracts of Searcher/Contracts.v, because add_rule issues
   set_empty(child, False) for every child of a rule that is not possibly_empty.  The one-sided fact

       the cache says EMPTY for a label  ->  the class carrying the label is truly empty

   only needs the forward half of sym_contract (sym_fwd below): the cache is written by is_empty (the
   class's own answer), by add_rule (the value False: irrelevant), and by _symmetry_expand (the value
   is_empty returned for the class being expanded, written on the first child of a rule a symmetry yields
   on it).  This file: sym_fwd, EmptyOK1 and what one operation of the class database (C15 model, cls =
   key = Z) does to EmptyOK1.  Searcher/OneSidedInv.v, OneSidedCore.v, OneSidedProofs.v carry it through
   the searcher; Searcher/OneSided.v states the results. *)
From Coq Require Import ZArith List Bool Lia.
From CSS Require Import Base.PyList ClassDB.Model ClassDB.Proofs Gen.Prelude Gen.ReverseShifts
  Searcher.Model Searcher.Inv Searcher.Contracts.
From CSS Require Export Searcher.SymFwd.
Import ListNotations.
Open Scope Z_scope.

(* sym_fwd (forward half of sym_contract: the image of an EMPTY class under a symmetry is empty), its decision
   procedure sym_fwdb and sym_contract_fwd live in Searcher/SymFwd.v (so that Searcher/Run.v can extract the decider
   without depending on the proofs); re-exported here *)

(* one-sided truthfulness of the emptiness cache *)
Definition EmptyOK1 (T : table) (d : @db Z) : Prop := forall i c,
  nth_error (classes d) i = Some c -> nth_error (empties d) i = Some (Some true) -> oracle T c = true.

Section ClassDB1.
Variable T : table.
Notation oracle := (oracle T).
Notation WFd := (@WF Z).
Notation lbl := (label_of Z.eqb (fun c : Z => c)).
Notation cstep := (step Z.eqb (fun c : Z => c) (fun k : Z => k) oracle).
Notation EOK1 := (EmptyOK1 T).

(* the caller passes the value EMPTY only for truly empty classes, and labels that belong to the class *)
Definition honest1 (d : @db Z) (o : @op Z) : Prop :=
  match o with
  | OpSetEmpty (KC c) v => v = true -> oracle c = true
  | OpSetEmpty (KI l) v =>
      v = true -> forall k, nth_error (classes d) (Z.to_nat l) = Some k -> oracle k = true
  | OpIsEmpty c (Some l) => lbl d c = Some l
  | _ => True
  end.

Lemma EmptyOK1_init : EOK1 init.
Proof. intros [|i] c H; simpl in H; discriminate. Qed.

Lemma EmptyOK1_grow (d d' : @db Z) k : WFd d -> EOK1 d ->
  classes d' = classes d ++ [k] -> empties d' = empties d ++ [None] -> EOK1 d'.
Proof.
  intros W HE Hc Hem i c Hk Hb. rewrite Hc in Hk. rewrite Hem in Hb.
  destruct (Nat.lt_ge_cases i (length (empties d))) as [Hlt|Hge].
  - rewrite nth_error_app1 in Hb by auto.
    destruct W as (_ & Hl & _). rewrite nth_error_app1 in Hk by lia. eauto.
  - rewrite nth_error_app2 in Hb by auto.
    destruct (i - length (empties d))%nat as [|[|n]]; simpl in Hb; discriminate.
Qed.

Lemma EmptyOK1_set (d : @db Z) n v : EOK1 d ->
  (v = true -> forall k, nth_error (classes d) n = Some k -> oracle k = true) ->
  EOK1 (mk (classes d) (dict d) (set_nth (empties d) n (Some v)) (ncalls d)).
Proof.
  intros H Hv i k Hk He; simpl in *.
  destruct (Nat.eq_dec n i) as [->|Hne].
  - destruct (Nat.lt_ge_cases i (length (empties d))) as [Hlt|Hge].
    + rewrite nth_error_set_nth_same in He by auto. injection He as ->. auto.
    + assert (nth_error (set_nth (empties d) i (Some v)) i = None) as E
        by (apply nth_error_None; rewrite set_nth_length; lia).
      congruence.
  - rewrite nth_error_set_nth_other in He by auto. eauto.
Qed.

Lemma EmptyOK1_ncalls (d : @db Z) n : EOK1 d -> EOK1 (mk (classes d) (dict d) (empties d) n).
Proof. intros H i k Hk He. exact (H i k Hk He). Qed.

(* one step of the class database preserves the one-sided truthfulness, for one-sidedly honest callers *)
Lemma step_inv1 (d : @db Z) o : WFd d -> EOK1 d -> honest1 d o -> EOK1 (fst (cstep d o)).
Proof.
  intros W HE Hh. destruct o as [k|k|k|c lab|k v|c]; simpl.
  - (* get_label *)
    destruct k as [c|l].
    + destruct (get_label_class Z.eqb Zeqb_spec (fun c : Z => c) d c W) as (s' & l & Hg & W' & Hx & _ & Hn & Hcase).
      rewrite Hg; simpl. destruct Hcase as [[_ ->]|(_ & _ & Hc & Hem)]; auto.
      apply (EmptyOK1_grow d s' c W HE Hc Hem).
    + rewrite (get_label_int Z.eqb (fun c : Z => c)) by auto. simpl. exact HE.
  - (* get_class *)
    destruct k as [c|l].
    + pose proof (get_label_class Z.eqb Zeqb_spec (fun c : Z => c) d c W) as (s' & l & Hg & W' & Hx & _ & Hn & Hcase).
      destruct (get_class_class Z.eqb Zeqb_spec (fun c : Z => c) (fun k : Z => k) id_inv d c W) as (s2 & Hg2 & W2 & Hx2).
      assert (s2 = s') as ->.
      { unfold Model.get_label in Hg. unfold Model.get_class in Hg2.
        destruct (get_info Z.eqb (fun c : Z => c) d (KC c)) as [s1 r]. congruence. }
      rewrite Hg2; simpl. destruct Hcase as [[_ ->]|(_ & _ & Hc & Hem)]; auto.
      apply (EmptyOK1_grow d s' c W HE Hc Hem).
    + unfold Model.get_class, get_info. simpl. exact HE.
  - (* contains *) exact HE.
  - (* is_empty *)
    unfold Model.is_empty.
    set (lo := match lab with Some l => Some l | None => Model.dict_get Z.eqb (dict d) c end).
    destruct lo as [l|] eqn:Elo; simpl; [|exact HE].
    destruct (py_nth (empties d) l) as [[b|]|] eqn:En; simpl; try exact HE.
    set (s1 := mk (classes d) (dict d) (empties d) (S (ncalls d))).
    assert (WFd s1) as W1 by (destruct W as (A & B & C); unfold WF; repeat split; auto).
    assert (EOK1 s1) as HE1 by (apply EmptyOK1_ncalls; auto).
    destruct (Z_lt_dec l 0) as [Hneg|Hnn].
    { unfold Model.set_empty. rewrite (get_label_int Z.eqb (fun c : Z => c)) by auto.
      destruct ((0 <=? l) && (l <? nlabels s1)) eqn:E; [lia|]. simpl. exact HE1. }
    assert (0 <= l < nlabels d) as Hr.
    { rewrite py_nth_nonneg in En by lia. destruct (l <? zlen (empties d)) eqn:E; [|discriminate].
      destruct W as (_ & Hl & _). unfold nlabels, zlen in *. lia. }
    rewrite (set_empty_int_spec Z.eqb (fun c : Z => c) s1 l (oracle c) W1 Hr). simpl.
    apply (EmptyOK1_set s1 (Z.to_nat l) (oracle c) HE1).
    intros Ho k Hk.
    assert (lbl d c = Some l) as Hl.
    { unfold lo in Elo. destruct lab; simpl in Hh; [congruence|exact Elo]. }
    destruct (label_of_range Z.eqb Zeqb_spec (fun c : Z => c) _ _ _ W Hl) as [_ Hn]. simpl in Hk. rewrite Hn in Hk.
    injection Hk as <-. exact Ho.
  - (* set_empty *)
    destruct k as [c|l].
    + unfold Model.set_empty.
      destruct (get_label_class Z.eqb Zeqb_spec (fun c : Z => c) d c W) as (s' & l & Hg & W' & Hx & Hl & Hn & Hcase).
      rewrite Hg.
      destruct (label_of_range Z.eqb Zeqb_spec (fun c : Z => c) _ _ _ W' Hl) as [Hr Hnth].
      assert (0 <= l < zlen (empties s')) as Hr'.
      { destruct W' as (_ & Hl' & _). unfold nlabels, zlen in *. lia. }
      rewrite py_set_in_range by auto. simpl.
      assert (EOK1 s') as HE'.
      { destruct Hcase as [[_ ->]|(_ & _ & Hc & Hem)]; auto. apply (EmptyOK1_grow d s' c W HE Hc Hem). }
      apply (EmptyOK1_set s' (Z.to_nat l) v HE').
      intros Hv k Hk. rewrite Hnth in Hk. injection Hk as <-. simpl in Hh. auto.
    + destruct (Z_lt_dec l 0) as [Hneg|Hnn]; [|destruct (Z_lt_dec l (nlabels d)) as [Hlt|Hge]].
      * unfold Model.set_empty. rewrite (get_label_int Z.eqb (fun c : Z => c)) by auto.
        destruct ((0 <=? l) && (l <? nlabels d)) eqn:E; [lia|]. simpl. exact HE.
      * rewrite (set_empty_int_spec Z.eqb (fun c : Z => c)) by (auto; lia). simpl.
        apply EmptyOK1_set; auto.
      * unfold Model.set_empty. rewrite (get_label_int Z.eqb (fun c : Z => c)) by auto.
        destruct ((0 <=? l) && (l <? nlabels d)) eqn:E; [lia|]. simpl. exact HE.
  - (* add *)
    destruct (add_key_spec Z.eqb Zeqb_spec d c W) as (W' & [[Hin ->]|(Hnin & Hc & He & Hn)]); auto.
    apply (EmptyOK1_grow d _ c W HE Hc He).
Qed.

(* is_empty answers EMPTY only for a truly empty class *)
Lemma is_empty_correct1 (d : @db Z) c lab d' : WFd d -> EOK1 d -> honest1 d (OpIsEmpty c lab) ->
  is_empty Z.eqb (fun c : Z => c) oracle d c lab = (d', RBool true) -> oracle c = true.
Proof.
  intros W HE Hh. unfold Model.is_empty.
  set (lo := match lab with Some l => Some l | None => Model.dict_get Z.eqb (dict d) c end).
  destruct lo as [l|] eqn:Elo; [|intros [= ]].
  assert (lbl d c = Some l) as Hl.
  { unfold lo in Elo. destruct lab; simpl in Hh; [congruence|exact Elo]. }
  destruct (label_of_range Z.eqb Zeqb_spec (fun c : Z => c) _ _ _ W Hl) as [Hr Hn].
  destruct (py_nth (empties d) l) as [[b0|]|] eqn:En; simpl; intros Heq.
  - injection Heq as <- ->. rewrite py_nth_nonneg in En by lia.
    destruct (l <? zlen (empties d)); [|discriminate].
    apply (HE _ _ Hn En).
  - destruct (set_empty _ _ _) as [s2 r]. destruct r; try discriminate; injection Heq as _ <-; auto.
  - discriminate.
Qed.

End ClassDB1.
