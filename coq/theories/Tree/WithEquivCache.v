(* Proofs about the composed RuleDBBase model, part 4: the `_pruned_dict` cache is
   transparent.  Two histories that differ only in where the cache was thrown away
   (CDrop: `self._pruned_dict = None` without an add; dropping before every operation
   = never caching) give the same answers.  The two runs do NOT go through the same
   union-find states (an extra recomputation re-keys the one-way table, so later merges
   can pick other roots): the simulation relation is at the level the property talks
   about — the partition into classes and the set of verified classes — and the
   answers coincide because the pruning does not depend on which label names a class
   (Tree/Kernel.v). *)
From Coq Require Import ZArith List Bool Lia Relations.
From CSS Require Import Base.PyList Tree.Model Tree.Basics Tree.Valid Tree.PruneProofs
  Tree.IterProofs Tree.SpecProofs Tree.Kernel.
From CSS Require Import Equiv.Model Equiv.Ref Equiv.UF Equiv.Inv Equiv.Hist Equiv.Cov
  Equiv.CompleteUF Equiv.Complete Equiv.Total Equiv.Neutral.
From CSS Require Import Tree.WithEquiv Tree.WithEquivProofs Tree.WithEquivInv Tree.WithEquivHist.
Import ListNotations.
Open Scope Z_scope.

Section Cache.
Variable order : list Z -> list Z.
Hypothesis order_In : forall l x, In x (order l) <-> In x l. (* in-section *)
Hypothesis order_len : forall l, (length (order l) <= length l)%nat. (* in-section *)
Variable root_label : Z.
Variable iterative : bool.

Notation runs := (runs order).
Notation traced := (traced order).
Notation c_rue := (c_rue order).
Notation c_pruned_dict := (c_pruned_dict order root_label iterative).
Notation c_has_spec := (c_has_spec order root_label iterative).
Notation c_node := (c_node order root_label iterative).
Notation node_body := (node_body order root_label iterative).
Notation ensure := (ensure order root_label iterative).
Notation read_pd_root := (read_pd_root order root_label iterative).
Notation cstep := (cstep order root_label iterative).
Notation cexec := (cexec order root_label iterative).
Notation Inv2 := (Inv2 order root_label iterative).
Notation Hot := (Hot root_label).

(* ------------------------------------------------------------ runs of the operations *)
(* x' is x after lookups only *)
Definition qruns (x x' : rdb) : Prop :=
  (exists qs, Forall is_query qs /\ runs (r_eq x) qs (r_eq x')) /\ x' = with_eq x (r_eq x').

Lemma qruns_refl x : qruns x x.
Proof. split; [exists []; split; [constructor|apply runs_nil]|destruct x; reflexivity]. Qed.

Lemma qruns_trans x y z : qruns x y -> qruns y z -> qruns x z.
Proof.
  intros ((q1 & F1 & R1) & E1) ((q2 & F2 & R2) & E2). split.
  - exists (q1 ++ q2). split; [apply Forall_app; auto|eapply runs_app; eauto].
  - rewrite E2, E1. reflexivity.
Qed.

Lemma qruns_find x s2 r : find (r_eq x) root_label = Some (s2, r) -> qruns x (with_eq x s2).
Proof.
  intros F. split; [|reflexivity]. exists [QFind root_label].
  split; [repeat constructor|eapply runs_find; eauto].
Qed.

Lemma qruns_cache x x' : qruns x x' -> r_cache x' = r_cache x.
Proof. intros (_ & ->). reflexivity. Qed.

Lemma c_has_spec_cached_qruns x pd x' b :
  r_cache x = Some pd -> c_has_spec x = Some (x', b) -> qruns x x'.
Proof.
  intros HC H. unfold WithEquiv.c_has_spec in H.
  rewrite (c_pruned_dict_cached order root_label iterative x pd HC) in H.
  destruct (find (r_eq x) root_label) as [[s2 r]|] eqn:F; [|discriminate]. inv H.
  eapply qruns_find; eauto.
Qed.

Lemma read_pd_root_cached_qruns x pd x' pr :
  r_cache x = Some pd -> read_pd_root x = Some (x', pr) -> qruns x x'.
Proof.
  intros HC H. unfold WithEquiv.read_pd_root in H.
  rewrite (c_pruned_dict_cached order root_label iterative x pd HC) in H.
  destruct (find (r_eq x) root_label) as [[s2 r]|] eqn:F; [|discriminate]. inv H.
  eapply qruns_find; eauto.
Qed.

Lemma ensure_cached_qruns x pd k x' r :
  r_cache x = Some pd ->
  (forall x1 x2 r2, r_cache x1 = Some pd -> k x1 = Some (x2, r2) -> qruns x1 x2) ->
  ensure x k = Some (x', r) -> qruns x x'.
Proof.
  intros HC Hk H. unfold WithEquiv.ensure in H.
  destruct (c_has_spec x) as [[x1 b]|] eqn:HS; [|discriminate].
  pose proof (c_has_spec_cached_qruns x pd x1 b HC HS) as Q1.
  assert (C1 : r_cache x1 = Some pd) by (rewrite (qruns_cache _ _ Q1); exact HC).
  destruct b.
  - eapply qruns_trans; [exact Q1|]. eapply Hk; eauto.
  - inv H. exact Q1.
Qed.

Lemma c_smallish_cached_qruns x pd runs0 x' r :
  r_cache x = Some pd -> c_smallish_node order root_label iterative x runs0 = Some (x', r) -> qruns x x'.
Proof.
  intros HC H. unfold c_smallish_node in H. eapply ensure_cached_qruns; [exact HC| |exact H].
  intros x1 x2 r2 C1 H1. cbv beta in H1.
  destruct (read_pd_root x1) as [[x3 [pd3 r3]]|] eqn:RD; [|discriminate]. inv H1.
  eapply read_pd_root_cached_qruns; eauto.
Qed.

Lemma node_body_cached_qruns x pd sm runs0 listed x' r :
  r_cache x = Some pd -> node_body x sm runs0 listed = Some (x', r) -> qruns x x'.
Proof.
  intros HC H. unfold WithEquiv.node_body in H.
  set (it := iterative) in H at 1. clearbody it. destruct it.
  - destruct sm; [inv H; apply qruns_refl|].
    unfold c_iterative_node in H. eapply ensure_cached_qruns; [exact HC| |exact H].
    intros x1 x2 r2 C1 H1. cbv beta in H1.
    destruct (read_pd_root x1) as [[x3 [pd3 r3]]|] eqn:RD; [|discriminate]. inv H1.
    eapply read_pd_root_cached_qruns; eauto.
  - destruct sm; [|eapply c_smallish_cached_qruns; eauto].
    unfold c_smallest_node in H. eapply ensure_cached_qruns; [exact HC| |exact H].
    intros x1 x2 r2 C1 H1. cbv beta in H1.
    destruct (c_smallish_node order root_label iterative x1 runs0) as [[x3 nr]|] eqn:SM; [|discriminate].
    pose proof (c_smallish_cached_qruns x1 pd runs0 x3 nr C1 SM) as Q3.
    assert (C3 : r_cache x3 = Some pd) by (rewrite (qruns_cache _ _ Q3); exact C1).
    destruct nr; try (inv H1; exact Q3).
    destruct (read_pd_root x3) as [[x4 [pd4 r4]]|] eqn:RD; [|discriminate]. inv H1.
    eapply qruns_trans; [exact Q3|]. eapply read_pd_root_cached_qruns; eauto.
Qed.

(* ------------------------------------------------------------ observations *)
(* the partition and the verified classes: what the answers depend on *)
Definition peq (s t : db) : Prop := forall a b, same s a b <-> same t a b.
Definition veq (x y : rdb) : Prop := forall l, c_ver x l = c_ver y l.

Lemma bool_iff_eq (a b : bool) : (a = true <-> b = true) -> a = b.
Proof.
  destruct a, b; intros [H1 H2]; auto; try (symmetry; apply H1; reflexivity); apply H2; reflexivity.
Qed.

(* the verified labels after a run, from the verified labels before and the marks *)
Lemma ver_after_runs tr x qs x' :
  traced tr (r_eq x) -> runs (r_eq x) qs (r_eq x') ->
  forall l, c_ver x' l = true <->
    (exists b0, c_ver x b0 = true /\ same (r_eq x') l b0) \/
    (exists b, marks qs b /\ same (r_eq x') l b).
Proof.
  intros T Rn l.
  assert (T' : traced (tr ++ qs) (r_eq x')) by (eapply traced_app; eauto).
  rewrite (c_ver_spec order order_In order_len _ x' l T').
  pose proof (traced_HInv order order_In _ _ T) as HI.
  assert (Mono : forall a c, same (r_eq x) a c -> same (r_eq x') a c).
  { destruct Rn as (rs & Ex). eapply exec_mono; eauto. }
  split.
  - intros (b & Mb & S). apply marked_app in Mb. destruct Mb as [Mb|Mb].
    + left. exists b. split; auto. apply (c_ver_spec order order_In order_len tr x b T).
      exists b. split; auto. eapply same_refl; eauto.
    + right. exists b. auto.
  - intros [(b0 & Vb & S)|(b & Mb & S)].
    + apply (c_ver_spec order order_In order_len tr x b0 T) in Vb. destruct Vb as (b1 & Mb & S1).
      exists b1. split; [apply marked_app; left; auto|].
      eapply same_trans; [exact S|]. apply Mono. exact S1.
    + exists b. split; [apply marked_app; right; auto|auto].
Qed.

(* two runs whose marks lie in corresponding classes keep the verified classes equal *)
Lemma veq_step trx try x y qx qy x' y' :
  traced trx (r_eq x) -> traced try (r_eq y) ->
  runs (r_eq x) qx (r_eq x') -> runs (r_eq y) qy (r_eq y') ->
  veq x y -> peq (r_eq x') (r_eq y') ->
  (forall b, marks qx b -> exists b', (c_ver y b' = true \/ marks qy b') /\ same (r_eq y') b b') ->
  (forall b, marks qy b -> exists b', (c_ver x b' = true \/ marks qx b') /\ same (r_eq x') b b') ->
  veq x' y'.
Proof.
  intros Tx Ty Rx Ry V P Mx My l. apply bool_iff_eq.
  rewrite (ver_after_runs trx x qx x' Tx Rx l), (ver_after_runs try y qy y' Ty Ry l). split.
  - intros [(b0 & Vb & S)|(b & Mb & S)].
    + left. exists b0. split; [rewrite <- V; exact Vb|apply P; exact S].
    + destruct (Mx b Mb) as (b' & [Vb|Mb'] & S').
      * left. exists b'. split; auto. eapply same_trans; [apply P; exact S|exact S'].
      * right. exists b'. split; auto. eapply same_trans; [apply P; exact S|exact S'].
  - intros [(b0 & Vb & S)|(b & Mb & S)].
    + left. exists b0. split; [rewrite V; exact Vb|apply P; exact S].
    + destruct (My b Mb) as (b' & [Vb|Mb'] & S').
      * left. exists b'. split; auto. eapply same_trans; [apply P; exact S|exact S'].
      * right. exists b'. split; auto. eapply same_trans; [apply P; exact S|exact S'].
Qed.

(* lookups change neither *)
Lemma qruns_obs E K x x' :
  Inv2 E K x -> qruns x x' ->
  Inv2 E K x' /\ peq (r_eq x) (r_eq x') /\ veq x x'.
Proof.
  intros I ((qs & F & Rn) & Ex).
  assert (P : pres (r_eq x) (r_eq x')) by (eapply runs_queries_pres; eauto).
  assert (I' : Inv2 E K x').
  { rewrite Ex. eapply Inv2_extend; [exact order_In|exact order_len|exact I| |exact Rn].
    apply Forall_neutral_neutral2, Forall_query_neutral; auto. }
  split; auto. split.
  - intros a b. symmetry. apply pres_same; auto.
  - intros l. unfold c_ver, c_rep. fold (repf (r_eq x) l) (repf (r_eq x') l).
    destruct P as (A & B & _). rewrite B. f_equal. symmetry. apply repf_unique.
    + eapply Inv2_wf; eauto.
    + apply A. apply repf_root. eapply Inv2_wf; eauto.
Qed.

(* ------------------------------------------------------------ cached dictionaries *)
Lemma cached_facts E K x pd :
  Inv2 E K x -> r_cache x = Some pd ->
  Tree.Model.pruned_dict (repf (r_eq x)) (fst K ++ snd K) root_label iterative = Some pd /\
  scc_rep E (repf (r_eq x)) /\
  (forall k, In k (keys pd) -> c_ver x k = true).
Proof.
  intros (tr & T & R & C & Kx) HC. destruct (C pd HC) as (HCm & PD & Mk).
  split; [inv Kx; exact PD|]. split; [eapply scc_rep_of; eauto|].
  intros k Hk. apply (c_ver_spec order order_In order_len tr x k T). exists k. split; auto.
  eapply same_refl. eapply traced_HInv; eauto.
Qed.

Lemma scc_rep_kernel E rep1 rep2 : scc_rep E rep1 -> scc_rep E rep2 -> same_kernel rep1 rep2.
Proof. intros H1 H2 a b. rewrite (H1 a b), (H2 a b). reflexivity. Qed.

Lemma scc_rep_peq E x y :
  wf (r_eq x) -> wf (r_eq y) ->
  scc_rep E (repf (r_eq x)) -> scc_rep E (repf (r_eq y)) -> peq (r_eq x) (r_eq y).
Proof.
  intros Wx Wy H1 H2 a b.
  rewrite <- (repf_same _ a b Wx), <- (repf_same _ a b Wy), (H1 a b), (H2 a b). reflexivity.
Qed.

(* the run of has_specification: which labels it passes to set_verified *)
Lemma c_has_spec_runs E K x x' b :
  Inv2 E K x -> c_has_spec x = Some (x', b) ->
  exists qs pd, runs (r_eq x) qs (r_eq x') /\ r_cache x' = Some pd /\
    (forall k, marks qs k <-> r_cache x = None /\ In k (keys pd)).
Proof.
  intros I H. assert (W : wf (r_eq x)) by (eapply Inv2_wf; eauto).
  destruct (r_cache x) as [pd0|] eqn:HC.
  - pose proof (c_has_spec_cached_qruns x pd0 x' b HC H) as ((qs & F & Rn) & Ex).
    exists qs, pd0. split; auto. split; [rewrite Ex; simpl; exact HC|].
    intros k. split; [intros M; destruct (marks_queries qs k F M)|intros (D & _); discriminate D].
  - unfold WithEquiv.c_has_spec in H.
    destruct (c_pruned_dict x) as [[x1 pd]|] eqn:PD; [|discriminate].
    destruct (find (r_eq x1) root_label) as [[s2 r]|] eqn:F; [|discriminate]. inv H.
    destruct (c_pruned_dict_spec order order_len root_label iterative x x1 pd W HC PD)
      as (s1 & qs & CC & P & Fq & Rn & Mk & PDe & K1 & K2 & K3).
    exists ((Connect :: qs) ++ [QFind root_label]), pd. split.
    + eapply runs_app; [|eapply runs_find; eauto].
      destruct Rn as (rs & Ex). exists (RNone :: rs). simpl. rewrite CC, Ex. reflexivity.
    + split; [exact K3|]. intros k. unfold marks. rewrite in_app_iff. simpl. split.
      * intros [[D|M]|[D|[]]]; try discriminate D. split; auto. apply Mk. exact M.
      * intros (_ & Hk). left. right. apply Mk. exact Hk.
Qed.

(* ------------------------------------------------------------ the simulation *)
Definition Sim (E : Z -> Z -> Prop) (K : list rkey * list rkey) (x y : rdb) : Prop :=
  Inv2 E K x /\ Inv2 E K y /\ peq (r_eq x) (r_eq y) /\ veq x y.

Lemma Sim_sym E K x y : Sim E K x y -> Sim E K y x.
Proof.
  intros (Ix & Iy & P & V). split; auto. split; auto. split.
  - intros a b. symmetry. apply P.
  - intros l. symmetry. apply V.
Qed.

Lemma Sim_qruns E K x y x' y' : Sim E K x y -> qruns x x' -> qruns y y' -> Sim E K x' y'.
Proof.
  intros (Ix & Iy & P & V) Qx Qy.
  destruct (qruns_obs E K x x' Ix Qx) as (Ix' & Px & Vx).
  destruct (qruns_obs E K y y' Iy Qy) as (Iy' & Py & Vy).
  split; auto. split; auto. split.
  - intros a b. rewrite <- (Px a b), <- (Py a b). apply P.
  - intros l. rewrite <- (Vx l), <- (Vy l). apply V.
Qed.

Definition drop (x : rdb) : rdb := mkR (r_eq x) (r_rules x) (r_eqv x) None.

Lemma Inv2_drop E K x : Inv2 E K x -> Inv2 E K (drop x).
Proof.
  intros (tr & T & R & C & Kx). exists tr. simpl. split; auto. split; auto.
  split; [intros pd Hc; discriminate Hc|exact Kx].
Qed.

Lemma Sim_drop_l E K x y : Sim E K x y -> Sim E K (drop x) y.
Proof. intros (Ix & Iy & P & V). split; [apply Inv2_drop; auto|]. split; auto. Qed.

(* has_specification on both sides *)
Lemma Sim_has_spec E K x y x' y' b1 b2 :
  Sim E K x y -> c_has_spec x = Some (x', b1) -> c_has_spec y = Some (y', b2) ->
  Sim E K x' y' /\ b1 = b2.
Proof.
  intros (Ix & Iy & P & V) Hx Hy.
  destruct (c_has_spec_spec order order_In order_len root_label iterative E K x x' b1 Ix Hx)
    as (Ix' & (pdx & Cx & Ebx) & Sx & _).
  destruct (c_has_spec_spec order order_In order_len root_label iterative E K y y' b2 Iy Hy)
    as (Iy' & (pdy & Cy & Eby) & Sy & _).
  destruct (cached_facts E K x' pdx Ix' Cx) as (PDx & _ & _).
  destruct (cached_facts E K y' pdy Iy' Cy) as (PDy & _ & _).
  assert (Wx' : wf (r_eq x')) by (eapply Inv2_wf; eauto).
  assert (Wy' : wf (r_eq y')) by (eapply Inv2_wf; eauto).
  pose proof (scc_rep_kernel E _ _ Sx Sy) as Ker.
  pose proof (pruned_kernel _ _ _ _ _ _ _ Ker PDx PDy) as PK.
  assert (P' : peq (r_eq x') (r_eq y')) by (apply (scc_rep_peq E); auto).
  split; [|rewrite Ebx, Eby; apply PK].
  split; auto. split; auto. split; auto.
  destruct (c_has_spec_runs E K x x' b1 Ix Hx) as (qx & pdx' & Rx & Cx' & Mx).
  destruct (c_has_spec_runs E K y y' b2 Iy Hy) as (qy & pdy' & Ry & Cy' & My).
  rewrite Cx in Cx'. inv Cx'. rewrite Cy in Cy'. inv Cy'.
  destruct Ix as (trx & Tx & Ix3). destruct Iy as (try & Ty & Iy3).
  assert (KeyRep : forall rep rules pd k, (forall z, rep (rep z) = rep z) ->
            Tree.Model.pruned_dict rep rules root_label iterative = Some pd ->
            In k (keys pd) -> rep k = k).
  { intros rep rules pd k Idem PD Hk. eapply pruned_keys_are_reps; eauto. apply has_key_In_keys; auto. }
  eapply (veq_step trx try x y qx qy x' y'); eauto.
  - intros k Mk. apply Mx in Mk. destruct Mk as (_ & Hk).
    assert (Ek : repf (r_eq x') k = k).
    { eapply KeyRep; [|exact PDx|exact Hk]. intros z. apply repf_idem; auto. }
    exists (repf (r_eq y') k). split; [|apply same_root, repf_root; auto].
    assert (HK : In (repf (r_eq y') k) (keys pdy')).
    { apply has_key_In_keys. rewrite <- (PK k), Ek. apply has_key_In_keys. exact Hk. }
    destruct (r_cache y) as [pd0|] eqn:HCy.
    + left.
      assert (Iy : Inv2 E K y) by (exists try; auto).
      pose proof (c_has_spec_cached_qruns y pd0 y' _ HCy Hy) as Qy.
      assert (pd0 = pdy') by (rewrite (qruns_cache _ _ Qy), HCy in Cy; congruence). subst pd0.
      destruct (cached_facts E K y pdy' Iy HCy) as (_ & _ & Vk). apply Vk. exact HK.
    + right. apply My. split; auto.
  - intros k Mk. apply My in Mk. destruct Mk as (_ & Hk).
    assert (Ek : repf (r_eq y') k = k).
    { eapply KeyRep; [|exact PDy|exact Hk]. intros z. apply repf_idem; auto. }
    exists (repf (r_eq x') k). split; [|apply same_root, repf_root; auto].
    assert (HK : In (repf (r_eq x') k) (keys pdx')).
    { apply has_key_In_keys. rewrite (PK k), Ek. apply has_key_In_keys. exact Hk. }
    destruct (r_cache x) as [pd0|] eqn:HCx.
    + left.
      assert (Ix : Inv2 E K x) by (exists trx; auto).
      pose proof (c_has_spec_cached_qruns x pd0 x' _ HCx Hx) as Qx.
      assert (pd0 = pdx') by (rewrite (qruns_cache _ _ Qx), HCx in Cx; congruence). subst pd0.
      destruct (cached_facts E K x pdx' Ix HCx) as (_ & _ & Vk). apply Vk. exact HK.
    + right. apply Mx. split; auto.
Qed.

(* is_verified on both sides *)
Lemma c_is_verified_qruns x l x' v : c_is_verified x l = Some (x', v) -> qruns x x'.
Proof.
  intros H. unfold c_is_verified in H.
  destruct (is_verified (r_eq x) l) as [[s1 v1]|] eqn:IV; [|discriminate]. inv H.
  split; [|reflexivity]. exists [QVerified l]. split; [repeat constructor|eapply runs_is_verified; eauto].
Qed.

Lemma Sim_is_verified E K x y l x' y' v1 v2 :
  Sim E K x y -> c_is_verified x l = Some (x', v1) -> c_is_verified y l = Some (y', v2) ->
  Sim E K x' y' /\ v1 = v2.
Proof.
  intros S Hx Hy. split.
  - eapply Sim_qruns; [exact S|eapply c_is_verified_qruns; eauto|eapply c_is_verified_qruns; eauto].
  - destruct S as (Ix & Iy & _ & V).
    destruct (c_is_verified_Inv2 order order_In order_len root_label iterative E K x l x' v1 Ix Hx) as (_ & ->).
    destruct (c_is_verified_Inv2 order order_In order_len root_label iterative E K y l y' v2 Iy Hy) as (_ & ->).
    apply V.
Qed.

(* rules_up_to_equivalence on both sides *)
Lemma Sim_rue E K x y x' y' d1 d2 :
  Sim E K x y -> c_rue x = Some (x', d1) -> c_rue y = Some (y', d2) -> Sim E K x' y'.
Proof.
  intros (Ix & Iy & P & V) Hx Hy.
  destruct (c_rue_Inv2 order order_In order_len root_label iterative E K x x' d1 Ix Hx) as (Ix' & _ & Sx).
  destruct (c_rue_Inv2 order order_In order_len root_label iterative E K y y' d2 Iy Hy) as (Iy' & _ & Sy).
  assert (Wx : wf (r_eq x)) by (eapply Inv2_wf; eauto).
  assert (Wy : wf (r_eq y)) by (eapply Inv2_wf; eauto).
  assert (P' : peq (r_eq x') (r_eq y')).
  { apply (scc_rep_peq E); auto; eapply Inv2_wf; eauto. }
  split; auto. split; auto. split; auto.
  destruct (c_rue_spec order order_len x x' d1 Wx Hx) as (s1 & qs1 & CC1 & _ & F1 & (rs1 & Ex1) & _).
  destruct (c_rue_spec order order_len y y' d2 Wy Hy) as (s2 & qs2 & CC2 & _ & F2 & (rs2 & Ex2) & _).
  destruct Ix as (trx & Tx & _). destruct Iy as (try & Ty & _).
  assert (NM : forall qs k, Forall is_query qs -> ~ marks (Connect :: qs) k).
  { intros qs k F [D|M]; [discriminate D|]. exact (marks_queries qs k F M). }
  eapply (veq_step trx try x y (Connect :: qs1) (Connect :: qs2) x' y'); eauto.
  - exists (RNone :: rs1). simpl. rewrite CC1, Ex1. reflexivity.
  - exists (RNone :: rs2). simpl. rewrite CC2, Ex2. reflexivity.
  - intros k M. destruct (NM _ _ F1 M).
  - intros k M. destruct (NM _ _ F2 M).
Qed.

(* add on both sides *)
Definition add_part (P : Z -> Z -> Prop) (start : Z) (ends : list Z) (tw : bool) (a b : Z) : Prop :=
  match sortZ ends with
  | [e] => if tw then P a b \/ (P a start /\ P b e) \/ (P a e /\ P b start) else P a b
  | _ => P a b
  end.

Lemma add_one_way_roots s a b s' :
  add_one_way s a b = Some s' -> forall y q, root s' y q <-> root s y q.
Proof.
  intros X. unfold add_one_way in X.
  destruct (find (add_edge s a b) a) as [[s1 ra]|] eqn:F1; [|discriminate].
  destruct (find (with_oneway s1 (touch (oneway s1) ra)) b) as [[s2 rb]|] eqn:F2; [|discriminate].
  inv X. apply find_spec in F1. apply find_spec in F2.
  destruct F1 as (_ & (A1 & _)). destruct F2 as (_ & (A2 & _)).
  intros y q. change (root s2 y q <-> root s y q). rewrite A2.
  change (root s1 y q <-> root s y q). rewrite A1.
  unfold add_edge. destruct (Z.eqb a b); reflexivity.
Qed.

Lemma add_two_way_same s a b s' :
  tot s -> add_two_way s a b = Some s' ->
  forall x y, same s' x y <-> same s x y \/ (same s x a /\ same s y b) \/ (same s x b /\ same s y a).
Proof.
  intros T X. unfold add_two_way in X. apply set_equivalent_same in X.
  - destruct X as (_ & _ & SS). intros x y. rewrite SS.
    unfold add_edge. destruct (Z.eqb a b), (Z.eqb b a); reflexivity.
  - intros x. destruct (T x) as (q & Hq). exists q.
    unfold add_edge. destruct (Z.eqb a b), (Z.eqb b a); exact Hq.
Qed.

Lemma c_add_runs x start ends ver tw x' :
  wf (r_eq x) -> c_add x start ends ver tw = Some x' ->
  (exists qs, runs (r_eq x) qs (r_eq x') /\ (forall b, marks qs b <-> ver = true /\ b = start)) /\
  (forall a b, same (r_eq x') a b <-> add_part (same (r_eq x)) start ends tw a b).
Proof.
  intros W H. unfold c_add in H.
  destruct (if ver then set_verified (r_eq x) start else Some (r_eq x)) as [s1|] eqn:SV; [|discriminate].
  set (q1 := if ver then [SetVerified start] else @nil op).
  assert (R1 : runs (r_eq x) q1 s1).
  { unfold q1. destruct ver; [eapply runs_set_verified; eauto|inv SV; apply runs_nil]. }
  assert (M1 : forall b, marks q1 b <-> ver = true /\ b = start).
  { intros b. unfold q1, marks. destruct ver; simpl.
    - split; [intros [D|[]]; inv D; auto|intros (_ & ->); auto].
    - split; [intros []|intros (D & _); discriminate D]. }
  assert (S1 : forall a b, same s1 a b <-> same (r_eq x) a b).
  { destruct ver; [|inv SV; reflexivity]. intros a b. apply rsame_same. eapply set_verified_rsame; eauto. }
  assert (W1 : wf s1) by (eapply runs_wf; eauto).
  assert (ME : forall (q2 : list op) b, (forall k, ~ marks q2 k) -> (marks (q1 ++ q2) b <-> ver = true /\ b = start)).
  { intros q2 b N. unfold marks. rewrite in_app_iff. fold (marks q1 b) (marks q2 b). rewrite M1.
    split; [intros [X|X]; [auto|destruct (N _ X)]|auto]. }
  unfold add_part.
  destruct (sortZ ends) as [|e [|e2 rest]] eqn:Es.
  - inv H. simpl. split; [exists q1; auto|exact S1].
  - destruct tw.
    + destruct (add_two_way s1 start e) as [s2|] eqn:TW; [|discriminate]. inv H. simpl. split.
      * exists (q1 ++ [TwoWay start e]). split; [eapply runs_app; [exact R1|eapply runs_two_way; eauto]|].
        intros b. apply ME. intros k [D|[]]. discriminate D.
      * intros a b. rewrite (add_two_way_same s1 start e s2 (proj2 W1) TW a b), !S1. reflexivity.
    + destruct (add_one_way s1 start e) as [s2|] eqn:OW; [|discriminate]. inv H. simpl. split.
      * exists (q1 ++ [OneWay start e]). split; [eapply runs_app; [exact R1|eapply runs_one_way; eauto]|].
        intros b. apply ME. intros k [D|[]]. discriminate D.
      * intros a b. rewrite <- S1. unfold same.
        split; intros (q & H1 & H2); exists q; split; apply (add_one_way_roots _ _ _ _ OW); auto.
  - inv H. simpl. split; [exists q1; auto|exact S1].
Qed.

Lemma add_part_peq s t start ends tw a b :
  peq s t -> (add_part (same s) start ends tw a b <-> add_part (same t) start ends tw a b).
Proof.
  intros P. unfold add_part. destruct (sortZ ends) as [|e [|e2 rest]]; try apply P.
  destruct tw; [|apply P]. rewrite !(P _ _). reflexivity.
Qed.

Lemma Sim_add E K x y start ends ver tw x' y' :
  Sim E K x y -> c_add x start ends ver tw = Some x' -> c_add y start ends ver tw = Some y' ->
  Sim (fun a b => E a b \/ new_edge start ends tw a b) (kstep K (CAdd start ends ver tw)) x' y'.
Proof.
  intros (Ix & Iy & P & V) Hx Hy.
  pose proof (c_add_Inv2 order root_label iterative E K x start ends ver tw x' Ix Hx) as Ix'.
  pose proof (c_add_Inv2 order root_label iterative E K y start ends ver tw y' Iy Hy) as Iy'.
  assert (Wx : wf (r_eq x)) by (eapply Inv2_wf; eauto).
  assert (Wy : wf (r_eq y)) by (eapply Inv2_wf; eauto).
  destruct (c_add_runs x start ends ver tw x' Wx Hx) as ((qx & Rx & Mx) & Sx).
  destruct (c_add_runs y start ends ver tw y' Wy Hy) as ((qy & Ry & My) & Sy).
  assert (P' : peq (r_eq x') (r_eq y')).
  { intros a b. rewrite Sx, Sy. apply add_part_peq. exact P. }
  split; auto. split; auto. split; auto.
  destruct Ix as (trx & Tx & _). destruct Iy as (try & Ty & _).
  eapply (veq_step trx try x y qx qy x' y'); eauto.
  - intros k M. exists k. split; [right; apply My; apply Mx; exact M|].
    eapply same_refl. eapply traced_HInv; [exact order_In|]. exact (traced_app order _ _ _ _ Ty Ry).
  - intros k M. exists k. split; [right; apply Mx; apply My; exact M|].
    eapply same_refl. eapply traced_HInv; [exact order_In|]. exact (traced_app order _ _ _ _ Tx Rx).
Qed.

(* _get_specification_node on both sides *)
Definition nkind (r : node_res) : Z :=
  match r with NNotFound => 0 | NInvalid => 1 | _ => 2 end.

Lemma node_body_invalid x sm runs0 listed x' res :
  iterative = true -> sm = true -> node_body x sm runs0 listed = Some (x', res) -> res = NInvalid.
Proof.
  intros Hi -> H. unfold WithEquiv.node_body in H. rewrite Hi in H. inv H. reflexivity.
Qed.

Lemma Sim_node E K x y sm runs0 listed x' y' r1 r2 :
  Sim E K x y -> c_node x sm runs0 listed = Some (x', r1) -> c_node y sm runs0 listed = Some (y', r2) ->
  Sim E K x' y' /\ nkind r1 = nkind r2.
Proof.
  intros S Hx Hy. unfold WithEquiv.c_node, WithEquiv.ensure in Hx, Hy.
  destruct (c_has_spec x) as [[x1 b1]|] eqn:HSx; [|discriminate].
  destruct (c_has_spec y) as [[y1 b2]|] eqn:HSy; [|discriminate].
  destruct (Sim_has_spec E K x y x1 y1 b1 b2 S HSx HSy) as (S1 & <-).
  destruct S as (Ix & Iy & _).
  destruct (c_has_spec_spec order order_In order_len root_label iterative E K x x1 b1 Ix HSx)
    as (Ix1 & (pdx & Cx & Ebx) & _).
  destruct (c_has_spec_spec order order_In order_len root_label iterative E K y y1 b1 Iy HSy)
    as (Iy1 & (pdy & Cy & Eby) & _).
  destruct b1.
  - assert (Hx1 : Hot pdx x1) by (split; auto).
    assert (Hy1 : Hot pdy y1) by (split; auto).
    split.
    + eapply Sim_qruns; [exact S1|eapply node_body_cached_qruns; eauto|eapply node_body_cached_qruns; eauto].
    + destruct (node_body_hot order order_In order_len root_label iterative E K pdx x1 sm runs0 listed x' r1 Ix1 Hx1 Hx)
        as (_ & _ & OKx).
      destruct (node_body_hot order order_In order_len root_label iterative E K pdy y1 sm runs0 listed y' r2 Iy1 Hy1 Hy)
        as (_ & _ & OKy).
      unfold node_ok in OKx, OKy.
      destruct r1; try contradiction; destruct r2; try contradiction; try reflexivity;
        try (destruct OKx as (Hi & Hs); rewrite (node_body_invalid y1 sm runs0 listed y' _ Hi Hs Hy); reflexivity);
        try (destruct OKy as (Hi & Hs); rewrite (node_body_invalid x1 sm runs0 listed x' _ Hi Hs Hx); reflexivity).
      all: try (destruct OKx as (Hi & Hs); pose proof (node_body_invalid y1 sm runs0 listed y' _ Hi Hs Hy) as D; discriminate D).
      all: try (destruct OKy as (Hi & Hs); pose proof (node_body_invalid x1 sm runs0 listed x' _ Hi Hs Hx) as D; discriminate D).
  - inv Hx. inv Hy. split; auto.
Qed.

(* ------------------------------------------------------------ the theorem *)
Definition is_drop (o : cop) : bool := match o with CDrop => true | _ => false end.

(* what is compared: Booleans literally; of a node request whether it found a specification
   (trees and quotient dictionaries are named by representatives, which may differ) *)
Definition proj (a : cans) : Z :=
  match a with
  | ANone => 0
  | ABool b => if b then 1 else 2
  | ADict _ => 3
  | ANode r => 4 + nkind r
  end.

(* the answers of the operations that are not drops *)
Fixpoint vis (ops : list cop) (ans : list cans) : list cans :=
  match ops, ans with
  | o :: t, a :: r => if is_drop o then vis t r else a :: vis t r
  | _, _ => []
  end.

Lemma Sim_step E K x y o x' y' a1 a2 :
  Sim E K x y -> is_drop o = false -> cstep x o = Some (x', a1) -> cstep y o = Some (y', a2) ->
  (exists E' K', Sim E' K' x' y') /\ proj a1 = proj a2.
Proof.
  intros S D Hx Hy. destruct o as [start ends ver tw| |l| |sm runs0 listed|]; simpl in Hx, Hy; try discriminate D.
  - destruct (c_add x start ends ver tw) as [x1|] eqn:Ax; [|discriminate].
    destruct (c_add y start ends ver tw) as [y1|] eqn:Ay; [|discriminate]. inv Hx. inv Hy.
    split; [|reflexivity]. eexists _, _. eapply Sim_add; eauto.
  - destruct (c_has_spec x) as [[x1 b1]|] eqn:Ax; [|discriminate].
    destruct (c_has_spec y) as [[y1 b2]|] eqn:Ay; [|discriminate]. inv Hx. inv Hy.
    destruct (Sim_has_spec E K x y x' y' b1 b2 S Ax Ay) as (S' & ->). split; [eauto|reflexivity].
  - destruct (c_is_verified x l) as [[x1 b1]|] eqn:Ax; [|discriminate].
    destruct (c_is_verified y l) as [[y1 b2]|] eqn:Ay; [|discriminate]. inv Hx. inv Hy.
    destruct (Sim_is_verified E K x y l x' y' b1 b2 S Ax Ay) as (S' & ->). split; [eauto|reflexivity].
  - destruct (c_rue x) as [[x1 d1]|] eqn:Ax; [|discriminate].
    destruct (c_rue y) as [[y1 d2]|] eqn:Ay; [|discriminate]. inv Hx. inv Hy.
    split; [|reflexivity]. eexists _, _. eapply Sim_rue; eauto.
  - destruct (c_node x sm runs0 listed) as [[x1 r1]|] eqn:Ax; [|discriminate].
    destruct (c_node y sm runs0 listed) as [[y1 r2]|] eqn:Ay; [|discriminate]. inv Hx. inv Hy.
    destruct (Sim_node E K x y sm runs0 listed x' y' r1 r2 S Ax Ay) as (S' & Ek).
    split; [eauto|]. simpl. rewrite Ek. reflexivity.
Qed.

Theorem cache_transparent_gen : forall ops1 ops2 E K x y x' y' a1 a2,
  Sim E K x y ->
  filter (fun o => negb (is_drop o)) ops1 = filter (fun o => negb (is_drop o)) ops2 ->
  cexec x ops1 = Some (x', a1) -> cexec y ops2 = Some (y', a2) ->
  map proj (vis ops1 a1) = map proj (vis ops2 a2) /\ exists E' K', Sim E' K' x' y'.
Proof.
  induction ops1 as [|o1 t1 IH1].
  - induction ops2 as [|o2 t2 IH2]; intros E K x y x' y' a1 a2 S Hf H1 H2; simpl in *.
    + inv H1. inv H2. split; [reflexivity|eauto].
    + destruct o2; simpl in Hf; try discriminate Hf. simpl in H2.
      destruct (cexec (mkR (r_eq y) (r_rules y) (r_eqv y) None) t2) as [[y2 rest]|] eqn:Ex; [|discriminate].
      inv H2. simpl.
      apply (IH2 E K x (drop y) x' y' a1 rest); auto.
      apply Sim_sym. apply Sim_drop_l. apply Sim_sym. exact S.
  - intros ops2 E K x y x' y' a1 a2 S Hf H1 H2. destruct (is_drop o1) eqn:D1.
    + destruct o1; try discriminate D1. simpl in Hf. simpl in H1.
      destruct (cexec (mkR (r_eq x) (r_rules x) (r_eqv x) None) t1) as [[x2 rest]|] eqn:Ex; [|discriminate].
      inv H1. simpl.
      apply (IH1 ops2 E K (drop x) y x' y' rest a2); auto. apply Sim_drop_l. exact S.
    + simpl in Hf. rewrite D1 in Hf. simpl in Hf.
      revert E K x y x' y' a1 a2 S Hf H1 H2.
      induction ops2 as [|o2 t2 IH2]; intros E K x y x' y' a1 a2 S Hf H1 H2; [discriminate Hf|].
      destruct (is_drop o2) eqn:D2.
      * destruct o2; try discriminate D2. simpl in Hf. simpl in H2.
        destruct (cexec (mkR (r_eq y) (r_rules y) (r_eqv y) None) t2) as [[y2 rest]|] eqn:Ex; [|discriminate].
        inv H2. simpl vis at 2.
        apply (IH2 E K x (drop y) x' y' a1 rest); auto.
        apply Sim_sym. apply Sim_drop_l. apply Sim_sym. exact S.
      * simpl in Hf. rewrite D2 in Hf. simpl in Hf. injection Hf as <- Hf.
        cbn [WithEquiv.cexec] in H1, H2.
        destruct (cstep x o1) as [[x1 b1]|] eqn:Sx; [|discriminate].
        destruct (cexec x1 t1) as [[x2 r1]|] eqn:Ex1; [|discriminate].
        destruct (cstep y o1) as [[y1 b2]|] eqn:Sy; [|discriminate].
        destruct (cexec y1 t2) as [[y2 r2]|] eqn:Ex2; [|discriminate].
        inv H1. inv H2.
        destruct (Sim_step E K x y o1 x1 y1 b1 b2 S D1 Sx Sy) as ((E' & K' & S') & Ep).
        destruct (IH1 t2 E' K' x1 y1 x' y' r1 r2 S' Hf Ex1 Ex2) as (A & B).
        split; auto. simpl. rewrite D1. simpl. rewrite Ep, A. reflexivity.
Qed.

End Cache.
