(* The fuel of the depth-first generator model (number of labels + 2) is never
   the reason a tree is missing: on a closed dictionary (every child is a key —
   what pruning guarantees, and what the Python generator assumes) any larger
   fuel yields the same list of trees. *)
From Coq Require Import ZArith List Bool Lia Permutation.
From CSS Require Import Base.PyList Tree.Model Tree.Basics Tree.Valid Tree.RandomProofs Tree.DfsProofs.
Import ListNotations.
Open Scope Z_scope.

Definition closed (d : rdict) : Prop :=
  forall k r x, In r (rules_of d k) -> In x r -> has_key d x = true.

Section Fuel.
Variable d : rdict.
Hypothesis d_closed : closed d.

Definition wfseen (seen : list Z) : Prop := NoDup seen /\ incl seen (keys d).
Definition mu (seen : list Z) : nat := (length (keys d) - length seen)%nat.

Lemma set_add_wf l seen : wfseen seen -> has_key d l = true -> wfseen (set_add l seen).
Proof.
  intros (Hn & Hi) Hk. unfold set_add. destruct (memZ l seen) eqn:E; [split; auto|].
  apply memZ_false in E. split.
  - apply NoDup_app'; auto; [repeat constructor; auto|].
    intros x Hx [<-|[]]. auto.
  - intros x Hx. apply in_app_iff in Hx as [Hx|[<-|[]]]; auto. apply has_key_keys; auto.
Qed.

Lemma set_add_incl l seen : incl seen (set_add l seen).
Proof. intros x Hx. apply set_add_In; auto. Qed.

Lemma set_union_wf s t : wfseen s -> incl t (keys d) -> wfseen (set_union s t).
Proof.
  unfold set_union. revert s. induction t as [|x t IH]; intros s Hs Ht; simpl; auto.
  apply IH.
  - apply set_add_wf; auto. apply has_key_keys. apply Ht. left; auto.
  - intros y Hy. apply Ht. right; auto.
Qed.

Lemma mu_mono s s' : wfseen s' -> incl s s' -> NoDup s -> (mu s' <= mu s)%nat.
Proof.
  intros (Hn' & Hi') Hi Hn. unfold mu.
  pose proof (NoDup_incl_length Hn Hi). lia.
Qed.

Lemma mu_fresh l seen :
  wfseen seen -> has_key d l = true -> ~ In l seen ->
  (mu (set_add l seen) + 1 <= mu seen)%nat.
Proof.
  intros (Hn & Hi) Hk Hl. unfold mu, set_add.
  apply memZ_false in Hl. rewrite Hl. rewrite app_length. simpl.
  assert (Hlen : (length (l :: seen) <= length (keys d))%nat).
  { apply NoDup_incl_length.
    - constructor; auto. apply memZ_false; auto.
    - intros x [<-|Hx]; auto. apply has_key_keys; auto. }
  simpl in Hlen. lia.
Qed.

(* what the generator returns as `seen` *)
Section ForestWF.
Variable tree_fn : list Z -> option Z -> Z -> list (list Z * tree).
Hypothesis tree_wf : forall seen m l st, In st (tree_fn seen m l) ->
  wfseen seen -> has_key d l = true -> wfseen (fst st) /\ incl seen (fst st).

Lemma forest_wf : forall roots seen m sts, In sts (dfs_forest tree_fn roots seen m) ->
  wfseen seen -> (forall x, In x roots -> has_key d x = true) ->
  wfseen (fst sts) /\ incl seen (fst sts).
Proof.
  induction roots as [|r rs IH]; intros seen m sts H Hw Hr; simpl in H.
  - destruct (max_le0 m); [destruct H|]. destruct H as [<-|[]]. simpl. split; auto.
    apply incl_refl.
  - destruct (max_le0 m); [destruct H|].
    apply in_flat_map in H as ([seen1 t] & Ht & H).
    apply in_flat_map in H as ([seen2 ts] & Hts & H).
    destruct (below m (size t + zsum (map size ts))); [|destruct H].
    destruct H as [<-|[]]. simpl.
    destruct (tree_wf _ _ _ _ Ht Hw) as (W1 & I1); [apply Hr; left; auto|]. simpl in *.
    destruct (IH _ _ _ Hts W1) as (W2 & I2); [intros x Hx; apply Hr; right; auto|]. simpl in *.
    split.
    + apply set_union_wf; auto. apply W2.
    + intros x Hx. apply set_union_In. left. auto.
Qed.
End ForestWF.

Lemma dfs_tree_wf : forall fuel seen m l st, In st (dfs_tree d fuel seen m l) ->
  wfseen seen -> has_key d l = true -> wfseen (fst st) /\ incl seen (fst st).
Proof.
  induction fuel as [|f IH]; intros seen m l st H Hw Hk; simpl in H; [destruct H|].
  destruct (max_le0 m); [destruct H|].
  destruct (memZ l seen) eqn:Hs.
  - destruct H as [<-|[]]. simpl. split; auto. apply incl_refl.
  - apply in_flat_map in H as (r & Hr & H).
    destruct r as [|c r]; [simpl in H|cbn [is_nil] in H].
    + destruct H as [<-|[]]. simpl. split; [apply set_add_wf; auto|apply set_add_incl].
    + apply in_map_iff in H as ([s kids] & <- & H). simpl.
      destruct (forest_wf (dfs_tree d f) IH _ _ _ _ H) as (W & I); simpl in *.
      * apply set_add_wf; auto.
      * intros x Hx. eapply d_closed; eauto.
      * split; auto. intros x Hx. apply I. apply set_add_incl. exact Hx.
Qed.

Section ForestEq.
Variable K : nat.
Variables tf1 tf2 : list Z -> option Z -> Z -> list (list Z * tree).
Hypothesis tf_eq : forall seen m l, wfseen seen -> has_key d l = true -> (mu seen <= K)%nat ->
  tf1 seen m l = tf2 seen m l.
Hypothesis tf_wf : forall seen m l st, In st (tf1 seen m l) ->
  wfseen seen -> has_key d l = true -> wfseen (fst st) /\ incl seen (fst st).

Lemma forest_eq : forall roots seen m,
  wfseen seen -> (forall x, In x roots -> has_key d x = true) -> (mu seen <= K)%nat ->
  dfs_forest tf1 roots seen m = dfs_forest tf2 roots seen m.
Proof.
  induction roots as [|r rs IH]; intros seen m Hw Hr Hmu; simpl; auto.
  destruct (max_le0 m); auto.
  rewrite <- tf_eq; auto; [|apply Hr; left; auto].
  apply flat_map_ext_in'. intros [seen1 t] Ht.
  destruct (tf_wf _ _ _ _ Ht Hw) as (W1 & I1); [apply Hr; left; auto|]. simpl in *.
  assert (Hmu1 : (mu seen1 <= K)%nat) by (pose proof (mu_mono seen seen1 W1 I1 (proj1 Hw)); lia).
  rewrite IH; auto; intros x Hx; apply Hr; right; auto.
Qed.
End ForestEq.

Lemma dfs_tree_fuel : forall f1 f2 seen m l,
  wfseen seen -> has_key d l = true ->
  (mu seen + 1 <= f1)%nat -> (mu seen + 1 <= f2)%nat ->
  dfs_tree d f1 seen m l = dfs_tree d f2 seen m l.
Proof.
  induction f1 as [|f1 IH]; intros f2 seen m l Hw Hk H1 H2; [lia|].
  destruct f2 as [|f2]; [lia|]. simpl.
  destruct (max_le0 m); auto.
  destruct (memZ l seen) eqn:Hs; auto.
  apply memZ_false in Hs.
  pose proof (mu_fresh l seen Hw Hk Hs) as Hmu.
  apply flat_map_ext_in'. intros r Hr.
  destruct r as [|c r]; auto. cbn [is_nil]. f_equal.
  apply (forest_eq (mu (set_add l seen))).
  - intros seen' m' l' Hw' Hk' Hmu'. apply IH; auto; lia.
  - apply dfs_tree_wf.
  - apply set_add_wf; auto.
  - intros x Hx. eapply d_closed; eauto.
  - lia.
Qed.
End Fuel.

Lemma keys_sort_dict d : keys (sort_dict d) = keys d.
Proof. unfold keys, sort_dict. rewrite map_map. reflexivity. Qed.

Lemma has_key_sort_dict d k : has_key (sort_dict d) k = has_key d k.
Proof. unfold has_key. rewrite get_sort_dict. destruct (get d k); reflexivity. Qed.

Theorem dfs_fuel_enough d root m extra :
  closed d ->
  (if has_key d root
   then map snd (dfs_tree (sort_dict d) (dfs_fuel d + extra) [] m root)
   else []) = proof_tree_generator_dfs d root m.
Proof.
  intros Hc. unfold proof_tree_generator_dfs. rewrite has_key_sort_dict.
  destruct (has_key d root) eqn:Hk; auto. f_equal.
  assert (Hcs : closed (sort_dict d)).
  { intros k r x Hr Hx. rewrite has_key_sort_dict. apply (proj1 (rules_of_sort_dict d k r)) in Hr. eapply Hc; eauto. }
  apply dfs_tree_fuel; auto.
  - split; [constructor|intros x []].
  - rewrite has_key_sort_dict. exact Hk.
  - unfold mu, dfs_fuel. rewrite keys_sort_dict. unfold keys. rewrite map_length. simpl. lia.
  - unfold mu, dfs_fuel. rewrite keys_sort_dict. unfold keys. rewrite map_length. simpl. lia.
Qed.
