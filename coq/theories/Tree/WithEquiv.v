(* Executable model of RuleDBBase (comb_spec_searcher/rule_db/base.py) AS IT COMPOSES its
   two components: the rule-key dictionaries and the EquivalenceDB (Equiv/Model.v, the C06
   model: union-find with path compression, one-way table, connect_cycles), plus the
   `_pruned_dict` cache.  No proofs here.

   The representative of a label is NOT a parameter: every `self.equivdb[x]` of the source
   is a `find` on the current union-find state (which it updates: path compression, entry
   creation), every `are_equivalent` an `equivalent`, and the order of these calls is the
   source's:

     add(start, ends, rule)      self._pruned_dict = None; ends = sorted(ends minus the empty ones)
                                 [`if ends == [start]: return` compares a tuple with a list: dead code]
                                 VerificationRule -> equivdb.set_verified(start)
                                 one child: two-way -> add_two_way_edge, key into eqv_rule_to_strategy,
                                            the keys (start, ends) and (end, (start,)) deleted from
                                            rule_to_strategy;  else add_one_way_edge, key into rule_to_strategy
                                 else key into rule_to_strategy
     rules_up_to_equivalence()   equivdb.connect_cycles(); for (start, ends) in chain(rule_to_strategy,
                                 eqv_rule_to_strategy): skip if one child and are_equivalent(start, child);
                                 rules_dict[equivdb[start]].add(sorted(equivdb[e] for e in ends))
     pruned_dict (property)      cached?  else rules_up_to_equivalence(); iterative_prune(.., root =
                                 equivdb[root_label]) / prune; store; equivdb.set_verified(k) for every key
     has_specification()         pd = self.pruned_dict; self.equivdb[self.root_label] in pd
                                 (the root's representative is read AFTER connect_cycles: fix 50b8703)
     is_verified(l)              equivdb.is_verified(l)
     _get_specification_node(limit, smallest)
                                 @ensure_specification at every level (each is a has_specification());
                                 iterative: iterative_proof_tree_finder(self.pruned_dict, root = equivdb[root_label])
                                 else smallish_random_proof_tree(...) and, for smallest, the binary search
                                 over proof_tree_generator_dfs(self.pruned_dict, root = equivdb[root_label], ..)

   `ends` handed to `add` are the labels of the children that `_clean_labels` keeps (the
   emptiness test needs the class database: C04/C14), `ver` says whether the rule is a
   VerificationRule, `tw` is rule.is_two_way().  dict keys are kept in insertion order.
   tree_searcher's functions are Tree/Model.v's; random / time / the iteration order of the
   pruned dictionary are oracle arguments of the node operation as there.
   `None` = some loop of the equivalence database ran out of its fuel (never: see
   C05_composed_total). *)
From Coq Require Import ZArith List Bool.
From CSS Require Import Base.PyList Tree.Model Equiv.Model.
Import ListNotations.
Open Scope Z_scope.

Definition rkey := (Z * rule)%type.

Definition key_eqb (a b : rkey) : bool := Z.eqb (fst a) (fst b) && rule_eqb (snd a) (snd b).
Definition kmem (k : rkey) (l : list rkey) : bool := existsb (key_eqb k) l.
(* d[k] = v : a present key keeps its position *)
Definition kset (l : list rkey) (k : rkey) : list rkey := if kmem k l then l else l ++ [k].
(* if k in d: del d[k] *)
Definition kdel (l : list rkey) (k : rkey) : list rkey := filter (fun k' => negb (key_eqb k k')) l.

Record rdb := mkR {
  r_eq : db;                    (* self.equivdb *)
  r_rules : list rkey;          (* keys of rule_to_strategy, insertion order *)
  r_eqv : list rkey;            (* keys of eqv_rule_to_strategy *)
  r_cache : option rdict        (* self._pruned_dict *)
}.

Definition rinit : rdb := mkR init [] [] None.

(* observation without side effect: the label self.equivdb[l] would return, and whether
   self.equivdb.is_verified(l) would hold *)
Definition c_rep (x : rdb) (l : Z) : Z :=
  match find (r_eq x) l with Some (_, r) => r | None => l end.
Definition c_ver (x : rdb) (l : Z) : bool := mem (c_rep x l) (verified (r_eq x)).
Definition with_eq (x : rdb) (s : db) : rdb := mkR s (r_rules x) (r_eqv x) (r_cache x).
(* list(self): itertools.chain(self.rule_to_strategy, self.eqv_rule_to_strategy) *)
Definition all_keys (x : rdb) : list rkey := r_rules x ++ r_eqv x.

(* RuleDBBase.add *)
Definition c_add (x : rdb) (start : Z) (ends0 : list Z) (ver tw : bool) : option rdb :=
  let ends := sortZ ends0 in
  do s1 <- (if ver then set_verified (r_eq x) start else Some (r_eq x));
  match ends with
  | [e] =>
      if tw then
        do s2 <- add_two_way s1 start e;
        Some (mkR s2 (kdel (kdel (r_rules x) (start, ends)) (e, [start]))
                  (kset (r_eqv x) (start, ends)) None)
      else
        do s2 <- add_one_way s1 start e;
        Some (mkR s2 (kset (r_rules x) (start, ends)) (r_eqv x) None)
  | _ => Some (mkR s1 (kset (r_rules x) (start, ends)) (r_eqv x) None)
  end.

(* tuple(sorted(self.equivdb[e] for e in ends)) before the sorting *)
Fixpoint find_all (s : db) (l : list Z) : option (db * list Z) :=
  match l with
  | [] => Some (s, [])
  | e :: t => do (s1, r) <- find s e; do (s2, rs) <- find_all s1 t; Some (s2, r :: rs)
  end.

(* body of the loop of rules_up_to_equivalence *)
Definition rue_step (st : db * rdict) (se : rkey) : option (db * rdict) :=
  let '(s, rd) := st in
  let '(start, ends) := se in
  do (s1, skip) <- (match ends with
                    | [e] => equivalent s start e
                    | _ => Some (s, false)
                    end);
  if skip then Some (s1, rd)
  else
    do (s2, rs) <- find s1 start;
    do (s3, res) <- find_all s2 ends;
    Some (s3, add_rule rd rs (sortZ res)).

Fixpoint rue_loop (st : db * rdict) (l : list rkey) : option (db * rdict) :=
  match l with
  | [] => Some st
  | se :: t => do st1 <- rue_step st se; rue_loop st1 t
  end.

(* for ver_label in rules_dict.keys(): self.equivdb.set_verified(ver_label) *)
Fixpoint mark_all (s : db) (l : list Z) : option db :=
  match l with
  | [] => Some s
  | k :: t => do s1 <- set_verified s k; mark_all s1 t
  end.

(* the iterative finder reads the dictionary in Python's iteration order: `listed`
   must be the cached dictionary up to the order of keys and rules *)
Definition sub_dictb (a b : rdict) : bool :=
  forallb (fun e => has_key b (fst e) &&
                    forallb (fun r => mem_rule r (rules_of b (fst e))) (snd e)) a.
Definition dict_equivb (a b : rdict) : bool := sub_dictb a b && sub_dictb b a.

Inductive node_res :=
| NNotFound                   (* SpecificationNotFound *)
| NInvalid                    (* InvalidOperationError: iterative and smallest *)
| NTree (t : tree)
| NFinder (r : finder_res)    (* the iterative finder raised *)
| NNoRun.                     (* the oracle is not a run of random / not the cached dictionary *)

Section Composed.
Variable order : list Z -> list Z.   (* iteration order of a set of ints, as in Equiv/Model.v *)
Variable root_label : Z.             (* self.searcher.start_label *)
Variable iterative : bool.           (* self.strategy_pack.iterative *)

(* RuleDBBase.rules_up_to_equivalence *)
Definition c_rue (x : rdb) : option (rdb * rdict) :=
  do s1 <- connect_cycles order (r_eq x);
  do (s2, rd) <- rue_loop (s1, []) (all_keys x);
  Some (with_eq x s2, rd).

(* the property RuleDBBase.pruned_dict *)
Definition c_pruned_dict (x : rdb) : option (rdb * rdict) :=
  match r_cache x with
  | Some pd => Some (x, pd)
  | None =>
      do (x1, rd) <- c_rue x;
      do (s2, pd) <- (if iterative then
                        do (s, r) <- find (r_eq x1) root_label;
                        do pd <- iterative_prune rd (Some r);
                        Some (s, pd)
                      else do pd <- prune rd; Some (r_eq x1, pd));
      do s3 <- mark_all s2 (keys pd);
      Some (mkR s3 (r_rules x) (r_eqv x) (Some pd), pd)
  end.

(* RuleDBBase.has_specification *)
Definition c_has_spec (x : rdb) : option (rdb * bool) :=
  do (x1, pd) <- c_pruned_dict x;
  do (s2, r) <- find (r_eq x1) root_label;
  Some (with_eq x1 s2, has_key pd r).

(* RuleDBBase.is_verified *)
Definition c_is_verified (x : rdb) (l : Z) : option (rdb * bool) :=
  do (s1, v) <- is_verified (r_eq x) l;
  Some (with_eq x s1, v).

(* @ensure_specification *)
Definition ensure (x : rdb) (k : rdb -> option (rdb * node_res)) : option (rdb * node_res) :=
  do (x1, b) <- c_has_spec x;
  if b then k x1 else Some (x1, NNotFound).

(* the arguments `self.pruned_dict, self.equivdb[self.root_label]` of a finder *)
Definition read_pd_root (x : rdb) : option (rdb * (rdict * Z)) :=
  do (x1, pd) <- c_pruned_dict x;
  do (s2, r) <- find (r_eq x1) root_label;
  Some (with_eq x1 s2, (pd, r)).

(* RuleDBBase._get_iterative_node *)
Definition c_iterative_node (x : rdb) (listed : rdict) : option (rdb * node_res) :=
  ensure x (fun x1 =>
    do (x2, pr) <- read_pd_root x1;
    let '(pd, r) := pr in
    Some (x2, if dict_equivb pd listed
              then match iterative_proof_tree_finder listed r with
                   | FTree t => NTree t
                   | f => NFinder f
                   end
              else NNoRun)).

(* RuleDBBase._get_smallish_node *)
Definition c_smallish_node (x : rdb) (runs : list (list choice)) : option (rdb * node_res) :=
  ensure x (fun x1 =>
    do (x2, pr) <- read_pd_root x1;
    let '(pd, r) := pr in
    Some (x2, match smallish_random_proof_tree pd r runs with
              | Some t => NTree t
              | None => NNoRun
              end)).

(* RuleDBBase._get_smallest_node: the smallish node, then the binary search; the loop
   re-reads self.pruned_dict and self.equivdb[self.root_label] at every iteration: read
   once here (the reads are cache hits and lookups) *)
Definition c_smallest_node (x : rdb) (runs : list (list choice)) : option (rdb * node_res) :=
  ensure x (fun x1 =>
    do (x2, nr) <- c_smallish_node x1 runs;
    match nr with
    | NTree node =>
        do (x3, pr) <- read_pd_root x2;
        let '(pd, r) := pr in
        Some (x3, match bsearch (fun m => proof_tree_generator_dfs pd r (Some m))
                                (Z.to_nat (size node)) 1 (size node) node with
                  | Some t => NTree t
                  | None => NNoRun
                  end)
    | other => Some (x2, other)
    end).

(* body of RuleDBBase._get_specification_node(limit, smallest) *)
Definition node_body (x1 : rdb) (smallest : bool) (runs : list (list choice)) (listed : rdict)
  : option (rdb * node_res) :=
  if iterative then
    if smallest then Some (x1, NInvalid) else c_iterative_node x1 listed
  else
    if smallest then c_smallest_node x1 runs else c_smallish_node x1 runs.

(* RuleDBBase._get_specification_node(limit, smallest), with its @ensure_specification *)
Definition c_node (x : rdb) (smallest : bool) (runs : list (list choice)) (listed : rdict)
  : option (rdb * node_res) :=
  ensure x (fun x1 => node_body x1 smallest runs listed).

(* ---------------------------------------------------------------- histories *)
Inductive cop :=
| CAdd (start : Z) (ends : list Z) (ver tw : bool)
| CHasSpec
| CIsVerified (l : Z)
| CRue                                                       (* rules_up_to_equivalence() *)
| CNode (smallest : bool) (runs : list (list choice)) (listed : rdict)
| CDrop.                   (* self._pruned_dict = None without an add (a copy made without
                              the cache): used to state that the cache is transparent *)

Inductive cans :=
| ANone
| ABool (b : bool)
| ADict (d : rdict)
| ANode (r : node_res).

Definition cstep (x : rdb) (o : cop) : option (rdb * cans) :=
  match o with
  | CAdd start ends ver tw => do x1 <- c_add x start ends ver tw; Some (x1, ANone)
  | CHasSpec => do (x1, b) <- c_has_spec x; Some (x1, ABool b)
  | CIsVerified l => do (x1, b) <- c_is_verified x l; Some (x1, ABool b)
  | CRue => do (x1, d) <- c_rue x; Some (x1, ADict d)
  | CNode sm runs listed => do (x1, r) <- c_node x sm runs listed; Some (x1, ANode r)
  | CDrop => Some (mkR (r_eq x) (r_rules x) (r_eqv x) None, ANone)
  end.

Fixpoint cexec (x : rdb) (ops : list cop) : option (rdb * list cans) :=
  match ops with
  | [] => Some (x, [])
  | o :: t =>
      do (x1, a) <- cstep x o;
      do (x2, rest) <- cexec x1 t;
      Some (x2, a :: rest)
  end.

End Composed.
