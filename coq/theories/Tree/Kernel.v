(* The answers of the pruning do not depend on WHICH label represents a class: two
   representative functions with the same kernel (rep a = rep b for the same pairs) give
   pruned quotient dictionaries that correspond class by class.  Used to compare two
   runs of the rule database whose union-find picked different roots. *)
From Coq Require Import ZArith List Bool Lia.
From CSS Require Import Base.PyList Tree.Model Tree.Basics Tree.PruneProofs Tree.IterProofs
  Tree.SpecProofs.
Import ListNotations.
Open Scope Z_scope.

Ltac inv H := inversion H; subst; clear H.

Lemma insertZ_In x l y : In y (insertZ x l) <-> y = x \/ In y l.
Proof.
  induction l as [|h t IH]; simpl; [intuition|].
  destruct (Z.ltb h x); simpl; [rewrite IH|]; intuition.
Qed.

Lemma sortZ_In l y : In y (sortZ l) <-> In y l.
Proof.
  induction l as [|h t IH]; simpl; [tauto|]. rewrite insertZ_In, IH. intuition.
Qed.

Definition same_kernel (rep1 rep2 : Z -> Z) : Prop :=
  forall a b, rep1 a = rep1 b <-> rep2 a = rep2 b.

Lemma same_kernel_sym rep1 rep2 : same_kernel rep1 rep2 -> same_kernel rep2 rep1.
Proof. intros H a b. symmetry. apply H. Qed.

Section Kernel.
Variables rep1 rep2 : Z -> Z.
Hypothesis Ker : same_kernel rep1 rep2. (* in-section *)
Variable rules : list (Z * rule).

Let q1 := rules_up_to_equivalence rep1 rules.
Let q2 := rules_up_to_equivalence rep2 rules.

(* a rule of the first quotient at the class of l has a counterpart in the second *)
Lemma rule_transfer l r :
  In r (rules_of q1 (rep1 l)) ->
  exists ends, r = sortZ (map rep1 ends) /\ In (sortZ (map rep2 ends)) (rules_of q2 (rep2 l)).
Proof.
  intros H. apply quotient_rules in H. destruct H as (start & ends & Hin & Hk & Hs & Hr).
  exists ends. split; [auto|]. apply quotient_rules. exists start, ends. split; auto. split.
  - unfold kept in *. destruct ends as [|e [|e2 ends]]; auto. intros X. apply Hk. apply Ker. exact X.
  - split; [apply Ker; exact Hs|reflexivity].
Qed.

Lemma gfp_transfer l : gfp q1 (rep1 l) -> gfp q2 (rep2 l).
Proof.
  intros G. apply (gfp_greatest q2 (fun k2 => exists l0, k2 = rep2 l0 /\ gfp q1 (rep1 l0))); [|eauto].
  intros k2 (l0 & -> & G0).
  destruct (gfp_postfixed q1 _ G0) as (r & Hr & Hc).
  destruct (rule_transfer l0 r Hr) as (ends & -> & H2).
  eexists. split; [exact H2|]. intros x Hx. apply (proj1 (sortZ_In _ _)) in Hx. apply in_map_iff in Hx.
  destruct Hx as (e & <- & He). exists e. split; auto. apply Hc. apply sortZ_In. apply in_map. exact He.
Qed.

Lemma iver_transfer rt x1 : iver q1 (Some (rep1 rt)) x1 ->
  forall l, x1 = rep1 l -> iver q2 (Some (rep2 rt)) (rep2 l).
Proof.
  induction 1 as [x Hx|k r Hr Hc IH]; intros l El.
  - apply iver_root. injection Hx as Hx. f_equal. apply Ker. congruence.
  - subst k. destruct (rule_transfer l r Hr) as (ends & -> & H2).
    eapply iver_rule; [exact H2|]. intros x Hx. apply (proj1 (sortZ_In _ _)) in Hx. apply in_map_iff in Hx.
    destruct Hx as (e & <- & He). apply (IH (rep1 e)); auto. apply sortZ_In. apply in_map. exact He.
Qed.

Lemma ikey_transfer rt l : ikey q1 (Some (rep1 rt)) (rep1 l) -> ikey q2 (Some (rep2 rt)) (rep2 l).
Proof.
  intros (r & Hr & Hc). destruct (rule_transfer l r Hr) as (ends & -> & H2).
  eexists. split; [exact H2|]. intros x Hx. apply (proj1 (sortZ_In _ _)) in Hx. apply in_map_iff in Hx.
  destruct Hx as (e & <- & He). eapply iver_transfer; [|reflexivity].
  apply Hc. apply sortZ_In. apply in_map. exact He.
Qed.
End Kernel.

(* the keys of the pruned dictionary, class by class *)
Lemma pruned_key_char rep rules rt it pd :
  Tree.Model.pruned_dict rep rules rt it = Some pd ->
  forall k, has_key pd k = true <->
    if it then ikey (rules_up_to_equivalence rep rules) (Some (rep rt)) k
    else gfp (rules_up_to_equivalence rep rules) k.
Proof.
  intros PD k. unfold Tree.Model.pruned_dict in PD. destruct it.
  - destruct (iterative_prune_is_lfp (rules_up_to_equivalence rep rules) (Some (rep rt)))
      as (nd & E & _ & Hk). rewrite PD in E. inv E. apply Hk.
  - destruct (prune_is_gfp _ (quotient_nonempty rep rules)) as (d' & E & Hk & _).
    rewrite PD in E. inv E. apply Hk.
Qed.

Theorem pruned_kernel rep1 rep2 rules rt it pd1 pd2 :
  same_kernel rep1 rep2 ->
  Tree.Model.pruned_dict rep1 rules rt it = Some pd1 ->
  Tree.Model.pruned_dict rep2 rules rt it = Some pd2 ->
  forall l, has_key pd1 (rep1 l) = has_key pd2 (rep2 l).
Proof.
  intros Ker P1 P2 l.
  pose proof (pruned_key_char rep1 rules rt it pd1 P1 (rep1 l)) as C1.
  pose proof (pruned_key_char rep2 rules rt it pd2 P2 (rep2 l)) as C2.
  assert (X : has_key pd1 (rep1 l) = true <-> has_key pd2 (rep2 l) = true).
  { rewrite C1, C2. destruct it.
    - split; apply ikey_transfer; auto. apply same_kernel_sym; auto.
    - split; apply gfp_transfer; auto. apply same_kernel_sym; auto. }
  destruct (has_key pd1 (rep1 l)), (has_key pd2 (rep2 l)); auto.
  - symmetry. apply X. reflexivity.
  - apply X. reflexivity.
Qed.
