(* What it means for a tree to be a proof tree of a rule dictionary. *)
From Coq Require Import ZArith List Bool Lia Permutation.
From CSS Require Import Base.PyList Tree.Model Tree.Basics.
Import ListNotations.
Open Scope Z_scope.

(* R = the list of (label, labels of the children) of all nodes of a tree *)
Definition expanded (R : list (Z * list Z)) (l : Z) : Prop :=
  exists cs, cs <> [] /\ In (l, cs) R.

Definition valid_rules (d : rdict) (R : list (Z * list Z)) : Prop :=
  (* only rules of the dictionary are used (children possibly shuffled) *)
  (forall l cs, In (l, cs) R -> cs <> [] ->
     exists r, In r (rules_of d l) /\ Permutation r cs) /\
  (* no label without a rule: a leaf either has the rule () or its label is
     expanded somewhere in the tree *)
  (forall l, In (l, []) R -> In [] (rules_of d l) \/ expanded R l) /\
  (* one rule per label *)
  (forall l cs cs', In (l, cs) R -> In (l, cs') R -> cs <> [] -> cs' <> [] -> cs = cs').

Definition valid_tree (d : rdict) (t : tree) : Prop := valid_rules d (node_rules t).

(* labels expanded: each at most once *)
Definition expansions (R : list (Z * list Z)) : list Z :=
  map fst (filter (fun e => negb (is_nil (snd e))) R).

Lemma expansions_In R l : In l (expansions R) <-> expanded R l.
Proof.
  unfold expansions, expanded. rewrite in_map_iff. split.
  - intros ([l' cs] & E & H). simpl in E; subst l'. apply filter_In in H as [H1 H2].
    exists cs. split; auto. simpl in H2. destruct cs; [discriminate|congruence].
  - intros (cs & Hne & H). exists (l, cs). split; auto. apply filter_In. split; auto.
    simpl. destruct cs; [congruence|reflexivity].
Qed.

Lemma expansions_app a b : expansions (a ++ b) = expansions a ++ expansions b.
Proof. unfold expansions. rewrite filter_app, map_app. reflexivity. Qed.

Lemma NoDup_expansions_unique R l cs cs' :
  NoDup (expansions R) -> In (l, cs) R -> In (l, cs') R -> cs <> [] -> cs' <> [] -> cs = cs'.
Proof.
  induction R as [|[l0 c0] R IH]; simpl; [tauto|].
  unfold expansions. simpl. intros Hnd H1 H2 Hc Hc'.
  destruct (is_nil c0) eqn:E0; simpl in Hnd.
  - destruct H1 as [H1|H1]; [inversion H1; subst; destruct cs; [congruence|discriminate]|].
    destruct H2 as [H2|H2]; [inversion H2; subst; destruct cs'; [congruence|discriminate]|].
    apply IH; auto.
  - inversion Hnd as [|? ? Hni Hnd']; subst.
    destruct H1 as [H1|H1]; destruct H2 as [H2|H2].
    + congruence.
    + inversion H1; subst. exfalso. apply Hni. apply (expansions_In R l). exists cs'; auto.
    + inversion H2; subst. exfalso. apply Hni. apply (expansions_In R l). exists cs; auto.
    + apply IH; auto.
Qed.

Lemma valid_rules_perm d R R' : Permutation R R' -> valid_rules d R -> valid_rules d R'.
Proof.
  intros HP (V1 & V2 & V3).
  assert (Hin : forall e, In e R' -> In e R) by (intros e; apply Permutation_in; apply Permutation_sym; exact HP).
  assert (Hin' : forall e, In e R -> In e R') by (intros e; apply Permutation_in; exact HP).
  unfold valid_rules. csplit.
  - intros l cs H. apply V1; auto.
  - intros l H. destruct (V2 l (Hin _ H)) as [|(cs & Hne & Hc)]; auto.
    right. exists cs; auto.
  - intros l cs cs' H H'. apply (V3 l); auto.
Qed.

(* size = number of nodes = 1 + sum of the arities of all nodes *)
Lemma size_nodes t : size t = Z.of_nat (length (nodes t)).
Proof.
  induction t as [l cs IH] using tree_ind'. rewrite size_Node. simpl nodes. simpl length.
  assert (zsum (map size cs) = Z.of_nat (length (flat_map nodes cs))); [|lia].
  induction IH as [|c cs Hc _ IHcs]; simpl flat_map; simpl map; [reflexivity|].
  rewrite zsum_cons, app_length, Hc, IHcs. lia.
Qed.

Definition arities (R : list (Z * list Z)) : Z := zsum (map (fun e => zlen (snd e)) R).

Lemma arities_app a b : arities (a ++ b) = arities a + arities b.
Proof. unfold arities. rewrite map_app, zsum_app. reflexivity. Qed.

Lemma arities_cons e R : arities (e :: R) = zlen (snd e) + arities R.
Proof. reflexivity. Qed.

Lemma forest_formula cs :
  Forall (fun t => size t = 1 + arities (node_rules t)) cs ->
  zsum (map size cs) = zlen cs + arities (map node_rule (flat_map nodes cs)).
Proof.
  induction 1 as [|c cs Hc _ IHcs]; simpl flat_map; simpl map; [reflexivity|].
  rewrite zsum_cons, map_app, arities_app, IHcs, Hc.
  unfold node_rules, zlen. simpl length. lia.
Qed.

Lemma size_formula t : size t = 1 + arities (node_rules t).
Proof.
  induction t as [l cs IH] using tree_ind'. rewrite size_Node.
  unfold node_rules. simpl nodes. simpl map. rewrite arities_cons.
  rewrite (forest_formula cs IH). simpl snd. unfold zlen. rewrite map_length. lia.
Qed.
