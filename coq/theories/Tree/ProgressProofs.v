(* PROGRESS of random_proof_tree / smallish_random_proof_tree: what a "run of
   random" is, independently of the model returning Some, and that on a pruned
   dictionary every such run makes the finder answer.

     legit d cs queue seen      cs is a COMPLETE run of random from the loop state
                                (queue, seen): the head answer (r, sh) has r in
                                rules_of d v (what random.choice may return on
                                list(rules_dict[v.label])), if v is new and r <> ()
                                sh is a permutation of r (what random.shuffle may
                                leave), and the rest is a run from the next state,
                                down to the empty queue;
     legit_pre d cs queue seen  the same, but cs may also stop early (a PREFIX of a
                                run: every answer given so far was legitimate).

   Theorems:
     bfs_pops_bound        any answered run pops at most |queue| + pot d seen nodes
                           (pot = sum over the dictionary entries whose label is not
                           in seen of the largest arity of the entry): `while queue`
                           terminates, every label is expanded at most once;
     legit_bfs_total       a complete run is answered (no stuck state, no None);
     legit_pre_bfs_total   a legitimate prefix at least pop_bound long is answered;
     legit_pre_extends     on a CLOSED dictionary with NON-EMPTY rule sets, from a
                           queue of keys, every legitimate prefix extends to a
                           complete run: at no reachable state is random.choice
                           asked to choose from a missing or empty rule set
                           (KeyError / IndexError), and the loop cannot run forever;
     random_finder_total, smallish_finder_total, bfs_sound (the breadth-first
     GENERATOR, conjuncts 1-2 of valid_rules). *)
From Coq Require Import ZArith List Bool Lia Permutation.
From CSS Require Import Base.PyList Tree.Model Tree.Basics Tree.Valid Tree.RandomProofs
  Tree.PruneProofs Tree.FuelProofs.
Import ListNotations.
Open Scope Z_scope.

(* ------------------------------------------------------------ runs of random *)
Inductive legit (d : rdict) : list choice -> list Z -> list Z -> Prop :=
| legit_done : forall cs seen, legit d cs [] seen
| legit_leaf : forall r sh cs v q seen,
    In r (rules_of d v) -> In v seen \/ r = [] ->
    legit d cs q (set_add v seen) -> legit d ((r, sh) :: cs) (v :: q) seen
| legit_exp : forall r sh cs v q seen,
    In r (rules_of d v) -> ~ In v seen -> r <> [] -> Permutation r sh ->
    legit d cs (q ++ sh) (set_add v seen) -> legit d ((r, sh) :: cs) (v :: q) seen.

Inductive legit_pre (d : rdict) : list choice -> list Z -> list Z -> Prop :=
| pre_done : forall cs seen, legit_pre d cs [] seen
| pre_short : forall q seen, legit_pre d [] q seen
| pre_leaf : forall r sh cs v q seen,
    In r (rules_of d v) -> In v seen \/ r = [] ->
    legit_pre d cs q (set_add v seen) -> legit_pre d ((r, sh) :: cs) (v :: q) seen
| pre_exp : forall r sh cs v q seen,
    In r (rules_of d v) -> ~ In v seen -> r <> [] -> Permutation r sh ->
    legit_pre d cs (q ++ sh) (set_add v seen) -> legit_pre d ((r, sh) :: cs) (v :: q) seen.

Lemma legit_is_pre d cs q seen : legit d cs q seen -> legit_pre d cs q seen.
Proof. induction 1; [apply pre_done|eapply pre_leaf; eauto|eapply pre_exp; eauto]. Qed.

(* ------------------------------------------------------------------ is_perm *)
Lemma remove_one_In x l : In x l -> exists l', remove_one x l = Some l'.
Proof.
  induction l as [|y l IH]; simpl; [tauto|]. intros H.
  destruct (Z.eqb x y) eqn:E; [eauto|].
  destruct H as [->|H]; [rewrite Z.eqb_refl in E; discriminate|].
  destruct (IH H) as (l' & ->). eauto.
Qed.

Lemma is_perm_complete a : forall b, Permutation a b -> is_perm a b = true.
Proof.
  induction a as [|x a IH]; intros b H; simpl.
  - apply Permutation_nil in H. subst. reflexivity.
  - assert (Hx : In x b) by (eapply Permutation_in; [exact H|left; reflexivity]).
    destruct (remove_one_In _ _ Hx) as (b' & E). rewrite E. apply IH.
    apply remove_one_perm in E. apply Permutation_cons_inv with (a := x).
    eapply perm_trans; eauto.
Qed.

(* ------------------------------------------------------------- the potential *)
Definition maxar (rs : list rule) : nat := fold_right (fun r m => Nat.max (length r) m) O rs.

Fixpoint pot (d : rdict) (seen : list Z) : nat :=
  match d with
  | [] => O
  | (k, rs) :: t => ((if memZ k seen then O else maxar rs) + pot t seen)%nat
  end.

(* 1 + the sum over the entries of the largest arity *)
Definition pop_bound (d : rdict) : nat := S (pot d []).

Lemma maxar_ge r rs : In r rs -> (length r <= maxar rs)%nat.
Proof.
  induction rs as [|r' rs IH]; simpl; [tauto|]. intros [->|H]; [lia|].
  specialize (IH H). lia.
Qed.

Lemma memZ_set_add k v seen : memZ k (set_add v seen) = (Z.eqb k v || memZ k seen)%bool.
Proof.
  apply eq_true_iff_eq. rewrite orb_true_iff, !memZ_spec, set_add_In, Z.eqb_eq. tauto.
Qed.

Lemma pot_mono d v seen : (pot d (set_add v seen) <= pot d seen)%nat.
Proof.
  induction d as [|[k rs] d IH]; simpl; [lia|]. rewrite memZ_set_add.
  destruct (Z.eqb k v); simpl; destruct (memZ k seen); lia.
Qed.

Lemma pot_add d v seen r :
  ~ In v seen -> In r (rules_of d v) -> (pot d (set_add v seen) + length r <= pot d seen)%nat.
Proof.
  intros Hv. apply memZ_false in Hv. unfold rules_of.
  induction d as [|[k rs] d IH]; simpl; [tauto|]. intros Hr. rewrite memZ_set_add.
  destruct (Z.eqb k v) eqn:E.
  - apply Z.eqb_eq in E. subst k. simpl. rewrite Hv.
    pose proof (maxar_ge _ _ Hr). pose proof (pot_mono d v seen). lia.
  - simpl. specialize (IH Hr). destruct (memZ k seen); lia.
Qed.

(* ------------------------------------------------- the loop: bound, totality *)
Lemma bfs_pops_bound d : forall cs q seen D,
  bfs d cs q seen = Some D -> (length D <= length q + pot d seen)%nat.
Proof.
  induction cs as [|[r sh] cs IH]; intros q seen D H.
  - destruct q; simpl in H; [|discriminate]. inversion H; subst. simpl. lia.
  - destruct q as [|v q]; simpl in H; [inversion H; subst; simpl; lia|].
    destruct (mem_rule r (rules_of d v)) eqn:Hm; [|discriminate].
    apply mem_rule_spec in Hm.
    destruct (memZ v seen || is_nil r) eqn:Hleaf.
    + destruct (bfs d cs q (set_add v seen)) as [D'|] eqn:E; [|discriminate].
      inversion H; subst D. apply IH in E. pose proof (pot_mono d v seen). simpl. lia.
    + apply orb_false_iff in Hleaf as [Hs _]. apply memZ_false in Hs.
      destruct (is_perm r sh) eqn:Hp; [|discriminate]. apply is_perm_spec in Hp.
      destruct (bfs d cs (q ++ sh) (set_add v seen)) as [D'|] eqn:E; [|discriminate].
      inversion H; subst D. apply IH in E. rewrite app_length in E.
      rewrite <- (Permutation_length Hp) in E.
      pose proof (pot_add d v seen r Hs Hm). simpl. lia.
Qed.

Lemma leaf_test v seen (r : rule) : In v seen \/ r = [] -> memZ v seen || is_nil r = true.
Proof.
  intros [H| ->]; apply orb_true_iff; [left; apply memZ_spec; auto|right; reflexivity].
Qed.

Lemma exp_test v seen (r : rule) : ~ In v seen -> r <> [] -> memZ v seen || is_nil r = false.
Proof.
  intros H1 H2. apply orb_false_iff. split; [apply memZ_false; auto|]. destruct r; [congruence|reflexivity].
Qed.

Lemma legit_bfs_total d cs q seen :
  legit d cs q seen -> exists D, bfs d cs q seen = Some D.
Proof.
  induction 1 as [cs seen|r sh cs v q seen Hr Hl _ (D & IH)|r sh cs v q seen Hr Hv Hne Hp _ (D & IH)].
  - destruct cs; simpl; eauto.
  - simpl. apply mem_rule_spec in Hr. rewrite Hr, (leaf_test _ _ _ Hl), IH. simpl. eauto.
  - simpl. apply mem_rule_spec in Hr. rewrite Hr, (exp_test _ _ _ Hv Hne),
      (is_perm_complete _ _ Hp), IH. simpl. eauto.
Qed.

Lemma legit_pre_bfs_total d cs q seen :
  legit_pre d cs q seen -> (length q + pot d seen <= length cs)%nat ->
  exists D, bfs d cs q seen = Some D.
Proof.
  induction 1 as [cs seen|q seen|r sh cs v q seen Hr Hl _ IH|r sh cs v q seen Hr Hv Hne Hp _ IH];
    intros Hlen.
  - destruct cs; simpl; eauto.
  - destruct q; simpl in *; [eauto|lia].
  - simpl in *. pose proof (pot_mono d v seen).
    destruct IH as (D & IH); [lia|].
    apply mem_rule_spec in Hr. rewrite Hr, (leaf_test _ _ _ Hl), IH. simpl. eauto.
  - simpl in *. pose proof (pot_add d v seen r Hv Hr).
    destruct IH as (D & IH); [rewrite app_length, <- (Permutation_length Hp); lia|].
    apply mem_rule_spec in Hr. rewrite Hr, (exp_test _ _ _ Hv Hne),
      (is_perm_complete _ _ Hp), IH. simpl. eauto.
Qed.

(* conversely the model answers ONLY on runs of random: legit is exactly the
   domain of the model of the loop *)
Lemma bfs_legit d : forall cs q seen D, bfs d cs q seen = Some D -> legit d cs q seen.
Proof.
  induction cs as [|[r sh] cs IH]; intros q seen D H.
  - destruct q; simpl in H; [apply legit_done|discriminate].
  - destruct q as [|v q]; simpl in H; [apply legit_done|].
    destruct (mem_rule r (rules_of d v)) eqn:Hm; [|discriminate].
    apply mem_rule_spec in Hm.
    destruct (memZ v seen || is_nil r) eqn:Hleaf.
    + destruct (bfs d cs q (set_add v seen)) as [D'|] eqn:E; [|discriminate].
      apply legit_leaf; eauto.
      apply orb_true_iff in Hleaf as [Hs|Hn]; [left; apply memZ_spec; auto|].
      right. destruct r; [reflexivity|discriminate].
    + apply orb_false_iff in Hleaf as [Hs Hn]. apply memZ_false in Hs.
      destruct (is_perm r sh) eqn:Hp; [|discriminate]. apply is_perm_spec in Hp.
      destruct (bfs d cs (q ++ sh) (set_add v seen)) as [D'|] eqn:E; [|discriminate].
      apply legit_exp; eauto. intros ->. discriminate.
Qed.

(* --------------------------------------- never stuck on a pruned dictionary *)
Section Pruned.
Variable d : rdict.
Hypothesis d_closed : closed d.
Hypothesis d_nonempty : all_nonempty d.

Definition all_keys (q : list Z) : Prop := Forall (fun v => has_key d v = true) q.

Lemma key_has_rule v : has_key d v = true -> exists r, In r (rules_of d v).
Proof.
  unfold has_key, rules_of. pose proof (d_nonempty v) as Hn.
  destruct (get d v) as [[|r rs]|]; [congruence| |discriminate].
  intros _. exists r. left; reflexivity.
Qed.

Lemma all_keys_step v q r sh :
  all_keys (v :: q) -> In r (rules_of d v) -> Permutation r sh -> all_keys (q ++ sh).
Proof.
  intros Hq Hr Hp. inversion Hq; subst. apply Forall_app. split; auto.
  apply Forall_forall. intros x Hx. apply (d_closed v r x Hr).
  eapply Permutation_in; [apply Permutation_sym; exact Hp|exact Hx].
Qed.

(* from every state whose queue holds keys some complete run exists (the loop
   can always go on and must stop): induction on the potential *)
Lemma run_exists : forall n q seen,
  (length q + pot d seen <= n)%nat -> all_keys q -> exists cs, legit d cs q seen.
Proof.
  induction n as [|n IH]; intros q seen Hn Hq.
  - destruct q; simpl in Hn; [|lia]. exists []. apply legit_done.
  - destruct q as [|v q]; [exists []; apply legit_done|].
    assert (Hv : has_key d v = true) by (inversion Hq; auto).
    destruct (key_has_rule v Hv) as (r & Hr).
    assert (Hq' : all_keys q) by (inversion Hq; auto).
    destruct (memZ v seen) eqn:Hs.
    + apply memZ_spec in Hs. pose proof (pot_mono d v seen).
      destruct (IH q (set_add v seen)) as (cs & Hcs); [simpl in Hn; lia|auto|].
      exists ((r, []) :: cs). apply legit_leaf; auto.
    + apply memZ_false in Hs. destruct r as [|x r'] eqn:Er.
      * pose proof (pot_mono d v seen).
        destruct (IH q (set_add v seen)) as (cs & Hcs); [simpl in Hn; lia|auto|].
        exists (([], []) :: cs). apply legit_leaf; auto.
      * rewrite <- Er in *. pose proof (pot_add d v seen r Hs Hr).
        destruct (IH (q ++ r) (set_add v seen)) as (cs & Hcs).
        -- rewrite app_length. simpl in Hn. lia.
        -- eapply all_keys_step; eauto.
        -- exists ((r, r) :: cs). apply legit_exp; auto. subst r; discriminate.
Qed.

Lemma legit_pre_extends cs q seen :
  legit_pre d cs q seen -> all_keys q -> exists cs', legit d (cs ++ cs') q seen.
Proof.
  induction 1 as [cs seen|q seen|r sh cs v q seen Hr Hl _ IH|r sh cs v q seen Hr Hv Hne Hp _ IH];
    intros Hq.
  - exists []. apply legit_done.
  - simpl. eapply run_exists; eauto.
  - destruct IH as (cs' & IH); [inversion Hq; auto|].
    exists cs'. simpl. apply legit_leaf; auto.
  - destruct IH as (cs' & IH); [eapply all_keys_step; eauto|].
    exists cs'. simpl. apply legit_exp; auto.
Qed.
End Pruned.

(* ------------------------------------------------------------- the finders *)
Lemma bfs_gives_tree d root cs D :
  bfs d cs [root] [] = Some D -> exists t, unbfs D = [t].
Proof.
  intros H. destruct (unbfs_spec _ _ _ _ _ H) as (L & _).
  destruct (unbfs D) as [|t [|t' Q]]; simpl in L; try discriminate. eauto.
Qed.

Theorem random_finder_total d root cs :
  closed d -> all_nonempty d -> has_key d root = true ->
  legit d cs [root] [] ->
  exists t D, bfs d cs [root] [] = Some D /\ (length D <= pop_bound d)%nat /\
              random_proof_tree d root cs = Some t.
Proof.
  intros _ _ _ H. destruct (legit_bfs_total _ _ _ _ H) as (D & E).
  destruct (bfs_gives_tree _ _ _ _ E) as (t & Et). exists t, D. split; auto. split.
  - apply bfs_pops_bound in E. unfold pop_bound. simpl in E. lia.
  - unfold random_proof_tree. rewrite E, Et. reflexivity.
Qed.

Theorem random_answers_iff_legit d root cs :
  random_proof_tree d root cs <> None <-> legit d cs [root] [].
Proof.
  split.
  - unfold random_proof_tree. destruct (bfs d cs [root] []) as [D|] eqn:E; [|congruence].
    intros _. eapply bfs_legit; eauto.
  - intros H. destruct (legit_bfs_total _ _ _ _ H) as (D & E).
    destruct (bfs_gives_tree _ _ _ _ E) as (t & Et).
    unfold random_proof_tree. rewrite E, Et. discriminate.
Qed.

(* the same from a prefix: enough answers, all legitimate so far *)
Theorem random_finder_total_prefix d root cs :
  legit_pre d cs [root] [] -> (pop_bound d <= length cs)%nat ->
  exists t D, bfs d cs [root] [] = Some D /\ (length D <= pop_bound d)%nat /\
              random_proof_tree d root cs = Some t.
Proof.
  intros H Hlen. destruct (legit_pre_bfs_total _ _ _ _ H) as (D & E).
  { unfold pop_bound in Hlen. simpl. lia. }
  destruct (bfs_gives_tree _ _ _ _ E) as (t & Et). exists t, D. split; auto. split.
  - apply bfs_pops_bound in E. unfold pop_bound. simpl in E. lia.
  - unfold random_proof_tree. rewrite E, Et. reflexivity.
Qed.

(* no stuck state: whatever random answered so far (legitimately), the run can
   be completed, and the completed run is answered within the bound *)
Theorem random_finder_never_stuck d root cs :
  closed d -> all_nonempty d -> has_key d root = true ->
  legit_pre d cs [root] [] ->
  exists cs' t, legit d (cs ++ cs') [root] [] /\
                random_proof_tree d root (cs ++ cs') = Some t.
Proof.
  intros Hc Hn Hr H.
  destruct (legit_pre_extends d Hc Hn _ _ _ H) as (cs' & H'); [repeat constructor; auto|].
  destruct (random_finder_total d root _ Hc Hn Hr H') as (t & _ & _ & _ & Ht). eauto.
Qed.

(* both hypotheses on the dictionary are needed *)
Lemma stuck_if_not_closed :
  let d := [(0, [[1]])] in
  has_key d 0 = true /\ all_nonempty d /\ legit_pre d [([1], [1])] [0] [] /\
  forall cs', ~ legit d ([([1], [1])] ++ cs') [0] [].
Proof.
  split; [reflexivity|]. split; [apply all_nonempty_check; reflexivity|]. split.
  - eapply pre_exp; [left; reflexivity|intros []|discriminate|apply Permutation_refl|apply pre_short].
  - intros cs' H. simpl in H. inversion H; subst.
    + match goal with Hl : _ \/ _ |- _ => destruct Hl as [[]|Hl]; discriminate end.
    + match goal with Hp : Permutation [1] _ |- _ => apply Permutation_length_1_inv in Hp; subst end.
      match goal with Hr : legit _ _ ([] ++ [1]) _ |- _ => simpl in Hr; inversion Hr; subst end;
        match goal with Hin : In _ (rules_of _ 1) |- _ => cbv in Hin; destruct Hin end.
Qed.

Lemma stuck_if_empty_ruleset :
  let d := [(0, [])] in
  has_key d 0 = true /\ closed d /\ forall cs, ~ legit d cs [0] [].
Proof.
  split; [reflexivity|]. split.
  - intros k r x Hr. unfold rules_of in Hr. simpl in Hr. destruct k; simpl in Hr; destruct Hr.
  - intros cs H. inversion H; subst;
      match goal with Hin : In _ (rules_of _ 0) |- _ => cbv in Hin; destruct Hin end.
Qed.

Lemma smallish_loop_total d root : forall runs best,
  Forall (fun cs => legit d cs [root] []) runs ->
  exists t, smallish_loop d root runs best = Some t.
Proof.
  induction runs as [|r runs IH]; intros best H; simpl; [eauto|].
  inversion H; subst. destruct (legit_bfs_total _ _ _ _ H2) as (D & E).
  destruct (bfs_gives_tree _ _ _ _ E) as (t & Et).
  unfold random_proof_tree. rewrite E, Et. apply IH; auto.
Qed.

(* the form used for the composed model: no hypothesis on the dictionary *)
Lemma smallish_answers_on_runs d root runs :
  runs <> [] -> Forall (fun cs => legit d cs [root] []) runs ->
  smallish_random_proof_tree d root runs <> None.
Proof.
  intros Hne H. destruct runs as [|r runs]; [congruence|]. inversion H; subst.
  destruct (legit_bfs_total _ _ _ _ H2) as (D & E).
  destruct (bfs_gives_tree _ _ _ _ E) as (t & Et).
  unfold smallish_random_proof_tree, random_proof_tree. rewrite E, Et.
  destruct (smallish_loop_total d root runs t H3) as (t' & ->). discriminate.
Qed.

Theorem smallish_finder_total d root runs :
  closed d -> all_nonempty d -> has_key d root = true ->
  runs <> [] -> Forall (fun cs => legit d cs [root] []) runs ->
  exists t, smallish_random_proof_tree d root runs = Some t.
Proof.
  intros _ _ _ Hne H. destruct runs as [|r runs]; [congruence|]. inversion H; subst.
  destruct (legit_bfs_total _ _ _ _ H2) as (D & E).
  destruct (bfs_gives_tree _ _ _ _ E) as (t & Et).
  unfold smallish_random_proof_tree, random_proof_tree. rewrite E, Et.
  apply smallish_loop_total; auto.
Qed.

(* ------------------------------------------- the breadth-first GENERATOR *)
(* what IS true of every tree proof_tree_generator_bfs yields (the third
   conjunct of valid_rules, one rule per label, is refuted) *)
Lemma product_In {A} (ls : list (list A)) : forall x,
  In x (product ls) -> Forall2 (fun xi li => In xi li) x ls.
Proof.
  induction ls as [|l ls IH]; intros x H; simpl in H.
  - destruct H as [<-|[]]. constructor.
  - apply in_flat_map in H as (a & Ha & H). apply in_map_iff in H as (x' & <- & Hx').
    constructor; auto.
Qed.

Lemma Forall2_In_l' {A B} (P : A -> B -> Prop) (la : list A) (lb : list B) a :
  Forall2 P la lb -> In a la -> exists b, In b lb /\ P a b.
Proof.
  induction 1 as [|x y la lb Hxy _ IH]; simpl; [tauto|].
  intros [<-|H]; [eauto|]. destruct (IH H) as (b & Hb & Hp). eauto.
Qed.

Definition bfs_ok (d : rdict) (seen : list Z) (l : Z) (t : tree) : Prop :=
  label t = l /\
  (forall l' cs, In (l', cs) (node_rules t) -> cs <> [] ->
     exists r, In r (rules_of d l') /\ Permutation r cs) /\
  (forall l', In (l', []) (node_rules t) ->
     In l' seen \/ In [] (rules_of d l') \/ expanded (node_rules t) l').

Lemma bfs_helper_ok d : forall fuel seen l t,
  In t (bfs_helper d fuel seen l) -> bfs_ok d seen l t.
Proof.
  induction fuel as [|f IH]; intros seen l t H; simpl in H; [destruct H|].
  destruct (memZ l seen) eqn:Hs.
  - destruct H as [<-|[]]. apply memZ_spec in Hs. unfold bfs_ok. simpl.
    split; [reflexivity|]. split.
    + intros l' cs [E|[]] Hne. inversion E; subst. congruence.
    + intros l' [E|[]]. inversion E; subst. auto.
  - apply in_flat_map in H as (r & Hr & H). apply in_map_iff in H as (kids & <- & Hk).
    apply product_In in Hk.
    assert (Hkids : Forall2 (fun k c => bfs_ok d (set_add l seen) c k) kids r).
    { clear Hr. revert kids Hk. induction r as [|c r IHr]; intros kids Hk; inversion Hk; subst.
      - constructor.
      - constructor; [apply IH; auto|apply IHr; auto]. }
    assert (Hlab : map label kids = r).
    { clear -Hkids. induction Hkids as [|k c kids r (Hl & _) _ IHk]; simpl; congruence. }
    unfold bfs_ok. rewrite node_rules_Node, Hlab. split; [reflexivity|]. split.
    + intros l' cs [E|Hin] Hne.
      * inversion E; subst. exists (map label kids). split; auto.
      * unfold forest_rules in Hin. apply in_flat_map in Hin as (k & Hk' & Hin).
        destruct (Forall2_In_l' _ _ _ _ Hkids Hk') as (c & _ & _ & H1 & _). eauto.
    + intros l' [E|Hin].
      * inversion E; subst. right. left. rewrite H1 in Hr. exact Hr.
      * unfold forest_rules in Hin. apply in_flat_map in Hin as (k & Hk' & Hin).
        destruct (Forall2_In_l' _ _ _ _ Hkids Hk') as (c & Hc & _ & _ & H2).
        destruct (H2 l' Hin) as [Hse|[Hn|(cs & Hne & Hx)]]; auto.
        -- apply set_add_In in Hse as [->|Hse]; auto.
           right. right. exists r. split; [destruct r; [destruct Hc|discriminate]|left; reflexivity].
        -- right. right. exists cs. split; auto. right.
           unfold forest_rules. apply in_flat_map. eauto.
Qed.

Theorem bfs_sound d root t :
  In t (proof_tree_generator_bfs d root) ->
  label t = root /\
  (forall l cs, In (l, cs) (node_rules t) -> cs <> [] ->
     exists r, In r (rules_of d l) /\ Permutation r cs) /\
  (forall l, In (l, []) (node_rules t) -> In [] (rules_of d l) \/ expanded (node_rules t) l).
Proof.
  unfold proof_tree_generator_bfs. destruct (has_key d root); [|intros []].
  intros H. apply bfs_helper_ok in H as (H1 & H2 & H3). split; auto. split; auto.
  intros l Hl. destruct (H3 l Hl) as [[]|H]; auto.
Qed.
