(* Proofs about the composed RuleDBBase model (Tree/WithEquiv.v), part 1:
   every operation of the composed model is a sequence of operations of the C06
   equivalence-database model (so every reachable equivalence database is a state
   `exec order init tr` and all C06 theorems apply); what rules_up_to_equivalence,
   pruned_dict and has_specification compute in terms of the pure functions of
   Tree/Model.v at the representative function READ OFF the union-find state; the
   invariant of reachable composed states (trace, recorded edges = unary rules
   added, key lists, cache = what recomputing gives) and totality. *)
From Coq Require Import ZArith List Bool Lia Relations.
From CSS Require Import Base.PyList Tree.Model Tree.Basics Tree.Valid Tree.PruneProofs
  Tree.IterProofs Tree.SpecProofs.
From CSS Require Import Equiv.Model Equiv.Ref Equiv.UF Equiv.Inv Equiv.Hist Equiv.Cov
  Equiv.CompleteUF Equiv.Complete Equiv.Total Equiv.Neutral.
From CSS Require Import Tree.WithEquiv.
Import ListNotations.
Open Scope Z_scope.

(* ------------------------------------------------------------ pure functions are extensional in rep *)
Lemma qstep_ext rep1 rep2 rd se :
  (forall x, rep1 x = rep2 x) -> qstep rep1 rd se = qstep rep2 rd se.
Proof.
  intros E. destruct se as [start ends]. unfold qstep.
  rewrite (map_ext _ _ E ends), !E.
  destruct ends as [|e [|e2 ends]]; try reflexivity. rewrite (E e). reflexivity.
Qed.

Lemma rue_ext rep1 rep2 rules :
  (forall x, rep1 x = rep2 x) ->
  rules_up_to_equivalence rep1 rules = rules_up_to_equivalence rep2 rules.
Proof.
  intros E. rewrite !rules_up_to_equivalence_fold. generalize (@nil (Z * list rule)).
  induction rules as [|se rules IH]; intros acc; simpl; auto.
  rewrite (qstep_ext rep1 rep2 acc se E). apply IH.
Qed.

Lemma pruned_dict_ext rep1 rep2 rules rt it :
  (forall x, rep1 x = rep2 x) ->
  Tree.Model.pruned_dict rep1 rules rt it = Tree.Model.pruned_dict rep2 rules rt it.
Proof.
  intros E. unfold Tree.Model.pruned_dict. rewrite (rue_ext rep1 rep2 rules E), E. reflexivity.
Qed.

Lemma has_specification_ext rep1 rep2 rules rt it :
  (forall x, rep1 x = rep2 x) ->
  Tree.Model.has_specification rep1 rules rt it = Tree.Model.has_specification rep2 rules rt it.
Proof.
  intros E. unfold Tree.Model.has_specification.
  rewrite (pruned_dict_ext rep1 rep2 rules rt it E), E. reflexivity.
Qed.

Lemma has_key_In_keys d k : has_key d k = true <-> In k (keys d).
Proof. apply has_key_keys. Qed.

(* ------------------------------------------------------------ the history of a composed run *)
(* the equivalence edges recorded by add: a one-child rule start -> (e) gives the edge
   start -> e, and also e -> start when the rule is two-way; self loops are no edges *)
Definition cedge (h : list cop) (a b : Z) : Prop :=
  a <> b /\ exists start ends ver tw e,
    In (CAdd start ends ver tw) h /\ sortZ ends = [e] /\
    ((start = a /\ e = b) \/ (tw = true /\ start = b /\ e = a)).

(* the two key dictionaries as a function of the adds *)
Definition kstep (K : list rkey * list rkey) (o : cop) : list rkey * list rkey :=
  match o with
  | CAdd start ends0 ver tw =>
      let ends := sortZ ends0 in
      match ends with
      | [e] => if tw then (kdel (kdel (fst K) (start, ends)) (e, [start]), kset (snd K) (start, ends))
               else (kset (fst K) (start, ends), snd K)
      | _ => (kset (fst K) (start, ends), snd K)
      end
  | _ => K
  end.
Definition kstate (h : list cop) : list rkey * list rkey := fold_left kstep h ([], []).
(* list(self) after the history *)
Definition hkeys (h : list cop) : list rkey := fst (kstate h) ++ snd (kstate h).

Lemma kstate_snoc h o : kstate (h ++ [o]) = kstep (kstate h) o.
Proof. unfold kstate. rewrite fold_left_app. reflexivity. Qed.

Lemma cedge_snoc_other h o a b :
  (forall start ends ver tw, o <> CAdd start ends ver tw) -> (cedge (h ++ [o]) a b <-> cedge h a b).
Proof.
  intros N. unfold cedge. split; intros (Hab & st & en & ver & tw & e & Hin & R); split; auto;
    exists st, en, ver, tw, e; split; try tauto.
  - apply in_app_iff in Hin. destruct Hin as [Hin|[Hin|[]]]; auto. destruct (N _ _ _ _ Hin).
  - apply in_app_iff. auto.
Qed.

(* the representative function that names the strongly connected components *)
Definition scc_rep (E : Z -> Z -> Prop) (rep : Z -> Z) : Prop :=
  forall a b, rep a = rep b <-> clos_refl_trans Z E a b /\ clos_refl_trans Z E b a.

Section Proofs.
Variable order : list Z -> list Z.
Hypothesis order_In : forall l x, In x (order l) <-> In x l. (* in-section *)
Hypothesis order_len : forall l, (length (order l) <= length l)%nat. (* in-section *)
Variable root_label : Z.
Variable iterative : bool.

(* ------------------------------------------------------------ runs of equivalence-db operations *)
Definition runs (s : db) (qs : list op) (s' : db) : Prop :=
  exists rs, exec order s qs = Some (s', rs).

Lemma runs_nil s : runs s [] s.
Proof. exists []. reflexivity. Qed.

Lemma runs_app s q1 s1 q2 s2 : runs s q1 s1 -> runs s1 q2 s2 -> runs s (q1 ++ q2) s2.
Proof.
  revert s. induction q1 as [|o q1 IH]; intros s (rs1 & E1) R2; simpl in *.
  - inv E1. exact R2.
  - destruct (step order s o) as [[s0 r]|] eqn:St; [|discriminate].
    destruct (exec order s0 q1) as [[s0' rs0]|] eqn:Ex; [|discriminate]. inv E1.
    destruct (IH s0 (ex_intro _ _ Ex) R2) as (rs & E). exists (r :: rs). simpl. rewrite St, E. reflexivity.
Qed.

Lemma runs_step s o s' r : step order s o = Some (s', r) -> runs s [o] s'.
Proof. intros St. exists [r]. simpl. rewrite St. reflexivity. Qed.

Lemma runs_cons s o s1 r qs s2 : step order s o = Some (s1, r) -> runs s1 qs s2 -> runs s (o :: qs) s2.
Proof. intros St R. apply (runs_app s [o] s1 qs s2); auto. eapply runs_step; eauto. Qed.

Lemma runs_find s x s1 r : find s x = Some (s1, r) -> runs s [QFind x] s1.
Proof. intros F. apply (runs_step s (QFind x) s1 (RLabel r)). simpl. rewrite F. reflexivity. Qed.
Lemma runs_equivalent s a b s1 e : equivalent s a b = Some (s1, e) -> runs s [QEquiv a b] s1.
Proof. intros F. apply (runs_step s (QEquiv a b) s1 (RBool e)). simpl. rewrite F. reflexivity. Qed.
Lemma runs_is_verified s a s1 v : is_verified s a = Some (s1, v) -> runs s [QVerified a] s1.
Proof. intros F. apply (runs_step s (QVerified a) s1 (RBool v)). simpl. rewrite F. reflexivity. Qed.
Lemma runs_set_verified s a s1 : set_verified s a = Some s1 -> runs s [SetVerified a] s1.
Proof. intros F. apply (runs_step s (SetVerified a) s1 RNone). simpl. rewrite F. reflexivity. Qed.
Lemma runs_two_way s a b s1 : add_two_way s a b = Some s1 -> runs s [TwoWay a b] s1.
Proof. intros F. apply (runs_step s (TwoWay a b) s1 RNone). simpl. rewrite F. reflexivity. Qed.
Lemma runs_one_way s a b s1 : add_one_way s a b = Some s1 -> runs s [OneWay a b] s1.
Proof. intros F. apply (runs_step s (OneWay a b) s1 RNone). simpl. rewrite F. reflexivity. Qed.
Lemma runs_connect s s1 : connect_cycles order s = Some s1 -> runs s [Connect] s1.
Proof. intros F. apply (runs_step s Connect s1 RNone). simpl. rewrite F. reflexivity. Qed.

(* a state of the equivalence database reached from the fresh one by the trace tr *)
Definition traced (tr : list op) (s : db) : Prop := runs init tr s.

Lemma traced_app tr s qs s' : traced tr s -> runs s qs s' -> traced (tr ++ qs) s'.
Proof. apply runs_app. Qed.
Lemma traced_HInv tr s : traced tr s -> HInv tr s.
Proof. intros (rs & E). eapply reach_inv; eauto. Qed.
Lemma traced_wf tr s : traced tr s -> wf s.
Proof. intros (rs & E). eapply exec_wf; eauto. apply wf_init. Qed.
Lemma traced_cov tr s : traced tr s -> Cov (recorded tr) s.
Proof. intros (rs & E). eapply edges_covered; eauto. Qed.
Lemma runs_wf s qs s' : wf s -> runs s qs s' -> wf s'.
Proof. intros W (rs & E). eapply exec_wf; eauto. Qed.

Lemma Forall_query_neutral qs : Forall is_query qs -> Forall is_neutral qs.
Proof. intros F. eapply Forall_impl; [|exact F]. intros o Q. left. exact Q. Qed.
Lemma Forall_neutral_neutral2 qs : Forall is_neutral qs -> Forall is_neutral2 qs.
Proof. intros F. eapply Forall_impl; [|exact F]. intros o Q. left. exact Q. Qed.

Lemma runs_queries_pres s qs s' : Forall is_query qs -> runs s qs s' -> pres s s'.
Proof. intros F (rs & E). eapply exec_queries_pres; eauto. Qed.

(* the labels passed to set_verified by a list of operations *)
Definition marks (qs : list op) (b : Z) : Prop := In (SetVerified b) qs.
Lemma marked_app tr qs b : marked (tr ++ qs) b <-> marked tr b \/ marks qs b.
Proof. unfold marked, marks. apply in_app_iff. Qed.
Lemma marks_queries qs b : Forall is_query qs -> ~ marks qs b.
Proof. intros F H. rewrite Forall_forall in F. apply F in H. exact H. Qed.

(* ------------------------------------------------------------ representatives *)
Definition is_rep (s : db) (rep : Z -> Z) : Prop := forall x, root s x (rep x).

Lemma is_rep_repf s : wf s -> is_rep s (repf s).
Proof. intros W x. apply repf_root; auto. Qed.
Lemma is_rep_pres s s' rep : (forall y q, root s' y q <-> root s y q) -> is_rep s rep -> is_rep s' rep.
Proof. intros A H x. apply A. apply H. Qed.
Lemma is_rep_unique s rep x r : is_rep s rep -> root s x r -> r = rep x.
Proof. intros H R. eapply chain_det; [exact R|apply H]. Qed.
Lemma is_rep_same s rep a b : is_rep s rep -> (rep a = rep b <-> same s a b).
Proof.
  intros H. split.
  - intros E. exists (rep a). split; [apply H|rewrite E; apply H].
  - intros (r & R1 & R2). rewrite <- (is_rep_unique s rep a r H R1), <- (is_rep_unique s rep b r H R2).
    reflexivity.
Qed.
Lemma is_rep_ext s rep1 rep2 x : is_rep s rep1 -> is_rep s rep2 -> rep1 x = rep2 x.
Proof. intros H1 H2. eapply chain_det; [apply H1|apply H2]. Qed.

(* ------------------------------------------------------------ rules_up_to_equivalence *)
Lemma find_all_spec rep : forall l s s' rs,
  is_rep s rep -> find_all s l = Some (s', rs) ->
  pres s s' /\ rs = map rep l /\ runs s (map QFind l) s'.
Proof.
  induction l as [|e l IH]; intros s s' rs R H; simpl in H.
  - inv H. split; [apply pres_refl|]. split; [reflexivity|apply runs_nil].
  - destruct (find s e) as [[s1 r]|] eqn:F; [|discriminate].
    destruct (find_all s1 l) as [[s2 rs2]|] eqn:FA; [|discriminate]. inv H.
    pose proof (runs_find _ _ _ _ F) as R1.
    apply find_spec in F. destruct F as (Rr & P1).
    apply IH in FA; [|eapply is_rep_pres; [apply P1|exact R]].
    destruct FA as (P2 & -> & R2). split; [eapply pres_trans; eauto|]. split.
    + simpl. f_equal. eapply is_rep_unique; eauto.
    + simpl. apply (runs_app s [QFind e] s1 _ s'); auto.
Qed.

Lemma Forall_map_QFind l : Forall is_query (map QFind l).
Proof. induction l; simpl; constructor; simpl; auto. Qed.

Lemma rue_step_spec rep s rd se s' rd' :
  is_rep s rep -> rue_step (s, rd) se = Some (s', rd') ->
  pres s s' /\ rd' = qstep rep rd se /\ exists qs, Forall is_query qs /\ runs s qs s'.
Proof.
  intros R H. destruct se as [start ends]. unfold rue_step in H.
  assert (X : exists s1 skip qs0, Forall is_query qs0 /\ runs s qs0 s1 /\ pres s s1 /\
            (match ends with [e] => equivalent s start e | _ => Some (s, false) end) = Some (s1, skip) /\
            skip = match ends with [e] => Z.eqb (rep start) (rep e) | _ => false end).
  { destruct ends as [|e [|e2 ends]].
    - exists s, false, []. repeat split; auto using runs_nil, pres_refl.
    - destruct (equivalent s start e) as [[s1 sk]|] eqn:EQ; [|discriminate].
      exists s1, sk, [QEquiv start e]. split; [repeat constructor|].
      split; [eapply runs_equivalent; eauto|].
      apply equivalent_spec in EQ. destruct EQ as (P & He). split; auto. split; auto.
      destruct sk.
      + symmetry. apply Z.eqb_eq. apply (is_rep_same s rep start e R). apply He. reflexivity.
      + symmetry. apply Z.eqb_neq. intros E. apply (is_rep_same s rep start e R) in E.
        apply He in E. discriminate.
    - exists s, false, []. repeat split; auto using runs_nil, pres_refl. }
  destruct X as (s1 & skip & qs0 & F0 & R0 & P0 & EQ & Hskip). rewrite EQ in H.
  assert (Q : qstep rep rd (start, ends) =
              if skip then rd else add_rule rd (rep start) (sortZ (map rep ends))).
  { unfold qstep. subst skip. destruct ends as [|e [|e2 ends]]; reflexivity. }
  destruct skip.
  - inv H. split; auto. split; [symmetry; exact Q|]. exists qs0. auto.
  - destruct (find s1 start) as [[s2 rs]|] eqn:F; [|discriminate].
    destruct (find_all s2 ends) as [[s3 res]|] eqn:FA; [|discriminate]. inv H.
    pose proof (runs_find _ _ _ _ F) as R1.
    apply find_spec in F. destruct F as (Rr & P1).
    assert (R1' : is_rep s1 rep) by (eapply is_rep_pres; [apply P0|exact R]).
    assert (R2' : is_rep s2 rep) by (eapply is_rep_pres; [apply P1|exact R1']).
    apply (find_all_spec rep) in FA; auto. destruct FA as (P2 & -> & R2).
    split; [eapply pres_trans; [exact P0|]; eapply pres_trans; eauto|].
    split.
    + rewrite Q. f_equal. exact (is_rep_unique s1 rep start rs R1' Rr).
    + exists (qs0 ++ [QFind start] ++ map QFind ends). split.
      * apply Forall_app. split; auto. apply Forall_app. split; [repeat constructor|apply Forall_map_QFind].
      * eapply runs_app; [exact R0|]. eapply runs_app; eauto.
Qed.

Lemma rue_loop_spec rep : forall l s rd s' rd',
  is_rep s rep -> rue_loop (s, rd) l = Some (s', rd') ->
  pres s s' /\ rd' = fold_left (qstep rep) l rd /\ exists qs, Forall is_query qs /\ runs s qs s'.
Proof.
  induction l as [|se l IH]; intros s rd s' rd' R H; cbn [rue_loop] in H.
  - inv H. split; [apply pres_refl|]. split; auto. exists []. split; [constructor|apply runs_nil].
  - destruct (rue_step (s, rd) se) as [[s1 rd1]|] eqn:St; [|discriminate].
    apply (rue_step_spec rep) in St; auto. destruct St as (P1 & -> & qs1 & F1 & R1).
    apply IH in H; [|eapply is_rep_pres; [apply P1|exact R]].
    destruct H as (P2 & -> & qs2 & F2 & R2).
    split; [eapply pres_trans; eauto|]. split; [reflexivity|].
    exists (qs1 ++ qs2). split; [apply Forall_app; auto|eapply runs_app; eauto].
Qed.

(* rules_up_to_equivalence of the composed model = the pure function of Tree/Model.v at
   the representative function of the state right after connect_cycles *)
Lemma c_rue_spec x x' rd :
  wf (r_eq x) -> c_rue order x = Some (x', rd) ->
  exists s1 qs,
    connect_cycles order (r_eq x) = Some s1 /\ pres s1 (r_eq x') /\
    Forall is_query qs /\ runs s1 qs (r_eq x') /\
    rd = rules_up_to_equivalence (repf s1) (all_keys x) /\
    r_rules x' = r_rules x /\ r_eqv x' = r_eqv x /\ r_cache x' = r_cache x.
Proof.
  intros W H. unfold c_rue in H.
  destruct (connect_cycles order (r_eq x)) as [s1|] eqn:CC; [|discriminate].
  destruct (rue_loop (s1, []) (all_keys x)) as [[s2 rd2]|] eqn:RL; [|discriminate]. inv H.
  assert (W1 : wf s1).
  { destruct (connect_cycles_total order order_len _ W) as (s1' & E & W1). congruence. }
  apply (rue_loop_spec (repf s1)) in RL; [|apply is_rep_repf; auto].
  destruct RL as (P & -> & qs & F & R).
  exists s1, qs. simpl. split; [reflexivity|]. split; [exact P|]. split; [exact F|].
  split; [exact R|]. split; [reflexivity|]. auto.
Qed.

(* ------------------------------------------------------------ set_verified on every key *)
Lemma mark_all_spec : forall l s s',
  mark_all s l = Some s' ->
  rsame s s' /\ runs s (map SetVerified l) s' /\
  (forall v, In v (verified s') <-> In v (verified s) \/ exists k, In k l /\ root s k v).
Proof.
  induction l as [|k l IH]; intros s s' H; simpl in H.
  - inv H. split; [apply rsame_refl|]. split; [apply runs_nil|].
    intros v. split; auto. intros [X|(k & [] & _)]; auto.
  - destruct (set_verified s k) as [s1|] eqn:SV; [|discriminate].
    pose proof (runs_set_verified _ _ _ SV) as R1.
    pose proof (set_verified_rsame _ _ _ SV) as P1.
    apply set_verified_spec in SV. destruct SV as (A & _ & _ & r & Rr & Vf).
    apply IH in H. destruct H as (P2 & R2 & V2).
    split; [eapply rsame_trans; eauto|]. split.
    + simpl. apply (runs_app s [SetVerified k] s1 _ s'); auto.
    + intros v. rewrite V2, Vf. split.
      * intros [[X| ->]|(k' & Hk & Rk)]; auto.
        -- right. exists k. split; [left; auto|auto].
        -- right. exists k'. split; [right; auto|apply A; auto].
      * intros [X|(k' & [<-|Hk] & Rk)]; auto.
        -- left. right. eapply chain_det; eauto.
        -- right. exists k'. split; auto. apply A; auto.
Qed.

Lemma Forall_map_SetVerified l : Forall is_neutral (map SetVerified l).
Proof. induction l; simpl; constructor; auto. right. eauto. Qed.

Lemma marks_map_SetVerified l b : marks (map SetVerified l) b <-> In b l.
Proof.
  unfold marks. rewrite in_map_iff. split.
  - intros (k & E & Hk). inv E. exact Hk.
  - intros H. exists b. auto.
Qed.

(* ------------------------------------------------------------ pruned_dict, has_specification *)
(* a recomputation (the cache is empty) *)
Lemma c_pruned_dict_spec x x' pd :
  wf (r_eq x) -> r_cache x = None -> c_pruned_dict order root_label iterative x = Some (x', pd) ->
  exists s1 qs,
    connect_cycles order (r_eq x) = Some s1 /\ rsame s1 (r_eq x') /\
    Forall is_neutral qs /\ runs s1 qs (r_eq x') /\
    (forall b, marks qs b <-> In b (keys pd)) /\
    Tree.Model.pruned_dict (repf s1) (all_keys x) root_label iterative = Some pd /\
    r_rules x' = r_rules x /\ r_eqv x' = r_eqv x /\ r_cache x' = Some pd.
Proof.
  intros W HC H. unfold c_pruned_dict in H. rewrite HC in H.
  destruct (c_rue order x) as [[x1 rd]|] eqn:RU; [|discriminate].
  apply c_rue_spec in RU; auto.
  destruct RU as (s1 & qs1 & CC & P1 & F1 & R1 & -> & K1 & K2 & K3).
  assert (W1 : wf s1).
  { destruct (connect_cycles_total order order_len _ W) as (s1' & E & W1). congruence. }
  assert (Wx1 : wf (r_eq x1)) by (eapply runs_wf; eauto).
  set (rd := rules_up_to_equivalence (repf s1) (all_keys x)) in *.
  assert (X : exists s2 qs2, Forall is_query qs2 /\ runs (r_eq x1) qs2 s2 /\ pres (r_eq x1) s2 /\
     (if iterative
      then do (s, r) <- find (r_eq x1) root_label;
           do pd0 <- iterative_prune rd (Some r); Some (s, pd0)
      else do pd0 <- prune rd; Some (r_eq x1, pd0)) = Some (s2, pd) /\
     Tree.Model.pruned_dict (repf s1) (all_keys x) root_label iterative = Some pd).
  { destruct iterative.
    - destruct (find (r_eq x1) root_label) as [[s r]|] eqn:F; [|discriminate].
      destruct (iterative_prune rd (Some r)) as [pd0|] eqn:IP; [|discriminate].
      destruct (mark_all s (keys pd0)) as [s3|] eqn:MA; [|discriminate]. inv H.
      exists s, [QFind root_label]. split; [repeat constructor|].
      split; [eapply runs_find; eauto|].
      pose proof (find_spec _ _ _ _ F) as (Rr & P). split; auto. split.
      + reflexivity.
      + unfold Tree.Model.pruned_dict. fold rd.
        assert (r = repf s1 root_label) as <-; [|exact IP].
        eapply is_rep_unique; [apply is_rep_repf; exact W1|]. apply P1. exact Rr.
    - destruct (prune rd) as [pd0|] eqn:PR; [|discriminate].
      destruct (mark_all (r_eq x1) (keys pd0)) as [s3|] eqn:MA; [|discriminate]. inv H.
      exists (r_eq x1), []. split; [constructor|]. split; [apply runs_nil|].
      split; [apply pres_refl|]. split; [reflexivity|].
      unfold Tree.Model.pruned_dict. fold rd. exact PR. }
  destruct X as (s2 & qs2 & F2 & R2 & P2 & E2 & PD). rewrite E2 in H.
  destruct (mark_all s2 (keys pd)) as [s3|] eqn:MA; [|discriminate]. inv H. simpl.
  apply mark_all_spec in MA. destruct MA as (P3 & R3 & _).
  exists s1, (qs1 ++ qs2 ++ map SetVerified (keys pd)).
  split; auto. split.
  { eapply rsame_trans; [apply pres_rsame; exact P1|].
    eapply rsame_trans; [apply pres_rsame; exact P2|exact P3]. }
  split.
  { apply Forall_app. split; [apply Forall_query_neutral; auto|].
    apply Forall_app. split; [apply Forall_query_neutral; auto|apply Forall_map_SetVerified]. }
  split; [eapply runs_app; [exact R1|]; eapply runs_app; eauto|].
  split; [|auto].
  intros b. unfold marks. rewrite !in_app_iff. fold (marks qs1 b) (marks qs2 b).
  fold (marks (map SetVerified (keys pd)) b). rewrite marks_map_SetVerified.
  split; [|auto]. intros [X|[X|X]]; auto; exfalso.
  - exact (marks_queries qs1 b F1 X).
  - exact (marks_queries qs2 b F2 X).
Qed.

Lemma c_pruned_dict_cached x pd :
  r_cache x = Some pd -> c_pruned_dict order root_label iterative x = Some (x, pd).
Proof. intros H. unfold c_pruned_dict. rewrite H. reflexivity. Qed.

End Proofs.
