(* Executable model of comb_spec_searcher/tree_searcher.py (prune,
   iterative_prune, Node, random_proof_tree, smallish_random_proof_tree,
   proof_tree_generator_dfs/bfs, iterative_proof_tree_finder) and of the finders
   of comb_spec_searcher/rule_db/base.py (rules_up_to_equivalence, pruned_dict,
   has_specification, _get_smallest_node, _get_specification_node).

   Rule dictionaries (Dict[int, Set[Tuple[int, ...]]]) are association lists
   label -> list of rules.  Python's set iteration order is NOT modelled: the
   list order stands for "some iteration order" and the theorems hold for every
   order; random.choice / random.shuffle / the time limit are oracle arguments.
   Loops are structural recursion, or recursion on explicit fuel with result
   None = out of fuel.  No proofs in this file. *)
From Coq Require Import ZArith List Bool.
From CSS Require Import Base.PyList.
Import ListNotations.
Open Scope Z_scope.

Definition rule := list Z.
Definition rdict := list (Z * list rule).

(* ---------------------------------------------------------------- basics *)
Fixpoint rule_eqb (a b : rule) : bool :=
  match a, b with
  | [], [] => true
  | x :: a', y :: b' => Z.eqb x y && rule_eqb a' b'
  | _, _ => false
  end.

Definition memZ (x : Z) (l : list Z) : bool := existsb (Z.eqb x) l.
Definition mem_rule (r : rule) (l : list rule) : bool := existsb (rule_eqb r) l.
Definition is_nil {A} (l : list A) : bool := match l with [] => true | _ => false end.
Definition zsum (l : list Z) : Z := fold_right Z.add 0 l.

(* s.add(x) on a set kept as a duplicate-free list *)
Definition set_add (x : Z) (s : list Z) : list Z := if memZ x s then s else s ++ [x].
(* s.union(t) *)
Definition set_union (s t : list Z) : list Z := fold_left (fun acc x => set_add x acc) t s.

(* rdict[k] / k in rdict *)
Fixpoint get (d : rdict) (k : Z) : option (list rule) :=
  match d with
  | [] => None
  | (k', rs) :: t => if Z.eqb k' k then Some rs else get t k
  end.
Definition rules_of (d : rdict) (k : Z) : list rule :=
  match get d k with Some rs => rs | None => [] end.
Definition has_key (d : rdict) (k : Z) : bool :=
  match get d k with Some _ => true | None => false end.
Definition keys (d : rdict) : list Z := map fst d.

(* in-place update of the rule set stored under k *)
Definition upd (d : rdict) (k : Z) (f : list rule -> list rule) : rdict :=
  map (fun e => if Z.eqb (fst e) k then (fst e, f (snd e)) else e) d.
(* del rdict[k] *)
Definition del (d : rdict) (k : Z) : rdict :=
  filter (fun e => negb (Z.eqb (fst e) k)) d.
(* rule_set.remove(rule) *)
Definition remove_rule (r : rule) (rs : list rule) : list rule :=
  filter (fun r' => negb (rule_eqb r r')) rs.
(* defaultdict(set): d[k].add(rule) *)
Definition add_rule (d : rdict) (k : Z) (r : rule) : rdict :=
  match get d k with
  | None => d ++ [(k, [r])]
  | Some rs => if mem_rule r rs then d else upd d k (fun rs => rs ++ [r])
  end.

Fixpoint nrules (d : rdict) : nat :=
  match d with [] => O | (_, rs) :: t => (length rs + nrules t)%nat end.

(* ---------------------------------------------------------------- prune *)
(* any(x not in rdict for x in rule) *)
Definition bad_rule (d : rdict) (r : rule) : bool := existsb (fun x => negb (has_key d x)) r.

(* body of `for rule in list(rule_set)`.  `rule_set` is the mutable set stored
   under k, so `rule_set.remove` is an update of d at k and `not rule_set` reads
   d at k.  (After `del rdict[k]` the Python object rule_set is still empty and a
   further iteration would raise KeyError on the second del; this cannot happen
   for a set, whose snapshot has no repeated rule: it becomes empty only at the
   last snapshot element.  Here: get = None, nothing happens.) *)
Definition prune_rule (k : Z) (st : rdict * bool) (r : rule) : rdict * bool :=
  let '(d, ch) := st in
  let '(d1, ch1) := if bad_rule d r then (upd d k (remove_rule r), true) else (d, ch) in
  match get d1 k with
  | Some [] => (del d1 k, ch1)
  | _ => (d1, ch1)
  end.

(* body of `for k, rule_set in list(rdict.items())` *)
Definition prune_key (st : rdict * bool) (k : Z) : rdict * bool :=
  fold_left (prune_rule k) (rules_of (fst st) k) st.

(* one execution of the body of `while changed` *)
Definition prune_pass (d : rdict) : rdict * bool :=
  fold_left prune_key (keys d) (d, false).

Fixpoint prune_loop (fuel : nat) (d : rdict) : option rdict :=
  match fuel with
  | O => None
  | S f => let '(d', ch) := prune_pass d in if ch then prune_loop f d' else Some d'
  end.

Definition prune (d : rdict) : option rdict := prune_loop (S (nrules d)) d.

(* ------------------------------------- iterative_prune / iterative finder *)
Inductive tree := Node (label : Z) (children : list tree).
Definition label (t : tree) : Z := match t with Node l _ => l end.
Definition children (t : tree) : list tree := match t with Node _ cs => cs end.

(* Node.__len__ *)
Fixpoint size (t : tree) : Z :=
  match t with Node _ cs => 1 + zsum (map size cs) end.
(* Node.nodes() *)
Fixpoint nodes (t : tree) : list tree :=
  match t with Node _ cs => t :: flat_map nodes cs end.
(* the generator expression of Node.rule_keys, without the sorting:
   (node.label, tuple(child.label for child in node.children)) for every node *)
Definition node_rule (t : tree) : Z * list Z := (label t, map label (children t)).
Definition node_rules (t : tree) : list (Z * list Z) := map node_rule (nodes t).

Fixpoint get_tree_of (ts : list (Z * tree)) (k : Z) : option tree :=
  match ts with
  | [] => None
  | (k', t) :: r => if Z.eqb k' k then Some t else get_tree_of r k
  end.

Definition opt_eqb (o : option Z) (x : Z) : bool :=
  match o with Some r => Z.eqb r x | None => false end.

(* the two loops of iterative_prune and iterative_proof_tree_finder are the
   same text; the finder additionally maintains `trees`.  One state serves both. *)
Record istate := mkI {
  iv : list Z;                 (* verified_labels *)
  ird : rdict;                 (* rdict (the deep copy) *)
  inew : rdict;                (* new_rules_dict *)
  itrees : list (Z * tree);    (* trees, insertion ordered *)
  ierr : bool;                 (* KeyError raised by get_tree *)
  ichg : bool                  (* changed *)
}.

(* get_tree(start) *)
Definition get_tree (root : option Z) (ts : list (Z * tree)) (start : Z) : option tree :=
  if opt_eqb root start then Some (Node start []) else get_tree_of ts start.

Fixpoint all_some {A} (l : list (option A)) : option (list A) :=
  match l with
  | [] => Some []
  | None :: _ => None
  | Some x :: r => match all_some r with Some r' => Some (x :: r') | None => None end
  end.

(* create_tree(start, end) : returns the new trees, or None for KeyError *)
Definition create_tree (root : option Z) (ts : list (Z * tree)) (k : Z) (r : rule)
  : option (list (Z * tree)) :=
  match get_tree_of ts k with
  | Some _ => Some ts
  | None =>
      match all_some (map (get_tree root ts) r) with
      | Some kids => Some (ts ++ [(k, Node k kids)])
      | None => None
      end
  end.

(* body of `for rule in list(rule_set)` *)
Definition iter_rule (root : option Z) (k : Z) (s : istate) (r : rule) : istate :=
  if forallb (fun x => memZ x (iv s)) r then
    let '(ts, e) := match create_tree root (itrees s) k r with
                    | Some ts => (ts, ierr s)
                    | None => (itrees s, true)
                    end in
    mkI (set_add k (iv s)) (upd (ird s) k (remove_rule r)) (add_rule (inew s) k r) ts e true
  else s.

(* body of `for k, rule_set in list(rdict.items())` *)
Definition iter_key (root : option Z) (s : istate) (k : Z) : istate :=
  let s1 := fold_left (iter_rule root k) (rules_of (ird s) k) s in
  match get (ird s1) k with
  | Some [] => mkI (iv s1) (del (ird s1) k) (inew s1) (itrees s1) (ierr s1) (ichg s1)
  | _ => s1
  end.

(* body of `while True` up to the test of `changed` *)
Definition iter_pass (root : option Z) (s : istate) : istate :=
  fold_left (iter_key root) (keys (ird s))
            (mkI (iv s) (ird s) (inew s) (itrees s) (ierr s) false).

Fixpoint iter_loop (root : option Z) (fuel : nat) (s : istate) : option istate :=
  match fuel with
  | O => None
  | S f => let s' := iter_pass root s in
           if ichg s' then iter_loop root f s' else Some s'
  end.

Definition iter_init (d : rdict) (root : option Z) : istate :=
  mkI (match root with Some r => [r] | None => [] end) d [] [] false false.

Definition iter_run (d : rdict) (root : option Z) : option istate :=
  iter_loop root (S (nrules d)) (iter_init d root).

(* iterative_prune(rules_dict, root) *)
Definition iterative_prune (d : rdict) (root : option Z) : option rdict :=
  option_map inew (iter_run d root).

Inductive finder_res :=
| FTree (t : tree)
| FKeyError          (* raised by get_tree *)
| FValueError        (* "{root} has no tree in rules_dict" *)
| FOutOfFuel.

(* iterative_proof_tree_finder(rules_dict, root) *)
Definition iterative_proof_tree_finder (d : rdict) (root : Z) : finder_res :=
  match iter_run d (Some root) with
  | None => FOutOfFuel
  | Some s =>
      if ierr s then FKeyError
      else match get_tree_of (itrees s) root with
           | Some t => FTree t
           | None => FValueError
           end
  end.

(* ------------------------------------------------------ random_proof_tree *)
(* One oracle answer per popped node: the rule returned by
   choice(list(rules_dict[v.label])) and the order in which shuffle(children)
   leaves the children's labels. *)
Definition choice := (rule * list Z)%type.

Fixpoint remove_one (x : Z) (l : list Z) : option (list Z) :=
  match l with
  | [] => None
  | y :: t => if Z.eqb x y then Some t
              else match remove_one x t with Some t' => Some (y :: t') | None => None end
  end.
Fixpoint is_perm (a b : list Z) : bool :=
  match a with
  | [] => is_nil b
  | x :: a' => match remove_one x b with Some b' => is_perm a' b' | None => false end
  end.

(* the `while queue` loop; the queue holds the labels of the Node objects in it.
   Result: for every popped node, in pop order, its label and the labels of the
   children it was given ([] = left a leaf).  None = the oracle is not a
   possible run of random (rule not in the set, not a shuffle, too short). *)
Fixpoint bfs (d : rdict) (cs : list choice) (queue seen : list Z)
  : option (list (Z * list Z)) :=
  match queue with
  | [] => Some []
  | v :: q =>
      match cs with
      | [] => None
      | (r, sh) :: cs' =>
          if mem_rule r (rules_of d v) then
            if memZ v seen || is_nil r then
              option_map (cons (v, [])) (bfs d cs' q (set_add v seen))
            else if is_perm r sh then
              option_map (cons (v, sh)) (bfs d cs' (q ++ sh) (set_add v seen))
            else None
          else None
      end
  end.

(* the tree the mutated Node objects form: nodes in breadth-first order with
   their numbers of children determine it.  Going through the pop sequence
   backwards, Q is the forest of the nodes that were in the queue at that time. *)
Definition unbfs_step (dec : Z * list Z) (Q : list tree) : list tree :=
  let k := (length Q - length (snd dec))%nat in
  Node (fst dec) (skipn k Q) :: firstn k Q.
Definition unbfs (D : list (Z * list Z)) : list tree := fold_right unbfs_step [] D.

Definition random_proof_tree (d : rdict) (root : Z) (cs : list choice) : option tree :=
  match bfs d cs [root] [] with
  | Some D => match unbfs D with [t] => Some t | _ => None end
  | None => None
  end.

(* smallish_random_proof_tree: one oracle per tree built; the number of
   oracles is the number of iterations the time limit allowed (at least one) *)
Fixpoint smallish_loop (d : rdict) (root : Z) (runs : list (list choice)) (best : tree)
  : option tree :=
  match runs with
  | [] => Some best
  | r :: rs =>
      match random_proof_tree d root r with
      | None => None
      | Some t => smallish_loop d root rs (if size t <? size best then t else best)
      end
  end.
Definition smallish_random_proof_tree (d : rdict) (root : Z) (runs : list (list choice))
  : option tree :=
  match runs with
  | [] => None
  | r :: rs => match random_proof_tree d root r with
               | None => None
               | Some t => smallish_loop d root rs t
               end
  end.

(* ------------------------------------------------ sorted(...) on tuples *)
Fixpoint rule_ltb (a b : rule) : bool :=   (* Python tuple comparison a < b *)
  match a, b with
  | [], [] => false
  | [], _ :: _ => true
  | _ :: _, [] => false
  | x :: a', y :: b' => if Z.ltb x y then true else if Z.ltb y x then false else rule_ltb a' b'
  end.
Fixpoint insert_rule (r : rule) (l : list rule) : list rule :=
  match l with
  | [] => [r]
  | h :: t => if rule_ltb h r then h :: insert_rule r t else r :: l
  end.
Definition sort_rules (l : list rule) : list rule := fold_right insert_rule [] l.
Fixpoint insertZ (x : Z) (l : list Z) : list Z :=
  match l with
  | [] => [x]
  | h :: t => if Z.ltb h x then h :: insertZ x t else x :: l
  end.
Definition sortZ (l : list Z) : list Z := fold_right insertZ [] l.

(* ---------------------------------------------- proof_tree_generator_dfs *)
Definition max_le0 (m : option Z) : bool :=
  match m with Some v => v <=? 0 | None => false end.
Definition below (m : option Z) (x : Z) : bool :=     (* maximum is None or x < maximum *)
  match m with Some v => x <? v | None => true end.

Section Forest.
(* _dfs_tree, as seen from _dfs_forest *)
Variable tree_fn : list Z -> option Z -> Z -> list (list Z * tree).

(* _dfs_forest(root_labels, seen, maximum); generators are lists *)
Fixpoint dfs_forest (roots : list Z) (seen : list Z) (m : option Z) {struct roots}
  : list (list Z * list tree) :=
  if max_le0 m then [] else
  match roots with
  | [] => [(seen, [])]
  | r :: rs =>
      let new_max := option_map (fun v => v - zlen roots + 1) m in
      flat_map (fun st : list Z * tree =>
        let '(seen1, t) := st in
        let length := size t in
        let new_maximum := option_map (fun v => v - length) m in
        flat_map (fun sts : list Z * list tree =>
          let '(seen2, ts) := sts in
          let actual_length := length + zsum (map size ts) in
          if below m actual_length then [(set_union seen1 seen2, t :: ts)] else [])
          (dfs_forest rs seen1 new_maximum))
        (tree_fn seen new_max r)
  end.
End Forest.

(* _dfs_tree(root_label, seen, maximum).  d is sorted_rules_dict.  fuel bounds
   the depth of the recursion (every level but the last adds a label to seen). *)
Fixpoint dfs_tree (d : rdict) (fuel : nat) (seen : list Z) (m : option Z) (root_label : Z)
  {struct fuel} : list (list Z * tree) :=
  match fuel with
  | O => []
  | S f =>
      if max_le0 m then []
      else if memZ root_label seen then [(seen, Node root_label [])]
      else
        let seen' := set_add root_label seen in
        flat_map (fun r : rule =>
          if is_nil r then [(seen', Node root_label [])]
          else map (fun sk : list Z * list tree => (fst sk, Node root_label (snd sk)))
                   (dfs_forest (dfs_tree d f) r seen' m))
          (rules_of d root_label)
  end.

Definition sort_dict (d : rdict) : rdict := map (fun e => (fst e, sort_rules (snd e))) d.

Definition dfs_fuel (d : rdict) : nat := S (S (length d)).

(* proof_tree_generator_dfs(rules_dict, root, maximum) as the list of all trees
   it yields, in order *)
Definition proof_tree_generator_dfs (d : rdict) (root : Z) (m : option Z) : list tree :=
  let sd := sort_dict d in
  if has_key sd root then map snd (dfs_tree sd (dfs_fuel d) [] m root) else [].

(* ---------------------------------------------- proof_tree_generator_bfs *)
(* itertools.product over the lists: rightmost varies fastest *)
Fixpoint product {A} (ls : list (list A)) : list (list A) :=
  match ls with
  | [] => [[]]
  | l :: rest => flat_map (fun x => map (cons x) (product rest)) l
  end.

(* _bfs_helper(root_label, seen); iterates rules_dict[root_label] (the set
   itself, in its iteration order — the sorted dictionary is computed but not
   used by the helper) *)
Fixpoint bfs_helper (d : rdict) (fuel : nat) (seen : list Z) (root_label : Z)
  : list tree :=
  match fuel with
  | O => []
  | S f =>
      if memZ root_label seen then [Node root_label []]
      else
        let next_seen := set_add root_label seen in
        flat_map (fun r : rule =>
          map (Node root_label) (product (map (bfs_helper d f next_seen) r)))
          (rules_of d root_label)
  end.

Definition proof_tree_generator_bfs (d : rdict) (root : Z) : list tree :=
  if has_key d root then bfs_helper d (dfs_fuel d) [] root else [].

(* ------------------------------------------------------ rule_db/base.py *)
(* rules_up_to_equivalence: rules = list(self) in iteration order,
   rep = self.equivdb.__getitem__ after connect_cycles,
   are_equivalent a b = (rep a == rep b) *)
Definition rules_up_to_equivalence (rep : Z -> Z) (rules : list (Z * rule)) : rdict :=
  fold_left (fun (rd : rdict) (se : Z * rule) =>
    let '(start, ends) := se in
    match ends with
    | [e] => if Z.eqb (rep start) (rep e) then rd
             else add_rule rd (rep start) (sortZ (map rep ends))
    | _ => add_rule rd (rep start) (sortZ (map rep ends))
    end) rules [].

(* the pruned_dict property: iterative_prune(rules_dict, root=self.equivdb[self.root_label]) *)
Definition pruned_dict (rep : Z -> Z) (rules : list (Z * rule)) (root : Z) (iterative : bool)
  : option rdict :=
  let rd := rules_up_to_equivalence rep rules in
  if iterative then iterative_prune rd (Some (rep root)) else prune rd.

(* has_specification: self.equivdb[self.root_label] in self.pruned_dict *)
Definition has_specification (rep : Z -> Z) (rules : list (Z * rule)) (root : Z)
  (iterative : bool) : option bool :=
  option_map (fun pd => has_key pd (rep root)) (pruned_dict rep rules root iterative).

(* the `while minimum < maximum` loop of _get_smallest_node;
   gen middle = proof_tree_generator_dfs(pruned_dict, root, maximum=middle),
   next(...) = head, StopIteration = [] *)
Fixpoint bsearch (gen : Z -> list tree) (fuel : nat) (minimum maximum : Z) (node : tree)
  : option tree :=
  if minimum <? maximum then
    match fuel with
    | O => None
    | S f =>
        let middle := (minimum + maximum) / 2 in
        match gen middle with
        | t :: _ => bsearch gen f minimum (Z.min middle (size t)) t
        | [] => bsearch gen f (middle + 1) maximum node
        end
    end
  else Some node.

(* _get_smallest_node, given the pruned dictionary and equivdb[root_label] *)
Definition get_smallest_node (pd : rdict) (root : Z) (runs : list (list choice))
  : option tree :=
  match smallish_random_proof_tree pd root runs with
  | None => None
  | Some node =>
      bsearch (fun m => proof_tree_generator_dfs pd root (Some m))
              (Z.to_nat (size node)) 1 (size node) node
  end.
