(* Proofs about the composed RuleDBBase model, part 3: histories.  Every operation
   answers on every reachable state (totality: C06 totality + termination of the
   pruning loops), every state reached by a history satisfies the invariant of
   WithEquivInv.v, the labels marked verified by pruned_dict, and the idempotence
   of recomputing the pruned dictionary. *)
From Coq Require Import ZArith List Bool Lia Relations.
From CSS Require Import Base.PyList Tree.Model Tree.Basics Tree.Valid Tree.PruneProofs
  Tree.IterProofs Tree.SpecProofs.
From CSS Require Import Equiv.Model Equiv.Ref Equiv.UF Equiv.Inv Equiv.Hist Equiv.Cov
  Equiv.CompleteUF Equiv.Complete Equiv.Total Equiv.Neutral.
From CSS Require Import Tree.WithEquiv Tree.WithEquivProofs Tree.WithEquivInv.
Import ListNotations.
Open Scope Z_scope.

Section Hist.
Variable order : list Z -> list Z.
Hypothesis order_In : forall l x, In x (order l) <-> In x l. (* in-section *)
Hypothesis order_len : forall l, (length (order l) <= length l)%nat. (* in-section *)
Variable root_label : Z.
Variable iterative : bool.

Notation runs := (runs order).
Notation traced := (traced order).
Notation c_rue := (c_rue order).
Notation c_pruned_dict := (c_pruned_dict order root_label iterative).
Notation c_has_spec := (c_has_spec order root_label iterative).
Notation c_node := (c_node order root_label iterative).
Notation cstep := (cstep order root_label iterative).
Notation cexec := (cexec order root_label iterative).
Notation Inv2 := (Inv2 order root_label iterative).
Notation Good := (Good order root_label iterative).

(* ------------------------------------------------------------ totality *)
Lemma find_all_total : forall l s, wf s -> exists s' rs, find_all s l = Some (s', rs) /\ wf s'.
Proof.
  induction l as [|e l IH]; intros s W; simpl; [eauto|].
  destruct (find_total s e W) as (s1 & r & -> & W1 & _).
  destruct (IH s1 W1) as (s2 & rs & -> & W2). eauto.
Qed.

Lemma rue_step_total s rd se : wf s -> exists s' rd', rue_step (s, rd) se = Some (s', rd') /\ wf s'.
Proof.
  intros W. destruct se as [start ends]. unfold rue_step.
  assert (X : exists s1 skip, (match ends with [e] => equivalent s start e | _ => Some (s, false) end)
                              = Some (s1, skip) /\ wf s1).
  { destruct ends as [|e [|e2 ends]]; eauto.
    destruct (equivalent_total s start e W) as (s1 & sk & -> & W1 & _). eauto. }
  destruct X as (s1 & skip & -> & W1). destruct skip; [eauto|].
  destruct (find_total s1 start W1) as (s2 & r & -> & W2 & _).
  destruct (find_all_total ends s2 W2) as (s3 & rs & -> & W3). eauto.
Qed.

Lemma rue_loop_total : forall l s rd, wf s ->
  exists s' rd', rue_loop (s, rd) l = Some (s', rd') /\ wf s'.
Proof.
  induction l as [|se l IH]; intros s rd W; cbn [rue_loop]; [eauto|].
  destruct (rue_step_total s rd se W) as (s1 & rd1 & -> & W1). apply IH; auto.
Qed.

Lemma c_rue_total x : wf (r_eq x) -> exists x' rd, c_rue x = Some (x', rd) /\ wf (r_eq x').
Proof.
  intros W. unfold WithEquiv.c_rue.
  destruct (connect_cycles_total order order_len _ W) as (s1 & -> & W1).
  destruct (rue_loop_total (all_keys x) s1 [] W1) as (s2 & rd & E & W2).
  change (@nil (Z * list rule)) with (@nil (Z * list (list Z))) in *.
  unfold rdict, rule in *. rewrite E. simpl. eauto.
Qed.

Lemma mark_all_total : forall l s, wf s -> exists s', mark_all s l = Some s' /\ wf s'.
Proof.
  induction l as [|k l IH]; intros s W; simpl; [eauto|].
  destruct (set_verified_total s k W) as (s1 & -> & W1 & _). apply IH; auto.
Qed.

Lemma c_pruned_dict_total x :
  wf (r_eq x) -> exists x' pd, c_pruned_dict x = Some (x', pd) /\ wf (r_eq x').
Proof.
  intros W. unfold WithEquiv.c_pruned_dict. destruct (r_cache x) as [pd|]; [eauto|].
  destruct (c_rue_total x W) as (x1 & rd & -> & W1).
  assert (X : exists s2 pd,
     (if iterative
      then do (s, r) <- find (r_eq x1) root_label;
           do pd0 <- iterative_prune rd (Some r); Some (s, pd0)
      else do pd0 <- prune rd; Some (r_eq x1, pd0)) = Some (s2, pd) /\ wf s2).
  { destruct iterative.
    - destruct (find_total (r_eq x1) root_label W1) as (s & r & -> & Ws & _).
      destruct (iterative_prune_is_lfp rd (Some r)) as (nd & -> & _). eauto.
    - destruct (prune rd) as [pd|] eqn:P; [eauto|]. destruct (prune_terminates rd P). }
  destruct X as (s2 & pd & -> & W2).
  destruct (mark_all_total (keys pd) s2 W2) as (s3 & -> & W3). simpl. eauto.
Qed.

Lemma c_has_spec_total x :
  wf (r_eq x) -> exists x' b, c_has_spec x = Some (x', b) /\ wf (r_eq x').
Proof.
  intros W. unfold WithEquiv.c_has_spec.
  destruct (c_pruned_dict_total x W) as (x1 & pd & -> & W1).
  destruct (find_total (r_eq x1) root_label W1) as (s2 & r & -> & W2 & _). simpl. eauto.
Qed.

Lemma c_is_verified_total x l :
  wf (r_eq x) -> exists x' b, c_is_verified x l = Some (x', b) /\ wf (r_eq x').
Proof.
  intros W. unfold c_is_verified.
  destruct (is_verified_total (r_eq x) l W) as (s1 & v & -> & W1 & _). simpl. eauto.
Qed.

Lemma c_add_total x start ends ver tw :
  wf (r_eq x) -> exists x', c_add x start ends ver tw = Some x' /\ wf (r_eq x').
Proof.
  intros W. unfold c_add.
  assert (X : exists s1, (if ver then set_verified (r_eq x) start else Some (r_eq x)) = Some s1 /\ wf s1).
  { destruct ver; [|eauto]. destruct (set_verified_total (r_eq x) start W) as (s1 & -> & W1 & _). eauto. }
  destruct X as (s1 & -> & W1).
  destruct (sortZ ends) as [|e [|e2 rest]]; simpl; eauto.
  destruct tw.
  - destruct (add_two_way_total s1 start e W1) as (s2 & -> & W2). simpl. eauto.
  - destruct (add_one_way_total s1 start e W1) as (s2 & -> & W2). simpl. eauto.
Qed.

Lemma ensure_total x k :
  wf (r_eq x) ->
  (forall x1, wf (r_eq x1) -> exists x' r, k x1 = Some (x', r) /\ wf (r_eq x')) ->
  exists x' r, ensure order root_label iterative x k = Some (x', r) /\ wf (r_eq x').
Proof.
  intros W Hk. unfold ensure. destruct (c_has_spec_total x W) as (x1 & b & -> & W1).
  destruct b; [apply Hk; auto|eauto].
Qed.

Lemma read_pd_root_total x :
  wf (r_eq x) -> exists x' pr, read_pd_root order root_label iterative x = Some (x', pr) /\ wf (r_eq x').
Proof.
  intros W. unfold read_pd_root.
  destruct (c_pruned_dict_total x W) as (x1 & pd & -> & W1).
  destruct (find_total (r_eq x1) root_label W1) as (s2 & r & -> & W2 & _). simpl. eauto.
Qed.

Lemma c_smallish_total x runs0 :
  wf (r_eq x) -> exists x' r, c_smallish_node order root_label iterative x runs0 = Some (x', r) /\ wf (r_eq x').
Proof.
  intros W. unfold c_smallish_node. apply ensure_total; auto. intros x1 W1.
  destruct (read_pd_root_total x1 W1) as (x2 & [pd r] & -> & W2). eauto.
Qed.

Lemma c_node_total x sm runs0 listed :
  wf (r_eq x) -> exists x' r, c_node x sm runs0 listed = Some (x', r) /\ wf (r_eq x').
Proof.
  intros W. unfold WithEquiv.c_node. apply ensure_total; auto. intros x1 W1. unfold node_body.
  set (it := iterative) at 1. clearbody it. destruct it.
  - destruct sm; [eauto|]. unfold c_iterative_node. apply ensure_total; auto. intros x2 W2.
    destruct (read_pd_root_total x2 W2) as (x3 & [pd r] & -> & W3). eauto.
  - destruct sm; [|apply c_smallish_total; auto].
    unfold c_smallest_node. apply ensure_total; auto. intros x2 W2.
    destruct (c_smallish_total x2 runs0 W2) as (x3 & nr & -> & W3).
    destruct nr; eauto.
    destruct (read_pd_root_total x3 W3) as (x4 & [pd r] & -> & W4). eauto.
Qed.

Lemma cstep_total x o : wf (r_eq x) -> exists x' a, cstep x o = Some (x', a) /\ wf (r_eq x').
Proof.
  intros W. destruct o as [start ends ver tw| |l| |sm runs0 listed|]; simpl.
  - destruct (c_add_total x start ends ver tw W) as (x' & -> & W'). eauto.
  - destruct (c_has_spec_total x W) as (x' & b & -> & W'). eauto.
  - destruct (c_is_verified_total x l W) as (x' & b & -> & W'). eauto.
  - destruct (c_rue_total x W) as (x' & d & -> & W'). eauto.
  - destruct (c_node_total x sm runs0 listed W) as (x' & r & -> & W'). eauto.
  - eauto.
Qed.

Lemma cexec_total : forall ops x, wf (r_eq x) -> exists x' ans, cexec x ops = Some (x', ans).
Proof.
  induction ops as [|o ops IH]; intros x W; simpl; [eauto|].
  destruct (cstep_total x o W) as (x1 & a & -> & W1).
  destruct (IH x1 W1) as (x2 & ans & ->). eauto.
Qed.

(* ------------------------------------------------------------ reachable states *)
Lemma cstep_Good h x o x' a : Good h x -> cstep x o = Some (x', a) -> Good (h ++ [o]) x'.
Proof.
  intros G H. unfold WithEquivInv.Good in *. rewrite kstate_snoc.
  destruct o as [start ends ver tw| |l| |sm runs0 listed|]; simpl in H.
  - destruct (c_add x start ends ver tw) as [x1|] eqn:A; [|discriminate]. inv H.
    eapply Inv2_iff; [|eapply c_add_Inv2; eauto].
    intros u v. symmetry. apply cedge_snoc_add.
  - destruct (c_has_spec x) as [[x1 b]|] eqn:A; [|discriminate]. inv H.
    eapply Inv2_iff; [|eapply c_has_spec_spec; eauto].
    intros u v. symmetry. apply cedge_snoc_other. intros; discriminate.
  - destruct (c_is_verified x l) as [[x1 b]|] eqn:A; [|discriminate]. inv H.
    eapply Inv2_iff; [|eapply c_is_verified_Inv2; eauto].
    intros u v. symmetry. apply cedge_snoc_other. intros; discriminate.
  - destruct (c_rue x) as [[x1 d]|] eqn:A; [|discriminate]. inv H.
    eapply Inv2_iff; [|eapply c_rue_Inv2; eauto].
    intros u v. symmetry. apply cedge_snoc_other. intros; discriminate.
  - destruct (c_node x sm runs0 listed) as [[x1 r]|] eqn:A; [|discriminate]. inv H.
    eapply Inv2_iff; [|eapply c_node_spec; eauto].
    intros u v. symmetry. apply cedge_snoc_other. intros; discriminate.
  - inv H. eapply Inv2_iff; [intros u v; symmetry; apply cedge_snoc_other; intros; discriminate|].
    destruct G as (tr & T & R & C & Kx). exists tr. simpl. split; auto. split; auto.
    split; [intros pd Hc; discriminate Hc|exact Kx].
Qed.

Lemma cexec_Good : forall ops h x x' ans,
  Good h x -> cexec x ops = Some (x', ans) -> Good (h ++ ops) x'.
Proof.
  induction ops as [|o ops IH]; intros h x x' ans G H; simpl in H.
  - inv H. rewrite app_nil_r. exact G.
  - destruct (cstep x o) as [[x1 a]|] eqn:St; [|discriminate].
    destruct (cexec x1 ops) as [[x2 rest]|] eqn:Ex; [|discriminate]. inv H.
    replace (h ++ o :: ops) with ((h ++ [o]) ++ ops) by (rewrite <- app_assoc; reflexivity).
    eapply IH; [|exact Ex]. eapply cstep_Good; eauto.
Qed.

Lemma reachable_Good ops x ans : cexec rinit ops = Some (x, ans) -> Good ops x.
Proof. intros H. apply (cexec_Good ops [] rinit x ans (Good_init order root_label iterative) H). Qed.

(* ------------------------------------------------------------ verified labels *)
(* is_verified in terms of the trace: some label of the class was passed to set_verified *)
Lemma c_ver_spec tr x l : traced tr (r_eq x) ->
  (c_ver x l = true <-> exists b, marked tr b /\ same (r_eq x) l b).
Proof.
  intros T. pose proof (traced_HInv order order_In _ _ T) as I.
  pose proof (traced_wf order order_len _ _ T) as W.
  unfold c_ver. change (c_rep x l) with (repf (r_eq x) l). rewrite mem_In.
  pose proof (repf_root _ l W) as Rr. split.
  - intros Hr. destruct (inv_ver2 _ _ _ _ I _ Hr) as (b & Hb & S).
    exists b. split; auto. eapply same_trans; [apply same_root; eauto|auto].
  - intros (b & Hb & S). destruct (inv_ver1 _ _ _ _ I b Hb) as (q & Rq & Hq).
    destruct S as (t & T1 & T2).
    rewrite (chain_det _ _ _ _ Rr T1), <- (chain_det _ _ _ _ Rq T2). exact Hq.
Qed.

(* the keys of a pruned quotient dictionary are representatives *)
Lemma pruned_keys_are_reps rep rules rt it pd k :
  (forall x, rep (rep x) = rep x) ->
  Tree.Model.pruned_dict rep rules rt it = Some pd -> has_key pd k = true -> rep k = k.
Proof.
  intros Idem PD HK. unfold Tree.Model.pruned_dict in PD.
  set (q := rules_up_to_equivalence rep rules) in *.
  assert (Q : exists r, In r (rules_of q k)).
  { destruct it.
    - destruct (iterative_prune_is_lfp q (Some (rep rt))) as (nd & E & _ & Hk). rewrite PD in E. inv E.
      apply Hk in HK. destruct HK as (r & Hr & _). eauto.
    - destruct (prune_is_gfp q (quotient_nonempty rep rules)) as (d' & E & Hk & _).
      rewrite PD in E. inv E. apply Hk in HK. destruct HK as (S & PS & Sk).
      destruct (PS k Sk) as (r & Hr & _). eauto. }
  destruct Q as (r & Hr). apply quotient_rules in Hr.
  destruct Hr as (start & ends & _ & _ & <- & _). apply Idem.
Qed.

(* what a recomputation of the pruned dictionary marks verified: afterwards a label is
   verified iff its class contains a label that was verified before, or its representative
   is a key of the pruned dictionary (i.e. its class is in the fixed point) *)
Lemma recompute_marks E K x x' b :
  Inv2 E K x -> r_cache x = None -> c_has_spec x = Some (x', b) ->
  exists pd, r_cache x' = Some pd /\
    Tree.Model.pruned_dict (repf (r_eq x')) (fst K ++ snd K) root_label iterative = Some pd /\
    (forall l, c_ver x' l = true <->
       (exists b0, c_ver x b0 = true /\ same (r_eq x') l b0) \/
       has_key pd (repf (r_eq x') l) = true).
Proof.
  intros I HC H. assert (W : wf (r_eq x)) by (eapply Inv2_wf; eauto).
  unfold WithEquiv.c_has_spec in H.
  destruct (c_pruned_dict x) as [[x1 pd]|] eqn:PD; [|discriminate].
  destruct (find (r_eq x1) root_label) as [[s2 r]|] eqn:F; [|discriminate]. inv H.
  destruct (c_pruned_dict_spec order order_len root_label iterative x x1 pd W HC PD)
    as (s1 & qs & CC & P & Fq & Rn & Mk & PDe & K1 & K2 & K3).
  destruct I as (tr & T & R & C & Kx).
  pose proof (runs_find order _ _ _ _ F) as RF.
  pose proof (find_spec _ _ _ _ F) as (_ & PF).
  assert (T' : traced ((tr ++ Connect :: qs) ++ [QFind root_label]) s2).
  { eapply traced_app; [|exact RF]. eapply traced_app; [exact T|].
    destruct Rn as (rs & Ex). exists (RNone :: rs). simpl. rewrite CC, Ex. reflexivity. }
  assert (W1 : wf s1).
  { destruct (connect_cycles_total order order_len _ W) as (s1' & E1 & W1). congruence. }
  assert (W2 : wf s2) by (eapply traced_wf; eauto).
  assert (RS : rsame s1 s2) by (eapply rsame_trans; [exact P|apply pres_rsame; exact PF]).
  assert (Mono : forall a c, same (r_eq x) a c -> same s2 a c).
  { intros a c S. apply (rsame_same _ _ a c RS).
    destruct (connect_cycles_spec _ _ _ order order_In _ _ (traced_HInv order order_In _ _ T) CC) as (_ & (M & _)).
    auto. }
  assert (PD2 : Tree.Model.pruned_dict (repf s2) (fst K ++ snd K) root_label iterative = Some pd).
  { rewrite <- PDe. inv Kx. apply pruned_dict_ext. intros l. apply repf_rsame; auto. }
  exists pd. simpl. split; [exact K3|]. split; [exact PD2|].
  intros l. change (c_ver (with_eq x1 s2) l) with (c_ver (mkR s2 (r_rules x1) (r_eqv x1) (r_cache x1)) l).
  rewrite (c_ver_spec _ (with_eq x1 s2) l T'). simpl. split.
  - intros (b0 & Mb & S). apply marked_app in Mb. destruct Mb as [Mb|Mb]; [|destruct Mb as [Mb|[]]; discriminate Mb].
    apply marked_app in Mb. destruct Mb as [Mb|Mb].
    + left. exists b0. split; auto. apply (c_ver_spec tr x b0 T). exists b0. split; auto.
      eapply same_refl; eauto. eapply traced_HInv; eauto.
    + right. destruct Mb as [Mb|Mb]; [discriminate Mb|]. apply Mk in Mb.
      apply has_key_In_keys in Mb.
      assert (Eb : repf s2 b0 = b0).
      { eapply pruned_keys_are_reps; [|exact PD2|exact Mb]. intros y. apply repf_idem; auto. }
      rewrite <- Eb in Mb. apply (repf_same s2 l b0 W2) in S. rewrite S. exact Mb.
  - intros [(b0 & Vb & S)|HK].
    + apply (c_ver_spec tr x b0 T) in Vb. destruct Vb as (b1 & Mb & S1).
      exists b1. split; [apply marked_app; left; apply marked_app; left; auto|].
      eapply same_trans; [exact S|]. apply Mono. exact S1.
    + exists (repf s2 l). split.
      * apply marked_app. left. apply marked_app. right. right. apply Mk.
        apply has_key_In_keys. exact HK.
      * apply same_root. apply repf_root. auto.
Qed.

(* ------------------------------------------------------------ idempotence of the recomputation *)
(* recomputing the pruned dictionary of a database whose cache is valid (i.e. twice without
   an add in between) gives the same dictionary and leaves roots, edges and the set of
   verified roots of the equivalence database as they are *)
Lemma recompute_idem E K x pd x2 pd2 :
  Inv2 E K x -> r_cache x = Some pd ->
  c_pruned_dict (mkR (r_eq x) (r_rules x) (r_eqv x) None) = Some (x2, pd2) ->
  pd2 = pd /\ stab (r_eq x) (r_eq x2).
Proof.
  intros I HC H. assert (W : wf (r_eq x)) by (eapply Inv2_wf; eauto).
  set (x0 := mkR (r_eq x) (r_rules x) (r_eqv x) None) in *.
  destruct (c_pruned_dict_spec order order_len root_label iterative x0 x2 pd2 W eq_refl H)
    as (s1 & qs & CC & P & Fq & Rn & Mk & PDe & K1 & K2 & K3).
  destruct I as (tr & T & R & C & Kx). destruct (C pd HC) as (HCm & PD & Mkd).
  pose proof (traced_HInv order order_In _ _ T) as HI.
  simpl in CC.
  pose proof (connect_cycles_stab order order_In _ _ _ _ _ HI (hcompl_compl _ _ HI HCm) CC) as S1.
  assert (W1 : wf s1).
  { destruct (connect_cycles_total order order_len _ W) as (s1' & E1 & W1). congruence. }
  assert (E2 : pd2 = pd).
  { assert (X : Some pd2 = Some pd); [|inv X; reflexivity].
    rewrite <- PDe, <- PD. apply pruned_dict_ext. intros l. apply repf_rsame; auto. apply S1. }
  split; auto. subst pd2.
  destruct Rn as (rs & Ex).
  eapply stab_trans; [exact S1|].
  eapply (exec_neutral_verified order qs s1 (r_eq x2) rs Fq Ex).
  intros b Hb. apply Mk in Hb. apply Mkd in Hb.
  destruct (inv_ver1 _ _ _ _ HI b Hb) as (q & Rq & Hq).
  exists q. destruct S1 as ((A & _) & V). split; [apply A; auto|apply V; auto].
Qed.

End Hist.
