(* sx interface of the composed RuleDBBase model (Tree/WithEquiv.v), as an extension of
   Tree/Run.v: modes 0..7 are run_c05 of Tree/Run.v unchanged; mode 8 runs a history of the
   public operations of a RuleDB and reports, AFTER EVERY OPERATION, its answer, the
   representative of every label of `labels`, the labels that are verified and the cached
   pruned dictionary.

   Input   L [I 8; I root_label; I iterative; L ops; L labels]
     op    L [I 0; I start; L ends; I ver; I two_way]      add
           L [I 1]                                         has_specification()
           L [I 2; I label]                                is_verified(label)
           L [I 3]                                         rules_up_to_equivalence()
           L [I 4; I smallest; runs; listed]               _get_specification_node(.., smallest)
           L [I 5]                                         self._pruned_dict = None
   Output  L [ L [answer; L [L [I label; I representative]; ..]; L verified labels; cache]; .. ]
     answer  L []                       (add, drop)
             L [I b]                    (has_specification, is_verified)
             L [I 2; dict]              (rules_up_to_equivalence, canonical order)
             L [I 3; node]              node = L [I 1; tree] | L [I 2] not found | L [I 3] invalid |
                                               L [I 0; I code] finder error / oracle not a run
     cache   L [I 0] | L [I 1; dict]
   The set-iteration order of the equivalence database is the ascending one (isort), as in
   Equiv/Run.v: labels of composed histories are 0..7, where CPython iterates in that order.
   A model failure (None: out of fuel) is reported as L [I (-99)] in place of the entry. *)
From Coq Require Import ZArith List Bool.
From CSS Require Import Base.Sx Base.PyList Tree.Model Tree.Run Equiv.Model Tree.WithEquiv.
Import ListNotations.
Open Scope Z_scope.

Definition dec_cop (s : sx) : cop :=
  match sx_Z (sx_nth s 0) with
  | 0 => CAdd (sx_Z (sx_nth s 1)) (sx_Zs (sx_nth s 2)) (sx_bool (sx_nth s 3)) (sx_bool (sx_nth s 4))
  | 1 => CHasSpec
  | 2 => CIsVerified (sx_Z (sx_nth s 1))
  | 3 => CRue
  | 4 => CNode (sx_bool (sx_nth s 1)) (dec_runs (sx_nth s 2)) (dec_dict (sx_nth s 3))
  | _ => CDrop
  end.

Definition enc_node (r : node_res) : sx :=
  match r with
  | NNotFound => L [I 2]
  | NInvalid => L [I 3]
  | NTree t => L [I 1; enc_tree t]
  | NFinder f => enc_finder f
  | NNoRun => L [I 0; I 7]
  end.

Definition enc_cans (a : cans) : sx :=
  match a with
  | ANone => L []
  | ABool b => L [of_bool b]
  | ADict d => L [I 2; enc_dict d]
  | ANode r => L [I 3; enc_node r]
  end.

Definition observe (labels : list Z) (x : rdb) : list sx :=
  [ L (map (fun l => L [I l; I (c_rep x l)]) labels);
    of_Zs (filter (c_ver x) labels);
    match r_cache x with None => L [I 0] | Some pd => L [I 1; enc_dict pd] end ].

Fixpoint run_ops (root : Z) (iterative : bool) (labels : list Z) (x : rdb) (ops : list cop)
  : list sx :=
  match ops with
  | [] => []
  | o :: t =>
      match cstep isort root iterative x o with
      | None => [L [I (-99)]]
      | Some (x1, a) => L (enc_cans a :: observe labels x1) :: run_ops root iterative labels x1 t
      end
  end.

Definition run_composed (inp : sx) : sx :=
  let a n := sx_nth inp n in
  L (run_ops (sx_Z (a 1%nat)) (sx_bool (a 2%nat)) (sx_Zs (a 4%nat)) rinit
             (map dec_cop (sx_list (a 3%nat)))).

Definition run_c05 (inp : sx) : sx :=
  match sx_Z (sx_nth inp 0) with
  | 8 => run_composed inp
  | _ => Tree.Run.run_c05 inp
  end.
