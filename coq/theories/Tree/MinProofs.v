(* Minimality of 'smallest' against EVERY valid proof tree: for every valid proof
   tree t of a closed dictionary, the unbounded depth-first generator yields a
   tree that expands only labels t expands, with rules of the same arity — hence
   a tree that is not larger.  Together with DfsProofs.smallest_node_min this
   closes the gap between "trees of the generator" and "all proof trees". *)
From Coq Require Import ZArith List Bool Lia Permutation.
From CSS Require Import Base.PyList Tree.Model Tree.Basics Tree.Valid Tree.PruneProofs
  Tree.RandomProofs Tree.DfsProofs Tree.FuelProofs Tree.SpecProofs.
Import ListNotations.
Open Scope Z_scope.

Lemma in_forest_rules e Q : In e (forest_rules Q) <-> exists c, In c Q /\ In e (node_rules c).
Proof. unfold forest_rules. rewrite in_flat_map. tauto. Qed.

Lemma node_rules_self t : In (node_rule t) (node_rules t).
Proof. unfold node_rules. apply in_map. destruct t; simpl; auto. Qed.

Lemma children_labels : forall t l cs, In (l, cs) (node_rules t) ->
  forall x, In x cs -> In x (map fst (node_rules t)).
Proof.
  induction t as [l0 cs0 IH] using tree_ind'. intros l cs H x Hx.
  rewrite node_rules_Node in *. rewrite Forall_forall in IH.
  destruct H as [E|H].
  - inversion E; subst l cs. apply in_map_iff in Hx as (c & <- & Hc).
    simpl. right. apply in_map_iff. exists (node_rule c). split; auto.
    apply in_forest_rules. exists c. split; auto. apply node_rules_self.
  - apply in_forest_rules in H as (c & Hc & H).
    specialize (IH c Hc l cs H x Hx). simpl. right.
    apply in_map_iff in IH as (e & <- & He). apply in_map. apply in_forest_rules. eauto.
Qed.

(* weighted sums over entries with distinct labels *)
Lemma arities_nonneg R : 0 <= arities R.
Proof.
  induction R as [|e R IH]; [unfold arities, zsum; simpl; lia|].
  rewrite arities_cons. unfold zlen. lia.
Qed.

Lemma arities_inject (E' E : list (Z * list Z)) :
  NoDup (map fst E') ->
  (forall e', In e' E' -> exists e, In e E /\ fst e = fst e' /\ zlen (snd e) = zlen (snd e')) ->
  arities E' <= arities E.
Proof.
  revert E. induction E' as [|e' E' IH]; intros E Hnd Hm.
  - apply arities_nonneg.
  - inversion Hnd as [|? ? Hni Hnd']; subst.
    destruct (Hm e') as (e & He & Hf & Hw); [left; auto|].
    apply in_split in He as (E1 & E2 & ->).
    rewrite arities_app, !arities_cons, Hw.
    assert (arities E' <= arities (E1 ++ E2)); [|rewrite arities_app in *; lia].
    apply IH; auto. intros e'' He''.
    destruct (Hm e'') as (e0 & He0 & Hf0 & Hw0); [right; auto|].
    exists e0. split; auto.
    apply in_app_iff in He0 as [|[->|]]; apply in_app_iff; auto.
    exfalso. apply Hni. rewrite <- Hf, Hf0. apply in_map. exact He''.
Qed.

Lemma arities_filter R : arities R = arities (filter (fun e => negb (is_nil (snd e))) R).
Proof.
  induction R as [|[l cs] R IH]; simpl; auto.
  destruct cs as [|c cs]; simpl.
  - rewrite arities_cons. simpl. unfold zlen. simpl. lia.
  - rewrite !arities_cons. lia.
Qed.

Section Min.
Variable d : rdict.
Hypothesis d_closed : closed d.
Variable t0 : tree.
Hypothesis t0_valid : valid_tree d t0.

Let Rt := node_rules t0.
Definition inL (x : Z) : Prop := In x (map fst Rt).

(* the tree uses only labels of t0 and expands only labels t0 expands, with the same arity *)
Definition Sub (R : list (Z * list Z)) : Prop :=
  forall x cs, In (x, cs) R ->
    inL x /\ (cs <> [] -> exists cs0, In (x, cs0) Rt /\ cs0 <> [] /\ zlen cs = zlen cs0).

Lemma inL_has_key x : inL x -> has_key d x = true.
Proof.
  intros H. unfold inL in H. apply in_map_iff in H as ([l cs] & <- & H). simpl.
  destruct t0_valid as (V1 & V2 & _). destruct cs as [|c cs].
  - destruct (V2 l H) as [Hn|(cs' & Hne & Hin)].
    + eapply rules_of_has_key; eauto.
    + destruct (V1 l cs' Hin Hne) as (r & Hr & _). eapply rules_of_has_key; eauto.
  - destruct (V1 l (c :: cs) H) as (r & Hr & _); [discriminate|]. eapply rules_of_has_key; eauto.
Qed.

Section ForestEx.
Variable K : nat.
Variable tf : list Z -> option Z -> Z -> list (list Z * tree).
Hypothesis tf_ex : forall seen l, wfseen d seen -> inL l -> (mu d seen <= K)%nat ->
  exists st, In st (tf seen None l) /\ label (snd st) = l /\ Sub (node_rules (snd st)).
Hypothesis tf_wf : forall seen m l st, In st (tf seen m l) ->
  wfseen d seen -> has_key d l = true -> wfseen d (fst st) /\ incl seen (fst st).

Lemma forest_ex : forall roots seen,
  wfseen d seen -> (forall x, In x roots -> inL x) -> (mu d seen <= K)%nat ->
  exists sts, In sts (dfs_forest tf roots seen None) /\ map label (snd sts) = roots /\
              Sub (forest_rules (snd sts)).
Proof.
  induction roots as [|r rs IH]; intros seen Hw Hr Hmu.
  - exists (seen, []). simpl. csplit; auto. intros x cs [].
  - destruct (tf_ex seen r Hw) as ([seen1 t] & Ht & Hl & Hs); auto; [apply Hr; left; auto|].
    simpl in Hl, Hs.
    destruct (tf_wf _ _ _ _ Ht Hw) as (W1 & I1); [apply inL_has_key, Hr; left; auto|]. simpl in *.
    destruct (IH seen1 W1) as ([seen2 ts] & Hts & Hls & Hss).
    { intros x Hx. apply Hr. right; auto. }
    { pose proof (mu_mono d seen seen1 W1 I1 (proj1 Hw)). lia. }
    simpl in Hls, Hss.
    exists (set_union seen1 seen2, t :: ts). csplit.
    + simpl. apply in_flat_map. exists (seen1, t). split; auto.
      apply in_flat_map. exists (seen2, ts). split; auto. simpl. auto.
    + simpl. congruence.
    + simpl snd. change (forest_rules (t :: ts)) with (node_rules t ++ forest_rules ts).
      intros x cs Hin. apply in_app_iff in Hin as [Hin|Hin]; auto.
Qed.
End ForestEx.

Lemma tree_ex : forall f seen l,
  wfseen d seen -> inL l -> (mu d seen + 1 <= f)%nat ->
  exists st, In st (dfs_tree d f seen None l) /\ label (snd st) = l /\ Sub (node_rules (snd st)).
Proof.
  induction f as [|f IH]; intros seen l Hw Hl Hf; [lia|].
  simpl. destruct (memZ l seen) eqn:Hs.
  - exists (seen, Node l []). csplit; simpl; auto.
    intros x cs [E|[]]. inversion E; subst. split; auto. congruence.
  - apply memZ_false in Hs.
    pose proof (inL_has_key l Hl) as Hk.
    pose proof (mu_fresh d l seen Hw Hk Hs) as Hmu.
    destruct t0_valid as (V1 & V2 & _).
    destruct (in_dec Z.eq_dec l (expansions Rt)) as [He|He].
    + (* t0 expands l: use the same rule *)
      apply expansions_In in He as (cs0 & Hne & Hin).
      destruct (V1 l cs0 Hin Hne) as (r & Hr & Hp).
      assert (Hrne : r <> []).
      { intros ->. apply Permutation_nil in Hp. congruence. }
      destruct (forest_ex (mu d (set_add l seen)) (dfs_tree d f)) with (roots := r) (seen := set_add l seen)
        as ([s kids] & Hk1 & Hk2 & Hk3).
      * intros seen' l' Hw' Hl' Hmu'. apply IH; auto. lia.
      * apply dfs_tree_wf. exact d_closed.
      * apply set_add_wf; auto.
      * intros x Hx. eapply children_labels; [exact Hin|].
        eapply Permutation_in; eauto.
      * lia.
      * simpl in Hk2, Hk3. exists (s, Node l kids). csplit.
        -- apply in_flat_map. exists r. split; auto.
           destruct r as [|c r]; [congruence|]. cbn [is_nil].
           apply in_map_iff. exists (s, kids). auto.
        -- reflexivity.
        -- simpl snd. rewrite node_rules_Node, Hk2. intros x cs [E|Hin'].
           ++ inversion E; subst x cs. split; auto. intros _. exists cs0. csplit; auto.
              unfold zlen. rewrite (Permutation_length Hp). reflexivity.
           ++ apply Hk3. exact Hin'.
    + (* t0 never expands l: every occurrence is a leaf, so l has the rule () *)
      assert (Hnil : In [] (rules_of d l)).
      { unfold inL in Hl. apply in_map_iff in Hl as ([l' cs] & E & Hin). simpl in E; subst l'.
        destruct cs as [|c cs].
        - destruct (V2 l Hin) as [|Hx]; auto. exfalso. apply He. apply expansions_In. exact Hx.
        - exfalso. apply He. apply expansions_In. exists (c :: cs). split; [discriminate|auto]. }
      exists (set_add l seen, Node l []). csplit; simpl; auto.
      * apply in_flat_map. exists []. split; auto. simpl. auto.
      * intros x cs [E|[]]. inversion E; subst. split; auto. congruence.
Qed.
End Min.

Theorem dfs_covers_every_tree d root t :
  closed d -> label t = root -> valid_tree d t ->
  exists t', In t' (proof_tree_generator_dfs d root None) /\ size t' <= size t.
Proof.
  intros Hc Hl Hv.
  assert (Hcs : closed (sort_dict d)).
  { intros k r x Hr Hx. rewrite has_key_sort_dict.
    apply (proj1 (rules_of_sort_dict d k r)) in Hr. eapply Hc; eauto. }
  assert (Hvs : valid_tree (sort_dict d) t).
  { destruct Hv as (V1 & V2 & V3). unfold valid_tree, valid_rules. csplit; auto.
    - intros l cs Hin Hne. destruct (V1 l cs Hin Hne) as (r & Hr & Hp). exists r. split; auto.
      apply rules_of_sort_dict. exact Hr.
    - intros l Hin. destruct (V2 l Hin) as [Hn|Hx]; auto. left. apply rules_of_sort_dict. exact Hn. }
  assert (HinL : inL t root).
  { unfold inL. apply in_map_iff. exists (node_rule t). split; [|apply node_rules_self].
    unfold node_rule. simpl. exact Hl. }
  destruct (tree_ex (sort_dict d) Hcs t Hvs (dfs_fuel d) [] root) as ([s t'] & Hin & Hl' & Hsub); auto.
  - split; [constructor|intros x []].
  - unfold mu, dfs_fuel. rewrite keys_sort_dict. unfold keys. rewrite map_length. simpl. lia.
  - simpl in Hl', Hsub. exists t'. split.
    + unfold proof_tree_generator_dfs.
      rewrite (inL_has_key (sort_dict d) t Hvs root HinL).
      apply in_map_iff. exists (s, t'). auto.
    + destruct (dfs_tree_ok _ _ _ _ _ _ Hin) as (_ & [_ A2 _ _ _]). simpl in A2.
      rewrite (size_formula t'), (size_formula t).
      rewrite (arities_filter (node_rules t')), (arities_filter (node_rules t)).
      assert (arities (filter (fun e => negb (is_nil (snd e))) (node_rules t')) <=
              arities (filter (fun e => negb (is_nil (snd e))) (node_rules t))); [|lia].
      apply arities_inject; [exact A2|].
      intros [x cs] He. apply filter_In in He as (He & Hne). simpl in Hne.
      destruct (Hsub x cs He) as (_ & Hex).
      destruct Hex as (cs0 & Hin0 & Hne0 & Hlen); [destruct cs; [discriminate|congruence]|].
      exists (x, cs0). csplit; auto. apply filter_In. split; auto.
      simpl. destruct cs0; [congruence|reflexivity].
Qed.

(* 'smallest' is minimal among ALL valid proof trees of a closed dictionary *)
Theorem smallest_is_minimum pd root runs res :
  closed pd ->
  get_smallest_node pd root runs = Some res ->
  label res = root /\ valid_tree pd res /\
  forall t, label t = root -> valid_tree pd t -> size res <= size t.
Proof.
  intros Hc H. destruct (smallest_node_min _ _ _ _ H) as (A & B & _ & Hmin).
  csplit; auto. intros t Hl Hv.
  destruct (dfs_covers_every_tree pd root t Hc Hl Hv) as (t' & Hin & Hle).
  specialize (Hmin t' Hin). lia.
Qed.

(* what prune returns is closed: every child of a kept rule is a kept key *)
Lemma prune_closed d d' : all_nonempty d -> prune d = Some d' -> closed d'.
Proof.
  intros Hne Hp. destruct (prune_is_gfp d Hne) as (d'' & Hp' & Hk & Hr).
  rewrite Hp in Hp'. inversion Hp'; subst d''.
  intros k r x Hin Hx. apply Hk. apply Hr in Hin. destruct Hin as (_ & _ & Hc). auto.
Qed.

(* the whole recursive path of RuleDBBase._get_smallest_node *)
Theorem ruledb_smallest_is_minimum rep rules root runs pd res :
  pruned_dict rep rules root false = Some pd ->
  get_smallest_node pd (rep root) runs = Some res ->
  label res = rep root /\ valid_tree pd res /\
  forall t, label t = rep root -> valid_tree pd t -> size res <= size t.
Proof.
  unfold pruned_dict. intros Hp. apply smallest_is_minimum.
  eapply prune_closed; [apply quotient_nonempty|exact Hp].
Qed.
