(* rules_up_to_equivalence, pruned_dict, has_specification. *)
From Coq Require Import ZArith List Bool Lia.
From CSS Require Import Base.PyList Tree.Model Tree.Basics Tree.PruneProofs Tree.IterProofs.
Import ListNotations.
Open Scope Z_scope.

Section Quotient.
Variable rep : Z -> Z.

(* the rules that are not skipped as "equivalence rules" *)
Definition kept (start : Z) (ends : rule) : Prop :=
  match ends with [e] => rep start <> rep e | _ => True end.

Definition qstep (rd : rdict) (se : Z * rule) : rdict :=
  let '(start, ends) := se in
  match ends with
  | [e] => if Z.eqb (rep start) (rep e) then rd
           else add_rule rd (rep start) (sortZ (map rep ends))
  | _ => add_rule rd (rep start) (sortZ (map rep ends))
  end.

Lemma rules_up_to_equivalence_fold rules :
  rules_up_to_equivalence rep rules = fold_left qstep rules [].
Proof. reflexivity. Qed.

Lemma qstep_spec rd start ends k r :
  In r (rules_of (qstep rd (start, ends)) k) <->
  In r (rules_of rd k) \/ (kept start ends /\ rep start = k /\ sortZ (map rep ends) = r).
Proof.
  unfold qstep, kept.
  destruct ends as [|e [|e2 ends]].
  - rewrite rules_of_add_rule. intuition congruence.
  - destruct (Z.eqb (rep start) (rep e)) eqn:E.
    + apply Z.eqb_eq in E. intuition congruence.
    + apply Z.eqb_neq in E. rewrite rules_of_add_rule. intuition congruence.
  - rewrite rules_of_add_rule. intuition congruence.
Qed.

Lemma quotient_fold_spec : forall rules acc k r,
  In r (rules_of (fold_left qstep rules acc) k) <->
  In r (rules_of acc k) \/
  exists start ends, In (start, ends) rules /\ kept start ends /\
                     rep start = k /\ sortZ (map rep ends) = r.
Proof.
  induction rules as [|[s e] rules IH]; intros acc k r; cbn [fold_left].
  - split; auto. intros [|(s & e & [] & _)]; auto.
  - rewrite IH, qstep_spec. split.
    + intros [[|H]|(s' & e' & Hin & H)]; auto.
      * right. exists s, e. split; [left; reflexivity|tauto].
      * right. exists s', e'. split; [right; exact Hin|tauto].
    + intros [|(s' & e' & [Heq|Hin] & H)]; auto.
      * inversion Heq; subst. tauto.
      * right. exists s', e'. tauto.
Qed.

Theorem quotient_rules rules k r :
  In r (rules_of (rules_up_to_equivalence rep rules) k) <->
  exists start ends, In (start, ends) rules /\ kept start ends /\
                     rep start = k /\ sortZ (map rep ends) = r.
Proof.
  rewrite rules_up_to_equivalence_fold, quotient_fold_spec. simpl. tauto.
Qed.

Lemma qstep_nonempty rd se : all_nonempty rd -> all_nonempty (qstep rd se).
Proof.
  intros H. destruct se as [s e]. unfold qstep, all_nonempty in *.
  destruct e as [|x [|y ends]]; try (apply add_rule_nonempty; exact H).
  destruct (Z.eqb (rep s) (rep x)); auto. apply add_rule_nonempty; exact H.
Qed.

Lemma quotient_nonempty rules : all_nonempty (rules_up_to_equivalence rep rules).
Proof.
  rewrite rules_up_to_equivalence_fold. apply fold_left_inv.
  - intros k; discriminate.
  - intros s x. apply qstep_nonempty.
Qed.

Theorem has_spec_recursive rules root :
  exists b, has_specification rep rules root false = Some b /\
    (b = true <-> gfp (rules_up_to_equivalence rep rules) (rep root)).
Proof.
  unfold has_specification, pruned_dict.
  destruct (prune_is_gfp _ (quotient_nonempty rules)) as (d' & -> & Hk & _).
  simpl. eexists. split; [reflexivity|]. apply Hk.
Qed.

Theorem has_spec_iterative rules root :
  exists b, has_specification rep rules root true = Some b /\
    (b = true <-> ikey (rules_up_to_equivalence rep rules) (Some (rep root)) (rep root)).
Proof.
  unfold has_specification, pruned_dict.
  destruct (iterative_prune_is_lfp (rules_up_to_equivalence rep rules) (Some (rep root)))
    as (nd & -> & _ & Hk).
  simpl. eexists. split; [reflexivity|]. apply Hk.
Qed.
End Quotient.
