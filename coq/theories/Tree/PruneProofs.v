(* prune computes the greatest fixed point, for every iteration order, and
   terminates within the fuel it is given. *)
From Coq Require Import ZArith List Bool Lia.
From CSS Require Import Base.PyList Tree.Model Tree.Basics.
Import ListNotations.
Open Scope Z_scope.
Arguments prune_rule : simpl never.
Arguments prune_key : simpl never.

(* S supports itself: every member has a rule all of whose children are members *)
Definition postfixed (d : rdict) (S : Z -> Prop) : Prop :=
  forall k, S k -> exists r, In r (rules_of d k) /\ forall x, In x r -> S x.

(* the greatest such S = the union of all of them *)
Definition gfp (d : rdict) (k : Z) : Prop := exists S, postfixed d S /\ S k.

Lemma gfp_postfixed d : postfixed d (gfp d).
Proof.
  intros k (S & HS & Hk). destruct (HS k Hk) as (r & Hr & Hc).
  exists r; split; auto. intros x Hx. exists S; auto.
Qed.

Lemma gfp_greatest d S : postfixed d S -> forall k, S k -> gfp d k.
Proof. intros HS k Hk. exists S; auto. Qed.

Definition all_nonempty (d : rdict) : Prop := forall k, get d k <> Some [].
Definition subdict (d' d : rdict) : Prop := forall k r, In r (rules_of d' k) -> In r (rules_of d k).
Definition Keep (G : Z -> Prop) (d0 d : rdict) : Prop :=
  forall k r, G k -> In r (rules_of d0 k) -> (forall x, In x r -> G x) -> In r (rules_of d k).

Lemma all_nonempty_check d :
  forallb (fun e => negb (is_nil (snd e))) d = true -> all_nonempty d.
Proof.
  induction d as [|[a rs] d IH]; simpl; intros H k; [discriminate|].
  apply andb_true_iff in H as [H1 H2]. simpl. destruct (Z.eqb a k).
  - intros E; inversion E; subst. discriminate H1.
  - apply IH; auto.
Qed.

Section Inv.
Variable d0 : rdict.
Variable G : Z -> Prop.
Hypothesis G_post : postfixed d0 G.

Lemma keep_has_key d x : Keep G d0 d -> G x -> has_key d x = true.
Proof.
  intros HK Hx. destruct (G_post x Hx) as (r & Hr & Hc).
  eapply rules_of_has_key. eapply HK; eauto.
Qed.

Lemma stepA d k r :
  subdict d d0 -> Keep G d0 d -> bad_rule d r = true ->
  subdict (upd d k (remove_rule r)) d0 /\ Keep G d0 (upd d k (remove_rule r)).
Proof.
  intros Hs HK Hb. unfold bad_rule in Hb. apply existsb_exists in Hb as (x & Hx & Hn).
  apply negb_true_iff in Hn. split.
  - intros k' r' H. apply Hs. rewrite rules_of_upd in H.
    destruct (Z.eqb k k') eqn:E; auto. unfold rules_of.
    destruct (get d k'); [|destruct H]. apply remove_rule_In in H. tauto.
  - intros k' r' Hk' Hr' Hc. pose proof (HK k' r' Hk' Hr' Hc) as Hin.
    rewrite rules_of_upd. destruct (Z.eqb k k') eqn:E; auto.
    unfold rules_of in Hin. destruct (get d k'); [|destruct Hin].
    apply remove_rule_In. split; auto. intros ->.
    rewrite (keep_has_key d x HK (Hc x Hx)) in Hn. discriminate.
Qed.

Lemma stepB d k :
  subdict d d0 -> Keep G d0 d -> get d k = Some [] ->
  subdict (del d k) d0 /\ Keep G d0 (del d k).
Proof.
  intros Hs HK Hg. split.
  - intros k' r' H. apply Hs. rewrite rules_of_del in H.
    destruct (Z.eqb k k'); auto. destruct H.
  - intros k' r' Hk' Hr' Hc. pose proof (HK k' r' Hk' Hr' Hc) as Hin.
    rewrite rules_of_del. destruct (Z.eqb k k') eqn:E; auto.
    apply Z.eqb_eq in E; subst k'. unfold rules_of in Hin. rewrite Hg in Hin. destruct Hin.
Qed.

Definition PInv (d : rdict) : Prop := subdict d d0 /\ Keep G d0 d /\ all_nonempty d.

Lemma prune_rule_inv k d ch r : PInv d -> PInv (fst (prune_rule k (d, ch) r)).
Proof.
  intros (Hs & HK & Hne). unfold PInv, prune_rule.
  destruct (bad_rule d r) eqn:Hb.
  - destruct (stepA d k r Hs HK Hb) as (Hs1 & HK1).
    set (d1 := upd d k (remove_rule r)) in *.
    assert (Hother : forall k', k' <> k -> get d1 k' = get d k').
    { intros k' Hk'. unfold d1. rewrite get_upd.
      destruct (Z.eqb k k') eqn:E; auto. apply Z.eqb_eq in E. congruence. }
    destruct (get d1 k) as [[|r1 rs1]|] eqn:Hg; simpl.
    + destruct (stepB d1 k Hs1 HK1 Hg) as (Hs2 & HK2). csplit; auto.
      intros k'. rewrite get_del. destruct (Z.eqb k k') eqn:E; [discriminate|].
      apply Z.eqb_neq in E. rewrite Hother; auto.
    + csplit; auto. intros k'. destruct (Z.eq_dec k' k) as [->|Hk'].
      * rewrite Hg. discriminate.
      * rewrite Hother; auto.
    + csplit; auto. intros k'. destruct (Z.eq_dec k' k) as [->|Hk'].
      * rewrite Hg. discriminate.
      * rewrite Hother; auto.
  - destruct (get d k) as [[|r1 rs1]|] eqn:Hg; simpl; try (csplit; assumption).
    exfalso. exact (Hne k Hg).
Qed.

Lemma prune_key_inv st k : PInv (fst st) -> PInv (fst (prune_key st k)).
Proof.
  intros H. unfold prune_key. apply fold_left_inv; auto.
  intros [d ch] r Hd. apply prune_rule_inv. exact Hd.
Qed.

Lemma prune_pass_inv d : PInv d -> PInv (fst (prune_pass d)).
Proof.
  intros H. unfold prune_pass.
  apply (fold_left_inv (fun st => PInv (fst st))); auto.
  intros st k Hd. apply prune_key_inv. exact Hd.
Qed.
End Inv.

(* ---------------------------------------- what a pass reports and costs *)
Lemma prune_rule_cost k d ch r d' ch' :
  prune_rule k (d, ch) r = (d', ch') ->
  (nrules d' <= nrules d)%nat /\
  (ch = true -> ch' = true) /\
  (In r (rules_of d k) -> ch' = false -> d' = d /\ bad_rule d r = false) /\
  (In r (rules_of d k) -> ch = false -> ch' = true -> (nrules d' < nrules d)%nat).
Proof.
  unfold prune_rule. destruct (bad_rule d r) eqn:Hb.
  - pose proof (nrules_upd_le d k r) as Hle.
    destruct (get (upd d k (remove_rule r)) k) as [[|r1 rs1]|] eqn:Hg;
      intros E; inversion E; subst; clear E; csplit; auto; try discriminate;
      try (intros Hin _ _; pose proof (nrules_upd_lt d k r Hin);
           pose proof (nrules_del_le (upd d k (remove_rule r)) k); lia).
    pose proof (nrules_del_le (upd d k (remove_rule r)) k); lia.
  - destruct (get d k) as [[|r1 rs1]|] eqn:Hg;
      intros E; inversion E; subst; clear E; csplit; auto; try congruence;
      try (intros Hin; unfold rules_of in Hin; rewrite Hg in Hin; destruct Hin).
    apply nrules_del_le.
Qed.

Lemma prune_key_cost k : forall rs d ch d' ch',
  fold_left (prune_rule k) rs (d, ch) = (d', ch') ->
  (nrules d' <= nrules d)%nat /\
  (ch = true -> ch' = true) /\
  (incl rs (rules_of d k) -> ch' = false ->
     d' = d /\ ch = false /\ forall r, In r rs -> bad_rule d r = false) /\
  (incl rs (rules_of d k) -> ch = false -> ch' = true -> (nrules d' < nrules d)%nat).
Proof.
  induction rs as [|r rs IH]; intros d ch d' ch' E; simpl in E.
  - inversion E; subst. csplit; auto; try lia.
    + intros _ ->. csplit; auto. intros r [].
    + intros _ -> H; discriminate.
  - destruct (prune_rule k (d, ch) r) as [d1 ch1] eqn:E1.
    destruct (prune_rule_cost _ _ _ _ _ _ E1) as (A1 & A2 & A3 & A4).
    destruct (IH _ _ _ _ E) as (B1 & B2 & B3 & B4).
    csplit; auto; try lia.
    + intros Hi Hf. assert (Hr : In r (rules_of d k)) by (apply Hi; left; auto).
      destruct ch1 eqn:Ech1.
      * specialize (B2 eq_refl). congruence.
      * destruct (A3 Hr eq_refl) as (-> & Hb).
        assert (Hi' : incl rs (rules_of d k)) by (intros x Hx; apply Hi; right; auto).
        destruct (B3 Hi' Hf) as (-> & _ & Hall).
        csplit; auto.
        { destruct ch; auto. specialize (A2 eq_refl). discriminate. }
        intros r' [->|Hr']; auto.
    + intros Hi Hc Ht. assert (Hr : In r (rules_of d k)) by (apply Hi; left; auto).
      destruct ch1 eqn:Ech1.
      * specialize (A4 Hr Hc eq_refl). lia.
      * destruct (A3 Hr eq_refl) as (-> & Hb).
        assert (Hi' : incl rs (rules_of d k)) by (intros x Hx; apply Hi; right; auto).
        exact (B4 Hi' eq_refl Ht).
Qed.

Lemma prune_pass_cost : forall ks d ch d' ch',
  fold_left prune_key ks (d, ch) = (d', ch') ->
  (nrules d' <= nrules d)%nat /\
  (ch = true -> ch' = true) /\
  (ch' = false -> d' = d /\ ch = false /\
     forall k r, In k ks -> In r (rules_of d k) -> bad_rule d r = false) /\
  (ch = false -> ch' = true -> (nrules d' < nrules d)%nat).
Proof.
  induction ks as [|k ks IH]; intros d ch d' ch' E; simpl in E.
  - inversion E; subst. csplit; auto; try lia.
    + intros ->. csplit; auto. intros k r [].
    + intros -> H; discriminate.
  - destruct (prune_key (d, ch) k) as [d1 ch1] eqn:E1.
    unfold prune_key in E1. simpl fst in E1.
    destruct (prune_key_cost _ _ _ _ _ _ E1) as (A1 & A2 & A3 & A4).
    destruct (IH _ _ _ _ E) as (B1 & B2 & B3 & B4).
    csplit; auto; try lia.
    + intros Hf. destruct (B3 Hf) as (-> & -> & Hall).
      destruct (A3 (incl_refl _) eq_refl) as (-> & -> & Hk).
      csplit; auto. intros k' r [->|Hk'] Hr; eauto.
    + intros Hc Ht. destruct ch1.
      * specialize (A4 (incl_refl _) Hc eq_refl). lia.
      * destruct (A3 (incl_refl _) eq_refl) as (-> & _ & _). exact (B4 eq_refl Ht).
Qed.

Definition stable (d : rdict) : Prop :=
  forall k r, In r (rules_of d k) -> forall x, In x r -> has_key d x = true.

Lemma pass_false_stable d d' : prune_pass d = (d', false) -> d' = d /\ stable d.
Proof.
  intros E. unfold prune_pass in E.
  destruct (prune_pass_cost _ _ _ _ _ E) as (_ & _ & H & _).
  destruct (H eq_refl) as (-> & _ & Hall). split; auto.
  intros k r Hr x Hx.
  assert (Hk : In k (keys d)) by (apply has_key_keys; eapply rules_of_has_key; eauto).
  specialize (Hall k r Hk Hr). unfold bad_rule in Hall.
  destruct (has_key d x) eqn:Ex; auto.
  assert (existsb (fun x => negb (has_key d x)) r = true); [|congruence].
  apply existsb_exists. exists x. rewrite Ex. auto.
Qed.

Lemma pass_true_lt d d' : prune_pass d = (d', true) -> (nrules d' < nrules d)%nat.
Proof.
  intros E. unfold prune_pass in E.
  destruct (prune_pass_cost _ _ _ _ _ E) as (_ & _ & _ & H). auto.
Qed.

Lemma prune_loop_ok d0 G (HG : postfixed d0 G) : forall fuel d,
  PInv d0 G d -> (nrules d < fuel)%nat ->
  exists d', prune_loop fuel d = Some d' /\ PInv d0 G d' /\ stable d'.
Proof.
  induction fuel as [|f IH]; intros d Hd Hlt; [lia|]. simpl.
  destruct (prune_pass d) as [d1 ch] eqn:E.
  pose proof (prune_pass_inv d0 G HG d Hd) as Hd1. rewrite E in Hd1. simpl in Hd1.
  destruct ch.
  - apply pass_true_lt in E. apply IH; auto. lia.
  - apply pass_false_stable in E as (-> & Hst). exists d. auto.
Qed.

(* ------------------------------------------------------------ the theorem *)
Theorem prune_is_gfp d :
  all_nonempty d ->
  exists d', prune d = Some d' /\
    (forall k, has_key d' k = true <-> gfp d k) /\
    (forall k r, In r (rules_of d' k) <->
                 In r (rules_of d k) /\ gfp d k /\ forall x, In x r -> gfp d x).
Proof.
  intros Hne.
  assert (Hinit : PInv d (gfp d) d).
  { unfold PInv; csplit; auto. intros k r H; exact H. intros k r _ H _; exact H. }
  destruct (prune_loop_ok d (gfp d) (gfp_postfixed d) (S (nrules d)) d Hinit)
    as (d' & Hp & (Hs & HK & Hne') & Hst); [lia|].
  exists d'. split; [exact Hp|].
  assert (Hkeys : forall k, has_key d' k = true -> gfp d k).
  { apply gfp_greatest. intros k Hk. unfold has_key in Hk.
    destruct (get d' k) as [[|r rs]|] eqn:Hg; try discriminate.
    - exfalso. exact (Hne' k Hg).
    - assert (Hr : In r (rules_of d' k)) by (unfold rules_of; rewrite Hg; left; auto).
      exists r. split; [apply Hs; exact Hr|]. intros x Hx. eapply Hst; eauto. }
  split.
  - intros k. split; auto. intros Hk. eapply keep_has_key; eauto. apply gfp_postfixed.
  - intros k r. split.
    + intros Hr. csplit.
      * apply Hs; exact Hr.
      * apply Hkeys. eapply rules_of_has_key; eauto.
      * intros x Hx. apply Hkeys. eapply Hst; eauto.
    + intros (Hr & Hk & Hc). apply HK; auto.
Qed.

(* prune never runs out of the fuel it is given, whatever the dictionary *)
Theorem prune_terminates d : prune d <> None.
Proof.
  unfold prune.
  assert (H : forall fuel d, (nrules d < fuel)%nat -> prune_loop fuel d <> None).
  { clear. induction fuel as [|f IH]; intros d Hlt; [lia|]. simpl.
    destruct (prune_pass d) as [d1 ch] eqn:E. destruct ch; [|discriminate].
    apply pass_true_lt in E. apply IH. lia. }
  apply H. lia.
Qed.
