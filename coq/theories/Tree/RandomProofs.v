(* random_proof_tree / smallish_random_proof_tree: for EVERY oracle (sequence of
   answers of random.choice and random.shuffle) the tree built is a valid proof
   tree in which every label is expanded at most once. *)
From Coq Require Import ZArith List Bool Lia Permutation.
From CSS Require Import Base.PyList Tree.Model Tree.Basics Tree.Valid.
Import ListNotations.
Open Scope Z_scope.

Lemma remove_one_perm x l l' : remove_one x l = Some l' -> Permutation l (x :: l').
Proof.
  revert l'; induction l as [|y l IH]; intros l' H; simpl in H; [discriminate|].
  destruct (Z.eqb x y) eqn:E.
  - apply Z.eqb_eq in E; subst. inversion H; subst. apply Permutation_refl.
  - destruct (remove_one x l) as [t|]; [|discriminate]. inversion H; subst.
    eapply perm_trans; [apply perm_skip; apply IH; reflexivity|apply perm_swap].
Qed.

Lemma is_perm_spec a b : is_perm a b = true -> Permutation a b.
Proof.
  revert b; induction a as [|x a IH]; intros b H; simpl in H.
  - destruct b; [constructor|discriminate].
  - destruct (remove_one x b) as [b'|] eqn:E; [|discriminate].
    apply remove_one_perm in E. apply IH in H.
    eapply perm_trans; [apply perm_skip; exact H|apply Permutation_sym; exact E].
Qed.

Lemma NoDup_app' {A} (a b : list A) :
  NoDup a -> NoDup b -> (forall x, In x a -> ~ In x b) -> NoDup (a ++ b).
Proof.
  induction a as [|x a IH]; simpl; auto. intros Ha Hb Hd. inversion Ha; subst.
  constructor.
  - rewrite in_app_iff. intros [H|H]; auto. apply (Hd x); auto.
  - apply IH; auto.
Qed.

Lemma expansions_perm R R' : Permutation R R' -> Permutation (expansions R) (expansions R').
Proof.
  unfold expansions. intros H. apply Permutation_map.
  induction H; simpl; auto.
  - destruct (negb (is_nil (snd x))); auto.
  - destruct (negb (is_nil (snd x))), (negb (is_nil (snd y))); auto. apply perm_swap.
  - eapply perm_trans; eauto.
Qed.

Lemma expanded_mono R R' l : (forall e, In e R -> In e R') -> expanded R l -> expanded R' l.
Proof. intros H (cs & Hne & Hin). exists cs; auto. Qed.

(* ------------------------------------------------------------ the bfs loop *)
Record BfsOK (d : rdict) (seen : list Z) (D : list (Z * list Z)) : Prop := {
  B_rule : forall l sh, In (l, sh) D -> sh <> [] ->
             exists r, In r (rules_of d l) /\ Permutation r sh;
  B_nodup : NoDup (expansions D);
  B_fresh : forall l, In l (expansions D) -> ~ In l seen;
  B_leaf : forall l, In (l, []) D -> In l seen \/ In [] (rules_of d l) \/ expanded D l
}.

Lemma bfs_ok d : forall cs queue seen D, bfs d cs queue seen = Some D -> BfsOK d seen D.
Proof.
  induction cs as [|[r sh] cs IH]; intros queue seen D H.
  - destruct queue; simpl in H; [|discriminate]. inversion H; subst.
    constructor; simpl; try tauto. constructor.
  - destruct queue as [|v q]; simpl in H.
    { inversion H; subst. constructor; simpl; try tauto. constructor. }
    destruct (mem_rule r (rules_of d v)) eqn:Hm; [|discriminate].
    apply mem_rule_spec in Hm.
    destruct (memZ v seen || is_nil r) eqn:Hleaf.
    + destruct (bfs d cs q (set_add v seen)) as [D'|] eqn:E; [|discriminate].
      inversion H; subst D. clear H. destruct (IH _ _ _ E) as [A1 A2 A3 A4].
      assert (Hv : In v seen \/ In [] (rules_of d v)).
      { apply orb_true_iff in Hleaf as [Hs|Hn]; [left; apply memZ_spec; auto|].
        right. destruct r; [exact Hm|discriminate]. }
      constructor.
      * intros l sh' [Heq|Hin] Hne; [inversion Heq; subst; congruence|eauto].
      * exact A2.
      * intros l Hl Hs. apply (A3 l Hl). apply set_add_In. auto.
      * intros l [Heq|Hin].
        -- inversion Heq; subst l. destruct Hv; auto.
        -- destruct (A4 l Hin) as [Hs|[Hn|Hx]]; auto.
           ++ apply set_add_In in Hs as [->|Hs]; auto. destruct Hv; auto.
           ++ right; right. eapply expanded_mono; [|exact Hx]. intros e He; right; auto.
    + apply orb_false_iff in Hleaf as [Hs Hn].
      destruct (is_perm r sh) eqn:Hp; [|discriminate]. apply is_perm_spec in Hp.
      destruct (bfs d cs (q ++ sh) (set_add v seen)) as [D'|] eqn:E; [|discriminate].
      inversion H; subst D. clear H. destruct (IH _ _ _ E) as [A1 A2 A3 A4].
      assert (Hsh : sh <> []).
      { intros ->. apply Permutation_sym, Permutation_nil in Hp. subst r. discriminate. }
      assert (Hexp : expansions ((v, sh) :: D') = v :: expansions D').
      { unfold expansions. simpl. destruct sh; [congruence|reflexivity]. }
      assert (Hvexp : expanded ((v, sh) :: D') v) by (exists sh; split; auto; left; auto).
      constructor.
      * intros l sh' [Heq|Hin] Hne; [inversion Heq; subst; eauto|eauto].
      * rewrite Hexp. constructor; auto. intros Hin. apply (A3 v Hin). apply set_add_In; auto.
      * rewrite Hexp. intros l [<-|Hl] Hin.
        -- apply memZ_false in Hs. auto.
        -- apply (A3 l Hl). apply set_add_In; auto.
      * intros l [Heq|Hin]; [inversion Heq; subst; congruence|].
        destruct (A4 l Hin) as [Hs'|[Hn'|Hx]]; auto.
        -- apply set_add_In in Hs' as [->|Hs']; auto.
        -- right; right. eapply expanded_mono; [|exact Hx]. intros e He; right; auto.
Qed.

(* ------------------------------------------------- the tree that is built *)
Definition forest_rules (Q : list tree) : list (Z * list Z) := flat_map node_rules Q.

Lemma map_node_rule_flat Q : map node_rule (flat_map nodes Q) = forest_rules Q.
Proof.
  unfold forest_rules. induction Q as [|t Q IH]; simpl; auto.
  rewrite map_app, IH. reflexivity.
Qed.

Lemma node_rules_Node l cs : node_rules (Node l cs) = (l, map label cs) :: forest_rules cs.
Proof. unfold node_rules. simpl. rewrite map_node_rule_flat. reflexivity. Qed.

Lemma forest_rules_app a b : forest_rules (a ++ b) = forest_rules a ++ forest_rules b.
Proof. unfold forest_rules. apply flat_map_app. Qed.

Lemma unbfs_spec d : forall cs queue seen D,
  bfs d cs queue seen = Some D ->
  map label (unbfs D) = queue /\ Permutation (forest_rules (unbfs D)) D.
Proof.
  induction cs as [|[r sh] cs IH]; intros queue seen D H.
  - destruct queue; simpl in H; [|discriminate]. inversion H; subst. simpl. auto.
  - destruct queue as [|v q]; simpl in H.
    { inversion H; subst. simpl. auto. }
    destruct (mem_rule r (rules_of d v)); [|discriminate].
    destruct (memZ v seen || is_nil r).
    + destruct (bfs d cs q (set_add v seen)) as [D'|] eqn:E; [|discriminate].
      inversion H; subst D. clear H. destruct (IH _ _ _ E) as (L & P).
      simpl unbfs. unfold unbfs_step. simpl fst. simpl snd. simpl length.
      rewrite Nat.sub_0_r, skipn_all, firstn_all. split.
      * simpl. rewrite L. reflexivity.
      * change (forest_rules (Node v [] :: unbfs D')) with
          (node_rules (Node v []) ++ forest_rules (unbfs D')).
        rewrite node_rules_Node. simpl. constructor. exact P.
    + destruct (is_perm r sh); [|discriminate].
      destruct (bfs d cs (q ++ sh) (set_add v seen)) as [D'|] eqn:E; [|discriminate].
      inversion H; subst D. clear H. destruct (IH _ _ _ E) as (L & P).
      simpl unbfs. unfold unbfs_step. simpl fst. simpl snd.
      set (Q := unbfs D') in *.
      assert (Hlen : length Q = (length q + length sh)%nat).
      { rewrite <- (map_length label), L, app_length. reflexivity. }
      replace (length Q - length sh)%nat with (length q) by lia.
      assert (L1 : map label (firstn (length q) Q) = q).
      { rewrite <- firstn_map, L, firstn_app, Nat.sub_diag, firstn_all. simpl.
        rewrite app_nil_r. reflexivity. }
      assert (L2 : map label (skipn (length q) Q) = sh).
      { rewrite <- skipn_map, L, skipn_app, Nat.sub_diag, skipn_all. simpl. reflexivity. }
      split.
      * simpl. rewrite L1. reflexivity.
      * change (forest_rules (Node v (skipn (length q) Q) :: firstn (length q) Q)) with
          (node_rules (Node v (skipn (length q) Q)) ++ forest_rules (firstn (length q) Q)).
        rewrite node_rules_Node, L2. simpl. constructor.
        eapply perm_trans; [apply Permutation_app_comm|].
        rewrite <- forest_rules_app, firstn_skipn. exact P.
Qed.

Theorem random_tree_valid d root cs t :
  random_proof_tree d root cs = Some t ->
  label t = root /\ valid_tree d t /\ NoDup (expansions (node_rules t)).
Proof.
  unfold random_proof_tree. destruct (bfs d cs [root] []) as [D|] eqn:E; [|discriminate].
  destruct (unbfs D) as [|t' [|]] eqn:EQ; try discriminate. intros H; inversion H; subst t'.
  destruct (unbfs_spec _ _ _ _ _ E) as (L & P). rewrite EQ in *.
  simpl in L. inversion L. unfold forest_rules in P. simpl in P. rewrite app_nil_r in P.
  destruct (bfs_ok _ _ _ _ _ E) as [A1 A2 A3 A4].
  split; auto. split.
  - apply valid_rules_perm with (R := D); [apply Permutation_sym; exact P|].
    unfold valid_rules. csplit; auto.
    + intros l Hl. destruct (A4 l Hl) as [[]|[|]]; auto.
    + intros l c c'. apply NoDup_expansions_unique. exact A2.
  - eapply Permutation_NoDup; [apply expansions_perm, Permutation_sym; exact P|exact A2].
Qed.

Lemma smallish_loop_one d root : forall runs best t,
  smallish_loop d root runs best = Some t ->
  t = best \/ exists r, In r runs /\ random_proof_tree d root r = Some t.
Proof.
  induction runs as [|r runs IH]; intros best t H; simpl in H.
  - inversion H; auto.
  - destruct (random_proof_tree d root r) as [t1|] eqn:E; [|discriminate].
    apply IH in H. destruct H as [->|(r' & Hr' & H)].
    + destruct (size t1 <? size best); auto. right. exists r. split; auto. left; auto.
    + right. exists r'. split; auto. right; auto.
Qed.

Theorem smallish_tree_valid d root runs t :
  smallish_random_proof_tree d root runs = Some t ->
  label t = root /\ valid_tree d t /\ NoDup (expansions (node_rules t)).
Proof.
  unfold smallish_random_proof_tree. destruct runs as [|r runs]; [discriminate|].
  destruct (random_proof_tree d root r) as [t1|] eqn:E; [|discriminate].
  intros H. apply smallish_loop_one in H as [->|(r' & _ & H)];
    eapply random_tree_valid; eauto.
Qed.
