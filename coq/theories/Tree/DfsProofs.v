(* proof_tree_generator_dfs: every tree it yields is a valid proof tree with
   each label expanded at most once; with maximum = m it yields exactly the
   trees of the unbounded generator of size <= m, in the same order; the binary
   search of _get_smallest_node returns a tree at most as large as every tree of
   the unbounded generator. *)
From Coq Require Import ZArith List Bool Lia Permutation.
From CSS Require Import Base.PyList Tree.Model Tree.Basics Tree.Valid Tree.RandomProofs.
Import ListNotations.
Open Scope Z_scope.

Definition labels_of (R : list (Z * list Z)) : list Z := map fst R.

Record DfsOK (d : rdict) (seen : list Z) (R : list (Z * list Z)) (seen' : list Z) : Prop := {
  D_rule : forall l cs, In (l, cs) R -> cs <> [] -> In cs (rules_of d l);
  D_nodup : NoDup (expansions R);
  D_fresh : forall l, In l (expansions R) -> ~ In l seen;
  D_res : forall l, In l (labels_of R) -> In l seen \/ In [] (rules_of d l) \/ expanded R l;
  D_seen : forall x, In x seen' <-> In x seen \/ In x (labels_of R)
}.

Lemma expanded_labels R l : expanded R l -> In l (labels_of R).
Proof. intros (cs & _ & H). unfold labels_of. apply in_map_iff. exists (l, cs); auto. Qed.

Lemma sizes_ge ts : Z.of_nat (length ts) <= zsum (map size ts).
Proof.
  induction ts as [|t ts IH]; simpl map; simpl length; [unfold zsum; simpl; lia|].
  rewrite zsum_cons. pose proof (size_pos t). lia.
Qed.

Section Forest.
Variable d : rdict.
Variable tree_fn : list Z -> option Z -> Z -> list (list Z * tree).
Hypothesis tree_ok : forall seen m l st, In st (tree_fn seen m l) ->
  label (snd st) = l /\ DfsOK d seen (node_rules (snd st)) (fst st).

Lemma forest_ok : forall roots seen m sts, In sts (dfs_forest tree_fn roots seen m) ->
  map label (snd sts) = roots /\ DfsOK d seen (forest_rules (snd sts)) (fst sts).
Proof.
  induction roots as [|r rs IH]; intros seen m sts H; simpl in H.
  - destruct (max_le0 m); [destruct H|]. destruct H as [<-|[]]. simpl. split; auto.
    constructor; simpl; try tauto. constructor.
  - destruct (max_le0 m); [destruct H|].
    apply in_flat_map in H as ([seen1 t] & Ht & H).
    apply in_flat_map in H as ([seen2 ts] & Hts & H).
    destruct (below m (size t + zsum (map size ts))); [|destruct H].
    destruct H as [<-|[]]. simpl.
    destruct (tree_ok _ _ _ _ Ht) as (Hl & [A1 A2 A3 A4 A5]). simpl in *.
    destruct (IH _ _ _ Hts) as (Hls & [B1 B2 B3 B4 B5]). simpl in *.
    split; [congruence|].
    change (forest_rules (t :: ts)) with (node_rules t ++ forest_rules ts).
    constructor.
    + intros l cs Hin. apply in_app_iff in Hin as [Hin|Hin]; eauto.
    + rewrite expansions_app. apply NoDup_app'; auto.
      intros x Hx Hx'. apply (B3 x Hx'). apply A5. right.
      apply expanded_labels. apply expansions_In. exact Hx.
    + intros l Hl'. rewrite expansions_app in Hl'. apply in_app_iff in Hl' as [Hl'|Hl']; auto.
      intros Hs. apply (B3 l Hl'). apply A5. auto.
    + intros l Hl'. unfold labels_of in Hl'. rewrite map_app in Hl'.
      assert (Hfrom1 : In l (labels_of (node_rules t)) ->
                In l seen \/ In [] (rules_of d l) \/ expanded (node_rules t ++ forest_rules ts) l).
      { intros Hin. destruct (A4 l Hin) as [|[|Hx]]; auto. right; right.
        eapply expanded_mono; [|exact Hx]. intros e He. apply in_app_iff; auto. }
      apply in_app_iff in Hl' as [Hl'|Hl']; auto.
      destruct (B4 l Hl') as [Hs|[|Hx]]; auto.
      * apply A5 in Hs as [|Hs]; auto.
      * right; right. eapply expanded_mono; [|exact Hx]. intros e He. apply in_app_iff; auto.
    + intros x. rewrite set_union_In, A5, B5, A5. unfold labels_of. rewrite map_app, in_app_iff.
      tauto.
Qed.
End Forest.

Lemma dfs_tree_ok d : forall fuel seen m l st, In st (dfs_tree d fuel seen m l) ->
  label (snd st) = l /\ DfsOK d seen (node_rules (snd st)) (fst st).
Proof.
  induction fuel as [|f IH]; intros seen m l st H; simpl in H; [destruct H|].
  destruct (max_le0 m); [destruct H|].
  destruct (memZ l seen) eqn:Hs.
  - destruct H as [<-|[]]. simpl. split; auto. apply memZ_spec in Hs.
    constructor; simpl; try tauto.
    + intros l' cs [E|[]] Hne. inversion E; subst; congruence.
    + constructor.
    + intros l' [<-|[]]; auto.
    + intros x. split; auto. intros [|[<-|[]]]; auto.
  - apply memZ_false in Hs.
    apply in_flat_map in H as (r & Hr & H).
    destruct r as [|c r]; [simpl in H|cbn [is_nil] in H].
    + destruct H as [<-|[]]. simpl. split; auto.
      constructor; simpl; try tauto.
      * intros l' cs [E|[]] Hne. inversion E; subst; congruence.
      * constructor.
      * intros l' [<-|[]]; auto.
      * intros x. rewrite set_add_In. split; [intros [->|]; auto|intros [|[->|[]]]; auto].
    + apply in_map_iff in H as ([s kids] & <- & H). simpl.
      destruct (forest_ok d (dfs_tree d f) (IH) _ _ _ _ H) as (Hls & [B1 B2 B3 B4 B5]).
      simpl in *. split; auto. rewrite node_rules_Node, Hls.
      assert (Hexp : expansions ((l, c :: r) :: forest_rules kids) = l :: expansions (forest_rules kids))
        by reflexivity.
      assert (Hlexp : expanded ((l, c :: r) :: forest_rules kids) l)
        by (exists (c :: r); split; [discriminate|left; auto]).
      constructor.
      * intros l' cs [E|Hin] Hne; [inversion E; subst; auto|eauto].
      * rewrite Hexp. constructor; auto. intros Hin. apply (B3 l Hin). apply set_add_In; auto.
      * rewrite Hexp. intros l' [<-|Hl'] Hin; auto. apply (B3 l' Hl'). apply set_add_In; auto.
      * intros l' [<-|Hl']; auto. destruct (B4 l' Hl') as [Hin|[|Hx]]; auto.
        -- apply set_add_In in Hin as [->|]; auto.
        -- right; right. eapply expanded_mono; [|exact Hx]. intros e He; right; auto.
      * intros x. rewrite B5, set_add_In. simpl. split; [intros [[|]|]; auto|intros [|[|]]; auto].
Qed.

Theorem dfs_generator_valid d root m t :
  In t (proof_tree_generator_dfs d root m) ->
  label t = root /\ valid_tree d t /\ NoDup (expansions (node_rules t)).
Proof.
  unfold proof_tree_generator_dfs. destruct (has_key (sort_dict d) root); [|intros []].
  intros H. apply in_map_iff in H as ([s t'] & <- & H). simpl.
  destruct (dfs_tree_ok _ _ _ _ _ _ H) as (Hl & [A1 A2 A3 A4 A5]). simpl in *.
  split; auto. split; auto.
  unfold valid_tree, valid_rules. csplit.
  - intros l cs Hin Hne. exists cs. split; auto. apply rules_of_sort_dict. eauto.
  - intros l Hin. assert (Hl' : In l (labels_of (node_rules t'))).
    { unfold labels_of. apply in_map_iff. exists (l, []); auto. }
    destruct (A4 l Hl') as [[]|[Hn|Hx]]; auto. left. apply rules_of_sort_dict. exact Hn.
  - intros l c c'. apply NoDup_expansions_unique. exact A2.
Qed.

(* ------------------------------------------------------------ the bound *)
Lemma forest_bound tree_fn roots seen v sts :
  In sts (dfs_forest tree_fn roots seen (Some v)) -> zsum (map size (snd sts)) < v.
Proof.
  destruct roots as [|r rs]; simpl; intros H.
  - destruct (v <=? 0) eqn:E; [destruct H|]. destruct H as [<-|[]]. simpl.
    apply Z.leb_gt in E. unfold zsum; simpl. lia.
  - destruct (v <=? 0); [destruct H|].
    apply in_flat_map in H as ([seen1 t] & Ht & H).
    apply in_flat_map in H as ([seen2 ts] & Hts & H).
    destruct (size t + zsum (map size ts) <? v) eqn:E; [|destruct H].
    destruct H as [<-|[]]. simpl map. rewrite zsum_cons. apply Z.ltb_lt in E. exact E.
Qed.

Lemma dfs_tree_bound d fuel seen v l st :
  In st (dfs_tree d fuel seen (Some v) l) -> size (snd st) <= v.
Proof.
  destruct fuel as [|f]; simpl; [intros []|].
  destruct (v <=? 0) eqn:E; [intros []|]. apply Z.leb_gt in E.
  destruct (memZ l seen).
  - intros [<-|[]]. simpl. unfold zsum; simpl. lia.
  - intros H. apply in_flat_map in H as (r & Hr & H).
    destruct r as [|c r]; [simpl in H|cbn [is_nil] in H].
    + destruct H as [<-|[]]. simpl. unfold zsum; simpl. lia.
    + apply in_map_iff in H as (sk & <- & H). apply forest_bound in H.
      simpl snd. rewrite size_Node. lia.
Qed.

Theorem dfs_bounded_sound d root v t :
  In t (proof_tree_generator_dfs d root (Some v)) -> size t <= v.
Proof.
  unfold proof_tree_generator_dfs. destruct (has_key (sort_dict d) root); [|intros []].
  intros H. apply in_map_iff in H as (st & <- & H). eapply dfs_tree_bound; eauto.
Qed.

(* ---------------------------------------- bounded = unbounded, filtered *)
Lemma filter_flat_map {A B} (p : B -> bool) (f : A -> list B) l :
  filter p (flat_map f l) = flat_map (fun x => filter p (f x)) l.
Proof. induction l; simpl; auto. rewrite filter_app, IHl. reflexivity. Qed.

Lemma flat_map_filter {A B} (q : A -> bool) (f : A -> list B) l :
  flat_map f (filter q l) = flat_map (fun x => if q x then f x else []) l.
Proof. induction l as [|a l IH]; simpl; auto. destruct (q a); simpl; rewrite IH; auto. Qed.

Lemma flat_map_ext_in' {A B} (f g : A -> list B) l :
  (forall x, In x l -> f x = g x) -> flat_map f l = flat_map g l.
Proof.
  induction l as [|a l IH]; simpl; auto. intros H. rewrite H, IH; auto.
Qed.

Lemma flat_map_nil {A B} (f : A -> list B) l :
  (forall x, In x l -> f x = []) -> flat_map f l = [].
Proof. induction l as [|a l IH]; simpl; auto. intros H. rewrite H, IH; auto. Qed.

Lemma filter_map_swap {A B} (p : B -> bool) (g : A -> B) l :
  filter p (map g l) = map g (filter (fun x => p (g x)) l).
Proof. induction l as [|a l IH]; simpl; auto. destruct (p (g a)); simpl; rewrite IH; auto. Qed.

Lemma filter_ext_in' {A} (p q : A -> bool) l :
  (forall x, In x l -> p x = q x) -> filter p l = filter q l.
Proof.
  induction l as [|a l IH]; simpl; auto. intros H. rewrite H, IH; auto.
Qed.

Lemma forest_length tree_fn : forall roots seen m sts,
  In sts (dfs_forest tree_fn roots seen m) -> length (snd sts) = length roots.
Proof.
  induction roots as [|r rs IH]; intros seen m sts H; simpl in H.
  - destruct (max_le0 m); [destruct H|]. destruct H as [<-|[]]. reflexivity.
  - destruct (max_le0 m); [destruct H|].
    apply in_flat_map in H as ([seen1 t] & Ht & H).
    apply in_flat_map in H as ([seen2 ts] & Hts & H).
    destruct (below m (size t + zsum (map size ts))); [|destruct H].
    destruct H as [<-|[]]. simpl. f_equal. apply (IH _ _ _ Hts).
Qed.

Definition tfits (v : Z) (st : list Z * tree) : bool := size (snd st) <=? v.
Definition ffits (v : Z) (sts : list Z * list tree) : bool := zsum (map size (snd sts)) <? v.

Section ForestFilter.
Variable tree_fn : list Z -> option Z -> Z -> list (list Z * tree).
Hypothesis tree_filter : forall seen v l,
  tree_fn seen (Some v) l = filter (tfits v) (tree_fn seen None l).

Lemma forest_filter : forall roots seen v,
  dfs_forest tree_fn roots seen (Some v) = filter (ffits v) (dfs_forest tree_fn roots seen None).
Proof.
  induction roots as [|r rs IH]; intros seen v.
  - simpl. unfold ffits. simpl. unfold zsum. simpl.
    destruct (v <=? 0) eqn:E1; destruct (0 <? v) eqn:E2; auto;
      [apply Z.leb_le in E1; apply Z.ltb_lt in E2; lia
      |apply Z.leb_gt in E1; apply Z.ltb_ge in E2; lia].
  - simpl dfs_forest. simpl max_le0. cbv beta.
    rewrite filter_flat_map.
    destruct (v <=? 0) eqn:E1.
    + apply Z.leb_le in E1. symmetry. apply flat_map_nil. intros [seen1 t] Ht.
      rewrite filter_flat_map. apply flat_map_nil. intros [seen2 ts] Hts. simpl.
      unfold ffits. simpl map. rewrite zsum_cons.
      pose proof (size_pos t). pose proof (sizes_ge ts).
      destruct (size t + zsum (map size ts) <? v) eqn:E; auto. apply Z.ltb_lt in E. lia.
    + apply Z.leb_gt in E1. simpl option_map. rewrite tree_filter, flat_map_filter.
      apply flat_map_ext_in'. intros [seen1 t] Ht.
      rewrite filter_flat_map. simpl option_map. rewrite IH, flat_map_filter.
      unfold tfits. simpl snd.
      destruct (size t <=? v - zlen (r :: rs) + 1) eqn:E2.
      * apply flat_map_ext_in'. intros [seen2 ts] Hts. unfold ffits at 1. simpl snd.
        simpl below.
        destruct (size t + zsum (map size ts) <? v) eqn:E3.
        -- assert (zsum (map size ts) <? v - size t = true) as -> by (apply Z.ltb_lt; apply Z.ltb_lt in E3; lia).
           simpl. unfold ffits. simpl map. rewrite zsum_cons, E3. reflexivity.
        -- simpl filter. unfold ffits at 1. simpl map. rewrite zsum_cons, E3.
           destruct (zsum (map size ts) <? v - size t); reflexivity.
      * symmetry. apply flat_map_nil. intros [seen2 ts] Hts. simpl.
        unfold ffits. simpl map. rewrite zsum_cons.
        destruct (size t + zsum (map size ts) <? v) eqn:E3; auto.
        apply Z.ltb_lt in E3. apply Z.leb_gt in E2.
        apply forest_length in Hts. simpl in Hts.
        pose proof (sizes_ge ts). unfold zlen in E2. simpl length in E2. lia.
Qed.
End ForestFilter.

Lemma dfs_tree_filter d : forall fuel seen v l,
  dfs_tree d fuel seen (Some v) l = filter (tfits v) (dfs_tree d fuel seen None l).
Proof.
  induction fuel as [|f IH]; intros seen v l; simpl; auto.
  destruct (v <=? 0) eqn:E1.
  - apply Z.leb_le in E1. symmetry.
    assert (Hnone : forall l0 : list (list Z * tree), filter (tfits v) l0 = []).
    { intros l0. induction l0 as [|a l0 IHl]; simpl; auto. unfold tfits at 1.
      pose proof (size_pos (snd a)). destruct (size (snd a) <=? v) eqn:E; auto.
      apply Z.leb_le in E. lia. }
    apply Hnone.
  - apply Z.leb_gt in E1.
    assert (Hleaf : forall s, filter (tfits v) [(s, Node l [])] = [(s, Node l [])]).
    { intros s. simpl. unfold tfits. simpl. unfold zsum. simpl.
      destruct (1 <=? v) eqn:E; auto. apply Z.leb_gt in E. lia. }
    destruct (memZ l seen); [symmetry; apply Hleaf|].
    rewrite filter_flat_map. apply flat_map_ext_in'. intros r Hr.
    destruct r as [|c r]; simpl is_nil; cbv iota; [symmetry; apply Hleaf|].
    rewrite (forest_filter (dfs_tree d f) IH), filter_map_swap. f_equal.
    apply filter_ext_in'. intros [s kids] _. unfold ffits, tfits. simpl snd.
    rewrite size_Node.
    destruct (zsum (map size kids) <? v) eqn:A; destruct (1 + zsum (map size kids) <=? v) eqn:B; auto;
      [apply Z.ltb_lt in A; apply Z.leb_gt in B; lia|apply Z.ltb_ge in A; apply Z.leb_le in B; lia].
Qed.

Theorem dfs_bounded_is_filter d root v :
  proof_tree_generator_dfs d root (Some v) =
  filter (fun t => size t <=? v) (proof_tree_generator_dfs d root None).
Proof.
  unfold proof_tree_generator_dfs. destruct (has_key (sort_dict d) root); auto.
  rewrite dfs_tree_filter, filter_map_swap. reflexivity.
Qed.

(* ------------------------------------------------------------ binary search *)
Section Bsearch.
Variable all : list tree.
Variable gen : Z -> list tree.
Hypothesis gen_filter : forall m, gen m = filter (fun t => size t <=? m) all.

Lemma bsearch_min : forall fuel minimum maximum node res,
  bsearch gen fuel minimum maximum node = Some res ->
  size node = maximum ->
  (forall t, In t all -> minimum <= size t) ->
  (res = node \/ In res all) /\ (forall t, In t all -> size res <= size t).
Proof.
  induction fuel as [|f IH]; intros minimum maximum node res H Hsz Hmin.
  - simpl in H. destruct (minimum <? maximum) eqn:E; [discriminate|].
    inversion H; subst res. apply Z.ltb_ge in E. split; auto.
    intros t Ht. specialize (Hmin t Ht). lia.
  - simpl in H. destruct (minimum <? maximum) eqn:E.
    + apply Z.ltb_lt in E. destruct (gen ((minimum + maximum) / 2)) as [|t rest] eqn:G.
      * apply IH in H; auto. intros t Ht.
        destruct (size t <=? (minimum + maximum) / 2) eqn:Et.
        -- exfalso. assert (Hin : In t (gen ((minimum + maximum) / 2))).
           { rewrite gen_filter. apply filter_In. auto. }
           rewrite G in Hin. destruct Hin.
        -- apply Z.leb_gt in Et. lia.
      * assert (Hin : In t (gen ((minimum + maximum) / 2))) by (rewrite G; left; auto).
        rewrite gen_filter in Hin. apply filter_In in Hin as (Hall & Hle).
        apply Z.leb_le in Hle.
        apply IH in H; auto; [|lia]. destruct H as ([->|Hr] & Hm); auto.
    + inversion H; subst res. apply Z.ltb_ge in E. split; auto.
      intros t Ht. specialize (Hmin t Ht). lia.
Qed.
End Bsearch.

(* the `while minimum < maximum` loop ends within maximum - minimum iterations *)
Lemma bsearch_terminates gen : forall fuel minimum maximum node,
  (Z.to_nat (maximum - minimum) <= fuel)%nat -> bsearch gen fuel minimum maximum node <> None.
Proof.
  induction fuel as [|f IH]; intros minimum maximum node Hf; simpl.
  - destruct (minimum <? maximum) eqn:E; [|discriminate]. apply Z.ltb_lt in E. lia.
  - destruct (minimum <? maximum) eqn:E; [|discriminate]. apply Z.ltb_lt in E.
    assert (Hm : minimum <= (minimum + maximum) / 2 < maximum).
    { split; [apply Z.div_le_lower_bound|apply Z.div_lt_upper_bound]; lia. }
    destruct (gen ((minimum + maximum) / 2)) as [|t rest]; apply IH; lia.
Qed.

Theorem smallest_node_defined pd root runs :
  get_smallest_node pd root runs = None <-> smallish_random_proof_tree pd root runs = None.
Proof.
  unfold get_smallest_node. destruct (smallish_random_proof_tree pd root runs) as [node|]; [|tauto].
  split; [|discriminate]. intros H. exfalso. revert H. apply bsearch_terminates. lia.
Qed.

Theorem smallest_node_min pd root runs res :
  get_smallest_node pd root runs = Some res ->
  label res = root /\ valid_tree pd res /\ NoDup (expansions (node_rules res)) /\
  forall t, In t (proof_tree_generator_dfs pd root None) -> size res <= size t.
Proof.
  unfold get_smallest_node.
  destruct (smallish_random_proof_tree pd root runs) as [node|] eqn:E; [|discriminate].
  intros H.
  apply (bsearch_min (proof_tree_generator_dfs pd root None)) in H; auto.
  - destruct H as ([->|Hin] & Hmin).
    + destruct (smallish_tree_valid _ _ _ _ E) as (A & B & C). auto.
    + destruct (dfs_generator_valid _ _ _ _ Hin) as (A & B & C). auto.
  - intros m. apply dfs_bounded_is_filter.
  - intros t _. apply size_pos.
Qed.
