(* Proofs about the composed RuleDBBase model, part 2: the invariant of reachable
   composed states, totality of every operation, and what the answers mean:
   representatives name exactly the strongly connected components of the unary rules
   recorded by add whenever they are read; has_specification is Tree/Model.v's pure
   function at that representative function (also when it answers from the cache);
   the labels marked verified; the finders after has_specification. *)
From Coq Require Import ZArith List Bool Lia Relations.
From CSS Require Import Base.PyList Tree.Model Tree.Basics Tree.Valid Tree.PruneProofs
  Tree.IterProofs Tree.SpecProofs Tree.RandomProofs Tree.DfsProofs Tree.FuelProofs Tree.MinProofs.
From CSS Require Import Equiv.Model Equiv.Ref Equiv.UF Equiv.Inv Equiv.Hist Equiv.Cov
  Equiv.CompleteUF Equiv.Complete Equiv.Total Equiv.Neutral.
From CSS Require Import Tree.WithEquiv Tree.WithEquivProofs.
Import ListNotations.
Open Scope Z_scope.

Section Inv.
Variable order : list Z -> list Z.
Hypothesis order_In : forall l x, In x (order l) <-> In x l. (* in-section *)
Hypothesis order_len : forall l, (length (order l) <= length l)%nat. (* in-section *)
Variable root_label : Z.
Variable iterative : bool.

Notation runs := (runs order).
Notation traced := (traced order).
Notation c_rue := (c_rue order).
Notation c_pruned_dict := (c_pruned_dict order root_label iterative).
Notation c_has_spec := (c_has_spec order root_label iterative).
Notation c_node := (c_node order root_label iterative).
Notation cstep := (cstep order root_label iterative).
Notation cexec := (cexec order root_label iterative).

(* ------------------------------------------------------------ the invariant *)
(* a cached dictionary is what recomputing gives at the CURRENT representatives, the
   classes currently are the strongly connected components, and every key of the
   dictionary was passed to set_verified *)
Definition cache_ok (tr : list op) (x : rdb) : Prop :=
  forall pd, r_cache x = Some pd ->
    hcompl tr (r_eq x) /\
    Tree.Model.pruned_dict (repf (r_eq x)) (all_keys x) root_label iterative = Some pd /\
    (forall k, In k (keys pd) -> marked tr k).

Definition Inv2 (E : Z -> Z -> Prop) (K : list rkey * list rkey) (x : rdb) : Prop :=
  exists tr, traced tr (r_eq x) /\ (forall a b, recorded tr a b <-> E a b) /\
             cache_ok tr x /\ (r_rules x, r_eqv x) = K.

(* reachable by the history h *)
Definition Good (h : list cop) (x : rdb) : Prop := Inv2 (cedge h) (kstate h) x.

Lemma Inv2_iff E E' K x : (forall a b, E a b <-> E' a b) -> Inv2 E K x -> Inv2 E' K x.
Proof.
  intros H (tr & T & R & C & Kx). exists tr. split; auto. split; auto.
  intros a b. rewrite R. apply H.
Qed.

Lemma Inv2_wf E K x : Inv2 E K x -> wf (r_eq x).
Proof. intros (tr & T & _). eapply traced_wf; eauto. Qed.

Lemma Good_init : Good [] rinit.
Proof.
  exists []. split; [apply runs_nil|]. split.
  - intros a b. unfold recorded, cedge. simpl. split.
    + intros (_ & [[]|[[]|[]]]).
    + intros (_ & st & en & v & t & e & [] & _).
  - split; [intros pd H; discriminate H|reflexivity].
Qed.

(* operations that leave the partition alone extend the trace and keep the invariant *)
Lemma Inv2_extend E K x qs s' :
  Inv2 E K x -> Forall is_neutral2 qs -> runs (r_eq x) qs s' -> Inv2 E K (with_eq x s').
Proof.
  intros (tr & T & R & C & Kx) F Rn. exists (tr ++ qs).
  split; [eapply traced_app; eauto|]. split.
  { intros a b. rewrite <- R. apply neutral2_recorded_app; auto. }
  split; [|exact Kx].
  intros pd Hc. simpl in Hc. destruct (C pd Hc) as (HC & PD & Mk).
  destruct Rn as (rs & Ex).
  destruct (neutral2_keeps_sccs order order_In tr (r_eq x) qs s' rs (traced_HInv order order_In _ _ T) HC F Ex)
    as (P & _ & HC').
  simpl. split; [exact HC'|]. split.
  - rewrite <- PD. apply pruned_dict_ext. intros l.
    apply repf_rsame; auto; [eapply traced_wf; eauto|].
    eapply exec_wf; eauto. eapply traced_wf; eauto.
  - intros k Hk. apply marked_app. left. auto.
Qed.

Lemma with_eq_same x : with_eq x (r_eq x) = x.
Proof. destruct x; reflexivity. Qed.

(* the representatives of a state whose classes are the components *)
Lemma scc_rep_of E tr s :
  traced tr s -> hcompl tr s -> (forall a b, recorded tr a b <-> E a b) -> scc_rep E (repf s).
Proof.
  intros T HC R a b. rewrite (repf_same s a b (traced_wf order order_len _ _ T)).
  pose proof (traced_HInv order order_In _ _ T) as I.
  assert (X : forall u v, clos_refl_trans Z E u v <-> clos_refl_trans Z (recorded tr) u v).
  { apply clos_rt_iff. intros u v. symmetry. apply R. }
  rewrite !X. split.
  - intros S. split; apply (HInv_reach tr s _ _ I); eapply inv_sound; eauto. apply same_sym; auto.
  - intros (R1 & R2). apply HC; auto.
Qed.

(* ------------------------------------------------------------ pruned_dict keeps the invariant *)
Lemma c_pruned_dict_Inv2 E K x x' pd :
  Inv2 E K x -> c_pruned_dict x = Some (x', pd) ->
  Inv2 E K x' /\ r_cache x' = Some pd.
Proof.
  intros I H. destruct (r_cache x) as [pd0|] eqn:HC.
  - rewrite (c_pruned_dict_cached order root_label iterative x pd0 HC) in H. inv H. auto.
  - pose proof (Inv2_wf _ _ _ I) as W.
    destruct (c_pruned_dict_spec order order_len root_label iterative x x' pd W HC H)
      as (s1 & qs & CC & P & F & Rn & Mk & PD & K1 & K2 & K3).
    split; [|exact K3].
    destruct I as (tr & T & R & C & Kx).
    assert (T' : traced (tr ++ Connect :: qs) (r_eq x')).
    { eapply traced_app; [exact T|]. destruct Rn as (rs & Ex).
      exists (RNone :: rs). simpl. rewrite CC, Ex. reflexivity. }
    assert (F2 : Forall is_neutral2 qs) by (apply Forall_neutral_neutral2; auto).
    exists (tr ++ Connect :: qs). split; [exact T'|]. split.
    { intros a b. rewrite <- R. apply neutral2_recorded_app. constructor; [right; reflexivity|auto]. }
    split.
    + intros pd' Hc. rewrite K3 in Hc. inv Hc. split.
      * intros a b R1 R2. destruct T' as (rs & Ex).
        eapply (complete_after_connect_neutral2 order order_In tr qs); eauto.
      * split.
        -- rewrite <- PD. unfold all_keys. rewrite K1, K2. apply pruned_dict_ext. intros l.
           apply repf_rsame; auto.
           ++ destruct (connect_cycles_total order order_len _ W) as (s1' & E1 & W1). congruence.
           ++ eapply traced_wf; eauto.
        -- intros k Hk. apply marked_app. right. unfold marks. right. apply Mk. exact Hk.
    + rewrite K1, K2. exact Kx.
Qed.

(* has_specification: the answer is Tree/Model.v's has_specification at the CURRENT
   representative function, which names the strongly connected components *)
Lemma c_has_spec_spec E K x x' b :
  Inv2 E K x -> c_has_spec x = Some (x', b) ->
  Inv2 E K x' /\
  (exists pd, r_cache x' = Some pd /\ b = has_key pd (repf (r_eq x') root_label)) /\
  scc_rep E (repf (r_eq x')) /\
  Tree.Model.has_specification (repf (r_eq x')) (fst K ++ snd K) root_label iterative = Some b.
Proof.
  intros I H. unfold WithEquiv.c_has_spec in H.
  destruct (c_pruned_dict x) as [[x1 pd]|] eqn:PD; [|discriminate].
  destruct (find (r_eq x1) root_label) as [[s2 r]|] eqn:F; [|discriminate]. inv H.
  apply c_pruned_dict_Inv2 with (E := E) (K := K) in PD; auto. destruct PD as (I1 & C1).
  assert (I2 : Inv2 E K (with_eq x1 s2)).
  { eapply Inv2_extend; [exact I1| |eapply runs_find; eauto]. repeat constructor. }
  split; [exact I2|].
  destruct I2 as (tr & T & R & C & Kx). simpl in *.
  destruct (C pd C1) as (HC & PDe & _).
  assert (Er : r = repf s2 root_label).
  { symmetry. apply repf_unique; [eapply traced_wf; eauto|].
    apply find_spec in F. destruct F as (Rr & P). apply P. exact Rr. }
  split; [exists pd; split; [exact C1|rewrite Er; reflexivity]|].
  split; [eapply scc_rep_of; eauto|].
  unfold Tree.Model.has_specification. inv Kx. unfold all_keys in PDe. simpl in PDe. simpl.
  rewrite PDe. simpl. reflexivity.
Qed.

Lemma c_is_verified_Inv2 E K x l x' v :
  Inv2 E K x -> c_is_verified x l = Some (x', v) -> Inv2 E K x' /\ v = c_ver x l.
Proof.
  intros I H. unfold c_is_verified in H.
  destruct (is_verified (r_eq x) l) as [[s1 v1]|] eqn:IV; [|discriminate]. inv H.
  split.
  - eapply Inv2_extend; [exact I| |eapply runs_is_verified; eauto]. repeat constructor.
  - unfold is_verified in IV. destruct (find (r_eq x) l) as [[s2 r]|] eqn:F; [|discriminate]. inv IV.
    unfold c_ver, c_rep. rewrite F. apply find_spec in F. destruct F as (_ & (_ & -> & _)). reflexivity.
Qed.

Lemma c_rue_Inv2 E K x x' rd :
  Inv2 E K x -> c_rue x = Some (x', rd) ->
  Inv2 E K x' /\ rd = rules_up_to_equivalence (repf (r_eq x')) (fst K ++ snd K) /\
  scc_rep E (repf (r_eq x')).
Proof.
  intros I H. pose proof (Inv2_wf _ _ _ I) as W.
  destruct (c_rue_spec order order_len x x' rd W H) as (s1 & qs & CC & P & F & Rn & -> & K1 & K2 & K3).
  assert (Rn' : runs (r_eq x) (Connect :: qs) (r_eq x')).
  { destruct Rn as (rs & Ex). exists (RNone :: rs). simpl. rewrite CC, Ex. reflexivity. }
  assert (F2 : Forall is_neutral2 (Connect :: qs)).
  { constructor; [right; reflexivity|]. apply Forall_neutral_neutral2, Forall_query_neutral; auto. }
  assert (Ex' : x' = with_eq x (r_eq x')).
  { clear - K1 K2 K3. destruct x, x'; unfold with_eq; simpl in *. subst. reflexivity. }
  assert (W1 : wf s1).
  { destruct (connect_cycles_total order order_len _ W) as (s1' & E1 & W1). congruence. }
  assert (Wx' : wf (r_eq x')) by (eapply runs_wf; eauto).
  split; [rewrite Ex'; eapply Inv2_extend; eauto|].
  destruct I as (tr & T & R & C & Kx). split.
  - inv Kx. apply rue_ext. intros l. symmetry. apply repf_rsame; auto. apply pres_rsame; auto.
  - assert (T' : traced (tr ++ Connect :: qs) (r_eq x')) by (eapply traced_app; eauto).
    eapply (scc_rep_of E (tr ++ Connect :: qs)); eauto.
    + intros a b R1 R2. destruct T' as (rs & Ex).
      eapply (complete_after_connect_neutral2 order order_In tr qs); eauto.
      apply Forall_neutral_neutral2, Forall_query_neutral; auto.
    + intros a b. rewrite <- R. apply neutral2_recorded_app; auto.
Qed.

(* ------------------------------------------------------------ add *)
Definition new_edge (start : Z) (ends : list Z) (tw : bool) (a b : Z) : Prop :=
  a <> b /\ exists e, sortZ ends = [e] /\ ((start = a /\ e = b) \/ (tw = true /\ start = b /\ e = a)).

Lemma cedge_snoc_add h start ends ver tw a b :
  cedge (h ++ [CAdd start ends ver tw]) a b <-> cedge h a b \/ new_edge start ends tw a b.
Proof.
  unfold cedge, new_edge. split.
  - intros (N & st & en & v & t & e & Hin & Hs & Hd). apply in_app_iff in Hin.
    destruct Hin as [Hin|[Hin|[]]].
    + left. split; auto. exists st, en, v, t, e. auto.
    + inv Hin. right. split; auto. exists e. auto.
  - intros [(N & st & en & v & t & e & Hin & Hs & Hd)|(N & e & Hs & Hd)]; split; auto.
    + exists st, en, v, t, e. split; [apply in_app_iff; auto|auto].
    + exists start, ends, ver, tw, e. split; [apply in_app_iff; right; left; reflexivity|auto].
Qed.

Lemma recorded_app tr qs a b :
  recorded (tr ++ qs) a b <-> recorded tr a b \/ recorded qs a b.
Proof. unfold recorded. rewrite !in_app_iff. tauto. Qed.

Lemma c_add_Inv2 E K x start ends ver tw x' :
  Inv2 E K x -> c_add x start ends ver tw = Some x' ->
  Inv2 (fun a b => E a b \/ new_edge start ends tw a b) (kstep K (CAdd start ends ver tw)) x'.
Proof.
  intros (tr & T & R & _ & Kx) H. unfold c_add in H.
  destruct (if ver then set_verified (r_eq x) start else Some (r_eq x)) as [s1|] eqn:SV; [|discriminate].
  assert (R1 : runs (r_eq x) (if ver then [SetVerified start] else []) s1).
  { destruct ver; [eapply runs_set_verified; eauto|inv SV; apply runs_nil]. }
  set (q1 := if ver then [SetVerified start] else []) in *.
  assert (N1 : forall a b, ~ recorded q1 a b).
  { intros a b (_ & X). unfold q1 in X. destruct ver; simpl in X; intuition discriminate. }
  inv Kx. unfold kstep. simpl fst; simpl snd.
  destruct (sortZ ends) as [|e [|e2 rest]] eqn:Es.
  - inv H. exists (tr ++ q1). split; [eapply traced_app; eauto|]. split.
    + intros a b. rewrite recorded_app, R. split; [intros [X|X]; [auto|destruct (N1 _ _ X)]|].
      intros [X|(_ & e0 & Hs & _)]; [auto|rewrite Es in Hs; discriminate Hs].
    + split; [intros pd Hc; discriminate Hc|reflexivity].
  - destruct tw.
    + destruct (add_two_way s1 start e) as [s2|] eqn:TW; [|discriminate]. inv H.
      exists ((tr ++ q1) ++ [TwoWay start e]).
      split; [eapply traced_app; [eapply traced_app; eauto|eapply runs_two_way; eauto]|].
      split; [|split; [intros pd Hc; discriminate Hc|reflexivity]].
      intros a b. rewrite !recorded_app, R. unfold recorded at 2, new_edge. simpl. split.
      * intros [[X|X]|(N & [[X|[]]|[[X|[]]|[X|[]]]])]; auto; try (destruct (N1 _ _ X)); inv X.
        -- right. split; auto. exists b. auto.
        -- right. split; auto. exists a. auto.
      * intros [X|(N & e' & Hs & [(-> & ->)|(_ & -> & ->)])]; auto; rewrite Es in Hs; inv Hs; right; split; auto.
    + destruct (add_one_way s1 start e) as [s2|] eqn:OW; [|discriminate]. inv H.
      exists ((tr ++ q1) ++ [OneWay start e]).
      split; [eapply traced_app; [eapply traced_app; eauto|eapply runs_one_way; eauto]|].
      split; [|split; [intros pd Hc; discriminate Hc|reflexivity]].
      intros a b. rewrite !recorded_app, R. unfold recorded at 2, new_edge. simpl. split.
      * intros [[X|X]|(N & [[X|[]]|[[X|[]]|[X|[]]]])]; auto; try (destruct (N1 _ _ X)); inv X.
        right. split; auto. exists b. auto.
      * intros [X|(N & e' & Hs & [(-> & ->)|(D & _)])]; auto; [|discriminate D].
        rewrite Es in Hs. inv Hs. right. split; auto.
  - inv H. exists (tr ++ q1). split; [eapply traced_app; eauto|]. split.
    + intros a b. rewrite recorded_app, R. split; [intros [X|X]; [auto|destruct (N1 _ _ X)]|].
      intros [X|(_ & e' & Hs & _)]; [auto|rewrite Es in Hs; discriminate Hs].
    + split; [intros pd Hc; discriminate Hc|reflexivity].
Qed.

(* ------------------------------------------------------------ the finders after has_specification *)
(* the cache holds pd and the root's representative is a key of it *)
Definition Hot (pd : rdict) (x : rdb) : Prop :=
  r_cache x = Some pd /\ has_key pd (repf (r_eq x) root_label) = true.

Lemma find_root_Inv2 E K x s2 r :
  Inv2 E K x -> find (r_eq x) root_label = Some (s2, r) ->
  Inv2 E K (with_eq x s2) /\ r = repf (r_eq x) root_label /\ repf s2 root_label = r.
Proof.
  intros I F. pose proof (Inv2_wf _ _ _ I) as W.
  assert (I2 : Inv2 E K (with_eq x s2)).
  { eapply Inv2_extend; [exact I| |eapply runs_find; eauto]. repeat constructor. }
  split; auto. pose proof (repf_find _ _ _ _ F) as Er. split; auto.
  apply repf_unique; [exact (Inv2_wf _ _ _ I2)|].
  apply find_spec in F. destruct F as (Rr & P). apply P. exact Rr.
Qed.

Lemma c_has_spec_hot E K pd x x' b :
  Inv2 E K x -> Hot pd x -> c_has_spec x = Some (x', b) ->
  Inv2 E K x' /\ Hot pd x' /\ b = true /\ repf (r_eq x') root_label = repf (r_eq x) root_label.
Proof.
  intros I (HC & HK) H. unfold WithEquiv.c_has_spec in H.
  rewrite (c_pruned_dict_cached order root_label iterative x pd HC) in H.
  destruct (find (r_eq x) root_label) as [[s2 r]|] eqn:F; [|discriminate]. inv H.
  destruct (find_root_Inv2 E K x s2 r I F) as (I2 & Er & Er2).
  split; auto. split; [split; [exact HC|simpl; congruence]|]. split; [congruence|simpl; congruence].
Qed.

Lemma read_pd_root_hot E K pd x x' pr :
  Inv2 E K x -> Hot pd x -> read_pd_root order root_label iterative x = Some (x', pr) ->
  Inv2 E K x' /\ Hot pd x' /\ pr = (pd, repf (r_eq x) root_label) /\
  repf (r_eq x') root_label = repf (r_eq x) root_label.
Proof.
  intros I (HC & HK) H. unfold read_pd_root in H.
  rewrite (c_pruned_dict_cached order root_label iterative x pd HC) in H.
  destruct (find (r_eq x) root_label) as [[s2 r]|] eqn:F; [|discriminate]. inv H.
  destruct (find_root_Inv2 E K x s2 r I F) as (I2 & Er & Er2).
  split; auto. split; [split; [exact HC|simpl; congruence]|]. split; [congruence|simpl; congruence].
Qed.

Lemma ensure_hot E K pd x k x' r :
  Inv2 E K x -> Hot pd x -> ensure order root_label iterative x k = Some (x', r) ->
  exists x1, Inv2 E K x1 /\ Hot pd x1 /\
             repf (r_eq x1) root_label = repf (r_eq x) root_label /\ k x1 = Some (x', r).
Proof.
  intros I Ht H. unfold ensure in H.
  destruct (c_has_spec x) as [[x1 b]|] eqn:HS; [|discriminate].
  destruct (c_has_spec_hot E K pd x x1 b I Ht HS) as (I1 & H1 & -> & Er).
  exists x1. auto.
Qed.

(* dictionaries equal up to the order of keys and rules *)
Definition dict_equiv (a b : rdict) : Prop :=
  forall k, has_key a k = has_key b k /\ forall r, In r (rules_of a k) <-> In r (rules_of b k).

Lemma sub_dictb_spec a b : sub_dictb a b = true ->
  forall k, (has_key a k = true -> has_key b k = true) /\
            forall r, In r (rules_of a k) -> In r (rules_of b k).
Proof.
  unfold sub_dictb. rewrite forallb_forall. intros H k.
  unfold has_key, rules_of. destruct (Tree.Model.get a k) as [rs|] eqn:G.
  - assert (Hin : In (k, rs) a).
    { clear H. induction a as [|[k0 v0] a IH]; simpl in G; [discriminate|].
      destruct (Z.eqb k0 k) eqn:E; [apply Z.eqb_eq in E; inv G; left; reflexivity|right; auto]. }
    specialize (H _ Hin). simpl in H. apply andb_true_iff in H. destruct H as (H1 & H2).
    split; [intros _; exact H1|]. intros r Hr. rewrite forallb_forall in H2.
    apply mem_rule_spec. apply H2. exact Hr.
  - split; [discriminate|intros r []].
Qed.

Lemma dict_equivb_spec a b : dict_equivb a b = true -> dict_equiv a b.
Proof.
  unfold dict_equivb. rewrite andb_true_iff. intros (H1 & H2) k.
  destruct (sub_dictb_spec a b H1 k) as (A1 & A2). destruct (sub_dictb_spec b a H2 k) as (B1 & B2).
  split; [|split; auto].
  destruct (has_key a k) eqn:Ea, (has_key b k) eqn:Eb; auto;
    try (symmetry; apply A1; reflexivity); try (apply B1; reflexivity).
Qed.

Lemma iver_equiv a b rt x : dict_equiv a b -> iver a rt x -> iver b rt x.
Proof.
  intros H I. induction I as [x Hx|k r Hr _ IH].
  - apply iver_root; auto.
  - eapply iver_rule; [apply (H k); exact Hr|exact IH].
Qed.

Lemma ikey_equiv a b rt k : dict_equiv a b -> ikey a rt k -> ikey b rt k.
Proof.
  intros H (r & Hr & Hc). exists r. split; [apply (H k); exact Hr|].
  intros x Hx. eapply iver_equiv; eauto.
Qed.

Lemma valid_tree_equiv a b t : dict_equiv a b -> valid_tree a t -> valid_tree b t.
Proof.
  intros H (V1 & V2 & V3). unfold valid_tree, valid_rules. split; [|split]; auto.
  - intros l cs Hin Hne. destruct (V1 l cs Hin Hne) as (r & Hr & Hp). exists r. split; auto.
    apply (H l). exact Hr.
  - intros l Hin. destruct (V2 l Hin) as [X|X]; [left; apply (H l); exact X|right; exact X].
Qed.

(* iterative_prune is idempotent on derivability: what survives is derivable in the survivors *)
Lemma iver_pruned d rt nd :
  (forall k r, In r (rules_of nd k) <-> In r (rules_of d k) /\ forall x, In x r -> iver d rt x) ->
  forall x, iver d rt x -> iver nd rt x.
Proof.
  intros Hr x I. induction I as [x Hx|k r Hin Hc IH].
  - apply iver_root; auto.
  - eapply iver_rule; [apply Hr; split; eauto|exact IH].
Qed.

Lemma ikey_pruned d rt nd k :
  (forall k r, In r (rules_of nd k) <-> In r (rules_of d k) /\ forall x, In x r -> iver d rt x) ->
  ikey d rt k -> ikey nd rt k.
Proof.
  intros Hr (r & Hin & Hc). exists r. split; [apply Hr; auto|].
  intros x Hx. eapply iver_pruned; eauto.
Qed.

(* the iterative finder on the (iteratively) pruned dictionary of a database that has a
   specification returns a tree *)
Lemma iterative_finder_total rep rules pd listed :
  Tree.Model.pruned_dict rep rules root_label true = Some pd ->
  has_key pd (rep root_label) = true -> dict_equiv pd listed ->
  exists t, iterative_proof_tree_finder listed (rep root_label) = FTree t /\
            label t = rep root_label /\ valid_tree pd t.
Proof.
  intros PD HK DE. unfold Tree.Model.pruned_dict in PD.
  set (q := rules_up_to_equivalence rep rules) in *. set (r := rep root_label) in *.
  destruct (iterative_prune_is_lfp q (Some r)) as (nd & E & Hr & Hk). rewrite PD in E. inv E.
  assert (IK : ikey listed (Some r) r).
  { eapply ikey_equiv; [exact DE|]. eapply ikey_pruned; [exact Hr|]. apply Hk. exact HK. }
  pose proof (iterative_finder_spec listed r) as S.
  destruct (iterative_proof_tree_finder listed r) as [t| | |]; try contradiction.
  destruct S as (_ & L & V & _). exists t. split; auto. split; auto.
  eapply valid_tree_equiv; [|exact V]. intros k. destruct (DE k) as (A & B). split; [auto|].
  intros r0. symmetry. apply B.
Qed.

(* _get_specification_node when has_specification has just answered True *)
Definition node_ok (pd : rdict) (r : Z) (sm : bool) (runs : list (list choice)) (listed : rdict)
  (res : node_res) : Prop :=
  match res with
  | NTree t => label t = r /\ valid_tree pd t /\
               (iterative = false -> sm = true ->
                forall t', label t' = r -> valid_tree pd t' -> size t <= size t')
  | NInvalid => iterative = true /\ sm = true
  | NNoRun => if iterative then dict_equivb pd listed = false
              else smallish_random_proof_tree pd r runs = None
  | NNotFound => False
  | NFinder _ => False
  end.

Lemma node_body_hot_gen E K pd x x1 sm runs listed x' res :
  Inv2 E K x -> Hot pd x -> Inv2 E K x1 -> Hot pd x1 ->
  repf (r_eq x1) root_label = repf (r_eq x) root_label ->
  node_body order root_label iterative x1 sm runs listed = Some (x', res) ->
  Inv2 E K x' /\ Hot pd x' /\ node_ok pd (repf (r_eq x) root_label) sm runs listed res.
Proof.
  intros I Ht I1 H1 Er1 H'. unfold node_body in H'. unfold node_ok.
  assert (PDx : forall y, Inv2 E K y -> Hot pd y ->
            Tree.Model.pruned_dict (repf (r_eq y)) (fst K ++ snd K) root_label iterative = Some pd).
  { intros y (tr & T & R & C & Kx) (HC & _). destruct (C pd HC) as (_ & PD & _).
    inv Kx. exact PD. }
  cbv zeta.
  set (it := iterative) in H' at 1.
  assert (Hit : it = iterative) by reflexivity. clearbody it.
  destruct it.
  - destruct sm.
    + inv H'. split; auto.
    + unfold c_iterative_node in H'.
      destruct (ensure_hot E K pd x1 _ x' res I1 H1 H') as (x2 & I2 & H2 & Er2 & H''). clear H'.
      destruct (read_pd_root order root_label iterative x2) as [[x3 pr]|] eqn:RD; [|discriminate].
      destruct (read_pd_root_hot E K pd x2 x3 pr I2 H2 RD) as (I3 & H3 & -> & Er3).
      assert (Er : repf (r_eq x2) root_label = repf (r_eq x) root_label) by congruence.
      rewrite Er in H''. rewrite <- Hit.
      destruct (dict_equivb pd listed) eqn:DE.
      * destruct (iterative_finder_total (repf (r_eq x)) (fst K ++ snd K) pd listed) as (t & Ft & L & V).
        -- rewrite Hit. apply PDx; auto.
        -- apply Ht.
        -- apply dict_equivb_spec; auto.
        -- rewrite Ft in H''. inv H''. split; auto. split; auto. split; auto. split; auto.
           intros D. discriminate D.
      * inv H''. auto.
  - assert (SM : forall y y' rs, Inv2 E K y -> Hot pd y ->
              c_smallish_node order root_label iterative y runs = Some (y', rs) ->
              Inv2 E K y' /\ Hot pd y' /\
              repf (r_eq y') root_label = repf (r_eq y) root_label /\
              rs = match smallish_random_proof_tree pd (repf (r_eq y) root_label) runs with
                   | Some t => NTree t | None => NNoRun end).
    { intros y y' rs Iy Hy Hs. unfold c_smallish_node in Hs.
      destruct (ensure_hot E K pd y _ y' rs Iy Hy Hs) as (y2 & Iy2 & Hy2 & Ey2 & Hs'). clear Hs.
      destruct (read_pd_root order root_label iterative y2) as [[y3 pr]|] eqn:RD; [|discriminate].
      destruct (read_pd_root_hot E K pd y2 y3 pr Iy2 Hy2 RD) as (Iy3 & Hy3 & -> & Ey3).
      inv Hs'. split; auto. split; auto. split; [congruence|]. rewrite Ey2. reflexivity. }
    assert (CL : closed pd).
    { pose proof (PDx x I Ht) as PD. unfold Tree.Model.pruned_dict in PD. rewrite <- Hit in PD.
      eapply prune_closed; [apply quotient_nonempty|exact PD]. }
    rewrite <- Hit.
    destruct sm.
    + unfold c_smallest_node in H'.
      destruct (ensure_hot E K pd x1 _ x' res I1 H1 H') as (x2 & I2 & H2 & Er2 & H''). clear H'.
      destruct (c_smallish_node order root_label iterative x2 runs) as [[x3 nr]|] eqn:SMe; [|discriminate].
      destruct (SM x2 x3 nr I2 H2 SMe) as (I3 & H3 & Er3 & ->).
      assert (Er : repf (r_eq x2) root_label = repf (r_eq x) root_label) by congruence.
      rewrite Er in H''.
      destruct (smallish_random_proof_tree pd (repf (r_eq x) root_label) runs) as [node|] eqn:SR.
      * destruct (read_pd_root order root_label iterative x3) as [[x4 pr]|] eqn:RD; [|discriminate].
        destruct (read_pd_root_hot E K pd x3 x4 pr I3 H3 RD) as (I4 & H4 & -> & Er4).
        assert (Er' : repf (r_eq x3) root_label = repf (r_eq x) root_label) by congruence.
        rewrite Er' in H''.
        assert (GS : get_smallest_node pd (repf (r_eq x) root_label) runs =
                     bsearch (fun m => proof_tree_generator_dfs pd (repf (r_eq x) root_label) (Some m))
                             (Z.to_nat (size node)) 1 (size node) node).
        { unfold get_smallest_node. rewrite SR. reflexivity. }
        rewrite <- GS in H''.
        destruct (get_smallest_node pd (repf (r_eq x) root_label) runs) as [t|] eqn:GSe.
        -- inv H''. split; auto. split; auto.
           destruct (smallest_is_minimum pd _ runs t CL GSe) as (L & V & Mn).
           split; auto.
        -- exfalso. apply smallest_node_defined in GSe. congruence.
      * inv H''. split; auto.
    + destruct (SM x1 x' res I1 H1 H') as (I3 & H3 & Er3 & ->).
      split; auto. split; auto. rewrite Er1.
      destruct (smallish_random_proof_tree pd (repf (r_eq x) root_label) runs) as [t|] eqn:SR; auto.
      destruct (smallish_tree_valid pd _ runs t SR) as (L & V & _). split; auto. split; auto.
      intros _ D. discriminate D.
Qed.

Lemma node_body_hot E K pd x1 sm runs listed x' res :
  Inv2 E K x1 -> Hot pd x1 ->
  node_body order root_label iterative x1 sm runs listed = Some (x', res) ->
  Inv2 E K x' /\ Hot pd x' /\ node_ok pd (repf (r_eq x1) root_label) sm runs listed res.
Proof. intros I H. apply (node_body_hot_gen E K pd x1 x1); auto. Qed.

(* _get_specification_node when has_specification has just answered True *)
Lemma c_node_hot E K pd x sm runs listed x' res :
  Inv2 E K x -> Hot pd x -> c_node x sm runs listed = Some (x', res) ->
  Inv2 E K x' /\ Hot pd x' /\ node_ok pd (repf (r_eq x) root_label) sm runs listed res.
Proof.
  intros I Ht H. unfold WithEquiv.c_node in H.
  destruct (ensure_hot E K pd x _ x' res I Ht H) as (x1 & I1 & H1 & Er1 & H').
  apply (node_body_hot_gen E K pd x x1); auto.
Qed.

(* _get_specification_node in any reachable state *)
Lemma c_node_spec E K x sm runs listed x' res :
  Inv2 E K x -> c_node x sm runs listed = Some (x', res) ->
  Inv2 E K x' /\
  exists x1 b, c_has_spec x = Some (x1, b) /\
    if b then exists pd, Hot pd x1 /\ node_ok pd (repf (r_eq x1) root_label) sm runs listed res
    else res = NNotFound /\ x' = x1.
Proof.
  intros I H. unfold WithEquiv.c_node, ensure in H.
  destruct (c_has_spec x) as [[x1 b]|] eqn:HS; [|discriminate].
  destruct (c_has_spec_spec E K x x1 b I HS) as (I1 & (pd & C1 & Eb) & _ & _).
  destruct b.
  - assert (Ht : Hot pd x1) by (split; auto).
    destruct (node_body_hot E K pd x1 sm runs listed x' res I1 Ht H) as (I' & _ & OK).
    split; auto. exists x1, true. split; auto. exists pd. auto.
  - inv H. split; auto. exists x', false. auto.
Qed.

End Inv.
