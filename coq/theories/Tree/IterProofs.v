(* iterative_prune computes the bottom-up least fixed point (root assumed
   verified), for every iteration order, within its fuel; the iterative finder
   returns a valid iterative proof tree exactly when the root is derivable. *)
From Coq Require Import ZArith List Bool Lia Permutation.
From CSS Require Import Base.PyList Tree.Model Tree.Basics Tree.PruneProofs Tree.Valid.
Import ListNotations.
Open Scope Z_scope.
Arguments iter_rule : simpl never.
Arguments iter_key : simpl never.

(* "x is verified": x is the root, or some rule of x has all children verified *)
Inductive iver (d : rdict) (root : option Z) : Z -> Prop :=
| iver_root x : root = Some x -> iver d root x
| iver_rule k r : In r (rules_of d k) -> (forall x, In x r -> iver d root x) -> iver d root k.

(* "k keeps a rule": the keys of the result *)
Definition ikey (d : rdict) (root : option Z) (k : Z) : Prop :=
  exists r, In r (rules_of d k) /\ forall x, In x r -> iver d root x.

Definition vtest (v : list Z) (r : rule) : bool := forallb (fun x => memZ x v) r.

Lemma vtest_spec v r : vtest v r = true <-> forall x, In x r -> In x v.
Proof.
  unfold vtest. rewrite forallb_forall. split; intros H x Hx; apply memZ_spec; auto.
Qed.

(* ------------------------------------------------------------ add_rule *)
Lemma rules_of_add_rule nd k r k' r' :
  In r' (rules_of (add_rule nd k r) k') <-> In r' (rules_of nd k') \/ (k' = k /\ r' = r).
Proof.
  unfold add_rule. destruct (get nd k) as [rs|] eqn:Hg.
  - destruct (mem_rule r rs) eqn:Hm.
    + split; auto. intros [H|[-> ->]]; auto. unfold rules_of. rewrite Hg.
      apply mem_rule_spec; auto.
    + rewrite rules_of_upd. destruct (Z.eqb k k') eqn:E.
      * apply Z.eqb_eq in E; subst k'. unfold rules_of. rewrite Hg. rewrite in_app_iff. simpl.
        split; [intros [|[<-|[]]]; auto|intros [ | [_ ->] ]; auto].
      * apply Z.eqb_neq in E. split; auto. intros [ | [-> _] ]; auto. congruence.
  - unfold rules_of. rewrite get_app. destruct (get nd k') as [rs'|] eqn:Hg'.
    + split; auto. intros [ | [-> _] ]; auto. congruence.
    + simpl. destruct (Z.eqb k k') eqn:E.
      * apply Z.eqb_eq in E; subst k'. simpl. split; [intros [<-|[]]; auto|intros [[]|[_ ->]]; auto].
      * apply Z.eqb_neq in E. split; [intros []|intros [[]|[-> _]]; congruence].
Qed.

Lemma add_rule_nonempty nd k r :
  (forall k', get nd k' <> Some []) -> forall k', get (add_rule nd k r) k' <> Some [].
Proof.
  intros Hne k'. unfold add_rule. destruct (get nd k) as [rs|] eqn:Hg.
  - destruct (mem_rule r rs); auto. rewrite get_upd. destruct (Z.eqb k k') eqn:E; auto.
    apply Z.eqb_eq in E; subst k'. rewrite Hg. simpl. destruct rs; discriminate.
  - rewrite get_app. destruct (get nd k') eqn:Hg'.
    + rewrite <- Hg'. auto.
    + simpl. destruct (Z.eqb k k'); discriminate.
Qed.

Lemma has_key_rules nd k :
  (forall k', get nd k' <> Some []) ->
  (has_key nd k = true <-> exists r, In r (rules_of nd k)).
Proof.
  intros Hne. unfold has_key, rules_of. destruct (get nd k) as [[|r rs]|] eqn:Hg.
  - exfalso. exact (Hne k Hg).
  - split; auto. intros _. exists r. left; auto.
  - split; [discriminate|intros (r & [])].
Qed.

Lemma subdict_refl d : subdict d d.
Proof. intros k r H; exact H. Qed.
Lemma subdict_trans a b c : subdict a b -> subdict b c -> subdict a c.
Proof. intros H1 H2 k r H. auto. Qed.
Lemma subdict_upd d k r : subdict (upd d k (remove_rule r)) d.
Proof.
  intros k' r' H. rewrite rules_of_upd in H. destruct (Z.eqb k k'); auto.
  unfold rules_of. destruct (get d k'); [|destruct H]. apply remove_rule_In in H. tauto.
Qed.
Lemma subdict_del d k : subdict (del d k) d.
Proof.
  intros k' r' H. rewrite rules_of_del in H. destruct (Z.eqb k k'); auto. destruct H.
Qed.

(* ------------------------------------------------------------ trees *)
Definition kid_ok (root : option Z) (ts : list (Z * tree)) (c : tree) : Prop :=
  (opt_eqb root (label c) = true /\ c = Node (label c) []) \/
  (opt_eqb root (label c) = false /\ get_tree_of ts (label c) = Some c).
Definition tree_ok (d0 : rdict) (root : option Z) (ts : list (Z * tree)) (k : Z) (t : tree) : Prop :=
  label t = k /\ In (map label (children t)) (rules_of d0 k) /\ Forall (kid_ok root ts) (children t).

Lemma get_tree_of_app ts e k :
  get_tree_of (ts ++ e) k =
  match get_tree_of ts k with Some t => Some t | None => get_tree_of e k end.
Proof. induction ts as [|[a t] ts IH]; simpl; auto. destruct (Z.eqb a k); auto. Qed.

Lemma opt_eqb_spec root x : opt_eqb root x = true <-> root = Some x.
Proof.
  destruct root as [r|]; simpl; [|split; discriminate].
  rewrite Z.eqb_eq. split; congruence.
Qed.

Lemma all_some_spec {A B} (f : A -> option B) l :
  (forall x, In x l -> f x <> None) ->
  exists ys, all_some (map f l) = Some ys /\ Forall2 (fun x y => f x = Some y) l ys.
Proof.
  induction l as [|x l IH]; intros H; simpl.
  - exists []. split; auto.
  - destruct (f x) as [y|] eqn:E; [|exfalso; apply (H x); [left; reflexivity|exact E]].
    destruct IH as (ys & -> & HF); [intros z Hz; apply H; right; auto|].
    exists (y :: ys). split; auto.
Qed.

(* ------------------------------------------------------------ invariant *)
Section Inv.
Variable d0 : rdict.
Variable root : option Z.

Record IInv (s : istate) : Prop := mkIInv {
  I_root : forall x, root = Some x -> In x (iv s);
  I_sound : forall x, In x (iv s) -> iver d0 root x;
  I_sub : subdict (ird s) d0;
  I_new : forall k r, In r (rules_of (inew s) k) ->
            In r (rules_of d0 k) /\ (forall x, In x r -> In x (iv s)) /\ In k (iv s);
  I_newne : forall k, get (inew s) k <> Some [];
  I_part : forall k r, In r (rules_of d0 k) ->
            In r (rules_of (ird s) k) \/ In r (rules_of (inew s) k);
  I_tv : forall x, In x (iv s) -> root = Some x \/ get_tree_of (itrees s) x <> None;
  I_err : ierr s = false;
  I_tk : forall k, get_tree_of (itrees s) k <> None <-> exists r, In r (rules_of (inew s) k);
  I_tree : forall k t, get_tree_of (itrees s) k = Some t -> tree_ok d0 root (itrees s) k t
}.

Lemma kid_ok_mono ts ts' c :
  (forall k t, get_tree_of ts k = Some t -> get_tree_of ts' k = Some t) ->
  kid_ok root ts c -> kid_ok root ts' c.
Proof. intros Hm [H|[H1 H2]]; [left; auto|right; split; auto]. Qed.

Lemma kids_ok s r kids ts' :
  IInv s ->
  (forall k' t, get_tree_of (itrees s) k' = Some t -> get_tree_of ts' k' = Some t) ->
  Forall2 (fun x y => get_tree root (itrees s) x = Some y) r kids ->
  map label kids = r /\ Forall (kid_ok root ts') kids.
Proof.
  intros HI Hmono HF. induction HF as [|x c r kids Hx _ IH]; simpl; [split; auto|].
  destruct IH as (IH1 & IH2). unfold get_tree in Hx.
  destruct (opt_eqb root x) eqn:E.
  - inversion Hx; subst c. simpl. split; [congruence|]. constructor; auto.
    left. simpl. auto.
  - pose proof (I_tree s HI x c Hx) as (Hl & _). split; [congruence|].
    constructor; auto. right. rewrite Hl. split; auto.
Qed.

Lemma create_tree_ok s k r :
  IInv s -> (forall x, In x r -> In x (iv s)) -> In r (rules_of d0 k) ->
  exists ts', create_tree root (itrees s) k r = Some ts' /\
    (forall k', get_tree_of ts' k' <> None <-> get_tree_of (itrees s) k' <> None \/ k' = k) /\
    (forall k' t, get_tree_of (itrees s) k' = Some t -> get_tree_of ts' k' = Some t) /\
    (forall k' t, get_tree_of ts' k' = Some t -> tree_ok d0 root ts' k' t).
Proof.
  intros HI Hall Hr. unfold create_tree.
  destruct (get_tree_of (itrees s) k) as [t0|] eqn:Hk.
  - exists (itrees s). csplit; auto.
    + intros k'. split; auto. intros [ | -> ]; auto. congruence.
    + apply (I_tree s HI).
  - destruct (all_some_spec (get_tree root (itrees s)) r) as (kids & -> & HF).
    { intros x Hx. unfold get_tree. destruct (opt_eqb root x) eqn:E; [discriminate|].
      destruct (I_tv s HI x (Hall x Hx)) as [H|H]; auto.
      apply opt_eqb_spec in H. congruence. }
    set (ts' := itrees s ++ [(k, Node k kids)]).
    assert (Hmono : forall k' t, get_tree_of (itrees s) k' = Some t -> get_tree_of ts' k' = Some t).
    { intros k' t H. unfold ts'. rewrite get_tree_of_app, H. reflexivity. }
    assert (Hkids : map label kids = r /\ Forall (kid_ok root ts') kids)
      by (eapply kids_ok; eauto).
    destruct Hkids as (Hk1 & Hk2).
    exists ts'. csplit; auto.
    + intros k'. unfold ts'. rewrite get_tree_of_app. simpl.
      destruct (get_tree_of (itrees s) k') eqn:E'.
      * split; auto. intros _; discriminate.
      * destruct (Z.eqb k k') eqn:E; [apply Z.eqb_eq in E|apply Z.eqb_neq in E].
        -- split; auto. intros _; discriminate.
        -- split; [congruence|intros [|]; congruence].
    + intros k' t H. unfold ts' in H. rewrite get_tree_of_app in H.
      destruct (get_tree_of (itrees s) k') as [t1|] eqn:E'.
      * inversion H; subst t1. destruct (I_tree s HI k' t E') as (A & B & C).
        unfold tree_ok. csplit; auto. eapply Forall_impl; [|exact C].
        intros c. apply kid_ok_mono. exact Hmono.
      * simpl in H. destruct (Z.eqb k k') eqn:E; [|discriminate].
        apply Z.eqb_eq in E; subst k'. inversion H; subst t.
        unfold tree_ok. simpl. rewrite Hk1. auto.
Qed.

Lemma iter_rule_inv k s r : IInv s -> In r (rules_of d0 k) -> IInv (iter_rule root k s r).
Proof.
  intros HI Hr. unfold iter_rule.
  destruct (forallb (fun x => memZ x (iv s)) r) eqn:Ht; auto.
  assert (Hall : forall x, In x r -> In x (iv s)) by (apply vtest_spec; exact Ht).
  destruct (create_tree_ok s k r HI Hall Hr) as (ts' & -> & T1 & T2 & T3).
  constructor; simpl.
  - intros x Hx. apply set_add_In. right. apply (I_root s HI); auto.
  - intros x Hx. apply set_add_In in Hx as [->|Hx]; [|apply (I_sound s HI); auto].
    apply iver_rule with (r := r); auto. intros y Hy. apply (I_sound s HI); auto.
  - eapply subdict_trans; [apply subdict_upd|apply (I_sub s HI)].
  - intros k' r' H. apply rules_of_add_rule in H as [H|[-> ->]].
    + destruct (I_new s HI k' r' H) as (A & B & C). csplit; auto.
      * intros x Hx. apply set_add_In; auto.
      * apply set_add_In; auto.
    + csplit; auto.
      * intros x Hx. apply set_add_In; auto.
      * apply set_add_In; auto.
  - apply add_rule_nonempty. apply (I_newne s HI).
  - intros k' r' H. destruct (I_part s HI k' r' H) as [Hin|Hin].
    + destruct (list_eq_dec Z.eq_dec r' r) as [->|Hne].
      * destruct (Z.eq_dec k' k) as [->|Hk].
        -- right. apply rules_of_add_rule. auto.
        -- left. rewrite rules_of_upd. destruct (Z.eqb k k') eqn:E; auto.
           apply Z.eqb_eq in E. congruence.
      * left. rewrite rules_of_upd. destruct (Z.eqb k k') eqn:E; auto.
        unfold rules_of in Hin. destruct (get (ird s) k'); [|destruct Hin].
        apply remove_rule_In. auto.
    + right. apply rules_of_add_rule. auto.
  - intros x Hx. apply set_add_In in Hx as [->|Hx].
    + right. apply T1. auto.
    + destruct (I_tv s HI x Hx) as [|H]; auto. right. apply T1. auto.
  - apply (I_err s HI).
  - intros k'. rewrite T1, (I_tk s HI k'). split.
    + intros [(r' & H) | -> ].
      * exists r'. apply rules_of_add_rule. auto.
      * exists r. apply rules_of_add_rule. auto.
    + intros (r' & H). apply rules_of_add_rule in H as [H|[-> _]]; eauto.
  - exact T3.
Qed.

Lemma IInv_del s k :
  IInv s -> get (ird s) k = Some [] ->
  IInv (mkI (iv s) (del (ird s) k) (inew s) (itrees s) (ierr s) (ichg s)).
Proof.
  intros HI Hg. destruct HI. constructor; simpl; auto.
  - eapply subdict_trans; [apply subdict_del|]; auto.
  - intros k' r' H. destruct (I_part0 k' r' H) as [Hin|Hin]; auto. left.
    rewrite rules_of_del. destruct (Z.eqb k k') eqn:E; auto.
    apply Z.eqb_eq in E; subst k'. unfold rules_of in Hin. rewrite Hg in Hin. destruct Hin.
Qed.

Lemma IInv_chg s b : IInv s -> IInv (mkI (iv s) (ird s) (inew s) (itrees s) (ierr s) b).
Proof. intros HI. destruct HI. constructor; simpl; auto. Qed.

Lemma fold_left_inv_In {S X} (P : S -> Prop) (f : S -> X -> S) l s :
  P s -> (forall s x, In x l -> P s -> P (f s x)) -> P (fold_left f l s).
Proof.
  revert s; induction l as [|a l IH]; intros s Hs H; simpl; [exact Hs|].
  apply IH; [apply H; [left; reflexivity|exact Hs]|]. intros s' x Hx. apply H. right; exact Hx.
Qed.

Lemma iter_key_inv s k : IInv s -> IInv (iter_key root s k).
Proof.
  intros HI. unfold iter_key.
  set (s1 := fold_left (iter_rule root k) (rules_of (ird s) k) s).
  assert (H1 : IInv s1).
  { unfold s1. apply fold_left_inv_In; auto. intros s' r Hr Hs'.
    apply iter_rule_inv; auto. apply (I_sub s HI). exact Hr. }
  destruct (get (ird s1) k) as [[|r1 rs1]|] eqn:Hg; auto.
  apply IInv_del; auto.
Qed.

Lemma iter_pass_inv s : IInv s -> IInv (iter_pass root s).
Proof.
  intros HI. unfold iter_pass. apply fold_left_inv.
  - apply IInv_chg. exact HI.
  - intros s' k Hs'. apply iter_key_inv. exact Hs'.
Qed.
End Inv.

(* ---------------------------------------- what a pass reports and costs *)
Lemma iter_rule_cost root k s r :
  let s' := iter_rule root k s r in
  (nrules (ird s') <= nrules (ird s))%nat /\
  (ichg s = true -> ichg s' = true) /\
  subdict (ird s') (ird s) /\
  (ichg s' = false -> s' = s /\ vtest (iv s) r = false) /\
  (In r (rules_of (ird s) k) -> ichg s' = true -> ichg s = false ->
     (nrules (ird s') < nrules (ird s))%nat).
Proof.
  unfold iter_rule. fold (vtest (iv s) r). destruct (vtest (iv s) r) eqn:Ht.
  - destruct (create_tree root (itrees s) k r); simpl; csplit; auto;
      try apply nrules_upd_le; try apply subdict_upd; try discriminate;
      intros Hin _ _; apply nrules_upd_lt; auto.
  - simpl. csplit; auto. apply subdict_refl. intros _ H1 H2. congruence.
Qed.

Lemma iter_rules_cost root k : forall rs s,
  let s' := fold_left (iter_rule root k) rs s in
  (nrules (ird s') <= nrules (ird s))%nat /\
  (ichg s = true -> ichg s' = true) /\
  subdict (ird s') (ird s) /\
  (ichg s' = false -> s' = s /\ forall r, In r rs -> vtest (iv s) r = false) /\
  (incl rs (rules_of (ird s) k) -> ichg s' = true -> ichg s = false ->
     (nrules (ird s') < nrules (ird s))%nat).
Proof.
  induction rs as [|r rs IH]; intros s; simpl.
  - split; [|split; [|split; [|split]]].
    + lia.
    + auto.
    + apply subdict_refl.
    + intros _; split; auto. intros r [].
    + intros _ H1 H2; congruence.
  - destruct (iter_rule_cost root k s r) as (A1 & A2 & A3 & A4 & A5).
    destruct (IH (iter_rule root k s r)) as (B1 & B2 & B3 & B4 & B5).
    set (s1 := iter_rule root k s r) in *.
    csplit; auto; try lia.
    + eapply subdict_trans; eauto.
    + intros Hf. destruct (B4 Hf) as (E1 & Hall).
      assert (Hf1 : ichg s1 = false) by (rewrite <- E1; exact Hf).
      destruct (A4 Hf1) as (E2 & Ht). rewrite E1, E2. split; auto.
      intros r' [->|Hr']; auto. rewrite <- E2. auto.
    + intros Hi Ht Hc. assert (Hr : In r (rules_of (ird s) k)) by (apply Hi; left; auto).
      destruct (ichg s1) eqn:Ec1.
      * specialize (A5 Hr eq_refl Hc). lia.
      * destruct (A4 eq_refl) as (E2 & _). rewrite E2 in *.
        apply B5; auto. intros x Hx; apply Hi; right; auto.
Qed.

Lemma iter_key_cost root s k :
  let s' := iter_key root s k in
  (nrules (ird s') <= nrules (ird s))%nat /\
  (ichg s = true -> ichg s' = true) /\
  subdict (ird s') (ird s) /\
  (ichg s' = false -> iv s' = iv s /\ inew s' = inew s /\ ichg s = false /\
     forall r, In r (rules_of (ird s) k) -> vtest (iv s) r = false) /\
  (ichg s' = true -> ichg s = false -> (nrules (ird s') < nrules (ird s))%nat).
Proof.
  unfold iter_key.
  destruct (iter_rules_cost root k (rules_of (ird s) k) s) as (A1 & A2 & A3 & A4 & A5).
  set (s1 := fold_left (iter_rule root k) (rules_of (ird s) k) s) in *.
  assert (Hd := nrules_del_le (ird s1) k).
  destruct (get (ird s1) k) as [[|r1 rs1]|] eqn:Hg; simpl; csplit; auto; try lia;
    try (eapply subdict_trans; [apply subdict_del|exact A3]);
    try (intros Hf; destruct (A4 Hf) as (E & Hall); rewrite E in *; csplit; auto);
    try (intros Ht Hc; specialize (A5 (incl_refl _) Ht Hc); lia).
Qed.

Lemma iter_keys_cost root : forall ks s,
  let s' := fold_left (iter_key root) ks s in
  (nrules (ird s') <= nrules (ird s))%nat /\
  (ichg s = true -> ichg s' = true) /\
  subdict (ird s') (ird s) /\
  (ichg s' = false -> iv s' = iv s /\ inew s' = inew s /\ ichg s = false /\
     forall k r, In k ks -> In r (rules_of (ird s') k) -> vtest (iv s) r = false) /\
  (ichg s' = true -> ichg s = false -> (nrules (ird s') < nrules (ird s))%nat).
Proof.
  induction ks as [|k ks IH]; intros s; simpl.
  - split; [|split; [|split; [|split]]].
    + lia.
    + auto.
    + apply subdict_refl.
    + intros Hf; csplit; auto. intros k r [].
    + intros H1 H2; congruence.
  - destruct (iter_key_cost root s k) as (A1 & A2 & A3 & A4 & A5).
    destruct (IH (iter_key root s k)) as (B1 & B2 & B3 & B4 & B5).
    set (s1 := iter_key root s k) in *.
    csplit; auto; try lia.
    + eapply subdict_trans; eauto.
    + intros Hf. destruct (B4 Hf) as (E1 & E2 & Hc1 & Hall).
      destruct (A4 Hc1) as (F1 & F2 & Hc & Hk).
      csplit; try congruence.
      intros k' r [->|Hk'] Hr.
      * apply Hk. apply A3. apply B3. exact Hr.
      * rewrite <- F1. eapply Hall; eauto.
    + intros Ht Hc. destruct (ichg s1) eqn:Ec1.
      * specialize (A5 eq_refl Hc). lia.
      * destruct (A4 eq_refl) as (_ & _ & _ & _). specialize (B5 Ht eq_refl).
        lia.
Qed.

Definition istable (s : istate) : Prop :=
  forall k r, In r (rules_of (ird s) k) -> vtest (iv s) r = false.

Lemma iter_pass_cost root s :
  let s' := iter_pass root s in
  (ichg s' = true -> (nrules (ird s') < nrules (ird s))%nat) /\
  (ichg s' = false -> istable s').
Proof.
  unfold iter_pass.
  destruct (iter_keys_cost root (keys (ird s))
              (mkI (iv s) (ird s) (inew s) (itrees s) (ierr s) false)) as (A1 & A2 & A3 & A4 & A5).
  simpl in *. split.
  - intros Ht. apply A5; auto.
  - intros Hf. destruct (A4 Hf) as (E1 & _ & _ & Hall). intros k r Hr. rewrite E1.
    destruct (in_dec Z.eq_dec k (keys (ird s))) as [Hk|Hk].
    + eapply Hall; eauto.
    + exfalso. apply A3 in Hr. apply rules_of_has_key in Hr. apply has_key_keys in Hr. auto.
Qed.

Lemma iter_loop_ok d0 root : forall fuel s,
  IInv d0 root s -> (nrules (ird s) < fuel)%nat ->
  exists s', iter_loop root fuel s = Some s' /\ IInv d0 root s' /\ istable s'.
Proof.
  induction fuel as [|f IH]; intros s HI Hlt; [lia|]. simpl.
  pose proof (iter_pass_inv d0 root s HI) as H1.
  destruct (iter_pass_cost root s) as (C1 & C2).
  destruct (ichg (iter_pass root s)) eqn:Ec.
  - apply IH; auto. specialize (C1 eq_refl). lia.
  - eexists. split; [reflexivity|]. auto.
Qed.

Lemma IInv_init d root : IInv d root (iter_init d root).
Proof.
  constructor; simpl.
  - intros x ->. left; auto.
  - intros x Hx. destruct root as [r|]; [|destruct Hx]. destruct Hx as [<-|[]].
    apply iver_root; auto.
  - apply subdict_refl.
  - intros k r [].
  - intros k; discriminate.
  - auto.
  - intros x Hx. destruct root as [r|]; [|destruct Hx]. destruct Hx as [<-|[]]. auto.
  - reflexivity.
  - intros k. split; [congruence|intros (r & [])].
  - intros k t; discriminate.
Qed.

Lemma iter_run_ok d root :
  exists s, iter_run d root = Some s /\ IInv d root s /\ istable s.
Proof.
  unfold iter_run. apply iter_loop_ok; [apply IInv_init|simpl; lia].
Qed.

(* completeness: at the end every verifiable label is in verified_labels *)
Lemma final_complete d root s :
  IInv d root s -> istable s -> forall x, iver d root x -> In x (iv s).
Proof.
  intros HI Hst x Hx. induction Hx as [x Hx|k r Hr _ IH].
  - apply (I_root d root s HI); auto.
  - destruct (I_part d root s HI k r Hr) as [Hin|Hin].
    + apply Hst in Hin. apply vtest_spec in IH. congruence.
    + apply (I_new d root s HI k r Hin).
Qed.

Theorem iterative_prune_is_lfp d root :
  exists nd, iterative_prune d root = Some nd /\
    (forall k r, In r (rules_of nd k) <->
                 In r (rules_of d k) /\ forall x, In x r -> iver d root x) /\
    (forall k, has_key nd k = true <-> ikey d root k).
Proof.
  destruct (iter_run_ok d root) as (s & Hs & HI & Hst).
  unfold iterative_prune. rewrite Hs. simpl. exists (inew s). split; auto.
  assert (Hrules : forall k r, In r (rules_of (inew s) k) <->
                 In r (rules_of d k) /\ forall x, In x r -> iver d root x).
  { intros k r. split.
    - intros H. destruct (I_new d root s HI k r H) as (A & B & _). split; auto.
      intros x Hx. apply (I_sound d root s HI). auto.
    - intros (Hr & Hc). destruct (I_part d root s HI k r Hr) as [Hin|Hin]; auto.
      apply Hst in Hin. assert (vtest (iv s) r = true); [|congruence].
      apply vtest_spec. intros x Hx. eapply final_complete; eauto. }
  split; auto.
  intros k. rewrite (has_key_rules (inew s) k (I_newne d root s HI)).
  unfold ikey. split; intros (r & H); exists r; apply Hrules; auto.
Qed.

(* ------------------------------------------------------------ the finder *)
Definition iterative_leaves (d : rdict) (root : Z) (t : tree) : Prop :=
  forall l, In (l, []) (node_rules t) -> l = root \/ In [] (rules_of d l).

Lemma nodes_self t : In t (nodes t).
Proof. destruct t; simpl; auto. Qed.

Definition ngood (root : option Z) (ts : list (Z * tree)) (n : tree) : Prop :=
  (opt_eqb root (label n) = true /\ n = Node (label n) []) \/ get_tree_of ts (label n) = Some n.

Lemma good_nodes d root ts :
  (forall k t, get_tree_of ts k = Some t -> tree_ok d root ts k t) ->
  forall t, ngood root ts t -> forall n, In n (nodes t) -> ngood root ts n.
Proof.
  intros HT. induction t as [l cs IH] using tree_ind'. intros Hk n Hn.
  simpl in Hn. destruct Hn as [<-|Hn]; auto.
  apply in_flat_map in Hn as (c & Hc & Hn).
  rewrite Forall_forall in IH. apply (IH c Hc); auto.
  destruct Hk as [[_ E]|E].
  - simpl in E. inversion E; subst. destruct Hc.
  - apply HT in E. destruct E as (_ & _ & HF). simpl in HF.
    rewrite Forall_forall in HF. destruct (HF c Hc) as [H|[_ H]]; [left; exact H|right; exact H].
Qed.

Theorem iterative_finder_spec d root :
  match iterative_proof_tree_finder d root with
  | FTree t => ikey d (Some root) root /\ label t = root /\ valid_tree d t /\
               iterative_leaves d root t
  | FValueError => ~ ikey d (Some root) root
  | FKeyError => False
  | FOutOfFuel => False
  end.
Proof.
  unfold iterative_proof_tree_finder.
  destruct (iter_run_ok d (Some root)) as (s & Hs & HI & Hst). rewrite Hs.
  rewrite (I_err _ _ s HI).
  assert (Hkey : (exists r, In r (rules_of (inew s) root)) <-> ikey d (Some root) root).
  { destruct (iterative_prune_is_lfp d (Some root)) as (nd & Hnd & Hr & _).
    unfold iterative_prune in Hnd. rewrite Hs in Hnd. simpl in Hnd. inversion Hnd; subst nd.
    unfold ikey. split; intros (r & H); exists r; apply Hr; auto. }
  destruct (get_tree_of (itrees s) root) as [t|] eqn:Ht.
  - assert (Hne : get_tree_of (itrees s) root <> None) by congruence.
    apply (I_tk _ _ s HI) in Hne. split; [apply Hkey; exact Hne|].
    pose proof (I_tree _ _ s HI) as HT.
    destruct (HT root t Ht) as (Hl & Hrule & Hkids).
    split; auto.
    assert (Hgood : forall n, In n (nodes t) -> ngood (Some root) (itrees s) n).
    { apply (good_nodes d (Some root) (itrees s) HT). right. rewrite Hl. exact Ht. }
    assert (Hnode : forall l cs, In (l, cs) (node_rules t) ->
              (l = root /\ cs = []) \/ In cs (rules_of d l) /\
              exists n, get_tree_of (itrees s) l = Some n /\ map label (children n) = cs).
    { intros l cs H. unfold node_rules in H. apply in_map_iff in H as (n & E & Hn).
      unfold node_rule in E. inversion E; subst l cs. clear E.
      destruct (Hgood n Hn) as [[E1 E2]|E2].
      - left. simpl in E1. apply Z.eqb_eq in E1. rewrite E2. simpl. auto.
      - right. destruct (HT _ _ E2) as (_ & B & _). split; auto. exists n; auto. }
    split.
    + unfold valid_tree, valid_rules. csplit.
      * intros l cs H Hne'. destruct (Hnode l cs H) as [[_ ->]|[Hin _]]; [congruence|].
        exists cs. split; auto.
      * intros l H. destruct (Hnode l [] H) as [[-> _]|[Hin _]]; auto.
        destruct (map label (children t)) as [|c0 cs0] eqn:Ec.
        -- left. exact Hrule.
        -- right. exists (c0 :: cs0). split; [discriminate|].
           unfold node_rules. apply in_map_iff. exists t. split; [|apply nodes_self].
           unfold node_rule. rewrite Hl, Ec. reflexivity.
      * intros l cs cs' H H' Hc Hc'.
        destruct (Hnode l cs H) as [[_ ->]|[_ (n & E1 & E2)]]; [congruence|].
        destruct (Hnode l cs' H') as [[_ ->]|[_ (n' & E1' & E2')]]; [congruence|].
        congruence.
    + intros l H. destruct (Hnode l [] H) as [[-> _]|[Hin _]]; auto.
  - intros Hk. apply Hkey in Hk. apply (I_tk _ _ s HI) in Hk. congruence.
Qed.
