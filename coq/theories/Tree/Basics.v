(* Lemmas about the dictionary primitives of Tree/Model.v. *)
From Coq Require Import ZArith List Bool Lia Permutation.
From CSS Require Import Base.PyList Tree.Model.
Import ListNotations.
Open Scope Z_scope.

Ltac csplit := repeat match goal with |- _ /\ _ => split end.

Lemma rule_eqb_spec a b : rule_eqb a b = true <-> a = b.
Proof.
  revert b; induction a as [|x a IH]; intros [|y b]; simpl; split; intros H;
    try congruence; try reflexivity.
  - apply andb_true_iff in H as [H1 H2]. apply Z.eqb_eq in H1. apply IH in H2. congruence.
  - inversion H; subst. apply andb_true_iff; split; [apply Z.eqb_refl|apply IH; reflexivity].
Qed.

Lemma rule_eqb_refl a : rule_eqb a a = true.
Proof. apply rule_eqb_spec; reflexivity. Qed.

Lemma memZ_spec x l : memZ x l = true <-> In x l.
Proof.
  unfold memZ. rewrite existsb_exists. split.
  - intros (y & Hy & E). apply Z.eqb_eq in E. subst; auto.
  - intros H. exists x; split; auto. apply Z.eqb_refl.
Qed.

Lemma memZ_false x l : memZ x l = false <-> ~ In x l.
Proof.
  rewrite <- memZ_spec. destruct (memZ x l); split; intros; congruence.
Qed.

Lemma mem_rule_spec r l : mem_rule r l = true <-> In r l.
Proof.
  unfold mem_rule. rewrite existsb_exists. split.
  - intros (y & Hy & E). apply rule_eqb_spec in E. subst; auto.
  - intros H. exists r; split; auto. apply rule_eqb_refl.
Qed.

Lemma set_add_In x y s : In y (set_add x s) <-> y = x \/ In y s.
Proof.
  unfold set_add. destruct (memZ x s) eqn:E.
  - apply memZ_spec in E. split; [auto|intros [->|]; auto].
  - rewrite in_app_iff. simpl. split; [intros [|[|[]]]; auto|intros [->|]; auto].
Qed.

Lemma set_union_In s t y : In y (set_union s t) <-> In y s \/ In y t.
Proof.
  unfold set_union. revert s. induction t as [|x t IH]; intros s; simpl.
  - tauto.
  - rewrite IH, set_add_In. split; [intros [[->|]|]; auto|intros [|[->|]]; auto].
Qed.

(* ------------------------------------------------------------ get/upd/del *)
Lemma get_upd d k f k' :
  get (upd d k f) k' = if Z.eqb k k' then option_map f (get d k') else get d k'.
Proof.
  induction d as [|[a rs] d IH]; simpl.
  - destruct (Z.eqb k k'); reflexivity.
  - destruct (Z.eqb a k) eqn:E1; simpl.
    + apply Z.eqb_eq in E1; subst a.
      destruct (Z.eqb k k') eqn:E2; simpl; auto.
    + destruct (Z.eqb a k') eqn:E2; simpl; auto.
      apply Z.eqb_eq in E2; subst a. rewrite Z.eqb_sym in E1. rewrite E1. reflexivity.
Qed.

Lemma get_del d k k' :
  get (del d k) k' = if Z.eqb k k' then None else get d k'.
Proof.
  induction d as [|[a rs] d IH]; simpl.
  - destruct (Z.eqb k k'); reflexivity.
  - destruct (Z.eqb a k) eqn:E1; simpl.
    + apply Z.eqb_eq in E1; subst a. rewrite IH.
      destruct (Z.eqb k k'); reflexivity.
    + rewrite IH. destruct (Z.eqb a k') eqn:E2; auto.
      apply Z.eqb_eq in E2; subst a. rewrite Z.eqb_sym in E1. rewrite E1. reflexivity.
Qed.

Lemma get_app d e k :
  get (d ++ e) k = match get d k with Some rs => Some rs | None => get e k end.
Proof.
  induction d as [|[a rs] d IH]; simpl; auto. destruct (Z.eqb a k); auto.
Qed.

Lemma get_none_keys d k : get d k = None <-> ~ In k (keys d).
Proof.
  induction d as [|[a rs] d IH]; simpl.
  - tauto.
  - destruct (Z.eqb a k) eqn:E.
    + apply Z.eqb_eq in E. subst. split; [discriminate|intros H; exfalso; auto].
    + apply Z.eqb_neq in E. rewrite IH. tauto.
Qed.

Lemma rules_of_has_key d k r : In r (rules_of d k) -> has_key d k = true.
Proof. unfold rules_of, has_key. destruct (get d k); simpl; auto; intros []. Qed.

Lemma has_key_keys d k : has_key d k = true <-> In k (keys d).
Proof.
  unfold has_key. destruct (get d k) eqn:E.
  - split; auto. intros _. destruct (in_dec Z.eq_dec k (keys d)); auto.
    apply get_none_keys in n. congruence.
  - apply get_none_keys in E. split; [discriminate|tauto].
Qed.

Lemma remove_rule_In r r' rs : In r' (remove_rule r rs) <-> In r' rs /\ r' <> r.
Proof.
  unfold remove_rule. rewrite filter_In. split; intros [H1 H2]; split; auto.
  - intros ->. rewrite rule_eqb_refl in H2. discriminate.
  - destruct (rule_eqb r r') eqn:E; auto. apply rule_eqb_spec in E. congruence.
Qed.

Lemma rules_of_upd d k f k' :
  rules_of (upd d k f) k' =
  if Z.eqb k k' then match get d k' with Some rs => f rs | None => [] end else rules_of d k'.
Proof.
  unfold rules_of. rewrite get_upd. destruct (Z.eqb k k'); auto. destruct (get d k'); auto.
Qed.

Lemma rules_of_del d k k' :
  rules_of (del d k) k' = if Z.eqb k k' then [] else rules_of d k'.
Proof. unfold rules_of. rewrite get_del. destruct (Z.eqb k k'); auto. Qed.

(* ------------------------------------------------------------ the measure *)
Lemma filter_length_le' {A} (f : A -> bool) l : (length (filter f l) <= length l)%nat.
Proof. induction l; simpl; auto. destruct (f a); simpl; lia. Qed.

Lemma filter_length_lt {A} (f : A -> bool) l x :
  In x l -> f x = false -> (length (filter f l) < length l)%nat.
Proof.
  induction l as [|a l IH]; simpl; [tauto|]. intros [->|H] Hf.
  - rewrite Hf. pose proof (filter_length_le' f l). lia.
  - specialize (IH H Hf). destruct (f a); simpl; lia.
Qed.

Lemma nrules_upd_le d k r : (nrules (upd d k (remove_rule r)) <= nrules d)%nat.
Proof.
  induction d as [|[a rs] d IH]; simpl; auto.
  destruct (Z.eqb a k); simpl; [|lia].
  assert (length (remove_rule r rs) <= length rs)%nat by apply filter_length_le'. lia.
Qed.

Lemma nrules_upd_lt d k r :
  In r (rules_of d k) -> (nrules (upd d k (remove_rule r)) < nrules d)%nat.
Proof.
  unfold rules_of. induction d as [|[a rs] d IH]; simpl; [tauto|].
  destruct (Z.eqb a k) eqn:E; simpl.
  - intros H. pose proof (nrules_upd_le d k r).
    assert (length (remove_rule r rs) < length rs)%nat; [|lia].
    apply filter_length_lt with (x := r); auto. rewrite rule_eqb_refl. reflexivity.
  - intros H. specialize (IH H). lia.
Qed.

Lemma nrules_del_le d k : (nrules (del d k) <= nrules d)%nat.
Proof.
  induction d as [|[a rs] d IH]; simpl; auto. destruct (Z.eqb a k); simpl; lia.
Qed.

(* ------------------------------------------------------------ fold invariant *)
Lemma fold_left_inv {S X} (P : S -> Prop) (f : S -> X -> S) l s :
  P s -> (forall s x, P s -> P (f s x)) -> P (fold_left f l s).
Proof. revert s; induction l; simpl; auto. Qed.

(* ------------------------------------------------------------ sorting *)
Lemma insert_rule_perm r l : Permutation (r :: l) (insert_rule r l).
Proof.
  induction l as [|h t IH]; simpl; auto.
  destruct (rule_ltb h r); auto.
  eapply perm_trans; [apply perm_swap|]. constructor. exact IH.
Qed.

Lemma sort_rules_perm l : Permutation l (sort_rules l).
Proof.
  induction l as [|h t IH]; simpl; auto.
  eapply perm_trans; [|apply insert_rule_perm]. constructor. exact IH.
Qed.

Lemma sort_rules_In r l : In r (sort_rules l) <-> In r l.
Proof.
  split; apply Permutation_in; [apply Permutation_sym|]; apply sort_rules_perm.
Qed.

Lemma get_sort_dict d k : get (sort_dict d) k = option_map sort_rules (get d k).
Proof.
  induction d as [|[a rs] d IH]; simpl; auto. destruct (Z.eqb a k); auto.
Qed.

Lemma rules_of_sort_dict d k r : In r (rules_of (sort_dict d) k) <-> In r (rules_of d k).
Proof.
  unfold rules_of. rewrite get_sort_dict. destruct (get d k); simpl; [apply sort_rules_In|tauto].
Qed.

(* ------------------------------------------------------------ trees *)
Lemma tree_ind' (P : tree -> Prop) :
  (forall l cs, Forall P cs -> P (Node l cs)) -> forall t, P t.
Proof.
  intros H. fix IH 1. intros [l cs]. apply H.
  induction cs as [|c cs IHcs]; constructor; auto.
Qed.

Lemma size_Node l cs : size (Node l cs) = 1 + zsum (map size cs).
Proof. reflexivity. Qed.

Lemma zsum_cons x l : zsum (x :: l) = x + zsum l.
Proof. reflexivity. Qed.

Lemma size_pos t : 1 <= size t.
Proof.
  induction t as [l cs IH] using tree_ind'. rewrite size_Node.
  assert (0 <= zsum (map size cs)); [|lia].
  induction IH; simpl map; [unfold zsum; simpl; lia|rewrite zsum_cons; lia].
Qed.

Lemma zsum_app a b : zsum (a ++ b) = zsum a + zsum b.
Proof. induction a; simpl app; [reflexivity|rewrite !zsum_cons; lia]. Qed.
