(* sx interface of the tree-searcher model.  Input  L [I mode; args...].
   Dictionaries: L [ L [I key; L [rule; ...]]; ... ] with rule = L [I child; ...].
   Trees:        L [I label; L [child tree; ...]].
   Dictionaries are returned in canonical form (keys ascending, rules in
   Python tuple order): set/dict iteration order is not part of the property. *)
From Coq Require Import ZArith List Bool.
From CSS Require Import Base.Sx Base.PyList Tree.Model.
Import ListNotations.
Open Scope Z_scope.

Definition dec_rule (s : sx) : rule := sx_Zs s.
Definition dec_entry (s : sx) : Z * list rule :=
  (sx_Z (sx_nth s 0), map dec_rule (sx_list (sx_nth s 1))).
Definition dec_dict (s : sx) : rdict := map dec_entry (sx_list s).
Definition dec_choice (s : sx) : choice := (dec_rule (sx_nth s 0), sx_Zs (sx_nth s 1)).
Definition dec_choices (s : sx) : list choice := map dec_choice (sx_list s).
Definition dec_runs (s : sx) : list (list choice) := map dec_choices (sx_list s).

Fixpoint insert_entry (e : Z * list rule) (l : rdict) : rdict :=
  match l with
  | [] => [e]
  | h :: t => if Z.ltb (fst h) (fst e) then h :: insert_entry e t else e :: l
  end.
Definition canon_dict (d : rdict) : rdict :=
  fold_right insert_entry [] (sort_dict d).

Definition enc_rule (r : rule) : sx := of_Zs r.
Definition enc_dict (d : rdict) : sx :=
  L (map (fun e => L [I (fst e); L (map enc_rule (snd e))]) (canon_dict d)).
Definition enc_odict (o : option rdict) : sx :=
  match o with Some d => L [I 1; enc_dict d] | None => L [I 0] end.

Fixpoint enc_tree (t : tree) : sx :=
  match t with Node l cs => L [I l; L (map enc_tree cs)] end.
Definition enc_otree (o : option tree) : sx :=
  match o with Some t => L [I 1; enc_tree t] | None => L [I 0] end.

Definition enc_finder (r : finder_res) : sx :=
  match r with
  | FTree t => L [I 1; enc_tree t]
  | FKeyError => L [I 0; I 1]
  | FValueError => L [I 0; I 4]
  | FOutOfFuel => L [I 0; I 9]
  end.

Fixpoint assocZ (t : list (Z * Z)) (x : Z) : option Z :=
  match t with
  | [] => None
  | (k, v) :: r => if Z.eqb k x then Some v else assocZ r x
  end.
Definition rep_of (s : sx) : Z -> Z :=
  let t := map (fun e => (sx_Z (sx_nth e 0), sx_Z (sx_nth e 1))) (sx_list s) in
  fun x => match assocZ t x with Some r => r | None => x end.
Definition dec_rules (s : sx) : list (Z * rule) :=
  map (fun e => (sx_Z (sx_nth e 0), dec_rule (sx_nth e 1))) (sx_list s).

(* _get_specification_node for kind = 1 (smallish), 2 (smallest), 3 (iterative) *)
Fixpoint dict_eqb (a b : rdict) : bool :=
  match a, b with
  | [], [] => true
  | (k, rs) :: a', (k', rs') :: b' =>
      Z.eqb k k' && sx_eqb (L (map enc_rule rs)) (L (map enc_rule rs')) && dict_eqb a' b'
  | _, _ => false
  end.

(* `listed` is the pruned dictionary in the iteration order Python's dict/sets
   happen to have (an oracle argument: which iterative tree is built depends on
   it); it must be the same dictionary as pd. *)
Definition spec_node (pd listed : rdict) (rroot : Z) (kind : Z) (runs : list (list choice)) : sx :=
  match kind with
  | 1 => enc_otree (smallish_random_proof_tree pd rroot runs)
  | 2 => enc_otree (get_smallest_node pd rroot runs)
  | 3 => if dict_eqb (canon_dict pd) (canon_dict listed)
         then enc_finder (iterative_proof_tree_finder listed rroot)
         else L [I 0; I 7]
  | _ => L [I 2]
  end.

Definition run_c05 (inp : sx) : sx :=
  let a n := sx_nth inp n in
  match sx_Z (a 0%nat) with
  | 0 => enc_odict (prune (dec_dict (a 1%nat)))
  | 1 => enc_odict (iterative_prune (dec_dict (a 1%nat)) (sx_optZ (a 2%nat)))
  | 2 => enc_otree (random_proof_tree (dec_dict (a 1%nat)) (sx_Z (a 2%nat)) (dec_choices (a 3%nat)))
  | 3 => enc_otree (smallish_random_proof_tree (dec_dict (a 1%nat)) (sx_Z (a 2%nat)) (dec_runs (a 3%nat)))
  | 4 => L (map enc_tree (firstn (sx_nat (a 4%nat))
             (proof_tree_generator_dfs (dec_dict (a 1%nat)) (sx_Z (a 2%nat)) (sx_optZ (a 3%nat)))))
  | 5 => enc_finder (iterative_proof_tree_finder (dec_dict (a 1%nat)) (sx_Z (a 2%nat)))
  | 6 => L (map enc_tree (firstn (sx_nat (a 3%nat))
             (proof_tree_generator_bfs (dec_dict (a 1%nat)) (sx_Z (a 2%nat)))))
  | _ =>
      let rules := dec_rules (a 1%nat) in
      let rep := rep_of (a 2%nat) in
      let root := sx_Z (a 3%nat) in
      let iterative := sx_bool (a 4%nat) in
      let kind := sx_Z (a 5%nat) in
      let runs := dec_runs (a 6%nat) in
      let q := rules_up_to_equivalence rep rules in
      match pruned_dict rep rules root iterative with
      | None => L [enc_dict q; L [I 0]; I 0; L [I 2]]
      | Some pd =>
          let hs := has_key pd (rep root) in
          L [enc_dict q; L [I 1; enc_dict pd]; of_bool hs;
             if hs then spec_node pd (dec_dict (a 7%nat)) (rep root) kind runs else L [I 2]]
      end
  end.
