(* The per-rule tests of the two pruning loops are the expressions of the SOURCE.
   Gen/TreePruneRuleTest.v and Gen/TreeIterativePruneRuleTest.v are
   re-translated from comb_spec_searcher/tree_searcher.py on every run:
     prune             the test of `if any(x not in rdict for x in rule): rule_set.remove(rule)`
     iterative_prune   the test of `if all(x in verified_labels for x in rule): changed = True ...`
     iterative_proof_tree_finder   the same test in the finder's copy of that loop
                                   (Gen/TreeIterativeFinderRuleTest.v)
   (located structurally inside `while / for / for`).  This file proves that
   Tree/Model.v (bad_rule, the guard of iter_rule) evaluates exactly those.  A
   source edit of either test (any/all, in/not in, another set) changes the
   generated definitions and breaks these lemmas, hence the obligations of
   Props/C05.v. *)
From Coq Require Import ZArith List Bool Lia.
From CSS Require Import Gen.Prelude Tree.Model.
From CSS Require Import Gen.TreePruneRuleTest Gen.TreeIterativePruneRuleTest Gen.TreeIterativeFinderRuleTest.
Import ListNotations.
Open Scope Z_scope.

(* k in rdict *)
Lemma has_key_is_dmem : forall (d : rdict) k, has_key d k = py_dmem d k.
Proof.
  intros d k. unfold has_key, py_dmem.
  induction d as [|[k' rs] t IH]; cbn [get existsb fst]; [reflexivity|].
  destruct (k' =? k); [reflexivity|exact IH].
Qed.

Lemma bad_rule_is_source : forall d r, bad_rule d r = prune_rule_test d r.
Proof.
  intros d r. unfold bad_rule, prune_rule_test.
  induction r as [|x r IH]; cbn [existsb]; [reflexivity|]. now rewrite has_key_is_dmem, IH.
Qed.

(* the guard of iter_rule: every child of the rule is already verified *)
Lemma iter_guard_is_source : forall v r,
  forallb (fun x => memZ x v) r = iterative_prune_rule_test v r.
Proof. reflexivity. Qed.

Lemma iter_rule_is_source : forall root k s r,
  iter_rule root k s r =
  if iterative_prune_rule_test (iv s) r
  then
    let '(ts, e) := match create_tree root (itrees s) k r with
                    | Some ts => (ts, ierr s)
                    | None => (itrees s, true)
                    end in
    mkI (set_add k (iv s)) (upd (ird s) k (remove_rule r)) (add_rule (inew s) k r) ts e true
  else s.
Proof. reflexivity. Qed.

Lemma prune_rule_is_source : forall k d ch r,
  prune_rule k (d, ch) r =
  let '(d1, ch1) := if prune_rule_test d r then (upd d k (remove_rule r), true) else (d, ch) in
  match get d1 k with
  | Some [] => (del d1 k, ch1)
  | _ => (d1, ch1)
  end.
Proof. intros k d ch r. unfold prune_rule. now rewrite bad_rule_is_source. Qed.

(* iterative_proof_tree_finder runs the same loop (one model state serves both): its
   test is the same expression *)
Lemma finder_guard_is_source : forall v r,
  forallb (fun x => memZ x v) r = iterative_finder_rule_test v r.
Proof. reflexivity. Qed.

Lemma iter_rule_is_source_finder : forall root k s r,
  iter_rule root k s r =
  if iterative_finder_rule_test (iv s) r
  then
    let '(ts, e) := match create_tree root (itrees s) k r with
                    | Some ts => (ts, ierr s)
                    | None => (itrees s, true)
                    end in
    mkI (set_add k (iv s)) (upd (ird s) k (remove_rule r)) (add_rule (inew s) k r) ts e true
  else s.
Proof. reflexivity. Qed.
