(* GENERATED: translation of TableMethod._correct_gap FAILED (TableMethod._correct_gap: expected 1 statements matching ('if_test', 'self._processing_queue.extend(self._rule_holding_extra_terms)'), found 0); this file deliberately does not compile. *)
Translation_failed_closed.
