(* The expanded specification enumerates the start class as the original does.

   Link between the rule records of Expand/Model.v and the evaluation semantics of Spec/Eval.v
   (C01): `opr` gives every rule its term operator (C09's constructors; for a path the composite
   of its steps), `Gb` says that a member / plain rule is genuine and local — a fact about what
   the rule IS (class, form, children), not about which Python object carries it.  The original
   and the result then both satisfy the hypotheses of C01_spec_correct for the same true tables,
   because expansion keeps rules of the original (copies), adds rules made by the packs'
   searches (genuine by the strategy contract: C04/C09) and empty rules for empty classes. *)
From Coq Require Import ZArith List Bool Arith Lia.
From CSS Require Import Forest.Spec Spec.Eval Expand.EvalSpec Expand.Model Expand.InitProofs Expand.StepProofs Expand.LoopProofs.
Import ListNotations.

Section Sem.
Variable terms : Type.
Variable dflt : terms.
Variable T : nat -> Z -> terms.                     (* the true enumeration of every class *)
Variable opr : rule -> srule terms.                 (* the term operator of a rule *)

Definition sp (s : spec) : nat -> option (srule terms) :=
  fun c => option_map opr (dget c (s_rules s)).
Definition keys_of (s : spec) : list fkey :=
  map (fun kr => mkkey (fst kr) (r_kids terms (opr (snd kr)))) (s_rules s).
(* genuine (C09), local w.r.t. the declared shifts (C10), nothing below size 0 *)
Definition good (r : rule) : Prop :=
  local terms (opr r) /\ genuine terms T (rule_cls r) (opr r) /\
  forall p o n, (n < 0)%Z -> r_op terms (opr r) p o n = dflt.

Variable Gb : brule -> Prop.
Hypothesis Gb_ext : forall b b', content b = content b' -> Gb b -> Gb b'.
Hypothesis sem_plain : forall b, Gb b -> good (Plain b).
Hypothesis sem_path : forall p pc ms,
  ms <> [] -> linked ms -> path_ok ms = true -> Forall Gb ms -> good (Path p pc ms).
Hypothesis T_neg : forall c m, (m < 0)%Z -> T c m = dflt.

Lemma keys_from_spec s : keyed s ->
  forall k, In k (keys_of s) -> exists r, sp s (parent k) = Some r /\ kids k = r_kids terms r.
Proof.
  intros [ND _] k Hk. unfold keys_of in Hk. apply in_map_iff in Hk. destruct Hk as ([c r] & <- & Hin).
  simpl. exists (opr r). unfold sp. rewrite (dget_nodup _ _ _ ND Hin). auto.
Qed.

Lemma sp_good s : keyed s -> (forall c r, In (c, r) (s_rules s) -> good r) ->
  forall c r, sp s c = Some r ->
    local terms r /\ genuine terms T c r /\ forall p o n, (n < 0)%Z -> r_op terms r p o n = dflt.
Proof.
  intros [_ HK] HG c r. unfold sp. destruct (dget c (s_rules s)) as [rr|] eqn:E; [|discriminate].
  simpl. intros H. inversion H. subst. apply dget_In in E. destruct (HG _ _ E) as (A & B & C).
  rewrite (HK _ _ E). auto.
Qed.

Theorem spec_counts s c :
  keyed s -> (forall c r, In (c, r) (s_rules s) -> good r) -> pumps (keys_of s) c ->
  forall n, (0 <= n)%Z -> exists f0, forall f, (f0 <= f)%nat -> eval terms dflt (sp s) f c n = T c n.
Proof.
  intros HK HG HP n Hn.
  apply (eval_correct' terms dflt (sp s) T T_neg).
  - intros c0 r0 H0. apply (sp_good s HK HG c0 r0 H0).
  - intros c0 r0 H0. apply (sp_good s HK HG c0 r0 H0).
  - intros c0 r0 H0. apply (sp_good s HK HG c0 r0 H0).
  - apply (pumps_ev terms (sp s) (keys_of s) (keys_from_spec s HK) c HP n Hn).
Qed.

Theorem same_enumeration deep empties fuel s0 rounds st0 s' st' tr' :
  expand_verified fuel deep empties s0 rounds st0 = (Done s', st', tr') ->
  keyed s0 -> (forall c r, In (c, r) (s_rules s0) -> good r) -> Forall Gb (spec_atoms s0) ->
  rounds_ok (fun (_ : bool) its => Forall (fun it => forall b, made_from it b -> Gb b) its) rounds ->
  (forall n c, mem c empties = true -> Gb (empty_rule n c)) ->
  pumps (keys_of s0) (s_root s0) -> pumps (keys_of s') (s_root s') ->
  s_root s' = s_root s0 /\
  keyed s' /\ (forall c r, In (c, r) (s_rules s') -> good r) /\
  forall n, (0 <= n)%Z -> exists f0, forall f, (f0 <= f)%nat ->
    eval terms dflt (sp s0) f (s_root s0) n = T (s_root s0) n /\
    eval terms dflt (sp s') f (s_root s') n = T (s_root s0) n.
Proof.
  unfold expand_verified. intros H HK0 HG0 HA0 HR HE HP0 HP'.
  assert (s_root s' = s_root s0 /\ keyed s' /\ (forall c r, In (c, r) (s_rules s') -> good r)) as (R & HK' & HG').
  { destruct tr' as [|e tr''] eqn:Et.
    - rewrite (loop_no_round _ _ _ _ _ _ _ _ _ _ H eq_refl). auto.
    - assert (tr' <> []) as Hne by (rewrite Et; discriminate). rewrite <- Et in H.
      destruct (loop_closed _ _ _ _ _ _ _ _ _ H Hne) as (R & _ & K).
      split; [exact R|]. split; [exact K|].
      pose proof (loop_content deep empties Gb (fun (_ : bool) it => forall b, made_from it b -> Gb b)
                    Gb_ext (fun rev it b Hq Hm => Hq b Hm) HE _ _ _ _ _ _ _ _ HA0 HR H) as HA.
      pose proof (loop_fresh deep empties (next st0) s0 _ _ _ _ _ _ (le_n _) H Hne) as HF.
      intros c r Hin. destruct (HF _ _ Hin) as [FP _].
      assert (Forall Gb (atoms r)) as Hat.
      { apply Forall_forall. intros b Hb. eapply Forall_forall in HA; [exact HA|].
        unfold spec_atoms. apply in_flat_map. exists (c, r). auto. }
      destruct r as [b|p pc ms]; simpl in *.
      + apply sem_plain. inversion Hat. auto.
      + destruct FP as (_ & _ & L & PO & NE). apply sem_path; auto. }
  split; [exact R|]. split; [exact HK'|]. split; [exact HG'|].
  intros n Hn.
  destruct (spec_counts s0 (s_root s0) HK0 HG0 HP0 n Hn) as [f1 H1].
  destruct (spec_counts s' (s_root s') HK' HG' HP' n Hn) as [f2 H2].
  exists (Nat.max f1 f2). intros f Hf. split.
  - apply H1. lia.
  - rewrite <- R. apply H2. lia.
Qed.

End Sem.
