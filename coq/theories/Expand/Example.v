(* Concrete runs of the model, used by Props/C19.v to show that the hypotheses of the theorems
   can be met and that the statements the shallow copy falsifies are indeed false of the model. *)
From Coq Require Import ZArith List Bool Arith Lia.
From CSS Require Import Forest.Spec Spec.Eval Expand.Model Expand.InitProofs Expand.StepProofs
     Expand.LoopProofs Expand.Ids Expand.Semantics.
Import ListNotations.
Close Scope Z_scope.

(* ------------------------------------------------------------------ run 1
   0 = {1} + 2 ; 1 an atom ; 2 verified, its strategy offers a pack.  The pack's search answers:
   the two seeded copies and a new rule 2 = {1} + x.2 *)
Definition ex1_s0 : spec :=
  mkSpec 0 [(0, Plain (mkB 0 0 BNormal [1; 2] [] 1 false));
            (1, Plain (mkB 2 1 (BVerif false) [] [] 3 false));
            (2, Plain (mkB 4 2 (BVerif true) [] [] 5 false))].
Definition ex1_st0 : store := mkStore 6 [(0, 0); (2, 0); (4, 0)] 0.
Definition ex1_rounds : list (list answer) :=
  [[Some [FromCache 0; FromCache 1; Fresh 2 BNormal [1; 2] [] false]]].
Definition ex1_s1 : spec :=
  mkSpec 0 [(0, Plain (mkB 6 0 BNormal [1; 2] [] 1 false));
            (1, Plain (mkB 7 1 (BVerif false) [] [] 3 false));
            (2, Plain (mkB 8 2 BNormal [1; 2] [] 9 false))].

Lemma ex1_run : expand_verified 5 false [] ex1_s0 ex1_rounds ex1_st0 =
  (Done ex1_s1, mkStore 10 [(6, 1); (7, 1); (8, 1); (0, 0); (2, 0); (4, 0)] 1, [(2, false, false)]).
Proof. vm_compute. reflexivity. Qed.

(* ------------------------------------------------------------------ run 2
   0 is an equivalence path (one step, an EquivalenceRule with an inner original rule 3) to the
   verified class 1; the reverse-free search finds nothing; the retry answers with the seeded
   member and a new REVERSE rule for 1 with children 2, 3 (3 is an empty class) *)
Definition ex2_s0 : spec :=
  mkSpec 0 [(0, Path 0 1 [mkB 2 0 BEquiv [1] [3] 4 false]);
            (1, Plain (mkB 5 1 (BVerif true) [] [] 6 false))].
Definition ex2_st0 : store := mkStore 7 [(0, 0); (5, 0)] 0.
Definition ex2_rounds : list (list answer) :=
  [[None; Some [FromCache 0; Fresh 1 BNormal [2; 3] [None] true; Fresh 2 (BVerif false) [] [] false]]].
Definition ex2_s1 : spec :=
  mkSpec 0 [(0, Path 14 15 [mkB 8 0 BEquiv [1] [3] 4 false]);
            (1, Plain (mkB 9 1 BNormal [2; 3] [11] 10 true));
            (2, Plain (mkB 12 2 (BVerif false) [] [] 13 false));
            (3, Plain (mkB 16 3 (BVerif false) [] [] 17 false))].

Lemma ex2_run : expand_verified 5 false [3] ex2_s0 ex2_rounds ex2_st0 =
  (Done ex2_s1, mkStore 18 [(14, 1); (9, 1); (12, 1); (16, 1); (0, 0); (5, 0)] 1, [(1, true, true)]).
Proof. vm_compute. reflexivity. Qed.

(* the same run with a detaching copy *)
Lemma ex2_run_deep : exists s' st',
  expand_verified 5 true [3] ex2_s0 ex2_rounds ex2_st0 = (Done s', st', [(1, true, true)]) /\
  forall i, In i (inner_objects s' ++ caches s') -> 7 <= i.
Proof.
  eexists. eexists. split; [vm_compute; reflexivity|].
  vm_compute. intros i H. repeat (destruct H as [<-|H]; [lia|]). contradiction.
Qed.

(* ------------------------------------------------------------------ semantics for run 1
   terms = number of objects;  T 1 = 1,0,0,...  T 2 = 1,1,1,...  T 0 = 2,1,1,... *)
Open Scope Z_scope.
Definition exT (c : nat) (n : Z) : Z :=
  match c with
  | O => if n =? 0 then 2 else if 0 <? n then 1 else 0
  | S O => if n =? 0 then 1 else 0
  | S (S O) => if 0 <=? n then 1 else 0
  | _ => 0
  end.
Definition op_union (p : nat -> Z -> Z) (_ : Z -> Z) (n : Z) : Z := if n <? 0 then 0 else p 0%nat n + p 1%nat n.
Definition op_atom (_ : nat -> Z -> Z) (_ : Z -> Z) (n : Z) : Z := if n =? 0 then 1 else 0.
Definition op_all (_ : nat -> Z -> Z) (_ : Z -> Z) (n : Z) : Z := if 0 <=? n then 1 else 0.
Definition op_step (p : nat -> Z -> Z) (_ : Z -> Z) (n : Z) : Z := if n <? 0 then 0 else p 0%nat n + p 1%nat (n - 1).
Definition op_zero (_ : nat -> Z -> Z) (_ : Z -> Z) (_ : Z) : Z := 0.

(* the operator of a rule is a function of what the rule is (class, form), not of its identity *)
Definition ex_opr (r : rule) : srule Z :=
  match r with
  | Plain b =>
      match b_cls b, b_kind b with
      | O, BNormal => mkrule Z [(1%nat, 0); (2%nat, 0)] op_union
      | S O, BVerif _ => mkrule Z [] op_atom
      | S (S O), BVerif _ => mkrule Z [] op_all
      | S (S O), BNormal => mkrule Z [(1%nat, 0); (2%nat, 1)] op_step
      | _, _ => mkrule Z [] op_zero
      end
  | Path _ _ _ => mkrule Z [] op_zero
  end.

Definition ex_contents : list (nat * bkind * list nat * bool) :=
  [(0%nat, BNormal, [1%nat; 2%nat], false); (1%nat, BVerif false, [], false);
   (2%nat, BVerif true, [], false); (2%nat, BNormal, [1%nat; 2%nat], false)].
Definition ex_Gb (b : brule) : Prop := In (content b) ex_contents.

Lemma ex_Gb_ext b b' : content b = content b' -> ex_Gb b -> ex_Gb b'.
Proof. unfold ex_Gb. intros ->. auto. Qed.

Ltac zb := repeat match goal with
                  | |- context [?a =? ?b] => destruct (Z.eqb_spec a b)
                  | |- context [?a <? ?b] => destruct (Z.ltb_spec a b)
                  | |- context [?a <=? ?b] => destruct (Z.leb_spec a b)
                  end; try lia.

Lemma ex_sem_plain b : ex_Gb b -> good Z 0 exT ex_opr (Plain b).
Proof.
  unfold ex_Gb, content. destruct b as [i c k kids inner cache rev]. simpl.
  intros [H|[H|[H|[H|[]]]]]; inversion H; subst; unfold good; simpl; (split; [|split]).
  - intros p p' o o' n Hp Ho. unfold op_union. simpl.
    destruct (Z.ltb_spec n 0); auto.
    rewrite (Hp 0%nat n), (Hp 1%nat n); simpl; auto; unfold shift; simpl; lia.
  - intros n Hn. simpl. unfold op_union, kid. simpl. zb.
  - intros p o n Hn. unfold op_union. zb.
  - intros p p' o o' n Hp Ho. reflexivity.
  - intros n Hn. simpl. reflexivity.
  - intros p o n Hn. unfold op_atom. zb.
  - intros p p' o o' n Hp Ho. reflexivity.
  - intros n Hn. simpl. reflexivity.
  - intros p o n Hn. unfold op_all. zb.
  - intros p p' o o' n Hp Ho. unfold op_step. simpl.
    destruct (Z.ltb_spec n 0); auto.
    rewrite (Hp 0%nat n), (Hp 1%nat (n - 1)); simpl; auto; unfold shift; simpl; lia.
  - intros n Hn. simpl. unfold op_step, kid. simpl. zb.
  - intros p o n Hn. unfold op_step. zb.
Qed.

Lemma ex_sem_path p pc ms :
  ms <> [] -> linked ms -> path_ok ms = true -> Forall ex_Gb ms -> good Z 0 exT ex_opr (Path p pc ms).
Proof.
  intros Hne _ Hok HG. exfalso. destruct ms as [|m t]; [congruence|].
  simpl in Hok. inversion HG as [|? ? Hm _]. subst. unfold ex_Gb, content in Hm.
  destruct (b_kind m) eqn:EK; simpl in Hok; try discriminate.
  simpl in Hm. destruct Hm as [H|[H|[H|[H|[]]]]]; inversion H; congruence.
Qed.

Lemma exT_neg c m : m < 0 -> exT c m = 0.
Proof. intros H. destruct c as [|[|[|c]]]; simpl; auto; zb. Qed.

Lemma ex_pumps0 : pumps (keys_of Z ex_opr ex1_s0) 0%nat.
Proof.
  intros v.
  assert (forall w, derivable (keys_of Z ex_opr ex1_s0) 1%nat w) as D1.
  { intros w. apply (der_rule _ (mkkey 1%nat [])); [simpl; auto|]. intros c s []. }
  assert (forall w, derivable (keys_of Z ex_opr ex1_s0) 2%nat w) as D2.
  { intros w. apply (der_rule _ (mkkey 2%nat [])); [simpl; auto|]. intros c s []. }
  apply (der_rule _ (mkkey 0%nat [(1%nat, 0); (2%nat, 0)])); [simpl; auto|].
  intros c s [H|[H|[]]]; inversion H; subst; auto.
Qed.

Lemma ex_pumps1 : pumps (keys_of Z ex_opr ex1_s1) 0%nat.
Proof.
  assert (forall w, derivable (keys_of Z ex_opr ex1_s1) 1%nat w) as D1.
  { intros w. apply (der_rule _ (mkkey 1%nat [])); [simpl; auto|]. intros c s []. }
  assert (forall w, derivable (keys_of Z ex_opr ex1_s1) 2%nat w) as D2.
  { intros w. destruct (Z_lt_le_dec w 0) as [Hw|Hw]; [apply der_zero; lia|].
    pattern w. apply natlike_ind; auto.
    - apply der_zero. lia.
    - intros x Hx IH. apply (der_rule _ (mkkey 2%nat [(1%nat, 0); (2%nat, 1)])); [simpl; auto|].
      intros c s [H|[H|[]]]; inversion H; subst; auto.
      replace (Z.succ x - 1) with x by lia. exact IH. }
  intros v. apply (der_rule _ (mkkey 0%nat [(1%nat, 0); (2%nat, 0)])); [simpl; auto|].
  intros c s [H|[H|[]]]; inversion H; subst; auto.
Qed.

Lemma ex1_keyed : keyed ex1_s0.
Proof.
  split; simpl.
  - repeat constructor; simpl; intuition discriminate.
  - intros c r [H|[H|[H|[]]]]; inversion H; reflexivity.
Qed.

Lemma ex1_atoms : Forall ex_Gb (spec_atoms ex1_s0).
Proof.
  apply Forall_forall. intros b Hb. simpl in Hb. unfold ex_Gb.
  destruct Hb as [<-|[<-|[<-|[]]]]; simpl; tauto.
Qed.

Lemma ex1_good c r : In (c, r) (s_rules ex1_s0) -> good Z 0 exT ex_opr r.
Proof.
  intros [H|[H|[H|[]]]]; inversion H; subst; apply ex_sem_plain; unfold ex_Gb; simpl; tauto.
Qed.

Lemma ex1_rounds_ok :
  rounds_ok (fun (_ : bool) its => Forall (fun it => forall b, made_from it b -> ex_Gb b) its) ex1_rounds.
Proof.
  constructor; [|constructor]. split; simpl; [|exact I].
  constructor; [intros b []|]. constructor; [intros b []|]. constructor; [|constructor].
  intros b Hb. unfold ex_Gb. simpl in Hb. rewrite Hb. simpl. tauto.
Qed.
Close Scope Z_scope.
