(* Spec/Eval.v's eval_correct under a hypothesis that can be met.

   Spec/Eval.v assumes  op_neg : forall r p o n, n < 0 -> r_op r p o n = dflt  for EVERY rule
   record r, which no term type with two elements satisfies (take r_op := fun _ _ _ => x with
   x <> dflt).  Only the rules OF THE SPECIFICATION are ever evaluated, so the statement is
   re-proved here with the hypothesis restricted to them (the proof is the one of Spec/Eval.v
   with that single change); the other lemmas of Spec/Eval.v used here (pumps_ev) do not depend
   on op_neg. *)
From Coq Require Import ZArith List Lia.
From CSS Require Import Forest.Spec Spec.Eval.
Import ListNotations.
Open Scope Z_scope.

Section EvalSpec.
Variable terms : Type.
Variable dflt : terms.
Variable spec : nat -> option (srule terms).
Variable T : nat -> Z -> terms.
Hypothesis T_neg : forall c m, m < 0 -> T c m = dflt.
Hypothesis op_neg_spec : forall c r, spec c = Some r -> forall p o n, n < 0 -> r_op terms r p o n = dflt.
Hypothesis all_local : forall c r, spec c = Some r -> local terms r.
Hypothesis all_genuine : forall c r, spec c = Some r -> genuine terms T c r.

Lemma eval_neg' fuel c n : n < 0 -> eval terms dflt spec fuel c n = dflt.
Proof.
  intros Hn. destruct fuel as [|f]; simpl; auto. destruct (spec c) as [r|] eqn:E; auto.
  apply (op_neg_spec c r E); auto.
Qed.

(* evaluation returns the true table once the fuel is large enough *)
Theorem eval_correct' : forall c n, ev terms spec c n ->
  exists f0, forall f, (f0 <= f)%nat -> eval terms dflt spec f c n = T c n.
Proof.
  induction 1 as [c r n Hs Hk IHk Ho IHo].
  (* a bound for finitely many children reads: use classical-free choice via
     induction on the finite ranges *)
  assert (exists fk, forall i m, (i < length (r_kids terms r))%nat -> 0 <= m -> m <= n - shift terms r i ->
            forall f, (fk <= f)%nat -> eval terms dflt spec f (kid terms r i) m = T (kid terms r i) m) as [fk Hfk].
  { assert (forall len, (len <= length (r_kids terms r))%nat ->
              exists fk, forall i m, (i < len)%nat -> 0 <= m -> m <= n - shift terms r i ->
                forall f, (fk <= f)%nat -> eval terms dflt spec f (kid terms r i) m = T (kid terms r i) m) as G.
    { induction len as [|len IHl]; intros Hl.
      - exists O. intros i m Hi. lia.
      - destruct IHl as [f1 H1]; [lia|].
        (* child `len`: sizes 0 .. n - shift *)
        assert (forall b, exists f2, forall m, 0 <= m -> m <= b -> m <= n - shift terms r len ->
                  forall f, (f2 <= f)%nat -> eval terms dflt spec f (kid terms r len) m = T (kid terms r len) m) as G2.
        { intros b. destruct (Z_lt_le_dec b 0) as [Hb|Hb]; [exists O; intros; lia|].
          pattern b. apply natlike_ind; auto.
          - destruct (Z_le_gt_dec 0 (n - shift terms r len)) as [Hle|Hgt].
            + destruct (IHk len 0 ltac:(lia) ltac:(lia) Hle) as [f2 H2].
              exists f2. intros m Hm0 Hmb _ f Hf. assert (m = 0) as -> by lia. auto.
            + exists O. intros; lia.
          - intros x Hx [f2 H2].
            destruct (Z_le_gt_dec (Z.succ x) (n - shift terms r len)) as [Hle|Hgt].
            + destruct (IHk len (Z.succ x) ltac:(lia) ltac:(lia) Hle) as [f3 H3].
              exists (Nat.max f2 f3). intros m Hm0 Hmb Hmn f Hf.
              destruct (Z.eq_dec m (Z.succ x)) as [->|Hne]; [apply H3; lia|apply H2; lia].
            + exists f2. intros m Hm0 Hmb Hmn f Hf. apply H2; auto; lia. }
        destruct (G2 (n - shift terms r len)) as [f2 H2].
        exists (Nat.max f1 f2). intros i m Hi Hm0 Hm f Hf.
        destruct (Nat.eq_dec i len) as [->|Hne]; [apply H2; auto; lia|apply H1; auto; lia]. }
    apply (G (length (r_kids terms r))). lia. }
  assert (exists fo, forall m, 0 <= m -> m < n -> forall f, (fo <= f)%nat -> eval terms dflt spec f c m = T c m)
    as [fo Hfo].
  { assert (forall b, exists fo, forall m, 0 <= m -> m < b -> m < n ->
              forall f, (fo <= f)%nat -> eval terms dflt spec f c m = T c m) as G.
    { intros b. destruct (Z_lt_le_dec b 0) as [Hb|Hb]; [exists O; intros; lia|].
      pattern b. apply natlike_ind; auto.
      - exists O. intros; lia.
      - intros x Hx [f1 H1]. destruct (Z_lt_le_dec x n) as [Hlt|Hge].
        + destruct (IHo x Hx Hlt) as [f2 H2]. exists (Nat.max f1 f2). intros m Hm0 Hmb Hmn f Hf.
          destruct (Z.eq_dec m x) as [->|Hne]; [apply H2; lia|apply H1; lia].
        + exists f1. intros m Hm0 Hmb Hmn f Hf. apply H1; auto; lia. }
    destruct (G n) as [fo Ho']. exists fo. intros m Hm0 Hmn. apply Ho'; auto. }
  exists (S (Nat.max fk fo)). intros f Hf. destruct f as [|f]; [lia|]. simpl. rewrite Hs.
  destruct (Z_lt_le_dec n 0) as [Hneg|Hnn].
  { rewrite (op_neg_spec c r Hs) by auto. symmetry. apply T_neg; auto. }
  rewrite <- (all_genuine c r Hs n Hnn).
  apply (all_local c r Hs).
  - intros i m Hi Hm. destruct (Z_lt_le_dec m 0) as [Hm0|Hm0].
    + rewrite eval_neg', T_neg; auto.
    + apply Hfk; auto. lia.
  - intros m Hm. destruct (Z_lt_le_dec m 0) as [Hm0|Hm0].
    + rewrite eval_neg', T_neg; auto.
    + apply Hfo; auto. lia.
Qed.

End EvalSpec.
