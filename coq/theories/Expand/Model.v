(* Executable model of CombinatorialSpecification.expand_verified (specification.py):
     unexpanded_verified_classes, the expand_verified loop with its retry,
     expand_comb_class (ungrouping, copying, seeding), and the constructor of the new
     specification (__init__: rules_dict, _ungroup_equiv_path, _group_equiv_in_path,
     _is_valid_spec, _set_subrules with the lazily added empty rules of get_rule).

   RULE OBJECTS HAVE IDENTITIES.  A rule record carries
     b_id     the identity of the Python object
     b_inner  the identities of the objects reached through `original_rule`
              (EquivalenceRule -> ReverseRule -> Rule ...)
     b_cache  the identity of its terms_cache / objects_cache objects
   and the store carries, per rule identity, the specification whose get_rule its
   subrecs/subterms/subobjects/subsamplers are bound to (`set_subrecs`).
   `copy.copy(rule)` is a SHALLOW copy: a new object (new b_id) that shares every attribute
   value with its source, in particular b_inner and b_cache (mode deep = false, the code as
   it is).  Mode deep = true models a detaching copy (fresh caches, inner objects copied): the
   state the proposed patch findings/C19 would produce.

   What the inner search (CombinatorialSpecificationSearcher._auto_search_rules over a
   RuleDBForest seeded with the copies) hands back is an INPUT of the model, replayed from the
   real run: None = SpecificationNotFound, otherwise the list of rules, each either the k-th
   seeded copy (found through the rule cache) or a rule made by the search.  The theorems
   quantify over all such answers. *)
From Coq Require Import List Bool Arith Lia.
Import ListNotations.

(* ------------------------------------------------------------------ rules *)
Inductive bkind := BNormal | BEquiv | BVerif (pack : bool).   (* EmptyStrategy rules are BVerif false *)

Record brule := mkB {
  b_id : nat;
  b_cls : nat;                 (* comb_class *)
  b_kind : bkind;
  b_kids : list nat;           (* children *)
  b_inner : list nat;
  b_cache : nat;
  b_rev : bool                 (* a ReverseRule, or an equivalence made from one *)
}.

(* EquivalencePathRule: its own identity and cache, and the member rules *)
Inductive rule := Plain (b : brule) | Path (pid pcache : nat) (ms : list brule).

Definition rule_cls (r : rule) : nat :=
  match r with
  | Plain b => b_cls b
  | Path _ _ ms => match ms with m :: _ => b_cls m | [] => 0 end     (* rules[0].comb_class *)
  end.
Definition rule_kids (r : rule) : list nat :=
  match r with
  | Plain b => b_kids b
  | Path _ _ ms => match last (map Some ms) None with Some m => b_kids m | None => [] end  (* rules[-1].children *)
  end.
Definition rule_id (r : rule) : nat := match r with Plain b => b_id b | Path p _ _ => p end.
Definition is_equiv (r : rule) : bool :=
  match r with
  | Path _ _ _ => true
  | Plain b => match b_kind b with BEquiv => true | _ => false end
  end.
Definition atoms (r : rule) : list brule := match r with Plain b => [b] | Path _ _ ms => ms end.

(* ------------------------------------------------------------------ dictionaries (insertion ordered) *)
Definition dict := list (nat * rule).

Fixpoint dget (k : nat) (d : dict) : option rule :=
  match d with
  | [] => None
  | (k', v) :: t => if Nat.eqb k k' then Some v else dget k t
  end.
Definition dmem (k : nat) (d : dict) : bool := match dget k d with Some _ => true | None => false end.
(* d[k] = v : an existing key keeps its position *)
Fixpoint dset (k : nat) (v : rule) (d : dict) : dict :=
  match d with
  | [] => [(k, v)]
  | (k', v') :: t => if Nat.eqb k k' then (k, v) :: t else (k', v') :: dset k v t
  end.
Definition dupdate (d e : dict) : dict := fold_left (fun acc kv => dset (fst kv) (snd kv) acc) e d.
Definition mem (k : nat) (l : list nat) : bool := existsb (Nat.eqb k) l.

Record spec := mkSpec { s_root : nat; s_rules : dict }.
Definition spec_atoms (s : spec) : list brule := flat_map (fun kr => atoms (snd kr)) (s_rules s).

(* ------------------------------------------------------------------ results *)
Inductive res (A : Type) := Ok (a : A) | Err (e : nat).
Arguments Ok {A} a.
Arguments Err {A} e.
Definition E_NOTFOUND := 1.     (* SpecificationNotFound *)
Definition E_ASSERT := 2.       (* AssertionError *)
Definition E_FUEL := 3.         (* the model ran out of fuel *)
Definition E_KEY := 4.          (* KeyError / IndexError *)
Definition E_REPLAY := 5.       (* the replayed answers do not fit the run *)

(* ------------------------------------------------------------------ the store *)
Record store := mkStore {
  next : nat;                     (* identities >= next have never been handed out *)
  owners : list (nat * nat);      (* rule identity -> serial number of the owning specification *)
  serial : nat                    (* serial number of the specification built last *)
}.
Fixpoint owner_of (i : nat) (o : list (nat * nat)) : option nat :=
  match o with
  | [] => None
  | (j, s) :: t => if Nat.eqb i j then Some s else owner_of i t
  end.

(* ------------------------------------------------------------------ CombinatorialSpecification.__init__ *)
(* rules_dict = {rule.comb_class: rule for rule in rules} *)
Definition rules_dict (rules : list rule) : dict :=
  fold_left (fun d r => dset (rule_cls r) r d) rules [].

(* _ungroup_equiv_path *)
Definition path_members (d : dict) : list brule :=
  flat_map (fun kr => match snd kr with Path _ _ ms => ms | Plain _ => [] end) d.
Definition ungroup (d : dict) : dict :=
  fold_left (fun acc m => dset (b_cls m) (Plain m) acc) (path_members d) d.

(* not_hidden_classes *)
Definition not_hidden (root : nat) (d : dict) : list nat :=
  root :: flat_map (fun kr => if is_equiv (snd kr) then [] else rule_cls (snd kr) :: rule_kids (snd kr)) d.

(* EmptyStrategy()(comb_class): a new object *)
Definition empty_rule (n c : nat) : brule := mkB n c (BVerif false) [] [] (S n) false.

(* get_rule: a class without a rule must be empty and lazily receives the empty rule *)
Definition get_rule (empties : list nat) (c : nat) (d : dict) (n : nat) : res (rule * dict * nat) :=
  match dget c d with
  | Some r => Ok (r, d, n)
  | None =>
      if mem c empties then
        let r := Plain (empty_rule n c) in Ok (r, d ++ [(c, r)], S (S n))
      else Err E_ASSERT
  end.

Definition last_b (l : list brule) : option brule := last (map Some l) None.
Definition first_kid (b : brule) : option nat := match b_kids b with c :: _ => Some c | [] => None end.

(* EquivalencePathRule(path_rules): every member an equivalence with exactly one child *)
Definition path_ok (ms : list brule) : bool :=
  forallb (fun m => match b_kind m with BEquiv => true | _ => false end && Nat.eqb (length (b_kids m)) 1) ms.

(* if path_rules and path_rules[-1].children[0] in not_hidden_classes: close the path *)
Definition flush_path (nh : list nat) (pr : list brule) (eqv : dict) (n : nat)
  : res (list brule * dict * nat) :=
  match last_b pr with
  | None => Ok (pr, eqv, n)
  | Some lb =>
      match first_kid lb with
      | None => Err E_KEY
      | Some k =>
          if mem k nh then
            if path_ok pr then
              let p := Path n (S n) pr in Ok ([], dset (rule_cls p) p eqv, S (S n))
            else Err E_ASSERT
          else Ok (pr, eqv, n)
      end
  end.

(* assert not path_rules or path_rules[-1].children[0] == rule.comb_class *)
Definition chain_ok (pr : list brule) (b : brule) : bool :=
  match last_b pr with
  | None => true
  | Some lb => match first_kid lb with
               | Some k => Nat.eqb k (b_cls b)
               | None => false
               end
  end.

(* the while loop of _group_equiv_in_path; the Python stack has its top at the END of the
   list, here at the head *)
Fixpoint dfs (fuel : nat) (empties nh : list nat) (stack visited : list nat) (pr : list brule)
         (eqv d : dict) (n : nat) : res (dict * dict * nat) :=
  match fuel with
  | O => Err E_FUEL
  | S f =>
      match stack with
      | [] => Ok (eqv, d, n)
      | cc :: stack' =>
          match flush_path nh pr eqv n with
          | Err e => Err e
          | Ok (pr1, eqv1, n1) =>
              if mem cc nh && mem cc visited then dfs f empties nh stack' visited pr1 eqv1 d n1
              else
                match get_rule empties cc d n1 with
                | Err e => Err e
                | Ok (r, d2, n2) =>
                    let stack2 := rev (rule_kids r) ++ stack' in
                    match r with
                    | Plain b =>
                        match b_kind b with
                        | BEquiv =>
                            if chain_ok pr1 b
                            then dfs f empties nh stack2 (cc :: visited) (pr1 ++ [b]) eqv1 d2 n2
                            else Err E_ASSERT
                        | _ => dfs f empties nh stack2 (cc :: visited) pr1 eqv1 d2 n2
                        end
                    | Path _ _ _ => dfs f empties nh stack2 (cc :: visited) pr1 eqv1 d2 n2
                    end
                end
          end
      end
  end.

(* _is_valid_spec *)
Definition all_classes (d : dict) : list nat :=
  flat_map (fun kr => rule_cls (snd kr) :: rule_kids (snd kr)) d.
Definition valid_spec (empties : list nat) (root : nat) (d : dict) : bool :=
  mem root (all_classes d) && forallb (fun c => dmem c d || mem c empties) (all_classes d).

(* _group_equiv_in_path *)
Definition group (fuel : nat) (empties : list nat) (root : nat) (d0 : dict) (n : nat) : res (dict * nat) :=
  let d := ungroup d0 in
  let nh := not_hidden root d in
  match dfs fuel empties nh [root] [] [] [] d n with
  | Err e => Err e
  | Ok (eqv, d2, n2) =>
      let d3 := filter (fun kr => mem (fst kr) nh) d2 in
      let d4 := dupdate d3 eqv in
      if valid_spec empties root d4 then Ok (d4, n2) else Err E_ASSERT
  end.

(* _set_subrules: for rule in list(self): rule.set_subrecs(self.get_rule) — every child is looked
   up with get_rule, which lazily adds empty rules at the end of the dictionary *)
Fixpoint get_rules (empties : list nat) (cs : list nat) (d : dict) (n : nat) : res (dict * nat) :=
  match cs with
  | [] => Ok (d, n)
  | c :: t =>
      match get_rule empties c d n with
      | Err e => Err e
      | Ok (_, d', n') => get_rules empties t d' n'
      end
  end.
Fixpoint set_subrules (empties : list nat) (snapshot : list rule) (d : dict) (n : nat) : res (dict * nat) :=
  match snapshot with
  | [] => Ok (d, n)
  | r :: t =>
      match get_rules empties (rule_kids r) d n with
      | Err e => Err e
      | Ok (d', n') => set_subrules empties t d' n'
      end
  end.

Definition group_fuel (d : dict) : nat :=
  let k := length d + length (path_members d) + 2 in
  2 * k * k * (1 + length (all_classes d)) + 8.

(* CombinatorialSpecification(root, rules): the new specification gets the next serial number and
   becomes the owner of the sub-recurrences of the rules it holds when _set_subrules runs *)
Definition spec_init (empties : list nat) (root : nat) (rules : list rule) (st : store) : res (spec * store) :=
  let d0 := rules_dict rules in
  match group (group_fuel d0) empties root d0 (next st) with
  | Err e => Err e
  | Ok (d1, n1) =>
      let snapshot := map snd d1 in
      match set_subrules empties snapshot d1 n1 with
      | Err e => Err e
      | Ok (d2, n2) =>
          if dmem root d2 then       (* _enforce_labels reads rules_dict[root] *)
            let sn := S (serial st) in
            Ok (mkSpec root d2,
                mkStore n2 (map (fun r => (rule_id r, sn)) snapshot ++ owners st) sn)
          else Err E_KEY
      end
  end.

(* ------------------------------------------------------------------ expand_comb_class *)
(* copy(rule) *)
Definition copy_b (deep : bool) (n : nat) (b : brule) : brule * nat :=
  if deep then
    (mkB n (b_cls b) (b_kind b) (b_kids b) (seq (S (S n)) (length (b_inner b))) (S n) (b_rev b),
     S (S n) + length (b_inner b))
  else
    (mkB n (b_cls b) (b_kind b) (b_kids b) (b_inner b) (b_cache b) (b_rev b), S n).

Fixpoint copy_list (deep : bool) (n : nat) (l : list brule) : list brule * nat :=
  match l with
  | [] => ([], n)
  | b :: t =>
      let '(b', n1) := copy_b deep n b in
      let '(t', n2) := copy_list deep n1 t in
      (b' :: t', n2)
  end.

(* for cc, rule in self.rules_dict.items(): if cc != comb_class: paths are unpacked *)
Definition seed_sources (x : nat) (d : dict) : list brule :=
  flat_map (fun kr => if Nat.eqb (fst kr) x then [] else atoms (snd kr)) d.
Definition seed (deep : bool) (x : nat) (d : dict) (n : nat) : list brule * nat :=
  copy_list deep n (seed_sources x d).

(* one rule of the inner search's answer *)
Inductive item :=
| FromCache (k : nat)                        (* the k-th seeded copy, found through the rule cache *)
| Fresh (c : nat) (k : bkind) (kids : list nat) (inner : list (option nat)) (rev : bool).
   (* made by the search; an inner object is new (None) or the k-th seeded copy (Some k) *)

Fixpoint inner_ids (seeded : list brule) (inner : list (option nat)) (n : nat) : res (list nat * nat) :=
  match inner with
  | [] => Ok ([], n)
  | None :: t =>
      match inner_ids seeded t (S n) with
      | Err e => Err e
      | Ok (l, n') => Ok (n :: l, n')
      end
  | Some k :: t =>
      match nth_error seeded k with
      | None => Err E_REPLAY
      | Some b =>
          match inner_ids seeded t n with
          | Err e => Err e
          | Ok (l, n') => Ok (b_id b :: b_inner b ++ l, n')
          end
      end
  end.

Definition resolve (seeded : list brule) (it : item) (n : nat) : res (brule * nat) :=
  match it with
  | FromCache k =>
      match nth_error seeded k with
      | Some b => Ok (b, n)
      | None => Err E_REPLAY
      end
  | Fresh c k kids inner rev =>
      match inner_ids seeded inner (S (S n)) with
      | Err e => Err e
      | Ok (l, n') => Ok (mkB n c k kids l (S n) rev, n')
      end
  end.

Fixpoint resolve_all (seeded : list brule) (its : list item) (n : nat) : res (list brule * nat) :=
  match its with
  | [] => Ok ([], n)
  | it :: t =>
      match resolve seeded it n with
      | Err e => Err e
      | Ok (b, n1) =>
          match resolve_all seeded t n1 with
          | Err e => Err e
          | Ok (l, n2) => Ok (b :: l, n2)
          end
      end
  end.

Definition answer := option (list item).      (* None = SpecificationNotFound *)

(* expand_comb_class(comb_class, pack, reverse, continue_expanding_verified) *)
Definition expand_comb_class (deep : bool) (empties : list nat) (s : spec) (x : nat) (ans : answer)
           (st : store) : res (spec * store) :=
  let '(seeded, n1) := seed deep x (s_rules s) (next st) in
  match ans with
  | None => Err E_NOTFOUND            (* the identities of the copies are spent all the same *)
  | Some its =>
      match resolve_all seeded its n1 with
      | Err e => Err e
      | Ok (bs, n2) => spec_init empties (s_root s) (map Plain bs) (mkStore n2 (owners st) (serial st))
      end
  end.
(* the store after a failed attempt *)
Definition spend (deep : bool) (s : spec) (x : nat) (st : store) : store :=
  mkStore (snd (seed deep x (s_rules s) (next st))) (owners st) (serial st).

(* ------------------------------------------------------------------ expand_verified *)
(* next(new_spec.unexpanded_verified_classes()) *)
Fixpoint unexpanded (d : dict) : option nat :=
  match d with
  | [] => None
  | (c, Plain b) :: t => match b_kind b with BVerif true => Some c | _ => unexpanded t end
  | (_, Path _ _ _) :: t => unexpanded t
  end.

Inductive outcome := Done (s : spec) | Failed (e : nat).
(* one entry per round: the class expanded, the reverse flag of the call that produced the new
   specification, whether the reverse-free call had raised SpecificationNotFound *)
Definition trace := list (nat * bool * bool).

Fixpoint loop (fuel : nat) (deep : bool) (empties : list nat) (s : spec)
         (rounds : list (list answer)) (st : store) (tr : trace) : outcome * store * trace :=
  match fuel with
  | O => (Failed E_FUEL, st, tr)
  | S f =>
      match unexpanded (s_rules s) with
      | None => (Done s, st, tr)
      | Some x =>
          match rounds with
          | [] => (Failed E_REPLAY, st, tr)
          | rd :: rest =>
              (* reverse=False, continue_expanding_verified=False *)
              match expand_comb_class deep empties s x (nth 0 rd None) st with
              | Ok (s', st') => loop f deep empties s' rest st' (tr ++ [(x, false, false)])
              | Err e =>
                  if Nat.eqb e E_NOTFOUND then
                    (* except SpecificationNotFound: reverse=True, continue_expanding_verified=True *)
                    let st1 := spend deep s x st in
                    match expand_comb_class deep empties s x (nth 1 rd None) st1 with
                    | Ok (s', st') => loop f deep empties s' rest st' (tr ++ [(x, true, true)])
                    | Err e2 => (Failed e2, spend deep s x st1, tr ++ [(x, true, true)])
                    end
                  else (Failed e, st, tr ++ [(x, false, false)])
              end
          end
      end
  end.

Definition expand_verified (fuel : nat) (deep : bool) (empties : list nat) (s : spec)
           (rounds : list (list answer)) (st : store) : outcome * store * trace :=
  loop fuel deep empties s rounds st [].
