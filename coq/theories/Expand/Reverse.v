(* Reverse rules of the result: copies of reverse rules of the original, or made by a call that
   allowed them (the retry after SpecificationNotFound) — provided the reverse-free searches keep
   their contract (RuleDBForest(reverse=False) makes no reverse rule). *)
From Coq Require Import List Bool Arith Lia.
From CSS Require Import Expand.Model Expand.InitProofs Expand.StepProofs Expand.LoopProofs.
Import ListNotations.

Section Rev.
Variable deep : bool.
Variable empties : list nat.

Definition retry_made (rounds : list (list answer)) (ct : nat * bkind * list nat * bool) : Prop :=
  exists rd its c k kids inner,
    In rd rounds /\ nth 1 rd None = Some its /\ In (Fresh c k kids inner true) its /\ ct = (c, k, kids, true).
Definition no_fresh_reverse (its : list item) : Prop :=
  forall c k kids inner, ~ In (Fresh c k kids inner true) its.

Theorem reverse_origin fuel s0 rounds st s' st' tr' :
  (forall rd its, In rd rounds -> nth 0 rd None = Some its -> no_fresh_reverse its) ->
  loop fuel deep empties s0 rounds st [] = (Done s', st', tr') ->
  forall b, In b (spec_atoms s') -> b_rev b = true ->
    (exists b0, In b0 (spec_atoms s0) /\ content b = content b0) \/ retry_made rounds (content b).
Proof.
  intros H1 H.
  pose (Q := fun b => b_rev b = true ->
                      (exists b0, In b0 (spec_atoms s0) /\ content b = content b0) \/ retry_made rounds (content b)).
  pose (Qitem := fun (_ : bool) it => match it with
                                      | Fresh c k kids inner r => r = true -> retry_made rounds (c, k, kids, true)
                                      | FromCache _ => True
                                      end).
  assert (Forall Q (spec_atoms s')) as HQ.
  { apply (loop_content deep empties Q Qitem) with (fuel := fuel) (s := s0) (rounds := rounds) (st := st)
                                                   (tr := []) (st' := st') (tr' := tr'); auto.
    - intros b b' E Hb Hr. unfold content in E. inversion E as [[E1 E2 E3 E4]].
      assert (content b' = content b) as Ec by (unfold content; congruence).
      rewrite Ec. apply Hb. congruence.
    - intros rev it b Hq Hm Hr. destruct it as [k|c k kids inner r]; simpl in *; [contradiction|].
      right. rewrite Hm. assert (r = true) as -> by (unfold content in Hm; inversion Hm; congruence).
      apply Hq. reflexivity.
    - intros n c _ Hr. simpl in Hr. discriminate.
    - apply Forall_forall. intros b Hb _. left. exists b. auto.
    - apply Forall_forall. intros rd Hrd. unfold ans_ok. split.
      + destruct (nth 0 rd None) as [its|] eqn:E; auto. apply Forall_forall. intros it Hit.
        destruct it as [k|c k kids inner r]; simpl; auto. intros ->. exfalso. eapply H1; eauto.
      + destruct (nth 1 rd None) as [its|] eqn:E; auto. apply Forall_forall. intros it Hit.
        destruct it as [k|c k kids inner r]; simpl; auto. intros ->.
        exists rd, its, c, k, kids, inner. auto. }
  intros b Hb. eapply Forall_forall in HQ; eauto.
Qed.
End Rev.
