(* The expand_verified loop: invariants carried through every round, for every sequence of
   answers of the inner searches. *)
From Coq Require Import List Bool Arith Lia.
From CSS Require Import Expand.Model Expand.InitProofs Expand.StepProofs.
Import ListNotations.

Section Loop.
Variable deep : bool.
Variable empties : list nat.

Lemma expand_none s x st : expand_comb_class deep empties s x None st = Err E_NOTFOUND.
Proof. unfold expand_comb_class. destruct (seed deep x (s_rules s) (next st)). reflexivity. Qed.

Lemma expand_ok_some s x ans st s' st' :
  expand_comb_class deep empties s x ans st = Ok (s', st') -> exists its, ans = Some its.
Proof. destruct ans; eauto. rewrite expand_none. discriminate. Qed.

(* ------------------------------------------------------------------ generic invariants *)
Section Generic.
Variable I : spec -> store -> trace -> Prop.
Variable Pans : bool -> list item -> Prop.       (* what is assumed of an answer, by reverse flag *)
Hypothesis I_spend : forall s x st tr, I s st tr -> I s (spend deep s x st) tr.
Hypothesis I_step : forall s x rev its st s' st' tr,
  I s st tr -> unexpanded (s_rules s) = Some x -> Pans rev its ->
  expand_comb_class deep empties s x (Some its) st = Ok (s', st') ->
  I s' st' (tr ++ [(x, rev, rev)]).

Definition ans_ok (rev : bool) (a : answer) : Prop :=
  match a with Some its => Pans rev its | None => True end.
Definition rounds_ok (rounds : list (list answer)) : Prop :=
  Forall (fun rd => ans_ok false (nth 0 rd None) /\ ans_ok true (nth 1 rd None)) rounds.

Lemma loop_done : forall fuel s rounds st tr s' st' tr',
  rounds_ok rounds -> I s st tr ->
  loop fuel deep empties s rounds st tr = (Done s', st', tr') -> I s' st' tr'.
Proof.
  induction fuel as [|f IH]; intros s rounds st tr s' st' tr' HR HI; simpl; [discriminate|].
  destruct (unexpanded (s_rules s)) as [x|] eqn:EU.
  2:{ intros H. inversion H. subst. exact HI. }
  destruct rounds as [|rd rest]; [discriminate|].
  inversion HR as [|? ? [Ha1 Ha2] HR']. subst. unfold ans_ok in Ha1, Ha2.
  destruct (expand_comb_class deep empties s x (nth 0 rd None) st) as [[s1 st1]|e] eqn:E1.
  - destruct (expand_ok_some _ _ _ _ _ _ E1) as [its Eits]. unfold answer in *. rewrite Eits in E1, Ha1.
    intros H. eapply IH; [exact HR'| |exact H]. eapply I_step; eauto.
  - destruct (Nat.eqb e E_NOTFOUND); [|discriminate].
    destruct (expand_comb_class deep empties s x (nth 1 rd None) (spend deep s x st)) as [[s1 st1]|e2] eqn:E2;
      [|discriminate].
    destruct (expand_ok_some _ _ _ _ _ _ E2) as [its Eits]. unfold answer in *. rewrite Eits in E2, Ha2.
    intros H. eapply IH; [exact HR'| |exact H].
    eapply (I_step s x true its (spend deep s x st)); eauto.
Qed.
End Generic.

Lemma rounds_ok_True rounds : rounds_ok (fun _ _ => True) rounds.
Proof.
  induction rounds as [|a t IH]; constructor; auto.
  unfold ans_ok. split; match goal with |- match ?x with _ => _ end => destruct x end; exact I.
Qed.

Section GenericStore.
Variable IS : store -> Prop.
Hypothesis IS_spend : forall s x st, IS st -> IS (spend deep s x st).
Hypothesis IS_step : forall s x its st s' st',
  IS st -> expand_comb_class deep empties s x (Some its) st = Ok (s', st') -> IS st'.

Lemma loop_store : forall fuel s rounds st tr o st' tr',
  IS st -> loop fuel deep empties s rounds st tr = (o, st', tr') -> IS st'.
Proof.
  induction fuel as [|f IH]; intros s rounds st tr o st' tr' HI; simpl.
  { intros H. inversion H. subst. exact HI. }
  destruct (unexpanded (s_rules s)) as [x|] eqn:EU.
  2:{ intros H. inversion H. subst. exact HI. }
  destruct rounds as [|rd rest].
  { intros H. inversion H. subst. exact HI. }
  destruct (expand_comb_class deep empties s x (nth 0 rd None) st) as [[s1 st1]|e] eqn:E1.
  - destruct (expand_ok_some _ _ _ _ _ _ E1) as [its Eits]. rewrite Eits in E1.
    intros H. eapply IH; [|exact H]. eapply (IS_step s x its st); eauto.
  - destruct (Nat.eqb e E_NOTFOUND).
    + destruct (expand_comb_class deep empties s x (nth 1 rd None) (spend deep s x st)) as [[s1 st1]|e2] eqn:E2.
      * destruct (expand_ok_some _ _ _ _ _ _ E2) as [its Eits]. rewrite Eits in E2.
        intros H. eapply IH; [|exact H]. eapply (IS_step s x its (spend deep s x st)); eauto.
      * intros H. inversion H. subst. auto.
    + intros H. inversion H. subst. exact HI.
Qed.
End GenericStore.

(* ------------------------------------------------------------------ the trace and the retry *)
(* the rounds are consumed in order; an entry carries reverse = True exactly when the reverse-free
   call of that round had raised SpecificationNotFound *)
Inductive aligned : trace -> list (list answer) -> Prop :=
| al_nil : forall rounds, aligned [] rounds
| al_first : forall x rd rest t, nth 0 rd None <> None -> aligned t rest ->
    aligned ((x, false, false) :: t) (rd :: rest)
| al_retry : forall x rd rest t, nth 0 rd None = None -> aligned t rest ->
    aligned ((x, true, true) :: t) (rd :: rest).

Lemma loop_trace : forall fuel s rounds st tr o st' tr',
  loop fuel deep empties s rounds st tr = (o, st', tr') ->
  exists new, tr' = tr ++ new /\ aligned new rounds.
Proof.
  induction fuel as [|f IH]; intros s rounds st tr o st' tr'; simpl.
  { intros H. inversion H. subst. exists []. rewrite app_nil_r. split; auto. constructor. }
  destruct (unexpanded (s_rules s)) as [x|] eqn:EU.
  2:{ intros H. inversion H. subst. exists []. rewrite app_nil_r. split; auto. constructor. }
  destruct rounds as [|rd rest].
  { intros H. inversion H. subst. exists []. rewrite app_nil_r. split; auto. constructor. }
  destruct (expand_comb_class deep empties s x (nth 0 rd None) st) as [[s1 st1]|e] eqn:E1.
  - intros H. destruct (IH _ _ _ _ _ _ _ H) as (new & -> & Hal).
    exists ((x, false, false) :: new). rewrite <- app_assoc. split; auto.
    constructor; auto. intros Hn. unfold answer in *. rewrite Hn, expand_none in E1. discriminate.
  - destruct (Nat.eqb e E_NOTFOUND) eqn:Ee.
    + apply Nat.eqb_eq in Ee. subst. apply notfound_iff in E1.
      destruct (expand_comb_class deep empties s x (nth 1 rd None) (spend deep s x st)) as [[s1 st1]|e2] eqn:E2.
      * intros H. destruct (IH _ _ _ _ _ _ _ H) as (new & -> & Hal).
        exists ((x, true, true) :: new). rewrite <- app_assoc. split; auto. apply al_retry; auto.
      * intros H. inversion H. subst. exists [(x, true, true)]. split; auto.
        apply al_retry; auto. constructor.
    + intros H. inversion H. subst. exists [(x, false, false)]. split; auto.
      constructor; [|constructor]. intros Hn. unfold answer in *. rewrite Hn, expand_none in E1.
      inversion E1. subst. discriminate.
Qed.

Lemma aligned_nth new rounds i x rev rt :
  aligned new rounds -> nth_error new i = Some (x, rev, rt) ->
  rev = rt /\ exists rd, nth_error rounds i = Some rd /\ (rev = true <-> nth 0 rd None = None).
Proof.
  intros H. revert i. induction H as [rounds|x' rd rest t Hn Hal IH|x' rd rest t Hn Hal IH]; intros i.
  - destruct i; discriminate.
  - destruct i as [|i]; simpl.
    + intros E. inversion E. subst. split; auto. exists rd. split; auto. split; [discriminate|contradiction].
    + intros E. destruct (IH _ E) as (A & rd' & B & C). split; auto. exists rd'. auto.
  - destruct i as [|i]; simpl.
    + intros E. inversion E. subst. split; auto. exists rd. split; auto. tauto.
    + intros E. destruct (IH _ E) as (A & rd' & B & C). split; auto. exists rd'. auto.
Qed.

(* ------------------------------------------------------------------ nothing left to expand *)
Lemma loop_exit : forall fuel s rounds st tr s' st' tr',
  loop fuel deep empties s rounds st tr = (Done s', st', tr') -> unexpanded (s_rules s') = None.
Proof.
  induction fuel as [|f IH]; intros s rounds st tr s' st' tr'; simpl; [discriminate|].
  destruct (unexpanded (s_rules s)) as [x|] eqn:EU.
  2:{ intros H. inversion H. subst. exact EU. }
  destruct rounds as [|rd rest]; [discriminate|].
  destruct (expand_comb_class deep empties s x (nth 0 rd None) st) as [[s1 st1]|e] eqn:E1; [apply IH|].
  destruct (Nat.eqb e E_NOTFOUND); [|discriminate].
  destruct (expand_comb_class deep empties s x (nth 1 rd None) (spend deep s x st)) as [[s1 st1]|e2] eqn:E2;
    [apply IH|discriminate].
Qed.

Lemma unexpanded_none d : unexpanded d = None ->
  forall c b, In (c, Plain b) d -> b_kind b <> BVerif true.
Proof.
  induction d as [|[c' r] t IH]; simpl; [intros _ ? ? []|].
  destruct r as [b'|p pc ms].
  - intros H c b [Hin|Hin].
    + inversion Hin. subst. intros EK. rewrite EK in H. discriminate.
    + eapply IH; eauto. destruct (b_kind b') as [| |[|]]; auto. discriminate.
  - intros H c b [Hin|Hin]; [discriminate|]. eapply IH; eauto.
Qed.

Lemma unexpanded_some d x : unexpanded d = Some x ->
  exists b, In (x, Plain b) d /\ b_kind b = BVerif true.
Proof.
  induction d as [|[c' r] t IH]; simpl; [discriminate|].
  destruct r as [b'|p pc ms].
  - destruct (b_kind b') as [| |[|]] eqn:EK;
      try (intros H; destruct (IH H) as (b & A & B); exists b; auto; fail).
    intros H. inversion H. subst. exists b'. auto.
  - intros H. destruct (IH H) as (b & A & B). exists b. auto.
Qed.

(* no rounds: the very same specification is returned *)
Lemma loop_no_round : forall fuel s rounds st tr s' st' tr',
  loop fuel deep empties s rounds st tr = (Done s', st', tr') -> tr' = tr -> s' = s.
Proof.
  intros fuel s rounds st tr s' st' tr' H Ht.
  destruct fuel as [|f]; simpl in H; [discriminate|].
  destruct (unexpanded (s_rules s)) as [x|] eqn:EU; [|inversion H; auto].
  exfalso. destruct rounds as [|rd rest]; [discriminate|].
  assert (forall e s1 st1, loop f deep empties s1 rest st1 (tr ++ [e]) = (Done s', st', tr') -> False) as K.
  { intros e s1 st1 H1. destruct (loop_trace _ _ _ _ _ _ _ _ H1) as (new & Hn & _). subst tr'.
    rewrite <- app_assoc in Hn. apply (f_equal (@length _)) in Hn. rewrite !app_length in Hn. simpl in Hn. lia. }
  destruct (expand_comb_class deep empties s x (nth 0 rd None) st) as [[s1 st1]|e] eqn:E1; [eapply K; eauto|].
  destruct (Nat.eqb e E_NOTFOUND); [|discriminate].
  destruct (expand_comb_class deep empties s x (nth 1 rd None) (spend deep s x st)) as [[s1 st1]|e2] eqn:E2;
    [eapply K; eauto|discriminate].
Qed.

(* ------------------------------------------------------------------ contents *)
(* a property of rules that does not depend on object identities, holds of the rules of the
   original, of the rules the inner searches make (by the flag of the call) and of empty rules,
   holds of every rule of every specification met, in particular of the result *)
Section Content.
Variable Q : brule -> Prop.
Variable Qitem : bool -> item -> Prop.
Hypothesis Q_ext : forall b b', content b = content b' -> Q b -> Q b'.
Hypothesis Q_made : forall rev it b, Qitem rev it -> made_from it b -> Q b.
Hypothesis Q_empty : forall n c, mem c empties = true -> Q (empty_rule n c).

Lemma content_step s x rev its st s' st' :
  Forall Q (spec_atoms s) -> Forall (Qitem rev) its ->
  expand_comb_class deep empties s x (Some its) st = Ok (s', st') -> Forall Q (spec_atoms s').
Proof.
  intros HQ Hits H. destruct (expand_ok _ _ _ _ _ _ _ _ H _ eq_refl) as (_ & _ & _ & _ & _ & HA & _).
  apply Forall_forall. intros b Hb. destruct (HA _ Hb) as [_ [(b0 & Hin & Hc)|[(it & Hin & Hm)|(n & c & -> & Hm)]]].
  - apply (Q_ext b0); auto. destruct (seed_sources_atoms _ _ _ Hin) as (c & r & Hr & _ & Hb0).
    eapply Forall_forall in HQ; [exact HQ|]. unfold spec_atoms. apply in_flat_map. exists (c, r). auto.
  - eapply Q_made; eauto. eapply Forall_forall in Hits; eauto.
  - apply Q_empty; auto.
Qed.

Theorem loop_content fuel s rounds st tr s' st' tr' :
  Forall Q (spec_atoms s) ->
  rounds_ok (fun rev its => Forall (Qitem rev) its) rounds ->
  loop fuel deep empties s rounds st tr = (Done s', st', tr') -> Forall Q (spec_atoms s').
Proof.
  intros HQ HR H.
  apply (loop_done (fun s _ _ => Forall Q (spec_atoms s)) (fun rev its => Forall (Qitem rev) its))
    with (fuel := fuel) (s := s) (rounds := rounds) (st := st) (tr := tr) (st' := st') (tr' := tr'); auto.
  intros. eapply content_step; eauto.
Qed.
End Content.

(* ------------------------------------------------------------------ identities *)
Section Fresh.
Variable n0 : nat.                (* identities below n0 belong to the original *)
Variable s0 : spec.

Definition fresh_spec (s : spec) : Prop :=
  forall c r, In (c, r) (s_rules s) ->
    fresh_path n0 r /\ forall b, In b (atoms r) -> new_b deep n0 (spec_atoms s0) b.

Lemma new_b_trans n srcs b :
  n0 <= n ->
  (forall b0, In b0 srcs -> In b0 (spec_atoms s0) \/ new_b deep n0 (spec_atoms s0) b0) ->
  new_b deep n srcs b -> new_b deep n0 (spec_atoms s0) b.
Proof.
  intros Hn Hs (A & B & C). repeat split; [lia| |].
  - apply Forall_forall. intros i Hi. eapply Forall_forall in B; eauto.
    destruct B as [B|(Hd & b0 & Hb0 & Hi0)]; [left; lia|].
    destruct (Hs _ Hb0) as [H0|(_ & H0 & _)].
    + right. split; auto. exists b0. auto.
    + eapply Forall_forall in H0; eauto.
  - destruct C as [C|(Hd & b0 & Hb0 & ->)]; [left; lia|].
    destruct (Hs _ Hb0) as [H0|(_ & _ & H0)]; auto.
    right. split; auto. exists b0. auto.
Qed.

Lemma fresh_path_mono n m r : n <= m -> fresh_path m r -> fresh_path n r.
Proof. destruct r; simpl; auto. intros H (A & B & C). repeat split; try lia; tauto. Qed.

Definition Ifresh (s : spec) (st : store) (tr : trace) : Prop :=
  n0 <= next st /\ (fresh_spec s \/ (s = s0 /\ tr = [])).

Lemma spend_next s x st : next st <= next (spend deep s x st).
Proof.
  unfold spend, seed. simpl.
  destruct (copy_list deep (next st) (seed_sources x (s_rules s))) as [l n] eqn:E. simpl.
  destruct (copy_list_spec deep (seed_sources x (s_rules s)) _ _ _ _ E (fun b Hb => Hb)). auto.
Qed.

Lemma fresh_step s x its st s' st' tr e :
  Ifresh s st tr -> expand_comb_class deep empties s x (Some its) st = Ok (s', st') ->
  Ifresh s' st' (tr ++ [e]).
Proof.
  intros [Hn HS] H. destruct (expand_ok _ _ _ _ _ _ _ _ H _ eq_refl) as (_ & L & _ & _ & _ & HA & HP & _).
  split; [lia|]. left. intros c r Hin. split.
  - eapply fresh_path_mono; [exact Hn|]. eapply HP; eauto.
  - intros b Hb. assert (In b (spec_atoms s')) as Hb' by (apply in_flat_map; exists (c, r); auto).
    destruct (HA _ Hb') as [G _]. eapply new_b_trans; [exact Hn| |exact G].
    intros b0 Hb0. destruct (seed_sources_atoms _ _ _ Hb0) as (c0 & r0 & Hr0 & _ & Hb00).
    destruct HS as [HS|[-> _]].
    + right. eapply HS; eauto.
    + left. apply in_flat_map. exists (c0, r0). auto.
Qed.

Theorem loop_fresh fuel rounds st s' st' tr' :
  n0 <= next st ->
  loop fuel deep empties s0 rounds st [] = (Done s', st', tr') ->
  tr' <> [] -> fresh_spec s'.
Proof.
  intros Hn H Ht.
  assert (Ifresh s' st' tr') as [_ [K|[_ K]]]; [|exact K|contradiction].
  apply (loop_done Ifresh (fun _ _ => True))
    with (fuel := fuel) (s := s0) (rounds := rounds) (st := st) (tr := []); auto.
  - intros s x st1 tr [A B]. split; auto. pose proof (spend_next s x st1). lia.
  - intros. eapply fresh_step; eauto.
  - apply rounds_ok_True.
  - split; auto.
Qed.

(* the original's sub-recurrences are never rebound; the store counter only grows *)
Lemma owner_of_app i l o : (forall j s, In (j, s) l -> j <> i) -> owner_of i (l ++ o) = owner_of i o.
Proof.
  induction l as [|[j s] t IH]; simpl; auto. intros H.
  destruct (Nat.eqb i j) eqn:E.
  - apply Nat.eqb_eq in E. subst. exfalso. eapply H; eauto.
  - apply IH. intros. eapply H; eauto.
Qed.

Definition Iowner (o0 : list (nat * nat)) (st : store) : Prop :=
  n0 <= next st /\ forall i, i < n0 -> owner_of i (owners st) = owner_of i o0.

Theorem loop_owner fuel s rounds st tr o st' tr' :
  n0 <= next st ->
  loop fuel deep empties s rounds st tr = (o, st', tr') ->
  forall i, i < n0 -> owner_of i (owners st') = owner_of i (owners st).
Proof.
  intros Hn H.
  assert (Iowner (owners st) st') as [_ K]; [|exact K].
  refine (loop_store (Iowner (owners st)) _ _ fuel s rounds st tr o st' tr' _ H).
  - intros s1 x st1 [A B]. split; [pose proof (spend_next s1 x st1); lia|]. exact B.
  - intros s1 x its st1 s2 st2 [A B] E.
    destruct (expand_ok _ _ _ _ _ _ _ _ E _ eq_refl) as (_ & L & _ & _ & _ & _ & _ & snap & O1 & O2 & _).
    split; [lia|]. intros i Hi. rewrite O1, owner_of_app; auto.
    intros j sn Hj. apply in_map_iff in Hj. destruct Hj as (r & Er & Hr). inversion Er. subst.
    pose proof (O2 _ Hr). lia.
  - split; auto.
Qed.
End Fresh.

(* ------------------------------------------------------------------ the result owns its rules *)
Definition bound (s : spec) (st : store) : Prop :=
  forall c r, In (c, r) (s_rules s) ->
    rule_kids r = [] \/ owner_of (rule_id r) (owners st) = Some (serial st).

Lemma owner_of_in sn snap o r :
  In r snap -> owner_of (rule_id r) (map (fun r => (rule_id r, sn)) snap ++ o) = Some sn.
Proof.
  induction snap as [|a t IH]; simpl; [tauto|].
  intros [->|H]; [rewrite Nat.eqb_refl; reflexivity|].
  destruct (Nat.eqb (rule_id r) (rule_id a)); auto.
Qed.

Theorem loop_bound fuel s rounds st s' st' tr' :
  loop fuel deep empties s rounds st [] = (Done s', st', tr') -> tr' <> [] -> bound s' st'.
Proof.
  intros H Ht.
  pose (J := fun s1 (st1 : store) (tr : trace) => tr = [] \/ bound s1 st1).
  assert (J s' st' tr') as [B|B]; [|contradiction|auto].
  refine (loop_done J (fun _ _ => True) _ _ fuel s rounds st [] s' st' tr' (rounds_ok_True _) _ H).
  - intros s1 x st1 tr [HJ|HJ]; [left; auto|right; exact HJ].
  - intros s1 x rev its st1 s2 st2 tr _ _ _ E. right.
    destruct (expand_ok _ _ _ _ _ _ _ _ E _ eq_refl) as (_ & _ & _ & _ & _ & _ & _ & snap & O1 & _ & O3).
    intros c r Hin. destruct (O3 _ _ Hin) as [Hs|Hk]; [right|left; exact Hk].
    rewrite O1. apply owner_of_in. exact Hs.
  - left. reflexivity.
Qed.

(* ------------------------------------------------------------------ validity of the result *)
Theorem loop_closed fuel s rounds st s' st' tr' :
  loop fuel deep empties s rounds st [] = (Done s', st', tr') ->
  tr' <> [] -> s_root s' = s_root s /\ closed s' /\ keyed s'.
Proof.
  intros H Ht.
  pose (J := fun s1 (_ : store) (tr : trace) => s_root s1 = s_root s /\ (tr = [] \/ (closed s1 /\ keyed s1))).
  assert (J s' st' tr') as [A [B|B]]; [|contradiction|auto].
  refine (loop_done J (fun _ _ => True) _ _ fuel s rounds st [] s' st' tr' (rounds_ok_True _) _ H).
  - intros s1 x st1 tr HJ. exact HJ.
  - intros s1 x rev its st1 s2 st2 tr [A B] _ _ E.
    destruct (expand_ok _ _ _ _ _ _ _ _ E _ eq_refl) as (R & _ & _ & C & K & _).
    split; [congruence|]. right. auto.
  - split; auto.
Qed.

End Loop.
