(* What the constructor of a specification (spec_init: rules_dict, ungrouping, grouping of
   equivalence chains into paths, validity check, _set_subrules with lazily added empty rules)
   guarantees about its result, whatever rules it is given:

   provenance   every member rule / plain rule of the result is one of the rules given, or a
                lazily added empty rule (new identity) of an empty class; every path object is
                new and its members form a chain
   keys         one rule per class: the keys are pairwise different and each key is the class
                of its rule
   closed       every child of every rule has a rule, the root has a rule
   owners       the rules whose sub-recurrences are (re)bound are rules of the result *)
From Coq Require Import List Bool Arith Lia.
From CSS Require Import Expand.Model.
Import ListNotations.

(* ------------------------------------------------------------------ small facts *)
Lemma mem_In k l : mem k l = true <-> In k l.
Proof.
  unfold mem. rewrite existsb_exists. split.
  - intros (x & Hx & E). apply Nat.eqb_eq in E. subst. auto.
  - intros H. exists k. split; auto. apply Nat.eqb_refl.
Qed.

Lemma dget_In k d r : dget k d = Some r -> In (k, r) d.
Proof.
  induction d as [|[k' v] t IH]; simpl; [discriminate|].
  destruct (Nat.eqb k k') eqn:E.
  - intros H. inversion H. subst. apply Nat.eqb_eq in E. subst. auto.
  - intros H. right. auto.
Qed.

Lemma dget_None_notin k d : dget k d = None -> ~ In k (map fst d).
Proof.
  induction d as [|[k' v] t IH]; simpl; auto.
  destruct (Nat.eqb k k') eqn:E; [discriminate|].
  intros H [H1|H1]; [subst; rewrite Nat.eqb_refl in E; discriminate|]. apply IH; auto.
Qed.

Lemma dget_Some_in k d : In k (map fst d) -> exists r, dget k d = Some r.
Proof.
  induction d as [|[k' v] t IH]; simpl; [tauto|].
  intros [H|H].
  - subst. rewrite Nat.eqb_refl. eauto.
  - destruct (Nat.eqb k k'); eauto.
Qed.

Lemma dmem_in k d : dmem k d = true <-> In k (map fst d).
Proof.
  unfold dmem. split.
  - destruct (dget k d) eqn:E; [|discriminate]. intros _. apply dget_In in E.
    apply in_map_iff. exists (k, r). auto.
  - intros H. destruct (dget_Some_in _ _ H) as [r ->]. reflexivity.
Qed.

Lemma dget_nodup k r d : NoDup (map fst d) -> In (k, r) d -> dget k d = Some r.
Proof.
  induction d as [|[k' v] t IH]; simpl; [tauto|].
  intros ND [H|H].
  - inversion H. subst. rewrite Nat.eqb_refl. reflexivity.
  - inversion ND as [|? ? Hn ND']. subst. destruct (Nat.eqb k k') eqn:E.
    + apply Nat.eqb_eq in E. subst. exfalso. apply Hn. apply in_map_iff. exists (k', r). auto.
    + apply IH; auto.
Qed.

Lemma NoDup_app_intro_single {A} (l : list A) (k : A) : NoDup l -> ~ In k l -> NoDup (l ++ [k]).
Proof.
  induction l as [|a t IH]; simpl; intros ND Hn.
  - constructor; [intros []|constructor].
  - inversion ND as [|? ? Ha ND']. subst. constructor.
    + intros H. apply in_app_or in H. destruct H as [H|[H|[]]]; auto.
    + apply IH; auto.
Qed.

(* keys after an assignment *)
Lemma dset_keys k v d :
  map fst (dset k v d) = if dmem k d then map fst d else map fst d ++ [k].
Proof.
  induction d as [|[k' v'] t IH]; simpl; auto.
  unfold dmem in *. simpl. destruct (Nat.eqb k k') eqn:E.
  - simpl. apply Nat.eqb_eq in E. subst. reflexivity.
  - simpl. rewrite IH. destruct (dget k t); reflexivity.
Qed.

Lemma dset_nodup k v d : NoDup (map fst d) -> NoDup (map fst (dset k v d)).
Proof.
  intros ND. rewrite dset_keys. destruct (dmem k d) eqn:E; auto.
  apply NoDup_app_intro_single; auto.
  intros H. apply dmem_in in H. congruence.
Qed.

Lemma dset_in k v d kr : In kr (dset k v d) -> kr = (k, v) \/ In kr d.
Proof.
  induction d as [|[k' v'] t IH]; simpl.
  - intros [H|[]]; auto.
  - destruct (Nat.eqb k k'); simpl; intros [H|H]; auto. destruct (IH H); auto.
Qed.

Lemma dset_has k v d : In (k, v) (dset k v d).
Proof.
  induction d as [|[k' v'] t IH]; simpl; auto.
  destruct (Nat.eqb k k'); simpl; auto.
Qed.

Lemma dset_dmem_mono k v d c : dmem c d = true -> dmem c (dset k v d) = true.
Proof.
  rewrite !dmem_in, dset_keys. destruct (dmem k d); auto. intros. apply in_or_app. auto.
Qed.

Lemma dset_dmem_self k v d : dmem k (dset k v d) = true.
Proof.
  rewrite dmem_in. apply in_map_iff. exists (k, v). split; auto. apply dset_has.
Qed.

Lemma last_b_app l b : last_b (l ++ [b]) = Some b.
Proof.
  unfold last_b. rewrite map_app. simpl. apply last_last.
Qed.

Lemma last_b_nil_inv l : last_b l = None -> l = [].
Proof.
  destruct l as [|a t] using rev_ind; auto. rewrite last_b_app. discriminate.
Qed.

Lemma last_b_in l b : last_b l = Some b -> In b l.
Proof.
  destruct l as [|a t] using rev_ind; [discriminate|]. rewrite last_b_app.
  intros H. inversion H. subst. apply in_or_app. right. left. reflexivity.
Qed.

(* ------------------------------------------------------------------ chains *)
Fixpoint linked (ms : list brule) : Prop :=
  match ms with
  | a :: ((b :: _) as t) => first_kid a = Some (b_cls b) /\ linked t
  | _ => True
  end.

Lemma linked_app_one pr b :
  linked pr ->
  match last_b pr with None => True | Some lb => first_kid lb = Some (b_cls b) end ->
  linked (pr ++ [b]).
Proof.
  induction pr as [|a t IH]; intros L H; [exact I|].
  destruct t as [|a' t'].
  - unfold last_b in H. simpl in H. simpl. split; [exact H|exact I].
  - destruct L as [L1 L2]. change ((a :: a' :: t') ++ [b]) with (a :: a' :: (t' ++ [b])).
    split; [exact L1|]. change (a' :: (t' ++ [b])) with ((a' :: t') ++ [b]). apply IH; [exact L2|].
    unfold last_b in *. simpl in *. exact H.
Qed.

(* ------------------------------------------------------------------ provenance *)
Section Prov.
Variable empties : list nat.
Variable lo : nat.                 (* identities >= lo are new *)
Variable R : list rule.            (* the rules handed to the constructor *)

Definition is_lazy (b : brule) : Prop :=
  exists n c, b = empty_rule n c /\ mem c empties = true /\ lo <= n.
Definition okb (b : brule) : Prop := In b (flat_map atoms R) \/ is_lazy b.
Definition okr (r : rule) : Prop :=
  match r with
  | Plain b => okb b
  | Path p pc ms =>
      Forall okb ms /\
      ((lo <= p /\ lo <= pc /\ linked ms /\ path_ok ms = true /\ ms <> []) \/ In r R)
  end.
Definition okd (d : dict) : Prop :=
  Forall (fun kr => okr (snd kr) /\ fst kr = rule_cls (snd kr)) d.
Definition nodupk (d : dict) : Prop := NoDup (map fst d).

Lemma okr_atoms r : okr r -> Forall okb (atoms r).
Proof. destruct r; simpl; [auto|tauto]. Qed.

Lemma in_R_okr r : In r R -> okr r.
Proof.
  intros H. destruct r as [b|p pc ms]; simpl.
  - left. apply in_flat_map. exists (Plain b). simpl. auto.
  - split; [|auto]. apply Forall_forall. intros b Hb. left. apply in_flat_map.
    exists (Path p pc ms). auto.
Qed.

Lemma okd_dset k v d : okd d -> okr v -> k = rule_cls v -> okd (dset k v d).
Proof.
  intros H Hv Hk. apply Forall_forall. intros kr Hin.
  destruct (dset_in _ _ _ _ Hin) as [->|H1]; simpl; auto.
  eapply Forall_forall in H; eauto.
Qed.

Lemma okd_app d e : okd d -> okd e -> okd (d ++ e).
Proof. intros. apply Forall_app. auto. Qed.

Lemma okd_in d k r : okd d -> In (k, r) d -> okr r /\ k = rule_cls r.
Proof. intros H Hin. eapply Forall_forall in H; eauto. exact H. Qed.

(* rules_dict *)
Lemma rules_dict_gen rules d :
  (forall r, In r rules -> In r R) -> okd d -> nodupk d ->
  okd (fold_left (fun d r => dset (rule_cls r) r d) rules d) /\
  nodupk (fold_left (fun d r => dset (rule_cls r) r d) rules d).
Proof.
  revert d. induction rules as [|r t IH]; simpl; intros d HR Hd ND; auto.
  apply IH; auto.
  - apply okd_dset; auto. apply in_R_okr. auto.
  - apply dset_nodup. auto.
Qed.

Lemma rules_dict_ok : okd (rules_dict R) /\ nodupk (rules_dict R).
Proof. apply rules_dict_gen; auto; [constructor|constructor]. Qed.

(* _ungroup_equiv_path *)
Lemma path_members_ok d : okd d -> Forall okb (path_members d).
Proof.
  intros H. apply Forall_forall. intros b Hb. unfold path_members in Hb.
  apply in_flat_map in Hb. destruct Hb as ([k r] & Hin & Hb). simpl in Hb.
  destruct r as [b'|p pc ms]; [contradiction|].
  destruct (okd_in _ _ _ H Hin) as [[Hms _] _]. eapply Forall_forall in Hms; eauto.
Qed.

Lemma ungroup_gen ms d :
  Forall okb ms -> okd d -> nodupk d ->
  okd (fold_left (fun acc m => dset (b_cls m) (Plain m) acc) ms d) /\
  nodupk (fold_left (fun acc m => dset (b_cls m) (Plain m) acc) ms d).
Proof.
  revert d. induction ms as [|m t IH]; simpl; intros d Hms Hd ND; auto.
  inversion Hms; subst. apply IH; auto.
  - apply okd_dset; auto.
  - apply dset_nodup; auto.
Qed.

Lemma ungroup_ok d : okd d -> nodupk d -> okd (ungroup d) /\ nodupk (ungroup d).
Proof. intros. apply ungroup_gen; auto. apply path_members_ok; auto. Qed.

(* growth of a dictionary by lazily added empty rules *)
Definition lazy_entry (kr : nat * rule) : Prop :=
  exists n, snd kr = Plain (empty_rule n (fst kr)) /\ mem (fst kr) empties = true /\ lo <= n.
Definition ext (d d' : dict) : Prop := exists e, d' = d ++ e /\ Forall lazy_entry e.

Lemma ext_refl d : ext d d.
Proof. exists []. rewrite app_nil_r. auto. Qed.
Lemma ext_trans a b c : ext a b -> ext b c -> ext a c.
Proof.
  intros (e1 & -> & H1) (e2 & -> & H2). exists (e1 ++ e2). rewrite app_assoc. split; auto.
  apply Forall_app; auto.
Qed.
Lemma ext_dmem a b k : ext a b -> dmem k a = true -> dmem k b = true.
Proof.
  intros (e & -> & _). rewrite !dmem_in, map_app. intros. apply in_or_app. auto.
Qed.
Lemma ext_in a b kr : ext a b -> In kr b -> In kr a \/ lazy_entry kr.
Proof.
  intros (e & -> & He) Hin. apply in_app_or in Hin. destruct Hin; auto.
  right. eapply Forall_forall in He; eauto.
Qed.
Lemma ext_incl a b kr : ext a b -> In kr a -> In kr b.
Proof. intros (e & -> & _) H. apply in_or_app. auto. Qed.

Lemma lazy_entry_okr kr : lazy_entry kr -> okr (snd kr) /\ fst kr = rule_cls (snd kr).
Proof.
  intros (n & E & Hm & Hn). rewrite E. simpl. split; auto.
  right. exists n, (fst kr). auto.
Qed.

(* get_rule *)
Lemma get_rule_ok c d n r d' n' :
  okd d -> nodupk d -> lo <= n ->
  get_rule empties c d n = Ok (r, d', n') ->
  okd d' /\ nodupk d' /\ okr r /\ c = rule_cls r /\ n <= n' /\ ext d d' /\ In (c, r) d'.
Proof.
  intros Hd ND Hn. unfold get_rule. destruct (dget c d) eqn:E.
  - intros H. inversion H. subst. apply dget_In in E.
    destruct (okd_in _ _ _ Hd E) as [H1 H2]. repeat split; auto. apply ext_refl.
  - destruct (mem c empties) eqn:Em; [|discriminate]. intros H. inversion H. subst. clear H.
    assert (lazy_entry (c, Plain (empty_rule n c))) as HL by (exists n; simpl; auto).
    repeat split.
    + apply okd_app; auto. constructor; [|constructor]. apply (lazy_entry_okr _ HL).
    + unfold nodupk. rewrite map_app. simpl. apply NoDup_app_intro_single; auto.
      apply dget_None_notin; auto.
    + apply (lazy_entry_okr _ HL).
    + lia.
    + exists [(c, Plain (empty_rule n c))]. split; auto.
    + apply in_or_app. right. left. reflexivity.
Qed.

(* the loop of _group_equiv_in_path *)
Definition okpr (pr : list brule) : Prop :=
  Forall okb pr /\ linked pr /\ Forall (fun m => b_kind m = BEquiv) pr.

Lemma flush_ok nh pr eqv n pr1 eqv1 n1 :
  okpr pr -> okd eqv -> lo <= n ->
  flush_path nh pr eqv n = Ok (pr1, eqv1, n1) -> okpr pr1 /\ okd eqv1 /\ n <= n1.
Proof.
  intros Hpr He Hn. unfold flush_path. destruct (last_b pr) eqn:EL.
  - destruct (first_kid b); [|discriminate]. destruct (mem n0 nh).
    + destruct (path_ok pr) eqn:EP; [|discriminate]. intros H. inversion H. subst. clear H.
      split; [repeat split; constructor|]. split; [|lia].
      apply okd_dset; auto. destruct Hpr as (P1 & P2 & P3). simpl. split; auto.
      left. repeat split; auto; try lia. intros ->. discriminate.
    + intros H. inversion H. subst. auto.
  - intros H. inversion H. subst. auto.
Qed.

Lemma dfs_ok : forall fuel nh stack visited pr eqv d n eqv' d' n',
  okd d -> nodupk d -> okd eqv -> okpr pr -> lo <= n ->
  dfs fuel empties nh stack visited pr eqv d n = Ok (eqv', d', n') ->
  okd d' /\ nodupk d' /\ okd eqv' /\ n <= n' /\ ext d d'.
Proof.
  induction fuel as [|f IH]; intros nh stack visited pr eqv d n eqv' d' n' Hd ND He Hpr Hn; simpl;
    [discriminate|].
  destruct stack as [|cc stack'].
  { intros H. inversion H. subst. repeat split; auto. apply ext_refl. }
  destruct (flush_path nh pr eqv n) as [[[pr1 eqv1] n1]|e] eqn:EF; [|discriminate].
  destruct (flush_ok _ _ _ _ _ _ _ Hpr He Hn EF) as (Hpr1 & He1 & Hn1).
  assert (lo <= n1) as Hlo1 by lia.
  destruct (mem cc nh && mem cc visited).
  { intros H. destruct (IH _ _ _ _ _ _ _ _ _ _ Hd ND He1 Hpr1 Hlo1 H) as (A & B & C & D & E).
    repeat split; auto. lia. }
  destruct (get_rule empties cc d n1) as [[[r d2] n2]|e] eqn:EG; [|discriminate].
  destruct (get_rule_ok _ _ _ _ _ _ Hd ND Hlo1 EG) as (Hd2 & ND2 & Hr & Hc & Hn2 & Hext & _).
  assert (lo <= n2) as Hlo2 by lia.
  assert (forall pr2, okpr pr2 ->
            dfs f empties nh (rev (rule_kids r) ++ stack') (cc :: visited) pr2 eqv1 d2 n2 = Ok (eqv', d', n') ->
            okd d' /\ nodupk d' /\ okd eqv' /\ n <= n' /\ ext d d') as Go.
  { intros pr2 Hpr2 H.
    destruct (IH _ _ _ _ _ _ _ _ _ _ Hd2 ND2 He1 Hpr2 Hlo2 H) as (A & B & C & D & E).
    repeat split; auto; [lia|]. eapply ext_trans; eauto. }
  destruct r as [b|p pc ms]; [|apply Go; auto].
  destruct (b_kind b) eqn:EK; try (apply Go; auto).
  destruct (chain_ok pr1 b) eqn:EO; [|discriminate].
  apply Go. destruct Hpr1 as (P1 & P2 & P3). repeat split.
  - apply Forall_app. split; auto.
  - apply linked_app_one; auto. unfold chain_ok in EO. destruct (last_b pr1); auto.
    destruct (first_kid b0); [|discriminate]. apply Nat.eqb_eq in EO. subst. reflexivity.
  - apply Forall_app. split; auto.
Qed.

Lemma okd_filter f d : okd d -> okd (filter f d).
Proof.
  intros H. apply Forall_forall. intros kr Hin. apply filter_In in Hin.
  eapply Forall_forall in H; [exact H|tauto].
Qed.

Lemma nodupk_filter f d : nodupk d -> nodupk (filter f d).
Proof.
  unfold nodupk. induction d as [|[k v] t IH]; simpl; auto.
  intros ND. inversion ND as [|? ? Hn ND']. subst.
  destruct (f (k, v)); simpl; auto. constructor; auto.
  intros Hin. apply Hn. apply in_map_iff in Hin. destruct Hin as (x & E & Hx).
  apply filter_In in Hx. apply in_map_iff. exists x. tauto.
Qed.

Lemma dupdate_ok e d : okd e -> okd d -> nodupk d -> okd (dupdate d e) /\ nodupk (dupdate d e).
Proof.
  unfold dupdate. revert d. induction e as [|[k v] t IH]; simpl; intros d He Hd ND; auto.
  inversion He as [|? ? [H1 H2] He']. subst. simpl in *. apply IH; auto.
  - apply okd_dset; auto.
  - apply dset_nodup; auto.
Qed.

Lemma group_ok fuel root d0 n d n' :
  okd d0 -> nodupk d0 -> lo <= n ->
  group fuel empties root d0 n = Ok (d, n') ->
  okd d /\ nodupk d /\ n <= n'.
Proof.
  intros Hd ND Hn. unfold group.
  destruct (ungroup_ok _ Hd ND) as [Hu NDu].
  destruct (dfs fuel empties (not_hidden root (ungroup d0)) [root] [] [] [] (ungroup d0) n)
    as [[[eqv d2] n2]|e] eqn:E; [|discriminate].
  destruct (dfs_ok _ _ _ _ _ _ _ _ _ _ _ Hu NDu (Forall_nil _)
              (conj (Forall_nil _) (conj I (Forall_nil _))) Hn E) as (A & B & C & D & _).
  destruct (valid_spec _ _ _); [|discriminate]. intros H. inversion H. subst.
  destruct (dupdate_ok eqv (filter (fun kr => mem (fst kr) (not_hidden root (ungroup d0))) d2) C
              (okd_filter _ _ A) (nodupk_filter _ _ B)) as [X Y].
  auto.
Qed.

(* _set_subrules *)
Lemma get_rules_ok cs : forall d n d' n',
  okd d -> nodupk d -> lo <= n ->
  get_rules empties cs d n = Ok (d', n') ->
  okd d' /\ nodupk d' /\ n <= n' /\ ext d d' /\ forall c, In c cs -> dmem c d' = true.
Proof.
  induction cs as [|c t IH]; simpl; intros d n d' n' Hd ND Hn.
  - intros H. inversion H. subst. repeat split; auto using ext_refl; try (intros ? []).
  - destruct (get_rule empties c d n) as [[[r d1] n1]|e] eqn:E; [|discriminate].
    destruct (get_rule_ok _ _ _ _ _ _ Hd ND Hn E) as (A & B & _ & _ & D & X & Hin).
    assert (lo <= n1) as Hlo1 by lia.
    intros H. destruct (IH _ _ _ _ A B Hlo1 H) as (A' & B' & D' & X' & M).
    repeat split; auto; [lia|eapply ext_trans; eauto|].
    intros c' [->|Hc]; auto. eapply ext_dmem; eauto.
    apply dmem_in. apply in_map_iff. exists (c', r). auto.
Qed.

Lemma set_subrules_ok snap : forall d n d' n',
  okd d -> nodupk d -> lo <= n ->
  set_subrules empties snap d n = Ok (d', n') ->
  okd d' /\ nodupk d' /\ n <= n' /\ ext d d' /\
  forall r c, In r snap -> In c (rule_kids r) -> dmem c d' = true.
Proof.
  induction snap as [|r t IH]; simpl; intros d n d' n' Hd ND Hn.
  - intros H. inversion H. subst. repeat split; auto using ext_refl; try (intros ? ? []).
  - destruct (get_rules empties (rule_kids r) d n) as [[d1 n1]|e] eqn:E; [|discriminate].
    destruct (get_rules_ok _ _ _ _ _ Hd ND Hn E) as (A & B & D & X & M).
    assert (lo <= n1) as Hlo1 by lia.
    intros H. destruct (IH _ _ _ _ A B Hlo1 H) as (A' & B' & D' & X' & M').
    repeat split; auto; [lia|eapply ext_trans; eauto|].
    intros r' c [->|Hr] Hc; eauto. eapply ext_dmem; eauto.
Qed.

End Prov.

(* ------------------------------------------------------------------ the constructor as a whole *)
Definition closed (s : spec) : Prop :=
  dmem (s_root s) (s_rules s) = true /\
  forall c r k, In (c, r) (s_rules s) -> In k (rule_kids r) -> dmem k (s_rules s) = true.
Definition keyed (s : spec) : Prop :=
  NoDup (map fst (s_rules s)) /\ forall c r, In (c, r) (s_rules s) -> c = rule_cls r.

Theorem spec_init_ok empties root rules st s' st' :
  spec_init empties root rules st = Ok (s', st') ->
  s_root s' = root /\
  next st <= next st' /\
  serial st' = S (serial st) /\
  okd empties (next st) rules (s_rules s') /\
  closed s' /\ keyed s' /\
  exists snap, owners st' = map (fun r => (rule_id r, serial st')) snap ++ owners st /\
               (forall r, In r snap -> exists c, In (c, r) (s_rules s')) /\
               (forall c r, In (c, r) (s_rules s') -> In r snap \/ rule_kids r = []).
Proof.
  unfold spec_init. intros H.
  destruct (rules_dict_ok empties (next st) rules) as [H0 ND0].
  destruct (group _ _ _ _ _) as [[d1 n1]|e] eqn:EG; [|discriminate].
  destruct (group_ok _ _ _ _ _ _ _ _ _ H0 ND0 (le_n _) EG) as (H1 & ND1 & L1).
  destruct (set_subrules empties (map snd d1) d1 n1) as [[d2 n2]|e] eqn:ES; [|discriminate].
  destruct (set_subrules_ok _ _ _ _ _ _ _ _ H1 ND1 L1 ES) as (H2 & ND2 & L2 & X & M).
  destruct (dmem root d2) eqn:ER; [|discriminate].
  inversion H. subst. clear H. simpl.
  repeat split; auto; try lia.
  - intros c r k Hin Hk. destruct (ext_in _ _ _ _ _ X Hin) as [Hi|(n & E & _)].
    + eapply M; eauto. apply in_map_iff. exists (c, r). auto.
    + simpl in E. subst. simpl in Hk. contradiction.
  - intros c r Hin. apply (okd_in _ _ _ _ _ _ H2 Hin).
  - exists (map snd d1). split; auto. split.
    + intros r Hr. apply in_map_iff in Hr. destruct Hr as ([c r'] & E & Hin). simpl in E. subst.
      exists c. eapply ext_incl; eauto.
    + intros c r Hin. destruct (ext_in _ _ _ _ _ X Hin) as [Hi|(n & E & _)].
      * left. apply in_map_iff. exists (c, r). auto.
      * simpl in E. subst. right. reflexivity.
Qed.

(* a successful constructor never reports SpecificationNotFound *)
Lemma get_rule_err c d n e empties : get_rule empties c d n = Err e -> e = E_ASSERT.
Proof.
  unfold get_rule. destruct (dget c d); [discriminate|]. destruct (mem c empties); [discriminate|].
  intros H. inversion H. reflexivity.
Qed.
