(* One call of expand_comb_class: where the rules of the new specification come from and what
   identities they carry. *)
From Coq Require Import List Bool Arith Lia.
From CSS Require Import Expand.Model Expand.InitProofs.
Import ListNotations.

(* what a rule IS, apart from the identities of the objects involved *)
Definition content (b : brule) : nat * bkind * list nat * bool := (b_cls b, b_kind b, b_kids b, b_rev b).

(* identities carried by a rule object made during a call that started with store counter n,
   from the source rules `srcs`: the object itself is new; an inner object / the caches are new
   or — shallow copies only — those of a source rule *)
Definition inner_ok (deep : bool) (n : nat) (srcs : list brule) (i : nat) : Prop :=
  n <= i \/ (deep = false /\ exists b0, In b0 srcs /\ In i (b_inner b0)).
Definition cache_ok (deep : bool) (n : nat) (srcs : list brule) (c : nat) : Prop :=
  n <= c \/ (deep = false /\ exists b0, In b0 srcs /\ c = b_cache b0).
Definition new_b (deep : bool) (n : nat) (srcs : list brule) (b : brule) : Prop :=
  n <= b_id b /\ Forall (inner_ok deep n srcs) (b_inner b) /\ cache_ok deep n srcs (b_cache b).

Lemma inner_ok_mono deep n m srcs i : n <= m -> inner_ok deep m srcs i -> inner_ok deep n srcs i.
Proof. intros H [H1|H1]; [left; lia|right; auto]. Qed.
Lemma cache_ok_mono deep n m srcs i : n <= m -> cache_ok deep m srcs i -> cache_ok deep n srcs i.
Proof. intros H [H1|H1]; [left; lia|right; auto]. Qed.
Lemma new_b_mono deep n m srcs b : n <= m -> new_b deep m srcs b -> new_b deep n srcs b.
Proof.
  intros H (A & B & C). repeat split; [lia| |eapply cache_ok_mono; eauto].
  eapply Forall_impl; [|exact B]. intros. eapply inner_ok_mono; eauto.
Qed.

(* ------------------------------------------------------------------ copies *)
Lemma copy_b_spec deep n b b' n' srcs :
  copy_b deep n b = (b', n') -> In b srcs ->
  content b' = content b /\ n < n' /\ new_b deep n srcs b' /\ b_id b' < n'.
Proof.
  unfold copy_b. destruct deep; intros H Hin; inversion H; subst; clear H; unfold content, new_b; simpl.
  - repeat split; try lia.
    + apply Forall_forall. intros i Hi. left. apply in_seq in Hi. lia.
    + left. lia.
  - repeat split; try lia.
    + apply Forall_forall. intros i Hi. right. split; auto. exists b. auto.
    + right. split; auto. exists b. auto.
Qed.

Lemma copy_list_spec deep srcs : forall l n l' n',
  copy_list deep n l = (l', n') -> (forall b, In b l -> In b srcs) ->
  n <= n' /\
  forall b', In b' l' -> new_b deep n srcs b' /\ exists b, In b l /\ content b' = content b.
Proof.
  induction l as [|b t IH]; simpl; intros n l' n' H Hs.
  - inversion H. subst. split; auto. intros ? [].
  - destruct (copy_b deep n b) as [b1 n1] eqn:E1.
    destruct (copy_list deep n1 t) as [t1 n2] eqn:E2.
    inversion H. subst. clear H.
    destruct (copy_b_spec _ _ _ _ _ srcs E1 (Hs _ (or_introl eq_refl))) as (A & B & C & _).
    destruct (IH _ _ _ E2 (fun x Hx => Hs x (or_intror Hx))) as (D & F).
    split; [lia|]. intros b' [<-|Hb].
    + split; auto. exists b. auto.
    + destruct (F _ Hb) as (G1 & b0 & G2 & G3). split.
      * eapply new_b_mono; [|exact G1]. lia.
      * exists b0. auto.
Qed.

Lemma seed_sources_atoms x d b : In b (seed_sources x d) ->
  exists c r, In (c, r) d /\ c <> x /\ In b (atoms r).
Proof.
  unfold seed_sources. intros H. apply in_flat_map in H. destruct H as ([c r] & Hin & Hb). simpl in Hb.
  destruct (Nat.eqb c x) eqn:E; [contradiction|]. apply Nat.eqb_neq in E. eauto.
Qed.

(* ------------------------------------------------------------------ the answer of the inner search *)
Definition made_from (it : item) (b : brule) : Prop :=
  match it with
  | FromCache _ => False
  | Fresh c k kids _ rev => content b = (c, k, kids, rev)
  end.

Lemma inner_ids_spec deep n0 srcs seeded : forall inner n l n',
  (forall sb, In sb seeded -> new_b deep n0 srcs sb) -> n0 <= n ->
  inner_ids seeded inner n = Ok (l, n') ->
  n <= n' /\ Forall (inner_ok deep n0 srcs) l.
Proof.
  induction inner as [|[k|] t IH]; simpl; intros n l n' Hs Hn.
  - intros H. inversion H. subst. auto.
  - destruct (nth_error seeded k) as [sb|] eqn:E; [|discriminate].
    destruct (inner_ids seeded t n) as [[l1 n1]|e] eqn:E1; [|discriminate].
    intros H. inversion H. subst. clear H.
    destruct (IH _ _ _ Hs Hn E1) as [A B]. split; auto.
    apply nth_error_In in E. destruct (Hs _ E) as (S1 & S2 & S3).
    constructor; [left; lia|]. apply Forall_app. auto.
  - destruct (inner_ids seeded t (S n)) as [[l1 n1]|e] eqn:E1; [|discriminate].
    intros H. inversion H. subst. clear H.
    destruct (IH _ _ _ Hs (Nat.le_trans _ _ _ Hn (Nat.le_succ_diag_r n)) E1) as [A B].
    split; [lia|]. constructor; auto. left. lia.
Qed.

Lemma resolve_spec deep n0 srcs seeded it n b n' :
  (forall sb, In sb seeded -> new_b deep n0 srcs sb) -> n0 <= n ->
  resolve seeded it n = Ok (b, n') ->
  n <= n' /\ new_b deep n0 srcs b /\ (In b seeded \/ made_from it b).
Proof.
  intros Hs Hn. destruct it as [k|c k kids inner rev]; simpl.
  - destruct (nth_error seeded k) eqn:E; [|discriminate]. intros H. inversion H. subst.
    apply nth_error_In in E. auto.
  - destruct (inner_ids seeded inner (S (S n))) as [[l n1]|e] eqn:E; [|discriminate].
    intros H. inversion H. subst. clear H.
    destruct (inner_ids_spec deep n0 srcs seeded _ _ _ _ Hs
                (Nat.le_trans _ _ _ Hn (Nat.le_trans _ _ _ (Nat.le_succ_diag_r n) (Nat.le_succ_diag_r (S n)))) E)
      as [A B].
    split; [lia|]. split; [|right; reflexivity].
    unfold new_b. simpl. repeat split; auto. left. lia.
Qed.

Lemma resolve_all_spec deep n0 srcs seeded : forall its n bs n',
  (forall sb, In sb seeded -> new_b deep n0 srcs sb) -> n0 <= n ->
  resolve_all seeded its n = Ok (bs, n') ->
  n <= n' /\
  forall b, In b bs -> new_b deep n0 srcs b /\ (In b seeded \/ exists it, In it its /\ made_from it b).
Proof.
  induction its as [|it t IH]; simpl; intros n bs n' Hs Hn.
  - intros H. inversion H. subst. split; auto. intros ? [].
  - destruct (resolve seeded it n) as [[b n1]|e] eqn:E1; [|discriminate].
    destruct (resolve_all seeded t n1) as [[l n2]|e] eqn:E2; [|discriminate].
    intros H. inversion H. subst. clear H.
    destruct (resolve_spec _ _ _ _ _ _ _ _ Hs Hn E1) as (A & B & C).
    destruct (IH _ _ _ Hs (Nat.le_trans _ _ _ Hn A) E2) as (D & F).
    split; [lia|]. intros b' [<-|Hb].
    + split; auto. destruct C; auto. right. exists it. auto.
    + destruct (F _ Hb) as [G1 [G2|(it' & G3 & G4)]]; split; auto. right. exists it'. auto.
Qed.

(* ------------------------------------------------------------------ one call *)
(* where a rule of the new specification comes from *)
Definition origin (empties : list nat) (srcs : list brule) (its : list item) (b : brule) : Prop :=
  (exists b0, In b0 srcs /\ content b = content b0) \/
  (exists it, In it its /\ made_from it b) \/
  (exists n c, b = empty_rule n c /\ mem c empties = true).

Definition fresh_path (n : nat) (r : rule) : Prop :=
  match r with
  | Plain _ => True
  | Path p pc ms => n <= p /\ n <= pc /\ linked ms /\ path_ok ms = true /\ ms <> []
  end.

Lemma flat_map_atoms_plain bs : flat_map atoms (map Plain bs) = bs.
Proof. induction bs; simpl; congruence. Qed.

Theorem expand_ok deep empties s x its st s' st' :
  expand_comb_class deep empties s x (Some its) st = Ok (s', st') ->
  forall srcs, srcs = seed_sources x (s_rules s) ->
  s_root s' = s_root s /\
  next st <= next st' /\
  serial st' = S (serial st) /\
  closed s' /\ keyed s' /\
  (forall b, In b (spec_atoms s') -> new_b deep (next st) srcs b /\ origin empties srcs its b) /\
  (forall c r, In (c, r) (s_rules s') -> fresh_path (next st) r) /\
  exists snap, owners st' = map (fun r => (rule_id r, serial st')) snap ++ owners st /\
               (forall r, In r snap -> next st <= rule_id r) /\
               (forall c r, In (c, r) (s_rules s') -> In r snap \/ rule_kids r = []).
Proof.
  unfold expand_comb_class, seed. intros H srcs ->.
  set (srcs := seed_sources x (s_rules s)) in *.
  destruct (copy_list deep (next st) srcs) as [seeded n1] eqn:EC.
  destruct (resolve_all seeded its n1) as [[bs n2]|e] eqn:ER; [|discriminate].
  destruct (copy_list_spec deep srcs _ _ _ _ EC (fun b Hb => Hb)) as [L1 HC].
  assert (forall sb, In sb seeded -> new_b deep (next st) srcs sb) as Hs by (intros sb Hsb; apply HC; auto).
  destruct (resolve_all_spec deep (next st) srcs seeded _ _ _ _ Hs L1 ER) as [L2 HR].
  destruct (spec_init_ok _ _ _ _ _ _ H) as (R1 & R2 & R3 & R4 & R5 & R6 & snap & R7 & R8 & R9).
  simpl in R2, R3, R7, R4.
  (* atoms *)
  assert (forall b, okb empties n2 (map Plain bs) b ->
                    new_b deep (next st) srcs b /\ origin empties srcs its b) as HB.
  { intros b [Hb|(n & c & -> & Hm & Hn)].
    - rewrite flat_map_atoms_plain in Hb. destruct (HR _ Hb) as [G1 G2]. split; auto.
      destruct G2 as [G2|G2]; [|right; left; auto].
      destruct (HC _ G2) as (_ & b0 & G3 & G4). left. exists b0. auto.
    - split.
      + unfold new_b, empty_rule. simpl. repeat split; [lia|constructor|left; lia].
      + right. right. exists n, c. auto. }
  assert (forall c r, In (c, r) (s_rules s') -> okr empties n2 (map Plain bs) r) as HK.
  { intros c r Hin. apply (okd_in _ _ _ _ _ _ R4 Hin). }
  split; [exact R1|]. split; [lia|]. split; [exact R3|]. split; [exact R5|]. split; [exact R6|].
  split; [|split].
  - intros b Hb0. apply HB. unfold spec_atoms in Hb0. apply in_flat_map in Hb0.
    destruct Hb0 as ([c r] & Hin & Hb).
    simpl in Hb. pose proof (okr_atoms _ _ _ _ (HK _ _ Hin)) as F.
    eapply Forall_forall in F; eauto.
  - intros c r Hin. pose proof (HK _ _ Hin) as K. destruct r as [b|p pc ms]; simpl; auto.
    destruct K as [_ [(A & B & C & D & E)|K]].
    + repeat split; auto; lia.
    + apply in_map_iff in K. destruct K as (? & K & _). discriminate.
  - exists snap. split; auto. split; [|exact R9]. intros r Hr. destruct (R8 _ Hr) as [c Hin].
    pose proof (HK _ _ Hin) as K. destruct r as [b|p pc ms]; simpl.
    + apply HB in K. apply K.
    + destruct K as [_ [(A & _)|K]]; [lia|].
      apply in_map_iff in K. destruct K as (? & K & _). discriminate.
Qed.

(* SpecificationNotFound is reported exactly when the inner search found nothing *)
Lemma dfs_not_notfound : forall fuel empties nh stack visited pr eqv d n,
  dfs fuel empties nh stack visited pr eqv d n <> Err E_NOTFOUND.
Proof.
  induction fuel as [|f IH]; intros; simpl; [discriminate|].
  destruct stack as [|cc t]; [discriminate|].
  destruct (flush_path nh pr eqv n) as [[[pr1 eqv1] n1]|e] eqn:EF.
  2:{ unfold flush_path in EF. destruct (last_b pr) as [lb|]; [|discriminate].
      destruct (first_kid lb); [|inversion EF; discriminate].
      destruct (mem _ _); [|discriminate]. destruct (path_ok pr); inversion EF; discriminate. }
  destruct (mem cc nh && mem cc visited); [apply IH|].
  destruct (get_rule empties cc d n1) as [[[r d2] n2]|e] eqn:E.
  2:{ apply get_rule_err in E. subst. discriminate. }
  destruct r as [b|]; [|apply IH].
  destruct (b_kind b); try apply IH.
  destruct (chain_ok pr1 b); [apply IH|discriminate].
Qed.

Lemma get_rules_not_notfound empties cs : forall d n, get_rules empties cs d n <> Err E_NOTFOUND.
Proof.
  induction cs as [|c t IH]; simpl; intros; [discriminate|].
  destruct (get_rule empties c d n) as [[[r d1] n1]|e] eqn:E; [apply IH|].
  apply get_rule_err in E. subst. discriminate.
Qed.

Lemma set_subrules_not_notfound empties snap : forall d n, set_subrules empties snap d n <> Err E_NOTFOUND.
Proof.
  induction snap as [|r t IH]; simpl; intros; [discriminate|].
  destruct (get_rules empties (rule_kids r) d n) as [[d1 n1]|e] eqn:E; [apply IH|].
  intros H. inversion H. subst. eapply get_rules_not_notfound; eauto.
Qed.

Lemma spec_init_not_notfound empties root rules st : spec_init empties root rules st <> Err E_NOTFOUND.
Proof.
  unfold spec_init, group.
  destruct (dfs _ _ _ _ _ _ _ _ _) as [[[eqv d2] n2]|e] eqn:E.
  - destruct (valid_spec _ _ _); [|discriminate].
    destruct (set_subrules _ _ _ _) as [[d3 n3]|e] eqn:E2.
    + destruct (dmem root d3); discriminate.
    + intros H. inversion H. subst. eapply set_subrules_not_notfound; eauto.
  - intros H. inversion H. subst. eapply dfs_not_notfound; eauto.
Qed.

Lemma resolve_all_not_notfound seeded : forall its n, resolve_all seeded its n <> Err E_NOTFOUND.
Proof.
  assert (forall inner n, inner_ids seeded inner n <> Err E_NOTFOUND) as HI.
  { induction inner as [|[k|] t IH]; simpl; intros; [discriminate| |].
    - destruct (nth_error seeded k); [|discriminate].
      destruct (inner_ids seeded t n) as [[? ?]|e] eqn:E; [discriminate|].
      intros H. inversion H. subst. eapply IH; eauto.
    - destruct (inner_ids seeded t (S n)) as [[? ?]|e] eqn:E; [discriminate|].
      intros H. inversion H. subst. eapply IH; eauto. }
  induction its as [|it t IH]; simpl; intros; [discriminate|].
  destruct (resolve seeded it n) as [[b n1]|e] eqn:E1.
  - destruct (resolve_all seeded t n1) as [[? ?]|e] eqn:E2; [discriminate|].
    intros H. inversion H. subst. eapply IH; eauto.
  - intros H. inversion H. subst. destruct it; simpl in E1.
    + destruct (nth_error seeded k); discriminate.
    + destruct (inner_ids seeded inner (S (S n))) as [[? ?]|e] eqn:E; [discriminate|].
      inversion E1. subst. eapply HI; eauto.
Qed.

Theorem notfound_iff deep empties s x ans st :
  expand_comb_class deep empties s x ans st = Err E_NOTFOUND <-> ans = None.
Proof.
  unfold expand_comb_class. destruct (seed deep x (s_rules s) (next st)) as [seeded n1].
  destruct ans as [its|]; split; auto; try discriminate.
  destruct (resolve_all seeded its n1) as [[bs n2]|e] eqn:E.
  - intros H. exfalso. eapply spec_init_not_notfound; eauto.
  - intros H. inversion H. subst. exfalso. eapply resolve_all_not_notfound; eauto.
Qed.
