(* Object identities reachable from a specification, and what loop_fresh says about them. *)
From Coq Require Import List Bool Arith Lia.
From CSS Require Import Expand.Model Expand.InitProofs Expand.StepProofs Expand.LoopProofs.
Import ListNotations.

(* the rule OBJECTS: plain rules, path rules and the member rules inside paths *)
Definition obj_ids (r : rule) : list nat :=
  match r with Plain b => [b_id b] | Path p _ ms => p :: map b_id ms end.
Definition rule_objects (s : spec) : list nat := flat_map (fun kr => obj_ids (snd kr)) (s_rules s).
(* the objects reached through original_rule *)
Definition inner_objects (s : spec) : list nat := flat_map b_inner (spec_atoms s).
(* the cache objects *)
Definition cache_ids (r : rule) : list nat :=
  match r with Plain b => [b_cache b] | Path _ pc ms => pc :: map b_cache ms end.
Definition caches (s : spec) : list nat := flat_map (fun kr => cache_ids (snd kr)) (s_rules s).
(* every identity a specification mentions *)
Definition all_ids (s : spec) : list nat := rule_objects s ++ inner_objects s ++ caches s.

Section Ids.
Variable deep : bool.
Variable n0 : nat.
Variable s0 : spec.

Lemma fresh_rule_objects s : fresh_spec deep n0 s0 s -> forall i, In i (rule_objects s) -> n0 <= i.
Proof.
  intros HF i Hi. unfold rule_objects in Hi. apply in_flat_map in Hi. destruct Hi as ([c r] & Hin & Hi).
  destruct (HF _ _ Hin) as [FP HA]. destruct r as [b|p pc ms]; simpl in *.
  - destruct Hi as [<-|[]]. apply (HA b). auto.
  - destruct Hi as [<-|Hi]; [tauto|]. apply in_map_iff in Hi. destruct Hi as (m & <- & Hm).
    apply (HA m Hm).
Qed.

Lemma atom_cache_in s b : In b (spec_atoms s) -> In (b_cache b) (caches s).
Proof.
  unfold spec_atoms, caches. intros H. apply in_flat_map in H. destruct H as ([c r] & Hin & Hb).
  apply in_flat_map. exists (c, r). split; auto. destruct r as [b'|p pc ms]; simpl in *.
  - destruct Hb as [->|[]]. auto.
  - right. apply in_map. auto.
Qed.

Lemma fresh_inner s : fresh_spec deep n0 s0 s -> forall i, In i (inner_objects s) ->
  n0 <= i \/ (deep = false /\ In i (inner_objects s0)).
Proof.
  intros HF i Hi. unfold inner_objects in Hi. apply in_flat_map in Hi. destruct Hi as (b & Hb & Hi).
  unfold spec_atoms in Hb. apply in_flat_map in Hb. destruct Hb as ([c r] & Hin & Hb).
  destruct (HF _ _ Hin) as [_ HA]. destruct (HA _ Hb) as (_ & B & _).
  eapply Forall_forall in B; eauto. destruct B as [B|(Hd & b0 & Hb0 & Hi0)]; auto.
  right. split; auto. unfold inner_objects. apply in_flat_map. exists b0. auto.
Qed.

Lemma fresh_caches s : fresh_spec deep n0 s0 s -> forall i, In i (caches s) ->
  n0 <= i \/ (deep = false /\ In i (caches s0)).
Proof.
  intros HF i Hi. unfold caches in Hi. apply in_flat_map in Hi. destruct Hi as ([c r] & Hin & Hi).
  destruct (HF _ _ Hin) as [FP HA].
  assert (forall b, In b (atoms r) -> n0 <= b_cache b \/ (deep = false /\ In (b_cache b) (caches s0))) as K.
  { intros b Hb. destruct (HA _ Hb) as (_ & _ & [C|(Hd & b0 & Hb0 & E)]); auto.
    right. split; auto. rewrite E. apply atom_cache_in. auto. }
  destruct r as [b|p pc ms]; simpl in *.
  - destruct Hi as [<-|[]]. apply K. auto.
  - destruct Hi as [<-|Hi]; [left; tauto|]. apply in_map_iff in Hi. destruct Hi as (m & <- & Hm). auto.
Qed.
End Ids.
