(* sx interface for C19.
   input : ( spec0 rounds empties deep next0 fuel )
     spec0   : ( root ((class ruledesc) ...) )            rules_dict in dictionary order
     ruledesc: ( 0 brule ) | ( 1 id cache (brule ...) )   plain rule | equivalence path
     brule   : ( id class kind (child ...) (inner id ...) cache reverse? )
               kind 0 normal / 1 equivalence / 2 verified, pack offered / 3 verified, no pack
     rounds  : ( round ... ), round = ( answer ) | ( answer answer ), in the order of the calls
               of expand_comb_class;  answer = () for SpecificationNotFound | ( (item ...) )
     item    : ( 0 k ) the k-th seeded copy | ( 1 class kind (child ...) (ref ...) reverse? ) a
               rule made by the inner search, ref = -1 new inner object / k the k-th seeded copy
     empties : labels of the empty classes (CombinatorialClass.is_empty)
     deep    : 0 copy.copy as in the code / 1 detaching copy
     next0   : identities below next0 belong to the original specification
   output: ( status trace final owners0 owners1 sharing )
     status  : 0 returned / 1 SpecificationNotFound / 2 AssertionError / 3 fuel / 4 KeyError / 5 replay
     trace   : ( (class reverse? retried?) ... )
     final   : ( (class kind (child ...) (member class ...)) ... )   kind 4 = equivalence path
     owners0 : per rule of the ORIGINAL, in dictionary order: sub-recurrences still bound to it
     owners1 : per rule of the result: bound to the result
     sharing : per rule object of the result (path, members, plain rules): ( id if it is an object
               of the original else -1, inner ids shared with the original, cache id if shared ) *)
From Coq Require Import ZArith List Bool Arith.
From CSS Require Import Base.Sx Expand.Model.
Import ListNotations.

Definition dec_kind (z : Z) : bkind :=
  if Z.eqb z 1 then BEquiv else if Z.eqb z 2 then BVerif true else if Z.eqb z 3 then BVerif false else BNormal.
Definition enc_kind (k : bkind) : Z :=
  match k with BNormal => 0 | BEquiv => 1 | BVerif true => 2 | BVerif false => 3 end%Z.

Definition dec_b (s : sx) : brule :=
  mkB (sx_nat (sx_nth s 0)) (sx_nat (sx_nth s 1)) (dec_kind (sx_Z (sx_nth s 2))) (sx_nats (sx_nth s 3))
      (sx_nats (sx_nth s 4)) (sx_nat (sx_nth s 5)) (sx_bool (sx_nth s 6)).

Definition dec_rule (s : sx) : rule :=
  if Z.eqb (sx_Z (sx_nth s 0)) 1 then
    Path (sx_nat (sx_nth s 1)) (sx_nat (sx_nth s 2)) (map dec_b (sx_list (sx_nth s 3)))
  else Plain (dec_b (sx_nth s 1)).

Definition dec_spec (s : sx) : spec :=
  mkSpec (sx_nat (sx_nth s 0))
         (map (fun e => (sx_nat (sx_nth e 0), dec_rule (sx_nth e 1))) (sx_list (sx_nth s 1))).

Definition dec_ref (s : sx) : option nat :=
  if Z.ltb (sx_Z s) 0 then None else Some (sx_nat s).

Definition dec_item (s : sx) : item :=
  if Z.eqb (sx_Z (sx_nth s 0)) 0 then FromCache (sx_nat (sx_nth s 1))
  else Fresh (sx_nat (sx_nth s 1)) (dec_kind (sx_Z (sx_nth s 2))) (sx_nats (sx_nth s 3))
             (map dec_ref (sx_list (sx_nth s 4))) (sx_bool (sx_nth s 5)).

Definition dec_answer (s : sx) : answer :=
  match sx_list s with
  | [] => None
  | its :: _ => Some (map dec_item (sx_list its))
  end.

Definition dec_rounds (s : sx) : list (list answer) :=
  map (fun rd => map dec_answer (sx_list rd)) (sx_list s).

Definition enc_final (kr : nat * rule) : sx :=
  match snd kr with
  | Plain b => L [of_nat (fst kr); I (enc_kind (b_kind b)); of_nats (b_kids b); L []]
  | Path _ _ ms => L [of_nat (fst kr); I 4; of_nats (rule_kids (snd kr)); of_nats (map b_cls ms)]
  end.

Definition shared (n0 i : nat) : sx := if Nat.ltb i n0 then of_nat i else I (-1).
Definition enc_share_b (n0 : nat) (b : brule) : sx :=
  L [shared n0 (b_id b); of_nats (filter (fun i => Nat.ltb i n0) (b_inner b)); shared n0 (b_cache b)].
Definition enc_share (n0 : nat) (r : rule) : list sx :=
  match r with
  | Plain b => [enc_share_b n0 b]
  | Path p c ms => L [shared n0 p; L []; shared n0 c] :: map (enc_share_b n0) ms
  end.

Definition owner_bit (o : list (nat * nat)) (sn : nat) (r : rule) : sx :=
  of_bool (match rule_kids r with [] => true | _ => false end
           || match owner_of (rule_id r) o with Some s => Nat.eqb s sn | None => false end).

Definition status_of (o : outcome) : Z :=
  match o with Done _ => 0 | Failed e => Z.of_nat e end.

Definition run_c19 (inp : sx) : sx :=
  match sx_list inp with
  | [] => L [I 9; L []; L []; L []; L []; L []]
  | _ =>
  let s0 := dec_spec (sx_nth inp 0) in
  let rounds := dec_rounds (sx_nth inp 1) in
  let empties := sx_nats (sx_nth inp 2) in
  let deep := sx_bool (sx_nth inp 3) in
  let n0 := sx_nat (sx_nth inp 4) in
  let fuel := sx_nat (sx_nth inp 5) in
  let st0 := mkStore n0 (map (fun kr => (rule_id (snd kr), 0%nat)) (s_rules s0)) 0 in
  let '(o, st, tr) := expand_verified fuel deep empties s0 rounds st0 in
  let enc_tr := L (map (fun e => L [of_nat (fst (fst e)); of_bool (snd (fst e)); of_bool (snd e)]) tr) in
  let own0 := L (map (fun kr => owner_bit (owners st) 0%nat (snd kr)) (s_rules s0)) in
  match o with
  | Done s =>
      L [I 0; enc_tr; L (map enc_final (s_rules s)); own0;
         L (map (fun kr => owner_bit (owners st) (serial st) (snd kr)) (s_rules s));
         match tr with
         | [] => L []
         | _ => L (flat_map (fun kr => enc_share n0 (snd kr)) (s_rules s))
         end]
  | Failed e => L [I (Z.of_nat e); enc_tr; L []; own0; L []; L []]
  end
  end.
