(* Generic wire format between the Python harness and every executable model:
   an s-expression whose leaves are integers.  Each modelled component exposes
   one function  run : sx -> sx ; the same OCaml driver (ocaml/driver_body.ml)
   and the same in-Coq evaluation (generated Cases*.v) serve all of them. *)
From Coq Require Import ZArith List Bool.
Import ListNotations.
Open Scope Z_scope.

Inductive sx : Type :=
| I (z : Z)
| L (l : list sx).

Fixpoint sx_eqb (a b : sx) {struct a} : bool :=
  match a, b with
  | I x, I y => Z.eqb x y
  | L xs, L ys =>
      (fix go (xs ys : list sx) {struct xs} : bool :=
         match xs, ys with
         | [], [] => true
         | x :: xs', y :: ys' => sx_eqb x y && go xs' ys'
         | _, _ => false
         end) xs ys
  | _, _ => false
  end.

(* total decoders (the harness only sends well-formed input; a malformed
   input decodes to defaults and shows up as a correspondence mismatch) *)
Definition sx_Z (s : sx) : Z := match s with I z => z | L _ => 0 end.
Definition sx_list (s : sx) : list sx := match s with I _ => [] | L l => l end.
Definition sx_nat (s : sx) : nat := Z.to_nat (sx_Z s).
Definition sx_bool (s : sx) : bool := negb (Z.eqb (sx_Z s) 0).
Definition sx_Zs (s : sx) : list Z := map sx_Z (sx_list s).
Definition sx_nats (s : sx) : list nat := map sx_nat (sx_list s).
Definition sx_nth (s : sx) (n : nat) : sx := nth n (sx_list s) (L []).
Definition sx_optZ (s : sx) : option Z :=
  match s with I z => Some z | L _ => None end.

(* encoders *)
Definition of_bool (b : bool) : sx := I (if b then 1 else 0).
Definition of_nat (n : nat) : sx := I (Z.of_nat n).
Definition of_Zs (l : list Z) : sx := L (map I l).
Definition of_nats (l : list nat) : sx := L (map of_nat l).
Definition of_optZ (o : option Z) : sx :=
  match o with Some z => I z | None => L [] end.
