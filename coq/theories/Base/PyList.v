(* Python list indexing, modelled as it is: negative indices wrap once,
   anything else out of range is IndexError (None here). *)
From Coq Require Import ZArith List Bool Lia.
Import ListNotations.
Open Scope Z_scope.

Definition zlen {A} (l : list A) : Z := Z.of_nat (length l).

Definition py_nth {A} (l : list A) (k : Z) : option A :=
  if (0 <=? k) && (k <? zlen l) then nth_error l (Z.to_nat k)
  else if (k <? 0) && (- zlen l <=? k) then nth_error l (Z.to_nat (zlen l + k))
  else None.

(* l[k] = v ; None on IndexError *)
Fixpoint set_nth {A} (l : list A) (n : nat) (v : A) : list A :=
  match l, n with
  | [], _ => []
  | _ :: t, O => v :: t
  | h :: t, S n' => h :: set_nth t n' v
  end.

Definition py_set {A} (l : list A) (k : Z) (v : A) : option (list A) :=
  if (0 <=? k) && (k <? zlen l) then Some (set_nth l (Z.to_nat k) v)
  else if (k <? 0) && (- zlen l <=? k) then Some (set_nth l (Z.to_nat (zlen l + k)) v)
  else None.

Lemma set_nth_length {A} (l : list A) n v : length (set_nth l n v) = length l.
Proof. revert n; induction l as [|h t IH]; intros [|n]; simpl; auto. Qed.

Lemma nth_error_set_nth_same {A} (l : list A) n v :
  (n < length l)%nat -> nth_error (set_nth l n v) n = Some v.
Proof.
  revert n; induction l as [|h t IH]; intros [|n] H; simpl in *; try lia; auto.
  apply IH; lia.
Qed.

Lemma nth_error_set_nth_other {A} (l : list A) n m v :
  n <> m -> nth_error (set_nth l n v) m = nth_error l m.
Proof.
  revert n m; induction l as [|h t IH]; intros [|n] [|m] H; simpl; auto; try congruence.
Qed.

Lemma py_nth_nonneg {A} (l : list A) k :
  0 <= k -> py_nth l k = if k <? zlen l then nth_error l (Z.to_nat k) else None.
Proof.
  intros Hk. unfold py_nth.
  destruct (0 <=? k) eqn:E1; [|lia].
  destruct (k <? zlen l) eqn:E2; simpl; auto.
  destruct (k <? 0) eqn:E3; [lia|]. reflexivity.
Qed.
