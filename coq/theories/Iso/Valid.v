(* Specification-level notions for C12 (definitions only; no model code):
   equivalence chains, well-formed specifications, well-formed parse trees, size, and
   what it means for an order map to be a VALID CERTIFICATE of an isomorphism. *)
From Coq Require Import ZArith List Bool Lia.
From CSS Require Import Base.PyList Iso.Model Iso.Cert.
Import ListNotations.
Open Scope Z_scope.

(* chain s n e k : following k equivalence rules from n leads to e, whose rule is not
   an equivalence (e is "the end of the chain of n") *)
Inductive chain (s : spec) : Z -> Z -> nat -> Prop :=
| chain_here n r : find_rule s n = Some r -> r_iseq r = false -> chain s n n O
| chain_step n r d e k :
    find_rule s n = Some r -> r_iseq r = true -> r_children r = [d] ->
    chain s d e k -> chain s n e (S k).

(* Well-formedness of equivalence rules, as produced by the rule extractors
   (EquivalenceRule / EquivalencePathRule / unary rules): an equivalence rule is a Rule
   with exactly one child, that child is not empty, and the chain of equivalence rules
   starting there ends (the specification is closed along it and has no cycle of
   equivalence rules). *)
Definition eq_wf (s : spec) : Prop :=
  forall c r, find_rule s c = Some r -> r_iseq r = true ->
    exists d, r_children r = [d] /\ is_empty s d = false /\ r_isrule r = true /\
              exists e k, chain s d e k.

(* A product rule has no empty factor (a class with such a rule would itself be empty and
   is given the empty rule instead). *)
Definition prod_wf (s : spec) : Prop :=
  forall c r d, find_rule s c = Some r -> r_isrule r = true -> r_iseq r = false ->
    c_tag (r_ctor r) = 1 -> In d (r_children r) -> is_empty s d = false.

Definition wf_spec (s : spec) : Prop :=
  eq_wf s /\ prod_wf s /\ is_empty s (s_root s) = false.

(* ------------------------------------------------------------------ parse trees *)
(* the tuple produced by the forward map of a union: exactly one part, for child i *)
Definition one_hot {A} (n i : nat) (x : A) : list (option A) :=
  repeat None i ++ [Some x] ++ repeat None (n - S i).

Inductive wf_tree (s : spec) : Z -> tree -> Prop :=
| wf_leaf c r :
    find_rule s c = Some r -> is_empty s c = false ->
    r_children r = [] -> r_atom r = true ->
    wf_tree s c (Leaf c)
| wf_eq c r d t :
    find_rule s c = Some r -> is_empty s c = false ->
    r_iseq r = true -> r_children r = [d] -> wf_tree s d t ->
    wf_tree s c (Node c [Some t])
| wf_union c r i d t :
    find_rule s c = Some r -> is_empty s c = false ->
    r_iseq r = false -> r_isrule r = true -> c_tag (r_ctor r) = 0 ->
    nth_error (r_children r) i = Some d -> wf_tree s d t ->
    wf_tree s c (Node c (one_hot (length (r_children r)) i t))
| wf_prod c r ts :
    find_rule s c = Some r -> is_empty s c = false ->
    r_iseq r = false -> r_isrule r = true -> c_tag (r_ctor r) = 1 ->
    r_children r <> [] ->
    Forall2 (wf_tree s) (r_children r) ts ->
    wf_tree s c (Node c (map Some ts)).

(* size of the minimum object of an atom *)
Definition asize (s : spec) (c : Z) : Z :=
  match find_rule s c with
  | Some r => match r_akey r with (z :: _) :: _ => z | _ => 0 end
  | None => 0
  end.

Fixpoint tsize (s : spec) (t : tree) : Z :=
  match t with
  | Leaf c => asize s c
  | Node _ kids =>
      (fix go (l : list (option tree)) : Z :=
         match l with
         | [] => 0
         | Some u :: r => tsize s u + go r
         | None :: r => go r
         end) kids
  end.

Fixpoint height (t : tree) : nat :=
  match t with
  | Leaf _ => O
  | Node _ kids =>
      S ((fix go (l : list (option tree)) : nat :=
            match l with
            | [] => O
            | Some u :: r => Nat.max (height u) (go r)
            | None :: r => go r
            end) kids)
  end.

(* ------------------------------------------------------------------ certificates *)
(* p lists 0 .. k-1 in some order *)
Definition is_perm (p : list Z) (k : nat) : Prop :=
  length p = k /\ NoDup p /\ forall x, In x p -> 0 <= x < Z.of_nat k.

Section Cert.
Variables s1 s2 : spec.
Variable ord : order_map.
Variable G : Z * Z -> Prop.     (* the matched END pairs *)

(* both classes, moved to the ends of their equivalence chains, form a matched pair *)
Definition ends_in (a b : Z) : Prop :=
  exists e1 e2 k1 k2, chain s1 a e1 k1 /\ chain s2 b e2 k2 /\ G (e1, e2).

(* two atoms with minimum objects of the same size and the same terms there *)
Definition leaf_pair (e1 e2 : Z) : Prop :=
  exists r1 r2, find_rule s1 e1 = Some r1 /\ find_rule s2 e2 = Some r2 /\ leaf_match r1 r2 = true.

(* two decomposition rules of the same constructor type whose non-empty children are
   matched through the permutation stored under this very pair *)
Definition node_pair (e1 e2 : Z) : Prop :=
  exists r1 r2 perm,
    find_rule s1 e1 = Some r1 /\ find_rule s2 e2 = Some r2 /\
    r_iseq r1 = false /\ r_iseq r2 = false /\
    r_isrule r1 = true /\ r_isrule r2 = true /\
    r_children r1 <> [] /\ r_children r2 <> [] /\
    c_tag (r_ctor r1) = c_tag (r_ctor r2) /\
    om_lookup ord (e1, e2) = Some perm /\
    length (ne_children s1 r1) = length (ne_children s2 r2) /\
    is_perm perm (length (ne_children s2 r2)) /\
    (forall j i a b,
        nth_error perm j = Some i ->
        nth_error (ne_children s1 r1) (Z.to_nat i) = Some a ->
        nth_error (ne_children s2 r2) j = Some b ->
        ends_in a b).

Definition good : Prop :=
  forall e1 e2, G (e1, e2) -> leaf_pair e1 e2 \/ node_pair e1 e2.
End Cert.

(* ord is a valid certificate that the two specifications are isomorphic *)
Definition valid_cert (s1 s2 : spec) (ord : order_map) : Prop :=
  exists G, good s1 s2 ord G /\ ends_in s1 s2 G (s_root s1) (s_root s2).
