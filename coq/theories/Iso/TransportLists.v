(* Pure list lemmas for Iso/Transport.v: the `res` monad, get_nonempty / build_kids as
   gather / scatter over the non-empty children, one_hot, sums over a permutation,
   finite choice. *)
From Coq Require Import ZArith List Bool Lia.
From CSS Require Import Base.PyList Iso.Model Iso.Cert Iso.Valid.
Import ListNotations.
Open Scope Z_scope.

(* ------------------------------------------------------------------ res *)
Lemma bind_ok {A B} (x : res A) (f : A -> res B) b :
  x >>= f = Ok b -> exists a, x = Ok a /\ f a = Ok b.
Proof. destruct x; simpl; intros H; try discriminate; eauto. Qed.

(* ------------------------------------------------------------------ generic lists *)
Lemma nth_error_ext_eq {A} : forall (l l' : list A),
  (forall i, nth_error l i = nth_error l' i) -> l = l'.
Proof.
  induction l as [|x l IH]; intros [|y l'] H; auto.
  - specialize (H O); discriminate.
  - specialize (H O); discriminate.
  - f_equal.
    + specialize (H O); simpl in H; congruence.
    + apply IH. intros i. exact (H (S i)).
Qed.

Lemma nth_error_nth_some {A} (l : list A) j d x :
  nth_error l j = Some x -> nth j l d = x.
Proof. revert j; induction l; intros [|j] H; simpl in *; try discriminate; auto; congruence. Qed.

Lemma nth_error_nth_lt {A} (l : list A) j d :
  (j < length l)%nat -> nth_error l j = Some (nth j l d).
Proof. revert j; induction l; intros [|j] H; simpl in *; try lia; auto. apply IHl; lia. Qed.

Lemma nth_error_some_lt {A} (l : list A) j x : nth_error l j = Some x -> (j < length l)%nat.
Proof. intros H. apply nth_error_Some. congruence. Qed.

Lemma list_choice {A} (d : A) (P : nat -> A -> Prop) k :
  (forall j, (j < k)%nat -> exists v, P j v) ->
  exists l, length l = k /\ forall j, (j < k)%nat -> P j (nth j l d).
Proof.
  induction k as [|k IH]; intros H.
  - exists []. split; auto. intros; lia.
  - destruct IH as [l [Hl HP]]. { intros j Hj. apply H; lia. }
    destruct (H k) as [v Hv]; [lia|].
    exists (l ++ [v]). split. { rewrite app_length; simpl; lia. }
    intros j Hj. destruct (Nat.eq_dec j k) as [->|Hne].
    + rewrite app_nth2 by lia. rewrite Hl, Nat.sub_diag. exact Hv.
    + rewrite app_nth1 by lia. apply HP; lia.
Qed.

Lemma bound_choice (Q : nat -> nat -> Prop) k :
  (forall j, (j < k)%nat -> exists f0, forall f, (f0 <= f)%nat -> Q j f) ->
  exists F, forall j, (j < k)%nat -> forall f, (F <= f)%nat -> Q j f.
Proof.
  induction k as [|k IH]; intros H.
  - exists O. intros; lia.
  - destruct IH as [F HF]. { intros j Hj. apply H; lia. }
    destruct (H k) as [f0 Hf0]; [lia|].
    exists (Nat.max F f0). intros j Hj f Hf.
    destruct (Nat.eq_dec j k) as [->|Hne].
    + apply Hf0; lia.
    + apply HF; lia.
Qed.

Lemma all_some_map {A} (l : list (option A)) :
  (forall j, (j < length l)%nat -> exists u, nth_error l j = Some (Some u)) ->
  exists us, l = map Some us.
Proof.
  induction l as [|x l IH]; intros H.
  - exists []. reflexivity.
  - destruct IH as [us Hus]. { intros j Hj. apply (H (S j)). simpl; lia. }
    destruct (H O) as [u Hu]; [simpl; lia|]. simpl in Hu. injection Hu as ->.
    exists (u :: us). simpl. congruence.
Qed.

Lemma Forall2_nth {A B} (R : A -> B -> Prop) (l : list A) (l' : list B) :
  length l = length l' ->
  (forall j a b, nth_error l j = Some a -> nth_error l' j = Some b -> R a b) ->
  Forall2 R l l'.
Proof.
  revert l'. induction l as [|x l IH]; intros [|y l'] Hlen H; simpl in Hlen; try discriminate.
  - constructor.
  - constructor.
    + apply (H O); reflexivity.
    + apply IH; [lia|]. intros j a b Ha Hb. apply (H (S j)); assumption.
Qed.

Lemma Forall2_nth_inv {A B} (R : A -> B -> Prop) (l : list A) (l' : list B) :
  Forall2 R l l' ->
  length l = length l' /\
  (forall j a b, nth_error l j = Some a -> nth_error l' j = Some b -> R a b).
Proof.
  induction 1 as [|x y l l' Hxy HF [IH1 IH2]].
  - split; auto. intros [|j]; discriminate.
  - split; [simpl; lia|]. intros [|j] a b Ha Hb; simpl in *.
    + congruence.
    + eapply IH2; eauto.
Qed.

(* ------------------------------------------------------------------ sums *)
Fixpoint zsum (l : list Z) : Z := match l with [] => 0 | x :: r => x + zsum r end.

Lemma zsum_app l l' : zsum (l ++ l') = zsum l + zsum l'.
Proof. induction l; simpl; lia. Qed.

Lemma zsum_incl {A} (f : A -> Z) : forall (l l' : list A),
  NoDup l -> incl l l' -> (length l' <= length l)%nat ->
  zsum (map f l) = zsum (map f l').
Proof.
  induction l as [|x l IH]; intros l' Hnd Hin Hlen.
  - destruct l'; simpl in *; [reflexivity|lia].
  - assert (Hx : In x l') by (apply Hin; left; reflexivity).
    apply in_split in Hx. destruct Hx as [a [b ->]].
    inversion Hnd as [|? ? Hnotin Hnd']; subst.
    rewrite map_app, zsum_app. simpl.
    rewrite (IH (a ++ b)); auto.
    + rewrite map_app, zsum_app. lia.
    + intros y Hy. assert (Hy' : In y (a ++ x :: b)) by (apply Hin; right; exact Hy).
      apply in_app_or in Hy'. apply in_or_app. destruct Hy' as [Hy'|[Hy'|Hy']]; auto.
      subst. contradiction.
    + rewrite app_length in *. simpl in *. lia.
Qed.

Lemma map_seq_pointwise {A B} (G : nat -> B) (f : A -> B) : forall (l : list A) s,
  (forall j i, nth_error l j = Some i -> G (s + j)%nat = f i) ->
  map G (seq s (length l)) = map f l.
Proof.
  induction l as [|x l IH]; intros s H; simpl; auto.
  f_equal.
  - rewrite <- (H O x); [f_equal; lia|reflexivity].
  - apply IH. intros j i Hj. rewrite <- (H (S j) i Hj). f_equal; lia.
Qed.

Lemma zsum_perm (F G : nat -> Z) perm k :
  is_perm perm k ->
  (forall j i, nth_error perm j = Some i -> G j = F (Z.to_nat i)) ->
  zsum (map G (seq 0 k)) = zsum (map F (seq 0 k)).
Proof.
  intros [Hlen [Hnd Hrange]] H.
  rewrite <- Hlen at 1.
  rewrite (map_seq_pointwise G (fun z => F (Z.to_nat z)) perm 0) by (intros; simpl; auto).
  rewrite (zsum_incl (fun z => F (Z.to_nat z)) perm (map Z.of_nat (seq 0 k))); auto.
  - rewrite map_map. f_equal. apply map_ext. intros a. rewrite Nat2Z.id. reflexivity.
  - intros x Hx. specialize (Hrange x Hx).
    replace x with (Z.of_nat (Z.to_nat x)) by lia.
    apply in_map. apply in_seq. lia.
  - rewrite map_length, seq_length. lia.
Qed.

(* ------------------------------------------------------------------ tree sizes and heights *)
Definition osz (s : spec) (v : option tree) : Z :=
  match v with Some t => tsize s t | None => 0 end.

Fixpoint ksum (s : spec) (l : list (option tree)) : Z :=
  match l with
  | [] => 0
  | Some u :: r => tsize s u + ksum s r
  | None :: r => ksum s r
  end.

Lemma tsize_node s c kids : tsize s (Node c kids) = ksum s kids.
Proof.
  induction kids as [|[u|] r IH]; simpl in *; auto. rewrite IH. reflexivity.
Qed.

Lemma ksum_zsum s l : ksum s l = zsum (map (osz s) l).
Proof. induction l as [|[u|] r IH]; simpl; lia. Qed.

Lemma ksum_seq s l :
  ksum s l = zsum (map (fun j => osz s (nth j l None)) (seq 0 (length l))).
Proof.
  rewrite ksum_zsum. f_equal. symmetry.
  apply map_seq_pointwise. intros j i Hj. simpl.
  rewrite (nth_error_nth_some _ _ None _ Hj). reflexivity.
Qed.

Lemma ksum_perm s1 s2 (g1 vals2 : list (option tree)) perm k :
  is_perm perm k -> length g1 = k -> length vals2 = k ->
  (forall j i, nth_error perm j = Some i ->
     osz s2 (nth j vals2 None) = osz s1 (nth (Z.to_nat i) g1 None)) ->
  ksum s2 vals2 = ksum s1 g1.
Proof.
  intros Hp H1 H2 H.
  rewrite (ksum_seq s2 vals2), (ksum_seq s1 g1), H1, H2.
  apply (zsum_perm _ _ perm k Hp). exact H.
Qed.

Fixpoint hmax (l : list (option tree)) : nat :=
  match l with
  | [] => O
  | Some u :: r => Nat.max (height u) (hmax r)
  | None :: r => hmax r
  end.

Lemma height_node c kids : height (Node c kids) = S (hmax kids).
Proof.
  induction kids as [|[u|] r IH]; simpl in *; auto;
    try (injection IH as IH; rewrite IH; reflexivity).
Qed.

Lemma height_kid c kids p t :
  nth_error kids p = Some (Some t) -> (height t < height (Node c kids))%nat.
Proof.
  rewrite height_node. revert p.
  induction kids as [|k r IH]; intros [|p] H; simpl in *; try discriminate.
  - injection H as ->. lia.
  - specialize (IH _ H). destruct k; lia.
Qed.

(* ------------------------------------------------------------------ one_hot *)
Lemma one_hot_S {A} n i (x : A) : one_hot (S n) (S i) x = None :: one_hot n i x.
Proof. reflexivity. Qed.

Lemma one_hot_0 {A} n (x : A) : one_hot (S n) 0 x = Some x :: repeat None n.
Proof. unfold one_hot. simpl. rewrite Nat.sub_0_r. reflexivity. Qed.

Lemma one_hot_length {A} : forall i n (x : A), (i < n)%nat -> length (one_hot n i x) = n.
Proof.
  intros i n x H. unfold one_hot. rewrite !app_length, !repeat_length. simpl. lia.
Qed.

Lemma nth_error_repeat_none {A} n p (v : option A) :
  nth_error (repeat None n) p = Some v -> v = None.
Proof.
  revert p; induction n; intros [|p] H; simpl in *; try discriminate; eauto. congruence.
Qed.

Lemma nth_error_repeat_lt {A} n p (x : A) :
  (p < n)%nat -> nth_error (repeat x n) p = Some x.
Proof. revert p; induction n; intros [|p] H; simpl; try lia; auto. apply IHn; lia. Qed.

Lemma one_hot_some {A} : forall i n p (x y : A),
  (i < n)%nat -> nth_error (one_hot n i x) p = Some (Some y) -> p = i /\ y = x.
Proof.
  induction i; intros [|n] p x y Hi H; try lia.
  - rewrite one_hot_0 in H. destruct p; simpl in H.
    + split; congruence.
    + apply nth_error_repeat_none in H. discriminate.
  - rewrite one_hot_S in H. destruct p; simpl in H; [discriminate|].
    apply IHi in H; [|lia]. destruct H; split; congruence.
Qed.

Lemma one_hot_at {A} : forall i n (x : A),
  (i < n)%nat -> nth_error (one_hot n i x) i = Some (Some x).
Proof.
  induction i; intros [|n] x Hi; try lia.
  - rewrite one_hot_0. reflexivity.
  - rewrite one_hot_S. simpl. apply IHi; lia.
Qed.

Lemma one_hot_other {A} : forall i n p (x : A),
  (i < n)%nat -> (p < n)%nat -> p <> i -> nth_error (one_hot n i x) p = Some None.
Proof.
  induction i; intros [|n] p x Hi Hp Hne; try lia.
  - rewrite one_hot_0. destruct p; [lia|]. simpl. apply nth_error_repeat_lt. lia.
  - rewrite one_hot_S. destruct p; simpl; auto. apply IHi; lia.
Qed.

Lemma ksum_repeat_none s n : ksum s (repeat None n) = 0.
Proof. induction n; simpl; auto. Qed.

Lemma ksum_app s l l' : ksum s (l ++ l') = ksum s l + ksum s l'.
Proof. induction l as [|[u|] r IH]; simpl; lia. Qed.

Lemma ksum_one_hot s n i t : ksum s (one_hot n i t) = tsize s t.
Proof.
  unfold one_hot. rewrite !ksum_app, !ksum_repeat_none. simpl. lia.
Qed.

(* ------------------------------------------------------------------ gather / scatter *)
Definition nes (s : spec) (cs : list Z) : list Z :=
  filter (fun c => negb (is_empty s c)) cs.
Arguments nes : simpl never.

Lemma nes_cons_empty s c cs : is_empty s c = true -> nes s (c :: cs) = nes s cs.
Proof. intros H. unfold nes. simpl. rewrite H. reflexivity. Qed.

Lemma nes_cons_nonempty s c cs : is_empty s c = false -> nes s (c :: cs) = c :: nes s cs.
Proof. intros H. unfold nes. simpl. rewrite H. reflexivity. Qed.

Lemma nes_in s cs b : In b (nes s cs) -> In b cs /\ is_empty s b = false.
Proof.
  unfold nes. rewrite filter_In. intros [H1 H2]. split; auto.
  destruct (is_empty s b); simpl in *; congruence.
Qed.

Lemma nes_all s cs : (forall c, In c cs -> is_empty s c = false) -> nes s cs = cs.
Proof.
  induction cs as [|c cs IH]; intros H; auto.
  rewrite nes_cons_nonempty by (apply H; left; reflexivity).
  f_equal. apply IH. intros; apply H; right; assumption.
Qed.

(* the parts of an object at the non-empty children *)
Fixpoint gather (s : spec) (cs : list Z) (kids : list (option tree)) : list (option tree) :=
  match cs, kids with
  | c :: cs', k :: ks => if is_empty s c then gather s cs' ks else k :: gather s cs' ks
  | _, _ => []
  end.

(* the tuple for all children from the parts for the non-empty ones *)
Fixpoint scatter (s : spec) (cs : list Z) (vals : list (option tree)) : list (option tree) :=
  match cs with
  | [] => []
  | c :: rest =>
      if is_empty s c then None :: scatter s rest vals
      else match vals with
           | [] => None :: scatter s rest []
           | v :: vs => v :: scatter s rest vs
           end
  end.

Definition tagz (v : option tree) (c : Z) : option (tree * Z) :=
  match v with Some t => Some (t, c) | None => None end.

Fixpoint zipt (vs : list (option tree)) (cs : list Z) : list (option (tree * Z)) :=
  match vs, cs with
  | v :: vs', c :: cs' => tagz v c :: zipt vs' cs'
  | _, _ => []
  end.

Lemma nth_error_zipt : forall vs cs j,
  nth_error (zipt vs cs) j =
  match nth_error vs j, nth_error cs j with
  | Some v, Some c => Some (tagz v c)
  | _, _ => None
  end.
Proof.
  induction vs as [|v vs IH]; intros [|c cs] [|j]; simpl; auto.
  - destruct (nth_error vs j); reflexivity.
Qed.

Lemma zipt_length : forall vs cs, length vs = length cs -> length (zipt vs cs) = length cs.
Proof.
  induction vs as [|v vs IH]; intros [|c cs] H; simpl in *; try discriminate; auto.
Qed.

Lemma gn_zipt s : forall cs kids,
  get_nonempty s cs kids = zipt (gather s cs kids) (nes s cs).
Proof.
  induction cs as [|c cs IH]; intros [|k ks]; simpl; auto.
  destruct (is_empty s c) eqn:E.
  - rewrite nes_cons_empty by exact E. apply IH.
  - rewrite nes_cons_nonempty by exact E. simpl. rewrite IH. destruct k; reflexivity.
Qed.

Lemma gather_length s : forall cs kids,
  length kids = length cs -> length (gather s cs kids) = length (nes s cs).
Proof.
  induction cs as [|c cs IH]; intros [|k ks] H; simpl in *; try discriminate; auto.
  destruct (is_empty s c) eqn:E.
  - rewrite nes_cons_empty by exact E. apply IH; lia.
  - rewrite nes_cons_nonempty by exact E. simpl. rewrite IH; lia.
Qed.

Lemma scatter_length s : forall cs vals, length (scatter s cs vals) = length cs.
Proof.
  induction cs as [|c cs IH]; intros vals; simpl; auto.
  destruct (is_empty s c); simpl; [rewrite IH; reflexivity|].
  destruct vals; simpl; rewrite IH; reflexivity.
Qed.

Lemma gather_scatter s : forall cs vals,
  length vals = length (nes s cs) -> gather s cs (scatter s cs vals) = vals.
Proof.
  induction cs as [|c cs IH]; intros vals H; simpl in *.
  - destruct vals; [reflexivity|discriminate].
  - destruct (is_empty s c) eqn:E.
    + rewrite nes_cons_empty in H by exact E. apply IH; exact H.
    + rewrite nes_cons_nonempty in H by exact E.
      destruct vals as [|v vs]; [discriminate|].
      f_equal. apply IH. simpl in H; lia.
Qed.

Lemma scatter_gather s : forall cs kids,
  length kids = length cs ->
  (forall p c, nth_error cs p = Some c -> is_empty s c = true -> nth_error kids p = Some None) ->
  scatter s cs (gather s cs kids) = kids.
Proof.
  induction cs as [|c cs IH]; intros [|k ks] Hlen H; simpl in *; try discriminate; auto.
  destruct (is_empty s c) eqn:E.
  - assert (Hk : Some k = Some None) by (apply (H O c); auto). injection Hk as ->.
    f_equal. apply IH; [lia|]. intros p c' Hp He. apply (H (S p) c'); auto.
  - f_equal. apply IH; [lia|]. intros p c' Hp He. apply (H (S p) c'); auto.
Qed.

Lemma gather_nth s : forall cs kids q v,
  nth_error (gather s cs kids) q = Some v ->
  exists p c, nth_error cs p = Some c /\ nth_error (nes s cs) q = Some c /\
              nth_error kids p = Some v.
Proof.
  induction cs as [|c cs IH]; intros [|k ks] q v H; simpl in H;
    try (destruct q; discriminate).
  destruct (is_empty s c) eqn:E.
  - rewrite nes_cons_empty by exact E.
    destruct (IH _ _ _ H) as [p [c' [H1 [H2 H3]]]].
    exists (S p), c'. auto.
  - rewrite nes_cons_nonempty by exact E. destruct q; simpl in H.
    + exists O, c. simpl. auto.
    + destruct (IH _ _ _ H) as [p [c' [H1 [H2 H3]]]].
      exists (S p), c'. auto.
Qed.

Lemma gather_all s : forall cs kids,
  (forall c, In c cs -> is_empty s c = false) -> length kids = length cs ->
  gather s cs kids = kids.
Proof.
  induction cs as [|c cs IH]; intros [|k ks] H Hlen; simpl in *; try discriminate; auto.
  rewrite (H c) by auto. f_equal. apply IH; auto.
Qed.

Lemma scatter_all s : forall cs vals,
  (forall c, In c cs -> is_empty s c = false) -> length vals = length cs ->
  scatter s cs vals = vals.
Proof.
  induction cs as [|c cs IH]; intros [|k ks] H Hlen; simpl in *; try discriminate; auto.
  rewrite (H c) by auto. f_equal. apply IH; auto.
Qed.

Lemma gather_none s : forall cs n,
  n = length cs -> gather s cs (repeat None n) = repeat None (length (nes s cs)).
Proof.
  induction cs as [|c cs IH]; intros n ->; simpl; auto.
  destruct (is_empty s c) eqn:E.
  - rewrite nes_cons_empty by exact E. apply IH; reflexivity.
  - rewrite nes_cons_nonempty by exact E. simpl. rewrite IH; reflexivity.
Qed.

Lemma scatter_none s : forall cs vals,
  (forall j, (j < length vals)%nat -> nth_error vals j = Some None) ->
  scatter s cs vals = repeat None (length cs).
Proof.
  induction cs as [|c cs IH]; intros vals H; simpl; auto.
  destruct (is_empty s c).
  - rewrite IH; auto.
  - destruct vals as [|v vs].
    + rewrite IH; auto.
    + assert (Hv : Some v = Some None) by (apply (H O); simpl; lia). injection Hv as ->.
      rewrite IH; auto. intros j Hj. apply (H (S j)). simpl; lia.
Qed.

Lemma gather_one_hot s : forall cs i d t,
  nth_error cs i = Some d -> is_empty s d = false ->
  exists q, gather s cs (one_hot (length cs) i t) = one_hot (length (nes s cs)) q t /\
            nth_error (nes s cs) q = Some d /\ (q < length (nes s cs))%nat.
Proof.
  induction cs as [|c cs IH]; intros [|i] d t Hi Hd; simpl in Hi; try discriminate.
  - injection Hi as ->. exists O.
    rewrite nes_cons_nonempty by exact Hd. simpl length.
    rewrite !one_hot_0. simpl. rewrite Hd. rewrite gather_none by reflexivity.
    repeat split; auto. lia.
  - destruct (IH i d t Hi Hd) as [q [H1 [H2 H3]]].
    simpl length at 1. rewrite one_hot_S. simpl gather.
    destruct (is_empty s c) eqn:E.
    + rewrite nes_cons_empty by exact E. exists q. auto.
    + rewrite nes_cons_nonempty by exact E. exists (S q). simpl length.
      rewrite one_hot_S. rewrite H1. repeat split; auto. lia.
Qed.

Lemma scatter_one_hot s : forall cs vals j u,
  length vals = length (nes s cs) ->
  nth_error vals j = Some (Some u) ->
  (forall j', j' <> j -> (j' < length vals)%nat -> nth_error vals j' = Some None) ->
  exists i b, scatter s cs vals = one_hot (length cs) i u /\
              nth_error cs i = Some b /\ nth_error (nes s cs) j = Some b.
Proof.
  induction cs as [|c cs IH]; intros vals j u Hlen Hj Hoth.
  - simpl in Hlen. destruct vals; [|discriminate]. destruct j; discriminate.
  - simpl scatter. destruct (is_empty s c) eqn:E.
    + rewrite nes_cons_empty in * by exact E.
      destruct (IH vals j u Hlen Hj Hoth) as [i [b [H1 [H2 H3]]]].
      exists (S i), b. simpl length. rewrite one_hot_S, H1. auto.
    + rewrite nes_cons_nonempty in * by exact E.
      destruct vals as [|v vs]; [discriminate|]. simpl in Hlen.
      destruct j as [|j]; simpl in Hj.
      * injection Hj as ->. exists O, c. simpl length. rewrite one_hot_0.
        rewrite scatter_none; auto.
        intros j' Hj'. apply (Hoth (S j')); simpl; lia.
      * assert (Hv : Some v = Some None) by (apply (Hoth O); simpl; lia). injection Hv as ->.
        assert (Hl' : length vs = length (nes s cs)) by lia.
        assert (Ho' : forall j', j' <> j -> (j' < length vs)%nat -> nth_error vs j' = Some None).
        { intros j' Hne Hlt. apply (Hoth (S j')); simpl; lia. }
        destruct (IH vs j u Hl' Hj Ho') as [i [b [H1 [H2 H3]]]].
        exists (S i), b. simpl length. rewrite one_hot_S, H1. auto.
Qed.

Lemma ksum_scatter s0 s : forall cs vals,
  length vals = length (nes s cs) -> ksum s0 (scatter s cs vals) = ksum s0 vals.
Proof.
  induction cs as [|c cs IH]; intros vals H; simpl in *.
  - destruct vals; [reflexivity|discriminate].
  - destruct (is_empty s c) eqn:E.
    + rewrite nes_cons_empty in H by exact E. simpl. apply IH; exact H.
    + rewrite nes_cons_nonempty in H by exact E.
      destruct vals as [|v vs]; [discriminate|]. simpl in H.
      destruct v; simpl; rewrite IH by lia; reflexivity.
Qed.

(* ------------------------------------------------------------------ build_kids *)
Lemma build_kids_mono : forall (rec rec' : tree -> Z -> Z -> res tree) s2 cs it l,
  (forall t a b u, rec t a b = Ok u -> rec' t a b = Ok u) ->
  build_kids rec s2 cs it = Ok l -> build_kids rec' s2 cs it = Ok l.
Proof.
  intros rec rec' s2 cs. induction cs as [|c rest IH]; intros it l Hr H; simpl in *; auto.
  destruct (is_empty s2 c).
  - apply bind_ok in H. destruct H as [l0 [H1 H2]]. rewrite (IH _ _ Hr H1). simpl. exact H2.
  - destruct it as [|[[[t c1]|]|] it']; try discriminate.
    + apply bind_ok in H. destruct H as [u [H1 H2]].
      apply bind_ok in H2. destruct H2 as [l0 [H2 H3]].
      rewrite (Hr _ _ _ _ H1). simpl. rewrite (IH _ _ Hr H2). simpl. exact H3.
    + apply bind_ok in H. destruct H as [l0 [H1 H2]]. rewrite (IH _ _ Hr H1). simpl. exact H2.
Qed.

Lemma build_kids_scatter : forall (rec : tree -> Z -> Z -> res tree) s2 cs it vals,
  length it = length (nes s2 cs) -> length vals = length (nes s2 cs) ->
  (forall j b, nth_error (nes s2 cs) j = Some b ->
     exists x, nth_error it j = Some (Some x) /\
       match x with
       | None => nth_error vals j = Some None
       | Some (t, a) => exists u, nth_error vals j = Some (Some u) /\ rec t a b = Ok u
       end) ->
  build_kids rec s2 cs it = Ok (scatter s2 cs vals).
Proof.
  intros rec s2 cs. induction cs as [|c cs IH]; intros it vals H1 H2 H; simpl; auto.
  destruct (is_empty s2 c) eqn:E.
  - rewrite nes_cons_empty in * by exact E. rewrite (IH it vals); auto.
  - rewrite nes_cons_nonempty in * by exact E.
    destruct it as [|x0 it']; [discriminate|]. destruct vals as [|v vs]; [discriminate|].
    simpl in H1, H2.
    destruct (H O c) as [x [Hx Hm]]; [reflexivity|]. simpl in Hx. injection Hx as ->.
    assert (IH' : build_kids rec s2 cs it' = Ok (scatter s2 cs vs)).
    { apply IH; try lia. intros j b Hb. apply (H (S j) b). exact Hb. }
    destruct x as [[t a]|].
    + destruct Hm as [u [Hu Hr]]. simpl in Hu. injection Hu as ->.
      rewrite Hr. simpl. rewrite IH'. reflexivity.
    + simpl in Hm. injection Hm as ->. rewrite IH'. reflexivity.
Qed.
