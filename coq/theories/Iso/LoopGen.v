(* The backtracking loop of _are_isomorphic, generically: whatever the recursive call
   establishes about a pair it matched (Q), provided that is stable under the state changes
   the loop goes through (ext), holds at the end for every pair of the permutation the loop
   returns — and what it returns IS a permutation.  (Iso/Search.v proves this for its own
   notion of justification; this file states it once for any.) *)
From Coq Require Import ZArith List Bool Lia Permutation.
From CSS Require Import Base.PyList Iso.Model Iso.Valid Iso.SearchBasics Iso.Search.
Import ListNotations.
Open Scope Z_scope.

Lemma all_lt_In (n : nat) (l : list nat) :
  NoDup l -> length l = n -> (forall j, In j l -> (j < n)%nat) -> forall j, (j < n)%nat -> In j l.
Proof.
  intros ND L B j Hj.
  assert (I : incl (seq 0 n) l).
  { apply NoDup_length_incl; auto.
    - rewrite seq_length. lia.
    - intros x Hx. apply in_seq. specialize (B x Hx). lia. }
  apply I. apply in_seq. lia.
Qed.

(* the final child_order is the inverse of the path: a permutation *)
Lemma inverse_is_perm (n : nat) (co : list Z) (sigma : list nat) :
  length co = n -> NoDup sigma -> length sigma = n -> (forall j, In j sigma -> (j < n)%nat) ->
  (forall m jm, nth_error sigma m = Some jm -> nth_error co jm = Some (Z.of_nat m)) ->
  is_perm co n /\
  (forall j i, nth_error co j = Some i -> exists m, i = Z.of_nat m /\ nth_error sigma m = Some j).
Proof.
  intros Lc ND Ls B H.
  assert (Inv1 : forall j i, nth_error co j = Some i -> exists m, i = Z.of_nat m /\ nth_error sigma m = Some j).
  { intros j i Hj.
    assert (Hjn : (j < n)%nat) by (rewrite <- Lc; apply nth_error_Some; congruence).
    destruct (In_nth_error _ _ (all_lt_In n sigma ND Ls B j Hjn)) as (m & Hm).
    exists m. split; auto. specialize (H _ _ Hm). congruence. }
  split; [|exact Inv1].
  split; [exact Lc|]. split.
  - apply NoDup_nth_error. intros i j Hi E.
    destruct (nth_error co i) as [x|] eqn:Ei; [|apply nth_error_Some in Hi; congruence].
    symmetry in E.
    destruct (Inv1 _ _ Ei) as (m & -> & Hm). destruct (Inv1 _ _ E) as (m' & Em & Hm').
    apply Nat2Z.inj in Em. subst m'. congruence.
  - intros x Hx. destruct (In_nth_error _ _ Hx) as (j & Hj).
    destruct (Inv1 _ _ Hj) as (m & -> & Hm).
    assert ((m < n)%nat) by (rewrite <- Ls; apply nth_error_Some; congruence). lia.
Qed.

Section GenLoop.
Variables (ne1 ne2 : list Z) (n : nat).
Variable P : st -> Prop.                    (* invariant of the states the loop goes through *)
Variable ext : st -> st -> Prop.            (* how a call may change the state *)
Variable Q : st -> Z -> Z -> Prop.          (* the pair is justified in this state *)
Hypothesis ext_refl : forall s, ext s s.
Hypothesis ext_trans : forall a b c, ext a b -> ext b c -> ext a c.
Hypothesis Q_ext : forall s s' a b, ext s s' -> Q s a b -> Q s' a b.

Variable rec : st -> Z -> Z -> res (bool * st).
Hypothesis Hrec : forall s a b r s',
  P s -> rec s a b = Ok (r, s') -> P s' /\ ext s s' /\ (r = true -> Q s' a b).

Definition gelem_ok (s : st) (co : list Z) (e : elem) (js : list nat) : Prop :=
  let '(i1, i2, U) := e in
  length js = i1 /\ (i1 < n)%nat /\ (i2 < n)%nat /\ NoDup (i2 :: js) /\
  (forall j, In j js -> (j < n)%nat) /\
  (forall j, nat_in j U = true <-> In j (i2 :: js)) /\
  (forall m jm, nth_error js m = Some jm ->
     nth_error co jm = Some (Z.of_nat m) /\
     exists a b, nth_error ne1 m = Some a /\ nth_error ne2 jm = Some b /\ Q s a b).

Inductive gstack_ok (s : st) (co : list Z) : list elem -> list (list nat) -> Prop :=
| gso_nil : gstack_ok s co [] []
| gso_cons e js stk gs :
    gelem_ok s co e js -> (forall js', In js' gs -> prefix js' js) ->
    gstack_ok s co stk gs -> gstack_ok s co (e :: stk) (js :: gs).

Lemma gelem_ok_ext s s' co e js : ext s s' -> gelem_ok s co e js -> gelem_ok s' co e js.
Proof.
  intros H. destruct e as [[i1 i2] U]. simpl.
  intros (L & B1 & B2 & ND & Hlt & HU & Hm). repeat (split; [assumption|]).
  intros m jm Hj. destruct (Hm m jm Hj) as (Hc & a & b & Ha & Hb & Hq).
  split; [auto|]. exists a, b. repeat (split; [assumption|]). eapply Q_ext; eauto.
Qed.

Lemma gstack_ok_ext s s' co stk gs : ext s s' -> gstack_ok s co stk gs -> gstack_ok s' co stk gs.
Proof. intros H. induction 1; constructor; auto. eapply gelem_ok_ext; eauto. Qed.

Lemma gelem_ok_set s co e js i v : ~ In i js -> gelem_ok s co e js -> gelem_ok s (set_nth co i v) e js.
Proof.
  intros Hni. destruct e as [[i1 i2] U]. simpl.
  intros (L & B1 & B2 & ND & Hlt & HU & Hm). repeat (split; [assumption|]).
  intros m jm Hj. destruct (Hm m jm Hj) as (Hc & R). split; [|exact R].
  rewrite nth_error_set_nth_other; auto.
  intros ->. apply Hni. eapply nth_error_In; eauto.
Qed.

Lemma gstack_ok_set s co stk gs i v :
  (forall js, In js gs -> ~ In i js) -> gstack_ok s co stk gs -> gstack_ok s (set_nth co i v) stk gs.
Proof.
  intros H. induction 1; constructor; auto.
  - apply gelem_ok_set; auto. apply H. left; auto.
  - apply IHgstack_ok. intros js' Hin. apply H. right; auto.
Qed.

Lemma gen_loop g : forall stack gs bl co s r s',
  P s -> length co = n -> gstack_ok s co stack gs ->
  iso_loop rec g ne1 ne2 n stack bl co s = Ok (r, s') ->
  P s' /\ ext s s' /\
  match r with
  | None => True
  | Some co' =>
      is_perm co' n /\
      forall j i a b, nth_error co' j = Some i -> nth_error ne1 (Z.to_nat i) = Some a ->
                      nth_error ne2 j = Some b -> Q s' a b
  end.
Proof.
  induction g as [|g IH]; intros stack gs bl co s r s' HP Lco Hst; [discriminate|].
  cbn [iso_loop].
  destruct stack as [|[[i1 i2] U] stack'].
  { intros H. inversion H; subst. auto. }
  inversion Hst as [|e js stk gs' He Hpre Hrest]; subst.
  destruct (npair_in (i1, i2) bl).
  { intros H. eapply IH; eauto. }
  destruct He as (Ljs & B1 & B2 & ND & Hlt & HU & Hm).
  destruct (nth_error ne1 i1) as [a|] eqn:Ea; [|discriminate].
  destruct (nth_error ne2 i2) as [b|] eqn:Eb; [|discriminate].
  destruct (rec s a b) as [[[|] s0]| |] eqn:Er; try discriminate.
  - destruct (Hrec _ _ _ _ _ HP Er) as (HP0 & Hext & Hq). specialize (Hq eq_refl).
    set (co' := set_nth co i2 (Z.of_nat i1)).
    assert (Lco' : length co' = n) by (unfold co'; rewrite set_nth_length; auto).
    assert (Ni2 : ~ In i2 js) by (inversion ND; auto).
    assert (Hpath : forall m jm, nth_error (js ++ [i2]) m = Some jm ->
              nth_error co' jm = Some (Z.of_nat m) /\
              exists a' b', nth_error ne1 m = Some a' /\ nth_error ne2 jm = Some b' /\ Q s0 a' b').
    { intros m jm Hj. destruct (Nat.lt_ge_cases m (length js)) as [Hlt'|Hge].
      - rewrite nth_error_app1 in Hj by auto.
        destruct (Hm _ _ Hj) as (Hc & a' & b' & Ha' & Hb' & Hq').
        split.
        + unfold co'. rewrite nth_error_set_nth_other; auto.
          intros <-. apply Ni2. eapply nth_error_In; eauto.
        + exists a', b'. repeat (split; [assumption|]). eapply Q_ext; eauto.
      - rewrite nth_error_app2 in Hj by auto.
        destruct (m - length js)%nat eqn:D; simpl in Hj; [|destruct n0; discriminate].
        inversion Hj; subst jm. assert (m = i1) by lia. subst m.
        split.
        + unfold co'. apply nth_error_set_nth_same. lia.
        + exists a, b. auto. }
    assert (NDs : NoDup (js ++ [i2])).
    { eapply Permutation_NoDup; [apply Permutation_cons_append|exact ND]. }
    assert (Bs : forall j, In j (js ++ [i2]) -> (j < n)%nat).
    { intros j Hj. apply in_app_or in Hj. destruct Hj as [Hj|[<-|[]]]; auto. }
    destruct (Nat.eqb (S i1) n) eqn:Efin.
    + apply Nat.eqb_eq in Efin.
      intros H. inversion H; subst r s'. clear H.
      split; [auto|]. split; [auto|].
      assert (Ls : length (js ++ [i2]) = n) by (rewrite app_length; simpl; lia).
      destruct (inverse_is_perm n co' (js ++ [i2]) Lco' NDs Ls Bs) as (Pm & Pinv).
      { intros m jm Hj. apply Hpath; auto. }
      split; [exact Pm|].
      intros j i a0 b0 Hj Ha0 Hb0.
      destruct (Pinv _ _ Hj) as (m & -> & Hmj).
      destruct (Hpath _ _ Hmj) as (_ & a' & b' & Ha' & Hb' & Hq').
      rewrite Nat2Z.id in Ha0. congruence.
    + apply Nat.eqb_neq in Efin.
      intros H.
      assert (Hrest' : gstack_ok s0 co' stack' gs').
      { apply gstack_ok_set.
        - intros js' Hin Hi. apply Ni2. eapply prefix_In; eauto.
        - eapply gstack_ok_ext; eauto. }
      rewrite extend_stack_eq in H.
      set (L := filter (fun i => negb (nat_in i U)) (seq 0 n)) in *.
      assert (HL : forall i, In i L -> (i < n)%nat /\ nat_in i U = false).
      { intros i Hi. apply filter_In in Hi. destruct Hi as [Hi Hu]. apply in_seq in Hi.
        apply negb_true_iff in Hu. split; [lia|auto]. }
      assert (Hnew : gstack_ok s0 co'
                       (map (fun i => (S i1, i, i :: U)) L ++ stack')
                       (map (fun _ => js ++ [i2]) L ++ gs')).
      { clear H. induction L as [|i L IHL]; simpl; [exact Hrest'|].
        constructor.
        - destruct (HL i (or_introl eq_refl)) as [Hi Hu].
          assert (Niu : ~ In i (i2 :: js)).
          { intros X. apply HU in X. congruence. }
          simpl. split; [rewrite app_length; simpl; lia|]. split; [lia|]. split; [auto|].
          split.
          { constructor; auto. intros X. apply Niu. apply in_app_or in X.
            destruct X as [X|[<-|[]]]; [right; auto|left; auto]. }
          split; [exact Bs|]. split.
          { intros j. rewrite orb_true_iff, Nat.eqb_eq, HU. split.
            - intros [->|[<-|X]]; [left; auto|right; apply in_or_app; right; left; auto|
                                   right; apply in_or_app; left; auto].
            - intros [<-|X]; [left; auto|]. apply in_app_or in X.
              destruct X as [X|[<-|[]]]; [right; right; auto|right; left; auto]. }
          exact Hpath.
        - intros js' Hin. apply in_app_or in Hin. destruct Hin as [Hin|Hin].
          + apply in_map_iff in Hin. destruct Hin as (x & <- & _). apply prefix_refl.
          + eapply prefix_trans; [apply Hpre; auto|]. exists [i2]. reflexivity.
        - apply IHL. intros x Hx. apply HL. right; auto. }
      destruct (IH _ _ _ _ _ _ _ HP0 Lco' Hnew H) as (HP' & Hext' & Hr).
      split; [auto|]. split; [eapply ext_trans; eauto|]. exact Hr.
  - destruct (Hrec _ _ _ _ _ HP Er) as (HP0 & Hext & _).
    intros H.
    assert (Hrest' : gstack_ok s0 co stack' gs') by (eapply gstack_ok_ext; eauto).
    destruct (IH _ _ _ _ _ _ _ HP0 Lco Hrest' H) as (HP' & Hext' & Hr).
    split; [auto|]. split; [eapply ext_trans; eauto|]. exact Hr.
Qed.

(* the initial stack *)
Lemma gen_init s : gstack_ok s (repeat (-1) n) (init_stack n) (map (fun _ => []) (seq 0 n)).
Proof.
  rewrite init_stack_eq.
  assert (G : forall l, (forall i, In i l -> (i < n)%nat) ->
            gstack_ok s (repeat (-1) n) (map (fun i => (O, i, [i])) l) (map (fun _ => []) l)).
  { induction l as [|i l IHl]; intros Hl'; simpl; constructor.
    - simpl. assert (Hi : (i < n)%nat) by (apply Hl'; left; auto).
      split; [reflexivity|]. split; [lia|]. split; [auto|]. split; [repeat constructor; intros []|].
      split; [intros j []|]. split.
      + intros j. simpl. rewrite orb_false_r, Nat.eqb_eq. split; [intros ->; left; auto|intros [<-|[]]; auto].
      + intros m jm Hj. destruct m; discriminate.
    - intros js' Hin. apply in_map_iff in Hin. destruct Hin as (x & <- & _). apply prefix_refl.
    - apply IHl. intros x Hx. apply Hl'. right; auto. }
  apply G. intros i Hi. apply in_seq in Hi. lia.
Qed.
End GenLoop.
