(* Reflexivity up to empty classes, without fuel (verdict = Isomorphism.check), and the soundness of its decider
   (Iso/DecidersRefl.v refl_hypsb, run by run_c12 on every descriptor). *)
From Coq Require Import ZArith List Bool Lia.
From CSS Require Import Base.PyList Iso.Model Iso.Valid Iso.Construct Iso.Deciders Iso.DecidersRefl
     Iso.ReflTotal Iso.ReflOn Iso.Verdict.
Import ListNotations.
Open Scope Z_scope.

Theorem verdict_reflexive_nonempty exact s :
  eq_wf s ->
  is_empty s (s_root s) = false ->
  (forall c r, find_rule s c = Some r -> is_empty s c = false -> r_children r = [] -> r_atom r = true) ->
  (forall c r, find_rule s c = Some r -> is_empty s c = false -> r_children r <> [] ->
     ne_children s r <> [] /\ r_isrule r = true) ->
  (forall c r d, find_rule s c = Some r -> is_empty s c = false -> In d (ne_children s r) ->
     exists r', find_rule s d = Some r') ->
  (exists r0, find_rule s (s_root s) = Some r0) ->
  verdict exact s s = Ok true.
Proof.
  intros W Hroot Ha Hn Hc (r0 & F).
  destruct (refl_total_nonempty exact s W Hroot Ha Hn Hc r0 F _ (le_n _)) as (st & H).
  eapply verdict_of_run; eauto.
Qed.

Lemma eq_wfb_sound s : eq_wfb s = true -> eq_wf s.
Proof.
  unfold eq_wfb. intros Hall. rewrite forallb_forall in Hall.
  intros c r Hf Heq. apply find_rule_in_rules in Hf. specialize (Hall (c, r) Hf). simpl in Hall.
  unfold eq_rule_okb in Hall. rewrite Heq in Hall.
  destruct (r_children r) as [|d [|]] eqn:Ec; try discriminate.
  apply andb_true_iff in Hall. destruct Hall as [H1 Hch]. apply andb_true_iff in H1. destruct H1 as [Hne Hir].
  exists d. split; [reflexivity|]. split; [apply negb_true_iff; exact Hne|]. split; [exact Hir|].
  eapply chainb_sound. exact Hch.
Qed.

Lemma has_rule_sound s d : has_rule s d = true -> exists r, find_rule s d = Some r.
Proof. unfold has_rule. destruct (find_rule s d); [eauto|discriminate]. Qed.

Theorem refl_hypsb_sound exact s : refl_hypsb s = true -> verdict exact s s = Ok true.
Proof.
  unfold refl_hypsb. intros H.
  apply andb_true_iff in H. destruct H as [H Hall].
  apply andb_true_iff in H. destruct H as [H Hroot].
  apply andb_true_iff in H. destruct H as [Hw Hne].
  rewrite forallb_forall in Hall.
  assert (Hr : forall c r, find_rule s c = Some r -> is_empty s c = false ->
            match r_children r with
            | [] => r_atom r
            | _ :: _ => negb (isnil (ne_children s r)) && r_isrule r && forallb (has_rule s) (ne_children s r)
            end = true).
  { intros c r Hf He. apply find_rule_in_rules in Hf. specialize (Hall (c, r) Hf).
    unfold refl_rule_okb in Hall. simpl in Hall. rewrite He in Hall. exact Hall. }
  apply verdict_reflexive_nonempty.
  - apply eq_wfb_sound; exact Hw.
  - apply negb_true_iff; exact Hne.
  - intros c r Hf He Hc. specialize (Hr c r Hf He). rewrite Hc in Hr. exact Hr.
  - intros c r Hf He Hc. specialize (Hr c r Hf He).
    destruct (r_children r) as [|x l]; [congruence|].
    apply andb_true_iff in Hr. destruct Hr as [Hr _]. apply andb_true_iff in Hr. destruct Hr as [H1 H2].
    split; [|exact H2]. intros X. rewrite X in H1. discriminate.
  - intros c r d Hf He Hin. specialize (Hr c r Hf He).
    destruct (r_children r) as [|x l] eqn:Ec.
    + unfold ne_children in Hin. rewrite Ec in Hin. destruct Hin.
    + apply andb_true_iff in Hr. destruct Hr as [_ Hr]. rewrite forallb_forall in Hr.
      apply has_rule_sound. apply Hr. exact Hin.
  - apply has_rule_sound; exact Hroot.
Qed.
