(* Symmetry of the isomorphism test on specifications without chained equivalence rules
   ("flat": the child of an equivalence rule has a rule that is not an equivalence, which
   is what collapsing equivalence paths produces).

   check(s1, s2) True  =>  the pairs accepted by the final order map form a simulation
   (Iso/Complete.v) for (s1, s2)  [soundness, Iso/Search.v]
                       =>  its converse is a simulation for (s2, s1)
   [Constructor.equiv and the atom test are symmetric, the pairing of the children is
   inverted]           =>  check(s2, s1) never answers False  [completeness]. *)
From Coq Require Import ZArith List Bool Lia.
From CSS Require Import Base.PyList Iso.Model Iso.Cert Iso.Valid Iso.SearchBasics Iso.Search
     Iso.Complete Iso.EquivSym.
Import ListNotations.
Open Scope Z_scope.

Definition flat (s : spec) : Prop :=
  forall c r d, find_rule s c = Some r -> r_iseq r = true -> r_children r = [d] ->
    exists r', find_rule s d = Some r' /\ r_iseq r' = false.

(* the inverse of an injective list of all indices below n *)
Definition inverse_list (sigma : list nat) (n : nat) : list nat :=
  map (fun i => index_of i sigma) (seq 0 n).

Lemma all_in (n : nat) (l : list nat) :
  NoDup l -> length l = n -> (forall j, In j l -> (j < n)%nat) -> forall j, (j < n)%nat -> In j l.
Proof.
  intros ND L B j Hj.
  assert (I : incl (seq 0 n) l).
  { apply NoDup_length_incl; auto.
    - rewrite seq_length. lia.
    - intros x Hx. apply in_seq. specialize (B x Hx). lia. }
  apply I. apply in_seq. lia.
Qed.

Lemma inverse_list_spec sigma n :
  length sigma = n -> NoDup sigma -> (forall j, In j sigma -> (j < n)%nat) ->
  length (inverse_list sigma n) = n /\ NoDup (inverse_list sigma n) /\
  (forall j, In j (inverse_list sigma n) -> (j < n)%nat) /\
  (forall i2 i1, nth_error (inverse_list sigma n) i2 = Some i1 -> nth_error sigma i1 = Some i2).
Proof.
  intros L ND B. unfold inverse_list.
  assert (Hall : forall i, (i < n)%nat -> In i sigma) by (apply all_in; auto).
  split; [rewrite map_length, seq_length; reflexivity|]. split; [|split].
  - apply NoDup_map_on; [|apply seq_NoDup].
    intros x y Hx Hy E. apply in_seq in Hx. apply in_seq in Hy.
    assert (X : nth_error sigma (index_of x sigma) = Some x) by (apply index_of_nth, Hall; lia).
    assert (Y : nth_error sigma (index_of y sigma) = Some y) by (apply index_of_nth, Hall; lia).
    rewrite E in X. congruence.
  - intros j Hj. apply in_map_iff in Hj. destruct Hj as (i & <- & Hi). apply in_seq in Hi.
    rewrite <- L. apply index_of_lt. apply Hall. lia.
  - intros i2 i1 H. rewrite nth_error_map in H.
    destruct (nth_error (seq 0 n) i2) as [x|] eqn:E; [|discriminate]. simpl in H. inversion H; subst i1.
    assert (x = i2).
    { assert (Hlt : (i2 < n)%nat).
      { rewrite <- (seq_length n 0). apply nth_error_Some. congruence. }
      rewrite (nth_error_nth' _ 0%nat) in E by (rewrite seq_length; auto).
      rewrite seq_nth in E by auto. inversion E. reflexivity. }
    subst x. apply index_of_nth. apply Hall.
    rewrite <- (seq_length n 0). apply nth_error_Some. congruence.
Qed.

Lemma akey_eqb_sym a b : akey_eqb a b = akey_eqb b a.
Proof.
  unfold akey_eqb. apply list_eqb_sym. intros x y. apply list_eqb_sym. apply Z.eqb_sym.
Qed.

(* ------------------------------------------------------------------ the converse of a simulation *)
Lemma sim_sym s1 s2 (R : Z -> Z -> Prop) :
  (forall a b, R a b -> sim_ok s1 s2 R a b) ->
  forall b a, R a b -> sim_ok s2 s1 (fun y x => R x y) b a.
Proof.
  intros Hsim b a HR.
  destruct (Hsim a b HR) as (p1 & p2 & r1 & r2 & E1 & E2 & F1 & F2 & HL & Hc).
  exists p2, p1, r2, r1. repeat (split; [auto|]).
  destruct Hc as [(N1 & N2 & A1 & A2 & AK)|(Hno & Hq & Hce & Hpos & sigma & SL & SN & SB & SR)].
  - left. repeat (split; [auto|]). rewrite akey_eqb_sym. exact AK.
  - right. split; [tauto|]. split; [auto|]. split; [rewrite ctor_equiv_sym; exact Hce|].
    split; [lia|].
    set (n := length (ne_children s1 r1)) in *.
    assert (SB' : forall j, In j sigma -> (j < n)%nat) by (intros j Hj; rewrite HL; auto).
    destruct (inverse_list_spec sigma n SL SN SB') as (IL & IN & IB & IS).
    exists (inverse_list sigma n). split; [rewrite IL; exact HL|]. split; [exact IN|].
    split; [exact IB|].
    intros i2 i1 y x Hi Hy Hx. eapply SR; eauto.
Qed.

(* ------------------------------------------------------------------ soundness gives a simulation *)
Section Sound.
Variables s1 s2 : spec.
Hypothesis W1 : eq_wf s1.
Hypothesis W2 : eq_wf s2.
Hypothesis FL1 : flat s1.
Hypothesis FL2 : flat s2.

(* on a flat specification the end of the chain of a class is the last element of its path *)
Lemma flat_path s a e k : eq_wf s -> flat s -> chain s a e k ->
  exists p, eq_path s a = Ok p /\ last p a = e.
Proof.
  intros W FL Hc. unfold eq_path.
  destruct Hc as [n r Hf He|n r d e k Hf He Hch Hc'].
  - rewrite Hf, He. exists [n]. auto.
  - rewrite Hf, He, Hch. exists [n; d]. split; [reflexivity|]. simpl.
    destruct (FL n r d Hf He Hch) as (r' & Fd & Qd).
    assert (Hd : chain s d d O) by (econstructor; eauto).
    destruct (chain_det _ _ _ _ Hc' _ _ Hd). auto.
Qed.

Lemma NoDup_to_nat (l : list Z) : NoDup l -> (forall x, In x l -> 0 <= x) -> NoDup (map Z.to_nat l).
Proof.
  intros ND Hp. apply NoDup_map_on; auto.
  intros x y Hx Hy E. apply Hp in Hx. apply Hp in Hy. lia.
Qed.

Lemma sound_sim M : Inv s1 s2 M [] ->
  forall a b, accept s1 s2 M [] a b -> sim_ok s1 s2 (accept s1 s2 M []) a b.
Proof.
  intros HI a b (e1 & e2 & k1 & k2 & C1 & C2 & J).
  destruct (flat_path s1 a e1 k1 W1 FL1 C1) as (p1 & E1 & L1).
  destruct (flat_path s2 b e2 k2 W2 FL2 C2) as (p2 & E2 & L2).
  destruct J as [(Hhas & (q1 & G1 & Q1) & (q2 & G2 & Q2))|[(q1 & q2 & G1 & G2 & LM)|(x & y & [] & _)]].
  - (* a key of the order map *)
    apply om_has_In in Hhas. destruct Hhas as (perm & Hin).
    destruct (HI _ _ _ Hin) as (r1 & r2 & F1 & F2 & I1 & I2 & E & T & Tc & Ln & Pos & _ & Hne).
    rewrite G1 in F1. inversion F1; subst r1. rewrite G2 in F2. inversion F2; subst r2.
    destruct (Hne Q1) as (N1 & N2 & (PL & PN & PB) & Hc).
    exists p1, p2, q1, q2. rewrite L1, L2. repeat (split; [auto|]).
    right. split; [tauto|]. split; [auto|]. split; [auto|]. split; [auto|].
    set (n := length (ne_children s1 q1)) in *.
    set (tau := map Z.to_nat perm).
    assert (TL : length tau = n) by (unfold tau; rewrite map_length; lia).
    assert (TN : NoDup tau).
    { apply NoDup_to_nat; auto. intros z Hz. apply PB in Hz. lia. }
    assert (TB : forall j, In j tau -> (j < n)%nat).
    { intros j Hj. apply in_map_iff in Hj. destruct Hj as (z & <- & Hz). apply PB in Hz. unfold n. lia. }
    destruct (inverse_list_spec tau n TL TN TB) as (IL & IN & IB & IS).
    exists (inverse_list tau n). split; [exact IL|]. split; [exact IN|].
    split; [intros j Hj; rewrite <- Ln; apply IB; auto|].
    intros i1 i2 x y Hi Hx Hy. apply IS in Hi. unfold tau in Hi. rewrite nth_error_map in Hi.
    destruct (nth_error perm i2) as [z|] eqn:Ez; [|discriminate]. simpl in Hi. inversion Hi; subst i1.
    eapply Hc; eauto.
  - (* two matching atoms *)
    unfold leaf_match in LM. repeat (apply andb_true_iff in LM; destruct LM as [LM ?]).
    apply isnil_true in LM. apply isnil_true in H2.
    exists p1, p2, q1, q2. rewrite L1, L2.
    split; [auto|]. split; [auto|]. split; [auto|]. split; [auto|].
    split.
    + unfold ne_children. rewrite LM, H2. reflexivity.
    + left. auto.
Qed.
End Sound.

(* ------------------------------------------------------------------ symmetry *)
Theorem symmetric_flat : forall exact s1 s2,
  eq_wf s1 -> eq_wf s2 -> flat s1 -> flat s2 ->
  forall f f' st r st',
    are_isomorphic exact s1 s2 f = Ok (true, st) ->
    are_isomorphic exact s2 s1 f' = Ok (r, st') -> r = true.
Proof.
  intros exact s1 s2 W1 W2 FL1 FL2 f f' st r st' H12 H21.
  destruct (iso_sound_inv s1 s2 W1 W2 exact f st H12) as (HI & Hroot).
  set (R := accept s1 s2 (om st) []).
  assert (Hsim : forall a b, R a b -> sim_ok s1 s2 R a b).
  { intros a b. apply sound_sim; auto. }
  eapply (complete exact s2 s1 (fun y x => R x y)); [|exact Hroot|exact H21].
  intros b a HR. apply (sim_sym s1 s2 R Hsim); auto.
Qed.

(* both directions give the same answer whenever both give one *)
Theorem check_symmetric_flat : forall exact s1 s2,
  eq_wf s1 -> eq_wf s2 -> flat s1 -> flat s2 ->
  forall f f' b b' st st',
    are_isomorphic exact s1 s2 f = Ok (b, st) ->
    are_isomorphic exact s2 s1 f' = Ok (b', st') -> b = b'.
Proof.
  intros exact s1 s2 W1 W2 FL1 FL2 f f' b b' st st' H12 H21.
  destruct b, b'; auto.
  - symmetry. eapply (symmetric_flat exact s1 s2); eauto.
  - eapply (symmetric_flat exact s2 s1); eauto.
Qed.
