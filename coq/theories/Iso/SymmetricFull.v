(* Symmetry of the isomorphism test with the repaired ancestor test (exact = true), for ALL
   specifications, chained equivalence rules included:
     True one way  =>  a simulation (Iso/SearchSyn.v)  =>  its converse is a simulation
     (Iso/Symmetric.v)  =>  the other way never answers False (Iso/Complete.v). *)
From Coq Require Import ZArith List Bool Lia.
From CSS Require Import Base.PyList Iso.Model Iso.SearchBasics Iso.Search Iso.Complete Iso.Symmetric
     Iso.SearchSyn.
Import ListNotations.
Open Scope Z_scope.

Theorem symmetric_exact_true : forall s1 s2 f f' st r st',
  are_isomorphic true s1 s2 f = Ok (true, st) ->
  are_isomorphic true s2 s1 f' = Ok (r, st') -> r = true.
Proof.
  intros s1 s2 f f' st r st' H12 H21.
  destruct (sound_syn s1 s2 f st H12) as (R & Hsim & Hroot).
  eapply (complete true s2 s1 (fun y x => R x y)); [|exact Hroot|exact H21].
  intros b a HR. apply (sim_sym s1 s2 R Hsim); auto.
Qed.

Theorem symmetric_exact : forall s1 s2 f f' b b' st st',
  are_isomorphic true s1 s2 f = Ok (b, st) ->
  are_isomorphic true s2 s1 f' = Ok (b', st') -> b = b'.
Proof.
  intros s1 s2 f f' b b' st st' H12 H21.
  destruct b, b'; auto.
  - symmetry. eapply (symmetric_exact_true s1 s2); eauto.
  - eapply (symmetric_exact_true s2 s1); eauto.
Qed.
