(* Correctness of the generated Bijection._perm_inv (Gen/PermInv.v) on permutations of
   0 .. k-1: it computes the inverse permutation, and elementary facts about is_perm. *)
From Coq Require Import ZArith List Bool Lia.
From CSS Require Import Base.PyList Gen.Prelude Gen.PreludeSeq Gen.PermInv Iso.Model Iso.Valid.
Import ListNotations.
Open Scope Z_scope.

(* ------------------------------------------------------------------ list helpers *)
Lemma nth_error_ext {A} (l1 l2 : list A) :
  (forall n, nth_error l1 n = nth_error l2 n) -> l1 = l2.
Proof.
  revert l2; induction l1 as [|a t IH]; intros [|b u] H.
  - reflexivity.
  - specialize (H O); discriminate.
  - specialize (H O); discriminate.
  - pose proof (H O) as H0; simpl in H0; inversion H0; subst.
    f_equal. apply IH. intros n. exact (H (S n)).
Qed.

Lemma py_setitem_length {A} (l : list A) k v : length (py_setitem l k v) = length l.
Proof.
  unfold py_setitem, py_set.
  destruct ((0 <=? k) && (k <? zlen l)); [apply set_nth_length|].
  destruct ((k <? 0) && (- zlen l <=? k)); [apply set_nth_length|reflexivity].
Qed.

Lemma py_setitem_in_range {A} (l : list A) k v :
  0 <= k < zlen l -> py_setitem l k v = set_nth l (Z.to_nat k) v.
Proof.
  intros [H1 H2]. unfold py_setitem, py_set.
  destruct (0 <=? k) eqn:E1; [|lia].
  destruct (k <? zlen l) eqn:E2; [|lia].
  reflexivity.
Qed.

Lemma py_list_mul_single_length {A} (a : A) n :
  length (py_list_mul [a] n) = Z.to_nat n.
Proof.
  unfold py_list_mul. induction (Z.to_nat n) as [|m IH]; simpl; auto.
Qed.

Lemma py_list_mul_single_nth {A} (a : A) n j :
  (j < Z.to_nat n)%nat -> nth_error (py_list_mul [a] n) j = Some a.
Proof.
  unfold py_list_mul. revert j. induction (Z.to_nat n) as [|m IH]; intros j Hj; [lia|].
  destruct j as [|j]; simpl; auto. apply IH; lia.
Qed.

(* ------------------------------------------------------------------ the loop *)
Lemma perm_inv_loop_length : forall l perm acc,
  length (perm_inv_loop l perm acc) = length acc.
Proof.
  induction l as [|[i v] t IH]; intros perm acc; simpl; auto.
  rewrite IH. apply py_setitem_length.
Qed.

Lemma perm_inv_loop_spec : forall l perm s acc,
  (forall x, In x l -> 0 <= x < zlen acc) -> NoDup l ->
  (forall i v, nth_error l i = Some v ->
     nth_error (perm_inv_loop (py_enumerate_from s l) perm acc) (Z.to_nat v)
     = Some (s + Z.of_nat i)) /\
  (forall n, (forall x, In x l -> Z.to_nat x <> n) ->
     nth_error (perm_inv_loop (py_enumerate_from s l) perm acc) n = nth_error acc n).
Proof.
  induction l as [|x t IH]; intros perm s acc Hr Hnd.
  - split.
    + intros [|i] v H; discriminate.
    + intros n _. reflexivity.
  - inversion Hnd as [|? ? Hnotin Hnd']; subst.
    assert (Hx : 0 <= x < zlen acc) by (apply Hr; left; reflexivity).
    simpl. rewrite (py_setitem_in_range acc x s Hx).
    set (acc' := set_nth acc (Z.to_nat x) s).
    assert (Hlen : zlen acc' = zlen acc).
    { unfold zlen, acc'. rewrite set_nth_length. reflexivity. }
    assert (Hr' : forall y, In y t -> 0 <= y < zlen acc').
    { intros y Hy. rewrite Hlen. apply Hr. right; exact Hy. }
    destruct (IH perm (s + 1) acc' Hr' Hnd') as [IH1 IH2].
    split.
    + intros [|i] v H; simpl in H.
      * inversion H; subst v.
        rewrite IH2.
        -- unfold acc'. rewrite nth_error_set_nth_same.
           ++ f_equal. simpl. lia.
           ++ unfold zlen in Hx. lia.
        -- intros y Hy Heq.
           assert (0 <= y < zlen acc) by (apply Hr; right; exact Hy).
           assert (y = x) by lia. subst y. contradiction.
      * rewrite (IH1 i v H). f_equal. lia.
    + intros n Hn. rewrite IH2.
      * unfold acc'. apply nth_error_set_nth_other.
        apply Hn. left; reflexivity.
      * intros y Hy. apply Hn. right; exact Hy.
Qed.

(* ------------------------------------------------------------------ is_perm facts *)
Lemma is_perm_nth_range : forall p k j v, is_perm p k -> nth_error p j = Some v -> (Z.to_nat v < k)%nat /\ 0 <= v.
Proof.
  intros p k j v (Hlen & Hnd & Hr) H.
  apply nth_error_In in H. apply Hr in H. lia.
Qed.

Lemma is_perm_inj : forall p k i j v, is_perm p k -> nth_error p i = Some v -> nth_error p j = Some v -> i = j.
Proof.
  intros p k i j v (Hlen & Hnd & Hr) Hi Hj.
  rewrite NoDup_nth_error in Hnd. apply Hnd.
  - apply nth_error_Some. rewrite Hi. discriminate.
  - rewrite Hi, Hj. reflexivity.
Qed.

(* pigeonhole: a permutation of 0..k-1 contains every index *)
Lemma is_perm_surj : forall p k j, is_perm p k -> (j < k)%nat -> exists i, nth_error p i = Some (Z.of_nat j).
Proof.
  intros p k j (Hlen & Hnd & Hr) Hj.
  apply In_nth_error.
  assert (Hincl : incl (map Z.of_nat (seq 0 k)) p).
  { apply NoDup_length_incl.
    - exact Hnd.
    - rewrite map_length, seq_length. lia.
    - intros x Hx. apply Hr in Hx.
      apply in_map_iff. exists (Z.to_nat x). split; [lia|].
      apply in_seq. lia. }
  apply Hincl. apply in_map. apply in_seq. lia.
Qed.

(* ------------------------------------------------------------------ perm_inv *)
Lemma perm_inv_length : forall p, length (perm_inv p) = length p.
Proof.
  intros p. unfold perm_inv. rewrite perm_inv_loop_length.
  rewrite py_list_mul_single_length. unfold zlen. apply Nat2Z.id.
Qed.

(* the defining property: position v of the inverse holds the index i where v occurs *)
Lemma perm_inv_spec : forall p k i v, is_perm p k ->
  nth_error p i = Some v -> nth_error (perm_inv p) (Z.to_nat v) = Some (Z.of_nat i).
Proof.
  intros p k i v (Hlen & Hnd & Hr) H.
  unfold perm_inv, py_enumerate.
  destruct (perm_inv_loop_spec p p 0 (py_list_mul [0] (zlen p))) as [H1 _].
  - intros x Hx. apply Hr in Hx.
    unfold zlen at 1. rewrite py_list_mul_single_length.
    unfold zlen. rewrite Nat2Z.id. lia.
  - exact Hnd.
  - rewrite (H1 i v H). reflexivity.
Qed.

Lemma perm_inv_nth_inv : forall p k j w, is_perm p k ->
  nth_error (perm_inv p) j = Some w ->
  exists i, w = Z.of_nat i /\ nth_error p i = Some (Z.of_nat j).
Proof.
  intros p k j w Hp H.
  assert (Hj : (j < k)%nat).
  { destruct Hp as (Hlen & _). rewrite <- Hlen, <- perm_inv_length.
    apply nth_error_Some. rewrite H. discriminate. }
  destruct (is_perm_surj p k j Hp Hj) as [i Hi].
  exists i. split; [|exact Hi].
  pose proof (perm_inv_spec p k i _ Hp Hi) as Hs.
  rewrite Nat2Z.id in Hs. congruence.
Qed.

(* the other composition *)
Lemma perm_inv_spec' : forall p k j w, is_perm p k ->
  nth_error (perm_inv p) j = Some w -> nth_error p (Z.to_nat w) = Some (Z.of_nat j).
Proof.
  intros p k j w Hp H.
  destruct (perm_inv_nth_inv p k j w Hp H) as (i & -> & Hi).
  rewrite Nat2Z.id. exact Hi.
Qed.

Lemma perm_inv_is_perm : forall p k, is_perm p k -> is_perm (perm_inv p) k.
Proof.
  intros p k Hp. pose proof Hp as (Hlen & Hnd & Hr).
  split; [|split].
  - rewrite perm_inv_length. exact Hlen.
  - apply NoDup_nth_error. intros j1 j2 Hj1 Heq.
    destruct (nth_error (perm_inv p) j1) as [w|] eqn:E1.
    + symmetry in Heq.
      pose proof (perm_inv_spec' p k j1 w Hp E1) as A1.
      pose proof (perm_inv_spec' p k j2 w Hp Heq) as A2.
      rewrite A1 in A2. inversion A2. lia.
    + apply nth_error_None in E1. lia.
  - intros w Hw. apply In_nth_error in Hw. destruct Hw as [j Hj].
    destruct (perm_inv_nth_inv p k j w Hp Hj) as (i & -> & Hi).
    assert (i < length p)%nat by (apply nth_error_Some; rewrite Hi; discriminate).
    lia.
Qed.

Lemma perm_inv_involutive : forall p k, is_perm p k -> perm_inv (perm_inv p) = p.
Proof.
  intros p k Hp.
  pose proof (perm_inv_is_perm p k Hp) as Hq.
  apply nth_error_ext. intros n.
  destruct (nth_error p n) as [v|] eqn:E.
  - pose proof (perm_inv_spec p k n v Hp E) as H1.
    pose proof (perm_inv_spec (perm_inv p) k _ _ Hq H1) as H2.
    rewrite Nat2Z.id in H2. rewrite H2. f_equal.
    destruct (is_perm_nth_range p k n v Hp E). lia.
  - apply nth_error_None. rewrite !perm_inv_length. apply nth_error_None. exact E.
Qed.
