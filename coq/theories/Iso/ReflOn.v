(* Reflexivity of the isomorphism test UP TO EMPTY CLASSES.

   Isomorphism._are_isomorphic only ever descends into the NON-EMPTY children of a rule
   (non_empty_ind1 / non_empty_ind2: `if not c.is_empty()`), and one equivalence step leads to the
   single, non-empty child of the equivalence rule.  Started at a non-empty root the search on
   (s, s) therefore never looks at the rule of an empty class: the hypotheses of reflexivity
   (Iso/ReflTotal.v refl_total: "every childless class is an atom", ...) are only needed for the
   classes the search can reach.  Specifications found by a search hold a rule for their empty
   classes (EmptyStrategy: a VerificationRule, childless, not an atom), so the old hypothesis
   "every childless class is an atom" is false on them; the one below is not.

   refl_total_on      the general form: a set P of classes that holds the root and is closed under
                      "non-empty child of"; every hypothesis is asked for the classes of P only;
   refl_total_nonempty   P = the non-empty classes;
   refl_total_all     P = every class: Iso/ReflTotal.v refl_total again, as a corollary. *)
From Coq Require Import ZArith List Bool Lia Wf_nat.
From CSS Require Import Base.PyList Iso.Model Iso.Valid Iso.SearchBasics Iso.Search Iso.Refl Iso.ReflTotal.
Import ListNotations.
Open Scope Z_scope.

Section TotalOn.
Variable exact : bool.
Variable s : spec.
Hypothesis W : eq_wf s.
(* the classes the search on (s, s) may visit *)
Variable P : Z -> Prop.
Hypothesis Pstep : forall c r d, P c -> find_rule s c = Some r -> In d (ne_children s r) -> P d.
(* every visited class whose rule has no children (verified classes) is an atom *)
Hypothesis Hatoms : forall c r, P c -> find_rule s c = Some r -> r_children r = [] -> r_atom r = true.
(* a visited class with a decomposition rule has a non-empty child *)
Hypothesis Hne : forall c r, P c -> find_rule s c = Some r -> r_children r <> [] -> ne_children s r <> [].
(* only Rules have children *)
Hypothesis Hrule : forall c r, P c -> find_rule s c = Some r -> r_children r <> [] -> r_isrule r = true.
(* closed: every non-empty child of a visited class has a rule *)
Hypothesis Hclosed : forall c r d, P c -> find_rule s c = Some r -> In d (ne_children s r) ->
  exists r', find_rule s d = Some r'.

Lemma base_cases_diag_on st p c r ne :
  P c -> failed st = [] -> find_rule s c = Some r ->
  base_cases exact st p p c c r r ne ne = Ok 1 \/
  (base_cases exact st p p c c r r ne ne = Ok 0 /\ r_children r <> [] /\
   existsb (fun q => pair_in q (anc st)) (anc_pairs exact p p c c) = false).
Proof.
  intros Pc Hf F. unfold base_cases.
  destruct (om_has (om st) (c, c)); [left; reflexivity|].
  rewrite Hf. cbn [pair_in existsb].
  rewrite Nat.eqb_refl. cbn [negb].
  destruct (isnil (r_children r)) eqn:Nil; cbn [andb].
  { rewrite (Hatoms c r Pc F) by (destruct (r_children r); simpl in Nil; congruence).
    rewrite akey_eqb_refl. left; reflexivity. }
  assert (Hch : r_children r <> []) by (intros X; rewrite X in Nil; discriminate).
  rewrite (Hrule c r Pc F Hch). cbn [andb negb].
  rewrite eqb_reflx. cbn [negb]. rewrite ctor_equiv_refl. cbn [negb].
  destruct (existsb (fun q => pair_in q (anc st)) (anc_pairs exact p p c c)); [left; reflexivity|].
  right. auto.
Qed.

Lemma total_iso_on : forall m f st n r0,
  P n ->
  (undone s (anc st) <= m)%nat -> (m + arity_bound s + 1 <= f)%nat -> failed st = [] ->
  find_rule s n = Some r0 ->
  exists st', iso exact s s f st n n = Ok (true, st') /\ anc st' = anc st /\ failed st' = [].
Proof.
  induction m as [m IHm] using lt_wf_ind. intros f st n r0 Pn Hm Hfu Hf Fn.
  destruct f as [|f]; [lia|].
  cbn [iso].
  (* the path: one equivalence step stays among the visited classes *)
  assert (Hp : exists p, eq_path s n = Ok p /\ P (last p n) /\ exists rc, find_rule s (last p n) = Some rc).
  { unfold eq_path. rewrite Fn. destruct (r_iseq r0) eqn:Q.
    - destruct (W n r0 Fn Q) as (d & Hc & Hd & _ & e & k & Hch). rewrite Hc.
      exists [n; d]. split; [reflexivity|]. simpl. split.
      + apply (Pstep n r0 d Pn Fn). unfold ne_children. rewrite Hc. simpl. rewrite Hd. simpl. auto.
      + inversion Hch; eauto.
    - exists [n]. split; [reflexivity|]. simpl. eauto. }
  destruct Hp as (p & Ep & Pc & r & F). rewrite Ep. cbn [bind].
  set (c := last p n) in *. rewrite F.
  destruct (base_cases_diag_on st p c r (ne_children s r) Pc Hf F) as [Hb|(Hb & Hch & Hx)]; rewrite Hb; cbn [bind].
  - change (Z.eqb 1 1) with true. cbv iota. eexists. split; [reflexivity|]. auto.
  - change (Z.eqb 0 1) with false. change (Z.eqb 0 (-1)) with false. cbv iota.
    set (pr := anc_pairs exact p p c c).
    set (nn := length (ne_children s r)).
    set (sA := mkSt (set_add_all (anc st) pr) (om st) (failed st)).
    assert (Hnot : forall q, In q pr -> ~ In q (anc st)).
    { intros q Hq Hin.
      assert (X : existsb (fun q0 => pair_in q0 (anc st)) pr = true).
      { apply existsb_exists. exists q. split; auto. apply pair_in_In; auto. }
      unfold pr in X. congruence. }
    assert (Hcc : In (c, c) pr).
    { assert (In c p) by (apply (eq_path_last_in _ _ _ W Ep)). unfold pr. apply anc_pairs_self; auto. }
    assert (Hlt : (undone s (anc sA) < undone s (anc st))%nat).
    { apply (undone_lt s _ _ c).
      - intros q Hq. simpl. apply set_add_all_In. auto.
      - eapply find_rule_key; eauto.
      - apply Hnot; auto.
      - simpl. apply set_add_all_In. auto. }
    destruct m as [|m']; [lia|].
    assert (Hnn : (0 < nn)%nat).
    { unfold nn. destruct (ne_children s r) eqn:En; [exfalso; eapply (Hne c r); eauto|simpl; lia]. }
    assert (Hnb : (nn <= arity_bound s)%nat) by (eapply ne_children_length; eauto).
    assert (Hrec : forall st1 a, anc st1 = anc sA -> failed st1 = [] -> In a (ne_children s r) ->
              exists st', iso exact s s f st1 a a = Ok (true, st') /\ anc st' = anc sA /\ failed st' = []).
    { intros st1 a Ha1 Hf1 Hin. destruct (Hclosed c r a Pc F Hin) as (ra & Fa).
      destruct (IHm m' (Nat.lt_succ_diag_r m') f st1 a ra) as (st' & E & A' & F'); auto.
      - eapply Pstep; eauto.
      - rewrite Ha1. lia.
      - lia.
      - exists st'. rewrite <- Ha1. auto. }
    destruct nn as [|k] eqn:Enn; [lia|].
    rewrite init_stack_eq. change (seq 0 (S k)) with (0%nat :: seq 1 k). cbn [map].
    destruct (total_loop (ne_children s r) (S k) Enn (anc sA) (iso exact s s f) Hrec (S f) O
                         (map (fun i => (0%nat, i, [i])) (seq 1 k)) (repeat (-1) (S k)) sA)
      as (co & s0 & El & Ha0 & Hf0); [lia|lia|reflexivity|exact Hf|].
    change (rev (seq 0 1)) with [0%nat] in El. rewrite El. cbn [bind].
    eexists. split; [reflexivity|]. simpl. split; [|exact Hf0].
    rewrite Ha0. simpl. apply set_remove_add. intros q Hq. apply pair_in_false. apply Hnot; auto.
Qed.

(* Isomorphism.check(s, s) is True *)
Theorem refl_total_on : P (s_root s) -> forall r0, find_rule s (s_root s) = Some r0 ->
  forall fuel, (length (keys s) + arity_bound s + 1 <= fuel)%nat ->
  exists st', are_isomorphic exact s s fuel = Ok (true, st').
Proof.
  intros Pr r0 F fuel Hfu. unfold are_isomorphic.
  destruct (total_iso_on (length (keys s)) fuel st0 (s_root s) r0) as (st' & E & _); auto.
  - unfold undone. simpl.
    pose proof (filter_length_le (fun _ => true) (fun c => negb (pair_in (c, c) [])) (keys s)) as X.
    assert (Y : length (filter (fun _ : Z => true) (keys s)) = length (keys s)).
    { clear. induction (keys s); simpl; auto. }
    rewrite Y in X. apply X. auto.
  - exists st'. exact E.
Qed.
End TotalOn.

(* ------------------------------------------------------------------ the non-empty classes *)
Lemma ne_children_nonempty s r d : In d (ne_children s r) -> is_empty s d = false.
Proof.
  unfold ne_children. intros H. apply filter_In in H. destruct H as [_ H].
  apply negb_true_iff in H. exact H.
Qed.

Theorem refl_total_nonempty exact s :
  eq_wf s ->
  is_empty s (s_root s) = false ->
  (forall c r, find_rule s c = Some r -> is_empty s c = false -> r_children r = [] -> r_atom r = true) ->
  (forall c r, find_rule s c = Some r -> is_empty s c = false -> r_children r <> [] ->
     ne_children s r <> [] /\ r_isrule r = true) ->
  (forall c r d, find_rule s c = Some r -> is_empty s c = false -> In d (ne_children s r) ->
     exists r', find_rule s d = Some r') ->
  forall r0, find_rule s (s_root s) = Some r0 ->
  forall fuel, (length (keys s) + arity_bound s + 1 <= fuel)%nat ->
  exists st', are_isomorphic exact s s fuel = Ok (true, st').
Proof.
  intros W Hroot Ha Hn Hc r0 F fuel Hfu.
  apply (refl_total_on exact s W (fun c => is_empty s c = false)) with (r0 := r0); auto.
  - intros c r d _ _ Hin. eapply ne_children_nonempty; eauto.
  - intros c r Pc Fc. apply (Ha c r Fc Pc).
  - intros c r Pc Fc Hch. apply (Hn c r Fc Pc Hch).
  - intros c r Pc Fc Hch. apply (Hn c r Fc Pc Hch).
  - intros c r d Pc Fc Hin. apply (Hc c r d Fc Pc Hin).
Qed.

(* Iso/ReflTotal.v refl_total is the instance "every class may be visited" *)
Corollary refl_total_all exact s :
  eq_wf s ->
  (forall c r, find_rule s c = Some r -> r_children r = [] -> r_atom r = true) ->
  (forall c r, find_rule s c = Some r -> r_children r <> [] -> ne_children s r <> []) ->
  (forall c r, find_rule s c = Some r -> r_children r <> [] -> r_isrule r = true) ->
  (forall c r d, find_rule s c = Some r -> In d (ne_children s r) -> exists r', find_rule s d = Some r') ->
  forall r0, find_rule s (s_root s) = Some r0 ->
  forall fuel, (length (keys s) + arity_bound s + 1 <= fuel)%nat ->
  exists st', are_isomorphic exact s s fuel = Ok (true, st').
Proof.
  intros W Ha Hn Hr Hc r0 F fuel Hfu.
  apply (refl_total_on exact s W (fun _ => True)) with (r0 := r0); auto.
  - intros c r _. apply Ha.
  - intros c r _. apply Hn.
  - intros c r _. apply Hr.
  - intros c r d _. apply Hc.
Qed.
