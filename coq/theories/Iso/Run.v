(* sx interface of the isomorphism / parse-tree-map model.

   input   L [I mode; spec1; spec2; I fuel; order; trees1; trees2; I exact]
     exact = 1: the ancestor set holds pairs of current classes only (the repaired code), 0 (or absent): as /repo
     spec  = L [I root; L [rule ...]; L [I empty label ...]]
     rule  = L [I label; I isrule; L [I child ...]; I iseq; L [I tag; L [L [I value ...] ...]]; I atom; L [L [I ...] ...]]
     order = L [L [I c1; I c2; L [I ...]] ...]   in insertion order (only read when mode = 1)
     tree  = L [I 0; I c]  |  L [I 1; I c; L [kid ...]]   with kid = L [] (None) | L [tree]
   mode 2: input L [I 2; ctor; ctor] with ctor = L [I tag; L [L [I value ...] ...]]: Constructor.equiv alone;
           output L [I 0; I equiv]
   Otherwise the model always runs its own Isomorphism(spec1, spec2).
   mode 0: the implementation returned no bijection (nothing else to do)
   mode 1: the implementation returned a bijection with the given order map (built by its search,
           or reloaded from JSON): the extracted, proved checker is run on THAT order map and
           trees1 / trees2 are mapped with it by Bijection.map / Bijection.inverse_map

   output  L [I status; I isomorphic (the model's own verdict); I cert_ok; L [result ...]; L [result ...];
              I same_order (informational: the model's search left exactly the given order map)]
              I same_entries (the model's search left the same ENTRIES as the given order map, insertion order
                ignored - COMPARED: Iso/Deciders.v order_same_setb; 0 in mode 0);
              I wf1; I wf2 (Iso/Deciders.v wf_specb of the two descriptors: the hypothesis wf_spec of
                C12_transport_inverse / C12_constructed_bijection(_objects), decided; sound by wf_specb_sound)]
              objects (Iso/DecidersObjects.v objects_verdict on the APPENDED INPUT FIELD 8 = [descs1, descs2], the C07
                descriptors of the two specifications under the labels of spec1 / spec2, or absent / []:
                [idescribes1, rank1, closed1, idescribes2, rank2, closed2] - the hypotheses idescribes, rank certificate
                and closed of C12_transport_inverse_objects / C12_constructed_bijection_objects decided - or []);
              I refl1; I refl2 (Iso/DecidersRefl.v refl_hypsb of the two descriptors: the hypotheses of
                C12_check_reflexive_nonempty decided; refl_hypsb s = true -> Isomorphism.check(s, s) is True, by
                Iso/ReflNonEmpty.v refl_hypsb_sound)]
     status 0 ok, 8 out of fuel, otherwise the exception code
     result = L [I 0; tree] | L [I code] *)
From Coq Require Import ZArith List Bool.
From CSS Require Import Base.Sx Base.PyList Iso.Model Iso.Cert Iso.Deciders Iso.DecidersObjects Iso.DecidersRefl.
Import ListNotations.
Open Scope Z_scope.

Definition dec_ctor (s : sx) : ctor :=
  mkCtor (sx_Z (sx_nth s 0)) (map sx_Zs (sx_list (sx_nth s 1))).

Definition dec_rule (s : sx) : Z * rule :=
  (sx_Z (sx_nth s 0),
   mkRule (sx_bool (sx_nth s 1)) (sx_Zs (sx_nth s 2)) (sx_bool (sx_nth s 3))
          (dec_ctor (sx_nth s 4)) (sx_bool (sx_nth s 5)) (map sx_Zs (sx_list (sx_nth s 6)))).

Definition dec_spec (s : sx) : spec :=
  mkSpec (sx_Z (sx_nth s 0)) (map dec_rule (sx_list (sx_nth s 1))) (sx_Zs (sx_nth s 2)).

(* insertion order -> newest first *)
Definition dec_order (s : sx) : order_map :=
  rev (map (fun e => ((sx_Z (sx_nth e 0), sx_Z (sx_nth e 1)), sx_Zs (sx_nth e 2))) (sx_list s)).

Fixpoint dec_tree (s : sx) : tree :=
  match s with
  | L [I 0; I c] => Leaf c
  | L [I 1; I c; L kids] =>
      Node c ((fix go (l : list sx) : list (option tree) :=
                 match l with
                 | [] => []
                 | k :: r => (match k with L [t] => Some (dec_tree t) | _ => None end) :: go r
                 end) kids)
  | _ => Leaf (-1)
  end.

Fixpoint enc_tree (t : tree) : sx :=
  match t with
  | Leaf c => L [I 0; I c]
  | Node c kids =>
      L [I 1; I c;
         L ((fix go (l : list (option tree)) : list sx :=
               match l with
               | [] => []
               | k :: r => (match k with Some u => L [enc_tree u] | None => L [] end) :: go r
               end) kids)]
  end.

Definition enc_res (r : res tree) : sx :=
  match r with
  | Ok t => L [I 0; enc_tree t]
  | OutOfFuel => L [I 8]
  | Raise e => L [I e]
  end.

Definition enc_order (m : order_map) : sx :=
  L (map (fun e => L [I (fst (fst e)); I (snd (fst e)); of_Zs (snd e)]) (rev m)).

(* maps with a GIVEN order map (the one the implementation built) *)
Definition run_maps (s1 s2 : spec) (ord : order_map) (fuel : nat) (ts1 ts2 : list sx) : list sx :=
  [of_bool (check_cert s1 s2 ord fuel);
   L (map (fun t => enc_res (bij_map s1 s2 ord fuel (dec_tree t))) ts1);
   L (map (fun t => enc_res (bij_inverse_map s1 s2 ord fuel (dec_tree t))) ts2)].

Definition order_eqb (a b : order_map) : bool :=
  list_eqb (fun x y => pair_eqb (fst x) (fst y) && list_eqb Z.eqb (snd x) (snd y)) a b.

Definition run_c12 (inp : sx) : sx :=
  let mode := sx_Z (sx_nth inp 0) in
  let s1 := dec_spec (sx_nth inp 1) in
  let s2 := dec_spec (sx_nth inp 2) in
  let fuel := sx_nat (sx_nth inp 3) in
  let ord := dec_order (sx_nth inp 4) in
  let ts1 := sx_list (sx_nth inp 5) in
  let ts2 := sx_list (sx_nth inp 6) in
  if Z.eqb mode 2 then
    (* Constructor.equiv on two constructor descriptors *)
    L [I 0; of_bool (ctor_equiv (dec_ctor (sx_nth inp 1)) (dec_ctor (sx_nth inp 2)))]
  else
  match are_isomorphic (sx_bool (sx_nth inp 7)) s1 s2 fuel with
  | OutOfFuel => L [I 8]
  | Raise e => L [I e]
  | Ok (b, s) =>
      if Z.eqb mode 1 then
        L ([I 0; of_bool b] ++ run_maps s1 s2 ord fuel ts1 ts2 ++
           [of_bool (order_eqb (om s) ord); of_bool (order_same_setb (om s) ord);
            of_bool (wf_specb s1); of_bool (wf_specb s2); objects_verdict (sx_nth inp 8) s1 s2;
            of_bool (refl_hypsb s1); of_bool (refl_hypsb s2)])
      else L [I 0; of_bool b; I 0; L []; L []; I 0; I 0; of_bool (wf_specb s1); of_bool (wf_specb s2);
              objects_verdict (sx_nth inp 8) s1 s2; of_bool (refl_hypsb s1); of_bool (refl_hypsb s2)]
  end.
