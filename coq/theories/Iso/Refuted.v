(* The isomorphism test of /repo (exact = false: _ancestors holds the PRODUCT of the two
   equivalence paths) is NOT symmetric on specifications with chained equivalence rules.

   Witness (findings/C12_asymmetric_check.py replays it on the real Isomorphism.check).
   Both specifications describe three copies of the words a^k b; m -> c -> d -> e -> E are
   four uncollapsed equivalence steps down to E = b | a.x, where x refers back into the
   chain: to its SECOND class (c) in wA, to its FIRST class (m) in wB.

   wA -> wB: (m, m') is examined first; inside it the pair (c, m') is accepted by the
   "recursive match" test because (c, m') lies in the product of the two paths of the pair in
   progress, although on its own the pair fails the local test two steps further down (the
   chains below c and m' have 3 and 4 steps).  Later (c, m') is examined on its own as a
   candidate, fails, and an alternative is found: True.
   wB -> wA: the children are tried in the other order; (m', c) is examined on its own FIRST,
   fails and is remembered in _failed, so that inside (m', m) it is no longer accepted: False. *)
From Coq Require Import ZArith List Bool Lia.
From CSS Require Import Base.PyList Iso.Model Iso.Cert Iso.Valid Iso.CertProofs.
Import ListNotations.
Open Scope Z_scope.

Definition w_atom : rule := mkRule false [] false (mkCtor (-1) []) true [[1]; [1]].
Definition w_union (ch : list Z) : rule := mkRule true ch false (mkCtor 0 (map (fun _ => []) ch)) false [].
Definition w_prod (ch : list Z) : rule := mkRule true ch false (mkCtor 1 (map (fun _ => []) ch)) false [].
Definition w_eq (d : Z) : rule := mkRule true [d] true (mkCtor 0 [[]]) false [].

(* 0 = U[m, U[c, m]];  m = 1 -> c = 2 -> d = 3 -> e = 4 -> E = 5 = U[b, P[a, c]];  9 = U[c, m] *)
Definition wA : spec :=
  mkSpec 0 [(0, w_union [1; 9]); (1, w_eq 2); (2, w_eq 3); (3, w_eq 4); (4, w_eq 5);
            (5, w_union [6; 7]); (6, w_atom); (7, w_prod [8; 2]); (8, w_atom); (9, w_union [2; 1])] [].
(* 0 = U[U[m', g], m'];  m' = 2 -> g = 3 -> h = 4 -> k = 5 -> E' = 6 = U[b, P[a, m']];  1 = U[m', g] *)
Definition wB : spec :=
  mkSpec 0 [(0, w_union [1; 2]); (1, w_union [2; 3]); (2, w_eq 3); (3, w_eq 4); (4, w_eq 5); (5, w_eq 6);
            (6, w_union [7; 8]); (7, w_atom); (8, w_prod [9; 2]); (9, w_atom)] [].

Ltac w_cases H :=
  unfold find_rule in H; simpl in H;
  repeat match type of H with
         | (if ?b then _ else _) = _ => destruct b
         end;
  try discriminate; inversion H; subst; clear H.

Lemma wA_wf : wf_spec wA.
Proof.
  split; [|split; [|reflexivity]].
  - intros c r H E. w_cases H; try discriminate.
    + exists 2. repeat (split; [reflexivity|]).
      destruct (chain_end_chain wA 10 2 5 eq_refl) as (k & Hk). exists 5, k. exact Hk.
    + exists 3. repeat (split; [reflexivity|]).
      destruct (chain_end_chain wA 10 3 5 eq_refl) as (k & Hk). exists 5, k. exact Hk.
    + exists 4. repeat (split; [reflexivity|]).
      destruct (chain_end_chain wA 10 4 5 eq_refl) as (k & Hk). exists 5, k. exact Hk.
    + exists 5. repeat (split; [reflexivity|]).
      destruct (chain_end_chain wA 10 5 5 eq_refl) as (k & Hk). exists 5, k. exact Hk.
  - intros c r d H _ _ T Hin. w_cases H; simpl in *; try discriminate.
    destruct Hin as [<-|[<-|[]]]; reflexivity.
Qed.

Lemma wB_wf : wf_spec wB.
Proof.
  split; [|split; [|reflexivity]].
  - intros c r H E. w_cases H; try discriminate.
    + exists 3. repeat (split; [reflexivity|]).
      destruct (chain_end_chain wB 10 3 6 eq_refl) as (k & Hk). exists 6, k. exact Hk.
    + exists 4. repeat (split; [reflexivity|]).
      destruct (chain_end_chain wB 10 4 6 eq_refl) as (k & Hk). exists 6, k. exact Hk.
    + exists 5. repeat (split; [reflexivity|]).
      destruct (chain_end_chain wB 10 5 6 eq_refl) as (k & Hk). exists 6, k. exact Hk.
    + exists 6. repeat (split; [reflexivity|]).
      destruct (chain_end_chain wB 10 6 6 eq_refl) as (k & Hk). exists 6, k. exact Hk.
  - intros c r d H _ _ T Hin. w_cases H; simpl in *; try discriminate.
    destruct Hin as [<-|[<-|[]]]; reflexivity.
Qed.

(* the answers of the model of /repo's test in the two directions *)
Lemma witness_forward : exists st, are_isomorphic false wA wB 60 = Ok (true, st).
Proof. eexists. vm_compute. reflexivity. Qed.

Lemma witness_backward : exists st, are_isomorphic false wB wA 60 = Ok (false, st).
Proof. eexists. vm_compute. reflexivity. Qed.

(* with the repaired test both directions answer False *)
Lemma witness_repaired :
  (exists st, are_isomorphic true wA wB 60 = Ok (false, st)) /\
  (exists st, are_isomorphic true wB wA 60 = Ok (false, st)).
Proof. split; eexists; vm_compute; reflexivity. Qed.

Theorem symmetric_refuted :
  exists s1 s2 f st st',
    wf_spec s1 /\ wf_spec s2 /\
    are_isomorphic false s1 s2 f = Ok (true, st) /\
    are_isomorphic false s2 s1 f = Ok (false, st').
Proof.
  destruct witness_forward as (st & H1). destruct witness_backward as (st' & H2).
  exists wA, wB, 60%nat, st, st'. split; [exact wA_wf|]. split; [exact wB_wf|]. split; assumption.
Qed.
