(* The answer of the isomorphism test, without fuel: the search run with the fuel bound of
   Iso/Termination.v.  Restatements of symmetry, reflexivity and soundness for it. *)
From Coq Require Import ZArith List Bool Lia.
From CSS Require Import Base.PyList Iso.Model Iso.Valid Iso.SearchBasics Iso.Search Iso.Transport
     Iso.ReflTotal Iso.Complete Iso.Symmetric Iso.SearchSyn Iso.SymmetricFull Iso.Termination Iso.NoRaise.
Import ListNotations.
Open Scope Z_scope.

(* Isomorphism.check(spec1, spec2) *)
Definition verdict (exact : bool) (s1 s2 : spec) : res bool :=
  match check_result exact s1 s2 with
  | Ok (b, _) => Ok b
  | OutOfFuel => OutOfFuel
  | Raise e => Raise e
  end.

Lemma verdict_defined exact s1 s2 : verdict exact s1 s2 <> OutOfFuel.
Proof.
  unfold verdict. pose proof (check_result_defined exact s1 s2) as H.
  destruct (check_result exact s1 s2) as [[b st]| |]; try discriminate. congruence.
Qed.

(* every run that answers gives the verdict *)
Lemma verdict_of_run exact s1 s2 f b st :
  are_isomorphic exact s1 s2 f = Ok (b, st) -> verdict exact s1 s2 = Ok b.
Proof.
  intros H. unfold verdict. rewrite <- (fuel_irrelevant exact s1 s2 f); [rewrite H; reflexivity|].
  rewrite H. discriminate.
Qed.

Lemma verdict_run exact s1 s2 b :
  verdict exact s1 s2 = Ok b -> exists st, check_result exact s1 s2 = Ok (b, st).
Proof.
  unfold verdict. destruct (check_result exact s1 s2) as [[b' st]| |]; try discriminate.
  intros H; inversion H; subst. eauto.
Qed.

(* on closed specifications the test answers True or False *)
Theorem verdict_total exact s1 s2 : closed_spec s1 -> closed_spec s2 ->
  exists b, verdict exact s1 s2 = Ok b.
Proof.
  intros C1 C2. unfold verdict.
  pose proof (check_result_defined exact s1 s2) as Hd.
  pose proof (search_no_raise exact s1 s2 C1 C2 (fuel_bound s1 s2)) as Hr.
  unfold check_result in *.
  destruct (are_isomorphic exact s1 s2 (fuel_bound s1 s2)) as [[b st]| |e]; eauto; [congruence|].
  exfalso. apply (Hr e). reflexivity.
Qed.

(* ------------------------------------------------------------------ symmetry *)
Theorem verdict_symmetric_exact s1 s2 b b' :
  verdict true s1 s2 = Ok b -> verdict true s2 s1 = Ok b' -> b = b'.
Proof.
  intros H1 H2. destruct (verdict_run _ _ _ _ H1) as (st & R1). destruct (verdict_run _ _ _ _ H2) as (st' & R2).
  eapply symmetric_exact; eauto.
Qed.

Theorem verdict_symmetric_exact_closed s1 s2 : closed_spec s1 -> closed_spec s2 ->
  verdict true s1 s2 = verdict true s2 s1.
Proof.
  intros C1 C2. destruct (verdict_total true s1 s2 C1 C2) as (b & H1).
  destruct (verdict_total true s2 s1 C2 C1) as (b' & H2).
  rewrite H1, H2. f_equal. exact (verdict_symmetric_exact s1 s2 b b' H1 H2).
Qed.

Theorem verdict_symmetric_flat exact s1 s2 b b' :
  eq_wf s1 -> eq_wf s2 -> flat s1 -> flat s2 ->
  verdict exact s1 s2 = Ok b -> verdict exact s2 s1 = Ok b' -> b = b'.
Proof.
  intros W1 W2 F1 F2 H1 H2.
  destruct (verdict_run _ _ _ _ H1) as (st & R1). destruct (verdict_run _ _ _ _ H2) as (st' & R2).
  eapply (check_symmetric_flat exact s1 s2); eauto.
Qed.

Theorem verdict_symmetric_flat_closed exact s1 s2 :
  eq_wf s1 -> eq_wf s2 -> flat s1 -> flat s2 -> closed_spec s1 -> closed_spec s2 ->
  verdict exact s1 s2 = verdict exact s2 s1.
Proof.
  intros W1 W2 F1 F2 C1 C2. destruct (verdict_total exact s1 s2 C1 C2) as (b & H1).
  destruct (verdict_total exact s2 s1 C2 C1) as (b' & H2).
  rewrite H1, H2. f_equal. exact (verdict_symmetric_flat exact s1 s2 b b' W1 W2 F1 F2 H1 H2).
Qed.

(* ------------------------------------------------------------------ reflexivity *)
Theorem verdict_reflexive exact s :
  eq_wf s ->
  (forall c r, find_rule s c = Some r -> r_children r = [] -> r_atom r = true) ->
  (forall c r, find_rule s c = Some r -> r_children r <> [] -> ne_children s r <> []) ->
  (forall c r, find_rule s c = Some r -> r_children r <> [] -> r_isrule r = true) ->
  (forall c r d, find_rule s c = Some r -> In d (ne_children s r) -> exists r', find_rule s d = Some r') ->
  (exists r0, find_rule s (s_root s) = Some r0) ->
  verdict exact s s = Ok true.
Proof.
  intros W Ha Hn Hr Hc (r0 & F).
  destruct (refl_total exact s W Ha Hn Hr Hc r0 F _ (le_n _)) as (st & H).
  eapply verdict_of_run; eauto.
Qed.

(* ------------------------------------------------------------------ soundness *)
Theorem verdict_true_cert exact s1 s2 : eq_wf s1 -> eq_wf s2 ->
  verdict exact s1 s2 = Ok true ->
  exists st, check_result exact s1 s2 = Ok (true, st) /\ valid_cert s1 s2 (om st).
Proof.
  intros W1 W2 H. destruct (verdict_run _ _ _ _ H) as (st & R). exists st. split; auto.
  eapply iso_sound; eauto.
Qed.
