(* Decider for the hypotheses of C12_check_reflexive_nonempty (Iso/ReflOn.v, Iso/ReflNonEmpty.v), evaluated by
   run_c12 on both descriptors of every case (Iso/Run.v) and recomputed by the harness (Desc.refl_hyps of
   harness/props/c12.py).  Definitions only; soundness (refl_hypsb s = true -> verdict exact s s = Ok true) is
   Iso/ReflNonEmpty.v refl_hypsb_sound.

   refl_hypsb s  =  eq_wf s (every equivalence rule: one child, not empty, a Rule, its chain ends)
                 /\ the root is not empty and has a rule
                 /\ for every rule (c, r) of s with c NOT EMPTY:
                      r has no children            -> c is an atom
                      r has children               -> one of them is not empty, r is a Rule, and every non-empty
                                                      child has a rule.
   The rules of the empty classes (EmptyStrategy) are not looked at, except by eq_wf. *)
From Coq Require Import ZArith List Bool.
From CSS Require Import Base.PyList Iso.Model Iso.Deciders.
Import ListNotations.
Open Scope Z_scope.

Definition eq_wfb (s : spec) : bool :=
  forallb (fun cr : Z * rule => eq_rule_okb s (snd cr)) (s_rules s).

Definition has_rule (s : spec) (d : Z) : bool :=
  match find_rule s d with Some _ => true | None => false end.

Definition refl_rule_okb (s : spec) (cr : Z * rule) : bool :=
  if is_empty s (fst cr) then true
  else
    match r_children (snd cr) with
    | [] => r_atom (snd cr)
    | _ :: _ =>
        negb (isnil (ne_children s (snd cr))) && r_isrule (snd cr) &&
        forallb (has_rule s) (ne_children s (snd cr))
    end.

Definition refl_hypsb (s : spec) : bool :=
  eq_wfb s && negb (is_empty s (s_root s)) && has_rule s (s_root s) &&
  forallb (refl_rule_okb s) (s_rules s).
