(* Soundness of the executable certificate checker of Iso/Cert.v:
   check_cert s1 s2 ord fuel = true -> valid_cert s1 s2 ord. *)
From Coq Require Import ZArith List Bool Lia.
From CSS Require Import Base.PyList Iso.Model Iso.Cert Iso.Valid.
Import ListNotations.
Open Scope Z_scope.

(* ------------------------------------------------------------------ chains *)
Lemma chain_end_chain : forall s f n e, chain_end s f n = Some e -> exists k, chain s n e k.
Proof.
  intros s f; induction f as [|f IH]; intros n e H; simpl in H; [discriminate|].
  destruct (find_rule s n) as [r|] eqn:Hr; [|discriminate].
  destruct (r_iseq r) eqn:Heq.
  - destruct (r_children r) as [|d [|? ?]] eqn:Hc; try discriminate.
    destruct (is_empty s d || negb (r_isrule r)); [discriminate|].
    apply IH in H. destruct H as [k Hk]. exists (S k). eapply chain_step; eauto.
  - inversion H; subst. exists O. eapply chain_here; eauto.
Qed.

Lemma chain_end_rule : forall s n e k, chain s n e k ->
  exists r, find_rule s e = Some r /\ r_iseq r = false.
Proof.
  intros s n e k H; induction H.
  - exists r; auto.
  - exact IHchain.
Qed.

(* ------------------------------------------------------------------ permutations *)
Lemma NoDup_map_of_nat : forall l : list nat, NoDup l -> NoDup (map Z.of_nat l).
Proof.
  intros l H; induction H; simpl; constructor; auto.
  intro Hin. apply in_map_iff in Hin. destruct Hin as [y [Hy Hin]].
  apply Nat2Z.inj in Hy. subst. contradiction.
Qed.

Lemma perm_okb_is_perm : forall p k, perm_okb p k = true -> is_perm p k.
Proof.
  intros p k H. unfold perm_okb in H. apply andb_true_iff in H. destruct H as [Hl Hall].
  apply Nat.eqb_eq in Hl.
  set (L := map Z.of_nat (seq 0 k)).
  assert (HL : NoDup L) by (apply NoDup_map_of_nat, seq_NoDup).
  assert (HlenL : length L = k) by (unfold L; rewrite map_length, seq_length; reflexivity).
  assert (Hincl : incl L p).
  { intros x Hx. unfold L in Hx. apply in_map_iff in Hx. destruct Hx as [j [Hj Hin]]. subst x.
    rewrite forallb_forall in Hall. specialize (Hall j Hin).
    apply existsb_exists in Hall. destruct Hall as [y [Hy Heq]].
    apply Z.eqb_eq in Heq. subst y. exact Hy. }
  assert (Hle : (length p <= length L)%nat) by lia.
  split; [exact Hl|]. split.
  - apply (NoDup_incl_NoDup HL Hle Hincl).
  - intros x Hx.
    pose proof (NoDup_length_incl HL Hle Hincl) as Hback.
    apply Hback in Hx. unfold L in Hx. apply in_map_iff in Hx.
    destruct Hx as [j [Hj Hin]]. apply in_seq in Hin. lia.
Qed.

(* ------------------------------------------------------------------ small helpers *)
Lemma pair_eqb_eq : forall p q, pair_eqb p q = true <-> p = q.
Proof.
  intros [a b] [c d]. unfold pair_eqb. simpl. rewrite andb_true_iff, !Z.eqb_eq.
  split.
  - intros [-> ->]; reflexivity.
  - intros H; inversion H; auto.
Qed.

Lemma pair_in_In : forall p l, pair_in p l = true <-> In p l.
Proof.
  intros p l. unfold pair_in. rewrite existsb_exists. split.
  - intros [x [Hx He]]. apply pair_eqb_eq in He. subst; auto.
  - intros H. exists p. split; auto. apply pair_eqb_eq; reflexivity.
Qed.

Lemma isnil_false : forall {A} (l : list A), isnil l = false -> l <> [].
Proof. intros A l H ->. discriminate. Qed.

Lemma child_pairs_In : forall ne1 ne2 perm j i a b,
  nth_error perm j = Some i ->
  nth_error ne1 (Z.to_nat i) = Some a ->
  nth_error ne2 j = Some b ->
  In (a, b) (child_pairs ne1 ne2 perm).
Proof.
  intros ne1 ne2 perm j i a b Hp H1 H2. unfold child_pairs.
  apply in_map_iff. exists j. split.
  - rewrite (nth_error_nth perm j 0 Hp).
    rewrite (nth_error_nth ne1 (Z.to_nat i) 0 H1).
    rewrite (nth_error_nth ne2 j 0 H2). reflexivity.
  - apply in_seq. split; [lia|]. simpl.
    apply nth_error_Some. rewrite H2. discriminate.
Qed.

(* ------------------------------------------------------------------ the invariant *)
Section Inv.
Variables s1 s2 : spec.
Variable ord : order_map.
Variable cf : nat.

Lemma check_pairs_inv : forall fuel todo seen result,
  check_pairs s1 s2 ord cf fuel todo seen = Some result ->
  incl seen result /\
  (forall a b, In (a, b) todo -> ends_in s1 s2 (fun p => In p result) a b) /\
  (forall e1 e2, In (e1, e2) result ->
     In (e1, e2) seen \/ leaf_pair s1 s2 e1 e2 \/
     node_pair s1 s2 ord (fun p => In p result) e1 e2).
Proof.
  induction fuel as [|f IH]; intros todo seen result H; simpl in H; [discriminate|].
  destruct todo as [|[a b] rest].
  { inversion H; subst. split; [apply incl_refl|]. split.
    - intros ? ? [].
    - intros; left; assumption. }
  destruct (chain_end s1 cf a) as [e1|] eqn:Hc1; [|discriminate].
  destruct (chain_end s2 cf b) as [e2|] eqn:Hc2; [|discriminate].
  destruct (chain_end_chain _ _ _ _ Hc1) as [k1 Hk1].
  destruct (chain_end_chain _ _ _ _ Hc2) as [k2 Hk2].
  destruct (pair_in (e1, e2) seen) eqn:Hseen.
  { apply IH in H. destruct H as [Hi [Ht Hg]]. split; [exact Hi|]. split; [|exact Hg].
    intros a' b' [Heq|Hin].
    - inversion Heq; subst. exists e1, e2, k1, k2. repeat split; auto.
      apply Hi. apply pair_in_In. exact Hseen.
    - apply Ht; exact Hin. }
  destruct (find_rule s1 e1) as [r1|] eqn:Hr1; [|discriminate].
  destruct (find_rule s2 e2) as [r2|] eqn:Hr2; [|discriminate].
  destruct (leaf_match r1 r2) eqn:Hleaf.
  { apply IH in H. destruct H as [Hi [Ht Hg]].
    split; [intros x Hx; apply Hi; right; exact Hx|]. split.
    - intros a' b' [Heq|Hin].
      + inversion Heq; subst. exists e1, e2, k1, k2. repeat split; auto.
        apply Hi. left; reflexivity.
      + apply Ht; exact Hin.
    - intros x1 x2 Hx. destruct (Hg x1 x2 Hx) as [[Heq|Hin]|Hrest].
      + inversion Heq; subst. right; left. exists r1, r2. auto.
      + left; exact Hin.
      + right; exact Hrest. }
  destruct (r_isrule r1 && r_isrule r2 && negb (isnil (r_children r1))
            && negb (isnil (r_children r2))
            && (c_tag (r_ctor r1) =? c_tag (r_ctor r2))) eqn:Hcond; [|discriminate].
  destruct (om_lookup ord (e1, e2)) as [perm|] eqn:Hom; [|discriminate].
  destruct (Nat.eqb (length (ne_children s1 r1)) (length (ne_children s2 r2))
            && perm_okb perm (length (ne_children s2 r2))) eqn:Hlen; [|discriminate].
  apply IH in H. destruct H as [Hi [Ht Hg]].
  repeat (apply andb_true_iff in Hcond; destruct Hcond as [Hcond ?]).
  apply andb_true_iff in Hlen. destruct Hlen as [Hlen Hperm].
  split; [intros x Hx; apply Hi; right; exact Hx|]. split.
  - intros a' b' [Heq|Hin].
    + inversion Heq; subst. exists e1, e2, k1, k2. repeat split; auto.
      apply Hi. left; reflexivity.
    + apply Ht. apply in_or_app. right; exact Hin.
  - intros x1 x2 Hx. destruct (Hg x1 x2 Hx) as [[Heq|Hin]|Hrest].
    + inversion Heq; subst x1 x2. right; right.
      destruct (chain_end_rule _ _ _ _ Hk1) as [r1' [Hr1' Heq1]].
      destruct (chain_end_rule _ _ _ _ Hk2) as [r2' [Hr2' Heq2]].
      rewrite Hr1 in Hr1'. inversion Hr1'; subst r1'.
      rewrite Hr2 in Hr2'. inversion Hr2'; subst r2'.
      exists r1, r2, perm.
      split; [exact Hr1|]. split; [exact Hr2|].
      split; [exact Heq1|]. split; [exact Heq2|].
      split; [assumption|]. split; [assumption|].
      split; [apply isnil_false; apply negb_true_iff; assumption|].
      split; [apply isnil_false; apply negb_true_iff; assumption|].
      split; [apply Z.eqb_eq; assumption|].
      split; [exact Hom|].
      split; [apply Nat.eqb_eq; exact Hlen|].
      split; [apply perm_okb_is_perm; exact Hperm|].
      intros j i a' b' Hj Ha' Hb'.
      apply Ht. apply in_or_app. left.
      eapply child_pairs_In; eauto.
    + left; exact Hin.
    + right; exact Hrest.
Qed.
End Inv.

(* ------------------------------------------------------------------ soundness *)
Theorem check_cert_sound : forall s1 s2 ord fuel,
    check_cert s1 s2 ord fuel = true -> valid_cert s1 s2 ord.
Proof.
  intros s1 s2 ord fuel H. unfold check_cert in H.
  destruct (check_pairs s1 s2 ord fuel fuel [(s_root s1, s_root s2)] []) as [result|] eqn:Hc;
    [|discriminate].
  apply check_pairs_inv in Hc. destruct Hc as [_ [Ht Hg]].
  exists (fun p => In p result). split.
  - intros e1 e2 Hin. destruct (Hg e1 e2 Hin) as [[]|Hrest]. exact Hrest.
  - apply Ht. left; reflexivity.
Qed.

(* ------------------------------------------------------------------ sanity example *)
Definition atomRule (k : Z) : rule :=
  mkRule false [] false (mkCtor 0 []) true [[k]; [1]].
Definition unionRule (ch : list Z) : rule :=
  mkRule true ch false (mkCtor 0 [[]; []]) false [].
Definition sA : spec :=
  mkSpec 0 [(0, unionRule [1; 2]); (1, atomRule 1); (2, atomRule 2)] [].
Definition sB : spec :=
  mkSpec 0 [(0, unionRule [2; 1]); (1, atomRule 1); (2, atomRule 2)] [].
Definition ordAB : order_map := [((0, 0), [1; 0])].

Example check_cert_example : check_cert sA sB ordAB 10 = true.
Proof. vm_compute. reflexivity. Qed.

Example valid_cert_example : valid_cert sA sB ordAB.
Proof. apply (check_cert_sound sA sB ordAB 10). vm_compute. reflexivity. Qed.
