(* C12 on OBJECTS: the adapter between the two notions of parse tree and the object-level bijection.

   Count/ParseTreesProofs.v: objects of a class <-> well-formed trees `twf` (type SampleModel.tree,
   nat labels) of a specification in C07's vocabulary (rules with forward/backward maps).
   Iso/Valid.v: `wf_tree` (type Iso.Model.tree: Leaf c / Node c [part | None ..], Z labels) of a
   specification DESCRIPTOR (what isomorphism.py reads).
     emb            SampleModel.tree -> Iso.Model.tree (UNode c i t -> one-hot tuple, PNode c ts -> all parts)
     idescribes     the descriptor and the C07 specification describe the same rules
     emb_wf / wf_emb  the two notions of well-formed tree coincide through emb (both directions)
     iunparse       the object of an Iso tree: backward maps applied bottom-up to the tuples, as
                    ParseTreeMap.map_rec does with rule2.indexed_backward_map
     iparse         the Iso tree of an object: Node c [tree of part | None for part in forward_map(o)]
   Rule forms covered: atoms, unions (tag 0), products (tag 1), equivalence steps / paths (one-child
   nodes).  NOT covered: Complement (2) / Quotient (3) - the reverse of a non-equivalence rule: such a
   class has no well-formed tree at all (scope_tags), and since fix 25bcc90 Bijection.construct refuses
   to build a bijection over a specification that contains one (Iso/ParseTreesIso construct_guard). *)
From Coq Require Import ZArith List Bool Lia.
From CSS Require Import Base.PyList Gen.Prelude Count.CompositionsSpec Count.ObjectsModel Count.ObjectsLists Count.ObjectsProofs
                        Count.ObjectsForms Count.ObjectsSpec Count.SampleModel Count.SampleUniform
                        Count.ParseTrees Count.ParseTreesProofs.
From CSS Require Iso.Model Iso.Cert Iso.Valid Iso.TransportLists Iso.Transport.
Import ListNotations.
Open Scope Z_scope.

Module IM := CSS.Iso.Model.
Module IV := CSS.Iso.Valid.
Module IL := CSS.Iso.TransportLists.
Module IT := CSS.Iso.Transport.

Notation itree := IM.tree.

(* ---------------------------------------------------------------- executable definitions *)
Section Defs.
Context {obj : Type}.
Variable spec : nat -> option (rule obj).
Variable atom : nat -> option obj.
Variable fwd : nat -> obj -> subobj obj.

Definition arity (c : nat) : nat :=
  match spec c with
  | Some (RUnion k _ _) => length k
  | Some (RProduct k _ _ _ _) => length k
  | _ => O
  end.

Fixpoint emb (t : tree) : itree :=
  match t with
  | Leaf c => IM.Leaf (Z.of_nat c)
  | UNode c i t' => IM.Node (Z.of_nat c) (IV.one_hot (arity c) i (emb t'))
  | PNode c ts => IM.Node (Z.of_nat c) (map (fun x => Some (emb x)) ts)
  end.

(* the tuple of the parts' objects (None stays None) *)
Definition bwd_at (z : Z) (parts : subobj obj) : option obj :=
  match spec (Z.to_nat z) with
  | Some (RUnion _ _ bwd) => only (bwd parts)
  | Some (RProduct _ _ _ _ bwd) => only (bwd parts)
  | _ => None
  end.

Fixpoint iunparse (u : itree) : option obj :=
  match u with
  | IM.Leaf z => match spec (Z.to_nat z) with Some (RVerified _) => atom (Z.to_nat z) | _ => None end
  | IM.Node z kids =>
      match (fix go (l : list (option itree)) : option (subobj obj) :=
               match l with
               | [] => Some []
               | None :: r => match go r with Some ps => Some (None :: ps) | None => None end
               | Some x :: r => match iunparse x, go r with
                                | Some y, Some ps => Some (Some y :: ps)
                                | _, _ => None
                                end
               end) kids with
      | Some parts => bwd_at z parts
      | None => None
      end
  end.

(* Node c [tree of p | None  for p in rule.forward_map(o)]  (Iso/Model.v header; harness Desc.tree) *)
Fixpoint iparse (fuel : nat) (c : nat) (o : obj) {struct fuel} : option itree :=
  match fuel with
  | O => None
  | S f =>
      match spec c with
      | Some (RVerified _) => match atom c with Some _ => Some (IM.Leaf (Z.of_nat c)) | None => None end
      | Some (RUnion kids _ _) | Some (RProduct kids _ _ _ _) =>
          match (fix go (ks : list nat) (ps : subobj obj) : option (list (option itree)) :=
                   match ks, ps with
                   | [], [] => Some []
                   | k :: ks', None :: ps' => match go ks' ps' with Some l => Some (None :: l) | None => None end
                   | k :: ks', Some y :: ps' => match iparse f k y, go ks' ps' with
                                                | Some t, Some l => Some (Some t :: l)
                                                | _, _ => None
                                                end
                   | _, _ => None
                   end) kids (fwd c o) with
          | Some l => Some (IM.Node (Z.of_nat c) l)
          | None => None
          end
      | None => None
      end
  end.
End Defs.

(* ---------------------------------------------------------------- one side *)
Section Side.
Context {obj : Type}.
Variable size : obj -> Z.
Variable In_cls : nat -> obj -> Prop.
Variable par : nat -> obj -> params.
Variable spec : nat -> option (rule obj).
Variable atom : nat -> option obj.
Variable fwd : nat -> obj -> subobj obj.
Variable s : IM.spec.

Notation unparse := (unparse spec atom).
Notation twf := (twf spec atom).
Notation tsz := (tsz size atom).
Notation emb := (emb spec).
Notation iunparse := (iunparse spec atom).
Notation zc c := (Z.of_nat c).

(* the descriptor read by isomorphism.py and the C07 specification describe the same rules *)
Definition idesc_at (c : nat) : Prop :=
  match spec c, atom c with
  | Some (RVerified _), Some a =>
      exists r, IM.find_rule s (zc c) = Some r /\ IM.is_empty s (zc c) = false /\
                IM.r_children r = [] /\ IM.r_atom r = true /\ size a = IV.asize s (zc c)
  | Some (RUnion kids _ _), _ =>
      exists r, IM.find_rule s (zc c) = Some r /\ IM.is_empty s (zc c) = false /\
                IM.r_children r = map Z.of_nat kids /\ kids <> [] /\ IM.r_isrule r = true /\
                ((IM.r_iseq r = true /\ length kids = 1%nat) \/
                 (IM.r_iseq r = false /\ IM.c_tag (IM.r_ctor r) = 0))
  | Some (RProduct kids _ _ _ _), _ =>
      exists r, IM.find_rule s (zc c) = Some r /\ IM.is_empty s (zc c) = false /\
                IM.r_children r = map Z.of_nat kids /\ kids <> [] /\ IM.r_isrule r = true /\
                ((IM.r_iseq r = true /\ length kids = 1%nat) \/
                 (IM.r_iseq r = false /\ IM.c_tag (IM.r_ctor r) = 1))
  | _, _ => forall u, ~ IV.wf_tree s (zc c) u
  end.
Definition idescribes : Prop :=
  (forall c, idesc_at c) /\ (forall z r, IM.find_rule s z = Some r -> 0 <= z).

Hypothesis Hdesc : idescribes.

Lemma one_hot_1 {A} (x : A) : IV.one_hot 1 0 x = [Some x].
Proof. reflexivity. Qed.

Lemma nth_error_map_of_nat kids i d :
  nth_error (map Z.of_nat kids) i = Some d -> exists k, nth_error kids i = Some k /\ d = Z.of_nat k.
Proof.
  rewrite nth_error_map. destruct (nth_error kids i) as [k|]; simpl; [|discriminate].
  intros E. inversion E. eauto.
Qed.

(* (A) a well-formed tree of the C07 specification embeds into a well-formed tree of the descriptor *)
Theorem emb_wf : forall t c, twf t c -> IV.wf_tree s (zc c) (emb t).
Proof.
  destruct Hdesc as [Hd _].
  induction t as [c0|c0 i t IH|c0 ts IH] using tree_ind'; intros c Hw; simpl in Hw.
  - destruct Hw as (-> & [tbl Hs] & Ha). pose proof (Hd c) as H. unfold idesc_at in H. rewrite Hs in H.
    destruct (atom c) as [a|]; [|congruence]. destruct H as (r & Hf & He & Hc & Hat & _).
    simpl. eapply IV.wf_leaf; eassumption.
  - destruct Hw as (-> & kids & maps & bwd & ci & Hs & Hi & Hw). specialize (IH ci Hw).
    pose proof (Hd c) as H. unfold idesc_at in H. rewrite Hs in H.
    destruct H as (r & Hf & He & Hc & Hne & Hr & [[Hq Hl]|[Hq Ht]]).
    + destruct kids as [|k [|k' kids]]; simpl in Hl; try lia.
      destruct i as [|i]; [|destruct i; discriminate]. simpl in Hi. inversion Hi; subst k.
      simpl. unfold arity. rewrite Hs. simpl. rewrite one_hot_1.
      eapply IV.wf_eq; try eassumption.
    + simpl. unfold arity. rewrite Hs.
      replace (length kids) with (length (IM.r_children r)) by (rewrite Hc, map_length; reflexivity).
      eapply IV.wf_union; try eassumption. rewrite Hc, nth_error_map, Hi. reflexivity.
  - destruct Hw as (-> & kids & mins & maxs & maps & bwd & Hs & Hall).
    pose proof (Hd c) as H. unfold idesc_at in H. rewrite Hs in H.
    destruct H as (r & Hf & He & Hc & Hne & Hr & Hcase).
    assert (HF : Forall2 (IV.wf_tree s) (map Z.of_nat kids) (map emb ts)).
    { clear - IH Hall. revert kids Hall. induction IH as [|x ts Hx _ IHts]; intros [|k kids] Hall; simpl in *; try tauto.
      - constructor.
      - destruct Hall as [H1 H2]. constructor; [apply Hx; assumption|apply IHts; assumption]. }
    simpl. rewrite <- (map_map emb Some).
    destruct Hcase as [[Hq Hl]|[Hq Ht]].
    + destruct kids as [|k [|k' kids]]; simpl in Hl; try lia.
      inversion HF as [|? y ? l' Hy Hrest E1 E2]; subst. inversion Hrest; subst. simpl.
      eapply IV.wf_eq; try eassumption.
    + eapply IV.wf_prod; try eassumption.
      * rewrite Hc. destruct kids; [congruence|discriminate].
      * rewrite Hc. exact HF.
Qed.

Lemma height_in_some c (ts : list itree) t :
  In t ts -> (IV.height t < IV.height (IM.Node c (map Some ts)))%nat.
Proof.
  intros Hin. apply In_nth_error in Hin. destruct Hin as [p Hp].
  apply (IL.height_kid c (map Some ts) p t). rewrite nth_error_map, Hp. reflexivity.
Qed.

(* (B) ... and every well-formed tree of the descriptor is the embedding of one *)
Theorem wf_emb : forall (h : nat) u z, (IV.height u < h)%nat -> IV.wf_tree s z u ->
  exists c t, z = zc c /\ u = emb t /\ twf t c.
Proof.
  destruct Hdesc as [Hd Hnn].
  induction h as [|h IH]; intros u z Hh Hw; [lia|].
  destruct (IT.wf_find s z u Hw) as [r Hf].
  pose proof (Hnn z r Hf) as Hz. set (c := Z.to_nat z). assert (Ez : z = zc c) by (unfold c; lia).
  exists c. pose proof (Hd c) as H. unfold idesc_at in H. rewrite <- Ez in H.
  destruct (spec c) as [[kids maps bwd|kids mins maxs maps bwd|tbl]|] eqn:Hs.
  - (* union *)
    destruct H as (r' & Hf' & He & Hc & Hne & Hr & Hcase). rewrite Hf in Hf'. inversion Hf'; subst r'.
    destruct Hcase as [[Hq Hl]|[Hq Ht]].
    + destruct kids as [|k [|k' kids]]; simpl in Hl; try lia. simpl in Hc.
      destruct (IT.wf_inv_eq s z u r (zc k) Hw Hf Hq Hc) as (t' & -> & Hw').
      destruct (IH t' (zc k)) as (c' & t0 & Ec & -> & Hw0); [|assumption|].
      { pose proof (IL.height_kid z [Some t'] O t' eq_refl). lia. }
      apply Nat2Z.inj in Ec. subst c'.
      exists (UNode c 0 t0). split; [assumption|]. split.
      * simpl. unfold arity. rewrite Hs. simpl. rewrite one_hot_1, <- Ez. reflexivity.
      * simpl. split; [reflexivity|]. exists [k], maps, bwd, k. auto.
    + assert (Hcn : IM.r_children r <> []) by (rewrite Hc; destruct kids; [congruence|discriminate]).
      destruct (IT.wf_inv_node s z u r Hw Hf Hq Hcn) as (_ & [(i & d & t' & _ & Hi & Hw' & ->)|(ts & Ht1 & _)]); [|lia].
      rewrite Hc in Hi. apply nth_error_map_of_nat in Hi. destruct Hi as (k & Hi & ->).
      assert (Hlt : (i < length (IM.r_children r))%nat).
      { rewrite Hc, map_length. apply nth_error_Some. congruence. }
      destruct (IH t' (zc k)) as (c' & t0 & Ec & -> & Hw0); [|assumption|].
      { pose proof (IL.height_kid z _ i _ (IL.one_hot_at i _ t' Hlt)). lia. }
      apply Nat2Z.inj in Ec. subst c'.
      exists (UNode c i t0). split; [assumption|]. split.
      * simpl. unfold arity. rewrite Hs, Hc, map_length, <- Ez. reflexivity.
      * simpl. split; [reflexivity|]. exists kids, maps, bwd, k. auto.
  - (* product *)
    destruct H as (r' & Hf' & He & Hc & Hne & Hr & Hcase). rewrite Hf in Hf'. inversion Hf'; subst r'.
    assert (G : forall us, (forall x, In x us -> (IV.height x < h)%nat) ->
                forall ks, Forall2 (IV.wf_tree s) (map Z.of_nat ks) us ->
                exists ts, us = map emb ts /\ all2 twf ts ks).
    { induction us as [|x us IHus]; intros Hhs ks HF; destruct ks as [|k ks]; simpl in HF.
      - exists []. simpl. auto.
      - inversion HF.
      - inversion HF.
      - inversion HF as [|? ? ? ? Hx Hrest]; clear HF.
        destruct (IH x (zc k)) as (c' & t0 & Ec & Ex & Hw0); [apply Hhs; left; reflexivity|assumption|].
        apply Nat2Z.inj in Ec. rewrite <- Ec in Hw0.
        destruct (IHus (fun y Hy => Hhs y (or_intror Hy)) ks Hrest) as (ts & Ets & Hall).
        exists (t0 :: ts). simpl. rewrite Ex, Ets. auto. }
    destruct Hcase as [[Hq Hl]|[Hq Ht]].
    + destruct kids as [|k [|k' kids]]; simpl in Hl; try lia. simpl in Hc.
      destruct (IT.wf_inv_eq s z u r (zc k) Hw Hf Hq Hc) as (t' & -> & Hw').
      destruct (IH t' (zc k)) as (c' & t0 & Ec & -> & Hw0); [|assumption|].
      { pose proof (IL.height_kid z [Some t'] O t' eq_refl). lia. }
      apply Nat2Z.inj in Ec. subst c'.
      exists (PNode c [t0]). split; [assumption|]. split.
      * simpl. rewrite <- Ez. reflexivity.
      * simpl. split; [reflexivity|]. exists [k], mins, maxs, maps, bwd. auto.
    + assert (Hcn : IM.r_children r <> []) by (rewrite Hc; destruct kids; [congruence|discriminate]).
      destruct (IT.wf_inv_node s z u r Hw Hf Hq Hcn) as (_ & [(i & d & t' & Ht0 & _)|(us & _ & HF & ->)]); [lia|].
      rewrite Hc in HF.
      destruct (G us) with (ks := kids) as (ts & -> & Hall); [|assumption|].
      { intros x Hx. pose proof (height_in_some z us x Hx). lia. }
      exists (PNode c ts). split; [assumption|]. split.
      * simpl. rewrite <- Ez, map_map. reflexivity.
      * simpl. split; [reflexivity|]. exists kids, mins, maxs, maps, bwd. auto.
  - (* verification rule *)
    destruct (atom c) as [a|] eqn:Ea; [|exfalso; eapply H; eassumption].
    destruct H as (r' & Hf' & He & Hc & Hat & _). rewrite Hf in Hf'. inversion Hf'; subst r'.
    rewrite (IT.wf_inv_leaf s z u r Hw Hf Hc).
    exists (Leaf c). split; [assumption|]. split; [simpl; rewrite <- Ez; reflexivity|].
    simpl. split; [reflexivity|]. split; [eauto|congruence].
  - exfalso. eapply H. eassumption.
Qed.

Corollary wf_tree_is_emb : forall u c, IV.wf_tree s (zc c) u -> exists t, u = emb t /\ twf t c.
Proof.
  intros u c Hw. destruct (wf_emb (S (IV.height u)) u (zc c) (Nat.lt_succ_diag_r _) Hw) as (c' & t & Ec & -> & Hw').
  apply Nat2Z.inj in Ec. subst c'. eauto.
Qed.

(* ---------------------------------------------------------------- iunparse of an embedded tree *)
Lemma iunparse_node z kids :
  iunparse (IM.Node z kids) =
  match (fix go (l : list (option itree)) : option (subobj obj) :=
           match l with
           | [] => Some []
           | None :: r => match go r with Some ps => Some (None :: ps) | None => None end
           | Some x :: r => match iunparse x, go r with
                            | Some y, Some ps => Some (Some y :: ps)
                            | _, _ => None
                            end
           end) kids with
  | Some parts => bwd_at spec z parts
  | None => None
  end.
Proof. reflexivity. Qed.

Definition parts_of (l : list (option itree)) : option (subobj obj) :=
  (fix go (l : list (option itree)) : option (subobj obj) :=
     match l with
     | [] => Some []
     | None :: r => match go r with Some ps => Some (None :: ps) | None => None end
     | Some x :: r => match iunparse x, go r with
                      | Some y, Some ps => Some (Some y :: ps)
                      | _, _ => None
                      end
     end) l.

Lemma parts_of_app l1 l2 p1 p2 :
  parts_of l1 = Some p1 -> parts_of l2 = Some p2 -> parts_of (l1 ++ l2) = Some (p1 ++ p2).
Proof.
  revert p1. induction l1 as [|[x|] l1 IH]; intros p1 H1 H2; simpl in *.
  - inversion H1. simpl. assumption.
  - destruct (iunparse x) as [y|]; [|discriminate]. destruct (parts_of l1) as [ps|] eqn:E; [|discriminate].
    inversion H1; subst. rewrite (IH ps eq_refl H2). reflexivity.
  - destruct (parts_of l1) as [ps|] eqn:E; [|discriminate].
    inversion H1; subst. rewrite (IH ps eq_refl H2). reflexivity.
Qed.

Lemma parts_of_repeat_None n : parts_of (repeat None n) = Some (repeat None n).
Proof. induction n as [|n IH]; simpl in *; [reflexivity|]. rewrite IH. reflexivity. Qed.

Lemma parts_of_one_hot K i x y : (i < K)%nat -> iunparse x = Some y ->
  parts_of (IV.one_hot K i x) = Some (slot K i y).
Proof.
  intros Hi Hx. unfold IV.one_hot. rewrite slot_split by assumption.
  apply parts_of_app; [apply parts_of_repeat_None|].
  change (parts_of ([Some x] ++ repeat None (K - S i)) = Some ([Some y] ++ repeat None (K - S i))).
  apply parts_of_app; [simpl; rewrite Hx; reflexivity|apply parts_of_repeat_None].
Qed.

Lemma emb_UNode c i t : emb (UNode c i t) = IM.Node (zc c) (IV.one_hot (arity spec c) i (emb t)).
Proof. reflexivity. Qed.
Lemma emb_PNode c ts : emb (PNode c ts) = IM.Node (zc c) (map (fun x => Some (emb x)) ts).
Proof. reflexivity. Qed.

Theorem iunparse_emb : forall t c, twf t c -> iunparse (emb t) = unparse t.
Proof.
  induction t as [c0|c0 i t IH|c0 ts IH] using tree_ind'; intros c Hw; simpl in Hw.
  - destruct Hw as (-> & _). simpl. rewrite Nat2Z.id. reflexivity.
  - destruct Hw as (-> & kids & maps & bwd & ci & Hs & Hi & Hw). specialize (IH ci Hw).
    assert (Hlt : (i < length kids)%nat) by (apply nth_error_Some; congruence).
    rewrite emb_UNode, iunparse_node. fold (parts_of (IV.one_hot (arity spec c) i (emb t))).
    unfold arity. rewrite Hs. simpl ParseTrees.unparse. rewrite Hs.
    destruct (unparse t) as [y|] eqn:Ey.
    + rewrite (parts_of_one_hot (length kids) i (emb t) y Hlt IH).
      unfold bwd_at. rewrite Nat2Z.id, Hs. reflexivity.
    + assert (E : parts_of (IV.one_hot (length kids) i (emb t)) = None).
      { unfold IV.one_hot. generalize (length kids - S i)%nat. intros m. clear - IH.
        induction i as [|i IHi]; [simpl; rewrite IH; reflexivity|].
        change (parts_of (None :: (repeat None i ++ [Some (emb t)] ++ repeat None m)) = None).
        simpl. simpl in IHi. rewrite IHi. reflexivity. }
      rewrite E. reflexivity.
  - destruct Hw as (-> & kids & mins & maxs & maps & bwd & Hs & Hall).
    rewrite emb_PNode, iunparse_node. fold (parts_of (map (fun x => Some (emb x)) ts)).
    rewrite unparse_PNode, Hs.
    assert (E : parts_of (map (fun x => Some (emb x)) ts) =
                match omap unparse ts with Some ys => Some (map Some ys) | None => None end).
    { clear - IH Hall. revert kids Hall. induction IH as [|x ts Hx _ IHts]; intros [|k kids] Hall; simpl in *; try tauto.
      destruct Hall as [H1 H2]. rewrite (Hx k H1). rewrite (IHts kids H2).
      destruct (unparse x); [|reflexivity]. destruct (omap unparse ts); reflexivity. }
    rewrite E. destruct (omap unparse ts) as [ys|]; [|reflexivity].
    unfold bwd_at. rewrite Nat2Z.id, Hs. reflexivity.
Qed.

(* sizes agree *)
Lemma ksum_map_Some (l : list itree) : IL.ksum s (map Some l) = py_sum (map (IV.tsize s) l).
Proof. induction l as [|x l IH]; simpl; [reflexivity|]. rewrite IH, py_sum_cons. reflexivity. Qed.

Theorem tsize_emb : forall t c, twf t c -> IV.tsize s (emb t) = tsz t.
Proof.
  destruct Hdesc as [Hd _].
  induction t as [c0|c0 i t IH|c0 ts IH] using tree_ind'; intros c Hw; simpl in Hw.
  - destruct Hw as (-> & [tbl Hs] & Ha). pose proof (Hd c) as H. unfold idesc_at in H. rewrite Hs in H.
    simpl. destruct (atom c) as [a|]; [|congruence]. destruct H as (r & _ & _ & _ & _ & E). symmetry. exact E.
  - destruct Hw as (-> & kids & maps & bwd & ci & Hs & Hi & Hw).
    rewrite emb_UNode, IL.tsize_node, IL.ksum_one_hot. simpl. eapply IH; eassumption.
  - destruct Hw as (-> & kids & mins & maxs & maps & bwd & Hs & Hall).
    rewrite emb_PNode, IL.tsize_node, <- (map_map emb Some), ksum_map_Some, map_map. simpl. f_equal.
    clear - IH Hall. revert kids Hall. induction IH as [|x ts Hx _ IHts]; intros [|k kids] Hall; simpl in *; try tauto.
    destruct Hall as [H1 H2]. f_equal; [eapply Hx; eassumption|eapply IHts; eassumption].
Qed.

(* scope: a well-formed tree never passes through a rule whose constructor is neither a union nor a
   product (Complement 2 / Quotient 3 = the reverse of a non-equivalence rule), unless it is an
   equivalence step *)
Theorem scope_tags : forall z u r, IV.wf_tree s z u -> IM.find_rule s z = Some r ->
  IM.r_children r <> [] -> IM.r_iseq r = false ->
  IM.c_tag (IM.r_ctor r) = 0 \/ IM.c_tag (IM.r_ctor r) = 1.
Proof.
  intros z u r Hw Hf Hc Hq.
  destruct (IT.wf_inv_node s z u r Hw Hf Hq Hc) as (_ & [(i & d & t' & Ht & _)|(ts & Ht & _)]); auto.
Qed.

End Side.

(* ---------------------------------------------------------------- two sides: transport of OBJECTS *)
Section Gen.
Context {objA objB : Type}.
Variables (sizeA : objA -> Z) (InA : nat -> objA -> Prop) (parA : nat -> objA -> params).
Variables (specA : nat -> option (rule objA)) (atomA : nat -> option objA) (fwdA : nat -> objA -> subobj objA).
Variables (sizeB : objB -> Z) (InB : nat -> objB -> Prop) (parB : nat -> objB -> params).
Variables (specB : nat -> option (rule objB)) (atomB : nat -> option objB) (fwdB : nat -> objB -> subobj objB).
Variables sA sB : IM.spec.
Variables rootA rootB : nat.
Variables rankA rankB : nat -> Z -> nat.

Hypothesis contractsA : forall c, node_ok sizeA InA parA specA atomA fwdA c.
Hypothesis closedA : forall c r n c' m, specA c = Some r -> 0 <= n -> In (c', m) (reads r n) -> specA c' <> None.
Hypothesis rankA_reads : forall c r n c' m, specA c = Some r -> 0 <= n -> In (c', m) (reads r n) ->
                                            0 <= m /\ (rankA c' m < rankA c n)%nat.
Hypothesis sizeA_nonneg : forall c o, InA c o -> 0 <= sizeA o.
Hypothesis descA : idescribes sizeA specA atomA sA.
Hypothesis rootA_rule : specA rootA <> None.

Hypothesis contractsB : forall c, node_ok sizeB InB parB specB atomB fwdB c.
Hypothesis closedB : forall c r n c' m, specB c = Some r -> 0 <= n -> In (c', m) (reads r n) -> specB c' <> None.
Hypothesis rankB_reads : forall c r n c' m, specB c = Some r -> 0 <= n -> In (c', m) (reads r n) ->
                                            0 <= m /\ (rankB c' m < rankB c n)%nat.
Hypothesis sizeB_nonneg : forall c o, InB c o -> 0 <= sizeB o.
Hypothesis descB : idescribes sizeB specB atomB sB.

(* the tree maps (Bijection.map / inverse_map on parse trees, or the other way round) *)
Variables F G : nat -> itree -> IM.res itree.
Hypothesis tree_level : forall t, IV.wf_tree sA (Z.of_nat rootA) t ->
  exists u, IV.wf_tree sB (Z.of_nat rootB) u /\ IV.tsize sB u = IV.tsize sA t /\
    exists f0, forall f, (f0 <= f)%nat -> F f t = IM.Ok u /\ G f u = IM.Ok t.

(* parse in A, transport, unparse in B *)
Definition omapAB (f : nat) (o : objA) : option objB :=
  match parse specA atomA fwdA f rootA o with
  | Some t => match F f (emb specA t) with IM.Ok u => iunparse specB atomB u | _ => None end
  | None => None
  end.
Definition omapBA (f : nat) (o : objB) : option objA :=
  match parse specB atomB fwdB f rootB o with
  | Some u => match G f (emb specB u) with IM.Ok t => iunparse specA atomA t | _ => None end
  | None => None
  end.

Theorem transport_objects : forall o, InA rootA o ->
  exists o', InB rootB o' /\ sizeB o' = sizeA o /\
    exists f0, forall f, (f0 <= f)%nat -> omapAB f o = Some o' /\ omapBA f o' = Some o.
Proof.
  intros o Ho.
  destruct (parse_total sizeA InA parA specA atomA fwdA contractsA rankA closedA rankA_reads sizeA_nonneg
                        (rankA rootA (sizeA o)) rootA o (le_n _) rootA_rule Ho) as (t & Hw & Hu & fa & Hpa).
  pose proof (emb_wf sizeA specA atomA sA descA t rootA Hw) as HW.
  destruct (tree_level _ HW) as (U & HWU & Hsz & fb & Hfb).
  destruct (wf_tree_is_emb sizeB specB atomB sB descB U rootB HWU) as (u & -> & Hwu).
  destruct (unparse_sound sizeB InB parB specB atomB fwdB contractsB u rootB Hwu) as (o' & Hu' & Ho' & Hs' & _).
  destruct (parse_unparse sizeB InB parB specB atomB fwdB contractsB rankB closedB rankB_reads sizeB_nonneg
                          u rootB o' Hwu Hu') as (_ & fc & Hpc).
  destruct (unparse_sound sizeA InA parA specA atomA fwdA contractsA t rootA Hw) as (o0 & Hu0 & _ & Hs0 & _).
  rewrite Hu in Hu0. inversion Hu0; subst o0.
  exists o'. split; [assumption|]. split.
  - rewrite Hs', <- (tsize_emb sizeB specB atomB sB descB u rootB Hwu), Hsz,
            (tsize_emb sizeA specA atomA sA descA t rootA Hw). symmetry. assumption.
  - exists (Nat.max fa (Nat.max fb fc)). intros f Hf. unfold omapAB, omapBA.
    rewrite Hpa by lia. destruct (Hfb f ltac:(lia)) as [E1 E2]. rewrite E1.
    rewrite (iunparse_emb specB atomB u rootB Hwu), Hu'. split; [reflexivity|].
    rewrite Hpc by lia. rewrite E2. rewrite (iunparse_emb specA atomA t rootA Hw). assumption.
Qed.
End Gen.

(* C12_constructed_bijection_objects: Bijection.map on OBJECTS (parse in the first specification,
   ParseTreeMap, unparse in the second) is a size-preserving bijection from the objects of the first
   root onto those of the second, with inverse_map as inverse *)
Section Two.
Context {obj1 obj2 : Type}.
Variables (size1 : obj1 -> Z) (In1 : nat -> obj1 -> Prop) (par1 : nat -> obj1 -> params).
Variables (spec1 : nat -> option (rule obj1)) (atom1 : nat -> option obj1) (fwd1 : nat -> obj1 -> subobj obj1).
Variables (size2 : obj2 -> Z) (In2 : nat -> obj2 -> Prop) (par2 : nat -> obj2 -> params).
Variables (spec2 : nat -> option (rule obj2)) (atom2 : nat -> option obj2) (fwd2 : nat -> obj2 -> subobj obj2).
Variables s1 s2 : IM.spec.
Variables root1 root2 : nat.
Variables rank1 rank2 : nat -> Z -> nat.

Hypothesis contracts1 : forall c, node_ok size1 In1 par1 spec1 atom1 fwd1 c.
Hypothesis closed1 : forall c r n c' m, spec1 c = Some r -> 0 <= n -> In (c', m) (reads r n) -> spec1 c' <> None.
Hypothesis rank1_reads : forall c r n c' m, spec1 c = Some r -> 0 <= n -> In (c', m) (reads r n) ->
                                            0 <= m /\ (rank1 c' m < rank1 c n)%nat.
Hypothesis size1_nonneg : forall c o, In1 c o -> 0 <= size1 o.
Hypothesis desc1 : idescribes size1 spec1 atom1 s1.
Hypothesis root1_rule : spec1 root1 <> None.
Hypothesis root1_label : IM.s_root s1 = Z.of_nat root1.

Hypothesis contracts2 : forall c, node_ok size2 In2 par2 spec2 atom2 fwd2 c.
Hypothesis closed2 : forall c r n c' m, spec2 c = Some r -> 0 <= n -> In (c', m) (reads r n) -> spec2 c' <> None.
Hypothesis rank2_reads : forall c r n c' m, spec2 c = Some r -> 0 <= n -> In (c', m) (reads r n) ->
                                            0 <= m /\ (rank2 c' m < rank2 c n)%nat.
Hypothesis size2_nonneg : forall c o, In2 c o -> 0 <= size2 o.
Hypothesis desc2 : idescribes size2 spec2 atom2 s2.
Hypothesis root2_rule : spec2 root2 <> None.
Hypothesis root2_label : IM.s_root s2 = Z.of_nat root2.

(* Bijection.map / Bijection.inverse_map on objects *)
Definition obj_map (ord : IM.order_map) (f : nat) (o : obj1) : option obj2 :=
  match parse spec1 atom1 fwd1 f root1 o with
  | Some t => match IM.bij_map s1 s2 ord f (emb spec1 t) with
              | IM.Ok u => iunparse spec2 atom2 u
              | _ => None
              end
  | None => None
  end.
Definition obj_inverse_map (ord : IM.order_map) (f : nat) (o : obj2) : option obj1 :=
  match parse spec2 atom2 fwd2 f root2 o with
  | Some u => match IM.bij_inverse_map s1 s2 ord f (emb spec2 u) with
              | IM.Ok t => iunparse spec1 atom1 t
              | _ => None
              end
  | None => None
  end.

Theorem objects_bijection : forall ord,
  (* the conclusion of C12_constructed_bijection / C12_transport_inverse for this order map *)
  ((forall t, IV.wf_tree s1 (IM.s_root s1) t ->
      exists u, IV.wf_tree s2 (IM.s_root s2) u /\ IV.tsize s2 u = IV.tsize s1 t /\
        (exists f0, forall f, (f0 <= f)%nat ->
           IM.bij_map s1 s2 ord f t = IM.Ok u /\ IM.bij_inverse_map s1 s2 ord f u = IM.Ok t)) /\
   (forall u, IV.wf_tree s2 (IM.s_root s2) u ->
      exists t, IV.wf_tree s1 (IM.s_root s1) t /\ IV.tsize s1 t = IV.tsize s2 u /\
        (exists f0, forall f, (f0 <= f)%nat ->
           IM.bij_inverse_map s1 s2 ord f u = IM.Ok t /\ IM.bij_map s1 s2 ord f t = IM.Ok u))) ->
  (forall o, In1 root1 o ->
     exists o', In2 root2 o' /\ size2 o' = size1 o /\
       exists f0, forall f, (f0 <= f)%nat -> obj_map ord f o = Some o' /\ obj_inverse_map ord f o' = Some o) /\
  (forall o', In2 root2 o' ->
     exists o, In1 root1 o /\ size1 o = size2 o' /\
       exists f0, forall f, (f0 <= f)%nat -> obj_inverse_map ord f o' = Some o /\ obj_map ord f o = Some o').
Proof.
  intros ord [T1 T2]. rewrite root1_label, root2_label in T1, T2. split.
  - intros o Ho.
    exact (transport_objects size1 In1 par1 spec1 atom1 fwd1 size2 In2 par2 spec2 atom2 fwd2 s1 s2 root1 root2
             rank1 rank2 contracts1 closed1 rank1_reads size1_nonneg desc1 root1_rule
             contracts2 closed2 rank2_reads size2_nonneg desc2
             (fun f t => IM.bij_map s1 s2 ord f t) (fun f u => IM.bij_inverse_map s1 s2 ord f u) T1 o Ho).
  - intros o Ho.
    exact (transport_objects size2 In2 par2 spec2 atom2 fwd2 size1 In1 par1 spec1 atom1 fwd1 s2 s1 root2 root1
             rank2 rank1 contracts2 closed2 rank2_reads size2_nonneg desc2 root2_rule
             contracts1 closed1 rank1_reads size1_nonneg desc1
             (fun f u => IM.bij_inverse_map s1 s2 ord f u) (fun f t => IM.bij_map s1 s2 ord f t) T2 o Ho).
Qed.
End Two.
