(* On closed specifications the search raises no exception (the model never returns Raise):
   every class met has a rule, rules with children are Rules with a non-empty child. *)
From Coq Require Import ZArith List Bool Lia.
From CSS Require Import Base.PyList Iso.Model Iso.Valid Iso.SearchBasics Iso.Search.
Import ListNotations.
Open Scope Z_scope.

Definition closed_spec (s : spec) : Prop :=
  (forall c r, find_rule s c = Some r -> r_iseq r = true ->
     exists d l r', r_children r = d :: l /\ find_rule s d = Some r') /\
  (forall c r d, find_rule s c = Some r -> In d (ne_children s r) -> exists r', find_rule s d = Some r') /\
  (forall c r, find_rule s c = Some r -> r_children r <> [] ->
     r_isrule r = true /\ ne_children s r <> []) /\
  (exists r, find_rule s (s_root s) = Some r).

Section Loop.
Variables (ne1 ne2 : list Z) (n : nat).
Hypothesis Hn1 : length ne1 = n.
Hypothesis Hn2 : length ne2 = n.
Variable rec : st -> Z -> Z -> res (bool * st).
Hypothesis Hrec : forall s x y e, In x ne1 -> In y ne2 -> rec s x y <> Raise e.

Lemma loop_no_raise g : forall stack bl co s e,
  (forall el, In el stack -> (fst (fst el) < n)%nat /\ (snd (fst el) < n)%nat) ->
  iso_loop rec g ne1 ne2 n stack bl co s <> Raise e.
Proof.
  induction g as [|g IH]; intros stack bl co s e Hst; [discriminate|].
  cbn [iso_loop]. destruct stack as [|[[i1 i2] U] stack']; [discriminate|].
  destruct (Hst (i1, i2, U) (or_introl eq_refl)) as [H1 H2]. simpl in H1, H2.
  assert (Hst' : forall el, In el stack' -> (fst (fst el) < n)%nat /\ (snd (fst el) < n)%nat)
    by (intros el Hel; apply Hst; right; auto).
  destruct (npair_in (i1, i2) bl); [apply IH; auto|].
  destruct (nth_error ne1 i1) as [x|] eqn:Ex; [|apply nth_error_None in Ex; lia].
  destruct (nth_error ne2 i2) as [y|] eqn:Ey; [|apply nth_error_None in Ey; lia].
  destruct (rec s x y) as [[[|] s0]| |] eqn:Er; try discriminate.
  - destruct (Nat.eqb (S i1) n) eqn:E; [discriminate|]. apply Nat.eqb_neq in E.
    apply IH. rewrite extend_stack_eq. intros el Hel. apply in_app_or in Hel. destruct Hel as [Hel|Hel]; auto.
    apply in_map_iff in Hel. destruct Hel as (i & <- & Hi). apply filter_In in Hi. destruct Hi as [Hi _].
    apply in_seq in Hi. simpl. lia.
  - apply IH; auto.
  - intros X. inversion X; subst. eapply Hrec; eauto using nth_error_In.
Qed.
End Loop.

Section NoRaise.
Variable exact : bool.
Variables s1 s2 : spec.
Hypothesis C1 : closed_spec s1.
Hypothesis C2 : closed_spec s2.

Lemma eq_path_closed s n r : closed_spec s -> find_rule s n = Some r ->
  exists p r', eq_path s n = Ok p /\ find_rule s (last p n) = Some r'.
Proof.
  intros (Heq & _) F. unfold eq_path. rewrite F. destruct (r_iseq r) eqn:Q.
  - destruct (Heq n r F Q) as (d & l & r' & Hc & Fd). rewrite Hc.
    exists [n; d], r'. split; [reflexivity|exact Fd].
  - exists [n], r. split; [reflexivity|exact F].
Qed.

Lemma iso_no_raise : forall f s a b ra rb e,
  find_rule s1 a = Some ra -> find_rule s2 b = Some rb ->
  iso exact s1 s2 f s a b <> Raise e.
Proof.
  induction f as [|f IH]; intros s a b ra rb e Fa Fb; [discriminate|].
  cbn [iso].
  destruct (eq_path_closed s1 a ra C1 Fa) as (p1 & r1 & E1 & F1).
  destruct (eq_path_closed s2 b rb C2 Fb) as (p2 & r2 & E2 & F2).
  rewrite E1, E2. cbn [bind]. rewrite F1, F2.
  destruct C1 as (_ & Hch1 & Hr1 & _). destruct C2 as (_ & Hch2 & Hr2 & _).
  set (c1 := last p1 a) in *. set (c2 := last p2 b) in *.
  (* _base_cases does not reach the assertion *)
  assert (Hb : forall bc, base_cases exact s p1 p2 c1 c2 r1 r2 (ne_children s1 r1) (ne_children s2 r2) <> Raise bc).
  { intros bc. unfold base_cases.
    destruct (om_has (om s) (c1, c2)); [discriminate|].
    destruct (pair_in (c1, c2) (failed s)); [discriminate|].
    destruct (Nat.eqb (length (ne_children s1 r1)) (length (ne_children s2 r2))) eqn:El; cbn [negb]; [|discriminate].
    apply Nat.eqb_eq in El.
    destruct (isnil (r_children r1) && isnil (r_children r2)) eqn:Enil.
    { destruct (r_atom r1 && r_atom r2 && akey_eqb (r_akey r1) (r_akey r2)); discriminate. }
    assert (X : r_children r1 <> [] /\ r_children r2 <> []).
    { destruct (r_children r1) as [|x l1] eqn:K1.
      - assert (N1 : ne_children s1 r1 = []) by (unfold ne_children; rewrite K1; reflexivity).
        destruct (r_children r2) as [|y l2] eqn:K2; [simpl in Enil; discriminate|].
        exfalso. assert (K2' : r_children r2 <> []) by (rewrite K2; discriminate).
        destruct (Hr2 c2 r2 F2 K2') as [_ Hn]. apply Hn. apply length_zero_iff_nil. rewrite <- El, N1. reflexivity.
      - split; [discriminate|]. intros K2.
        assert (N2 : ne_children s2 r2 = []) by (unfold ne_children; rewrite K2; reflexivity).
        assert (K1' : r_children r1 <> []) by (rewrite K1; discriminate).
        destruct (Hr1 c1 r1 F1 K1') as [_ Hn]. apply Hn. apply length_zero_iff_nil. rewrite El, N2. reflexivity. }
    destruct X as [X1 X2].
    destruct (Hr1 c1 r1 F1 X1) as [-> _]. destruct (Hr2 c2 r2 F2 X2) as [-> _]. cbn [andb negb].
    destruct (Bool.eqb (r_iseq r1) (r_iseq r2)); cbn [negb]; [|discriminate].
    destruct (ctor_equiv (r_ctor r1) (r_ctor r2)); cbn [negb]; [|discriminate].
    destruct (existsb (fun p => pair_in p (anc s)) (anc_pairs exact p1 p2 c1 c2)); discriminate. }
  destruct (base_cases exact s p1 p2 c1 c2 r1 r2 (ne_children s1 r1) (ne_children s2 r2)) as [bc| |] eqn:Eb;
    cbn [bind]; try discriminate; [|exfalso; eapply Hb; eauto].
  destruct (Z.eqb bc 1) eqn:B1; [discriminate|].
  destruct (Z.eqb bc (-1)) eqn:B2; [discriminate|].
  apply Z.eqb_neq in B1. apply Z.eqb_neq in B2.
  assert (Hlen : length (ne_children s1 r1) = length (ne_children s2 r2)).
  { revert Eb. unfold base_cases.
    destruct (om_has (om s) (c1, c2)); [intros H; inversion H; congruence|].
    destruct (pair_in (c1, c2) (failed s)); [intros H; inversion H; congruence|].
    destruct (Nat.eqb (length (ne_children s1 r1)) (length (ne_children s2 r2))) eqn:El; cbn [negb];
      [intros _; apply Nat.eqb_eq; auto|intros H; inversion H; congruence]. }
  set (n := length (ne_children s1 r1)).
  match goal with
  | |- ?X >>= _ <> Raise e => assert (Hloop : X <> Raise e)
  end.
  { apply (loop_no_raise (ne_children s1 r1) (ne_children s2 r2) n eq_refl (eq_sym Hlen)).
    - intros t x y e' Hx Hy. destruct (Hch1 c1 r1 x F1 Hx) as (rx & Fx). destruct (Hch2 c2 r2 y F2 Hy) as (ry & Fy).
      eapply IH; eauto.
    - intros el Hel. rewrite init_stack_eq in Hel. apply in_map_iff in Hel.
      destruct Hel as (i & <- & Hi). apply in_seq in Hi. simpl.
      assert ((0 < n)%nat) by lia. lia. }
  destruct (iso_loop (iso exact s1 s2 f) (S f) (ne_children s1 r1) (ne_children s2 r2) n
                     (init_stack n) [] (repeat (-1) n)
                     (mkSt (set_add_all (anc s) (anc_pairs exact p1 p2 c1 c2)) (om s) (failed s)))
    as [[[co|] s0]| |]; cbn [bind]; try discriminate. intros X; apply Hloop; inversion X; reflexivity.
Qed.

Theorem search_no_raise : forall f e, are_isomorphic exact s1 s2 f <> Raise e.
Proof.
  intros f e. unfold are_isomorphic.
  destruct C1 as (_ & _ & _ & (ra & Fa)). destruct C2 as (_ & _ & _ & (rb & Fb)).
  eapply iso_no_raise; eauto.
Qed.
End NoRaise.
