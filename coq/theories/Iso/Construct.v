(* Bijection.construct after fix 25bcc90 (isomorphism.py:431-446):
       iso = Isomorphism(spec, other)
       if not iso.are_isomorphic(): return None
       if any(isinstance(rule, ReverseRule) and len(rule.original_rule.non_empty_children()) != 1
              for rule in ( *spec.rules_dict.values(), *other.rules_dict.values())): return None
       return cls(spec, other, iso.get_order(), iso.get_order_data())
   On the descriptor: the reverse of a NON-equivalence rule is a Rule that is not an equivalence and whose
   constructor is a Complement (tag 2: reverse of a union) or a Quotient (tag 3: reverse of a product) - these
   two constructors come from reverse_constructor only.  (harness/props/c12.py compares this reading with the
   code's own test on every case: "descriptor guard".)  Definitions and their immediate consequences. *)
From Coq Require Import ZArith List Bool Lia.
From CSS Require Import Base.PyList Iso.Model Iso.Valid Iso.Transport.
Import ListNotations.
Open Scope Z_scope.

Definition nonequiv_reverse (r : rule) : bool :=
  r_isrule r && negb (r_iseq r) && (Z.eqb (c_tag (r_ctor r)) 2 || Z.eqb (c_tag (r_ctor r)) 3).

Definition blocked (s : spec) : bool := existsb (fun kr => nonequiv_reverse (snd kr)) (s_rules s).

(* Bijection.construct: Some order map = a Bijection object is returned *)
Definition construct (exact : bool) (s1 s2 : spec) (fuel : nat) : res (option order_map) :=
  are_isomorphic exact s1 s2 fuel >>= fun r =>
  if fst r then (if blocked s1 || blocked s2 then Ok None else Ok (Some (om (snd r)))) else Ok None.

Lemma find_rule_in_rules : forall l c r, find_rule_in l c = Some r -> In (c, r) l.
Proof.
  induction l as [|[k r0] l IH]; intros c r H; simpl in H; [discriminate|].
  destruct (Z.eqb_spec k c) as [->|Hne]; [inversion H; left; reflexivity|right; apply IH; assumption].
Qed.

(* a bijection is constructed exactly when the test answers True and neither specification holds the reverse
   of a non-equivalence rule; its order map is the one the test leaves *)
Theorem construct_spec : forall exact s1 s2 fuel ord,
  construct exact s1 s2 fuel = Ok (Some ord) <->
  exists st, are_isomorphic exact s1 s2 fuel = Ok (true, st) /\ ord = om st /\
             blocked s1 = false /\ blocked s2 = false.
Proof.
  intros exact s1 s2 fuel ord. unfold construct. split.
  - destruct (are_isomorphic exact s1 s2 fuel) as [[b st]| |e]; simpl; try discriminate.
    destruct b; simpl; [|discriminate].
    destruct (blocked s1) eqn:B1; simpl; [discriminate|].
    destruct (blocked s2) eqn:B2; simpl; [discriminate|].
    intros E. inversion E. exists st. auto.
  - intros (st & E & -> & B1 & B2). rewrite E. simpl. rewrite B1, B2. reflexivity.
Qed.

(* it refuses as soon as one specification holds such a rule, whatever the test says (and raises nothing new) *)
Theorem construct_refuses : forall exact s1 s2 fuel,
  blocked s1 = true \/ blocked s2 = true ->
  forall ord, construct exact s1 s2 fuel <> Ok (Some ord).
Proof.
  intros exact s1 s2 fuel H ord E. apply construct_spec in E. destruct E as (st & _ & _ & B1 & B2).
  destruct H; congruence.
Qed.

(* a constructed bijection never meets such a rule: every rule the parse trees pass through is an atom, an
   equivalence step, a union (tag 0) or a product (tag 1) - the forms covered by wf_tree - or has no
   well-formed tree at all (e.g. a constructor type of the user) *)
Theorem constructed_in_scope : forall exact s1 s2 fuel ord,
  construct exact s1 s2 fuel = Ok (Some ord) ->
  forall c r, (find_rule s1 c = Some r \/ find_rule s2 c = Some r) -> nonequiv_reverse r = false.
Proof.
  intros exact s1 s2 fuel ord E c r H. apply construct_spec in E. destruct E as (st & _ & _ & B1 & B2).
  unfold blocked in B1, B2.
  destruct H as [H|H]; apply find_rule_in_rules in H.
  - destruct (nonequiv_reverse r) eqn:Er; [|reflexivity].
    assert (X : existsb (fun kr : Z * rule => nonequiv_reverse (snd kr)) (s_rules s1) = true)
      by (apply existsb_exists; exists (c, r); auto). congruence.
  - destruct (nonequiv_reverse r) eqn:Er; [|reflexivity].
    assert (X : existsb (fun kr : Z * rule => nonequiv_reverse (snd kr)) (s_rules s2) = true)
      by (apply existsb_exists; exists (c, r); auto). congruence.
Qed.

(* conversely the class of the reverse of a non-equivalence rule has NO well-formed parse tree: over such a
   specification C12_constructed_bijection says nothing about the objects passing through it - which is why the
   code refuses *)
Theorem nonequiv_reverse_no_tree : forall s c r u,
  find_rule s c = Some r -> nonequiv_reverse r = true -> r_children r <> [] -> ~ wf_tree s c u.
Proof.
  intros s c r u Hf Hn Hc Hw. unfold nonequiv_reverse in Hn.
  apply andb_true_iff in Hn. destruct Hn as [Hn Ht]. apply andb_true_iff in Hn. destruct Hn as [_ Hq].
  apply negb_true_iff in Hq.
  destruct (wf_inv_node s c u r Hw Hf Hq Hc) as (_ & [(i & d & t' & T & _)|(ts & T & _)]);
    rewrite T in Ht; discriminate.
Qed.
